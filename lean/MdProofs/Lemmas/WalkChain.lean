/-
  Helper lemmas for C04: one `get_caller_frame` on a frame-pointer record, the end of a chain
  (scanning zero words finds nothing), per architecture. Property theorems are in `MdProofs/C04.lean`.
-/
import MdProofs.Lemmas.Walk
namespace MdModel.Walk
open MdModel

/-- the frame the walker must produce for an expected caller of a frame-pointer chain -/
def fpFrame (a : Arch) (e : Exp) : Frame :=
  let v := e.fp.getD 0
  match a with
  | .x86 => { ctx := { ip := e.ret, sp := e.sp, rest := [("ebp", v)], valid := some ["eip", "esp", "ebp"] },
              trust := .fp, instruction := e.ret - 1 }
  | .amd64 => { ctx := { ip := e.ret, sp := e.sp, rest := [("rbp", v)], valid := some ["rip", "rsp", "rbp"] },
                trust := .fp, instruction := e.ret - 1 }
  | .arm => { ctx := { ip := e.ret, sp := e.sp, rest := [("fp", v)], valid := some ["r15", "r11", "r13"] },
              trust := .fp, instruction := e.ret - 2 }
  | _ => { ctx := { ip := e.ret, sp := e.sp, rest := [("fp", v)], valid := some ["pc", "x29", "sp"] },
           trust := .fp, instruction := e.ret - 4 }

/-- the callee's registers as the frame-pointer unwinder of `a` sees them: stack pointer `sp`,
    frame pointer `fp`, both valid -/
def FpView (a : Arch) (c : Ctx) (sp fp : Nat) : Prop :=
  c.sp = sp ∧ c.raw a a.fpName = fp ∧ c.m64 = false ∧
  match a with
  | .x86 => c.hasLit "ebp" = true
  | .amd64 => c.hasLit "rbp" = true ∧ c.hasLit "rsp" = true
  | .arm => c.has .arm "r11" = true ∧ c.has .arm "r13" = true
  | _ => c.has a "x29" = true ∧ c.has a "sp" = true

theorem step_fp_x86 {env : Env} {mem : Mem} {f : Frame} {g : Option Frame} {e : Exp} {sp fp : Nat}
    (harch : env.arch = .x86) (hcfi : ∀ f g, env.cfi f g = none)
    (hv : FpView .x86 f.ctx sp fp) (hl : linkFp .x86 env.os env.mask mem sp fp e = true) :
    step env mem f g = some (fpFrame .x86 e) := by
  obtain ⟨hsp, hfp, _, hlit⟩ := hv
  simp only [linkFp, Bool.and_eq_true, decide_eq_true_eq, beq_iff_eq] at hl
  obtain ⟨⟨⟨hsome, hret⟩, hlt⟩, ⟨⟨hg, hr1⟩, hr2⟩, hesp⟩ := hl
  simp only [Arch.fpName] at hfp
  unfold step
  simp only [effArch, harch, Arch.isMips, candidate, hcfi, byFp, fpX86, hlit, hfp, hr1, hr2]
  simp only [Bool.not_true, Bool.false_eq_true, ↓reduceIte, Nat.not_le.mpr hg]
  simp [epilogue, nullish_eq, fpFrame, Arch.adj, Consts.adj_x86, Arch.leafOk, hesp, hsp]
  omega

theorem step_fp_amd64 {env : Env} {mem : Mem} {f : Frame} {g : Option Frame} {e : Exp} {sp fp : Nat}
    (harch : env.arch = .amd64) (hos : env.os ≠ .windows) (hcfi : ∀ f g, env.cfi f g = none)
    (hv : FpView .amd64 f.ctx sp fp) (hl : linkFp .amd64 env.os env.mask mem sp fp e = true) :
    step env mem f g = some (fpFrame .amd64 e) := by
  obtain ⟨hsp, hfp, _, hlit1, hlit2⟩ := hv
  simp only [linkFp, Bool.and_eq_true, decide_eq_true_eq, beq_iff_eq, if_neg hos, Bool.not_eq_true'] at hl
  obtain ⟨⟨⟨hsome, hret⟩, hlt⟩, ⟨⟨⟨⟨⟨⟨⟨⟨⟨⟨⟨hg, hge⟩, hesp⟩, hk⟩, _⟩, hr1⟩, hr2⟩, hle⟩, hr3⟩, hcan⟩, hr4⟩, hmax⟩⟩ := hl
  have hesp' : e.sp = fp + 16 := by rw [hk] at hesp; omega
  have e1 : e.sp - 8 = fp + 8 := by omega
  have e2 : e.sp - 16 = fp := by omega
  rw [e1] at hr1
  rw [e2] at hr2
  simp only [Arch.fpName] at hfp
  have hr3' : ∃ v, mem.read (e.fp.getD 0) 8 = some v := Option.isSome_iff_exists.mp hr3
  obtain ⟨v3, hr3'⟩ := hr3'
  have hstack : stackSeemsValid mem (fp + 16) f.ctx.sp = true := by
    unfold stackSeemsValid
    rw [if_neg (by omega)]
    rw [← hesp']; exact hr4
  unfold step
  simp only [effArch, harch, Arch.isMips, candidate, hcfi, byFp, fpAmd64, hlit1, hlit2, hfp, if_neg hos]
  simp only [Bool.not_true, Bool.false_eq_true, ↓reduceIte, Nat.not_le.mpr hg]
  simp only [resolveAmd64, Nat.zero_mul, Nat.add_zero]
  have h1 : ¬ fp > U64MAX := by omega
  have h2 : ¬ fp + 8 > U64MAX := by omega
  have h3 : ¬ fp + 16 > U64MAX := by omega
  have h4 : ¬ (fp + 16 ≤ fp ∨ e.fp.getD 0 < fp + 16) := by omega
  simp only [if_neg h1, if_neg h2, if_neg h3, hr1, hr2, if_neg h4, hr3', hcan, hstack]
  simp [epilogue, nullish_eq, fpFrame, Arch.adj, Consts.adj_amd64, Arch.leafOk, hesp', hsp]
  omega

theorem step_fp_arm {env : Env} {mem : Mem} {f : Frame} {g : Option Frame} {e : Exp} {sp fp : Nat}
    (harch : env.arch = .arm) (hcfi : ∀ f g, env.cfi f g = none)
    (hv : FpView .arm f.ctx sp fp) (hl : linkFp .arm env.os env.mask mem sp fp e = true) :
    step env mem f g = some (fpFrame .arm e) := by
  obtain ⟨hsp, hfp, _, hv1, hv2⟩ := hv
  simp only [linkFp, Bool.and_eq_true, decide_eq_true_eq, beq_iff_eq] at hl
  obtain ⟨⟨⟨hsome, hret⟩, hlt⟩, ⟨⟨⟨⟨⟨hos, hne⟩, hg⟩, hr1⟩, hr2⟩, hesp⟩⟩ := hl
  simp only [Arch.fpName] at hfp
  have hraw : f.ctx.raw .arm "r11" = fp := by
    rw [← hfp]; rfl
  have hget1 : f.ctx.get .arm "r11" = some fp := by
    simp [Ctx.get, hv1, hraw]
  have hget2 : f.ctx.get .arm "r13" = some f.ctx.sp := by
    simp only [Ctx.get, hv2, if_true]
    rfl
  unfold step
  simp only [effArch, harch, Arch.isMips, candidate, hcfi, byFp, fpArm, hos, hget1, hget2]
  simp only [ne_eq, not_true_eq_false, ↓reduceIte, Nat.not_le.mpr hg, if_neg hne, hr1, hr2]
  simp [epilogue, nullish_eq, fpFrame, Arch.adj, Consts.adj_arm, hesp, hsp]
  omega

theorem step_fp_arm64 {env : Env} {a : Arch} {mem : Mem} {f : Frame} {g : Option Frame} {e : Exp} {sp fp : Nat}
    (ha : a = .arm64 ∨ a = .arm64old) (harch : env.arch = a) (hcfi : ∀ f g, env.cfi f g = none)
    (hv : FpView a f.ctx sp fp) (hl : linkFp a env.os env.mask mem sp fp e = true) :
    step env mem f g = some (fpFrame a e) := by
  rcases ha with ha | ha <;> subst ha
  ·
    obtain ⟨hsp, hfp, _, hv1, hv2⟩ := hv
    simp only [linkFp, Bool.and_eq_true, decide_eq_true_eq, beq_iff_eq, Bool.not_eq_true'] at hl
    obtain ⟨⟨⟨hsome, hret⟩, hlt⟩, ⟨⟨⟨⟨⟨⟨⟨hne, hg⟩, hr1⟩, hr2⟩, hesp⟩, hm1⟩, hm2⟩, hcan⟩⟩ := hl
    simp only [Arch.fpName] at hfp
    have hget1 : f.ctx.get Arch.arm64 "x29" = some fp := by
      simp only [Ctx.get, hv1, if_true]
      rw [← hfp]; rfl
    have hget2 : f.ctx.get Arch.arm64 "sp" = some f.ctx.sp := by
      simp only [Ctx.get, hv2, if_true]
      rfl
    unfold step
    simp only [effArch, harch, Arch.isMips, candidate, hcfi, byFp, fpArm64]
    simp only [Bool.false_eq_true, ↓reduceIte]
    rw [hget1, hget2]
    simp only [Nat.not_le.mpr hg, ↓reduceIte, if_neg hne, hr1, hr2, hm1, hm2, hcan]
    simp [epilogue, nullish_eq, fpFrame, Arch.adj, Consts.adj_arm64, Consts.adj_arm64old, hesp, hsp]
    omega
  ·
    obtain ⟨hsp, hfp, _, hv1, hv2⟩ := hv
    simp only [linkFp, Bool.and_eq_true, decide_eq_true_eq, beq_iff_eq, Bool.not_eq_true'] at hl
    obtain ⟨⟨⟨hsome, hret⟩, hlt⟩, ⟨⟨⟨⟨⟨⟨⟨hne, hg⟩, hr1⟩, hr2⟩, hesp⟩, hm1⟩, hm2⟩, hcan⟩⟩ := hl
    simp only [Arch.fpName] at hfp
    have hget1 : f.ctx.get Arch.arm64old "x29" = some fp := by
      simp only [Ctx.get, hv1, if_true]
      rw [← hfp]; rfl
    have hget2 : f.ctx.get Arch.arm64old "sp" = some f.ctx.sp := by
      simp only [Ctx.get, hv2, if_true]
      rfl
    unfold step
    simp only [effArch, harch, Arch.isMips, candidate, hcfi, byFp, fpArm64]
    simp only [Bool.false_eq_true, ↓reduceIte]
    rw [hget1, hget2]
    simp only [Nat.not_le.mpr hg, ↓reduceIte, if_neg hne, hr1, hr2, hm1, hm2, hcan]
    simp [epilogue, nullish_eq, fpFrame, Arch.adj, Consts.adj_arm64, Consts.adj_arm64old, hesp, hsp]
    omega

/-! ### the end of a chain: scanning zero words finds nothing -/

theorem zerosFrom_read {mem : Mem} {p sp i v : Nat} (hp : 0 < p) (hz : zerosFrom mem p sp = true)
    (hr : mem.read (sp + i * p) p = some v) : v = 0 := by
  unfold zerosFrom at hz
  simp only [Bool.and_eq_true, decide_eq_true_eq, List.all_eq_true, List.mem_range, beq_iff_eq] at hz
  obtain ⟨hb, hall⟩ := hz
  have hr' := hr
  unfold Mem.read at hr'
  split at hr'
  · cases hr'
  · simp only at hr'
    split at hr'
    · rename_i hle
      have hi : i < (mem.base + mem.size - sp) / p := by
        rw [Nat.lt_div_iff_mul_lt hp]
        have : (i + 1) * p ≤ mem.base + mem.size - sp := by
          rw [Nat.add_mul]; omega
        have h2 : (i + 1) * p = i * p + p := by rw [Nat.add_mul]; omega
        omega
      have := hall i hi
      rw [hr] at this
      injection this
    · cases hr'

theorem scanFrom_zeros {ok : Nat → Bool} {mem : Mem} {p lim sp : Nat} (hp : 0 < p)
    (hz : zerosFrom mem p sp = true) (hok : ok 0 = false) :
    ∀ (n i : Nat), scanFrom ok mem p lim sp n i = none := by
  intro n
  induction n with
  | zero => intro i; rfl
  | succ n ih =>
    intro i
    unfold scanFrom
    simp only
    split
    · rfl
    · split
      · rfl
      · rename_i v hv
        have : v = 0 := zerosFrom_read hp hz hv
        subst this
        rw [hok]
        simp only [Bool.false_eq_true, ↓reduceIte]
        exact ih (i + 1)

theorem step_end_x86 {env : Env} {mem : Mem} {f : Frame} {g : Option Frame} {sp fp : Nat}
    (harch : env.arch = .x86) (hcfi : ∀ f g, env.cfi f g = none)
    (hv : FpView .x86 f.ctx sp fp) (he : endFp .x86 env.os mem sp fp = true) :
    step env mem f g = none := by
  obtain ⟨hsp, hfp, _, hlit⟩ := hv
  simp only [endFp, Bool.and_eq_true, decide_eq_true_eq, beq_iff_eq] at he
  obtain ⟨⟨_, _⟩, ⟨hr1, hr2⟩, hg⟩ := he
  simp only [Arch.fpName] at hfp
  unfold step
  simp only [effArch, harch, Arch.isMips, candidate, hcfi, byFp, fpX86, hlit, hfp, hr1, hr2]
  simp only [Bool.not_true, Bool.false_eq_true, ↓reduceIte, Nat.not_le.mpr hg]
  simp [epilogue, nullish_eq]

theorem step_end_arm {env : Env} {mem : Mem} {f : Frame} {g : Option Frame} {sp fp : Nat}
    (harch : env.arch = .arm) (hcfi : ∀ f g, env.cfi f g = none)
    (hv : FpView .arm f.ctx sp fp) (he : endFp .arm env.os mem sp fp = true) :
    step env mem f g = none := by
  obtain ⟨hsp, hfp, _, hv1, hv2⟩ := hv
  simp only [endFp, Bool.and_eq_true, decide_eq_true_eq, beq_iff_eq] at he
  obtain ⟨⟨_, _⟩, ⟨⟨hos, hr1⟩, hr2⟩, hg⟩ := he
  simp only [Arch.fpName] at hfp
  have hget1 : f.ctx.get .arm "r11" = some fp := by
    simp only [Ctx.get, hv1, if_true]
    rw [← hfp]; rfl
  have hget2 : f.ctx.get .arm "r13" = some f.ctx.sp := by
    simp only [Ctx.get, hv2, if_true]
    rfl
  unfold step
  simp only [effArch, harch, Arch.isMips, candidate, hcfi, byFp, fpArm, hos]
  simp only [ne_eq, not_true_eq_false, ↓reduceIte]
  rw [hget1, hget2]
  simp only [Nat.not_le.mpr hg, ↓reduceIte]
  by_cases h0 : fp = 0
  · simp [h0, epilogue, nullish_eq]
  · simp [h0, hr1, hr2, epilogue, nullish_eq]

theorem step_end_amd64 {env : Env} {mem : Mem} {f : Frame} {g : Option Frame} {sp fp : Nat}
    (harch : env.arch = .amd64) (hos : env.os ≠ .windows) (hcfi : ∀ f g, env.cfi f g = none)
    (hv : FpView .amd64 f.ctx sp fp) (he : endFp .amd64 env.os mem sp fp = true) :
    step env mem f g = none := by
  obtain ⟨hsp, hfp, _, hlit1, hlit2⟩ := hv
  simp only [endFp, Bool.and_eq_true, decide_eq_true_eq, beq_iff_eq] at he
  obtain ⟨⟨_, hz⟩, ⟨hr1, hr2⟩, hg⟩ := he
  simp only [Arch.fpName] at hfp
  have hscan : ∀ n, scanFrom (instrValid env .amd64) mem 8 U64MAX f.ctx.sp n 0 = none := by
    intro n
    rw [hsp]
    exact scanFrom_zeros (by decide) hz (by simp [instrValid, instrPre, nonCanonAmd64]) n 0
  have h1 : ¬ fp > U64MAX := by omega
  have h2 : ¬ fp + 8 > U64MAX := by omega
  have h3 : ¬ fp + 16 > U64MAX := by omega
  unfold step
  simp only [effArch, harch, Arch.isMips, candidate, hcfi, byFp, fpAmd64, hlit1, hlit2, hfp, if_neg hos]
  simp only [Bool.not_true, Bool.false_eq_true, ↓reduceIte, Nat.not_le.mpr hg]
  simp only [resolveAmd64, Nat.zero_mul, Nat.add_zero, if_neg h1, if_neg h2, if_neg h3, hr1, hr2]
  simp [byScan, scanAmd64, hscan]

theorem step_end_arm64 {env : Env} {a : Arch} {mem : Mem} {f : Frame} {g : Option Frame} {sp fp : Nat}
    (ha : a = .arm64 ∨ a = .arm64old) (harch : env.arch = a) (hcfi : ∀ f g, env.cfi f g = none)
    (hv : FpView a f.ctx sp fp) (he : endFp a env.os mem sp fp = true) :
    step env mem f g = none := by
  rcases ha with ha | ha <;> subst ha
  · obtain ⟨hsp, hfp, _, hv1, hv2⟩ := hv
    simp only [endFp, Bool.and_eq_true, decide_eq_true_eq, beq_iff_eq] at he
    obtain ⟨⟨_, hz⟩, ⟨hr1, hr2⟩, hg⟩ := he
    simp only [Arch.fpName] at hfp
    have hget1 : f.ctx.get Arch.arm64 "x29" = some fp := by
      simp only [Ctx.get, hv1, if_true]
      rw [← hfp]; rfl
    have hget2 : f.ctx.get Arch.arm64 "sp" = some f.ctx.sp := by
      simp only [Ctx.get, hv2, if_true]
      rfl
    have hscan : ∀ n, scanFrom (instrValid env .arm64) mem 8 U64MAX f.ctx.sp n 0 = none := by
      intro n
      rw [hsp]
      exact scanFrom_zeros (by decide) hz (by simp [instrValid, instrPre, nonCanonArm64]) n 0
    unfold step
    simp only [effArch, harch, Arch.isMips, candidate, hcfi, byFp, fpArm64]
    simp only [Bool.false_eq_true, ↓reduceIte]
    rw [hget1, hget2]
    simp only [Nat.not_le.mpr hg, ↓reduceIte]
    by_cases h0 : fp = 0
    · simp [h0, nonCanonArm64, Consts.arm64_canon_lo, byScan, scanArm64, hget2, hscan]
    · simp [h0, hr1, hr2, nonCanonArm64, Consts.arm64_canon_lo, byScan, scanArm64, hget2, hscan]
  · obtain ⟨hsp, hfp, _, hv1, hv2⟩ := hv
    simp only [endFp, Bool.and_eq_true, decide_eq_true_eq, beq_iff_eq] at he
    obtain ⟨⟨_, hz⟩, ⟨hr1, hr2⟩, hg⟩ := he
    simp only [Arch.fpName] at hfp
    have hget1 : f.ctx.get Arch.arm64old "x29" = some fp := by
      simp only [Ctx.get, hv1, if_true]
      rw [← hfp]; rfl
    have hget2 : f.ctx.get Arch.arm64old "sp" = some f.ctx.sp := by
      simp only [Ctx.get, hv2, if_true]
      rfl
    have hscan : ∀ n, scanFrom (instrValid env .arm64old) mem 8 U64MAX f.ctx.sp n 0 = none := by
      intro n
      rw [hsp]
      exact scanFrom_zeros (by decide) hz (by simp [instrValid, instrPre, nonCanonArm64]) n 0
    unfold step
    simp only [effArch, harch, Arch.isMips, candidate, hcfi, byFp, fpArm64]
    simp only [Bool.false_eq_true, ↓reduceIte]
    rw [hget1, hget2]
    simp only [Nat.not_le.mpr hg, ↓reduceIte]
    by_cases h0 : fp = 0
    · simp [h0, nonCanonArm64, Consts.arm64_canon_lo, byScan, scanArm64, hget2, hscan]
    · simp [h0, hr1, hr2, nonCanonArm64, Consts.arm64_canon_lo, byScan, scanArm64, hget2, hscan]

/-! ### the frame produced for a record is again a frame the unwinder can continue from -/

/-- architectures with a frame-pointer unwinder -/
def Arch.hasFp : Arch → Bool
  | .x86 | .amd64 | .arm | .arm64 | .arm64old => true
  | _ => false

theorem fpFrame_view (a : Arch) (ha : a.hasFp = true) (e : Exp) :
    FpView a (fpFrame a e).ctx e.sp (e.fp.getD 0) := by
  cases a <;> simp only [Arch.hasFp, Bool.false_eq_true] at ha
  all_goals refine ⟨rfl, rfl, rfl, ?_⟩
  all_goals simp [fpFrame, Ctx.hasLit, Ctx.has, Arch.aliases]

theorem view_context (a : Arch) (ha : a.hasFp = true) (c : Ctx) (hv : c.valid = none) (hm : c.m64 = false) :
    FpView a c c.sp (c.raw a a.fpName) := by
  cases a <;> simp only [Arch.hasFp, Bool.false_eq_true] at ha
  all_goals refine ⟨rfl, rfl, hm, ?_⟩
  all_goals simp [Ctx.hasLit, Ctx.has, hv, Arch.canon, Arch.registers]

/-- expected frames of a frame-pointer chain -/
def expectedFp (env : Env) (a : Arch) (chain : List Exp) : List Frame :=
  chain.map fun e => symbolise env (fpFrame a e)

theorem walkLoop_fp_chain {env : Env} {mem : Mem} {a : Arch}
    (hstep : ∀ (f : Frame) (g : Option Frame) (e : Exp) (sp fp : Nat), FpView a f.ctx sp fp →
      linkFp a env.os env.mask mem sp fp e = true → step env mem f g = some (fpFrame a e))
    (hend : ∀ (f : Frame) (g : Option Frame) (sp fp : Nat), FpView a f.ctx sp fp →
      endFp a env.os mem sp fp = true → step env mem f g = none)
    (ha : a.hasFp = true) :
    ∀ (chain : List Exp) (n : Nat) (f : Frame) (g : Option Frame) (sp fp : Nat),
      FpView a f.ctx sp fp → preFp a env.os env.mask mem sp fp chain = true → need mem f ≤ n →
      walkLoop env mem n f g = symbolise env f :: expectedFp env a chain := by
  intro chain
  induction chain with
  | nil =>
    intro n f g sp fp hv hp hn
    cases n with
    | zero => have := need_pos mem f; omega
    | succ n =>
      simp only [walkLoop, expectedFp, List.map_nil]
      have hsp : f.ctx.sp = sp := hv.1
      split
      · rfl
      · rename_i hin
        simp only [symbolise_ctx, Bool.not_eq_true, Bool.not_eq_false] at hin
        simp only [preFp, Bool.or_eq_true, Bool.not_eq_true'] at hp
        have he : endFp a env.os mem sp fp = true := by
          rcases hp with hp | hp
          · rw [← hsp] at hp; rw [hp] at hin; cases hin
          · exact hp
        rw [hend (symbolise env f) g sp fp hv he]
  | cons e rest ih =>
    intro n f g sp fp hv hp hn
    cases n with
    | zero => have := need_pos mem f; omega
    | succ n =>
      simp only [preFp, Bool.and_eq_true] at hp
      obtain ⟨⟨hin, hl⟩, hrest⟩ := hp
      have hsp : f.ctx.sp = sp := hv.1
      have hst := hstep (symbolise env f) g e sp fp hv hl
      have hin' : mem.inRange (symbolise env f).ctx.sp = true := by
        simp only [symbolise_ctx, hsp, hin]
      simp only [walkLoop, hin', Bool.not_true, Bool.false_eq_true, ↓reduceIte, hst, expectedFp, List.map_cons]
      have hneed := need_step hin' (step_link hst)
      simp only [need_symbolise] at hneed
      have := ih n (fpFrame a e) (some (symbolise env f)) e.sp (e.fp.getD 0) (fpFrame_view a ha e) hrest (by omega)
      rw [this]
      rfl

end MdModel.Walk
