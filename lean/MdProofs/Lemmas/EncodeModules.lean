/-
  MdProofs.Lemmas.EncodeModules — C02: the MODULE LIST (names + the CodeView shapes PDB 7.0 /
  PDB 2.0 / ELF build id / unknown signature / none), the EXCEPTION stream and SYSTEM INFO (with
  the CSD-version string) read back: records fit / records decode / the stream reads back.
-/
import MdProofs.Lemmas.EncodeNames
namespace MdModel.Encode
open MdModel MdModel.Dump MdModel.Gen.Layouts MdModel.Gen.LayoutsC02

/-! ## small tools -/

theorem pow_256_2 : (256 : Nat) ^ 2 = 2 ^ 16 := by decide
theorem pow_256_1 : (256 : Nat) ^ 1 = 256 := by decide

theorem encNat_one (e : Endian) (b : UInt8) : encNat e 1 b.toNat = [b] := by
  cases e <;> simp [encNat, leBytes]

theorem Fits.append {l1 l2 : Layout} {v1 v2 : List Nat} (h1 : Fits l1 v1) (h2 : Fits l2 v2) :
    Fits (l1 ++ l2) (v1 ++ v2) := by
  induction l1 generalizing v1 with
  | nil =>
    cases v1 with
    | nil => simpa using h2
    | cons v vs => exact absurd h1 (by simp [Fits])
  | cons f rest ih =>
    obtain ⟨n, w⟩ := f
    cases v1 with
    | nil => exact absurd h1 (by simp [Fits])
    | cons v vs =>
      simp only [Fits] at h1
      simp only [List.cons_append, Fits]
      exact ⟨h1.1, ih h1.2⟩

/-- a run of one-byte fields holds any bytes -/
theorem Fits.bytes : ∀ (l : Layout) (bs : List UInt8), l.length = bs.length → (∀ f ∈ l, f.2 = 1) →
    Fits l (bs.map (·.toNat)) := by
  intro l
  induction l with
  | nil => intro bs hl _; cases bs with
    | nil => trivial
    | cons b bs => simp at hl
  | cons f rest ih =>
    intro bs hl hw
    obtain ⟨n, w⟩ := f
    cases bs with
    | nil => simp at hl
    | cons b bs =>
      have hw1 : w = 1 := hw (n, w) (by simp)
      subst hw1
      simp only [List.map_cons, Fits]
      refine ⟨?_, ih bs (by simpa using hl) (fun f hf => hw f (by simp [hf]))⟩
      have := b.toNat_lt
      omega

/-- values that fit a run of `w`-byte fields -/
theorem Fits.uniform : ∀ (l : Layout) (vs : List Nat) (w : Nat), l.length = vs.length → (∀ f ∈ l, f.2 = w) →
    (∀ v ∈ vs, v < 256 ^ w) → Fits l vs := by
  intro l
  induction l with
  | nil => intro vs w hl _ _; cases vs with
    | nil => trivial
    | cons b bs => simp at hl
  | cons f rest ih =>
    intro vs w hl hw hv
    obtain ⟨n, w'⟩ := f
    cases vs with
    | nil => simp at hl
    | cons v vs =>
      have hw1 : w' = w := hw (n, w') (by simp)
      subst hw1
      simp only [Fits]
      exact ⟨hv v (by simp), ih vs w' (by simpa using hl) (fun f hf => hw f (by simp [hf]))
        (fun x hx => hv x (by simp [hx]))⟩

/-- one-byte fields are written as the bytes themselves -/
theorem encFields_bytes (e : Endian) : ∀ (l : Layout) (bs : List UInt8), l.length = bs.length → (∀ f ∈ l, f.2 = 1) →
    encFields e l (bs.map (·.toNat)) = bs := by
  intro l
  induction l with
  | nil => intro bs hl _; cases bs with
    | nil => rfl
    | cons b bs => simp at hl
  | cons f rest ih =>
    intro bs hl hw
    obtain ⟨n, w⟩ := f
    cases bs with
    | nil => simp at hl
    | cons b bs =>
      have hw1 : w = 1 := hw (n, w) (by simp)
      subst hw1
      simp only [List.map_cons, encFields, encNat_one, List.singleton_append, List.cons.injEq, true_and]
      exact ih bs (by simpa using hl) (fun f hf => hw f (by simp [hf]))

theorem encFields_append (e : Endian) : ∀ (l1 l2 : Layout) (v1 v2 : List Nat), l1.length = v1.length →
    encFields e (l1 ++ l2) (v1 ++ v2) = encFields e l1 v1 ++ encFields e l2 v2 := by
  intro l1
  induction l1 with
  | nil => intro l2 v1 v2 hl; cases v1 with
    | nil => simp [encFields]
    | cons v vs => simp at hl
  | cons f rest ih =>
    intro l2 v1 v2 hl
    obtain ⟨n, w⟩ := f
    cases v1 with
    | nil => simp at hl
    | cons v vs =>
      simp only [List.cons_append, encFields, List.append_assoc, List.append_cancel_left_eq]
      exact ih l2 vs v2 (by simpa using hl)

theorem map_ofNat_toNat (bs : List UInt8) : (bs.map (·.toNat)).map UInt8.ofNat = bs := by
  induction bs with
  | nil => rfl
  | cons b bs ih => simp [ih]

/-- a stream / record that IS the given bytes: placement at offset 0 of a prefix -/
theorem Has.prefix0 {b : Bytes} {c rest : List UInt8} (h : b.toList = c ++ rest) : Has b.toList 0 c :=
  ⟨[], rest, by simp [h], rfl⟩

theorem locationSlice_has {all : Bytes} {o : Nat} {c : List UInt8} (h : Has all.toList o c) (hall : all.size < 2 ^ 32) :
    ∃ src, locationSlice all ⟨c.length, o⟩ = some src ∧ src.toList = c := by
  have hle := h.size_le
  refine ⟨all.extract o (o + c.length), ?_, h.extract⟩
  unfold locationSlice
  rw [locationRange_in (by omega) hall]

/-! ## CodeView records -/

def CvFits : MCv → Prop
  | .pdb70 d1 d2 d3 d4 age _ => d1 < 2 ^ 32 ∧ d2 < 2 ^ 16 ∧ d3 < 2 ^ 16 ∧ d4.length = 8 ∧ age < 2 ^ 32
  | .pdb20 off sig age _ => off < 2 ^ 32 ∧ sig < 2 ^ 32 ∧ age < 2 ^ 32
  | .elf _ => True
  | .unknown sig _ =>
    sig < 2 ^ 32 ∧ sig ≠ CV_SIGNATURE_PDB70 ∧ sig ≠ CV_SIGNATURE_PDB20 ∧ sig ≠ CV_SIGNATURE_ELF

theorem encCv_length (e : Endian) (cv : MCv) : (encCv e cv).length = cvSize cv := by
  cases cv <;> simp [encCv, cvSize] <;> omega

theorem cvSize_pos (cv : MCv) : 4 ≤ cvSize cv := by
  cases cv <;> simp [cvSize] <;> omega

theorem res_cvTail {src : Bytes} {fixed : Nat} (h : fixed ≤ src.size) :
    (cvTail src fixed).res = .ok (src.extract fixed src.size) := by
  unfold cvTail
  rw [res_bind_ok (res_usizeSub h), res_bind_ok (res_alloc _ _ _)]
  rfl

/-- the tail of a record whose bytes are `pre ++ tail` -/
theorem extract_tail {src : Bytes} {pre tail : List UInt8} (h : src.toList = pre ++ tail) :
    (src.extract pre.length src.size).toList = tail := by
  have hh : Has src.toList pre.length tail := ⟨pre, [], by simp [h], rfl⟩
  have hsz : src.size = pre.length + tail.length := by
    have := congrArg List.length h
    simpa using this
  exact hh.extract' hsz

/-- **`read_codeview` on an encoded record of each of the four shapes** -/
theorem readCodeview_src {src : Bytes} {e : Endian} {cv : MCv} (hf : CvFits cv) (hsrc : src.toList = encCv e cv) :
    ∃ c, (match readU32 src 0 e with
      | none => (pure none : M (Option CodeView))
      | some sig =>
        if sig = CV_SIGNATURE_PDB70 then
          match readFields CV_PDB70_FIXED src 0 e with
          | none => pure none
          | some vs =>
            cvTail src (Layout.size CV_PDB70_FIXED) >>= fun name =>
            pure (some (.pdb70 ((vs.drop 1).take 11) (fld vs 12) name))
        else if sig = CV_SIGNATURE_PDB20 then
          match readFields CV_PDB20_FIXED src 0 e with
          | none => pure none
          | some vs =>
            cvTail src (Layout.size CV_PDB20_FIXED) >>= fun name =>
            pure (some (.pdb20 (fld vs 1) (fld vs 2) (fld vs 3) name))
        else if sig = CV_SIGNATURE_ELF then
          cvTail src 4 >>= fun id => pure (some (.elf id))
        else
          M.alloc src.size 1 >>= fun _ => pure (some (.unknown src))).res = .ok (some c) ∧ mcvOf e c = cv := by
  have hsize : src.size = cvSize cv := by
    have := congrArg List.length hsrc
    simpa [encCv_length] using this
  cases cv with
  | pdb70 d1 d2 d3 d4 age file =>
    obtain ⟨h1, h2, h3, h4, h5⟩ := hf
    match d4, h4 with
    | [b0, b1, b2, b3, b4, b5, b6, b7], _ =>
    have henc : encCv e (.pdb70 d1 d2 d3 [b0, b1, b2, b3, b4, b5, b6, b7] age file) =
        encFields e CV_PDB70_FIXED [CV_SIGNATURE_PDB70, d1, d2, d3, b0.toNat, b1.toNat, b2.toNat, b3.toNat, b4.toNat,
          b5.toNat, b6.toNat, b7.toNat, age] ++ file := by
      simp [encCv, CV_PDB70_FIXED, GUID, encFields, encNat_one]
    rw [henc] at hsrc
    have hfit : Fits CV_PDB70_FIXED [CV_SIGNATURE_PDB70, d1, d2, d3, b0.toNat, b1.toNat, b2.toNat, b3.toNat, b4.toNat,
          b5.toNat, b6.toNat, b7.toNat, age] := by
      simp only [CV_PDB70_FIXED, GUID, List.map_cons, List.map_nil, List.cons_append, List.nil_append, Fits,
        pow_256_4, pow_256_2, pow_256_1, CV_SIGNATURE_PDB70]
      have := b0.toNat_lt; have := b1.toNat_lt; have := b2.toNat_lt; have := b3.toNat_lt
      have := b4.toNat_lt; have := b5.toNat_lt; have := b6.toNat_lt; have := b7.toNat_lt
      refine ⟨by decide, h1, h2, h3, ?_, ?_, ?_, ?_, ?_, ?_, ?_, ?_, h5, trivial⟩ <;> omega
    have hrd := readFields_has hfit (Has.prefix0 hsrc)
    have hsig : readU32 src 0 e = some CV_SIGNATURE_PDB70 := readFields_head hrd
    have hlen : (encFields e CV_PDB70_FIXED [CV_SIGNATURE_PDB70, d1, d2, d3, b0.toNat, b1.toNat, b2.toNat, b3.toNat,
        b4.toNat, b5.toNat, b6.toNat, b7.toNat, age]).length = Layout.size CV_PDB70_FIXED := encFields_length _ _ _
    have htail := extract_tail hsrc
    rw [hlen] at htail
    have hle : Layout.size CV_PDB70_FIXED ≤ src.size := by
      have := congrArg List.length hsrc
      simp only [Array.length_toList, List.length_append, hlen] at this
      omega
    refine ⟨?_, ?_, ?_⟩
    rotate_left
    · simp only [hsig, if_true, hrd]
      rw [res_bind_ok (res_cvTail hle)]
      rfl
    · simp only [mcvOf]; rw [htail]; simp [fld]
  | pdb20 off sig age file =>
    obtain ⟨h1, h2, h3⟩ := hf
    have henc : encCv e (.pdb20 off sig age file) =
        encFields e CV_PDB20_FIXED [CV_SIGNATURE_PDB20, off, sig, age] ++ file := by
      simp [encCv, CV_PDB20_FIXED, encFields]
    rw [henc] at hsrc
    have hfit : Fits CV_PDB20_FIXED [CV_SIGNATURE_PDB20, off, sig, age] := by
      simp only [CV_PDB20_FIXED, Fits, pow_256_4, CV_SIGNATURE_PDB20]
      exact ⟨by decide, h1, h2, h3, trivial⟩
    have hrd := readFields_has hfit (Has.prefix0 hsrc)
    have hsig : readU32 src 0 e = some CV_SIGNATURE_PDB20 := readFields_head hrd
    have hlen : (encFields e CV_PDB20_FIXED [CV_SIGNATURE_PDB20, off, sig, age]).length = Layout.size CV_PDB20_FIXED :=
      encFields_length _ _ _
    have htail := extract_tail hsrc
    rw [hlen] at htail
    have hle : Layout.size CV_PDB20_FIXED ≤ src.size := by
      have := congrArg List.length hsrc
      simp only [Array.length_toList, List.length_append, hlen] at this
      omega
    have hne : ¬ (CV_SIGNATURE_PDB20 = CV_SIGNATURE_PDB70) := by decide
    refine ⟨?_, ?_, ?_⟩
    rotate_left
    · simp only [hsig, hne, if_false, if_true, hrd]
      rw [res_bind_ok (res_cvTail hle)]
      rfl
    · simp only [mcvOf]; rw [htail]; simp [fld]
  | elf bid =>
    simp only [encCv] at hsrc
    have hsig : readU32 src 0 e = some CV_SIGNATURE_ELF :=
      readScalar_has (Has.prefix0 hsrc) (by decide)
    have htail := extract_tail hsrc
    simp only [encNat_length] at htail
    have hle : 4 ≤ src.size := by
      have := congrArg List.length hsrc
      simp only [Array.length_toList, List.length_append, encNat_length] at this
      omega
    have hne1 : ¬ (CV_SIGNATURE_ELF = CV_SIGNATURE_PDB70) := by decide
    have hne2 : ¬ (CV_SIGNATURE_ELF = CV_SIGNATURE_PDB20) := by decide
    refine ⟨?_, ?_, ?_⟩
    rotate_left
    · simp only [hsig, hne1, hne2, if_false, if_true]
      rw [res_bind_ok (res_cvTail hle)]
      rfl
    · simp only [mcvOf]; rw [htail]
  | unknown sig rest =>
    obtain ⟨h1, h2, h3, h4⟩ := hf
    simp only [encCv] at hsrc
    have hsig : readU32 src 0 e = some sig :=
      readScalar_has (Has.prefix0 hsrc) (by rw [pow_256_4]; exact h1)
    refine ⟨?_, ?_, ?_⟩
    rotate_left
    · simp only [hsig, h2, h3, h4, if_false]
      rw [res_bind_ok (res_alloc _ _ _)]
      rfl
    · simp only [mcvOf, hsrc, List.take_left' (encNat_length e 4 sig), List.drop_left' (encNat_length e 4 sig),
        decodeNat_encNat e 4 sig (by rw [pow_256_4]; exact h1)]

theorem readCodeview_enc {all : Bytes} {e : Endian} {cv : MCv} {o : Nat} (hf : CvFits cv)
    (h : Has all.toList o (encCv e cv)) (hall : all.size < 2 ^ 32) :
    ∃ c, (readCodeview all e ⟨cvSize cv, o⟩).res = .ok (some c) ∧ mcvOf e c = cv := by
  obtain ⟨src, hs1, hs2⟩ := locationSlice_has h hall
  rw [encCv_length] at hs1
  unfold readCodeview
  simp only [hs1]
  exact readCodeview_src hf hs2

/-! ## the module list -/

def ModuleFits (m : MModule) : Prop :=
  m.base < 2 ^ 64 ∧ m.size < 2 ^ 32 ∧ m.checksum < 2 ^ 32 ∧ m.time < 2 ^ 32 ∧ m.ver.length = 13 ∧
  (∀ v ∈ m.ver, v < 2 ^ 32) ∧ ValidName m.name ∧ (∀ cv, m.cv = some cv → CvFits cv)

theorem moduleRecs_length (off : Nat) (ms : List MModule) : (moduleRecs off ms).length = ms.length := by
  induction ms generalizing off with
  | nil => rfl
  | cons m ms ih => simp [moduleRecs, ih]

theorem oobModule_length (e : Endian) (m : MModule) : (oobModule e m).length = oobModuleSize m := by
  unfold oobModule oobModuleSize
  cases m.cv <;> simp [encString_length, encCv_length]

theorem MODULE_split : MINIDUMP_MODULE = MINIDUMP_MODULE.take 5 ++ ((MINIDUMP_MODULE.drop 5).take 13 ++ MINIDUMP_MODULE.drop 18) := by
  decide

theorem moduleRec_fits {all : List UInt8} (hall : all.length < 2 ^ 32) (e : Endian) (m : MModule) (off : Nat)
    (hf : ModuleFits m) (h : Has all off (oobModule e m)) : Fits MINIDUMP_MODULE (moduleRec off m) := by
  obtain ⟨h1, h2, h3, h4, h5, h6, _, _⟩ := hf
  have hle := h.length_le
  rw [oobModule_length] at hle
  have hver : (m.ver ++ List.replicate (13 - m.ver.length) 0).take 13 = m.ver := by
    rw [h5]; simp [List.take_of_length_le, h5]
  rw [MODULE_split]
  unfold moduleRec
  rw [hver, List.append_assoc, List.append_assoc]
  refine Fits.append ?_ (Fits.append ?_ ?_)
  · simp only [MINIDUMP_MODULE, List.take, Fits, pow_256_4, pow_256_8]
    refine ⟨h1, h2, h3, h4, ?_, trivial⟩; omega
  · refine Fits.uniform _ _ 4 (by simp [MINIDUMP_MODULE, h5]) (by decide) ?_
    intro v hv; rw [pow_256_4]; exact h6 v hv
  · unfold oobModuleSize at hle
    cases hcv : m.cv with
    | none => simp only [MINIDUMP_MODULE, List.drop, Fits, List.cons_append, List.nil_append]; decide
    | some cv =>
      simp only [hcv] at hle
      simp only [MINIDUMP_MODULE, List.drop, Fits, List.cons_append, List.nil_append, pow_256_4]
      have := cvSize_pos cv
      refine ⟨by omega, by omega, by decide, by decide, by decide, by decide, by decide, by decide, trivial⟩

theorem moduleRecs_fits {all : List UInt8} (hall : all.length < 2 ^ 32) (e : Endian) :
    ∀ (ms : List MModule) (off : Nat), (∀ m ∈ ms, ModuleFits m) → Has all off (oobModules e ms) →
      ∀ r ∈ moduleRecs off ms, Fits MINIDUMP_MODULE r := by
  intro ms
  induction ms with
  | nil => intro off _ _ r hr; simp [moduleRecs] at hr
  | cons m ms ih =>
    intro off hf h r hr
    simp only [moduleRecs, List.mem_cons] at hr
    simp only [oobModules] at h
    cases hr with
    | inl h0 => subst h0; exact moduleRec_fits hall e m off (hf m (by simp)) h.left
    | inr h1 =>
      have h2 := h.right
      rw [oobModule_length] at h2
      exact ih _ (fun m' hm' => hf m' (by simp [hm'])) h2 r h1

/-- the fields `RawModule.ofVals` looks at, and the 13 version words, of an encoded record -/
theorem moduleRec_view (off : Nat) (m : MModule) (h13 : m.ver.length = 13) :
    let v := moduleRec off m
    fld v 0 = m.base ∧ fld v 1 = m.size ∧ fld v 2 = m.checksum ∧ fld v 3 = m.time ∧ fld v 4 = off ∧
    (v.drop 5).take 13 = m.ver ∧
    fld v 18 = (match m.cv with | none => 0 | some cv => cvSize cv) ∧
    fld v 19 = (match m.cv with | none => 0 | some _ => off + stringSize m.name) := by
  obtain ⟨base, size, chk, time, ver, name, cv⟩ := m
  simp only at h13
  match ver, h13 with
  | [v0, v1, v2, v3, v4, v5, v6, v7, v8, v9, v10, v11, v12], _ =>
    cases cv <;> simp [moduleRec, fld]

theorem readModule_enc {all : Bytes} (hall : all.size < 2 ^ 32) (e : Endian) (m : MModule) (off : Nat)
    (hf : ModuleFits m) (h : Has all.toList off (oobModule e m)) :
    ∃ r, (readModule all e (RawModule.ofVals (moduleRec off m))).res = .ok r ∧ mmoduleOf e r = m := by
  obtain ⟨_, _, _, _, h13, _, hname, hcvf⟩ := hf
  obtain ⟨e0, e1, e2, e3, e4, ever, e18, e19⟩ := moduleRec_view off m h13
  unfold oobModule at h
  have hstr := readStringUtf16_enc hname h.left hall
  unfold readModule
  simp only [RawModule.ofVals, e4]
  rw [res_bind_ok hstr]
  simp only [e18, e19]
  cases hcv : m.cv with
  | none =>
    refine ⟨_, rfl, ?_⟩
    simp only [mmoduleOf, e0, e1, e2, e3, ever, Option.map_none]
    cases m; simp_all
  | some cv =>
    have hpos := cvSize_pos cv
    have hne : ¬ (cvSize cv = 0) := by omega
    simp only [hne, if_false]
    rw [hcv] at h
    have h2 := h.right
    rw [encString_length] at h2
    obtain ⟨c, hc1, hc2⟩ := readCodeview_enc (hcvf cv hcv) h2 hall
    rw [res_bind_ok hc1]
    refine ⟨_, rfl, ?_⟩
    simp only [mmoduleOf, e0, e1, e2, e3, ever, Option.map_some, hc2]
    cases m; simp_all

theorem readModules_enc {all : Bytes} (hall : all.size < 2 ^ 32) (e : Endian) :
    ∀ (ms : List MModule) (off : Nat), (∀ m ∈ ms, ModuleFits m) → Has all.toList off (oobModules e ms) →
      ∃ r, (readModules all e ((moduleRecs off ms).map RawModule.ofVals)).res = .ok r ∧
        r.map (mmoduleOf e) = ms.filter fun x => !badImageSize x.base x.size := by
  intro ms
  induction ms with
  | nil => intro off _ _; exact ⟨[], rfl, rfl⟩
  | cons m ms ih =>
    intro off hf h
    simp only [oobModules] at h
    have h2 := h.right
    rw [oobModule_length] at h2
    obtain ⟨r, hr1, hr2⟩ := ih _ (fun m' hm' => hf m' (by simp [hm'])) h2
    have hm := hf m (by simp)
    obtain ⟨e0, e1, _⟩ := moduleRec_view off m hm.2.2.2.2.1
    simp only [moduleRecs, List.map_cons, readModules]
    have hb : (RawModule.ofVals (moduleRec off m)).base = m.base := e0
    have hs : (RawModule.ofVals (moduleRec off m)).size = m.size := e1
    rw [hb, hs]
    by_cases hbad : badImageSize m.base m.size = true
    · simp only [hbad, if_true]
      refine ⟨r, hr1, ?_⟩
      simp [hbad, hr2]
    · simp only [hbad, Bool.false_eq_true, if_false]
      obtain ⟨x, hx1, hx2⟩ := readModule_enc hall e m off hm h.left
      rw [res_bind_ok hx1, res_bind_ok hr1]
      refine ⟨x :: r, rfl, ?_⟩
      simp [hbad, hr2, hx2]

theorem readModuleList_enc (ms : MemSizes) {s all : Bytes} {e : Endian} {pad : Bool} {off : Nat} {mods : List MModule}
    (hs : s.toList = encModuleList e pad off mods) (hf : ∀ m ∈ mods, ModuleFits m)
    (hoob : Has all.toList off (oobModules e mods)) (hall : all.size < 2 ^ 32) (hsz : s.size < 2 ^ 32) :
    ∃ r, (readModuleList ms s all e).res = .ok r ∧
      r.map (mmoduleOf e) = mods.filter fun x => !badImageSize x.base x.size := by
  have hlen := congrArg List.length hs
  simp only [Array.length_toList, encModuleList, List.length_append, encRecords_length, moduleRecs_length] at hlen
  have hn : (moduleRecs off mods).length < 2 ^ 32 := by
    rw [moduleRecs_length]
    have h108 : Layout.size MINIDUMP_MODULE = 108 := by decide
    rw [h108] at hlen
    omega
  have hrd := readStreamList_enc (l := MINIDUMP_MODULE) (memSz := ms.rawModule) (s := s) (e := e) (pad := pad)
    (recs := moduleRecs off mods) (by rw [moduleRecs_length]; exact hs)
    (moduleRecs_fits (by simpa using hall) e mods off hf hoob) hn hsz
  obtain ⟨r, hr1, hr2⟩ := readModules_enc hall e mods off hf hoob
  refine ⟨r, ?_, hr2⟩
  unfold readModuleList
  rw [res_bind_ok hrd, res_bind_ok (res_alloc _ _ _)]
  exact hr1

/-! ## the exception stream -/

def ExcFits (x : MException) : Prop :=
  x.threadId < 2 ^ 32 ∧ x.code < 2 ^ 32 ∧ x.flags < 2 ^ 32 ∧ x.record < 2 ^ 64 ∧ x.address < 2 ^ 64 ∧
  x.numberParameters < 2 ^ 32 ∧ x.info.length = 15 ∧ ∀ v ∈ x.info, v < 2 ^ 64

theorem EXC_split : MINIDUMP_EXCEPTION_STREAM =
    MINIDUMP_EXCEPTION_STREAM.take 8 ++ ((MINIDUMP_EXCEPTION_STREAM.drop 8).take 15 ++ MINIDUMP_EXCEPTION_STREAM.drop 23) := by
  decide

theorem exceptionRec_fits {all : List UInt8} (hall : all.length < 2 ^ 32) (x : MException) (off : Nat)
    (hf : ExcFits x) (h : Has all off x.ctx) : Fits MINIDUMP_EXCEPTION_STREAM (exceptionRec off x) := by
  obtain ⟨h1, h2, h3, h4, h5, h6, h7, h8⟩ := hf
  have hle := h.length_le
  have hinfo : (x.info ++ List.replicate (15 - x.info.length) 0).take 15 = x.info := by
    rw [h7]; simp [List.take_of_length_le, h7]
  rw [EXC_split]
  unfold exceptionRec
  rw [hinfo, List.append_assoc]
  refine Fits.append ?_ (Fits.append ?_ ?_)
  · simp only [MINIDUMP_EXCEPTION_STREAM, List.take, Fits, pow_256_4, pow_256_8]
    exact ⟨h1, by decide, h2, h3, h4, h5, h6, by decide, trivial⟩
  · refine Fits.uniform _ _ 8 (by simp [MINIDUMP_EXCEPTION_STREAM, h7]) (by decide) ?_
    intro v hv; rw [pow_256_8]; exact h8 v hv
  · simp only [MINIDUMP_EXCEPTION_STREAM, List.drop, Fits, pow_256_4]
    refine ⟨by omega, by omega, trivial⟩

theorem exceptionRec_view (off : Nat) (x : MException) (h15 : x.info.length = 15) :
    let v := exceptionRec off x
    fld v 0 = x.threadId ∧ fld v 2 = x.code ∧ fld v 3 = x.flags ∧ fld v 4 = x.record ∧ fld v 5 = x.address ∧
    fld v 6 = x.numberParameters ∧ (v.drop 8).take 15 = x.info ∧ fld v 23 = x.ctx.length ∧ fld v 24 = off := by
  obtain ⟨tid, code, flags, rec, addr, np, info, ctx⟩ := x
  simp only at h15
  match info, h15 with
  | [v0, v1, v2, v3, v4, v5, v6, v7, v8, v9, v10, v11, v12, v13, v14], _ => simp [exceptionRec, fld]

theorem readException_enc {s all : Bytes} {e : Endian} {off : Nat} {x : MException}
    (hs : s.toList = encException e off x) (hf : ExcFits x) (hoob : Has all.toList off x.ctx)
    (hall : all.size < 2 ^ 32) :
    ∃ r, (readException s all e).res = .ok r ∧ rexceptionOf all r = reportException x := by
  have hfit := exceptionRec_fits (by simpa using hall) x off hf hoob
  have hrd : readFields MINIDUMP_EXCEPTION_STREAM s 0 e = some (exceptionRec off x) :=
    readFields_has hfit (Has.prefix0 (rest := []) (by simpa [encException] using hs))
  obtain ⟨e0, e2, e3, e4, e5, e6, einfo, e23, e24⟩ := exceptionRec_view off x hf.2.2.2.2.2.2.1
  have hle := hoob.size_le
  have hloc : locationRange all.size ⟨x.ctx.length, off⟩ = some (off, off + x.ctx.length) :=
    locationRange_in (by omega) hall
  refine ⟨?_, ?_, ?_⟩
  rotate_left
  · unfold readException
    simp only [hrd]
    rfl
  · simp only [rexceptionOf, reportException, e0, e2, e3, e4, e5, e6, einfo, e23, e24, hloc, Option.map_some,
      sliceList_has hoob]

/-! ## system info -/

def SysInfoFits (s : MSysInfo) : Prop :=
  s.arch < 2 ^ 16 ∧ s.level < 2 ^ 16 ∧ s.revision < 2 ^ 16 ∧ s.nproc < 256 ∧ s.productType < 256 ∧
  s.major < 2 ^ 32 ∧ s.minor < 2 ^ 32 ∧ s.build < 2 ^ 32 ∧ s.platform < 2 ^ 32 ∧ s.suite < 2 ^ 16 ∧
  s.cpu.length = 24 ∧ ValidName s.csd

def SYS_HEAD : Layout :=
  [("processor_architecture", 2), ("processor_level", 2), ("processor_revision", 2),
   ("number_of_processors", 1), ("product_type", 1), ("major_version", 4), ("minor_version", 4),
   ("build_number", 4), ("platform_id", 4), ("csd_version_rva", 4), ("suite_mask", 2), ("reserved2", 2)]
def SYS_CPU : Layout := (List.range 24).map fun i => (s!"cpu.data[{i}]", 1)

theorem SYS_split : SYSTEM_INFO_LAYOUT = SYS_HEAD ++ SYS_CPU := rfl

theorem SYS_CPU_bytes : SYS_CPU.length = 24 ∧ ∀ f ∈ SYS_CPU, f.2 = 1 := by
  refine ⟨by simp [SYS_CPU], ?_⟩
  intro f hf
  obtain ⟨i, _, rfl⟩ := List.mem_map.mp hf
  rfl

theorem cpuBytes_eq (s : MSysInfo) (h : s.cpu.length = 24) : cpuBytes s = s.cpu := by
  unfold cpuBytes
  rw [h]; simp [List.take_of_length_le, h]

theorem sysInfoRec_fits {all : List UInt8} (hall : all.length < 2 ^ 32) (e : Endian) (s : MSysInfo) (off : Nat)
    (hf : SysInfoFits s) (h : Has all off (encString e s.csd)) : Fits SYSTEM_INFO_LAYOUT (sysInfoRec off s) := by
  obtain ⟨h1, h2, h3, h4, h5, h6, h7, h8, h9, h10, h11, _⟩ := hf
  have hle := h.length_le
  rw [SYS_split]
  unfold sysInfoRec
  rw [cpuBytes_eq s h11]
  refine Fits.append ?_ (Fits.bytes _ _ (by rw [SYS_CPU_bytes.1, h11]) SYS_CPU_bytes.2)
  simp only [SYS_HEAD, Fits, pow_256_4, pow_256_2, pow_256_1]
  exact ⟨h1, h2, h3, h4, h5, h6, h7, h8, h9, by omega, h10, by decide, trivial⟩

theorem readSystemInfo_enc {s all : Bytes} {e : Endian} {off : Nat} {x : MSysInfo}
    (hs : s.toList = encSysInfo e off x) (hf : SysInfoFits x) (hoob : Has all.toList off (encString e x.csd))
    (hall : all.size < 2 ^ 32) :
    (readSystemInfo s all e).res = .ok (reportSysInfo x) := by
  have hfit := sysInfoRec_fits (by simpa using hall) e x off hf hoob
  have hrd : readFields SYSTEM_INFO_LAYOUT s 0 e = some (sysInfoRec off x) :=
    readFields_has hfit (Has.prefix0 (rest := []) (by simpa [encSysInfo] using hs))
  have hstr := readStringUtf16_enc hf.2.2.2.2.2.2.2.2.2.2.2 hoob hall
  have h24 := hf.2.2.2.2.2.2.2.2.2.2.1
  unfold readSystemInfo
  simp only [hrd]
  have h9 : fld (sysInfoRec off x) 9 = off := by simp [sysInfoRec, fld]
  rw [h9, res_bind_ok hstr]
  have hcpu : (((sysInfoRec off x).drop 12).take 24).map UInt8.ofNat = x.cpu := by
    unfold sysInfoRec
    rw [cpuBytes_eq x h24]
    rw [List.drop_left' (by simp)]
    rw [List.take_of_length_le (by simp [h24]), map_ofNat_toNat]
  simp only [hcpu]
  simp [reportSysInfo, sysInfoRec, fld]

end MdModel.Encode
