/-
  Lemmas about the buffer state machine `MdModel.Stream` (for every line parser `Ops`).
-/
import MdModel.Stream
namespace MdModel.Stream
open MdModel

/-! ### circular::Buffer -/

/-- the buffer's own invariant: the window lies inside the capacity, and `position ≤ capacity/2`
    (what `consume`'s shift rule maintains). -/
structure Buf.Inv (b : Buf) : Prop where
  fits : b.pos + b.data.length ≤ b.cap
  half : b.pos ≤ b.cap / 2
  capPos : 0 < b.cap

theorem Buf.shift_data (b : Buf) : b.shift.data = b.data := by
  unfold Buf.shift; split <;> rfl
theorem Buf.shift_cap (b : Buf) : b.shift.cap = b.cap := by
  unfold Buf.shift; split <;> rfl
theorem Buf.shift_pos (b : Buf) : b.shift.pos = 0 := by
  unfold Buf.shift; split
  · rfl
  · omega

theorem Buf.consume_data (b : Buf) (n : Nat) : (b.consume n).data = b.data.drop n := by
  unfold Buf.consume Buf.availableData
  have : b.data.drop (min n b.data.length) = b.data.drop n := by
    by_cases h : n ≤ b.data.length
    · rw [Nat.min_eq_left h]
    · have h' : b.data.length ≤ n := by omega
      rw [Nat.min_eq_right h', List.drop_length, List.drop_eq_nil_of_le h']
  simp only []
  split
  · rw [Buf.shift_data]; exact this
  · exact this

theorem Buf.consume_cap (b : Buf) (n : Nat) : (b.consume n).cap = b.cap := by
  unfold Buf.consume; simp only []; split
  · rw [Buf.shift_cap]
  · rfl

theorem Buf.consume_inv (b : Buf) (n : Nat) (h : b.Inv) : (b.consume n).Inv := by
  obtain ⟨h1, h2, h3⟩ := h
  unfold Buf.consume
  dsimp only
  split
  · refine ⟨?_, ?_, ?_⟩
    · rw [Buf.shift_pos, Buf.shift_data, Buf.shift_cap]
      simp only [List.length_drop, Buf.availableData]; omega
    · rw [Buf.shift_pos]; omega
    · rw [Buf.shift_cap]; exact h3
  · next hgt =>
    refine ⟨?_, ?_, h3⟩
    · simp only [List.length_drop, Buf.availableData]; omega
    · simp only [Buf.availableData] at hgt ⊢; omega

theorem Buf.fill_data (b : Buf) (chunk : Bytes) (h : chunk.length ≤ b.availableSpace) :
    (b.fill chunk).data = b.data ++ chunk := by
  unfold Buf.fill
  simp only [Nat.min_eq_left h, List.take_length]
  split
  · rw [Buf.shift_data]
  · rfl

theorem Buf.fill_cap (b : Buf) (chunk : Bytes) : (b.fill chunk).cap = b.cap := by
  unfold Buf.fill; simp only []; split
  · rw [Buf.shift_cap]
  · rfl

theorem Buf.fill_inv (b : Buf) (chunk : Bytes) (h : b.Inv) : (b.fill chunk).Inv := by
  obtain ⟨h1, h2, h3⟩ := h
  have hlen : (chunk.take (min chunk.length b.availableSpace)).length ≤ b.cap - (b.pos + b.data.length) := by
    simp only [List.length_take, Buf.availableSpace, Buf.end_]; omega
  unfold Buf.fill
  simp only []
  split
  · refine ⟨?_, ?_, ?_⟩
    · rw [Buf.shift_pos, Buf.shift_data, Buf.shift_cap]; simp only [List.length_append]; omega
    · rw [Buf.shift_pos]; omega
    · rw [Buf.shift_cap]; exact h3
  · refine ⟨?_, h2, h3⟩
    simp only [List.length_append]; omega

theorem Buf.grow_data (b : Buf) (n : Nat) : (b.grow n).data = b.data := by
  unfold Buf.grow; split <;> rfl

theorem Buf.grow_inv (b : Buf) (n : Nat) (h : b.Inv) : (b.grow n).Inv := by
  obtain ⟨h1, h2, h3⟩ := h
  unfold Buf.grow; split
  · exact ⟨h1, h2, h3⟩
  · next hlt =>
    refine ⟨?_, ?_, ?_⟩ <;> simp only <;> omega

theorem Buf.grow_cap_le (b : Buf) (n m : Nat) (hb : b.cap ≤ m) (hn : n ≤ m) : (b.grow n).cap ≤ m := by
  unfold Buf.grow; split
  · exact hb
  · exact hn


/-! ### reader -/

theorem readChunk_spec (space : Nat) (unread : Bytes) (sched : List Nat) :
    (readChunk space unread sched).1 ++ (readChunk space unread sched).2.1 = unread ∧
    (readChunk space unread sched).1.length ≤ space ∧
    ((readChunk space unread sched).1.length = 0 → space = 0 ∨ unread = []) := by
  unfold readChunk
  split
  · next h =>
    refine ⟨by simp, by simp, fun _ => ?_⟩
    rcases h with h | h
    · exact Or.inl h
    · exact Or.inr (List.isEmpty_iff.mp h)
  · next h =>
    have hs : space ≠ 0 := fun e => h (Or.inl e)
    have hu : unread ≠ [] := fun e => h (Or.inr (by simp [e]))
    have hul : 0 < unread.length := List.length_pos_iff.mpr hu
    split
    · refine ⟨List.take_append_drop _ _, ?_, ?_⟩
      · simp only [List.length_take]; omega
      · simp only [List.length_take]; omega
    · refine ⟨List.take_append_drop _ _, ?_, ?_⟩
      · simp only [List.length_take]; omega
      · simp only [List.length_take]; omega

theorem firstNL_lt {w : Bytes} {i : Nat} (h : firstNL w = some i) : i < w.length := by
  induction w generalizing i with
  | nil => simp [firstNL] at h
  | cons b rest ih =>
    unfold firstNL at h
    split at h
    · cases h; simp
    · cases hr : firstNL rest with
      | none => simp [hr] at h
      | some j =>
        simp [hr] at h; subst h
        have := ih hr
        simp; omega

/-! ### callback log -/

theorem cbBytes_push {σ} (s : St σ) (c : Bytes) (s' : St σ) (h : s'.cb = c :: s.cb) :
    cbBytes s' = cbBytes s ++ c := by
  simp [cbBytes, h]

/-! ### the loop invariant (holds for EVERY parser) -/

/-- what holds at every point of the loop body: `input = consumed ++ window ++ unread`, where
    `consumed` is exactly what the callback was given; the window lies inside a buffer no larger
    than `maxCap`. -/
structure Mid {σ} (maxCap : Nat) (input : Bytes) (s : St σ) : Prop where
  buf : s.buf.Inv
  capLe : s.buf.cap ≤ maxCap
  split : cbBytes s ++ s.buf.data ++ s.unread = input
  total : s.totalConsumed = (cbBytes s).length

/-- what holds at the head of every iteration -/
structure Inv {σ} (maxCap : Nat) (input : Bytes) (s : St σ) : Prop extends Mid maxCap input s where
  fully : s.fullyConsumed = true → s.inRecovery = false → s.buf.data = []

theorem init_inv {σ} (maxCap initCap : Nat) (ps : σ) (input : Bytes) (sched : List Nat)
    (h0 : 0 < initCap) (hle : initCap ≤ maxCap) : Inv maxCap input (init initCap ps input sched) := by
  refine ⟨⟨⟨?_, ?_, ?_⟩, ?_, ?_, ?_⟩, ?_⟩ <;> simp [init, Buf.withCapacity, cbBytes] <;> omega

theorem recoverBlock_mid {σ} (maxCap : Nat) (input : Bytes) (ops : Ops σ) (s : St σ)
    (h : Mid maxCap input s) :
    Mid maxCap input (recoverBlock ops s) ∧
    ((recoverBlock ops s).fullyConsumed = true → (recoverBlock ops s).buf.data = []) := by
  obtain ⟨hb, hc, hs, ht⟩ := h
  unfold recoverBlock
  dsimp only
  split
  · next idx hidx =>
    have hlt := firstNL_lt hidx
    refine ⟨⟨Buf.consume_inv _ _ hb, ?_, ?_, ?_⟩, ?_⟩
    · simp only [Buf.consume_cap]; exact hc
    · simp only [cbBytes, List.reverse_cons, List.flatten_append, List.flatten_cons, List.flatten_nil,
        List.append_nil, Buf.consume_data] at hs ⊢
      rw [← hs]; simp only [List.append_assoc]
      rw [← List.append_assoc (List.take _ _), List.take_append_drop]
    · simp only [cbBytes, List.reverse_cons, List.flatten_append, List.flatten_cons, List.flatten_nil,
        List.append_nil, List.length_append, List.length_take] at ht ⊢
      omega
    · intro h; exact List.isEmpty_iff.mp h
  · refine ⟨⟨Buf.consume_inv _ _ hb, ?_, ?_, ?_⟩, ?_⟩
    · simp only [Buf.consume_cap]; exact hc
    · simp only [cbBytes, List.reverse_cons, List.flatten_append, List.flatten_cons, List.flatten_nil,
        List.append_nil, Buf.consume_data, List.take_length, List.drop_length] at hs ⊢
      rw [← hs]
    · simp only [cbBytes, List.reverse_cons, List.flatten_append, List.flatten_cons, List.flatten_nil,
        List.append_nil, List.length_append, List.take_length] at ht ⊢
      omega
    · intro _; simp only [Buf.consume_data, List.drop_length]

theorem readBlock_mid {σ} (maxCap : Nat) (input : Bytes) (s : St σ)
    (h : Mid maxCap input s) :
    Mid maxCap input (readBlock s).1 ∧
    (readBlock s).1.buf.data = s.buf.data ++ (readBlock s).2 ∧
    ((readBlock s).2.length = 0 → s.buf.availableSpace = 0 ∨ (readBlock s).1.unread = []) := by
  obtain ⟨hb, hc, hs, ht⟩ := h
  obtain ⟨r1, r2, r3⟩ := readChunk_spec s.buf.availableSpace s.unread s.sched
  unfold readBlock
  dsimp only
  refine ⟨⟨Buf.fill_inv _ _ hb, ?_, ?_, ht⟩, Buf.fill_data _ _ r2, ?_⟩
  · rw [Buf.fill_cap]; exact hc
  · rw [Buf.fill_data _ _ r2]
    simp only [cbBytes] at hs ⊢
    rw [← hs]; simp only [List.append_assoc]
    congr 2
  · intro h0
    rcases r3 h0 with h | h
    · exact Or.inl h
    · right
      exact (List.append_eq_nil_iff.mp (r1.trans h)).2

/-- flags and parser state do not matter for `Mid` -/
theorem Mid.congr {σ} {maxCap : Nat} {input : Bytes} {s s' : St σ} (h : Mid maxCap input s)
    (hb : s'.buf = s.buf) (hu : s'.unread = s.unread) (hcb : s'.cb = s.cb)
    (ht : s'.totalConsumed = s.totalConsumed) : Mid maxCap input s' := by
  obtain ⟨h1, h2, h3, h4⟩ := h
  refine ⟨hb ▸ h1, hb ▸ h2, ?_, ?_⟩
  · simp only [cbBytes, hb, hu, hcb] at h3 ⊢; exact h3
  · simp only [cbBytes, hcb, ht] at h4 ⊢; exact h4

theorem parseBlock_spec {σ} (maxCap : Nat) (input : Bytes) (ops : Ops σ) (s : St σ)
    (h : Mid maxCap input s) :
    (∀ s', parseBlock ops s = .inl s' → s.inRecovery = false → Inv maxCap input s') ∧
    (∀ s', parseBlock ops s = .inl s' → s.inRecovery = true → s' = s) ∧
    (∀ out sf, parseBlock ops s = .inr (out, sf) →
      Mid maxCap input sf ∧ sf.unread = s.unread ∧ ∀ ps, out ≠ .ok ps) := by
  unfold parseBlock
  by_cases hr : s.inRecovery = true
  · simp only [hr, if_true]
    refine ⟨fun s' _ h2 => (by simp at h2), fun s' h1 _ => (by cases h1; rfl), fun _ _ h1 => (by cases h1)⟩
  · have hr' : s.inRecovery = false := by simpa using hr
    simp only [hr', Bool.false_eq_true, if_false]
    have hm : Mid maxCap input { s with justFinished := false } := h.congr rfl rfl rfl rfl
    split
    · refine ⟨fun _ h1 => (by cases h1), fun _ h1 => (by cases h1), fun out sf h1 => ?_⟩
      cases h1; exact ⟨h.congr rfl rfl rfl rfl, rfl, fun _ h => by cases h⟩
    · refine ⟨fun _ h1 => (by cases h1), fun _ h1 => (by cases h1), fun out sf h1 => ?_⟩
      cases h1; exact ⟨h.congr rfl rfl rfl rfl, rfl, fun _ h => by cases h⟩
    · next consumed ps' _ =>
      split
      · refine ⟨fun _ h1 => (by cases h1), fun _ h1 => (by cases h1), fun out sf h1 => ?_⟩
        cases h1; exact ⟨h.congr rfl rfl rfl rfl, rfl, fun _ h => by cases h⟩
      · next hle =>
        have hle' : consumed ≤ s.buf.data.length := by simpa using hle
        obtain ⟨hb, hc, hs, ht⟩ := h
        refine ⟨fun s' h1 _ => ?_, fun s' _ h2 => (by simp at h2), fun _ _ h1 => (by cases h1)⟩
        cases h1
        refine ⟨⟨Buf.consume_inv _ _ hb, ?_, ?_, ?_⟩, ?_⟩
        · simp only [Buf.consume_cap]; exact hc
        · simp only [cbBytes, List.reverse_cons, List.flatten_append, List.flatten_cons, List.flatten_nil,
            List.append_nil, Buf.consume_data] at hs ⊢
          rw [← hs]; simp only [List.append_assoc]
          rw [← List.append_assoc (List.take _ _), List.take_append_drop]
        · simp only [cbBytes, List.reverse_cons, List.flatten_append, List.flatten_cons, List.flatten_nil,
            List.append_nil, List.length_append, List.length_take] at ht ⊢
          omega
        · intro hf _
          simp only [beq_iff_eq] at hf
          simp only [Buf.consume_data]
          exact List.drop_eq_nil_of_le (by omega)


theorem zeroBlock_spec {σ} (maxCap : Nat) (input : Bytes) (ops : Ops σ) (hadSpace : Bool) (s : St σ)
    (h : Mid maxCap input s)
    (hfull : s.fullyConsumed = true → s.buf.data = []) :
    (∀ s', zeroBlock maxCap ops hadSpace s = .inl s' → Inv maxCap input s') ∧
    (∀ out sf, zeroBlock maxCap ops hadSpace s = .inr (out, sf) →
      Mid maxCap input sf ∧ sf.unread = s.unread ∧ ∀ ps, out = .ok ps → sf.buf.data = []) := by
  obtain ⟨p1, p2, p3⟩ := parseBlock_spec maxCap input ops s h
  unfold zeroBlock
  split
  · refine ⟨fun s' h1 => ?_, fun out sf h1 => ?_⟩
    · by_cases hr : s.inRecovery = true
      · have := p2 s' h1 hr
        subst this
        exact ⟨h, fun _ h2 => by simp [hr] at h2⟩
      · exact p1 s' h1 (by simpa using hr)
    · obtain ⟨q1, q2, q3⟩ := p3 out sf h1
      exact ⟨q1, q2, fun ps hps => absurd hps (q3 ps)⟩
  · split
    · next hf =>
      refine ⟨fun _ h1 => (by cases h1), fun out sf h1 => ?_⟩
      cases h1
      exact ⟨h, rfl, fun _ _ => hfull hf⟩
    · next hf =>
      split
      · dsimp only
        split
        · refine ⟨fun s' h1 => ?_, fun _ _ h1 => (by cases h1)⟩
          cases h1
          exact ⟨h.congr rfl rfl rfl rfl, fun _ h2 => by simp at h2⟩
        · next hcap =>
          refine ⟨fun s' h1 => ?_, fun _ _ h1 => (by cases h1)⟩
          cases h1
          obtain ⟨hb, hc, hs, ht⟩ := h
          refine ⟨⟨Buf.grow_inv _ _ hb, Buf.grow_cap_le _ _ _ hc (by omega), ?_, ht⟩, fun h2 => ?_⟩
          · simp only [cbBytes, Buf.grow_data] at hs ⊢; exact hs
          · exact absurd h2 hf
      · split
        · refine ⟨fun _ h1 => (by cases h1), fun out sf h1 => ?_⟩
          cases h1; exact ⟨h, rfl, fun _ h2 => by cases h2⟩
        · refine ⟨fun _ h1 => (by cases h1), fun out sf h1 => ?_⟩
          cases h1; exact ⟨h, rfl, fun _ h2 => by cases h2⟩

/-- One iteration preserves the invariant; a `return` leaves a state in which the callback has
    seen a prefix of the input, and all of it when the result is `Ok`. -/
theorem step_spec {σ} (maxCap : Nat) (input : Bytes) (ops : Ops σ) (s0 : St σ)
    (h : Inv maxCap input s0) :
    (∀ s', step maxCap ops s0 = .inl s' → Inv maxCap input s') ∧
    (∀ out sf, step maxCap ops s0 = .inr (out, sf) →
      Mid maxCap input sf ∧ ∀ ps, out = .ok ps → sf.buf.data = [] ∧ sf.unread = []) := by
  unfold step
  -- the state after the recovery block
  have hs1 : ∃ s1, s1 = (if s0.inRecovery = true then recoverBlock ops s0 else s0) ∧
      Mid maxCap input s1 ∧ (s1.fullyConsumed = true → s1.buf.data = []) := by
    refine ⟨_, rfl, ?_⟩
    by_cases hr : s0.inRecovery = true
    · simp only [hr, if_true]
      exact recoverBlock_mid maxCap input ops s0 h.toMid
    · simp only [hr]
      exact ⟨h.toMid, fun hf => h.fully hf (by simpa using hr)⟩
  obtain ⟨s1, hs1e, hm1, hf1⟩ := hs1
  rw [← hs1e]
  dsimp only
  obtain ⟨hm2, hd2, hz2⟩ := readBlock_mid maxCap input s1 hm1
  have hfl : (readBlock s1).1.fullyConsumed = s1.fullyConsumed := rfl
  have hrc : (readBlock s1).1.inRecovery = s1.inRecovery := rfl
  split
  · next hz =>
    -- size == 0
    have hnil : (readBlock s1).2 = [] := List.eq_nil_of_length_eq_zero hz
    rw [hnil, List.append_nil] at hd2
    have hfull : (readBlock s1).1.fullyConsumed = true → (readBlock s1).1.buf.data = [] := by
      intro hf
      rw [hfl] at hf
      rw [hd2]; exact hf1 hf
    obtain ⟨z1, z2⟩ := zeroBlock_spec maxCap input ops (decide (s1.buf.availableSpace > 0)) _ hm2 hfull
    refine ⟨z1, fun out sf hz' => ?_⟩
    obtain ⟨q1, q2, q3⟩ := z2 out sf hz'
    refine ⟨q1, fun ps hps => ⟨q3 ps hps, ?_⟩⟩
    -- Ok: the window is empty, so there was space, so the reader is at end of input
    rw [q2]
    rcases hz2 hz with hsp | hun
    · exfalso
      -- zeroBlock returned Ok, hence fullyConsumed, hence the window is empty
      have hfc : (readBlock s1).1.fullyConsumed = true := by
        unfold zeroBlock at hz'
        subst hps
        split at hz'
        · obtain ⟨_, _, p3⟩ := parseBlock_spec maxCap input ops _ hm2
          exact absurd rfl ((p3 _ _ hz').2.2 ps)
        · split at hz'
          · next hf => exact hf
          · split at hz'
            · dsimp only at hz'; split at hz' <;> cases hz'
            · split at hz' <;> cases hz'
      have hd : s1.buf.data = [] := by rw [← hd2]; exact hfull hfc
      have := hm1.buf
      simp only [Buf.availableSpace, Buf.end_, hd, List.length_nil, Nat.add_zero] at hsp
      have h1 := this.half; have h2 := this.capPos; have h3 := this.fits
      omega
    · exact hun
  · -- size > 0
    have hm3 : Mid maxCap input { (readBlock s1).1 with triedToGrow := false } :=
      hm2.congr rfl rfl rfl rfl
    obtain ⟨p1, p2, p3⟩ := parseBlock_spec maxCap input ops _ hm3
    refine ⟨fun s' h1 => ?_, fun out sf h1 => ?_⟩
    · by_cases hr : s1.inRecovery = true
      · have := p2 s' h1 hr
        subst this
        exact ⟨hm3, fun _ h2 => by simp only [hrc] at h2; rw [hr] at h2; cases h2⟩
      · exact p1 s' h1 (by rw [show ({ (readBlock s1).1 with triedToGrow := false } : St σ).inRecovery = s1.inRecovery from rfl]; simpa using hr)
    · obtain ⟨q1, _, q2⟩ := p3 out sf h1
      exact ⟨q1, fun ps hps => absurd hps (q2 ps)⟩


/-! ### termination: a measure that strictly decreases with every iteration (for EVERY parser) -/

def flagsM {σ} (s : St σ) : Nat :=
  (if s.justFinished then 1 else 0) + (if s.triedToGrow then 0 else 1) + (if s.inRecovery then 0 else 1)

/-- `8·|unread| + 4·|window| + (just_finished) + (¬tried_to_grow) + (¬in_panic_recovery)` -/
def measure {σ} (s : St σ) : Nat := 8 * s.unread.length + 4 * s.buf.data.length + flagsM s

theorem recoverBlock_measure {σ} (ops : Ops σ) (s0 : St σ) (hr : s0.inRecovery = true) :
    (recoverBlock ops s0).unread = s0.unread ∧
    4 * (recoverBlock ops s0).buf.data.length + flagsM (recoverBlock ops s0)
      ≤ 4 * s0.buf.data.length + flagsM s0 ∧
    ((recoverBlock ops s0).inRecovery = true →
      (recoverBlock ops s0).fullyConsumed = true ∧ (recoverBlock ops s0).buf.data = []) := by
  unfold recoverBlock
  dsimp only
  split
  · next idx hidx =>
    have hlt := firstNL_lt hidx
    refine ⟨rfl, ?_, fun h => by simp at h⟩
    simp only [flagsM, Buf.consume_data, List.length_drop, hr]
    split <;> simp <;> omega
  · refine ⟨rfl, ?_, fun _ => ⟨rfl, ?_⟩⟩
    · simp only [flagsM, Buf.consume_data, List.drop_length, List.length_nil]
      omega
    · simp only [Buf.consume_data, List.drop_length]

theorem flagsM_mono {σ} (a b : St σ) (hj : a.justFinished = true → b.justFinished = true)
    (ht : a.triedToGrow = b.triedToGrow) (hr : a.inRecovery = b.inRecovery) : flagsM a ≤ flagsM b := by
  unfold flagsM; rw [ht, hr]
  cases h1 : a.justFinished <;> cases h2 : b.justFinished <;> simp_all

theorem flagsM_reset {σ} (a b : St σ) (hj : a.justFinished = true → b.justFinished = true)
    (hr : a.inRecovery = b.inRecovery) : flagsM a ≤ flagsM b + 1 := by
  unfold flagsM; rw [hr]
  cases h1 : a.justFinished <;> cases h2 : b.justFinished <;> cases h3 : a.triedToGrow <;>
    cases h4 : b.triedToGrow <;> simp_all <;> omega

theorem flagsM_just {σ} (a b : St σ) (ha : a.justFinished = false) (hb : b.justFinished = true)
    (ht : a.triedToGrow = b.triedToGrow) (hr : a.inRecovery = b.inRecovery) : flagsM a + 1 ≤ flagsM b := by
  unfold flagsM; rw [ht, hr, ha, hb]; simp; omega

theorem flagsM_tried {σ} (a b : St σ) (hj : a.justFinished = b.justFinished)
    (ha : a.triedToGrow = true) (hb : b.triedToGrow = false)
    (hr : a.inRecovery = b.inRecovery) : flagsM a + 1 ≤ flagsM b := by
  unfold flagsM; rw [hj, hr, ha, hb]; simp; omega

theorem flagsM_rec {σ} (a b : St σ) (hj : a.justFinished = b.justFinished)
    (ht : a.triedToGrow = b.triedToGrow)
    (ha : a.inRecovery = true) (hb : b.inRecovery = false) : flagsM a + 1 ≤ flagsM b := by
  unfold flagsM; rw [hj, ht, ha, hb]; simp

theorem parseBlock_measure {σ} (ops : Ops σ) (s s' : St σ) (h : parseBlock ops s = .inl s') :
    s'.unread = s.unread ∧ s'.buf.data.length ≤ s.buf.data.length ∧
    s'.triedToGrow = s.triedToGrow ∧ s'.inRecovery = s.inRecovery ∧
    (s'.justFinished = true → s.justFinished = true) ∧
    (s.inRecovery = false → s'.justFinished = false) := by
  unfold parseBlock at h
  by_cases hr : s.inRecovery = true
  · simp only [hr, if_true] at h
    cases h; exact ⟨rfl, Nat.le_refl _, rfl, rfl, id, fun h => by simp [hr] at h⟩
  · have hr' : s.inRecovery = false := by simpa using hr
    simp only [hr', Bool.false_eq_true, if_false] at h
    split at h
    · cases h
    · cases h
    · split at h
      · cases h
      · cases h
        refine ⟨rfl, ?_, rfl, hr'.symm, fun h => by simp at h, fun _ => rfl⟩
        simp only [Buf.consume_data, List.length_drop]; omega

theorem readBlock_measure {σ} (s : St σ) :
    8 * (readBlock s).1.unread.length + 4 * (readBlock s).1.buf.data.length + 4 * (readBlock s).2.length
      ≤ 8 * s.unread.length + 4 * s.buf.data.length ∧
    flagsM (readBlock s).1 = flagsM s ∧
    ((readBlock s).2.length = 0 → (readBlock s).1.buf.data = s.buf.data ∧ (readBlock s).1.unread = s.unread) := by
  obtain ⟨r1, r2, r3⟩ := readChunk_spec s.buf.availableSpace s.unread s.sched
  unfold readBlock
  dsimp only
  refine ⟨?_, rfl, fun h0 => ?_⟩
  · rw [Buf.fill_data _ _ r2]
    have : s.unread.length = (readChunk s.buf.availableSpace s.unread s.sched).1.length +
        (readChunk s.buf.availableSpace s.unread s.sched).2.1.length := by
      rw [← List.length_append, r1]
    simp only [List.length_append]; omega
  · have hnil := List.eq_nil_of_length_eq_zero h0
    refine ⟨?_, ?_⟩
    · rw [Buf.fill_data _ _ r2, hnil, List.append_nil]
    · have := r1; rw [hnil, List.nil_append] at this; exact this

theorem measure_lt {σ} (a : St σ) (U D F : Nat) (hu : a.unread.length = U)
    (hd : a.buf.data.length ≤ D) (hf : flagsM a + 1 ≤ F) : measure a < 8 * U + 4 * D + F := by
  unfold measure; omega

theorem step_measure {σ} (maxCap : Nat) (ops : Ops σ) (s0 s' : St σ)
    (h : step maxCap ops s0 = .inl s') : measure s' < measure s0 := by
  unfold step at h
  -- after the recovery block
  have hs1 : ∃ s1, s1 = (if s0.inRecovery = true then recoverBlock ops s0 else s0) ∧
      s1.unread = s0.unread ∧
      4 * s1.buf.data.length + flagsM s1 ≤ 4 * s0.buf.data.length + flagsM s0 ∧
      (s1.inRecovery = true → s1.fullyConsumed = true ∧ s1.buf.data = []) := by
    refine ⟨_, rfl, ?_⟩
    by_cases hr : s0.inRecovery = true
    · simp only [hr, if_true]; exact recoverBlock_measure ops s0 hr
    · simp only [hr]; exact ⟨rfl, Nat.le_refl _, fun h => absurd h hr⟩
  obtain ⟨s1, hs1e, hu1, hm1, hrec1⟩ := hs1
  rw [← hs1e] at h
  dsimp only at h
  obtain ⟨rb1, rb2, rb3⟩ := readBlock_measure s1
  have hfl : (readBlock s1).1.fullyConsumed = s1.fullyConsumed := rfl
  have hrc : (readBlock s1).1.inRecovery = s1.inRecovery := rfl
  split at h
  · next hz =>
    obtain ⟨hd2, hu2⟩ := rb3 hz
    unfold zeroBlock at h
    split at h
    · next hjf =>
      -- fall through to the parser after a finished recovery
      have hjf' : (readBlock s1).1.justFinished = true ∧ (readBlock s1).1.buf.data ≠ [] := by
        simp only [Bool.and_eq_true, Bool.not_eq_true', List.isEmpty_eq_false_iff] at hjf; exact hjf
      have hnr : s1.inRecovery = false := by
        cases hr : s1.inRecovery with
        | false => rfl
        | true => exact absurd ((hrec1 hr).2) (by rw [← hd2]; exact hjf'.2)
      obtain ⟨p1, p2, p3, p4, p5, p6⟩ := parseBlock_measure ops _ s' h
      have hj' : s'.justFinished = false := p6 (hrc.trans hnr)
      have := flagsM_just s' (readBlock s1).1 hj' hjf'.1 p3 p4
      simp only [measure]
      rw [p1, hu2, hu1]; rw [hd2] at p2; rw [rb2] at this
      omega
    · split at h
      · cases h
      · next hnf =>
        have hnr : s1.inRecovery = false := by
          cases hr : s1.inRecovery with
          | false => rfl
          | true => exact absurd ((hfl.trans (hrec1 hr).1)) hnf
        split at h
        · next hgrow =>
          have htg : (readBlock s1).1.triedToGrow = false := by
            simp only [Bool.and_eq_true, Bool.not_eq_true'] at hgrow; exact hgrow.1
          dsimp only at h
          split at h
          · cases h
            -- enter recovery
            refine Nat.lt_of_lt_of_le (measure_lt _ s0.unread.length s1.buf.data.length (flagsM s1)
              (by show (readBlock s1).1.unread.length = _; rw [hu2, hu1])
              (by show (readBlock s1).1.buf.data.length ≤ _; rw [hd2]; exact Nat.le_refl _)
              (by rw [← rb2]; exact flagsM_rec _ (readBlock s1).1 rfl rfl rfl (hrc.trans hnr))) ?_
            unfold measure; omega
          · cases h
            -- grow
            refine Nat.lt_of_lt_of_le (measure_lt _ s0.unread.length s1.buf.data.length (flagsM s1)
              (by show (readBlock s1).1.unread.length = _; rw [hu2, hu1])
              (by show ((readBlock s1).1.buf.grow _).data.length ≤ _; rw [Buf.grow_data, hd2]; exact Nat.le_refl _)
              (by rw [← rb2]; exact flagsM_tried _ (readBlock s1).1 rfl rfl htg rfl)) ?_
            unfold measure; omega
        · split at h <;> cases h
  · next hnz =>
    obtain ⟨p1, p2, p3, p4, p5, p6⟩ := parseBlock_measure ops _ s' h
    have hfl' := flagsM_reset s' (readBlock s1).1 p5 p4
    have e1 : s'.unread.length = (readBlock s1).1.unread.length := by rw [p1]
    have e2 : s1.unread.length = s0.unread.length := by rw [hu1]
    have p2' : s'.buf.data.length ≤ (readBlock s1).1.buf.data.length := p2
    have hfl'' : flagsM s' ≤ flagsM s1 + 1 := by rw [← rb2]; exact hfl'
    have : (readBlock s1).2.length ≠ 0 := hnz
    show 8 * s'.unread.length + 4 * s'.buf.data.length + flagsM s'
      < 8 * s0.unread.length + 4 * s0.buf.data.length + flagsM s0
    omega

theorem run_terminates {σ} (maxCap : Nat) (ops : Ops σ) :
    ∀ (fuel : Nat) (s : St σ), measure s < fuel → ∃ r, run maxCap ops fuel s = some r := by
  intro fuel
  induction fuel with
  | zero => intro s h; omega
  | succ n ih =>
    intro s h
    unfold run
    cases hs : step maxCap ops s with
    | inr r => exact ⟨r, rfl⟩
    | inl s' =>
      have := step_measure maxCap ops s s' hs
      exact ih s' (by omega)

theorem measure_init {σ} (initCap : Nat) (ps : σ) (input : Bytes) (sched : List Nat) :
    measure (init initCap ps input sched) < fuelFor input := by
  simp [measure, flagsM, init, fuelFor, Buf.withCapacity]

/-- states reachable from `s0` by whole iterations -/
inductive Reach {σ} (maxCap : Nat) (ops : Ops σ) (s0 : St σ) : St σ → Prop where
  | refl : Reach maxCap ops s0 s0
  | step {s s'} : Reach maxCap ops s0 s → step maxCap ops s = .inl s' → Reach maxCap ops s0 s'

theorem reach_inv {σ} {maxCap : Nat} {input : Bytes} {ops : Ops σ} {s0 s : St σ}
    (h0 : Inv maxCap input s0) (hr : Reach maxCap ops s0 s) : Inv maxCap input s := by
  induction hr with
  | refl => exact h0
  | step _ hs ih => exact (step_spec maxCap input ops _ ih).1 _ hs

theorem run_spec {σ} (maxCap : Nat) (input : Bytes) (ops : Ops σ) :
    ∀ (fuel : Nat) (s : St σ) (out : Out σ) (sf : St σ), Inv maxCap input s →
      run maxCap ops fuel s = some (out, sf) →
      Mid maxCap input sf ∧ ∀ ps, out = .ok ps → sf.buf.data = [] ∧ sf.unread = [] := by
  intro fuel
  induction fuel with
  | zero => intro s out sf _ h; simp [run] at h
  | succ n ih =>
    intro s out sf hinv h
    unfold run at h
    cases hs : step maxCap ops s with
    | inr r =>
      rw [hs] at h; cases h
      exact (step_spec maxCap input ops s hinv).2 out sf hs
    | inl s' =>
      rw [hs] at h
      exact ih s' out sf ((step_spec maxCap input ops s hinv).1 s' hs) h


/-! ### no panic outcome, for a parser that never panics and never over-reports -/

/-- what the loop needs from the parser, relative to a parser-state invariant `Q` -/
def ParserSafe {σ} (ops : Ops σ) (Q : σ → Prop) : Prop :=
  (∀ st w, Q st → (∃ n st', ops.parseMore st w = .ok n st' ∧ n ≤ w.length ∧ Q st') ∨
      (∃ k l, ops.parseMore st w = .err k l)) ∧
  (∀ st, Q st → Q (ops.bumpLine st))

theorem parseBlock_safe {σ} (ops : Ops σ) (Q : σ → Prop) (hP : ParserSafe ops Q) (s : St σ) (hs : Q s.ps) :
    (∀ s', parseBlock ops s = .inl s' → Q s'.ps) ∧
    (∀ out sf, parseBlock ops s = .inr (out, sf) → (∀ e, out ≠ .panic e) ∧ ∀ ps, out ≠ .ok ps) := by
  unfold parseBlock
  split
  · exact ⟨fun s' h => (by cases h; exact hs), fun _ _ h => (by cases h)⟩
  · dsimp only
    rcases hP.1 s.ps s.buf.data hs with ⟨n, st', hpm, hn, hq⟩ | ⟨k, l, hpm⟩
    · rw [hpm]
      dsimp only
      rw [if_neg (by omega)]
      exact ⟨fun s' h => (by cases h; exact hq), fun _ _ h => (by cases h)⟩
    · rw [hpm]
      refine ⟨fun _ h => (by cases h), fun out sf h => ?_⟩
      cases h
      exact ⟨fun e h => (by cases h), fun ps h => (by cases h)⟩

theorem step_safe {σ} (maxCap : Nat) (ops : Ops σ) (Q : σ → Prop) (hP : ParserSafe ops Q) (s : St σ)
    (hs : Q s.ps) :
    (∀ s', step maxCap ops s = .inl s' → Q s'.ps) ∧
    (∀ out sf, step maxCap ops s = .inr (out, sf) → (∀ e, out ≠ .panic e) ∧ ∀ ps, out = .ok ps → Q ps) := by
  unfold step
  have h1 : Q (if s.inRecovery = true then recoverBlock ops s else s).ps := by
    split
    · unfold recoverBlock
      dsimp only
      split
      · exact hP.2 _ hs
      · exact hs
    · exact hs
  generalize (if s.inRecovery = true then recoverBlock ops s else s) = s1 at h1
  dsimp only
  have h2 : Q (readBlock s1).1.ps := h1
  split
  · unfold zeroBlock
    split
    · obtain ⟨p1, p2⟩ := parseBlock_safe ops Q hP _ h2
      exact ⟨p1, fun out sf h => ⟨(p2 out sf h).1, fun ps hps => absurd hps ((p2 out sf h).2 ps)⟩⟩
    · split
      · refine ⟨fun _ h => (by cases h), fun out sf h => ?_⟩
        cases h
        exact ⟨fun e h => (by cases h), fun ps h => (by cases h; exact h2)⟩
      · split
        · dsimp only
          split
          · exact ⟨fun s' h => (by cases h; exact h2), fun _ _ h => (by cases h)⟩
          · exact ⟨fun s' h => (by cases h; exact h2), fun _ _ h => (by cases h)⟩
        · split
          · refine ⟨fun _ h => (by cases h), fun out sf h => ?_⟩
            cases h
            exact ⟨fun e h => (by cases h), fun ps h => (by cases h)⟩
          · refine ⟨fun _ h => (by cases h), fun out sf h => ?_⟩
            cases h
            exact ⟨fun e h => (by cases h), fun ps h => (by cases h)⟩
  · obtain ⟨p1, p2⟩ := parseBlock_safe ops Q hP { (readBlock s1).1 with triedToGrow := false } h2
    exact ⟨p1, fun out sf h => ⟨(p2 out sf h).1, fun ps hps => absurd hps ((p2 out sf h).2 ps)⟩⟩

theorem run_safe {σ} (maxCap : Nat) (ops : Ops σ) (Q : σ → Prop) (hP : ParserSafe ops Q) :
    ∀ (fuel : Nat) (s : St σ) (out : Out σ) (sf : St σ), Q s.ps → run maxCap ops fuel s = some (out, sf) →
      (∀ e, out ≠ .panic e) ∧ ∀ ps, out = .ok ps → Q ps := by
  intro fuel
  induction fuel with
  | zero => intro s out sf _ h; simp [run] at h
  | succ n ih =>
    intro s out sf hs h
    unfold run at h
    obtain ⟨s1, s2⟩ := step_safe maxCap ops Q hP s hs
    cases hst : step maxCap ops s with
    | inr r =>
      rw [hst] at h; cases h
      exact s2 out sf hst
    | inl s' =>
      rw [hst] at h
      exact ih s' out sf (s1 s' hst) h

end MdModel.Stream
