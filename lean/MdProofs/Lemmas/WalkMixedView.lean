/-
  Helper lemmas for C04, chains whose technique changes from frame to frame (part 2): the
  architecture-independent view of a frame in `PreW`'s per-frame state (`MView`), what is asserted
  of a produced frame (`FrameIsA`), and the STACK CFI step for any context kind under any validity
  set (`step_cfi_arch`).

  x86 walks whose symbol files carry STACK WIN records go through `cfiWalkW` and have their own
  view (`WinView`, WalkWinChainStep) — see WalkMixedX86.
-/
import MdProofs.Lemmas.WalkMixedCfi
import MdProofs.Lemmas.WalkWinChain
set_option linter.unusedSimpArgs false
namespace MdModel.Walk
open MdModel

/-- the label `walk_stack` gives a frame of technique `e.tech` (STACK WIN frames are labelled `cfi`) -/
def techTrust (e : Exp) : Trust :=
  if e.tech = "win" ∨ e.tech = "cfi" then .cfi else if e.tech = "fp" then .fp else .scan

theorem techTrust_ne_context (e : Exp) : techTrust e ≠ .context := by
  unfold techTrust; split
  · decide
  · split <;> decide

/-- **what C04 asserts of one produced frame** (any context kind): technique label, return
    address, stack pointer, lookup address `ret - adj`, ip / sp valid, the frame pointer valid
    exactly when the chain says so and then with the generated value, every claimed register valid
    with its generated value -/
structure FrameIsA (a : Arch) (t : Trust) (e : Exp) (f : Frame) : Prop where
  ip : f.ctx.ip = e.ret
  sp : f.ctx.sp = e.sp
  trust : f.trust = t
  instr : f.instruction = e.ret - a.adj
  m64 : f.ctx.m64 = (a == .mips64)
  vip : f.ctx.has a a.ipName = true
  vsp : f.ctx.has a a.spName = true
  fp : e.fp = if f.ctx.has a a.fpName then some (f.ctx.raw a a.fpName) else none
  regs : ∀ p ∈ e.regs, f.ctx.has a p.1 = true ∧ f.ctx.raw a p.1 = p.2 ∧ p.2 ≤ a.regMax
  spmax : e.sp ≤ a.regMax
  retmax : e.ret ≤ a.regMax
  fpmax : ∀ v, e.fp = some v → v ≤ a.regMax

/-- frame `f` is in the state `st` of `PreW` -/
structure MView (w : World) (a : Arch) (f : Frame) (st : MState) : Prop where
  m64 : f.ctx.m64 = (a == .mips64)
  instr : f.instruction = st.instr
  sp : f.ctx.sp = st.sp
  spmax : st.sp ≤ a.regMax
  vsp : f.ctx.has a a.spName = true
  fp : st.fp = if f.ctx.has a a.fpName then some (f.ctx.raw a a.fpName) else none
  fpmax : ∀ v, st.fp = some v → v ≤ a.regMax
  regs : ∀ r v, st.regs.lookup r = some v → f.ctx.has a r = true ∧ f.ctx.raw a r = v ∧ v ≤ a.regMax
  trust : st.first = true ↔ f.trust = .context
  lr : st.first = true → a.leafOk = true → st.lr = f.ctx.raw a (lrName a) ∧
    (f.ctx.has a (lrName a) = true ∨
      ∀ rec, cfiRecordAt w st.instr = some rec → tokenize rec.init ≠ leafToks a)

theorem effArch_of_m64 {a : Arch} {c : Ctx} (h : c.m64 = (a == .mips64)) : effArch a c = a := by
  cases a <;> simp_all [effArch, Arch.isMips]

theorem MView.eff {w : World} {a : Arch} {f : Frame} {st : MState} (hv : MView w a f st) :
    effArch a f.ctx = a := effArch_of_m64 hv.m64

theorem MView.symbolise {w : World} {a : Arch} {f : Frame} {st : MState} (env : Env) (hv : MView w a f st) :
    MView w a (symbolise env f) st :=
  ⟨hv.m64, hv.instr, hv.sp, hv.spmax, hv.vsp, hv.fp, hv.fpmax, hv.regs, hv.trust, hv.lr⟩

/-- the frame a step produced is again in the state `PreW` moves to -/
theorem MView.next {w : World} {a : Arch} {env : Env} {st : MState} {t : Trust} {e : Exp} {f' : Frame}
    (hg : FrameIsA a t e f') (ht : t ≠ .context) : MView w a f' (nextState env a st e) := by
  refine ⟨hg.m64, hg.instr, hg.sp, hg.spmax, hg.vsp, hg.fp, hg.fpmax, ?_, ?_, ?_⟩
  · intro r v hl
    exact hg.regs (r, v) (lookup_some_mem hl)
  · constructor
    · intro h; cases h
    · intro h; rw [hg.trust] at h; exact absurd h ht
  · intro h; cases h

/-! ### registers as the unwinders read them -/

theorem raw_spName (a : Arch) (c : Ctx) : c.raw a a.spName = c.sp := by
  cases a <;> simp [Ctx.raw, Arch.canon, Arch.registers, Arch.spName, Arch.ipName]

theorem raw_ipName (a : Arch) (c : Ctx) : c.raw a a.ipName = c.ip := by
  cases a <;> simp [Ctx.raw, Arch.canon, Arch.registers, Arch.spName, Arch.ipName]

/-- `get_register` of a valid register whose value fits -/
theorem get_of_has {a : Arch} {c : Ctx} {r : String} (h : c.has a r = true) (hm : c.raw a r ≤ a.regMax) :
    c.get a r = some (c.raw a r) := by
  unfold Ctx.get
  rw [if_pos h]
  by_cases h32 : a = .mips32
  · subst h32
    have : c.raw .mips32 r ≤ U32MAX := hm
    simp only [U32MAX] at this
    rw [if_pos rfl, Nat.mod_eq_of_lt (by omega)]
  · rw [if_neg h32]

theorem get_none_of_has {a : Arch} {c : Ctx} {r : String} (h : c.has a r = false) : c.get a r = none := by
  unfold Ctx.get; simp [h]

/-- for a callee-saved register name `has` is the literal test (no alias of it is in any set the
    x86 / x86-64 / MIPS unwinders build) -/
theorem has_eq_hasLit {a : Arch} (ha : a = .x86 ∨ a = .amd64 ∨ a = .mips32 ∨ a = .mips64) (c : Ctx) {r : String}
    (hr : a.canon r = some r) : c.has a r = c.hasLit r := by
  unfold Ctx.has Ctx.hasLit
  cases c.valid with
  | none => simp [hr]
  | some V => rcases ha with rfl | rfl | rfl | rfl <;> simp [Arch.aliases]

theorem mem_forwarded {a : Arch} {c : Ctx} {r : String} :
    r ∈ forwarded a c ↔ a.calleeSaved.contains r = true ∧ c.has a r = true := by
  have key : ∀ (a : Arch), (a = .x86 ∨ a = .amd64 ∨ a = .mips32 ∨ a = .mips64) →
      ((r ∈ a.calleeSaved ∧ c.hasLit r = true) ↔ a.calleeSaved.contains r = true ∧ c.has a r = true) := by
    intro a ha
    constructor
    · rintro ⟨h1, h2⟩
      have hc : a.calleeSaved.contains r = true := by simpa using h1
      exact ⟨hc, by rw [has_eq_hasLit ha c (canon_calleeSaved hc).1]; exact h2⟩
    · rintro ⟨h1, h2⟩
      refine ⟨by simpa using h1, ?_⟩
      rw [has_eq_hasLit ha c (canon_calleeSaved h1).1] at h2; exact h2
  cases a
  case arm => simp [forwarded]
  case arm64 => simp [forwarded]
  case arm64old => simp [forwarded]
  all_goals
    simp only [forwarded, List.mem_filter]
    exact key _ (by simp)

theorem lrName_canon {a : Arch} (h : a.leafOk = true) : a.canon (lrName a) = some (lrName a) := by
  cases a <;> simp [Arch.leafOk] at h <;> decide

/-! ### one frame through a canonical STACK CFI record, any validity set -/

/-- **one `get_caller_frame` on a frame covered by a canonical STACK CFI record**, whatever is
    valid in the callee beyond its stack pointer: the caller's ip, sp, the registers the record
    saves (valid, slot words) and the callee-saved registers valid in the callee (forwarded) -/
theorem step_cfi_arch {env : Env} {a : Arch} {w : World} {mem : Mem} (harch : env.arch = a)
    (hcfi : ∀ f g, env.cfi f g = cfiOf a w (modTable w.mods) (cfiTables w) env.mask mem f g)
    {f : Frame} {g : Option Frame} {st : MState} {e : Exp} (hv : MView w a f st)
    (hret : 4096 ≤ e.ret) (hspm : e.sp ≤ a.regMax) (hretm : e.ret ≤ a.regMax)
    (hlt : st.sp < e.sp ∨ (st.first = true ∧ a.leafOk = true ∧ st.sp = e.sp))
    (hl : linkCfiM w a env.mask mem st e = true) :
    ∃ f', step env mem f g = some f' ∧ FrameIsA a .cfi e f' := by
  have heff := hv.eff
  -- the callee's stack pointer and link register as the evaluator reads them
  have hspget : f.ctx.get a a.spName = some st.sp := by
    have := get_of_has hv.vsp (by rw [raw_spName, hv.sp]; exact hv.spmax)
    rw [this, raw_spName, hv.sp]
  have hlr : st.first = true → a.leafOk = true → st.lr ≤ a.regMax →
      (f.ctx.get a (lrName a) = some st.lr ∨
        ∀ rec, cfiRecordAt w st.instr = some rec → tokenize rec.init ≠ leafToks a) := by
    intro h1 h2 h3
    obtain ⟨e1, e2⟩ := hv.lr h1 h2
    rcases e2 with e2 | e2
    · left
      rw [get_of_has e2 (by rw [← e1]; exact h3), e1]
    · exact Or.inr e2
  obtain ⟨rec, ret0, saved, hrec, hadds, hwalk, hret0, hnd, hsv, hfpc, hregsc⟩ :=
    walkCfi_of_link hl hspget hspm hlr { ctx := f.ctx, valid := forwarded a f.ctx }
  have hcw : cfiWalk a w (modTable w.mods) (cfiTables w) mem f =
      some (canonOut a mem { ctx := f.ctx, valid := forwarded a f.ctx } e.sp ret0 saved) := by
    rw [cfiWalk_of_record a w mem f rec (by rw [hv.instr]; exact hrec) hadds]; exact hwalk
  -- the validity set after the rules
  have hmemV : ∀ n, n ∈ (canonOut a mem { ctx := f.ctx, valid := forwarded a f.ctx } e.sp ret0 saved).valid ↔
      (a.calleeSaved.contains n = true ∧ f.ctx.has a n = true) ∨ n = a.spName ∨ n = a.ipName ∨ n ∈ saved.map (·.1) := by
    intro n
    rw [canonOut_valid]
    show n ∈ forwarded a f.ctx ∨ _ ↔ _
    rw [mem_forwarded]
  have hplain : PlainValid a (canonOut a mem { ctx := f.ctx, valid := forwarded a f.ctx } e.sp ret0 saved).valid := by
    intro n hn
    rcases (hmemV n).mp hn with h | h | h | h
    · exact Or.inl h.1
    · exact Or.inr (Or.inl h)
    · exact Or.inr (Or.inr h)
    · obtain ⟨g', hg', rfl⟩ := List.mem_map.mp h
      exact Or.inl (hsv g' hg').1
  obtain ⟨c', hc', res⟩ := cfiOf_res (mask := env.mask) (g := g) heff hv.vsp hcw hplain
  have hip' : c'.ip = e.ret := by
    rw [res.ip, ← maskOf_eq_stripOf]; exact hret0
  have hsp' : c'.sp = e.sp := res.sp
  -- validity in the caller, by membership
  have hhas : ∀ r, a.canon r = some r → (c'.has a r = true ↔
      (a.calleeSaved.contains r = true ∧ f.ctx.has a r = true) ∨ r = a.spName ∨ r = a.ipName ∨ r ∈ saved.map (·.1)) := by
    intro r hr
    rw [has_of_plain res.valid hplain hr, ← hmemV]
    simp
  -- values in the caller
  have hraw : ∀ r, a.calleeSaved.contains r = true → r ≠ a.spName →
      c'.raw a r = (if r = a.fpName ∧ c'.has a r = true then stripOf a env.mask else id)
        (match saved.lookup r with
          | some lit => slotWord a mem e.sp lit
          | none => f.ctx.raw a r) := by
    intro r hr hrsp
    obtain ⟨hc, hip⟩ := canon_calleeSaved hr
    rw [res.raw r hc hip hrsp, canonOut_raw hnd hc hip hrsp, has_of_plain res.valid hplain hc]
    split <;> rfl
  refine ⟨{ ctx := c', trust := .cfi, instruction := e.ret - a.adj }, ?_, ?_⟩
  · unfold step
    simp only [harch, heff, candidate, hcfi, hc']
    unfold epilogue
    rw [hip', hsp', nullish_eq, if_neg (by omega)]
    rcases hlt with h | ⟨h1, h2, h3⟩
    · rw [if_neg (by rw [hv.sp]; omega)]
    · rw [if_neg (by simp [h2, (hv.trust.mp h1), hv.sp, h3])]
  · have hfpcs := fpName_calleeSaved a
    refine ⟨hip', hsp', rfl, rfl, by rw [res.m64]; exact hv.m64, ?_, ?_, ?_, ?_, hspm, hretm, ?_⟩
    · exact (hhas _ (ipName_canon a)).mpr (Or.inr (Or.inr (Or.inl rfl)))
    · exact (hhas _ (spName_canon a)).mpr (Or.inr (Or.inl rfl))
    · -- the frame pointer
      have hfpraw := hraw a.fpName hfpcs.1 hfpcs.2
      cases hlk : saved.lookup a.fpName with
      | some lit =>
        rw [hlk] at hfpc hfpraw
        have hval : c'.has a a.fpName = true :=
          (hhas _ (fpName_canon a)).mpr (Or.inr (Or.inr (Or.inr (List.mem_map.mpr ⟨_, lookup_some_mem hlk, rfl⟩))))
        rw [hval, if_pos rfl, hfpc, hfpraw, hval, if_pos ⟨rfl, rfl⟩, maskOf_eq_stripOf]
      | none =>
        rw [hlk] at hfpc hfpraw
        have hnot : a.fpName ∉ saved.map (·.1) := lookup_none_not_mem hlk
        have hiff : c'.has a a.fpName = true ↔ f.ctx.has a a.fpName = true := by
          rw [hhas _ (fpName_canon a)]
          constructor
          · rintro (h | h | h | h)
            · exact h.2
            · exact absurd h hfpcs.2
            · exact absurd h (fpName_ne_ip a)
            · exact absurd h hnot
          · intro h; exact Or.inl ⟨hfpcs.1, h⟩
        rw [hfpc, hv.fp]
        by_cases hf : f.ctx.has a a.fpName = true
        · have hval := hiff.mpr hf
          rw [hf, hval, if_pos rfl, if_pos rfl, hfpraw, hval, if_pos ⟨rfl, rfl⟩, Option.map_some, maskOf_eq_stripOf]
        · have hval : ¬ c'.has a a.fpName = true := fun h => hf (hiff.mp h)
          simp only [hf, hval, if_false, Option.map_none, Bool.false_eq_true]
    · -- the claimed registers
      intro p hp
      obtain ⟨h1, h2, h3, h4⟩ := hregsc p hp
      obtain ⟨hc, _⟩ := canon_calleeSaved h1
      have hpraw := hraw p.1 h1 h2
      rw [if_neg (fun h => h3 h.1)] at hpraw
      cases hlk : saved.lookup p.1 with
      | some lit =>
        rw [hlk] at h4 hpraw
        refine ⟨(hhas _ hc).mpr (Or.inr (Or.inr (Or.inr (List.mem_map.mpr ⟨_, lookup_some_mem hlk, rfl⟩)))), ?_, ?_⟩
        · rw [hpraw]; exact h4
        · rw [← h4]
          obtain ⟨_, _⟩ := hsv _ (lookup_some_mem hlk)
          unfold slotWord
          cases hrd : mem.read ((e.sp + lit) % W64) a.ptr with
          | none => exact Nat.zero_le _
          | some v => exact read_le_regMax hrd
      | none =>
        rw [hlk] at h4 hpraw
        obtain ⟨q1, q2, q3⟩ := hv.regs p.1 p.2 h4
        exact ⟨(hhas _ hc).mpr (Or.inl ⟨h1, q1⟩), by rw [hpraw]; exact q2, q3⟩
    · -- the claimed frame pointer fits the register
      intro v hev
      have hmask : ∀ x, x ≤ a.regMax → maskOf a env.mask x ≤ a.regMax := by
        intro x hx
        cases a <;> simp only [maskOf] <;> first | exact hx | exact Nat.le_trans Nat.and_le_left hx
      cases hlk : saved.lookup a.fpName with
      | some lit =>
        rw [hlk, hev] at hfpc
        injection hfpc with hfpc
        rw [hfpc]
        unfold slotWord
        cases hrd : mem.read ((e.sp + lit) % W64) a.ptr with
        | none => exact hmask _ (Nat.zero_le _)
        | some x => exact hmask _ (read_le_regMax hrd)
      | none =>
        rw [hlk, hev] at hfpc
        cases hsf : st.fp with
        | none => rw [hsf] at hfpc; cases hfpc
        | some x =>
          rw [hsf] at hfpc
          simp only [Option.map_some, Option.some.injEq] at hfpc
          rw [hfpc]
          exact hmask _ (hv.fpmax x hsf)

end MdModel.Walk
