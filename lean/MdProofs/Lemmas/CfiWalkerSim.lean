/-
  The real `CfiStackWalker` IS an instance of C06's abstract `Walker`.

  `toWalker w` is the C06 record of a real walker `w` (names and aliases from the C18 tables, the
  valid callee registers, the stack image, the register width). This file proves that every
  question `walk_with_stack_cfi` asks is answered alike by both (`memo_toWalker`, `envOf_eq`,
  `fits_toWalker`), that every write has the same effect on the view of every canonical caller
  register (`applyOtherReal_sim`), and hence that `walkCfiReal` — `walk_with_stack_cfi` on the real
  walker — is `MdModel.Cfi.walkCfi` on `toWalker w` (`walkCfiReal_bridge`).

  As in the bridge to the stack-walk model (`CfiBridgeWalk`), the real walker keeps the CFA and the
  return address IN the stack-pointer and instruction-pointer registers, where later rules can
  overwrite or clear them, while the C06 record has two separate slots: the caller registers are
  compared with the C06 run that starts from `sp ↦ cfa, ip ↦ ra` (`Cfi.storeCfaRa`).
-/
import MdProofs.Lemmas.CfiWalker
namespace MdModel.CfiWalker
open MdModel MdModel.Gen.Regs MdModel.Regs MdModel.CfiBridge

/-! ## register names as text -/

theorem nameStr_utf8 (s : String) : nameStr (utf8 s) = some s := by
  unfold nameStr
  rw [utf8_eq_toByteArray]
  unfold String.fromUTF8?
  rw [dif_pos s.isValidUTF8]
  rfl

theorem toByteArray_inj {a b : List UInt8} (h : a.toByteArray = b.toByteArray) : a = b := by
  have := congrArg (fun x => x.data.toList) h
  simpa using this

theorem nameStr_some {b : Cfi.Name} {s : String} (h : nameStr b = some s) : b = utf8 s := by
  unfold nameStr String.fromUTF8? at h
  split at h
  · cases h
    apply toByteArray_inj
    rw [utf8_eq_toByteArray]
    rfl
  · cases h

theorem nameStr_none {b : Cfi.Name} (h : nameStr b = none) (n : String) : b ≠ utf8 n := by
  intro e; rw [e, nameStr_utf8] at h; cases h

/-! ## the C06 record of a real walker -/

/-- alias ↦ canonical name, for every table name that is not its own canonical name -/
def aliasOf (c : Ctx) (k : String) : Option String :=
  match memoName c k with
  | some r => if r = k then none else some r
  | none => none

def aliasPairs (c : Ctx) : List (String × String) :=
  (knownNames c).filterMap fun k => (aliasOf c k).map fun r => (k, r)

/-- **the C06 `Walker` a real `CfiStackWalker` is** (`fwd`: the caller registers it starts with) -/
def toWalker (w : CfiStackWalker) (fwd : List (Cfi.Name × UInt64)) : Cfi.Walker :=
  { instr := w.instruction
    ptr := w.cpu.bits / 8
    known := (registers w.cpu.tbl).map utf8
    aliases := (aliasPairs w.cpu.tbl).map fun p => (utf8 p.1, utf8 p.2)
    callee := (registers w.cpu.tbl).filterMap fun r => (calleeView w r).map fun v => (utf8 r, UInt64.ofNat v)
    memBase := w.stack.base
    mem := w.stack.bytes
    be := w.stack.bigEndian
    fwd := fwd }

theorem lookup_filterMap_key (l : List String) (g : String → Option String) (n : String) :
    (l.filterMap fun k => (g k).map fun r => (k, r)).lookup n = if n ∈ l then g n else none := by
  induction l with
  | nil => rfl
  | cons a t ih =>
    rw [List.filterMap_cons]
    by_cases hna : n = a
    · subst hna
      cases hg : g n with
      | none =>
        simp only [Option.map_none, List.mem_cons, true_or, if_true]
        rw [ih]
        by_cases hm : n ∈ t <;> simp [hm, hg]
      | some r => simp
    · have hb : (n == a) = false := by rw [beq_eq_false_iff_ne]; exact hna
      cases hg : g a with
      | none =>
        simp only [Option.map_none, List.mem_cons, hna, false_or]
        exact ih
      | some r =>
        simp only [Option.map_some, List.lookup, hb, List.mem_cons, hna, false_or]
        exact ih

theorem lookup_aliasPairs (p : Cpu) {n : String} (hn : n ∉ registers p.tbl) :
    (aliasPairs p.tbl).lookup n = p.canon n := by
  unfold aliasPairs
  rw [lookup_filterMap_key]
  by_cases hk : n ∈ knownNames p.tbl
  · simp only [hk, if_true, aliasOf]
    obtain ⟨r, hr⟩ := canon_of_known (p := p) hk
    have hr' : memoName p.tbl n = some r := hr
    rw [hr', hr]
    have : ¬ r = n := fun e => hn (e ▸ (canon_canon hr).1)
    simp [this]
  · simp only [hk, if_false]
    exact (canon_unknown hk).symm

/-- **names**: the record's `memoize_register` is the real one — unknown, or the ONE canonical name -/
theorem memo_toWalker (w : CfiStackWalker) (fwd : List (Cfi.Name × UInt64)) (n : String) :
    (toWalker w fwd).memo (utf8 n) = (w.cpu.canon n).map utf8 := by
  unfold Cfi.Walker.memo toWalker
  simp only
  rw [contains_map_utf8]
  by_cases hr : n ∈ registers w.cpu.tbl
  · have : (registers w.cpu.tbl).contains n = true := by simpa using hr
    rw [this, canon_register hr]; rfl
  · have : (registers w.cpu.tbl).contains n = false := by simpa using hr
    rw [this, lookupName_map_utf8, lookup_aliasPairs w.cpu hr]
    simp only [Bool.false_eq_true, if_false]
    cases hc : w.cpu.canon n with
    | none => rfl
    | some r =>
      simp only [Option.map_some]
      rw [contains_map_utf8]
      have : (registers w.cpu.tbl).contains r = true := by simpa using (canon_canon hc).1
      rw [this]; rfl

theorem lookupName_not_image (l : List (String × String)) (b : Cfi.Name) (hb : ∀ n : String, b ≠ utf8 n) :
    Cfi.lookupName (l.map fun p => (utf8 p.1, utf8 p.2)) b = none := by
  induction l with
  | nil => rfl
  | cons p t ih =>
    rw [List.map_cons, Cfi.lookupName_cons]
    have hne : ¬ utf8 p.1 = b := fun e => hb p.1 e.symm
    simp only [hne, if_false]
    exact ih

/-- a label that is not UTF-8 text (none reaches the evaluator: the symbol-file parser rejects the
    line) names no register -/
theorem memo_toWalker_not_text (w : CfiStackWalker) (fwd : List (Cfi.Name × UInt64)) (b : Cfi.Name)
    (hb : ∀ n : String, b ≠ utf8 n) : (toWalker w fwd).memo b = none := by
  unfold Cfi.Walker.memo toWalker
  simp only
  have h1 : ((registers w.cpu.tbl).map utf8).contains b = false := by
    rw [← Bool.not_eq_true, List.contains_iff_mem, List.mem_map]
    rintro ⟨r, _, e⟩; exact hb r e.symm
  rw [h1]
  simp only [Bool.false_eq_true, if_false]
  rw [lookupName_not_image (aliasPairs w.cpu.tbl) b hb]

theorem lookup_filterMap_utf8 (l : List String) (f : String → Option UInt64) (r : String) (hr : r ∈ l) :
    Cfi.lookupName (l.filterMap fun k => (f k).map fun v => (utf8 k, v)) (utf8 r) = f r := by
  induction l with
  | nil => cases hr
  | cons a t ih =>
    rw [List.filterMap_cons]
    by_cases hra : r = a
    · subst hra
      cases hf : f r with
      | none =>
        simp only [Option.map_none]
        by_cases hm : r ∈ t
        · rw [ih hm, hf]
        · -- no later entry has this key either
          clear ih
          induction t with
          | nil => rfl
          | cons b t' ih' =>
            rw [List.filterMap_cons]
            have hrb : ¬ r = b := fun e => hm (e ▸ List.mem_cons_self)
            have hm' : r ∉ t' := fun h => hm (List.mem_cons_of_mem _ h)
            cases f b with
            | none => exact ih' (by simp [hm']) hm'
            | some v =>
              simp only [Option.map_some]
              rw [Cfi.lookupName_cons]
              have : ¬ utf8 b = utf8 r := fun e => hrb (utf8_inj e).symm
              simp only [this, if_false]
              exact ih' (by simp [hm']) hm'
      | some v => simp [Cfi.lookupName_cons]
    · have hm : r ∈ t := by
        rcases List.mem_cons.mp hr with h | h
        · exact absurd h hra
        · exact h
      cases f a with
      | none => exact ih hm
      | some v =>
        simp only [Option.map_some]
        rw [Cfi.lookupName_cons]
        have : ¬ utf8 a = utf8 r := fun e => hra (utf8_inj e).symm
        simp only [this, if_false]
        exact ih hm

/-- **reads go through aliases to one cell, validity honoured**: the record's
    `get_callee_register` is the real one -/
theorem getCallee_toWalker (w : CfiStackWalker) (fwd : List (Cfi.Name × UInt64)) (n : String) :
    (toWalker w fwd).getCallee (utf8 n) = (calleeView w n).map UInt64.ofNat := by
  unfold Cfi.Walker.getCallee
  rw [memo_toWalker]
  cases hc : w.cpu.canon n with
  | none => simp only [Option.map_none, calleeView, hc]
  | some r =>
    simp only [Option.map_some]
    rw [calleeView_canon w hc]
    have := lookup_filterMap_utf8 (registers w.cpu.tbl) (fun k => (calleeView w k).map UInt64.ofNat) r (canon_canon hc).1
    simp only [Option.map_map] at this
    exact this

theorem Cpu.bits_cases (p : Cpu) : p.bits = 32 ∨ p.bits = 64 := by
  cases p with
  | ctx c => exact regBits_cases c
  | mips32 => left; rfl

/-- **`fits` = the width test** -/
theorem fits_toWalker (w : CfiStackWalker) (fwd : List (Cfi.Name × UInt64)) (v : UInt64) :
    (toWalker w fwd).fits v = w.cpu.fits v.toNat := by
  unfold Cfi.Walker.fits Cpu.fits toWalker
  simp only
  rcases w.cpu.bits_cases with h | h <;> rw [h]

/-- **memory**: a register-sized little-endian read inside the stack image -/
theorem readMem_toWalker (w : CfiStackWalker) (fwd : List (Cfi.Name × UInt64)) (hle : w.stack.bigEndian = false)
    (a : UInt64) :
    (toWalker w fwd).readMem a = toU64 (w.getRegisterAtAddress a.toNat) := by
  unfold Cfi.Walker.readMem CfiStackWalker.getRegisterAtAddress StackMem.read toWalker toU64
  simp only [hle]
  by_cases h1 : a.toNat < w.stack.base
  · simp [h1]
  · simp only [h1, if_false]
    by_cases h2 : a.toNat - w.stack.base + w.cpu.bits / 8 ≤ w.stack.bytes.length
    · simp [h2]
    · simp [h2]

/-- **what `eval_cfi_expr` observes of the real walker is what it observes of the record** -/
theorem envOf_eq (w : CfiStackWalker) (fwd : List (Cfi.Name × UInt64))
    (hv : validityWf w.cpu.tbl w.calleeValidity = true) (hle : w.stack.bigEndian = false) :
    envOf w = (toWalker w fwd).env := by
  unfold envOf Cfi.Walker.env
  congr 1
  · funext b
    cases hb : nameStr b with
    | none =>
      simp only
      unfold Cfi.Walker.getCallee
      rw [memo_toWalker_not_text w fwd b (nameStr_none hb)]
    | some s =>
      simp only
      rw [nameStr_some hb, getCallee_toWalker, getCalleeRegister_eq w hv]
      rfl
  · funext a
    exact (readMem_toWalker w fwd hle a).symm

/-! ## writes: one rule on both sides -/

/-- caller register `s` is valid with the same value on both sides, or unknown on both -/
def CallerSim (w : CfiStackWalker) (c : Cfi.Caller) (s : String) : Prop :=
  (c.get (utf8 s)).map UInt64.toNat = callerView w s

theorem withCaller_self (w : CfiStackWalker) : w.withCaller w.callerCtx w.callerValidity = w := rfl

theorem map_utf8_eq_some (o : Option String) (s : String) : (o.map utf8 = some (utf8 s)) ↔ o = some s := by
  cases o with
  | none => simp
  | some m => simp [utf8_eq_iff]

/-- **one iteration of the loop over the remaining rules**: the real walker never panics, only its
    caller half changes, and every canonical register is related afterwards if it was before -/
theorem applyOtherReal_sim (w : CfiStackWalker) (fwd : List (Cfi.Name × UInt64))
    (hv : validityWf w.cpu.tbl w.calleeValidity = true) (hle : w.stack.bigEndian = false)
    (cfa : UInt64) (c : Cfi.Caller) (r : Cfi.Name × Cfi.Expr) :
    ∃ st vs, applyOtherReal cfa w r = .ok (w.withCaller st vs) ∧
      ∀ s ∈ registers w.cpu.tbl, CallerSim w c s →
        CallerSim (w.withCaller st vs) (Cfi.applyOther (toWalker w fwd) cfa c r) s := by
  unfold applyOtherReal
  cases hb : nameStr r.1 with
  | none =>
    refine ⟨w.callerCtx, w.callerValidity, rfl, ?_⟩
    intro s _ hs
    unfold CallerSim at hs ⊢
    rw [Cfi.get_applyOther]
    unfold Cfi.upd
    rw [memo_toWalker_not_text w fwd r.1 (nameStr_none hb), withCaller_self]
    simpa using hs
  | some n =>
    have hname : r.1 = utf8 n := nameStr_some hb
    simp only
    rw [envOf_eq w fwd hv hle]
    -- the C06 side, as a function of the view
    have hC : ∀ s, ((Cfi.applyOther (toWalker w fwd) cfa c r).get (utf8 s)).map UInt64.toNat =
        if w.cpu.canon n = some s then
          (match Cfi.evalCfi (toWalker w fwd).env (some cfa) r.2 with
           | some v => if w.cpu.fits v.toNat then some v.toNat else none
           | none => none)
        else (c.get (utf8 s)).map UInt64.toNat := by
      intro s
      rw [Cfi.get_applyOther]
      unfold Cfi.upd
      rw [hname, memo_toWalker]
      by_cases hc : w.cpu.canon n = some s
      · have : (w.cpu.canon n).map utf8 = some (utf8 s) := (map_utf8_eq_some _ _).mpr hc
        rw [if_pos this, if_pos hc]
        cases Cfi.evalCfi (toWalker w fwd).env (some cfa) r.2 with
        | none => rfl
        | some v =>
          simp only [fits_toWalker]
          by_cases hf : w.cpu.fits v.toNat = true <;> simp [hf]
      · have : ¬ (w.cpu.canon n).map utf8 = some (utf8 s) := fun e => hc ((map_utf8_eq_some _ _).mp e)
        rw [if_neg this, if_neg hc]
    cases he : Cfi.evalCfi (toWalker w fwd).env (some cfa) r.2 with
    | none =>
      simp only
      rw [clearCallerRegister_eq]
      cases hc : w.cpu.canon n with
      | none =>
        refine ⟨w.callerCtx, w.callerValidity, rfl, ?_⟩
        intro s _ hs
        unfold CallerSim at hs ⊢
        rw [hC s, he, hc, withCaller_self]; simpa using hs
      | some m =>
        refine ⟨w.callerCtx, setRemove w.callerValidity m, rfl, ?_⟩
        intro s _ hs
        unfold CallerSim at hs ⊢
        rw [hC s, he, hc, callerView_clear]
        by_cases hsm : s = m
        · subst hsm; simp
        · have : ¬ m = s := fun e => hsm e.symm
          simp only [Option.some.injEq, this, hsm, if_false]; exact hs
    | some v =>
      simp only
      rw [setCallerRegister_eq]
      cases hc : w.cpu.canon n with
      | none =>
        simp only
        rw [clearCallerRegister_eq, hc]
        refine ⟨w.callerCtx, w.callerValidity, rfl, ?_⟩
        intro s _ hs
        unfold CallerSim at hs ⊢
        rw [hC s, he, hc, withCaller_self]; simpa using hs
      | some m =>
        simp only
        by_cases hf : w.cpu.fits v.toNat = true
        · simp only [hf, if_true]
          refine ⟨_, _, rfl, ?_⟩
          intro s hsr hs
          unfold CallerSim at hs ⊢
          rw [hC s, he, hc, callerView_set w hc hsr]
          by_cases hsm : s = m
          · subst hsm; simp [hf]
          · have : ¬ m = s := fun e => hsm e.symm
            simp only [Option.some.injEq, this, hsm, if_false]; exact hs
        · simp only [hf, Bool.false_eq_true, if_false]
          rw [clearCallerRegister_eq, hc]
          refine ⟨w.callerCtx, setRemove w.callerValidity m, rfl, ?_⟩
          intro s _ hs
          unfold CallerSim at hs ⊢
          rw [hC s, he, hc, callerView_clear]
          by_cases hsm : s = m
          · subst hsm; simp [hf]
          · have : ¬ m = s := fun e => hsm e.symm
            simp only [Option.some.injEq, this, hsm, if_false]; exact hs

/-- the loop over the remaining rules, in lock-step -/
theorem foldReal_sim (w : CfiStackWalker) (fwd : List (Cfi.Name × UInt64))
    (hv : validityWf w.cpu.tbl w.calleeValidity = true) (hle : w.stack.bigEndian = false)
    (cfa : UInt64) (rules : List (Cfi.Name × Cfi.Expr)) :
    ∀ (st : State) (vs : List String) (c : Cfi.Caller),
      ∃ st' vs', foldReal cfa rules (w.withCaller st vs) = .ok (w.withCaller st' vs') ∧
        ∀ s ∈ registers w.cpu.tbl, CallerSim (w.withCaller st vs) c s →
          CallerSim (w.withCaller st' vs') (rules.foldl (Cfi.applyOther (toWalker w fwd) cfa) c) s := by
  induction rules with
  | nil => intro st vs c; exact ⟨st, vs, rfl, fun _ _ h => h⟩
  | cons r rs ih =>
    intro st vs c
    obtain ⟨st1, vs1, h1, hs1⟩ := applyOtherReal_sim (w.withCaller st vs) fwd hv hle cfa c r
    obtain ⟨st2, vs2, h2, hs2⟩ := ih st1 vs1 (Cfi.applyOther (toWalker w fwd) cfa c r)
    refine ⟨st2, vs2, ?_, ?_⟩
    · unfold foldReal
      rw [h1]
      exact h2
    · intro s hs hsim
      rw [List.foldl_cons]
      exact hs2 s hs (hs1 s hs hsim)

/-! ## `walk_with_stack_cfi` on the real walker -/

/-- the caller registers a walker holds, as the C06 record lists them -/
def fwdOfReal (w : CfiStackWalker) : List (Cfi.Name × UInt64) :=
  w.callerValidity.map fun s => (utf8 s, UInt64.ofNat (rawOf w.cpu.tbl w.callerCtx s))

theorem fwdOfReal_sim (w : CfiStackWalker) (s : String)
    (h64 : w.callerValidity.contains s = true → rawOf w.cpu.tbl w.callerCtx s < 2 ^ 64) :
    CallerSim w ⟨none, none, fwdOfReal w⟩ s := by
  unfold CallerSim Cfi.Caller.get callerView fwdOfReal
  simp only
  have key : ∀ l : List String,
      Cfi.lookupName (l.map fun s' => (utf8 s', UInt64.ofNat (rawOf w.cpu.tbl w.callerCtx s'))) (utf8 s) =
        if l.contains s then some (UInt64.ofNat (rawOf w.cpu.tbl w.callerCtx s)) else none := by
    intro l
    induction l with
    | nil => rfl
    | cons r t ih =>
      rw [List.map_cons, Cfi.lookupName_cons, List.contains_cons]
      by_cases hr : s = r
      · subst hr; simp
      · have h1 : ¬ utf8 r = utf8 s := fun e => hr (utf8_inj e).symm
        have h2 : (s == r) = false := by rw [beq_eq_false_iff_ne]; exact hr
        simp only [h1, if_false, h2, Bool.false_or]; exact ih
  rw [key]
  by_cases hc : w.callerValidity.contains s = true
  · rw [if_pos hc, if_pos hc, Option.map_some, u64_toNat_ofNat_lt _ (h64 hc)]
  · rw [if_neg hc, if_neg hc]; rfl

theorem lookup_storeCfaRa (spN ipN s : String) (fwd : List (Cfi.Name × UInt64)) (cfa ra : UInt64) :
    Cfi.lookupName (Cfi.storeCfaRa (utf8 spN) (utf8 ipN) fwd cfa ra) (utf8 s) =
      if s = ipN then some ra else if s = spN then some cfa else Cfi.lookupName fwd (utf8 s) := by
  unfold Cfi.storeCfaRa
  rw [Cfi.lookupName_cons]
  by_cases h1 : s = ipN
  · simp [h1]
  · have h1' : ¬ utf8 ipN = utf8 s := fun e => h1 (utf8_inj e).symm
    simp only [h1', h1, if_false]
    rw [Cfi.lookupName_erase_ne _ _ _ h1', Cfi.lookupName_cons]
    by_cases h2 : s = spN
    · simp [h2]
    · have h2' : ¬ utf8 spN = utf8 s := fun e => h2 (utf8_inj e).symm
      simp only [h2', h2, if_false]
      rw [Cfi.lookupName_erase_ne _ _ _ h2']

/-- the record whose caller registers start with `sp ↦ cfa`, `ip ↦ ra` -/
def seededFwd (w : CfiStackWalker) (fwd : List (Cfi.Name × UInt64)) (cfa ra : UInt64) : List (Cfi.Name × UInt64) :=
  Cfi.storeCfaRa (utf8 w.cpu.spName) (utf8 w.cpu.ipName) fwd cfa ra

/-- the real walker after `set_cfa(cfa)` and `set_ra(ra)` succeeded -/
def afterCfaRaReal (w : CfiStackWalker) (cfa ra : Nat) : CfiStackWalker :=
  let w1 := w.withCaller (writeOf w.cpu.tbl w.callerCtx w.cpu.spName cfa) (setInsert w.callerValidity w.cpu.spName)
  w1.withCaller (writeOf w.cpu.tbl w1.callerCtx w.cpu.ipName ra) (setInsert w1.callerValidity w.cpu.ipName)

theorem callerView_afterCfaRa (w : CfiStackWalker) (cfa ra : Nat) {s : String} (hs : s ∈ registers w.cpu.tbl) :
    callerView (afterCfaRaReal w cfa ra) s =
      if s = w.cpu.ipName then some ra else if s = w.cpu.spName then some cfa else callerView w s := by
  unfold afterCfaRaReal
  simp only
  have hsp := canon_register (p := w.cpu) (sp_known w.cpu).1
  have hip := canon_register (p := w.cpu) (sp_known w.cpu).2.1
  have e1 := callerView_set
    (w.withCaller (writeOf w.cpu.tbl w.callerCtx w.cpu.spName cfa) (setInsert w.callerValidity w.cpu.spName))
    (n := w.cpu.ipName) (m := w.cpu.ipName) (s := s) hip hs ra
  have e2 := callerView_set w (n := w.cpu.spName) (m := w.cpu.spName) (s := s) hsp hs cfa
  rw [← e2]
  exact e1

theorem seeded_sim (w : CfiStackWalker) (fwd : List (Cfi.Name × UInt64)) (cfa ra : UInt64) {s : String}
    (hs : s ∈ registers w.cpu.tbl)
    (h : s = w.cpu.spName ∨ s = w.cpu.ipName ∨ CallerSim w ⟨none, none, fwd⟩ s) :
    CallerSim (afterCfaRaReal w cfa.toNat ra.toNat) ⟨some cfa, some ra, seededFwd w fwd cfa ra⟩ s := by
  unfold CallerSim Cfi.Caller.get seededFwd
  rw [callerView_afterCfaRa w _ _ hs, lookup_storeCfaRa]
  by_cases h1 : s = w.cpu.ipName
  · simp [h1]
  · by_cases h2 : s = w.cpu.spName
    · have hne := (sp_known w.cpu).2.2
      subst h2; simp [hne]
    · simp only [h1, h2, if_false]
      rcases h with h | h | h
      · exact absurd h h2
      · exact absurd h h1
      · exact h

theorem setCfaRa_eq (w : CfiStackWalker) (cfa ra : Nat) :
    (w.setCfa cfa = .ok (if w.cpu.fits cfa then
        (true, w.withCaller (writeOf w.cpu.tbl w.callerCtx w.cpu.spName cfa) (setInsert w.callerValidity w.cpu.spName))
      else (false, w))) ∧
    (∀ st vs, (w.withCaller st vs).setRa ra = .ok (if w.cpu.fits ra then
        (true, w.withCaller (writeOf w.cpu.tbl st w.cpu.ipName ra) (setInsert vs w.cpu.ipName))
      else (false, w.withCaller st vs))) := by
  constructor
  · rw [setCfa_eq, setCallerRegister_eq, canon_register (sp_known w.cpu).1]
  · intro st vs
    rw [setRa_eq, setCallerRegister_eq]
    show Outcome.ok (match w.cpu.canon w.cpu.ipName with | none => _ | some m => _) = _
    rw [canon_register (sp_known w.cpu).2.1]
    rfl

/-- **`walk_with_stack_cfi` on the real walker IS C06's `walkCfi` on its record.** For every real
    walker (any of the ten context types, any validity set of its names, any little-endian stack
    memory) and every list of rule lines: the real walker never panics; the two fail together; when
    they succeed, C06's CFA and return address are what the real walker stored in its stack pointer
    and instruction pointer before the remaining rules ran, only the caller half of the real
    walker changed, and — running C06 with those two stored as registers — every canonical caller
    register is valid with the same value, or unknown, on both sides. -/
theorem walkCfiReal_bridge (w : CfiStackWalker) (fwd : List (Cfi.Name × UInt64))
    (hv : validityWf w.cpu.tbl w.calleeValidity = true) (hle : w.stack.bigEndian = false)
    (lines : List Cfi.Bytes) :
    match Cfi.walkCfi (toWalker w fwd) lines with
    | none => ∃ st vs, walkCfiReal w lines = .ok (false, w.withCaller st vs)
    | some c =>
      ∃ cfa ra st vs c', c.cfa = some cfa ∧ c.ra = some ra ∧
        walkCfiReal w lines = .ok (true, w.withCaller st vs) ∧
        Cfi.walkCfi (toWalker w (seededFwd w fwd cfa ra)) lines = some c' ∧
        c'.cfa = some cfa ∧ c'.ra = some ra ∧
        ∀ s ∈ registers w.cpu.tbl,
          (s = w.cpu.spName ∨ s = w.cpu.ipName ∨ CallerSim w ⟨none, none, fwd⟩ s) →
            CallerSim (w.withCaller st vs) c' s := by
  have hself : ∃ st vs, (Outcome.ok (false, w) : Outcome (Bool × CfiStackWalker)) = .ok (false, w.withCaller st vs) :=
    ⟨w.callerCtx, w.callerValidity, rfl⟩
  unfold walkCfiReal
  rw [envOf_eq w fwd hv hle]
  cases hp : Cfi.parseAll lines [] with
  | none =>
    rw [Cfi.parse_failure_fails _ _ hp]
    exact hself
  | some m =>
    simp only []
    have hmand := Cfi.ra_mandatory (toWalker w fwd) lines m hp
    cases hc : m.get .cfa with
    | none =>
      rw [hmand.2.1 hc]
      cases m.get .ra <;> exact hself
    | some cfaE =>
      cases hr : m.get .ra with
      | none => rw [hmand.1 hr]; exact hself
      | some raE =>
        simp only
        cases he1 : Cfi.evalCfi (toWalker w fwd).env none cfaE with
        | none => rw [hmand.2.2.1 cfaE hc he1]; exact hself
        | some cfa =>
          simp only
          cases he2 : Cfi.evalCfi (toWalker w fwd).env (some cfa) raE with
          | none => rw [hmand.2.2.2 cfaE raE cfa hc hr he1 he2]; exact hself
          | some ra =>
            simp only
            rw [(setCfaRa_eq w cfa.toNat ra.toNat).1]
            by_cases hf1 : w.cpu.fits cfa.toNat = true
            · simp only [hf1, if_true]
              rw [(setCfaRa_eq w cfa.toNat ra.toNat).2]
              by_cases hf2 : w.cpu.fits ra.toNat = true
              · simp only [hf2, if_true]
                have hW1 : (toWalker w fwd).fits cfa = true := by rw [fits_toWalker]; exact hf1
                have hW2 : (toWalker w fwd).fits ra = true := by rw [fits_toWalker]; exact hf2
                have hC : Cfi.walkCfi (toWalker w fwd) lines = some _ :=
                  (Cfi.walkCfi_some_iff _ _ _).mpr ⟨m, cfaE, raE, cfa, ra, hp, hc, hr, he1, he2, hW1, hW2, rfl⟩
                have hC' : Cfi.walkCfi (toWalker w (seededFwd w fwd cfa ra)) lines = some _ :=
                  (Cfi.walkCfi_some_iff _ _ _).mpr ⟨m, cfaE, raE, cfa, ra, hp, hc, hr, he1, he2, hW1, hW2, rfl⟩
                rw [hC]
                obtain ⟨st, vs, hfold, hsim⟩ := foldReal_sim w (seededFwd w fwd cfa ra) hv hle cfa
                  (Cfi.sortOthers (Cfi.others m))
                  (writeOf w.cpu.tbl (writeOf w.cpu.tbl w.callerCtx w.cpu.spName cfa.toNat) w.cpu.ipName ra.toNat)
                  (setInsert (setInsert w.callerValidity w.cpu.spName) w.cpu.ipName)
                  ⟨some cfa, some ra, seededFwd w fwd cfa ra⟩
                refine ⟨cfa, ra, st, vs, _, ?_, ?_, ?_, hC', ?_, ?_, ?_⟩
                · exact (Cfi.foldl_applyOther_cfa_ra _ cfa _ _).1
                · exact (Cfi.foldl_applyOther_cfa_ra _ cfa _ _).2
                · rw [hfold]
                · exact (Cfi.foldl_applyOther_cfa_ra _ cfa _ _).1
                · exact (Cfi.foldl_applyOther_cfa_ra _ cfa _ _).2
                · intro s hs hrel
                  exact hsim s hs (seeded_sim w fwd cfa ra hs hrel)
              · simp only [hf2, Bool.false_eq_true, if_false]
                have : Cfi.walkCfi (toWalker w fwd) lines = none := by
                  cases hw : Cfi.walkCfi (toWalker w fwd) lines with
                  | none => rfl
                  | some c =>
                    obtain ⟨m', cfaE', raE', cfa', ra', h1, h2, h3, h4, h5, _, h7, _⟩ := (Cfi.walkCfi_some_iff _ _ c).mp hw
                    rw [hp] at h1; cases h1
                    rw [hc] at h2; cases h2
                    rw [hr] at h3; cases h3
                    rw [he1] at h4; cases h4
                    rw [he2] at h5; cases h5
                    rw [fits_toWalker] at h7; exact absurd h7 hf2
                rw [this]
                exact ⟨_, _, rfl⟩
            · simp only [hf1, Bool.false_eq_true, if_false]
              have : Cfi.walkCfi (toWalker w fwd) lines = none := by
                cases hw : Cfi.walkCfi (toWalker w fwd) lines with
                | none => rfl
                | some c =>
                  obtain ⟨m', cfaE', raE', cfa', ra', h1, h2, h3, h4, h5, h6, _, _⟩ := (Cfi.walkCfi_some_iff _ _ c).mp hw
                  rw [hp] at h1; cases h1
                  rw [hc] at h2; cases h2
                  rw [hr] at h3; cases h3
                  rw [he1] at h4; cases h4
                  rw [fits_toWalker] at h6; exact absurd h6 hf1
              rw [this]
              exact hself

/-! ## `callee_forwarded_regs` and `clear_stack_win_caller_registers`: helpers -/

theorem toSet_aux (l acc : List String) (r : String) : r ∈ l.foldl setInsert acc ↔ r ∈ acc ∨ r ∈ l := by
  induction l generalizing acc with
  | nil => simp
  | cons a t ih =>
    rw [List.foldl_cons, ih]
    have : r ∈ setInsert acc a ↔ r ∈ acc ∨ r = a := by
      have := setInsert_contains acc a r
      rw [Bool.eq_iff_iff] at this
      simp only [List.contains_iff_mem, Bool.or_eq_true, decide_eq_true_eq] at this
      rw [this]; exact or_comm
    rw [this, List.mem_cons]
    constructor
    · rintro ((h | h) | h)
      · exact .inl h
      · exact .inr (.inl h)
      · exact .inr (.inr h)
    · rintro (h | h | h)
      · exact .inl (.inl h)
      · exact .inl (.inr h)
      · exact .inr h

theorem mem_toSet (l : List String) (r : String) : r ∈ toSet l ↔ r ∈ l := by
  unfold toSet; rw [toSet_aux]; simp

theorem filterO_ok (f : String → Outcome Bool) (g : String → Bool) (l : List String)
    (h : ∀ r ∈ l, f r = .ok (g r)) : filterO f l = .ok (l.filter g) := by
  induction l with
  | nil => rfl
  | cons a t ih =>
    unfold filterO
    rw [h a List.mem_cons_self, ih (fun r hr => h r (List.mem_cons_of_mem _ hr))]
    cases hg : g a <;> simp [hg]

theorem saved_known (k : Kind) {r : String} (hr : r ∈ Gen.CfiWalkerConsts.calleeSaved k.file) :
    r ∈ registers k.rawCtx := by
  have := calleeSaved_canonical k
  simp only [Bool.and_eq_true, List.all_eq_true] at this
  have := this.1 r hr
  simp only [List.contains_eq_mem, decide_eq_true_eq] at this
  exact this.1.1

theorem sameReg_self {c : Ctx} {r : String} (hr : r ∈ knownNames c) : sameReg c r r = true := by
  obtain ⟨cell, _, f⟩ := known_facts hr
  simp [sameReg, f.getCell]

theorem clearAllReal_view (w : CfiStackWalker) (names : List String)
    (hn : ∀ n ∈ names, w.cpu.canon n = some n) :
    ∃ vs, clearAllReal names w = .ok (w.withCaller w.callerCtx vs) ∧
      ∀ s, callerView (w.withCaller w.callerCtx vs) s = if s ∈ names then none else callerView w s := by
  induction names generalizing w with
  | nil => exact ⟨w.callerValidity, rfl, fun s => by simp [withCaller_self]⟩
  | cons n t ih =>
    have hcn := hn n List.mem_cons_self
    obtain ⟨vs, h1, h2⟩ := ih (w.withCaller w.callerCtx (setRemove w.callerValidity n))
      (fun m hm => hn m (List.mem_cons_of_mem _ hm))
    refine ⟨vs, ?_, ?_⟩
    · unfold clearAllReal
      rw [clearCallerRegister_eq, hcn]
      exact h1
    · intro s
      have := h2 s
      rw [callerView_clear] at this
      rw [show (w.withCaller w.callerCtx vs) = ((w.withCaller w.callerCtx (setRemove w.callerValidity n)).withCaller
        (w.withCaller w.callerCtx (setRemove w.callerValidity n)).callerCtx vs) from rfl, this]
      by_cases hs : s = n
      · simp [hs]
      · by_cases hst : s ∈ t <;> simp [hs, hst]

/-! ## the ARM64 post-processing, one step -/

theorem getAlways_raw {c : Ctx} (st : Regs.State) {n : String} (hn : n ∈ knownNames c) :
    Regs.getAlways c st n = .ok (rawOf c st n) := by
  obtain ⟨cell, hc, hg⟩ := Regs.getAlways_known st hn
  rw [hg]; simp only [rawOf, hc]

theorem setRegister_raw {c : Ctx} (st : Regs.State) {n : String} (hn : n ∈ knownNames c) (v : Nat) :
    Regs.setRegister c st n v = .ok (some (writeOf c st n v)) :=
  Cpu.setRegister_known (.ctx c) st hn v

theorem getRegister_raw {c : Ctx} (st : Regs.State) {n : String} {S : List String} (hn : n ∈ knownNames c)
    (hS : ∀ s ∈ S, s ∈ knownNames c) :
    Regs.getRegister c st n (.some S) = .ok (if S.any (sameReg c n) then some (rawOf c st n) else none) := by
  obtain ⟨_, cell, hc, hg⟩ := validity_honoured c st n S hn hS
  rw [hg]; simp only [rawOf, hc]

/-- one step of the ARM64 post-processing, decided -/
theorem stripStep_eq (k : Kind) (valid : List String) (hvalid : ∀ s ∈ valid, s ∈ knownNames k.rawCtx)
    (mask : Nat) (st : Regs.State) (r : String × Bool) (hr : r.1 ∈ knownNames k.rawCtx) :
    stripStep k valid mask st r = .ok
      (if r.2 || valid.any (sameReg k.rawCtx r.1) then writeOf k.rawCtx st r.1 (rawOf k.rawCtx st r.1 &&& mask)
       else st) := by
  unfold stripStep
  cases hb : r.2 with
  | true => simp only [if_true, getAlways_raw st hr, setRegister_raw st hr, Bool.true_or]
  | false =>
    simp only [Bool.false_eq_true, if_false, getRegister_raw st hr hvalid, Bool.false_or]
    by_cases hc : valid.any (sameReg k.rawCtx r.1) = true
    · simp only [hc, if_true, setRegister_raw st hr]
    · simp only [hc, Bool.false_eq_true, if_false]

end MdModel.CfiWalker
