/-
  Helper lemmas for C04, canonical STACK CFI chains (part 1): what `walk_with_stack_cfi`
  (`walkCfi`) computes on the canonical rules, for a SYMBOLIC frame size.

  * `read_le_regMax` — a pointer-sized word read from the stack memory fits the register.
  * `walkCfi_canon`, `walkCfi_canon_fp`, `walkCfi_leaf` — the caller registers and validity set
    after the three canonical rule shapes (`canonicalToks … false`, `canonicalToks … true`,
    `leafToks`), for every architecture at once.
  * `cfiWalk_of_record` / `cfiWalk_of_none` — `get_caller_by_cfi`'s lookups (module table, symbol
    file, CFI range table) are the lookups of `cfiRecordAt`.

  C06's theorems (`eval_postfix` …, MdProofs/C06.lean) are about the stand-alone evaluator model
  `MdModel.Cfi` (byte strings, `UInt64`); the walker model `MdModel.Walk.evalCfi` works on
  classified tokens over `Nat`. On the three- and four-token canonical expressions the latter
  simply computes (`simp [evalCfi]`), so nothing about the postfix language is re-proved here.
-/
import MdProofs.Lemmas.WalkScanChain32
namespace MdModel.Walk
open MdModel

/-! ### stack memory words fit the registers -/

theorem leAt_lt (m : Mem) (off w : Nat) : m.leAt off w < 256 ^ w := by
  induction w generalizing off with
  | zero => simp [Mem.leAt]
  | succ w ih =>
    have hb : m.byte off < 256 := by unfold Mem.byte; exact UInt8.toNat_lt _
    have := ih (off + 1)
    simp only [Mem.leAt, Nat.pow_succ]
    omega

theorem read_lt {m : Mem} {addr w v : Nat} (h : m.read addr w = some v) : v < 256 ^ w := by
  unfold Mem.read at h
  split at h
  · cases h
  · simp only at h
    split at h
    · cases h; exact Mem.wordAt_lt _ _ _
    · cases h

theorem read_le_regMax {a : Arch} {m : Mem} {addr v : Nat} (h : m.read addr a.ptr = some v) :
    v ≤ a.regMax := by
  have := read_lt h
  cases a <;> simp only [Arch.ptr, Consts.ptr_x86, Consts.ptr_amd64, Consts.ptr_mips32, Consts.ptr_mips64,
    Arch.regMax, U32MAX, U64MAX] at this ⊢ <;> omega

/-! ### per-architecture facts used by the evaluation -/

theorem ptr_le_eight (a : Arch) : a.ptr ≤ 8 := by cases a <;> decide
theorem regMax_lt_W64 (a : Arch) : a.regMax < 2 ^ 64 := by cases a <;> decide
theorem deref_width (a : Arch) : (if a.regMax = U32MAX then 4 else 8) = a.ptr := by cases a <;> decide

theorem spName_canon (a : Arch) : a.canon a.spName = some a.spName := by cases a <;> decide
theorem fpName_canon (a : Arch) : a.canon a.fpName = some a.fpName := by cases a <;> decide
theorem fpName_ne_ip (a : Arch) : a.fpName ≠ a.ipName := by cases a <;> decide
theorem fpName_ne_sp (a : Arch) : a.fpName ≠ a.spName := by cases a <;> decide

/-- `$sp` and bare `sp` are both the register named `sp` -/
theorem evalCfi_spTok (x : CfiIn) (cfa : Option Nat) (a : Arch) (rest : List ETok) (st : List Nat) :
    evalCfi x cfa (spTok a :: rest) st =
      match x.reg a.spName with
      | some v => evalCfi x cfa rest (v :: st)
      | none => none := by
  unfold spTok
  split <;> rfl

theorem CfiIn.deref_eq (x : CfiIn) (addr : Nat) : x.deref addr = x.mem.read addr x.arch.ptr := by
  unfold CfiIn.deref
  rw [deref_width]

/-! ### `walk_with_stack_cfi` on the canonical rules -/

@[simp] theorem CfiReg.ra_beq_cfa : (CfiReg.ra == CfiReg.cfa) = false := by decide
@[simp] theorem CfiReg.cfa_beq_ra : (CfiReg.cfa == CfiReg.ra) = false := by decide
@[simp] theorem CfiReg.other_beq_cfa (n : String) : (CfiReg.other n == CfiReg.cfa) = false := by simp
@[simp] theorem CfiReg.other_beq_ra (n : String) : (CfiReg.other n == CfiReg.ra) = false := by simp
@[simp] theorem CfiReg.cfa_beq_other (n : String) : (CfiReg.cfa == CfiReg.other n) = false := by simp
@[simp] theorem CfiReg.ra_beq_other (n : String) : (CfiReg.ra == CfiReg.other n) = false := by simp

/-- `.cfa: $sp N + .ra: .cfa -W + ^` -/
theorem walkCfi_canon (x : CfiIn) (o : CfiOut) (init : String) (bytes sp ret : Nat)
    (htok : tokenize init = canonicalToks x.arch bytes false)
    (hsp : x.reg x.arch.spName = some sp) (hmax : sp + bytes ≤ x.arch.regMax)
    (hp : x.arch.ptr ≤ sp + bytes)
    (hra : x.mem.read (sp + bytes - x.arch.ptr) x.arch.ptr = some ret) :
    walkCfi x o init [] =
      some { ctx := { o.ctx with sp := sp + bytes, ip := ret },
             valid := setInsert (setInsert o.valid x.arch.spName) x.arch.ipName } := by
  have h8 := ptr_le_eight x.arch
  have h0 := ptr_pos x.arch
  have hW := regMax_lt_W64 x.arch
  have hret := read_le_regMax hra
  have hcfa : (sp + bytes) % W64 = sp + bytes := by unfold W64; omega
  have hsub : (sp + bytes + (2 ^ 64 - x.arch.ptr)) % W64 = sp + bytes - x.arch.ptr := by unfold W64; omega
  have hnot : ¬ (sp + bytes > x.arch.regMax ∨ ret > x.arch.regMax) := by omega
  simp only [walkCfi, List.foldl_cons, List.foldl_nil, Option.bind_some, htok, canonicalToks,
    Bool.false_eq_true, if_false, List.append_nil, parseRules, ruleSet, List.isEmpty_cons, List.reverse_cons,
    List.reverse_nil, List.nil_append, List.cons_append, reduceCtorEq, List.lookup_cons,
    beq_self_eq_true, CfiReg.ra_beq_cfa]
  simp only [evalCfi_spTok, hsp]
  simp only [evalCfi, hcfa, hsub, CfiIn.deref_eq, hra, if_neg hnot]
  simp [otherRules]

/-- `.cfa: $sp N + .ra: .cfa -W + ^ $fp: .cfa -2W + ^` -/
theorem walkCfi_canon_fp (x : CfiIn) (o : CfiOut) (init : String) (bytes sp ret v : Nat)
    (htok : tokenize init = canonicalToks x.arch bytes true)
    (hsp : x.reg x.arch.spName = some sp) (hmax : sp + bytes ≤ x.arch.regMax)
    (hp : 2 * x.arch.ptr ≤ sp + bytes)
    (hra : x.mem.read (sp + bytes - x.arch.ptr) x.arch.ptr = some ret)
    (hfp : x.mem.read (sp + bytes - 2 * x.arch.ptr) x.arch.ptr = some v) :
    walkCfi x o init [] =
      some { ctx := { o.ctx with sp := sp + bytes, ip := ret, rest := assocSet o.ctx.rest x.arch.fpName v },
             valid := setInsert (setInsert (setInsert o.valid x.arch.spName) x.arch.ipName) x.arch.fpName } := by
  have h8 := ptr_le_eight x.arch
  have h0 := ptr_pos x.arch
  have hW := regMax_lt_W64 x.arch
  have hret := read_le_regMax hra
  have hv := read_le_regMax hfp
  have hcfa : (sp + bytes) % W64 = sp + bytes := by unfold W64; omega
  have hsub : (sp + bytes + (2 ^ 64 - x.arch.ptr)) % W64 = sp + bytes - x.arch.ptr := by unfold W64; omega
  have hsub2 : (sp + bytes + (2 ^ 64 - 2 * x.arch.ptr)) % W64 = sp + bytes - 2 * x.arch.ptr := by
    unfold W64; omega
  have hnot : ¬ (sp + bytes > x.arch.regMax ∨ ret > x.arch.regMax) := by omega
  have hnv : ¬ (v > x.arch.regMax) := by omega
  simp only [walkCfi, List.foldl_cons, List.foldl_nil, Option.bind_some, htok, canonicalToks,
    if_true, parseRules, ruleSet, List.isEmpty_cons, List.reverse_cons,
    List.reverse_nil, List.nil_append, List.cons_append, reduceCtorEq, List.lookup_cons,
    beq_self_eq_true, CfiReg.ra_beq_cfa, Bool.false_eq_true, if_false]
  simp only [evalCfi_spTok, hsp]
  simp only [evalCfi, hcfa, hsub, CfiIn.deref_eq, hra, if_neg hnot]
  simp only [otherRules, List.filterMap_cons, List.filterMap_nil, List.mergeSort_singleton, List.foldl_cons,
    List.foldl_nil, evalCfi, hsub2, CfiIn.deref_eq, hfp, CfiOut.setReg, fpName_canon, if_neg hnv, Ctx.set,
    if_neg (fpName_ne_ip _), if_neg (fpName_ne_sp _)]

theorem spName_of_leafOk {a : Arch} (h : a.leafOk = true) : a.spName = "sp" := by
  cases a <;> simp [Arch.leafOk] at h <;> rfl

/-- `.cfa: sp 0 + .ra: lr` (the leaf rule of a first frame; ARM, ARM64, MIPS) -/
theorem walkCfi_leaf (x : CfiIn) (o : CfiOut) (init : String) (sp lr : Nat)
    (hleaf : x.arch.leafOk = true) (htok : tokenize init = leafToks x.arch)
    (hsp : x.reg x.arch.spName = some sp) (hmax : sp ≤ x.arch.regMax)
    (hlr : x.reg (if x.arch.isMips then "ra" else "lr") = some lr) (hlmax : lr ≤ x.arch.regMax) :
    walkCfi x o init [] =
      some { ctx := { o.ctx with sp := sp, ip := lr },
             valid := setInsert (setInsert o.valid x.arch.spName) x.arch.ipName } := by
  have hW := regMax_lt_W64 x.arch
  have hcfa : (sp + 0) % W64 = sp := by unfold W64; omega
  have hnot : ¬ (sp > x.arch.regMax ∨ lr > x.arch.regMax) := by omega
  rw [spName_of_leafOk hleaf] at hsp
  simp only [walkCfi, List.foldl_cons, List.foldl_nil, Option.bind_some, htok, leafToks,
    parseRules, ruleSet, List.isEmpty_cons, List.reverse_cons,
    List.reverse_nil, List.nil_append, List.cons_append, reduceCtorEq, List.lookup_cons,
    beq_self_eq_true, CfiReg.ra_beq_cfa, Bool.false_eq_true, if_false]
  cases hm : x.arch.isMips <;> simp only [hm, if_true, if_false, Bool.false_eq_true] at hlr ⊢ <;>
    simp only [evalCfi, hsp, hcfa, hlr, if_neg hnot] <;> simp [otherRules]

/-! ### `get_caller_by_cfi`'s lookups are the lookups of `cfiRecordAt` -/

theorem cfiTables_get (w : World) (i : Nat) (sf : SymFile) (h : (w.syms[i]?).join = some sf) :
    (cfiTables w)[i]? = some (cfiTable sf) := by
  have hs : w.syms[i]? = some (some sf) := by
    cases hq : w.syms[i]? with
    | none => rw [hq] at h; cases h
    | some o => rw [hq] at h; simp only [Option.join_some] at h; rw [h]
  simp [cfiTables, hs]

/-- no record at the frame's lookup address: `SymbolFile::walk_frame` has nothing to evaluate -/
theorem cfiWalk_of_none (a : Arch) (w : World) (mem : Mem) (f : Frame)
    (h : cfiRecordAt w f.instruction = none) :
    cfiWalk a w (modTable w.mods) (cfiTables w) mem f = none := by
  unfold cfiRecordAt at h
  unfold cfiWalk
  split
  · rfl
  · rename_i i hi
    rw [hi] at h
    simp only at h
    split
    · rename_i m sf ct hm hsf hct
      rw [hm, hsf] at h
      simp only at h
      have hct' : ct = cfiTable sf := by
        rw [cfiTables_get w i sf hsf] at hct
        injection hct with hct
        exact hct.symm
      subst hct'
      unfold walkFrameCfi
      split
      · rfl
      · rename_i hlt
        rw [if_neg hlt] at h
        simp only []
        split
        · rfl
        · rename_i j hj
          rw [hj] at h
          simp only at h
          rw [h]
    · rfl

/-- a record without delta lines at the frame's lookup address: its INIT rules are evaluated on a
    fresh `CfiStackWalker` (caller = callee's registers, validity = the forwarded callee-saved ones) -/
theorem cfiWalk_of_record (a : Arch) (w : World) (mem : Mem) (f : Frame) (rec : CfiRec)
    (h : cfiRecordAt w f.instruction = some rec) (hadds : rec.adds = []) :
    cfiWalk a w (modTable w.mods) (cfiTables w) mem f =
      walkCfi { arch := a, callee := f.ctx, mem := mem } { ctx := f.ctx, valid := forwarded a f.ctx }
        rec.init [] := by
  unfold cfiRecordAt at h
  unfold cfiWalk
  split
  · rename_i hi
    rw [hi] at h
    cases h
  · rename_i i hi
    rw [hi] at h
    simp only at h
    split at h
    · rename_i m sf hm hsf
      rw [hm, hsf, cfiTables_get w i sf hsf]
      simp only
      unfold walkFrameCfi
      split at h
      · cases h
      · rename_i hlt
        rw [if_neg hlt]
        simp only []
        split at h
        · rename_i j hj
          rw [hj]
          simp only [h, hadds, List.mergeSort_nil, List.takeWhile_nil, List.map_nil]
        · cases h
    · cases h

end MdModel.Walk
