/-
  Bridge C11 ↔ walker model, part 5: the STACK WIN tables.

  Both models build `win_stack_framedata_info` / `win_stack_fpo_info` with the SAME two functions of
  C08's model — `insertWinAll` (the parser's `insert_win_stack_info` overlap repair) followed by
  `safeP` over `(range, Rec.enc record)` — from the same `(address, size)` sequence, but with
  different *tags*: C11 (`Symbolize.winTable`) tags a record by its parameter size, the walker model
  (`Walk.winTables`, `Win.buildTable`) by its position in the file and reads the parameter size back
  through the classified record at that position.

  * `insertWin_retag` / `insertWinAll_retag`: the overlap repair never reads the tag — it commutes with
    every re-tagging (`retag f`), panics included;
  * `insertWinAll_inv`: every `(range, record)` it yields has `range = mkRange addr size`, a size
    `< 2^32` and a tag of the input;
  * `winTri_coh`: with sizes `< 2^32` and tags `< 2^64` `Rec.enc` is injective, so the two encodings
    satisfy `Coh` of `SymBridgeTable` ⇒ `get_sim`;
  * `winTable_sim`: lookups in the two tables hit the same record / miss together;
  * `psize_agree`: the walker model's `WinTables.psize` is what C11's `paramSize` reads.
-/
import MdProofs.Lemmas.SymBridge
import MdModel.Walk.WinWalk
namespace MdModel.SymBridge
open MdModel MdModel.RangeMap

/-! ### the overlap repair commutes with re-tagging -/

def retag (f : Nat → Nat) (r : Rec) : Rec := { r with tag := f r.tag }
def retagP (f : Nat → Nat) (p : Rng × Rec) : Rng × Rec := (p.1, retag f p.2)

/-- `Outcome.map` -/
def omap {α β : Type} (f : α → β) : Outcome α → Outcome β
  | .ok a => .ok (f a)
  | .panic s => .panic s

theorem insertWin_retag (f : Nat → Nat) (acc : List (Rng × Rec)) (info : Rec) :
    insertWin (acc.map (retagP f)) (retag f info) = omap (List.map (retagP f)) (insertWin acc info) := by
  unfold insertWin
  simp only [retag]
  cases mkRange info.addr info.size with
  | none => rfl
  | some mr =>
    cases acc with
    | nil => rfl
    | cons p rest =>
      obtain ⟨lr, li⟩ := p
      simp only [List.map_cons, retagP, retag]
      by_cases hint : lr.intersects mr = true
      · rw [if_pos hint, if_pos hint]
        by_cases hgt : info.addr > li.addr
        · rw [if_pos hgt, if_pos hgt]
          show (match mkRange li.addr ((info.addr - li.addr) % 2 ^ 32) with
            | none => Outcome.panic "insert_win_stack_info: memory_range().unwrap()"
            | some r' => Outcome.ok _) = omap _ (match mkRange li.addr ((info.addr - li.addr) % 2 ^ 32) with
            | none => Outcome.panic "insert_win_stack_info: memory_range().unwrap()"
            | some r' => Outcome.ok _)
          cases mkRange li.addr ((info.addr - li.addr) % 2 ^ 32) with
          | none => rfl
          | some r' => rfl
        · rw [if_neg hgt, if_neg hgt]
          by_cases hne : lr ≠ mr
          · rw [if_pos hne, if_pos hne]; rfl
          · rw [if_neg hne, if_neg hne]; rfl
      · rw [if_neg hint, if_neg hint]; rfl

theorem insertWinAll_retag (f : Nat → Nat) (recs : List Rec) :
    ∀ acc, insertWinAll (acc.map (retagP f)) (recs.map (retag f)) =
      omap (List.map (retagP f)) (insertWinAll acc recs) := by
  induction recs with
  | nil => intro acc; simp only [List.map_nil, insertWinAll, omap, List.map_reverse]
  | cons r rest ih =>
    intro acc
    simp only [List.map_cons, insertWinAll, insertWin_retag]
    cases insertWin acc r with
    | panic s => rfl
    | ok acc' => simp only [omap]; exact ih acc'

/-! ### what the repair yields -/

/-- every `(range, record)`: the range is the record's, the size fits `u32`, the tag satisfies `P` -/
def WInv (P : Nat → Prop) (acc : List (Rng × Rec)) : Prop :=
  ∀ p ∈ acc, mkRange p.2.addr p.2.size = some p.1 ∧ p.2.size < 2 ^ 32 ∧ P p.2.tag

theorem insertWin_inv {P : Nat → Prop} {acc acc' : List (Rng × Rec)} {info : Rec} (hacc : WInv P acc)
    (hs : info.size < 2 ^ 32) (hp : P info.tag) (h : insertWin acc info = .ok acc') : WInv P acc' := by
  unfold insertWin at h
  split at h
  · cases h; exact hacc
  · rename_i mr hmr
    have hnew : ∀ q : Rng × Rec, q = (mr, info) →
        mkRange q.2.addr q.2.size = some q.1 ∧ q.2.size < 2 ^ 32 ∧ P q.2.tag := by
      rintro q rfl; exact ⟨hmr, hs, hp⟩
    split at h
    · cases h
      intro q hq
      exact hnew q (List.mem_singleton.mp hq)
    · rename_i lr li rest
      have hrest : WInv P rest := fun q hq => hacc q (List.mem_cons_of_mem _ hq)
      have hli := hacc (lr, li) List.mem_cons_self
      split at h
      · split at h
        · simp only at h
          split at h
          · cases h
          · rename_i r' hr'
            cases h
            intro q hq
            rcases List.mem_cons.mp hq with rfl | hq
            · exact hnew _ rfl
            · rcases List.mem_cons.mp hq with rfl | hq
              · refine ⟨hr', ?_, hli.2.2⟩
                exact Nat.mod_lt _ (by decide)
              · exact hrest q hq
        · split at h
          · cases h; exact hacc
          · cases h
            intro q hq
            rcases List.mem_cons.mp hq with rfl | hq
            · exact hnew _ rfl
            · exact hacc q hq
      · cases h
        intro q hq
        rcases List.mem_cons.mp hq with rfl | hq
        · exact hnew _ rfl
        · exact hacc q hq

theorem insertWinAll_inv {P : Nat → Prop} (recs : List Rec) (hr : ∀ r ∈ recs, r.size < 2 ^ 32 ∧ P r.tag) :
    ∀ acc v, WInv P acc → insertWinAll acc recs = .ok v → WInv P v := by
  induction recs with
  | nil =>
    intro acc v hacc h
    simp only [insertWinAll, Outcome.ok.injEq] at h
    subst h
    intro q hq
    exact hacc q (List.mem_reverse.mp hq)
  | cons r rest ih =>
    intro acc v hacc h
    simp only [insertWinAll] at h
    cases hi : insertWin acc r with
    | panic s => rw [hi] at h; cases h
    | ok acc' =>
      rw [hi] at h
      have := hr r List.mem_cons_self
      exact ih (fun x hx => hr x (List.mem_cons_of_mem _ hx)) acc' v
        (insertWin_inv hacc this.1 this.2 hi) h

/-! ### the two encodings of one repaired list satisfy `Coh` -/

theorem enc_inj {a b : Rec} (ha : a.size < 2 ^ 32) (hb : b.size < 2 ^ 32) (ta : a.tag < 2 ^ 64)
    (tb : b.tag < 2 ^ 64) (h : a.enc = b.enc) : a = b := by
  have := congrArg Rec.dec h
  rw [Symbolize.Rec.dec_enc a ha ta, Symbolize.Rec.dec_enc b hb tb] at this
  exact this

/-- the repaired list as table input of the two models: C11's value (tag = `f position`), the
    walker model's value (tag = position) -/
def winTri (f : Nat → Nat) (v : List (Rng × Rec)) : List Tri :=
  v.map fun p => (p.1, (retag f p.2).enc, p.2.enc)

theorem winTri_e1 (f : Nat → Nat) (v : List (Rng × Rec)) :
    (winTri f v).map e1 = (v.map (retagP f)).map fun (r, w) => (r, w.enc) := by
  simp only [winTri, List.map_map]; rfl

theorem winTri_e2 (f : Nat → Nat) (v : List (Rng × Rec)) :
    (winTri f v).map e2 = v.map fun (r, w) => (r, w.enc) := by
  simp only [winTri, List.map_map]; rfl

theorem winTri_coh {f : Nat → Nat} {v : List (Rng × Rec)}
    (hv : WInv (fun t => t < 2 ^ 64 ∧ f t < 2 ^ 64) v) : Coh (winTri f v) := by
  have key : ∀ z ∈ winTri f v, ∃ p ∈ v, z = (p.1, (retag f p.2).enc, p.2.enc) := by
    intro z hz
    obtain ⟨p, hp, rfl⟩ := List.mem_map.mp hz
    exact ⟨p, hp, rfl⟩
  refine ⟨?_, ?_, ?_⟩
  · intro z hz
    obtain ⟨p, hp, rfl⟩ := key z hz
    have := mkRange_wf (hv p hp).1
    exact ⟨this.1, this.2.1⟩
  · intro z hz z' hz' he
    obtain ⟨p, hp, rfl⟩ := key z hz
    obtain ⟨q, hq, rfl⟩ := key z' hz'
    obtain ⟨p1, p2, p3, p4⟩ := hv p hp
    obtain ⟨q1, q2, q3, q4⟩ := hv q hq
    have : retag f p.2 = retag f q.2 := enc_inj p2 q2 p4 q4 he
    simp only [retag, Rec.mk.injEq] at this
    obtain ⟨ea, es, _⟩ := this
    rw [ea, es, q1] at p1
    exact (Option.some.inj p1).symm
  · intro z hz z' hz' he
    obtain ⟨p, hp, rfl⟩ := key z hz
    obtain ⟨q, hq, rfl⟩ := key z' hz'
    obtain ⟨p1, p2, p3, p4⟩ := hv p hp
    obtain ⟨q1, q2, q3, q4⟩ := hv q hq
    have : p.2 = q.2 := enc_inj p2 q2 p3 q3 he
    rw [this, q1] at p1
    exact (Option.some.inj p1).symm

/-- **the STACK WIN tables of the two models, one kind**: `recs` are the walker model's inputs (tag =
    position), `recs.map (retag f)` C11's (tag = parameter size of the record at that position).
    If C11's table builds, so does the walker model's, and a lookup at `a` finds in C11's table the
    encoding of a record with tag `f i` iff it finds in the walker's the encoding of the same record
    with tag `i` (`i` a tag of the input); both miss together. -/
theorem winTable_sim (f : Nat → Nat) (P : Nat → Prop) (recs : List Rec)
    (hr : ∀ r ∈ recs, r.size < 2 ^ 32 ∧ r.tag < 2 ^ 64 ∧ f r.tag < 2 ^ 64 ∧ P r.tag)
    {ctab : List Entry} (hc : Symbolize.winTable (recs.map (retag f)) = .ok ctab) :
    ∃ wtab, (match insertWinAll [] recs with
        | .panic s => Outcome.panic s
        | .ok v => safeP (v.map fun ((r, w) : Rng × Rec) => (r, w.enc))) = .ok wtab ∧
      ∀ a, (∀ v, get ctab a = some v → ∃ i, P i ∧ (Rec.dec v).tag = f i ∧
              (get wtab a).map (fun x => (Rec.dec x).tag) = some i) ∧
           (get ctab a = none → get wtab a = none) := by
  unfold Symbolize.winTable at hc
  have hcomm := insertWinAll_retag f recs []
  simp only [List.map_nil] at hcomm
  rw [hcomm] at hc
  cases hv : insertWinAll [] recs with
  | panic s => rw [hv] at hc; cases hc
  | ok v =>
    rw [hv] at hc
    simp only [omap] at hc ⊢
    have hinv : WInv (fun t => (t < 2 ^ 64 ∧ f t < 2 ^ 64) ∧ P t) v :=
      insertWinAll_inv recs (fun r h => ⟨(hr r h).1, ⟨(hr r h).2.1, (hr r h).2.2.1⟩, (hr r h).2.2.2⟩)
        [] v (fun p hp => by cases hp) hv
    have hinv' : WInv (fun t => t < 2 ^ 64 ∧ f t < 2 ^ 64) v :=
      fun p hp => ⟨(hinv p hp).1, (hinv p hp).2.1, (hinv p hp).2.2.1⟩
    have hcoh := winTri_coh hinv'
    have w1 := coh_wf1 hcoh
    have w2 := coh_wf2 hcoh
    rw [winTri_e1] at w1
    rw [winTri_e2] at w2
    rw [safeP_ok _ w1] at hc
    rw [safeP_ok _ w2]
    simp only [Outcome.ok.injEq] at hc
    subst hc
    refine ⟨_, rfl, ?_⟩
    intro a
    obtain ⟨s1, s2⟩ := get_sim (winTri f v) hcoh a
    rw [winTri_e1, winTri_e2] at s1 s2
    refine ⟨?_, s2⟩
    intro x hx
    obtain ⟨z, hz, _, hzv, hw⟩ := s1 x hx
    obtain ⟨p, hp, rfl⟩ := List.mem_map.mp hz
    obtain ⟨_, p2, ⟨p3, p4⟩, p5⟩ := hinv p hp
    simp only at hzv hw
    refine ⟨p.2.tag, p5, ?_, ?_⟩
    · rw [← hzv, Symbolize.Rec.dec_enc (retag f p.2) p2 p4]; rfl
    · rw [hw]
      simp only [Option.map_some, Symbolize.Rec.dec_enc _ p2 p3]

/-! ### the walker model's STACK WIN tables against C11's -/

def isFd : Win.FrameType → Bool
  | .frameData _ => true
  | _ => false

def isFpo : Win.FrameType → Bool
  | .fpo _ => true
  | _ => false

/-- C11's STACK WIN triples `(address, size, parameter size)` of one kind, from the walker model's
    records (whole STACK WIN lines, classified by C07's `classifyRec`), in file order -/
def kindOf (k : Win.FrameType → Bool) (wins : List Win.Rec) : List Rec :=
  wins.filterMap fun w => if k (Win.classifyRec w) then some ⟨w.addr, w.size, w.par.toNat⟩ else none

/-- **the translation of STACK WIN records**: C11's `win4` / `win0` triples are the walker model's
    records that C07's `classifyRec` makes frame data / FPO, in file order -/
structure WinRel (wins : List Win.Rec) (r : Symbolize.Recs) : Prop where
  win4 : r.win4 = kindOf isFd wins
  win0 : r.win0 = kindOf isFpo wins

/-- the parameter size of the record at a position -/
def parAt (wins : List Win.Rec) (i : Nat) : Nat :=
  match wins[i]? with
  | some w => w.par.toNat
  | none => 0

/-- the walker model's table input of one kind (tag = position in the whole list) -/
def wrecs (k : Win.FrameType → Bool) (wins : List Win.Rec) : List Rec :=
  (wins.zip (wins.map Win.classifyRec)).zipIdx.filterMap fun x =>
    if k x.1.2 then some (Rec.mk x.1.1.addr x.1.1.size x.2) else none

theorem mem_zipIdx_zip {wins : List Win.Rec} {x : (Win.Rec × Win.FrameType) × Nat}
    (h : x ∈ (wins.zip (wins.map Win.classifyRec)).zipIdx) :
    wins[x.2]? = some x.1.1 ∧ x.1.2 = Win.classifyRec x.1.1 := by
  have := List.mem_zipIdx_iff_getElem?.mp h
  rw [List.getElem?_zip_eq_some] at this
  obtain ⟨h1, h2⟩ := this
  rw [List.getElem?_map, h1] at h2
  simp only [Option.map_some, Option.some.injEq] at h2
  exact ⟨h1, h2.symm⟩

theorem wrecs_retag (k : Win.FrameType → Bool) (wins : List Win.Rec) :
    (wrecs k wins).map (retag (parAt wins)) = kindOf k wins := by
  unfold wrecs kindOf
  rw [List.map_filterMap]
  have h1 : (wins.zip (wins.map Win.classifyRec)).zipIdx.filterMap (fun x =>
        (if k x.1.2 then some (Rec.mk x.1.1.addr x.1.1.size x.2) else none).map (retag (parAt wins))) =
      (wins.zip (wins.map Win.classifyRec)).zipIdx.filterMap (fun x =>
        (fun y : Win.Rec × Win.FrameType =>
          if k (Win.classifyRec y.1) then some (Rec.mk y.1.addr y.1.size y.1.par.toNat) else none) x.1) := by
    apply filterMap_congr'
    intro x hx
    obtain ⟨g1, g2⟩ := mem_zipIdx_zip hx
    simp only [g2]
    split
    · simp only [Option.map_some, retag, parAt, g1]
    · rfl
  rw [h1]
  have h3 := filterMap_zipIdx_fst (wins.zip (wins.map Win.classifyRec))
    (fun y : Win.Rec × Win.FrameType =>
      if k (Win.classifyRec y.1) then some (Rec.mk y.1.addr y.1.size y.1.par.toNat) else none)
  have h2 := List.filterMap_map (f := Prod.fst)
    (g := fun w : Win.Rec => if k (Win.classifyRec w) then some (Rec.mk w.addr w.size w.par.toNat) else none)
    (l := wins.zip (wins.map Win.classifyRec))
  rw [List.map_fst_zip (by simp)] at h2
  exact h3.trans h2.symm

theorem wrecs_mem {k : Win.FrameType → Bool} {wins : List Win.Rec} {r : Rec} (h : r ∈ wrecs k wins) :
    ∃ w, wins[r.tag]? = some w ∧ k (Win.classifyRec w) = true ∧ r.addr = w.addr ∧ r.size = w.size := by
  unfold wrecs at h
  simp only [List.mem_filterMap] at h
  obtain ⟨x, hx, hr⟩ := h
  obtain ⟨g1, g2⟩ := mem_zipIdx_zip hx
  split at hr
  · rename_i hk
    simp only [Option.some.injEq] at hr
    subst hr
    exact ⟨x.1.1, g1, by rw [← g2]; exact hk, rfl, rfl⟩
  · cases hr

/-- what the classification keeps of the parameter size -/
theorem classify_par {w : Win.Rec} {si : Win.SInfo}
    (h : Win.classifyRec w = .frameData si ∨ Win.classifyRec w = .fpo si) : si.info.par = w.par := by
  unfold Win.classifyRec at h
  simp only at h
  split at h
  · rcases h with h | h <;> cases h
  · split at h
    · rcases h with h | h
      · cases h; rfl
      · cases h
    · split at h
      · rcases h with h | h
        · cases h
        · cases h; rfl
      · rcases h with h | h <;> cases h

/-- the walker model's inputs, as `Win.buildTable` receives them -/
def wFd (wins : List Win.Rec) : List (Nat × Nat × Nat) :=
  ((wins.zip (wins.map Win.classifyRec)).zipIdx).filterMap fun ((r, t), i) =>
    match t with | .frameData _ => some (r.addr, r.size, i) | _ => none

def wFpo (wins : List Win.Rec) : List (Nat × Nat × Nat) :=
  ((wins.zip (wins.map Win.classifyRec)).zipIdx).filterMap fun ((r, t), i) =>
    match t with | .fpo _ => some (r.addr, r.size, i) | _ => none

theorem winTables_eq (wins : List Win.Rec) :
    Walk.winTables wins =
      match Win.buildTable (wFd wins), Win.buildTable (wFpo wins) with
      | .ok t4, .ok t0 => { typed := wins.map Win.classifyRec, fd := t4, fpo := t0 }
      | _, _ => Walk.WinTables.empty := rfl

theorem wFd_recs (wins : List Win.Rec) :
    (wFd wins).map (fun (a, s, i) => Rec.mk a s i) = wrecs isFd wins := by
  unfold wFd wrecs
  rw [List.map_filterMap]
  apply filterMap_congr'
  rintro ⟨⟨r, t⟩, i⟩ _
  cases t <;> rfl

theorem wFpo_recs (wins : List Win.Rec) :
    (wFpo wins).map (fun (a, s, i) => Rec.mk a s i) = wrecs isFpo wins := by
  unfold wFpo wrecs
  rw [List.map_filterMap]
  apply filterMap_congr'
  rintro ⟨⟨r, t⟩, i⟩ _
  cases t <;> rfl

/-- one kind: the walker model's table builds, and `pick` reads the parameter size C11's table holds -/
theorem pick_sim (k : Win.FrameType → Bool) (hk : ∀ t, k t = true → ∃ si, t = .frameData si ∨ t = .fpo si)
    (wins : List Win.Rec) (hsz : ∀ w ∈ wins, w.size < 2 ^ 32) (hlen : wins.length ≤ 2 ^ 64)
    {ctab : List Entry} (hc : Symbolize.winTable (kindOf k wins) = .ok ctab)
    (inp : List (Nat × Nat × Nat)) (hinp : inp.map (fun (a, s, i) => Rec.mk a s i) = wrecs k wins) :
    ∃ wtab, Win.buildTable inp = .ok wtab ∧
      ∀ (wt : Walk.WinTables), wt.typed = wins.map Win.classifyRec → ∀ a,
        (wt.pick wtab a).map (fun si => si.info.par.toNat) =
          (get ctab a).map fun v => (Rec.dec v).tag := by
  rw [← wrecs_retag] at hc
  obtain ⟨wtab, hw, hsim⟩ := winTable_sim (parAt wins)
    (fun i => ∃ w, wins[i]? = some w ∧ k (Win.classifyRec w) = true) (wrecs k wins) (by
      intro r hr
      obtain ⟨w, hw, hkw, _, hs⟩ := wrecs_mem hr
      have hlt : r.tag < wins.length := by
        rcases Nat.lt_or_ge r.tag wins.length with h | h
        · exact h
        · rw [List.getElem?_eq_none h] at hw; cases hw
      refine ⟨by rw [hs]; exact hsz w (List.mem_of_getElem? hw), by omega, ?_, w, hw, hkw⟩
      simp only [parAt, hw]
      have := w.par.toNat_lt
      omega) hc
  refine ⟨wtab, ?_, ?_⟩
  · unfold Win.buildTable
    rw [hinp]
    exact hw
  · intro wt hty a
    obtain ⟨s1, s2⟩ := hsim a
    unfold Walk.WinTables.pick Win.lookup
    cases hg : get ctab a with
    | none => rw [s2 hg]; rfl
    | some v =>
      obtain ⟨i, ⟨w, hwi, hkw⟩, htag, hl⟩ := s1 v hg
      rw [hl, hty]
      simp only [Option.bind_some, List.getElem?_map, hwi, Option.map_some, htag, parAt]
      obtain ⟨si, hsi⟩ := hk _ hkw
      have hp := classify_par hsi
      rcases hsi with hsi | hsi <;> simp only [hsi, Option.map_some, hp]

theorem isFd_spec (t : Win.FrameType) (h : isFd t = true) : ∃ si, t = .frameData si ∨ t = .fpo si := by
  cases t with
  | frameData si => exact ⟨si, .inl rfl⟩
  | fpo si => cases h
  | unhandled => cases h

theorem isFpo_spec (t : Win.FrameType) (h : isFpo t = true) : ∃ si, t = .frameData si ∨ t = .fpo si := by
  cases t with
  | frameData si => cases h
  | fpo si => exact ⟨si, .inr rfl⟩
  | unhandled => cases h

/-- **the STACK WIN lookups of the two models agree**: for related record lists (sizes `< 2^32` as
    the parser's `u32` field, fewer than `2^64` records) and C11's tables built from them, the
    walker model's `WinTables.psize` reads at every address the parameter size C11's `paramSize`
    reads — frame data first, else FPO, else nothing -/
theorem psize_agree {wins : List Win.Rec} {r : Symbolize.Recs} (hrel : WinRel wins r)
    (hsz : ∀ w ∈ wins, w.size < 2 ^ 32) (hlen : wins.length ≤ 2 ^ 64)
    {csf : Symbolize.SymFile} (hb : Symbolize.build r = .ok csf) (a : Nat) :
    (Walk.winTables wins).psize a =
      match get csf.wfd a with
      | some v => some (Rec.dec v).tag
      | none => (get csf.wfpo a).map fun v => (Rec.dec v).tag := by
  have B := Symbolize.build_built hb
  have c4 := B.wfd
  have c0 := B.wfpo
  rw [hrel.win4] at c4
  rw [hrel.win0] at c0
  obtain ⟨t4, b4, p4⟩ := pick_sim isFd isFd_spec wins hsz hlen c4 (wFd wins) (wFd_recs wins)
  obtain ⟨t0, b0, p0⟩ := pick_sim isFpo isFpo_spec wins hsz hlen c0 (wFpo wins) (wFpo_recs wins)
  rw [winTables_eq, b4, b0]
  simp only [Walk.WinTables.psize]
  have q4 := p4 { typed := wins.map Win.classifyRec, fd := t4, fpo := t0 } rfl a
  have q0 := p0 { typed := wins.map Win.classifyRec, fd := t4, fpo := t0 } rfl a
  rw [← q0]
  cases hg : get csf.wfd a with
  | none =>
    rw [hg] at q4
    cases hp : Walk.WinTables.pick { typed := wins.map Win.classifyRec, fd := t4, fpo := t0 } t4 a with
    | none => rfl
    | some si => rw [hp] at q4; cases q4
  | some v =>
    rw [hg] at q4
    cases hp : Walk.WinTables.pick { typed := wins.map Win.classifyRec, fd := t4, fpo := t0 } t4 a with
    | none => rw [hp] at q4; cases q4
    | some si =>
      rw [hp] at q4
      simp only [Option.map_some, Option.some.injEq] at q4
      simp only [q4]

end MdModel.SymBridge
