/-
  MdProofs.Lemmas.EncodeCrashpad — C02: the CRASHPAD INFO stream reads back: the raw record, the
  simple-annotations dictionary, and per module the string list, the dictionary and the annotation
  objects — with the per-module budget of copied string bytes never exhausted by an encoded file.
-/
import MdProofs.Lemmas.EncodeMaps
namespace MdModel.Encode
open MdModel MdModel.Dump MdModel.Gen.Layouts MdModel.Gen.LayoutsC02

/-! ## UTF-8 strings -/

theorem extract_eq_toArray {b : Bytes} {lo hi : Nat} {s : List UInt8} (h : (b.extract lo hi).toList = s) :
    b.extract lo hi = s.toArray := by
  apply Array.ext'
  simpa using h

theorem readStringUtf8Unterminated_enc {b : Bytes} {off : Nat} {e : Endian} {s : List UInt8}
    (h : Has b.toList off (encUtf8U e s)) (hv : utf8Valid s = true) (hb : b.size < 2 ^ 32) :
    readStringUtf8Unterminated b off e = some (s.toArray, off + 4 + s.length) := by
  have hle := h.size_le
  simp only [encUtf8U, List.length_append, encNat_length] at hle
  unfold encUtf8U at h
  have hlen : readU32 b off e = some s.length := readScalar_has h.left (by rw [pow_256_4]; omega)
  have hbody := h.right
  simp only [encNat_length] at hbody
  have hext := extract_eq_toArray hbody.extract
  unfold readStringUtf8Unterminated
  simp only [hlen]
  rw [if_neg (by omega), if_neg (by omega), hext]
  simp [hv]

theorem encNat_one_zero (e : Endian) : encNat e 1 0 = [0] := by cases e <;> rfl

theorem readStringUtf8_enc {b : Bytes} {off : Nat} {e : Endian} {s : List UInt8}
    (h : Has b.toList off (encUtf8 e s)) (hv : utf8Valid s = true) (hb : b.size < 2 ^ 32) :
    readStringUtf8 b off e = some (s.toArray, off + utf8Size s) := by
  unfold encUtf8 at h
  have h1 := readStringUtf8Unterminated_enc (e := e) h.left hv hb
  have hnul : Has b.toList (off + 4 + s.length) (encNat e 1 0) := by
    have := h.right
    simpa [encNat_one_zero, List.length_append, encNat_length, Nat.add_assoc] using this
  have h0 : readScalar b (off + 4 + s.length) 1 e = some 0 := readScalar_has hnul (by decide)
  unfold readStringUtf8
  simp only [h1, h0, utf8Size]
  congr 2
  omega

theorem encUtf8_length (e : Endian) (s : List UInt8) : (encUtf8 e s).length = utf8Size s := by
  simp [encUtf8, utf8Size]; omega

theorem encUtf8U_length (e : Endian) (s : List UInt8) : (encUtf8U e s).length = utf8USize s := by
  simp [encUtf8U, utf8USize]

/-! ## counted loops -/

theorem loopGo_zero {σ : Type} (step : σ → Nat → M σ) (i : Nat) (s : σ) (rev : List Alloc) :
    (M.loopGo step 0 i s rev).res = .ok s := rfl

theorem loopGo_succ {σ : Type} {step : σ → Nat → M σ} {todo i : Nat} {s s' : σ} (rev : List Alloc)
    (h : (step s i).res = .ok s') :
    (M.loopGo step (todo + 1) i s rev).res = (M.loopGo step todo (i + 1) s' ((step s i).allocs.reverse ++ rev)).res := by
  simp only [M.loopGo, h]

theorem res_chargeBudget {budget len : Nat} (h : len ≤ budget) : chargeBudget budget len = .ok (budget - len) := by
  unfold chargeBudget checkedSub
  rw [if_pos h]

/-! ## the simple string dictionary -/

def dictBytes : List (List UInt8 × List UInt8) → Nat
  | [] => 0
  | (k, v) :: r => k.length + v.length + dictBytes r

def DictValid (d : List (List UInt8 × List UInt8)) : Prop := ∀ kv ∈ d, utf8Valid kv.1 = true ∧ utf8Valid kv.2 = true

theorem dictStrings_length (e : Endian) : ∀ d, (dictStrings e d).length = dictStringsSize d := by
  intro d
  induction d with
  | nil => rfl
  | cons kv r ih => obtain ⟨k, v⟩ := kv; simp [dictStrings, dictStringsSize, encUtf8_length, ih]; omega

theorem dictRecs_length : ∀ (d : List (List UInt8 × List UInt8)) (soff : Nat), (dictRecs soff d).length = d.length := by
  intro d
  induction d with
  | nil => intro _; rfl
  | cons kv r ih => intro soff; obtain ⟨k, v⟩ := kv; simp [dictRecs, ih]

theorem dictBytes_le (d : List (List UInt8 × List UInt8)) : dictBytes d ≤ dictStringsSize d := by
  induction d with
  | nil => exact Nat.le_refl _
  | cons kv r ih => obtain ⟨k, v⟩ := kv; simp only [dictBytes, dictStringsSize, utf8Size]; omega

theorem size_dictEntry : Layout.size MINIDUMP_SIMPLE_STRING_DICTIONARY_ENTRY = 8 := by decide

theorem dictLoop_enc {all data : Bytes} {e : Endian} (hall : all.size < 2 ^ 32) :
    ∀ (d : List (List UInt8 × List UInt8)) (i soff budget : Nat) (acc : List (Bytes × Bytes)) (rev : List Alloc),
      Has data.toList (4 + 8 * i) (encRecords e MINIDUMP_SIMPLE_STRING_DICTIONARY_ENTRY (dictRecs soff d)) →
      Has all.toList soff (dictStrings e d) → DictValid d → dictBytes d ≤ budget →
      (M.loopGo (dictStep all data e) d.length i (acc, budget) rev).res =
        .ok (d.foldl (fun a kv => dictInsert kv.1.toArray kv.2.toArray a) acc, budget - dictBytes d) := by
  intro d
  induction d with
  | nil => intro i soff budget acc rev _ _ _ _; simp [loopGo_zero, dictBytes]
  | cons kv r ih =>
    intro i soff budget acc rev hrec hstr hval hbud
    obtain ⟨k, v⟩ := kv
    simp only [dictRecs, encRecords_cons] at hrec
    simp only [dictStrings] at hstr
    simp only [dictBytes] at hbud
    have hle := hstr.size_le
    simp only [List.length_append, encUtf8_length, dictStrings_length, utf8Size] at hle
    obtain ⟨hvk, hvv⟩ := hval (k, v) (by simp)
    have hfit : Fits MINIDUMP_SIMPLE_STRING_DICTIONARY_ENTRY [soff, soff + utf8Size k] := by
      simp only [MINIDUMP_SIMPLE_STRING_DICTIONARY_ENTRY, Fits, pow_256_4, utf8Size]
      refine ⟨by omega, by omega, trivial⟩
    have hrd := readFields_has hfit hrec.left
    have hk := readStringUtf8_enc (e := e) hstr.left.left hvk hall
    have hv' : readStringUtf8 all (soff + utf8Size k) e = some (v.toArray, soff + utf8Size k + utf8Size v) := by
      have := hstr.left.right
      rw [encUtf8_length] at this
      exact readStringUtf8_enc this hvv hall
    have hstep : (dictStep all data e (acc, budget) i).res =
        .ok (dictInsert k.toArray v.toArray acc, budget - (k.length + v.length)) := by
      unfold dictStep
      simp only [hrd, fld, List.getD_cons_zero, List.getD_cons_succ, hk, hv', List.size_toArray,
        res_chargeBudget (show k.length + v.length ≤ budget by omega)]
      rw [res_bind_ok (res_alloc _ _ _), res_bind_ok (res_alloc _ _ _)]
      rfl
    simp only [List.length_cons]
    rw [loopGo_succ _ hstep]
    have hrec2 := hrec.right
    rw [encFields_length, size_dictEntry] at hrec2
    have hstr2 := hstr.right
    simp only [List.length_append, encUtf8_length, ← Nat.add_assoc] at hstr2
    have hrec3 : Has data.toList (4 + 8 * (i + 1))
        (encRecords e MINIDUMP_SIMPLE_STRING_DICTIONARY_ENTRY (dictRecs (soff + utf8Size k + utf8Size v) r)) := by
      have : 4 + 8 * (i + 1) = 4 + 8 * i + 8 := by omega
      rw [this]; exact hrec2
    rw [ih (i + 1) (soff + utf8Size k + utf8Size v) (budget - (k.length + v.length)) (dictInsert k.toArray v.toArray acc) _
      hrec3 hstr2 (fun kv hkv => hval kv (by simp [hkv])) (by omega)]
    simp only [List.foldl_cons, dictBytes]
    congr 2
    omega

/-- the block's `count | entries` part as the located slice, and the strings behind it -/
theorem block_parts {all : Bytes} {off n recSize : Nat} {e : Endian} {recs strs : List UInt8}
    (h : Has all.toList off (encNat e 4 n ++ recs ++ strs)) (hr : recs.length = recSize * n) (hall : all.size < 2 ^ 32) :
    ∃ data, locationSlice all ⟨4 + recSize * n, off⟩ = some data ∧ data.toList = encNat e 4 n ++ recs ∧
      Has all.toList (off + 4 + recSize * n) strs := by
  have hhead : Has all.toList off (encNat e 4 n ++ recs) := h.left
  obtain ⟨data, hd1, hd2⟩ := locationSlice_has hhead hall
  refine ⟨data, ?_, hd2, ?_⟩
  · simpa [hr] using hd1
  · have := h.right
    simpa [hr, Nat.add_assoc] using this

theorem readSimpleDict_enc {all : Bytes} {e : Endian} {off budget : Nat} {d : List (List UInt8 × List UInt8)}
    (h : Has all.toList off (dictBlock e off d)) (hval : DictValid d) (hbud : dictBytes d ≤ budget) (hall : all.size < 2 ^ 32) :
    (readSimpleDict all e ⟨4 + 8 * d.length, off⟩ budget).res = .ok (dictOf d, budget - dictBytes d) := by
  unfold dictBlock at h
  have hrl : (encRecords e MINIDUMP_SIMPLE_STRING_DICTIONARY_ENTRY (dictRecs (off + 4 + 8 * d.length) d)).length = 8 * d.length := by
    rw [encRecords_length, dictRecs_length, size_dictEntry, Nat.mul_comm]
  obtain ⟨data, hd1, hd2, hstr⟩ := block_parts h hrl hall
  have hle := h.size_le
  simp only [List.length_append, encNat_length, hrl] at hle
  have hcount : readU32 data 0 e = some d.length :=
    readScalar_has (Has.prefix0 hd2) (by rw [pow_256_4]; omega)
  have hrecs : Has data.toList (4 + 8 * 0) (encRecords e MINIDUMP_SIMPLE_STRING_DICTIONARY_ENTRY (dictRecs (off + 4 + 8 * d.length) d)) :=
    ⟨encNat e 4 d.length, [], by simp [hd2], by simp⟩
  have hsize : data.size ≠ 0 := by
    have := congrArg List.length hd2
    simp only [Array.length_toList, List.length_append, encNat_length] at this
    omega
  unfold readSimpleDict
  simp only [hd1, hsize, if_false, hcount, M.loop]
  exact dictLoop_enc hall d 0 _ budget [] [] hrecs hstr hval hbud

/-! ## the string list -/

def listBytes : List (List UInt8) → Nat
  | [] => 0
  | s :: r => s.length + listBytes r

theorem listStrings_length (e : Endian) : ∀ ss, (listStrings e ss).length = listStringsSize ss := by
  intro ss
  induction ss with
  | nil => rfl
  | cons s r ih => simp [listStrings, listStringsSize, encUtf8_length, ih]

theorem listRecs_length : ∀ (ss : List (List UInt8)) (soff : Nat), (listRecs soff ss).length = ss.length := by
  intro ss
  induction ss with
  | nil => intro _; rfl
  | cons s r ih => intro soff; simp [listRecs, ih]

theorem listBytes_le (ss : List (List UInt8)) : listBytes ss ≤ listStringsSize ss := by
  induction ss with
  | nil => exact Nat.le_refl _
  | cons s r ih => simp only [listBytes, listStringsSize, utf8Size]; omega

theorem size_rva : Layout.size RVA_LAYOUT = 4 := by decide

theorem listLoop_enc {all data : Bytes} {e : Endian} (hall : all.size < 2 ^ 32) :
    ∀ (ss : List (List UInt8)) (i soff budget : Nat) (acc : List Bytes) (rev : List Alloc),
      Has data.toList (4 + 4 * i) (encRecords e RVA_LAYOUT (listRecs soff ss)) →
      Has all.toList soff (listStrings e ss) → (∀ s ∈ ss, utf8Valid s = true) → listBytes ss ≤ budget →
      (M.loopGo (stringListStep all data e) ss.length i (acc, budget) rev).res =
        .ok ((ss.map (·.toArray)).reverse ++ acc, budget - listBytes ss) := by
  intro ss
  induction ss with
  | nil => intro i soff budget acc rev _ _ _ _; simp [loopGo_zero, listBytes]
  | cons s r ih =>
    intro i soff budget acc rev hrec hstr hval hbud
    simp only [listRecs, encRecords_cons] at hrec
    simp only [listStrings] at hstr
    simp only [listBytes] at hbud
    have hle := hstr.size_le
    simp only [List.length_append, encUtf8_length, listStrings_length, utf8Size] at hle
    have hfit : Fits RVA_LAYOUT [soff] := by
      simp only [RVA_LAYOUT, Fits, pow_256_4]
      exact ⟨by omega, trivial⟩
    have hrd : readU32 data (4 + 4 * i) e = some soff := readFields_head (readFields_has hfit hrec.left)
    have hs := readStringUtf8_enc (e := e) hstr.left (hval s (by simp)) hall
    have hstep : (stringListStep all data e (acc, budget) i).res = .ok (s.toArray :: acc, budget - s.length) := by
      unfold stringListStep
      simp only [hrd, hs, List.size_toArray, res_chargeBudget (show s.length ≤ budget by omega)]
      rw [res_bind_ok (res_alloc _ _ _)]
      rfl
    simp only [List.length_cons]
    rw [loopGo_succ _ hstep]
    have hrec2 := hrec.right
    rw [encFields_length, size_rva] at hrec2
    have hrec3 : Has data.toList (4 + 4 * (i + 1)) (encRecords e RVA_LAYOUT (listRecs (soff + utf8Size s) r)) := by
      have : 4 + 4 * (i + 1) = 4 + 4 * i + 4 := by omega
      rw [this]; exact hrec2
    have hstr2 := hstr.right
    rw [encUtf8_length] at hstr2
    rw [ih (i + 1) (soff + utf8Size s) (budget - s.length) (s.toArray :: acc) _ hrec3 hstr2
      (fun x hx => hval x (by simp [hx])) (by omega)]
    simp only [List.map_cons, List.reverse_cons, List.append_assoc, List.singleton_append, listBytes]
    congr 2
    omega

theorem readStringList_enc (ms : MemSizes) {all : Bytes} {e : Endian} {off budget : Nat} {ss : List (List UInt8)}
    (h : Has all.toList off (listBlock e off ss)) (hval : ∀ s ∈ ss, utf8Valid s = true) (hbud : listBytes ss ≤ budget)
    (hall : all.size < 2 ^ 32) :
    (readStringList ms all e ⟨4 + 4 * ss.length, off⟩ budget).res = .ok (ss.map (·.toArray), budget - listBytes ss) := by
  have hU := U32_le_U64
  unfold listBlock at h
  have hrl : (encRecords e RVA_LAYOUT (listRecs (off + 4 + 4 * ss.length) ss)).length = 4 * ss.length := by
    rw [encRecords_length, listRecs_length, size_rva, Nat.mul_comm]
  obtain ⟨data, hd1, hd2, hstr⟩ := block_parts h hrl hall
  have hle := h.size_le
  simp only [List.length_append, encNat_length, hrl] at hle
  have hcount : readU32 data 0 e = some ss.length :=
    readScalar_has (Has.prefix0 hd2) (by rw [pow_256_4]; omega)
  have hrecs : Has data.toList (4 + 4 * 0) (encRecords e RVA_LAYOUT (listRecs (off + 4 + 4 * ss.length) ss)) :=
    ⟨encNat e 4 ss.length, [], by simp [hd2], by simp⟩
  have hsize : data.size ≠ 0 := by
    have := congrArg List.length hd2
    simp only [Array.length_toList, List.length_append, encNat_length] at this
    omega
  have hens : ensureCountInBound all.size ss.length 4 0 = .ok (ss.length * 4 + 0) := by
    unfold ensureCountInBound checkedMul checkedAdd
    rw [if_pos (by omega)]; simp only
    rw [if_pos (by omega)]; simp only
    rw [if_neg (by omega)]
  unfold readStringList
  simp only [hd1, hsize, if_false, hcount, hens, M.loop]
  rw [res_bind_ok (res_alloc _ _ _)]
  have hloop := listLoop_enc hall ss 0 _ budget [] [] hrecs hstr hval hbud
  rw [res_bind_ok hloop]
  simp

/-! ## annotation objects -/

def annBytesOf : MAnnotation → Nat
  | .invalid n => n.length
  | .string n v => n.length + v.length
  | .other n _ _ => n.length

def annBytes : List MAnnotation → Nat
  | [] => 0
  | a :: r => annBytesOf a + annBytes r

/-- an annotation object the wire format can carry: UTF-8 name (and value); a type that is neither
    of the two the reader interprets, below 2^16, with a 32-bit value word -/
def AnnFits : MAnnotation → Prop
  | .invalid n => utf8Valid n = true
  | .string n v => utf8Valid n = true ∧ utf8Valid v = true
  | .other n ty v => utf8Valid n = true ∧ ty ≠ ANNOTATION_TYPE_INVALID ∧ ty ≠ ANNOTATION_TYPE_STRING ∧ ty < 2 ^ 16 ∧ v < 2 ^ 32

theorem annStringsOf_length (e : Endian) (a : MAnnotation) : (annStringsOf e a).length = annStringsSizeOf a := by
  cases a <;> simp [annStringsOf, annStringsSizeOf, encUtf8_length, encUtf8U_length, MAnnotation.name]

theorem annStrings_length (e : Endian) : ∀ as, (annStrings e as).length = annStringsSize as := by
  intro as
  induction as with
  | nil => rfl
  | cons a r ih => simp [annStrings, annStringsSize, annStringsOf_length, ih]

theorem annRecs_length : ∀ (as : List MAnnotation) (soff : Nat), (annRecs soff as).length = as.length := by
  intro as
  induction as with
  | nil => intro _; rfl
  | cons a r ih => intro soff; simp [annRecs, ih]

theorem annBytes_le (as : List MAnnotation) : annBytes as ≤ annStringsSize as := by
  induction as with
  | nil => exact Nat.le_refl _
  | cons a r ih =>
    cases a <;> simp only [annBytes, annBytesOf, annStringsSize, annStringsSizeOf, utf8Size, utf8USize, MAnnotation.name] <;> omega

theorem size_annotation : Layout.size MINIDUMP_ANNOTATION = 12 := by decide

theorem annStep_enc {all data : Bytes} {e : Endian} (hall : all.size < 2 ^ 32) (a : MAnnotation) (i soff budget : Nat)
    (acc : List (Bytes × AnnotationValue))
    (hrec : Has data.toList (4 + 12 * i) (encFields e MINIDUMP_ANNOTATION (annRec soff a)))
    (hstr : Has all.toList soff (annStringsOf e a)) (hf : AnnFits a) (hbud : annBytesOf a ≤ budget) :
    (annotationStep all data e (acc, budget) i).res =
      .ok (dictInsert a.name.toArray (annValueOf a) acc, budget - annBytesOf a) := by
  have hle := hstr.size_le
  rw [annStringsOf_length] at hle
  unfold annStringsOf at hstr
  cases a with
  | invalid n =>
    simp only [AnnFits] at hf
    simp only [annStringsSizeOf, utf8Size, MAnnotation.name] at hle
    have hfit : Fits MINIDUMP_ANNOTATION (annRec soff (.invalid n)) := by
      simp only [MINIDUMP_ANNOTATION, annRec, Fits, pow_256_4, pow_256_2, ANNOTATION_TYPE_INVALID]
      exact ⟨by omega, by decide, by decide, by decide, trivial⟩
    have hrd := readFields_has hfit hrec
    have hk := readStringUtf8_enc (e := e) hstr.left hf hall
    simp only [annBytesOf] at hbud
    unfold annotationStep
    simp only [hrd, annRec, fld, List.getD_cons_zero, List.getD_cons_succ, MAnnotation.name] at hk ⊢
    simp only [hk, List.size_toArray, res_chargeBudget hbud, if_true]
    rw [res_bind_ok (res_alloc _ _ _)]
    rfl
  | string n v =>
    simp only [AnnFits] at hf
    simp only [annStringsSizeOf, utf8Size, utf8USize, MAnnotation.name] at hle
    have hfit : Fits MINIDUMP_ANNOTATION (annRec soff (.string n v)) := by
      simp only [MINIDUMP_ANNOTATION, annRec, Fits, pow_256_4, pow_256_2, ANNOTATION_TYPE_STRING, utf8Size]
      exact ⟨by omega, by decide, by decide, by omega, trivial⟩
    have hrd := readFields_has hfit hrec
    have hk := readStringUtf8_enc (e := e) hstr.left hf.1 hall
    have hv : readStringUtf8Unterminated all (soff + utf8Size n) e = some (v.toArray, soff + utf8Size n + 4 + v.length) := by
      have := hstr.right
      simp only [MAnnotation.name, encUtf8_length] at this
      exact readStringUtf8Unterminated_enc this hf.2 hall
    simp only [annBytesOf] at hbud
    have hne : ¬ (ANNOTATION_TYPE_STRING = ANNOTATION_TYPE_INVALID) := by decide
    unfold annotationStep
    simp only [hrd, annRec, fld, List.getD_cons_zero, List.getD_cons_succ, MAnnotation.name] at hk ⊢
    simp only [hk, List.size_toArray, res_chargeBudget (show n.length ≤ budget by omega), hne, if_false, if_true, hv,
      res_chargeBudget (show v.length ≤ budget - n.length by omega)]
    rw [res_bind_ok (res_alloc _ _ _), res_bind_ok (res_alloc _ _ _)]
    simp only [annValueOf, res_pure, annBytesOf]
    congr 2
    omega
  | other n ty v =>
    simp only [AnnFits] at hf
    obtain ⟨hvn, h0, h1, hty, hvv⟩ := hf
    simp only [annStringsSizeOf, utf8Size, MAnnotation.name] at hle
    have hfit : Fits MINIDUMP_ANNOTATION (annRec soff (.other n ty v)) := by
      simp only [MINIDUMP_ANNOTATION, annRec, Fits, pow_256_4, pow_256_2]
      exact ⟨by omega, hty, by decide, hvv, trivial⟩
    have hrd := readFields_has hfit hrec
    have hk := readStringUtf8_enc (e := e) hstr.left hvn hall
    simp only [annBytesOf] at hbud
    unfold annotationStep
    simp only [hrd, annRec, fld, List.getD_cons_zero, List.getD_cons_succ, MAnnotation.name] at hk ⊢
    simp only [hk, List.size_toArray, res_chargeBudget hbud, h0, h1, if_false]
    by_cases hu : ty ≥ ANNOTATION_TYPE_USER_DEFINED
    · simp only [hu, if_true, annValueOf]
      rw [res_bind_ok (res_alloc _ _ _)]
      rfl
    · simp only [hu, if_false, annValueOf]
      rw [res_bind_ok (res_alloc _ _ _)]
      rfl

theorem annLoop_enc {all data : Bytes} {e : Endian} (hall : all.size < 2 ^ 32) :
    ∀ (as : List MAnnotation) (i soff budget : Nat) (acc : List (Bytes × AnnotationValue)) (rev : List Alloc),
      Has data.toList (4 + 12 * i) (encRecords e MINIDUMP_ANNOTATION (annRecs soff as)) →
      Has all.toList soff (annStrings e as) → (∀ a ∈ as, AnnFits a) → annBytes as ≤ budget →
      (M.loopGo (annotationStep all data e) as.length i (acc, budget) rev).res =
        .ok (as.foldl (fun d a => dictInsert a.name.toArray (annValueOf a) d) acc, budget - annBytes as) := by
  intro as
  induction as with
  | nil => intro i soff budget acc rev _ _ _ _; simp [loopGo_zero, annBytes]
  | cons a r ih =>
    intro i soff budget acc rev hrec hstr hval hbud
    simp only [annRecs, encRecords_cons] at hrec
    simp only [annStrings] at hstr
    simp only [annBytes] at hbud
    have hstep := annStep_enc hall a i soff budget acc hrec.left hstr.left (hval a (by simp)) (by omega)
    simp only [List.length_cons]
    rw [loopGo_succ _ hstep]
    have hrec2 := hrec.right
    rw [encFields_length, size_annotation] at hrec2
    have hrec3 : Has data.toList (4 + 12 * (i + 1)) (encRecords e MINIDUMP_ANNOTATION (annRecs (soff + annStringsSizeOf a) r)) := by
      have : 4 + 12 * (i + 1) = 4 + 12 * i + 12 := by omega
      rw [this]; exact hrec2
    have hstr2 := hstr.right
    rw [annStringsOf_length] at hstr2
    rw [ih (i + 1) (soff + annStringsSizeOf a) (budget - annBytesOf a) _ _ hrec3 hstr2
      (fun x hx => hval x (by simp [hx])) (by omega)]
    simp only [List.foldl_cons, annBytes]
    congr 2
    omega

theorem readAnnotationObjects_enc {all : Bytes} {e : Endian} {off budget : Nat} {as : List MAnnotation}
    (h : Has all.toList off (annBlock e off as)) (hval : ∀ a ∈ as, AnnFits a) (hbud : annBytes as ≤ budget)
    (hall : all.size < 2 ^ 32) :
    (readAnnotationObjects all e ⟨4 + 12 * as.length, off⟩ budget).res = .ok (annDictOf as, budget - annBytes as) := by
  unfold annBlock at h
  have hrl : (encRecords e MINIDUMP_ANNOTATION (annRecs (off + 4 + 12 * as.length) as)).length = 12 * as.length := by
    rw [encRecords_length, annRecs_length, size_annotation, Nat.mul_comm]
  obtain ⟨data, hd1, hd2, hstr⟩ := block_parts h hrl hall
  have hle := h.size_le
  simp only [List.length_append, encNat_length, hrl] at hle
  have hcount : readU32 data 0 e = some as.length :=
    readScalar_has (Has.prefix0 hd2) (by rw [pow_256_4]; omega)
  have hrecs : Has data.toList (4 + 12 * 0) (encRecords e MINIDUMP_ANNOTATION (annRecs (off + 4 + 12 * as.length) as)) :=
    ⟨encNat e 4 as.length, [], by simp [hd2], by simp⟩
  have hsize : data.size ≠ 0 := by
    have := congrArg List.length hd2
    simp only [Array.length_toList, List.length_append, encNat_length] at this
    omega
  unfold readAnnotationObjects
  simp only [hd1, hsize, if_false, hcount, M.loop]
  exact annLoop_enc hall as 0 _ budget [] [] hrecs hstr hval hbud

/-! ## one module -/

theorem listBlock_length (e : Endian) (off : Nat) (ss : List (List UInt8)) : (listBlock e off ss).length = listBlockSize ss := by
  simp [listBlock, listBlockSize, listRecs_length, size_rva, listStrings_length, Nat.mul_comm]; omega

theorem dictBlock_length (e : Endian) (off : Nat) (d : List (List UInt8 × List UInt8)) :
    (dictBlock e off d).length = dictBlockSize d := by
  simp [dictBlock, dictBlockSize, dictRecs_length, size_dictEntry, dictStrings_length, Nat.mul_comm]; omega

theorem annBlock_length (e : Endian) (off : Nat) (as : List MAnnotation) : (annBlock e off as).length = annBlockSize as := by
  simp [annBlock, annBlockSize, annRecs_length, size_annotation, annStrings_length, Nat.mul_comm]; omega

theorem size_modinfo : Layout.size MINIDUMP_MODULE_CRASHPAD_INFO = 28 := by decide

theorem modBlock_length (e : Endian) (off : Nat) (x : MModuleCrashpad) : (modBlock e off x).length = modBlockSize x := by
  simp [modBlock, modBlockSize, size_modinfo, listBlock_length, dictBlock_length, annBlock_length, Nat.add_assoc]

def ModuleCrashpadFits (x : MModuleCrashpad) : Prop :=
  x.index < 2 ^ 32 ∧ x.version < 2 ^ 32 ∧ (∀ s ∈ x.listAnnotations, utf8Valid s = true) ∧ DictValid x.simpleAnnotations ∧
  ∀ a ∈ x.annotationObjects, AnnFits a

theorem map_toArray_toList (ss : List (List UInt8)) : (ss.map (·.toArray)).map (·.toList) = ss := by
  induction ss with
  | nil => rfl
  | cons s r ih => simp [ih]

/-- **`MinidumpModuleCrashpadInfo::read` on an encoded module block**; the three reads share one
    budget of `all.len()` bytes, which the strings of a block that lies inside the file cannot exceed -/
theorem readModuleCrashpadInfo_enc (ms : MemSizes) {all : Bytes} {e : Endian} {off : Nat} {x : MModuleCrashpad} (sz idx : Nat)
    (h : Has all.toList off (modBlock e off x)) (hf : ModuleCrashpadFits x) (hall : all.size < 2 ^ 32) :
    ∃ r, (readModuleCrashpadInfo ms all e idx ⟨sz, off⟩).res = .ok r ∧
      rmoduleCrashpadOf r = { reportModuleCrashpad x with index := idx } := by
  obtain ⟨_, hver, hl, hd, ha⟩ := hf
  have hle := h.size_le
  rw [modBlock_length] at hle
  unfold modBlockSize listBlockSize dictBlockSize annBlockSize at hle
  have b1 := listBytes_le x.listAnnotations
  have b2 := dictBytes_le x.simpleAnnotations
  have b3 := annBytes_le x.annotationObjects
  unfold modBlock at h
  simp only at h
  have hrec := h.left.left.left
  have hlist := h.left.left.right
  rw [encFields_length, size_modinfo] at hlist
  have hdict := h.left.right
  simp only [List.length_append, encFields_length, size_modinfo, listBlock_length, ← Nat.add_assoc] at hdict
  have hann := h.right
  simp only [List.length_append, encFields_length, size_modinfo, listBlock_length, dictBlock_length, ← Nat.add_assoc] at hann
  have hfit : Fits MINIDUMP_MODULE_CRASHPAD_INFO (modRec off x) := by
    simp only [MINIDUMP_MODULE_CRASHPAD_INFO, modRec, Fits, pow_256_4]
    unfold listBlockSize dictBlockSize
    refine ⟨hver, ?_, ?_, ?_, ?_, ?_, ?_, trivial⟩ <;> omega
  have hrd := readFields_has hfit hrec
  have r1 := readStringList_enc ms (budget := all.size) hlist hl (by omega) hall
  have r2 := readSimpleDict_enc (budget := all.size - listBytes x.listAnnotations) hdict hd (by omega) hall
  have r3 := readAnnotationObjects_enc
    (budget := all.size - listBytes x.listAnnotations - dictBytes x.simpleAnnotations) hann ha (by omega) hall
  refine ⟨?_, ?_, ?_⟩
  rotate_left
  · unfold readModuleCrashpadInfo
    simp only [hrd, modRec, fld, List.getD_cons_zero, List.getD_cons_succ]
    rw [res_bind_ok r1]
    simp only
    rw [res_bind_ok r2]
    simp only
    rw [res_bind_ok r3]
    rfl
  · simp [rmoduleCrashpadOf, reportModuleCrashpad, Function.comp_def]

/-! ## the module list -/

theorem modBlocks_length (e : Endian) : ∀ (xs : List MModuleCrashpad) (off : Nat), (modBlocks e off xs).length = modBlocksSize xs := by
  intro xs
  induction xs with
  | nil => intro _; rfl
  | cons x r ih => intro off; simp [modBlocks, modBlocksSize, modBlock_length, ih]

theorem linkRecs_length : ∀ (xs : List MModuleCrashpad) (off : Nat), (linkRecs off xs).length = xs.length := by
  intro xs
  induction xs with
  | nil => intro _; rfl
  | cons x r ih => intro off; simp [linkRecs, ih]

theorem size_link' : Layout.size MINIDUMP_MODULE_CRASHPAD_INFO_LINK = 12 := by decide

theorem linkLoop_enc (ms : MemSizes) {all data : Bytes} {e : Endian} (hall : all.size < 2 ^ 32) :
    ∀ (xs : List MModuleCrashpad) (i moff : Nat) (acc : List ModuleCrashpadInfo) (rev : List Alloc),
      Has data.toList (4 + 12 * i) (encRecords e MINIDUMP_MODULE_CRASHPAD_INFO_LINK (linkRecs moff xs)) →
      Has all.toList moff (modBlocks e moff xs) → (∀ x ∈ xs, ModuleCrashpadFits x) →
      ∃ r : List ModuleCrashpadInfo, (M.loopGo (linkStep ms all data e) xs.length i acc rev).res = .ok (r.reverse ++ acc) ∧
        r.map rmoduleCrashpadOf = xs.map reportModuleCrashpad := by
  intro xs
  induction xs with
  | nil => intro i moff acc rev _ _ _; exact ⟨[], by simp [loopGo_zero], rfl⟩
  | cons x r ih =>
    intro i moff acc rev hrec hblk hf
    simp only [linkRecs, encRecords_cons] at hrec
    simp only [modBlocks] at hblk
    have hle := hblk.size_le
    simp only [List.length_append, modBlock_length, modBlocks_length] at hle
    have hx := hf x (by simp)
    have hfit : Fits MINIDUMP_MODULE_CRASHPAD_INFO_LINK [x.index, 28, moff] := by
      simp only [MINIDUMP_MODULE_CRASHPAD_INFO_LINK, Fits, pow_256_4]
      exact ⟨hx.1, by decide, by omega, trivial⟩
    have hrd := readFields_has hfit hrec.left
    obtain ⟨info, hi1, hi2⟩ := readModuleCrashpadInfo_enc ms 28 x.index hblk.left hx hall
    have hstep : (linkStep ms all data e acc i).res = .ok (info :: acc) := by
      unfold linkStep
      simp only [hrd, fld, List.getD_cons_zero, List.getD_cons_succ]
      rw [res_bind_ok hi1]
      rfl
    have hrec2 := hrec.right
    rw [encFields_length, size_link'] at hrec2
    have hrec3 : Has data.toList (4 + 12 * (i + 1))
        (encRecords e MINIDUMP_MODULE_CRASHPAD_INFO_LINK (linkRecs (moff + modBlockSize x) r)) := by
      have : 4 + 12 * (i + 1) = 4 + 12 * i + 12 := by omega
      rw [this]; exact hrec2
    have hblk2 := hblk.right
    rw [modBlock_length] at hblk2
    obtain ⟨rr, hr1, hr2⟩ := ih (i + 1) (moff + modBlockSize x) (info :: acc)
      ((linkStep ms all data e acc i).allocs.reverse ++ rev) hrec3 hblk2 (fun y hy => hf y (by simp [hy]))
    refine ⟨info :: rr, ?_, ?_⟩
    · simp only [List.length_cons]
      rw [loopGo_succ _ hstep, hr1]
      simp
    · simp only [List.map_cons, hr2, hi2]
      cases x; rfl

theorem readCrashpadModuleLinks_enc (ms : MemSizes) {all : Bytes} {e : Endian} {off : Nat} {xs : List MModuleCrashpad}
    (h : Has all.toList off (modListBlock e off xs)) (hf : ∀ x ∈ xs, ModuleCrashpadFits x) (hall : all.size < 2 ^ 32) :
    ∃ r, (readCrashpadModuleLinks ms all e ⟨4 + 12 * xs.length, off⟩).res = .ok r ∧
      r.map rmoduleCrashpadOf = xs.map reportModuleCrashpad := by
  have hU := U32_le_U64
  unfold modListBlock at h
  have hrl : (encRecords e MINIDUMP_MODULE_CRASHPAD_INFO_LINK (linkRecs (off + 4 + 12 * xs.length) xs)).length = 12 * xs.length := by
    rw [encRecords_length, linkRecs_length, size_link', Nat.mul_comm]
  obtain ⟨data, hd1, hd2, hblk⟩ := block_parts h hrl hall
  have hle := h.size_le
  simp only [List.length_append, encNat_length, hrl] at hle
  have hcount : readU32 data 0 e = some xs.length :=
    readScalar_has (Has.prefix0 hd2) (by rw [pow_256_4]; omega)
  have hrecs : Has data.toList (4 + 12 * 0) (encRecords e MINIDUMP_MODULE_CRASHPAD_INFO_LINK (linkRecs (off + 4 + 12 * xs.length) xs)) :=
    ⟨encNat e 4 xs.length, [], by simp [hd2], by simp⟩
  have hsize : data.size ≠ 0 := by
    have := congrArg List.length hd2
    simp only [Array.length_toList, List.length_append, encNat_length] at this
    omega
  have hens : ensureCountInBound all.size xs.length (Layout.size MINIDUMP_MODULE_CRASHPAD_INFO_LINK) 0 = .ok (xs.length * 12 + 0) := by
    unfold ensureCountInBound checkedMul checkedAdd
    rw [size_link']
    rw [if_pos (by omega)]; simp only
    rw [if_pos (by omega)]; simp only
    rw [if_neg (by omega)]
  obtain ⟨r, hr1, hr2⟩ := linkLoop_enc ms hall xs 0 _ [] [] hrecs hblk hf
  refine ⟨r, ?_, hr2⟩
  unfold readCrashpadModuleLinks
  simp only [hd1, hsize, if_false, hcount, hens, M.loop]
  rw [res_bind_ok (res_alloc _ _ _), res_bind_ok hr1]
  simp

/-! ## the stream -/

def GuidFits (g : List Nat) : Prop :=
  g.length = 11 ∧ fld g 0 < 2 ^ 32 ∧ fld g 1 < 2 ^ 16 ∧ fld g 2 < 2 ^ 16 ∧ ∀ v ∈ g.drop 3, v < 256

/-- a Crashpad model the wire format can carry (version 0 is rejected by the reader) -/
def CrashpadFits (x : MCrashpad) : Prop :=
  x.version ≠ 0 ∧ x.version < 2 ^ 32 ∧ GuidFits x.reportId ∧ GuidFits x.clientId ∧ DictValid x.simpleAnnotations ∧
  ∀ y ∈ x.modules, ModuleCrashpadFits y

theorem crashpadOobOf_length (e : Endian) (off : Nat) (x : MCrashpad) : (crashpadOobOf e off x).length = crashpadOobSizeOf x := by
  simp [crashpadOobOf, crashpadOobSizeOf, dictBlock_length, modListBlock, modListBlockSize, linkRecs_length, size_link',
    modBlocks_length, Nat.mul_comm]
  omega

theorem readCrashpadInfoRaw_enc (ms : MemSizes) {s all : Bytes} {e : Endian} {off : Nat} {x : MCrashpad}
    (hs : s.toList = encCrashpad e off x) (hf : CrashpadFits x) (hoob : Has all.toList off (crashpadOobOf e off x))
    (hall : all.size < 2 ^ 32) :
    ∃ r, (readCrashpadInfoRaw ms s all e).res = .ok r ∧ rcrashpadOf r = reportCrashpad x := by
  obtain ⟨hv0, hv, hg1, hg2, hd, hm⟩ := hf
  have hle := hoob.size_le
  rw [crashpadOobOf_length] at hle
  unfold crashpadOobSizeOf dictBlockSize modListBlockSize at hle
  unfold crashpadOobOf at hoob
  have hdict := hoob.left
  have hmods := hoob.right
  rw [dictBlock_length] at hmods
  obtain ⟨mr, hm1, hm2⟩ := readCrashpadModuleLinks_enc ms hmods hm hall
  have hdr := readSimpleDict_enc (budget := all.size) hdict hd (by have := dictBytes_le x.simpleAnnotations; omega) hall
  obtain ⟨rid, cid⟩ : ∃ a b, a = x.reportId ∧ b = x.clientId := ⟨_, _, rfl, rfl⟩
  obtain ⟨l1, a0, a1, a2, a3⟩ := hg1
  obtain ⟨l2, c0, c1, c2, c3⟩ := hg2
  match hr : x.reportId, l1, hc : x.clientId, l2 with
  | [r0, r1, r2, r3, r4, r5, r6, r7, r8, r9, r10], _, [q0, q1, q2, q3, q4, q5, q6, q7, q8, q9, q10], _ =>
    rw [hr] at a0 a1 a2 a3
    rw [hc] at c0 c1 c2 c3
    simp only [fld, List.getD_cons_zero, List.getD_cons_succ, List.drop_succ_cons, List.drop_zero, List.mem_cons,
      List.not_mem_nil, or_false, forall_eq_or_imp, forall_eq] at a0 a1 a2 a3 c0 c1 c2 c3
    have hrecv : crashpadRec off x = [x.version, r0, r1, r2, r3, r4, r5, r6, r7, r8, r9, r10, q0, q1, q2, q3, q4, q5, q6,
        q7, q8, q9, q10, 4 + 8 * x.simpleAnnotations.length, off, 4 + 12 * x.modules.length,
        off + dictBlockSize x.simpleAnnotations] := by
      simp [crashpadRec, guidVals, hr, hc]
    have hfit : Fits MINIDUMP_CRASHPAD_INFO (crashpadRec off x) := by
      rw [hrecv]
      simp only [MINIDUMP_CRASHPAD_INFO, Fits, pow_256_4, pow_256_2, pow_256_1]
      unfold dictBlockSize
      refine ⟨hv, a0, a1, a2, a3.1, a3.2.1, a3.2.2.1, a3.2.2.2.1, a3.2.2.2.2.1, a3.2.2.2.2.2.1, a3.2.2.2.2.2.2.1,
        a3.2.2.2.2.2.2.2, c0, c1, c2, c3.1, c3.2.1, c3.2.2.1, c3.2.2.2.1, c3.2.2.2.2.1, c3.2.2.2.2.2.1, c3.2.2.2.2.2.2.1,
        c3.2.2.2.2.2.2.2, ?_, ?_, ?_, ?_, trivial⟩ <;> omega
    have hrd : readFields MINIDUMP_CRASHPAD_INFO s 0 e = some (crashpadRec off x) :=
      readFields_has hfit (Has.prefix0 (rest := []) (by simpa [encCrashpad] using hs))
    have hcp : (readCrashpadInfo ms s all e).res = .ok ⟨x.version, dictOf x.simpleAnnotations, mr⟩ := by
      unfold readCrashpadInfo
      simp only [hrd]
      rw [hrecv]
      simp only [fld, List.getD_cons_zero, List.getD_cons_succ, hv0, if_false]
      rw [res_bind_ok hdr]
      simp only
      rw [res_bind_ok hm1]
      rfl
    refine ⟨?_, ?_, ?_⟩
    rotate_left
    · unfold readCrashpadInfoRaw
      rw [res_bind_ok hcp]
      simp only [hrd]
      rfl
    · simp [rcrashpadOf, reportCrashpad, hm2, guidVals, hr, hc, hrecv]

end MdModel.Encode
