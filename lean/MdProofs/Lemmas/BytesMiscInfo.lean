/-
  MdProofs.Lemmas.BytesMiscInfo — `MinidumpMiscInfo` on arbitrary bytes (MdModel.DumpMiscInfo):
  what a successful `readMiscInfo` guarantees, the lengths of the accessor values, `Safe` / `CntLe`
  for the printer's computations (`utf16_to_string` on the fixed arrays, the XSTATE feature loop).
-/
import MdModel.DumpMiscInfo
import MdProofs.Lemmas.BytesFull
namespace MdModel.Dump
open MdModel MdModel.Gen.Layouts MdModel.Gen.LayoutsC02

/-! ### the reader -/

/-- what `MinidumpMiscInfo::read` guarantees: one of the five revisions, as many values as the
    revision's layout has scalars, and the stream is at least as long as that struct -/
structure MiscOk (b : Bytes) (mi : MiscInfo) : Prop where
  ver : 1 ≤ mi.ver ∧ mi.ver ≤ 5
  len : mi.vals.length = (miscLayout mi.ver).length
  fits : Layout.size (miscLayout mi.ver) ≤ b.size

theorem miscLayout_eq :
    miscLayout 1 = MINIDUMP_MISC_INFO ∧ miscLayout 2 = MINIDUMP_MISC_INFO_2 ∧ miscLayout 3 = MINIDUMP_MISC_INFO_3 ∧
    miscLayout 4 = MINIDUMP_MISC_INFO_4 ∧ miscLayout 5 = MINIDUMP_MISC_INFO_5 := by
  refine ⟨rfl, rfl, rfl, rfl, rfl⟩

theorem misc_sizes :
    Layout.size MINIDUMP_MISC_INFO = 24 ∧ Layout.size MINIDUMP_MISC_INFO_2 = 44 ∧ Layout.size MINIDUMP_MISC_INFO_3 = 232 ∧
    Layout.size MINIDUMP_MISC_INFO_4 = 832 ∧ Layout.size MINIDUMP_MISC_INFO_5 = 1364 ∧
    MINIDUMP_MISC_INFO.length = 6 ∧ MINIDUMP_MISC_INFO_2.length = 11 ∧ MINIDUMP_MISC_INFO_3.length = 98 ∧
    MINIDUMP_MISC_INFO_4.length = 398 ∧ MINIDUMP_MISC_INFO_5.length = 530 := by decide +kernel

theorem readMiscInfoGo_ok (b : Bytes) (e : Endian) :
    ∀ (ls : List (Nat × Layout)) (mi : MiscInfo), (readMiscInfoGo b e ls).res = .ok mi →
      ∃ l, (mi.ver, l) ∈ ls ∧ mi.vals.length = l.length ∧ Layout.size l ≤ b.size := by
  intro ls
  induction ls with
  | nil => intro mi h; cases h
  | cons p rest ih =>
    intro mi h
    obtain ⟨v, l⟩ := p
    unfold readMiscInfoGo at h
    split at h
    · rename_i hfit
      split at h
      · cases h
      · rename_i vs hvs
        cases h
        exact ⟨l, List.mem_cons_self, readFields_length hvs, hfit⟩
    · obtain ⟨l', hmem, h1, h2⟩ := ih mi h
      exact ⟨l', List.mem_cons_of_mem _ hmem, h1, h2⟩

theorem readMiscInfo_ok {b : Bytes} {e : Endian} {mi : MiscInfo} (h : (readMiscInfo b e).res = .ok mi) : MiscOk b mi := by
  obtain ⟨l, hmem, h1, h2⟩ := readMiscInfoGo_ok b e _ mi h
  simp only [MISC_LAYOUTS, List.mem_cons, Prod.mk.injEq, List.mem_nil_iff, or_false] at hmem
  rcases hmem with ⟨hv, hl⟩ | ⟨hv, hl⟩ | ⟨hv, hl⟩ | ⟨hv, hl⟩ | ⟨hv, hl⟩ <;> subst hl <;>
    exact ⟨by omega, by rw [hv]; exact h1, by rw [hv]; exact h2⟩

theorem readMiscInfoGo_safe {B : Nat} (b : Bytes) (e : Endian) : ∀ ls : List (Nat × Layout), Safe B (readMiscInfoGo b e ls) := by
  intro ls
  induction ls with
  | nil => exact safe_fail _
  | cons p rest ih =>
    obtain ⟨v, l⟩ := p
    unfold readMiscInfoGo
    split
    · split
      · exact safe_fail _
      · exact safe_pure _
    · exact ih

theorem readMiscInfo_safe {B : Nat} (b : Bytes) (e : Endian) : Safe B (readMiscInfo b e) := readMiscInfoGo_safe b e _

theorem readMiscInfoGo_allocs (b : Bytes) (e : Endian) : ∀ ls : List (Nat × Layout), (readMiscInfoGo b e ls).allocs = [] := by
  intro ls
  induction ls with
  | nil => rfl
  | cons p rest ih =>
    obtain ⟨v, l⟩ := p
    unfold readMiscInfoGo
    split
    · split <;> rfl
    · exact ih

/-! ### accessor values -/

/-- the test `fieldVals` applies to a scalar's name -/
def nameMatches (name n : String) : Bool := n == name || n.startsWith (name ++ ".") || n.startsWith (name ++ "[")

theorem fieldVals_length_le (l : Layout) (vals : List Nat) (name : String) : (fieldVals l vals name).length ≤ l.length := by
  unfold fieldVals
  exact Nat.le_trans (List.length_filterMap_le _ _) (by simp [List.length_zip]; omega)

/-- with one value per scalar, an accessor yields exactly the values of the scalars it names -/
theorem fieldVals_length (name : String) : ∀ (l : Layout) (vals : List Nat), vals.length = l.length →
    (fieldVals l vals name).length = l.countP (fun f => nameMatches name f.1) := by
  intro l
  induction l with
  | nil => intro vals _; simp [fieldVals]
  | cons f rest ih =>
    intro vals hlen
    cases vals with
    | nil => simp at hlen
    | cons v vs =>
      have hlen' : vs.length = rest.length := by simpa using hlen
      have := ih vs hlen'
      unfold fieldVals at this ⊢
      obtain ⟨n, w⟩ := f
      simp only [List.zip_cons_cons, List.filterMap_cons, List.countP_cons]
      by_cases hm : nameMatches name n = true
      · have hm' : (n == name || n.startsWith (name ++ ".") || n.startsWith (name ++ "[")) = true := hm
        simp only [hm', ↓reduceIte, List.length_cons, this, hm]
      · have hm' : (n == name || n.startsWith (name ++ ".") || n.startsWith (name ++ "[")) = false := by
          simpa [nameMatches] using hm
        simp only [hm', Bool.false_eq_true, ↓reduceIte, this]
        simp [hm]

theorem misc_accessor_table :
    MISC_ACCESSORS.find? (·.1 == "time_zone") = some ("time_zone", 3, some MINIDUMP_MISC3_TIMEZONE) ∧
    MISC_ACCESSORS.find? (·.1 == "build_string") = some ("build_string", 4, some MINIDUMP_MISC4_BUILDSTRING) ∧
    MISC_ACCESSORS.find? (·.1 == "dbg_bld_str") = some ("dbg_bld_str", 4, some MINIDUMP_MISC4_BUILDSTRING) ∧
    MISC_ACCESSORS.find? (·.1 == "xstate_data") = some ("xstate_data", 5, none) := by decide +kernel

theorem miscAccessWith_some {mi : MiscInfo} {name : String} {since : Nat} {flag : Option Nat} {v : List Nat}
    (h : miscAccessWith mi name since flag = some v) :
    since ≤ mi.ver ∧ v = fieldVals (miscLayout mi.ver) mi.vals name := by
  unfold miscAccessWith at h
  split at h
  · cases h
  · rename_i hlt
    refine ⟨by omega, ?_⟩
    split at h
    · cases h; rfl
    · split at h
      · cases h; rfl
      · cases h

/-- the number of scalars behind `xstate_data` in revision 5: 3 + 64 x 2 -/
theorem xstate_scalars : MINIDUMP_MISC_INFO_5.countP (fun f => nameMatches "xstate_data" f.1) = 131 := by decide +kernel

/-! ### the printer -/

theorem pairsOf_length : ∀ l : List Nat, (pairsOf l).length = l.length / 2
  | [] => by simp [pairsOf]
  | [_] => by simp [pairsOf]
  | a :: b :: rest => by
    have := pairsOf_length rest
    simp only [pairsOf, List.length_cons, this]
    omega

theorem xstateIterGo_safe {B : Nat} (enabled : Nat) (feats : List (Nat × Nat)) :
    ∀ (todo idx : Nat) (acc : List (Nat × Nat × Nat)), idx + todo ≤ 64 → idx + todo ≤ feats.length →
      Safe B (xstateIterGo enabled feats todo idx acc) := by
  intro todo
  induction todo with
  | zero => intro idx acc _ _; exact safe_pure _
  | succ t ih =>
    intro idx acc h1 h2
    unfold xstateIterGo
    rw [if_neg (by omega)]
    split
    · have : feats[idx]? = some feats[idx] := List.getElem?_eq_getElem (by omega)
      rw [this]
      exact ih _ _ (by omega) (by omega)
    · exact ih _ _ (by omega) (by omega)

theorem xstateIterGo_allocs (enabled : Nat) (feats : List (Nat × Nat)) :
    ∀ (todo idx : Nat) (acc : List (Nat × Nat × Nat)), (xstateIterGo enabled feats todo idx acc).allocs = [] := by
  intro todo
  induction todo with
  | zero => intro idx acc; rfl
  | succ t ih =>
    intro idx acc
    unfold xstateIterGo
    split
    · rfl
    · split
      · split
        · rfl
        · exact ih _ _
      · exact ih _ _

/-- the loop yields at most 64 features, each with an index below 64, in increasing order of index -/
theorem xstateIterGo_ok (enabled : Nat) (feats : List (Nat × Nat)) :
    ∀ (todo idx : Nat) (acc r : List (Nat × Nat × Nat)), (xstateIterGo enabled feats todo idx acc).res = .ok r →
      r.length ≤ acc.length + todo ∧ (∀ x ∈ r, x ∈ acc ∨ (idx ≤ x.1 ∧ x.1 < 64)) := by
  intro todo
  induction todo with
  | zero =>
    intro idx acc r h
    cases h
    exact ⟨by simp, fun x hx => .inl (List.mem_reverse.mp hx)⟩
  | succ t ih =>
    intro idx acc r h
    unfold xstateIterGo at h
    split at h
    · cases h
    · rename_i hlt
      split at h
      · split at h
        · cases h
        · have ⟨h1, h2⟩ := ih _ _ _ h
          refine ⟨by simp only [List.length_cons] at h1; omega, fun x hx => ?_⟩
          cases h2 x hx with
          | inl hmem =>
            cases List.mem_cons.mp hmem with
            | inl heq => subst heq; exact .inr ⟨Nat.le_refl _, by omega⟩
            | inr hacc => exact .inl hacc
          | inr hr => exact .inr ⟨by omega, hr.2⟩
      · have ⟨h1, h2⟩ := ih _ _ _ h
        refine ⟨by omega, fun x hx => ?_⟩
        cases h2 x hx with
        | inl hmem => exact .inl hmem
        | inr hr => exact .inr ⟨by omega, hr.2⟩

/-- what the bounded per-bit loop yields from `idx` on: the enabled indices in ascending order, each
    with its entry of `features` -/
def xstateExpected (enabled : Nat) (feats : List (Nat × Nat)) (idx todo : Nat) : List (Nat × Nat × Nat) :=
  (List.range' idx todo).filterMap fun i =>
    if enabled &&& (1 <<< i) ≠ 0 then feats[i]?.map (fun f => (i, f.1, f.2)) else none

theorem xstateIterGo_eq (enabled : Nat) (feats : List (Nat × Nat)) :
    ∀ (todo idx : Nat) (acc : List (Nat × Nat × Nat)), idx + todo ≤ 64 → idx + todo ≤ feats.length →
      (xstateIterGo enabled feats todo idx acc).res = .ok (acc.reverse ++ xstateExpected enabled feats idx todo) := by
  intro todo
  induction todo with
  | zero => intro idx acc _ _; simp [xstateIterGo, xstateExpected]; rfl
  | succ t ih =>
    intro idx acc h1 h2
    unfold xstateIterGo
    rw [if_neg (by omega)]
    have hget : feats[idx]? = some feats[idx] := List.getElem?_eq_getElem (by omega)
    unfold xstateExpected
    rw [List.range'_succ, List.filterMap_cons]
    split
    · rename_i hbit
      rw [hget]
      simp only [hbit, ↓reduceIte, Option.map_some]
      rw [ih _ _ (by omega) (by omega)]
      simp [xstateExpected]
    · rename_i hbit
      simp only [hbit, ↓reduceIte]
      rw [ih _ _ (by omega) (by omega)]
      rfl

theorem pairsOf_getElem? : ∀ (l : List Nat) (i : Nat), 2 * i + 1 < l.length →
    (pairsOf l)[i]? = some (l.getD (2 * i) 0, l.getD (2 * i + 1) 0)
  | [], i, h => by simp at h
  | [_], i, h => by simp at h
  | a :: b :: rest, 0, _ => by simp [pairsOf]
  | a :: b :: rest, i + 1, h => by
    have := pairsOf_getElem? rest i (by simp only [List.length_cons] at h; omega)
    simp only [pairsOf, List.getElem?_cons_succ, this]
    have e1 : 2 * (i + 1) = (2 * i) + 1 + 1 := by omega
    rw [e1]
    simp [List.getD_cons_succ]

/-- bit `i` of the mask, as the code tests it -/
theorem and_one_shiftLeft_ne_zero (m i : Nat) : m &&& (1 <<< i) ≠ 0 ↔ m.testBit i = true := by
  rw [Nat.one_shiftLeft]
  constructor
  · intro h
    cases hb : m.testBit i with
    | true => rfl
    | false =>
      exfalso
      apply h
      apply Nat.eq_of_testBit_eq
      intro j
      rw [Nat.testBit_and, Nat.testBit_two_pow, Nat.zero_testBit]
      by_cases hij : i = j
      · subst hij; simp [hb]
      · simp [hij]
  · intro h h0
    have : (m &&& 2 ^ i).testBit i = true := by rw [Nat.testBit_and, Nat.testBit_two_pow, h]; simp
    rw [h0, Nat.zero_testBit] at this
    cases this

theorem filterMap_congr' {α β : Type} {f g : α → Option β} : ∀ {l : List α}, (∀ x ∈ l, f x = g x) → l.filterMap f = l.filterMap g
  | [], _ => rfl
  | a :: as, h => by
    rw [List.filterMap_cons, List.filterMap_cons, h a List.mem_cons_self,
      filterMap_congr' (fun x hx => h x (List.mem_cons_of_mem _ hx))]

/-- **`XstateFeatureIter` is total and exact**: on the values of an `xstate_data` field (3 scalars,
    then 64 (offset, size) pairs) the iterator ends without panic and yields exactly the set bits of
    `enabled_features`, in ascending order, each with `features[i]` -/
theorem xstateIter_spec (vals : List Nat) (h : 131 ≤ vals.length) :
    (xstateIter vals).res = .ok ((List.range 64).filterMap fun i =>
      if (fld vals 2).testBit i then some (i, fld vals (3 + 2 * i), fld vals (4 + 2 * i)) else none) := by
  unfold xstateIter
  have hlen : 64 ≤ (pairsOf (vals.drop 3)).length := by
    rw [pairsOf_length]; simp only [List.length_drop]; omega
  rw [xstateIterGo_eq _ _ _ _ _ (by decide) (by simpa [XSTATE_FEATURES_LEN] using hlen)]
  simp only [List.reverse_nil, List.nil_append, xstateExpected, XSTATE_FEATURES_LEN]
  rw [List.range_eq_range']
  congr 1
  apply filterMap_congr'
  intro i hi
  have hi' : i < 64 := by
    have := List.mem_range'.mp hi
    omega
  have hp := pairsOf_getElem? (vals.drop 3) i (by simp only [List.length_drop]; omega)
  rw [hp]
  have hbit := and_one_shiftLeft_ne_zero (fld vals 2) i
  by_cases hb : (fld vals 2).testBit i = true
  · have := hbit.mpr hb
    simp only [this, hb, ↓reduceIte, Option.map_some, ne_eq, not_false_eq_true]
    simp only [fld, List.getD_eq_getElem?_getD, List.getElem?_drop]
    congr 3 <;> (congr 2; omega)
  · have hb' : (fld vals 2).testBit i = false := by simpa using hb
    have : ¬ (fld vals 2 &&& 1 <<< i ≠ 0) := by rw [hbit]; simp [hb']
    simp only [this, hb', ↓reduceIte, Bool.false_eq_true]

theorem xstateIter_safe {B : Nat} (vals : List Nat) (h : 131 ≤ vals.length) : Safe B (xstateIter vals) := by
  unfold xstateIter
  refine xstateIterGo_safe _ _ _ _ _ (by decide) ?_
  rw [pairsOf_length]
  simp only [List.length_drop, XSTATE_FEATURES_LEN]
  omega

theorem miscTimeZone_safe {B : Nat} (v : List Nat) (hB : 96 ≤ B) : Safe B (miscTimeZone v) := by
  unfold miscTimeZone
  refine safe_bind (utf16ToString_safe _ (by simp only [List.length_take]; omega)) (fun _ _ => ?_)
  refine safe_bind (utf16ToString_safe _ (by simp only [List.length_take]; omega)) (fun _ _ => safe_pure _)

theorem miscLayout_length_le {ver : Nat} (h : 1 ≤ ver ∧ ver ≤ 5) : (miscLayout ver).length ≤ 530 := by
  by_cases h1 : ver = 1; · subst h1; decide +kernel
  by_cases h2 : ver = 2; · subst h2; decide +kernel
  by_cases h3 : ver = 3; · subst h3; decide +kernel
  by_cases h4 : ver = 4; · subst h4; decide +kernel
  by_cases h5 : ver = 5; · subst h5; decide +kernel
  omega

/-- `MinidumpMiscInfo::print`: no panic outcome (`&data[..len]` of the four fixed arrays,
    `1 << cur_idx` and `features[cur_idx]` of the XSTATE loop), every decoded string at most
    3 x 260 bytes -/
theorem miscPrint_safe {B : Nat} {b : Bytes} (mi : MiscInfo) (hok : MiscOk b mi) (hB : 3 ≤ mi.ver → 1590 ≤ B) :
    Safe B (miscPrint mi) := by
  have hlenle := miscLayout_length_le hok.ver
  unfold miscPrint
  refine safe_bind ?_ (fun _ _ => ?_)
  · split
    · rename_i v hv
      unfold miscAccess at hv
      rw [misc_accessor_table.1] at hv
      have ⟨hver, _⟩ := miscAccessWith_some hv
      exact safe_bind (miscTimeZone_safe v (by have := hB hver; omega)) (fun _ _ => safe_pure _)
    · exact safe_pure _
  refine safe_bind ?_ (fun _ _ => ?_)
  · split
    · rename_i v hv
      unfold miscAccess at hv
      rw [misc_accessor_table.2.1] at hv
      have ⟨hver, hveq⟩ := miscAccessWith_some hv
      have := fieldVals_length_le (miscLayout mi.ver) mi.vals "build_string"
      exact utf16ToString_safe v (by rw [hveq]; have := hB (by omega); omega)
    · exact safe_pure _
  refine safe_bind ?_ (fun _ _ => ?_)
  · split
    · rename_i v hv
      unfold miscAccess at hv
      rw [misc_accessor_table.2.2.1] at hv
      have ⟨hver, hveq⟩ := miscAccessWith_some hv
      have := fieldVals_length_le (miscLayout mi.ver) mi.vals "dbg_bld_str"
      exact utf16ToString_safe v (by rw [hveq]; have := hB (by omega); omega)
    · exact safe_pure _
  refine safe_bind ?_ (fun _ _ => safe_pure _)
  · split
    · rename_i v hv
      unfold miscAccess at hv
      rw [misc_accessor_table.2.2.2] at hv
      have ⟨hver, hveq⟩ := miscAccessWith_some hv
      have hv5 : mi.ver = 5 := by have := hok.ver; omega
      have hl := hok.len
      rw [hv5] at hl hveq
      have := fieldVals_length "xstate_data" (miscLayout 5) mi.vals hl
      rw [miscLayout_eq.2.2.2.2, xstate_scalars] at this
      rw [miscLayout_eq.2.2.2.2] at hveq
      refine safe_bind (xstateIter_safe v (by rw [hveq]; omega)) (fun _ _ => safe_pure _)
    · exact safe_pure _

theorem misc_fits {b : Bytes} {mi : MiscInfo} (hok : MiscOk b mi) (h3 : 3 ≤ mi.ver) : 232 ≤ b.size := by
  have hv := hok.ver
  have hf := hok.fits
  have hs := misc_sizes
  by_cases h : mi.ver = 3
  · rw [h, miscLayout_eq.2.2.1, hs.2.2.1] at hf; exact hf
  · by_cases h' : mi.ver = 4
    · rw [h', miscLayout_eq.2.2.2.1, hs.2.2.2.1] at hf; omega
    · have h5 : mi.ver = 5 := by omega
      rw [h5, miscLayout_eq.2.2.2.2, hs.2.2.2.2.1] at hf; omega

/-- `get_stream::<MinidumpMiscInfo>` + `print` on ANY stream bytes -/
theorem readMiscInfoX_safe {B : Nat} (b : Bytes) (e : Endian) (hB : 7 * b.size ≤ B) : Safe B (readMiscInfoX b e) := by
  unfold readMiscInfoX
  refine safe_bind (readMiscInfo_safe b e) (fun mi hmi => ?_)
  have hok := readMiscInfo_ok hmi
  exact miscPrint_safe mi hok (fun h3 => by have := misc_fits hok h3; omega)

theorem cnt_miscPrint (mi : MiscInfo) : CntLe 4 (miscPrint mi) := by
  unfold miscPrint
  refine (cnt_bind (A := 2) ?_ (C := 2) (fun _ _ => ?_)).mono (by omega)
  · split
    · refine (cnt_bind (A := 2) ?_ (C := 0) (fun _ _ => cnt_pure _)).mono (by omega)
      unfold miscTimeZone
      refine (cnt_bind (cnt_utf16ToString _) (C := 1) (fun _ _ => ?_)).mono (by omega)
      exact (cnt_bind (cnt_utf16ToString _) (C := 0) (fun _ _ => cnt_pure _)).mono (by omega)
    · exact (cnt_pure _).mono (by omega)
  refine (cnt_bind (A := 1) ?_ (C := 1) (fun _ _ => ?_)).mono (by omega)
  · split
    · exact cnt_utf16ToString _
    · exact (cnt_pure _).mono (by omega)
  refine (cnt_bind (A := 1) ?_ (C := 0) (fun _ _ => ?_)).mono (by omega)
  · split
    · exact cnt_utf16ToString _
    · exact (cnt_pure _).mono (by omega)
  refine cnt_bind (A := 0) ?_ (C := 0) (fun _ _ => cnt_pure _)
  · split
    · refine cnt_bind (A := 0) ?_ (C := 0) (fun _ _ => cnt_pure _)
      rw [cnt_zero_iff]
      exact xstateIterGo_allocs _ _ _ _ _
    · exact cnt_pure _

theorem cnt_readMiscInfoX (b : Bytes) (e : Endian) : CntLe 4 (readMiscInfoX b e) := by
  unfold readMiscInfoX
  refine (cnt_bind (A := 0) ?_ (C := 4) (fun _ _ => cnt_miscPrint _)).mono (by omega)
  rw [cnt_zero_iff]
  exact readMiscInfoGo_allocs b e _

end MdModel.Dump
