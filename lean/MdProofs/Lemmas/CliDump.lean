/-
  Helper lemmas for C20's raw-dump table (`MdModel.CliDump`): counting the sections that print a
  given stream type, for ANY statement list (induction), so that the property theorems only have to
  evaluate static facts of the translated table.
-/
import MdModel.CliDump
namespace MdModel.Cli

def typedCnt (t : String) (secs : List Sec) : Nat := secs.countP (fun s => s.what == .typed t)
def rawCnt (n : String) (secs : List Sec) : Nat := secs.countP (fun s => s.what == .raw n)

/-- number of statements that print stream type `t` straight from `dump.get_stream::<t>()` -/
def staticTyped (t : String) : List Stmt → Nat
  | [] => 0
  | .stream t' _ :: rest => (if t' = t then 1 else 0) + staticTyped t rest
  | .streamOrNote t' :: rest => (if t' = t then 1 else 0) + staticTyped t rest
  | _ :: rest => staticTyped t rest

def staticRaw (n : String) : List Stmt → Nat
  | [] => 0
  | .raw n' :: rest => (if n' = n then 1 else 0) + staticRaw n rest
  | _ :: rest => staticRaw n rest

/-- the stream types held by variables -/
def preloadTypes : List Stmt → List String
  | [] => []
  | .preload _ t :: rest => t :: preloadTypes rest
  | _ :: rest => preloadTypes rest

@[simp] theorem typedCnt_nil (t : String) : typedCnt t [] = 0 := rfl
@[simp] theorem rawCnt_nil (n : String) : rawCnt n [] = 0 := rfl
theorem typedCnt_append (t : String) (a b : List Sec) : typedCnt t (a ++ b) = typedCnt t a + typedCnt t b := by
  simp [typedCnt, List.countP_append]
theorem rawCnt_append (n : String) (a b : List Sec) : rawCnt n (a ++ b) = rawCnt n a + rawCnt n b := by
  simp [rawCnt, List.countP_append]
theorem typedCnt_cons (t : String) (s : Sec) (b : List Sec) :
    typedCnt t (s :: b) = (if s.what = .typed t then 1 else 0) + typedCnt t b := by
  simp [typedCnt, List.countP_cons]; omega
theorem rawCnt_cons (n : String) (s : Sec) (b : List Sec) :
    rawCnt n (s :: b) = (if s.what = .raw n then 1 else 0) + rawCnt n b := by
  simp [rawCnt, List.countP_cons]; omega

/-- raw sections come from the raw loop only -/
theorem rawCnt_run (env : DumpEnv) (brief : Bool) (n : String) (ss : List Stmt) (vs : Vars) :
    rawCnt n (runStmts env brief ss vs) = if env.raw n then staticRaw n ss else 0 := by
  induction ss generalizing vs with
  | nil => simp [runStmts, staticRaw]
  | cons s rest ih =>
    cases s with
    | header => simp [runStmts, rawCnt_cons, ih, staticRaw]
    | preload v t => simp [runStmts, ih, staticRaw]
    | unify v a va e b vb => simp [runStmts, ih, staticRaw]
    | stream t args =>
      simp only [runStmts, rawCnt_append, ih, staticRaw]
      split <;> simp [rawCnt_cons]
    | var v args =>
      simp only [runStmts, rawCnt_append, ih, staticRaw]
      split <;> simp [rawCnt_cons]
    | streamOrNote t =>
      simp only [runStmts, rawCnt_append, ih, staticRaw]
      split <;> simp [rawCnt_cons]
    | raw n' =>
      simp only [runStmts, rawCnt_append, ih, staticRaw]
      by_cases hn : n' = n
      · subst hn
        cases h : env.raw n' <;> simp [rawCnt_cons]
      · cases h : env.raw n' <;> cases h2 : env.raw n <;> simp [rawCnt_cons, hn]

/-! ### variables -/

/-- no variable holds stream type `t` -/
def Avoid (vs : Vars) (t : String) : Prop := ∀ p ∈ vs, p.2 ≠ some t

theorem get_of_avoid {vs : Vars} {t : String} (h : Avoid vs t) (v : String) : vs.get v ≠ some t := by
  unfold Vars.get
  split
  · rename_i x hf
    have := List.mem_of_find?_eq_some hf
    exact h _ this
  · simp

theorem avoid_set {vs : Vars} {t : String} (h : Avoid vs t) (v : String) (x : Option String) (hx : x ≠ some t) :
    Avoid (vs.set v x) t := by
  intro p hp
  simp only [Vars.set, List.mem_cons, List.mem_filter] at hp
  rcases hp with rfl | ⟨hp, _⟩
  · exact hx
  · exact h p hp

theorem avoid_unify {vs : Vars} {t : String} (h : Avoid vs t) (v a va : String) (e : Bool) (b vb : String) :
    Avoid (unify vs v a va e b vb) t := by
  unfold unify
  have ha := get_of_avoid h a
  have hb := get_of_avoid h b
  have hxa : (if vs.get a == variantType va then vs.get a else none) ≠ some t := by
    split
    · exact ha
    · simp
  have hxb : (if vs.get b == variantType vb then vs.get b else none) ≠ some t := by
    split
    · exact hb
    · simp
  generalize (if vs.get a == variantType va then vs.get a else none) = xa at hxa ⊢
  generalize (if vs.get b == variantType vb then vs.get b else none) = xb at hxb ⊢
  cases xa with
  | none => exact avoid_set (avoid_set h _ _ (by simp)) _ _ hxb
  | some x =>
    simp only
    split
    · exact avoid_set (avoid_set (avoid_set h _ _ (by simp)) _ _ (by simp)) _ _ hxa
    · exact avoid_set (avoid_set h _ _ (by simp)) _ _ hxa

/-- a stream type that no variable can hold is printed exactly by its own `get_stream` statements -/
theorem typedCnt_run_static (env : DumpEnv) (brief : Bool) (t : String) (ss : List Stmt) (vs : Vars)
    (hpre : t ∉ preloadTypes ss) (hvs : Avoid vs t) :
    typedCnt t (runStmts env brief ss vs) = if env.stream t = .ok then staticTyped t ss else 0 := by
  induction ss generalizing vs with
  | nil => simp [runStmts, staticTyped]
  | cons s rest ih =>
    cases s with
    | header => simp [runStmts, typedCnt_cons, ih vs (by simpa [preloadTypes] using hpre) hvs, staticTyped]
    | preload v t' =>
      have hne : t' ≠ t := by intro h; apply hpre; simp [preloadTypes, h]
      have hpre' : t ∉ preloadTypes rest := by intro h; apply hpre; simp [preloadTypes, h]
      simp only [runStmts, staticTyped]
      apply ih _ hpre'
      apply avoid_set hvs
      split
      · simpa using hne
      · simp
    | unify v a va e b vb =>
      simp only [runStmts, staticTyped]
      exact ih _ (by simpa [preloadTypes] using hpre) (avoid_unify hvs _ _ _ _ _ _)
    | stream t' args =>
      have hpre' : t ∉ preloadTypes rest := by simpa [preloadTypes] using hpre
      simp only [runStmts, typedCnt_append, ih vs hpre' hvs, staticTyped]
      by_cases ht : t' = t
      · subst ht
        cases h : env.stream t' <;> simp [typedCnt_cons]
      · cases h : env.stream t' <;> cases h2 : env.stream t <;> simp [typedCnt_cons, ht]
    | var v args =>
      have hpre' : t ∉ preloadTypes rest := by simpa [preloadTypes] using hpre
      have hg := get_of_avoid hvs v
      simp only [runStmts, typedCnt_append, staticTyped]
      rw [ih _ hpre' (avoid_set hvs _ _ (by simp))]
      split
      · rename_i x hx
        have : x ≠ t := by intro h; apply hg; rw [hx, h]
        simp [typedCnt_cons, this]
      · simp
    | streamOrNote t' =>
      have hpre' : t ∉ preloadTypes rest := by simpa [preloadTypes] using hpre
      simp only [runStmts, typedCnt_append, ih vs hpre' hvs, staticTyped]
      by_cases ht : t' = t
      · subst ht
        cases h : env.stream t' <;> simp [typedCnt_cons]
      · cases h : env.stream t' <;> cases h2 : env.stream t <;> simp [typedCnt_cons, ht]
    | raw n =>
      have hpre' : t ∉ preloadTypes rest := by simpa [preloadTypes] using hpre
      simp only [runStmts, typedCnt_append, ih vs hpre' hvs, staticTyped]
      split <;> simp [typedCnt_cons]

/-- the sections of type `t` depend on the dump only through whether `get_stream::<t>()` and the streams
    that are loaded into variables are `Ok` -/
theorem typedCnt_run_congr (e1 e2 : DumpEnv) (brief : Bool) (t : String) (ss : List Stmt) (vs : Vars)
    (ht : e1.stream t = .ok ↔ e2.stream t = .ok)
    (hp : ∀ t' ∈ preloadTypes ss, (e1.stream t' = .ok ↔ e2.stream t' = .ok)) :
    typedCnt t (runStmts e1 brief ss vs) = typedCnt t (runStmts e2 brief ss vs) := by
  induction ss generalizing vs with
  | nil => rfl
  | cons s rest ih =>
    cases s with
    | header => simp [runStmts, typedCnt_cons, ih vs (by simpa [preloadTypes] using hp)]
    | preload v t' =>
      have h1 : (e1.stream t' = .ok ↔ e2.stream t' = .ok) := hp t' (by simp [preloadTypes])
      simp only [runStmts, h1]
      exact ih _ (fun x hx => hp x (by simp [preloadTypes, hx]))
    | unify v a va e b vb =>
      simp only [runStmts]
      exact ih _ (by simpa [preloadTypes] using hp)
    | stream t' args =>
      simp only [runStmts, typedCnt_append, ih vs (by simpa [preloadTypes] using hp)]
      congr 1
      by_cases htt : t' = t
      · subst htt
        by_cases h : e1.stream t' = .ok
        · simp [h, ht.mp h, typedCnt_cons]
        · have h2 : ¬ e2.stream t' = .ok := fun h2 => h (ht.mpr h2)
          simp [h, h2]
      · by_cases h : e1.stream t' = .ok <;> by_cases h2 : e2.stream t' = .ok <;> simp [h, h2, typedCnt_cons, htt]
    | var v args =>
      simp only [runStmts, typedCnt_append, ih _ (by simpa [preloadTypes] using hp)]
    | streamOrNote t' =>
      simp only [runStmts, typedCnt_append, ih vs (by simpa [preloadTypes] using hp)]
      congr 1
      by_cases htt : t' = t
      · subst htt
        cases h1 : e1.stream t' <;> cases h2 : e2.stream t' <;> simp_all [typedCnt_cons]
      · cases h1 : e1.stream t' <;> cases h2 : e2.stream t' <;> simp [typedCnt_cons, htt]
    | raw n =>
      simp only [runStmts, typedCnt_append, ih vs (by simpa [preloadTypes] using hp)]
      congr 1
      cases h : e1.raw n <;> cases h2 : e2.raw n <;> simp [typedCnt_cons]

/-- … and the same for any property `Q` of sections of type `t` (e.g. "was printed with these arguments") -/
theorem countQ_run_congr (Q : Sec → Bool) (e1 e2 : DumpEnv) (brief : Bool) (t : String) (ss : List Stmt) (vs : Vars)
    (hQ : ∀ s, Q s = true → s.what = .typed t)
    (ht : e1.stream t = .ok ↔ e2.stream t = .ok)
    (hp : ∀ t' ∈ preloadTypes ss, (e1.stream t' = .ok ↔ e2.stream t' = .ok)) :
    (runStmts e1 brief ss vs).countP Q = (runStmts e2 brief ss vs).countP Q := by
  have hne : ∀ (w : What) (a : List (String × String)), w ≠ .typed t → Q ⟨w, a⟩ = false := by
    intro w a hw
    cases hq : Q ⟨w, a⟩ with
    | false => rfl
    | true => exact absurd (hQ _ hq) hw
  induction ss generalizing vs with
  | nil => rfl
  | cons s rest ih =>
    cases s with
    | header =>
      simp only [runStmts, List.countP_cons, ih vs (by simpa [preloadTypes] using hp)]
    | preload v t' =>
      have h1 : (e1.stream t' = .ok ↔ e2.stream t' = .ok) := hp t' (by simp [preloadTypes])
      simp only [runStmts, h1]
      exact ih _ (fun x hx => hp x (by simp [preloadTypes, hx]))
    | unify v a va e b vb =>
      simp only [runStmts]
      exact ih _ (by simpa [preloadTypes] using hp)
    | stream t' args =>
      simp only [runStmts, List.countP_append, ih vs (by simpa [preloadTypes] using hp)]
      congr 1
      by_cases htt : t' = t
      · subst htt
        by_cases h : e1.stream t' = .ok
        · simp [h, ht.mp h]
        · have h2 : ¬ e2.stream t' = .ok := fun h2 => h (ht.mpr h2)
          simp [h, h2]
      · have hq := hne (.typed t') (args.map (resolveArg vs brief)) (by simpa using htt)
        by_cases h : e1.stream t' = .ok <;> by_cases h2 : e2.stream t' = .ok <;> simp [h, h2, List.countP_cons, hq]
    | var v args =>
      simp only [runStmts, List.countP_append, ih _ (by simpa [preloadTypes] using hp)]
    | streamOrNote t' =>
      simp only [runStmts, List.countP_append, ih vs (by simpa [preloadTypes] using hp)]
      congr 1
      have hn := hne (.note t') [] (by simp)
      by_cases htt : t' = t
      · subst htt
        cases h1 : e1.stream t' <;> cases h2 : e2.stream t' <;> simp_all [List.countP_cons]
      · have hq := hne (.typed t') [] (by simpa using htt)
        cases h1 : e1.stream t' <;> cases h2 : e2.stream t' <;> simp [List.countP_cons, hq, hn]
    | raw n =>
      simp only [runStmts, List.countP_append, ih vs (by simpa [preloadTypes] using hp)]
      congr 1
      have hq := hne (.raw n) [] (by simp)
      cases h : e1.raw n <;> cases h2 : e2.raw n <;> simp [List.countP_cons, hq]

/-- `--brief` neither removes nor adds a section -/
theorem what_run_brief (env : DumpEnv) (b1 b2 : Bool) (ss : List Stmt) (vs : Vars) :
    (runStmts env b1 ss vs).map (·.what) = (runStmts env b2 ss vs).map (·.what) := by
  induction ss generalizing vs with
  | nil => rfl
  | cons s rest ih =>
    cases s with
    | header => simp [runStmts, ih vs]
    | preload v t => simp only [runStmts]; exact ih _
    | unify v a va e b vb => simp only [runStmts]; exact ih _
    | stream t args =>
      simp only [runStmts, List.map_append, ih vs]
      congr 1
      split <;> simp
    | var v args =>
      simp only [runStmts, List.map_append, ih _]
      congr 1
      split <;> simp
    | streamOrNote t => simp only [runStmts, List.map_append, ih vs]
    | raw n => simp only [runStmts, List.map_append, ih vs]

/-! ### which variable can hold which stream type (the Rust types of the variables) -/

/-- every variable holds only stream types from `allowed v` -/
def VarsTyped (allowed : String → List String) (vs : Vars) : Prop :=
  ∀ p ∈ vs, ∀ x, p.2 = some x → x ∈ allowed p.1

/-- static check: preloads and the unified-memory selection respect `allowed` -/
def respects (allowed : String → List String) : List Stmt → Bool
  | [] => true
  | .preload v t :: rest => allowed v |>.contains t |> (· && respects allowed rest)
  | .unify v _ va _ _ vb :: rest =>
    (match variantType va, variantType vb with
     | some ta, some tb => (allowed v).contains ta && (allowed v).contains tb
     | _, _ => false) && respects allowed rest
  | _ :: rest => respects allowed rest

theorem varsTyped_set {allowed : String → List String} {vs : Vars} (h : VarsTyped allowed vs) (v : String)
    (x : Option String) (hx : ∀ y, x = some y → y ∈ allowed v) : VarsTyped allowed (vs.set v x) := by
  intro p hp y hy
  simp only [Vars.set, List.mem_cons, List.mem_filter] at hp
  rcases hp with rfl | ⟨hp, _⟩
  · exact hx y hy
  · exact h p hp y hy

theorem get_typed {allowed : String → List String} {vs : Vars} (h : VarsTyped allowed vs) (v x : String)
    (hg : vs.get v = some x) : x ∈ allowed v := by
  unfold Vars.get at hg
  split at hg
  · rename_i q y hf
    have hm := List.mem_of_find?_eq_some hf
    have hk := List.find?_some hf
    simp only [beq_iff_eq] at hk
    have := h _ hm x hg
    rw [← hk]; exact this
  · cases hg

theorem varsTyped_unify {allowed : String → List String} {vs : Vars} (h : VarsTyped allowed vs)
    (v a va : String) (e : Bool) (b vb : String) (ta tb : String)
    (hta : variantType va = some ta) (htb : variantType vb = some tb)
    (ha : ta ∈ allowed v) (hb : tb ∈ allowed v) :
    VarsTyped allowed (unify vs v a va e b vb) := by
  unfold unify
  have hxa : ∀ y, (if vs.get a == variantType va then vs.get a else none) = some y → y ∈ allowed v := by
    intro y hy
    split at hy
    · rename_i hc
      rw [hy, hta] at hc
      simp only [beq_iff_eq, Option.some.injEq] at hc
      rw [hc]; exact ha
    · cases hy
  have hxb : ∀ y, (if vs.get b == variantType vb then vs.get b else none) = some y → y ∈ allowed v := by
    intro y hy
    split at hy
    · rename_i hc
      rw [hy, htb] at hc
      simp only [beq_iff_eq, Option.some.injEq] at hc
      rw [hc]; exact hb
    · cases hy
  generalize (if vs.get a == variantType va then vs.get a else none) = xa at hxa ⊢
  generalize (if vs.get b == variantType vb then vs.get b else none) = xb at hxb ⊢
  cases xa with
  | none => exact varsTyped_set (varsTyped_set h _ _ (by simp)) _ _ hxb
  | some x =>
    simp only
    split
    · exact varsTyped_set (varsTyped_set (varsTyped_set h _ _ (by simp)) _ _ (by simp)) _ _ hxa
    · exact varsTyped_set (varsTyped_set h _ _ (by simp)) _ _ hxa

/-- static check: a statement that passes `brief` prints only stream types from `bt` -/
def briefOnly (allowed : String → List String) (bt : List String) : List Stmt → Bool
  | [] => true
  | .stream t args :: rest => (!args.contains "brief" || bt.contains t) && briefOnly allowed bt rest
  | .var v args :: rest => (!args.contains "brief" || (allowed v).all bt.contains) && briefOnly allowed bt rest
  | _ :: rest => briefOnly allowed bt rest

def hasBrief (s : Sec) : Bool := s.args.any (fun p => p.1 == "brief")

theorem resolveArg_fst_brief (vs : Vars) (brief : Bool) (a : String) :
    ((resolveArg vs brief a).1 == "brief") = (a == "brief") := by
  unfold resolveArg
  by_cases h : a = "brief"
  · simp [h]
  · have : (a == "brief") = false := by simpa using h
    simp [this]

theorem hasBrief_mk (w : What) (vs : Vars) (brief : Bool) (args : List String) :
    hasBrief ⟨w, args.map (resolveArg vs brief)⟩ = args.contains "brief" := by
  unfold hasBrief
  induction args with
  | nil => rfl
  | cons a rest ih =>
    simp only [List.map_cons, List.any_cons, resolveArg_fst_brief, List.contains_cons] at ih ⊢
    rw [ih]
    cases h : (a == "brief") <;> simp [h, BEq.comm]

/-- the `brief` flag reaches only sections whose stream type is in `bt` -/
theorem brief_sections (allowed : String → List String) (bt : List String) (env : DumpEnv) (brief : Bool)
    (ss : List Stmt) (vs : Vars) (hv : VarsTyped allowed vs)
    (hr : respects allowed ss = true) (hb : briefOnly allowed bt ss = true) :
    ∀ s ∈ runStmts env brief ss vs, hasBrief s = true → ∃ t ∈ bt, s.what = .typed t := by
  induction ss generalizing vs with
  | nil => intro s hs; cases hs
  | cons st rest ih =>
    cases st with
    | header =>
      intro s hs hbs
      simp only [runStmts, List.mem_cons] at hs
      rcases hs with rfl | hs
      · simp [hasBrief] at hbs
      · exact ih vs hv (by simpa [respects] using hr) (by simpa [briefOnly] using hb) s hs hbs
    | preload v t =>
      simp only [respects, Bool.and_eq_true, List.contains_eq_mem, decide_eq_true_eq] at hr
      simp only [runStmts]
      apply ih _ _ hr.2 (by simpa [briefOnly] using hb)
      apply varsTyped_set hv
      intro y hy
      split at hy
      · cases hy; exact hr.1
      · cases hy
    | unify v a va e b vb =>
      simp only [respects, Bool.and_eq_true] at hr
      simp only [runStmts]
      apply ih _ _ hr.2 (by simpa [briefOnly] using hb)
      obtain ⟨h1, _⟩ := hr
      split at h1
      · rename_i ta tb hta htb
        simp only [Bool.and_eq_true, List.contains_eq_mem, decide_eq_true_eq] at h1
        exact varsTyped_unify hv v a va e b vb ta tb hta htb h1.1 h1.2
      · cases h1
    | stream t args =>
      simp only [briefOnly, Bool.and_eq_true, Bool.or_eq_true, Bool.not_eq_true', List.contains_eq_mem,
        decide_eq_true_eq] at hb
      intro s hs hbs
      simp only [runStmts, List.mem_append] at hs
      rcases hs with hs | hs
      · split at hs
        · simp only [List.mem_singleton] at hs
          subst hs
          rw [hasBrief_mk] at hbs
          rcases hb.1 with h | h
          · simp only [List.contains_eq_mem] at hbs; rw [hbs] at h; cases h
          · exact ⟨t, h, rfl⟩
        · cases hs
      · exact ih vs hv (by simpa [respects] using hr) hb.2 s hs hbs
    | var v args =>
      simp only [briefOnly, Bool.and_eq_true, Bool.or_eq_true, Bool.not_eq_true', List.contains_eq_mem,
        List.all_eq_true, decide_eq_true_eq] at hb
      intro s hs hbs
      simp only [runStmts, List.mem_append] at hs
      rcases hs with hs | hs
      · split at hs
        · rename_i t hg
          simp only [List.mem_singleton] at hs
          subst hs
          rw [hasBrief_mk] at hbs
          rcases hb.1 with h | h
          · simp only [List.contains_eq_mem] at hbs; rw [hbs] at h; cases h
          · exact ⟨t, h t (get_typed hv v t hg), rfl⟩
        · cases hs
      · exact ih _ (varsTyped_set hv _ _ (by simp)) (by simpa [respects] using hr) hb.2 s hs hbs
    | streamOrNote t =>
      intro s hs hbs
      simp only [runStmts, List.mem_append] at hs
      rcases hs with hs | hs
      · split at hs
        · simp only [List.mem_singleton] at hs; subst hs; simp [hasBrief] at hbs
        · cases hs
        · simp only [List.mem_singleton] at hs; subst hs; simp [hasBrief] at hbs
      · exact ih vs hv (by simpa [respects] using hr) (by simpa [briefOnly] using hb) s hs hbs
    | raw n =>
      intro s hs hbs
      simp only [runStmts, List.mem_append] at hs
      rcases hs with hs | hs
      · split at hs
        · simp only [List.mem_singleton] at hs; subst hs; simp [hasBrief] at hbs
        · cases hs
      · exact ih vs hv (by simpa [respects] using hr) (by simpa [briefOnly] using hb) s hs hbs

end MdModel.Cli
