/-
  MdProofs.Lemmas.Bytes — the proof kit for the reader monad `MdModel.Dump.M`:
  `Safe B m` = "no panic outcome, and every logged allocation is at most `B` bytes", with the
  rules for `pure`/`bind`/`fail`/`alloc`/`catch'` and for the checked primitives; bounds on what
  `readScalar`/`readFields` return.
-/
import MdModel.Dump
namespace MdModel.Dump
open MdModel

/-- the panic outcome is not reached -/
def NoPanic {α : Type} (m : M α) : Prop := ∀ s, m.res ≠ .panic s

/-- every logged allocation asks for at most `B` bytes -/
def AllocsLe {α : Type} (B : Nat) (m : M α) : Prop := ∀ a ∈ m.allocs, a.bytes ≤ B

/-- no panic, and allocations bounded by `B` -/
def Safe {α : Type} (B : Nat) (m : M α) : Prop := NoPanic m ∧ AllocsLe B m

theorem M.bind_def {α β : Type} (x : M α) (f : α → M β) : x >>= f = M.bind' x f := rfl
theorem M.pure_def {α : Type} (a : α) : (pure a : M α) = M.pure' a := rfl

theorem safe_pure {α : Type} {B : Nat} (a : α) : Safe B (pure a : M α) := by
  constructor
  · intro s h; cases h
  · intro a h; cases h

theorem safe_fail {α : Type} {B : Nat} (e : Err) : Safe B (M.fail e : M α) := by
  constructor
  · intro s h; cases h
  · intro a h; cases h

theorem safe_alloc {B n sz : Nat} {ex : Bool} (h : n * sz ≤ B) : Safe B (M.alloc n sz ex) := by
  constructor
  · intro s h; cases h
  · intro a ha
    simp only [M.alloc, List.mem_singleton] at ha
    subst ha; exact h

theorem safe_bind {α β : Type} {B : Nat} {x : M α} {f : α → M β}
    (hx : Safe B x) (hf : ∀ a, x.res = .ok a → Safe B (f a)) : Safe B (x >>= f) := by
  rw [M.bind_def]
  unfold M.bind'
  cases hres : x.res with
  | ok a =>
    have h := hf a hres
    constructor
    · intro s; exact h.1 s
    · intro al hal
      simp only [List.mem_append] at hal
      cases hal with
      | inl h1 => exact hx.2 al h1
      | inr h2 => exact h.2 al h2
  | err e =>
    constructor
    · intro s h; cases h
    · intro al hal; exact hx.2 al hal
  | panic s =>
    exact absurd hres (hx.1 s)

theorem safe_catch {α : Type} {B : Nat} {x : M α} (hx : Safe B x) : Safe B (M.catch' x) := by
  unfold M.catch'
  cases hres : x.res with
  | ok a => exact ⟨fun s h => (by cases h), fun al hal => hx.2 al hal⟩
  | err e => exact ⟨fun s h => (by cases h), fun al hal => hx.2 al hal⟩
  | panic s => exact absurd hres (hx.1 s)

theorem safe_ofOption {α : Type} {B : Nat} (e : Err) (o : Option α) : Safe B (M.ofOption e o) := by
  cases o with
  | none => exact safe_fail e
  | some a => exact safe_pure a

theorem safe_ofExcept {α : Type} {B : Nat} (o : Except Err α) : Safe B (M.ofExcept o) := by
  cases o with
  | error e => exact safe_fail e
  | ok a => exact safe_pure a

/-- inversion of a successful bind -/
theorem bind_ok {α β : Type} {x : M α} {f : α → M β} {v : β} (h : (x >>= f).res = .ok v) :
    ∃ a, x.res = .ok a ∧ (f a).res = .ok v := by
  rw [M.bind_def] at h
  unfold M.bind' at h
  cases hres : x.res with
  | ok a => rw [hres] at h; exact ⟨a, rfl, h⟩
  | err e => rw [hres] at h; cases h
  | panic s => rw [hres] at h; cases h

theorem pure_ok {α : Type} {a v : α} (h : (pure a : M α).res = .ok v) : v = a := by
  cases h; rfl

theorem ofOption_ok {α : Type} {e : Err} {o : Option α} {v : α} (h : (M.ofOption e o).res = .ok v) : o = some v := by
  cases o with
  | none => cases h
  | some a => cases h; rfl

theorem ofExcept_ok {α : Type} {o : Except Err α} {v : α} (h : (M.ofExcept o).res = .ok v) : o = .ok v := by
  cases o with
  | error e => cases h
  | ok a => cases h; rfl

theorem Safe.mono {α : Type} {B B' : Nat} {m : M α} (h : Safe B m) (hle : B ≤ B') : Safe B' m :=
  ⟨h.1, fun a ha => Nat.le_trans (h.2 a ha) hle⟩

/-! ### checked primitives -/

theorem usizeAdd_safe {B : Nat} (site : String) {a b : Nat} (h : a + b ≤ USIZE_MAX) :
    Safe B (usizeAdd site a b) := by
  unfold usizeAdd; rw [if_pos h]; exact safe_pure _

theorem usizeAdd_ok {site : String} {a b v : Nat} (h : (usizeAdd site a b).res = .ok v) : v = a + b := by
  unfold usizeAdd at h
  split at h
  · cases h; rfl
  · cases h

theorem usizeSub_safe {B : Nat} (site : String) {a b : Nat} (h : b ≤ a) : Safe B (usizeSub site a b) := by
  unfold usizeSub; rw [if_pos h]; exact safe_pure _

theorem usizeSub_ok {site : String} {a b v : Nat} (h : (usizeSub site a b).res = .ok v) : v = a - b ∧ b ≤ a := by
  unfold usizeSub at h
  split at h
  · cases h; exact ⟨rfl, by assumption⟩
  · cases h

theorem sliceRange_safe {B : Nat} (site : String) {b : Bytes} {lo hi : Nat} (h : lo ≤ hi ∧ hi ≤ b.size) :
    Safe B (sliceRange site b lo hi) := by
  unfold sliceRange; rw [if_pos h]; exact safe_pure _

theorem sliceRange_ok {site : String} {b s : Bytes} {lo hi : Nat} (h : (sliceRange site b lo hi).res = .ok s) :
    s = b.extract lo hi ∧ lo ≤ hi ∧ hi ≤ b.size := by
  unfold sliceRange at h
  split at h
  · cases h; exact ⟨rfl, by assumption⟩
  · cases h

theorem checkedAdd_some {a b v : Nat} (h : checkedAdd a b = some v) : v = a + b ∧ a + b ≤ U64MAX := by
  unfold checkedAdd at h
  split at h
  · cases h; exact ⟨rfl, by assumption⟩
  · cases h

theorem checkedMul_some {a b v : Nat} (h : checkedMul a b = some v) : v = a * b ∧ a * b ≤ U64MAX := by
  unfold checkedMul at h
  split at h
  · cases h; exact ⟨rfl, by assumption⟩
  · cases h

theorem checkedSub_some {a b v : Nat} (h : checkedSub a b = some v) : v = a - b ∧ b ≤ a := by
  unfold checkedSub at h
  split at h
  · cases h; exact ⟨rfl, by assumption⟩
  · cases h

/-! ### scalars and structs -/

theorem leNat_lt (l : List UInt8) : leNat l < 256 ^ l.length := by
  induction l with
  | nil => simp [leNat]
  | cons x xs ih =>
    have hx : x.toNat < 256 := x.toNat_lt
    simp only [leNat, List.length_cons, Nat.pow_succ]
    omega

theorem decodeNat_lt (e : Endian) (l : List UInt8) : decodeNat e l < 256 ^ l.length := by
  cases e with
  | little => exact leNat_lt l
  | big =>
    have := leNat_lt l.reverse
    simpa [decodeNat] using this

/-- a successful scalar read lies inside the buffer -/
theorem readScalar_some {b : Bytes} {off w v : Nat} {e : Endian} (h : readScalar b off w e = some v) :
    off + w ≤ b.size := by
  unfold readScalar at h
  split at h
  · cases h
  · split at h
    · cases h
    · omega

/-- ... and is smaller than `256 ^ w` -/
theorem readScalar_lt {b : Bytes} {off w v : Nat} {e : Endian} (h : readScalar b off w e = some v) :
    v < 256 ^ w := by
  have hb := readScalar_some h
  unfold readScalar at h
  split at h
  · cases h
  · split at h
    · cases h
    · cases h
      have := decodeNat_lt e (b.extract off (off + w)).toList
      have hl : (b.extract off (off + w)).toList.length = w := by
        simp; omega
      rw [hl] at this
      exact this

theorem readU32_some {b : Bytes} {off v : Nat} {e : Endian} (h : readU32 b off e = some v) :
    off + 4 ≤ b.size ∧ v < 4294967296 := by
  unfold readU32 at h
  exact ⟨readScalar_some h, by have := readScalar_lt h; simpa using this⟩

theorem readU64_some {b : Bytes} {off v : Nat} {e : Endian} (h : readU64 b off e = some v) :
    off + 8 ≤ b.size ∧ v ≤ U64MAX := by
  unfold readU64 at h
  refine ⟨readScalar_some h, ?_⟩
  have := readScalar_lt h
  have h2 : (256 : Nat) ^ 8 = 18446744073709551616 := by decide
  rw [h2] at this
  unfold U64MAX; omega

/-- a successful struct read lies inside the buffer (for a non-empty layout) -/
theorem readFields_some {l : Gen.Layouts.Layout} {b : Bytes} {off : Nat} {e : Endian} {vs : List Nat}
    (h : readFields l b off e = some vs) : l = [] ∨ off + Layout.size l ≤ b.size := by
  induction l generalizing off vs with
  | nil => exact .inl rfl
  | cons f rest ih =>
    right
    obtain ⟨n, w⟩ := f
    simp only [readFields] at h
    split at h
    · cases h
    · rename_i v hv
      split at h
      · cases h
      · rename_i vs' hvs
        have h1 := readScalar_some hv
        have hsz : Layout.size ((n, w) :: rest) = w + Layout.size rest := by
          simp [Layout.size]
        rw [hsz]
        cases ih hvs with
        | inl hnil => subst hnil; simp [Layout.size]; omega
        | inr hle => omega

theorem readFields_length {l : Gen.Layouts.Layout} {b : Bytes} {off : Nat} {e : Endian} {vs : List Nat}
    (h : readFields l b off e = some vs) : vs.length = l.length := by
  induction l generalizing off vs with
  | nil => simp [readFields] at h; subst h; rfl
  | cons f rest ih =>
    obtain ⟨n, w⟩ := f
    simp only [readFields] at h
    split at h
    · cases h
    · split at h
      · cases h
      · rename_i vs' hvs
        cases h
        simp [ih hvs]

/-! ### counted loops -/

theorem safe_loopGo {σ : Type} {B : Nat} (step : σ → Nat → M σ) (h : ∀ s i, Safe B (step s i)) :
    ∀ (todo i : Nat) (s : σ) (rev : List Alloc), (∀ a ∈ rev, a.bytes ≤ B) → Safe B (M.loopGo step todo i s rev) := by
  intro todo
  induction todo with
  | zero =>
    intro i s rev hrev
    refine ⟨fun p hp => (by simp [M.loopGo] at hp), fun a ha => ?_⟩
    simp [M.loopGo] at ha
    exact hrev a ha
  | succ t ih =>
    intro i s rev hrev
    have hs := h s i
    have hrev' : ∀ a ∈ (step s i).allocs.reverse ++ rev, a.bytes ≤ B := by
      intro a ha
      cases List.mem_append.mp ha with
      | inl h1 => exact hs.2 a (List.mem_reverse.mp h1)
      | inr h2 => exact hrev a h2
    unfold M.loopGo
    dsimp only
    split
    · exact ih _ _ _ hrev'
    · refine ⟨fun p hp => (by cases hp), fun a ha => ?_⟩
      exact hrev' a (List.mem_reverse.mp ha)
    · rename_i p hres
      exact absurd hres (hs.1 p)

theorem safe_loop {σ : Type} {B : Nat} (n : Nat) (init : σ) (step : σ → Nat → M σ) (h : ∀ s i, Safe B (step s i)) :
    Safe B (M.loop n init step) :=
  safe_loopGo step h n 0 init [] (fun a ha => by cases ha)

end MdModel.Dump
