/-
  Helper lemmas for C06: the caller-register map, the loop over the remaining rules, sorting.
-/
import MdProofs.Lemmas.Cfi
namespace MdModel.Cfi
open MdModel

/-! ## name-keyed association lists -/

theorem lookupName_cons {α} (l : List (Name × α)) (k n : Name) (v : α) :
    lookupName ((k, v) :: l) n = if k = n then some v else lookupName l n := by
  unfold lookupName
  by_cases h : k = n <;> simp [h]

theorem lookupName_erase_same (l : List (Name × UInt64)) (n : Name) :
    lookupName (eraseName l n) n = none := by
  unfold lookupName eraseName
  induction l with
  | nil => rfl
  | cons p l ih =>
    by_cases h : p.1 = n
    · simp only [List.filter_cons, h, ne_eq, not_true_eq_false, decide_false, Bool.false_eq_true, if_false]
      exact ih
    · simp only [List.filter_cons, h, ne_eq, not_false_eq_true, decide_true, if_true,
        List.find?_cons, decide_false]
      exact ih

theorem lookupName_erase_ne (l : List (Name × UInt64)) (n r : Name) (h : n ≠ r) :
    lookupName (eraseName l n) r = lookupName l r := by
  unfold lookupName eraseName
  induction l with
  | nil => rfl
  | cons p l ih =>
    by_cases hp : p.1 = n
    · have hpr : ¬ p.1 = r := by rw [hp]; exact h
      simp only [List.filter_cons, hp, ne_eq, not_true_eq_false, decide_false, Bool.false_eq_true,
        if_false, List.find?_cons]
      rw [ih]; simp [h]
    · simp only [List.filter_cons, hp, ne_eq, not_false_eq_true, decide_true, if_true,
        List.find?_cons]
      by_cases hr : p.1 = r
      · simp [hr]
      · simp only [hr, decide_false]; exact ih

/-! ## one rule applied to the caller: effect on a single register -/

/-- How the value of caller register `r` (as `Caller.get` sees it) changes when the rule
    `p = (label, expr)` is processed: untouched unless the label denotes `r`; then the rule's
    value if it evaluates and fits the register, unknown otherwise. -/
def upd (w : Walker) (cfa : UInt64) (r : Name) (cur : Option UInt64) (p : Name × Expr) : Option UInt64 :=
  if w.memo p.1 = some r then
    match evalCfi w.env (some cfa) p.2 with
    | some v => if w.fits v then some v else none
    | none => none
  else cur

theorem get_clearReg (w : Walker) (c : Caller) (n r : Name) :
    lookupName (w.clearReg c n).regs r = if w.memo n = some r then none else lookupName c.regs r := by
  simp only [Walker.clearReg]
  cases hm : w.memo n with
  | none => simp
  | some m =>
    by_cases hmr : m = r
    · subst hmr; simp [lookupName_erase_same]
    · simp [hmr, lookupName_erase_ne _ _ _ hmr]

theorem clearReg_cfa_ra (w : Walker) (c : Caller) (n : Name) :
    (w.clearReg c n).cfa = c.cfa ∧ (w.clearReg c n).ra = c.ra := by
  simp only [Walker.clearReg]
  cases w.memo n <;> simp

theorem get_applyOther (w : Walker) (cfa : UInt64) (c : Caller) (p : Name × Expr) (r : Name) :
    (applyOther w cfa c p).get r = upd w cfa r (c.get r) p := by
  unfold applyOther upd Caller.get
  cases he : evalCfi w.env (some cfa) p.2 with
  | none =>
    simp only [get_clearReg]
  | some v =>
    simp only [Walker.setReg]
    cases hm : w.memo p.1 with
    | none => simp [get_clearReg, hm]
    | some m =>
      by_cases hf : w.fits v = true
      · by_cases hmr : m = r
        · subst hmr; simp [hf, lookupName_cons]
        · simp [hf, hmr, lookupName_cons, lookupName_erase_ne _ _ _ hmr]
      · by_cases hmr : m = r
        · subst hmr; simp [hf, get_clearReg, hm]
        · simp [hf, get_clearReg, hm, hmr]

theorem applyOther_cfa_ra (w : Walker) (cfa : UInt64) (c : Caller) (p : Name × Expr) :
    (applyOther w cfa c p).cfa = c.cfa ∧ (applyOther w cfa c p).ra = c.ra := by
  unfold applyOther
  cases evalCfi w.env (some cfa) p.2 with
  | none => exact clearReg_cfa_ra w c p.1
  | some v =>
    simp only [Walker.setReg]
    cases w.memo p.1 with
    | none => exact clearReg_cfa_ra w c p.1
    | some m =>
      by_cases hf : w.fits v = true
      · simp [hf]
      · simp only [hf, Bool.false_eq_true, if_false]; exact clearReg_cfa_ra w c p.1

theorem get_foldl_applyOther (w : Walker) (cfa : UInt64) (l : List (Name × Expr)) (c : Caller) (r : Name) :
    (l.foldl (applyOther w cfa) c).get r = l.foldl (upd w cfa r) (c.get r) := by
  induction l generalizing c with
  | nil => rfl
  | cons p l ih => simp only [List.foldl_cons]; rw [ih, get_applyOther]

theorem foldl_applyOther_cfa_ra (w : Walker) (cfa : UInt64) (l : List (Name × Expr)) (c : Caller) :
    (l.foldl (applyOther w cfa) c).cfa = c.cfa ∧ (l.foldl (applyOther w cfa) c).ra = c.ra := by
  induction l generalizing c with
  | nil => exact ⟨rfl, rfl⟩
  | cons p l ih =>
    simp only [List.foldl_cons]
    have := applyOther_cfa_ra w cfa c p
    rw [(ih _).1, (ih _).2, this.1, this.2]; exact ⟨rfl, rfl⟩

theorem upd_of_not_memo (w : Walker) (cfa : UInt64) (r : Name) (cur : Option UInt64) (p : Name × Expr)
    (h : w.memo p.1 ≠ some r) : upd w cfa r cur p = cur := by
  simp [upd, h]

theorem foldl_upd_of_not_memo (w : Walker) (cfa : UInt64) (r : Name) (l : List (Name × Expr))
    (cur : Option UInt64) (h : ∀ q ∈ l, w.memo q.1 ≠ some r) : l.foldl (upd w cfa r) cur = cur := by
  induction l generalizing cur with
  | nil => rfl
  | cons p l ih =>
    simp only [List.foldl_cons]
    rw [upd_of_not_memo _ _ _ _ _ (h p List.mem_cons_self)]
    exact ih _ (fun q hq => h q (List.mem_cons_of_mem _ hq))

theorem upd_idem (w : Walker) (cfa : UInt64) (r : Name) (cur : Option UInt64) (p : Name × Expr) :
    upd w cfa r (upd w cfa r cur p) p = upd w cfa r cur p := by
  unfold upd
  by_cases hm : w.memo p.1 = some r
  · simp only [hm, if_true]
  · simp [hm]

/-- If `p` is the only rule of `l` whose label denotes `r`, folding `upd` over `l` is `upd` at `p`. -/
theorem foldl_upd_unique (w : Walker) (cfa : UInt64) (r : Name) (p : Name × Expr) (l : List (Name × Expr))
    (cur : Option UInt64) (hp : p ∈ l) (hmemo : w.memo p.1 = some r)
    (huniq : ∀ q ∈ l, w.memo q.1 = some r → q = p) :
    l.foldl (upd w cfa r) cur = upd w cfa r cur p := by
  induction l generalizing cur with
  | nil => cases hp
  | cons q l ih =>
    simp only [List.foldl_cons]
    have huniq' : ∀ q' ∈ l, w.memo q'.1 = some r → q' = p :=
      fun q' hq' => huniq q' (List.mem_cons_of_mem _ hq')
    by_cases hq : w.memo q.1 = some r
    · have hqp : q = p := huniq q List.mem_cons_self hq
      subst hqp
      by_cases hin : q ∈ l
      · rw [ih _ hin huniq', upd_idem]
      · apply foldl_upd_of_not_memo
        intro q' hq' hm
        exact hin (huniq' q' hq' hm ▸ hq')
    · rw [upd_of_not_memo _ _ _ _ _ hq]
      have hin : p ∈ l := by
        rcases List.mem_cons.mp hp with rfl | h
        · exact absurd hmemo hq
        · exact h
      exact ih _ hin huniq'

theorem upd_comm (w : Walker) (cfa : UInt64) (r : Name) (z : Option UInt64) (x y : Name × Expr)
    (h : w.memo x.1 = some r → w.memo y.1 = some r → x = y) :
    upd w cfa r (upd w cfa r z x) y = upd w cfa r (upd w cfa r z y) x := by
  by_cases hx : w.memo x.1 = some r
  · by_cases hy : w.memo y.1 = some r
    · rw [h hx hy]
    · rw [upd_of_not_memo _ _ _ _ y hy, upd_of_not_memo _ _ _ _ y hy]
  · rw [upd_of_not_memo _ _ _ _ x hx, upd_of_not_memo _ _ _ _ x hx]

/-! ## insertion sort -/

theorem insertBy_perm {α} (le : α → α → Bool) (x : α) (l : List α) : (insertBy le x l).Perm (x :: l) := by
  induction l with
  | nil => exact List.Perm.refl _
  | cons y ys ih =>
    unfold insertBy
    by_cases h : le x y = true
    · simp [h]
    · simp only [h, Bool.false_eq_true, if_false]
      exact (List.Perm.cons y ih).trans (List.Perm.swap x y ys)

theorem sortBy_perm {α} (le : α → α → Bool) (l : List α) : (sortBy le l).Perm l := by
  induction l with
  | nil => exact List.Perm.refl _
  | cons x xs ih =>
    unfold sortBy
    exact (insertBy_perm le x _).trans (List.Perm.cons x ih)

theorem insertBy_pairwise {α} (le : α → α → Bool)
    (total : ∀ a b, le a b = true ∨ le b a = true)
    (trans : ∀ a b c, le a b = true → le b c = true → le a c = true)
    (x : α) (l : List α) (h : l.Pairwise (fun a b => le a b = true)) :
    (insertBy le x l).Pairwise (fun a b => le a b = true) := by
  induction l with
  | nil => simp [insertBy]
  | cons y ys ih =>
    unfold insertBy
    rw [List.pairwise_cons] at h
    by_cases hxy : le x y = true
    · simp only [hxy, if_true]
      rw [List.pairwise_cons]
      refine ⟨?_, List.pairwise_cons.mpr h⟩
      intro b hb
      rcases List.mem_cons.mp hb with rfl | hb
      · exact hxy
      · exact trans _ _ _ hxy (h.1 b hb)
    · simp only [hxy, Bool.false_eq_true, if_false]
      rw [List.pairwise_cons]
      refine ⟨?_, ih h.2⟩
      intro b hb
      have hb' := (insertBy_perm le x ys).mem_iff.mp hb
      rcases List.mem_cons.mp hb' with rfl | hb'
      · rcases total b y with h1 | h1
        · exact absurd h1 hxy
        · exact h1
      · exact h.1 b hb'

theorem sortBy_pairwise {α} (le : α → α → Bool)
    (total : ∀ a b, le a b = true ∨ le b a = true)
    (trans : ∀ a b c, le a b = true → le b c = true → le a c = true)
    (l : List α) : (sortBy le l).Pairwise (fun a b => le a b = true) := by
  induction l with
  | nil => simp [sortBy]
  | cons x xs ih => unfold sortBy; exact insertBy_pairwise le total trans x _ ih

theorem insertBy_map {α β} (le : α → α → Bool) (le' : β → β → Bool) (f : α → β)
    (h : ∀ a b, le' (f a) (f b) = le a b) (x : α) (l : List α) :
    insertBy le' (f x) (l.map f) = (insertBy le x l).map f := by
  induction l with
  | nil => rfl
  | cons y ys ih =>
    simp only [List.map_cons, insertBy, h]
    by_cases hxy : le x y = true
    · simp [hxy]
    · simp [hxy, ih]

theorem sortBy_map {α β} (le : α → α → Bool) (le' : β → β → Bool) (f : α → β)
    (h : ∀ a b, le' (f a) (f b) = le a b) (l : List α) :
    sortBy le' (l.map f) = (sortBy le l).map f := by
  induction l with
  | nil => rfl
  | cons x xs ih => simp only [List.map_cons, sortBy, ih, insertBy_map le le' f h]

/-! ## `str::cmp` on bytes -/

theorem u8_eq_of_not_lt (x y : UInt8) (h1 : ¬ x < y) (h2 : ¬ y < x) : x = y := by
  apply UInt8.toNat_inj.mp
  have a1 : ¬ x.toNat < y.toNat := fun hh => h1 (UInt8.lt_iff_toNat_lt.mpr hh)
  have a2 : ¬ y.toNat < x.toNat := fun hh => h2 (UInt8.lt_iff_toNat_lt.mpr hh)
  omega

theorem bytesLe_refl (a : Bytes) : bytesLe a a = true := by
  induction a with
  | nil => rfl
  | cons x xs ih => simp [bytesLe, ih]

theorem bytesLe_total (a b : Bytes) : bytesLe a b = true ∨ bytesLe b a = true := by
  induction a generalizing b with
  | nil => left; rfl
  | cons x xs ih =>
    cases b with
    | nil => right; rfl
    | cons y ys =>
      simp only [bytesLe]
      by_cases h1 : x < y
      · simp [h1]
      · by_cases h2 : y < x
        · simp [h2]
        · simp only [h1, h2, if_false]; exact ih ys

theorem bytesLe_antisymm (a b : Bytes) (h1 : bytesLe a b = true) (h2 : bytesLe b a = true) : a = b := by
  induction a generalizing b with
  | nil => cases b with
    | nil => rfl
    | cons y ys => simp [bytesLe] at h2
  | cons x xs ih =>
    cases b with
    | nil => simp [bytesLe] at h1
    | cons y ys =>
      simp only [bytesLe] at h1 h2
      by_cases hxy : x < y
      · have : ¬ y < x := by
          intro h; exact absurd (UInt8.lt_trans hxy h) (UInt8.lt_irrefl _)
        simp [hxy, this] at h2
      · by_cases hyx : y < x
        · simp [hxy, hyx] at h1
        · simp only [hxy, hyx, if_false] at h1 h2
          have hxe : x = y := u8_eq_of_not_lt x y hxy hyx
          rw [hxe, ih ys h1 h2]

theorem bytesLe_trans (a b c : Bytes) (h1 : bytesLe a b = true) (h2 : bytesLe b c = true) :
    bytesLe a c = true := by
  induction a generalizing b c with
  | nil => rfl
  | cons x xs ih =>
    cases b with
    | nil => simp [bytesLe] at h1
    | cons y ys =>
      cases c with
      | nil => simp [bytesLe] at h2
      | cons z zs =>
        simp only [bytesLe] at h1 h2 ⊢
        by_cases hxy : x < y
        · by_cases hyz : y < z
          · have : x < z := UInt8.lt_trans hxy hyz
            simp [this]
          · by_cases hzy : z < y
            · simp [hyz, hzy] at h2
            · have hye : y = z := u8_eq_of_not_lt y z hyz hzy
              subst hye; simp [hxy]
        · by_cases hyx : y < x
          · simp [hxy, hyx] at h1
          · have hxe : x = y := u8_eq_of_not_lt x y hxy hyx
            subst hxe
            simp only [hxy, if_false] at h1
            by_cases hxz : x < z
            · simp [hxz]
            · by_cases hzx : z < x
              · simp [hxz, hzx] at h2
              · simp only [hxz, hzx, if_false] at h2 ⊢
                exact ih ys zs h1 h2


/-! ## delta records sorted by (address, text) -/

theorem ruleLe_total (a b : Nat × Bytes) : ruleLe a b = true ∨ ruleLe b a = true := by
  unfold ruleLe
  rcases Nat.lt_trichotomy a.1 b.1 with h | h | h
  · left; simp [h]
  · rcases bytesLe_total a.2 b.2 with hb | hb
    · left; simp [h, hb]
    · right; simp [h, hb]
  · right; simp [h]

theorem ruleLe_trans (a b c : Nat × Bytes) (h1 : ruleLe a b = true) (h2 : ruleLe b c = true) :
    ruleLe a c = true := by
  unfold ruleLe at *
  simp only [Bool.or_eq_true, decide_eq_true_eq, Bool.and_eq_true, beq_iff_eq] at *
  rcases h1 with h1 | ⟨h1, h1'⟩
  · rcases h2 with h2 | ⟨h2, _⟩
    · left; omega
    · left; omega
  · rcases h2 with h2 | ⟨h2, h2'⟩
    · left; omega
    · right; exact ⟨by omega, bytesLe_trans _ _ _ h1' h2'⟩

theorem ruleLe_addr (a b : Nat × Bytes) (h : ruleLe a b = true) : a.1 ≤ b.1 := by
  unfold ruleLe at h
  simp only [Bool.or_eq_true, decide_eq_true_eq, Bool.and_eq_true, beq_iff_eq] at h
  rcases h with h | ⟨h, _⟩ <;> omega

theorem takeWhile_eq_filter_of_sorted (l : List (Nat × Bytes)) (a : Nat)
    (h : l.Pairwise (fun x y => x.1 ≤ y.1)) :
    l.takeWhile (fun r => decide (r.1 ≤ a)) = l.filter (fun r => decide (r.1 ≤ a)) := by
  induction l with
  | nil => rfl
  | cons x l ih =>
    rw [List.pairwise_cons] at h
    by_cases hx : x.1 ≤ a
    · rw [List.takeWhile_cons_of_pos (by simp [hx]), List.filter_cons_of_pos (by simp [hx]), ih h.2]
    · rw [List.takeWhile_cons_of_neg (by simp [hx]), List.filter_cons_of_neg (by simp [hx])]
      symm
      rw [List.filter_eq_nil_iff]
      intro y hy
      have := h.1 y hy
      simp; omega

/-! ## the rule map -/

theorem get_remove_ne (m : RuleMap) (k k' : CfiReg) (h : k ≠ k') : (m.remove k').get k = m.get k := by
  unfold RuleMap.remove RuleMap.get
  induction m with
  | nil => rfl
  | cons p m ih =>
    by_cases hp : p.1 = k'
    · have hk : ¬ p.1 = k := by rw [hp]; exact fun e => h e.symm
      rw [List.filter_cons_of_neg (by simp [hp]), List.find?_cons_of_neg (by simp [hk])]
      exact ih
    · rw [List.filter_cons_of_pos (by simp [hp])]
      by_cases hk : p.1 = k
      · rw [List.find?_cons_of_pos (by simp [hk]), List.find?_cons_of_pos (by simp [hk])]
      · rw [List.find?_cons_of_neg (by simp [hk]), List.find?_cons_of_neg (by simp [hk])]
        exact ih

theorem get_insert (m : RuleMap) (r k : CfiReg) (e : Expr) :
    (m.insert r e).get k = if k = r then some e else m.get k := by
  by_cases h : k = r
  · subst h; simp [RuleMap.insert, RuleMap.get]
  · have h' : ¬ r = k := fun e => h e.symm
    have := get_remove_ne m k r h
    simp only [RuleMap.remove, RuleMap.get] at this
    simp only [RuleMap.insert, RuleMap.get, h, if_false]
    rw [List.find?_cons_of_neg (by simp [h'])]
    exact this

/-- overlay of a line's own rules over the rules collected so far -/
def overlay (own out : RuleMap) (k : CfiReg) : Option Expr :=
  match own.get k with
  | some e => some e
  | none => out.get k

/-- `parse_cfi_exprs` into a non-empty map = its own rules laid over the map: success does not
    depend on the map, and every register the line defines overrides the earlier rule. -/
theorem parseLoop_overlay (toks : List Bytes) :
    ∀ (cur : Option CfiReg) (expr : Expr) (out : RuleMap),
      match parseLoop toks cur expr out, parseLoop toks cur expr [] with
      | some m', some own => ∀ k, m'.get k = overlay own out k
      | none, none => True
      | _, _ => False := by
  induction toks with
  | nil =>
    intro cur expr out
    simp only [parseLoop]
    by_cases he : expr.isEmpty = true
    · simp [he]
    · simp only [he, Bool.false_eq_true, if_false]
      cases cur with
      | none => simp
      | some r =>
        simp only []
        intro k
        simp only [overlay, get_insert]
        by_cases hk : k = r
        · simp [hk]
        · simp [hk, RuleMap.get]
  | cons tok rest ih =>
    intro cur expr out
    simp only [parseLoop]
    cases stripColon tok with
    | none =>
      cases cur with
      | none => simp
      | some r => exact ih (some r) (expr ++ [tok]) out
    | some name =>
      cases cur with
      | none => exact ih (some (labelOf name)) [] out
      | some r =>
        simp only []
        by_cases he : expr.isEmpty = true
        · simp [he]
        · simp only [he, Bool.false_eq_true, if_false]
          have ih1 := ih (some (labelOf name)) [] (out.insert r expr)
          have ih2 := ih (some (labelOf name)) [] (RuleMap.insert [] r expr)
          cases hA : parseLoop rest (some (labelOf name)) [] (out.insert r expr) with
          | none =>
            rw [hA] at ih1
            cases hB : parseLoop rest (some (labelOf name)) [] [] with
            | none =>
              rw [hB] at ih2
              cases hC : parseLoop rest (some (labelOf name)) [] (RuleMap.insert [] r expr) with
              | none => trivial
              | some c => rw [hC] at ih2; exact ih2
            | some b => rw [hB] at ih1; exact False.elim ih1
          | some a =>
            rw [hA] at ih1
            cases hB : parseLoop rest (some (labelOf name)) [] [] with
            | none => rw [hB] at ih1; exact False.elim ih1
            | some b =>
              rw [hB] at ih1 ih2
              cases hC : parseLoop rest (some (labelOf name)) [] (RuleMap.insert [] r expr) with
              | none => rw [hC] at ih2; exact ih2
              | some c =>
                rw [hC] at ih2
                simp only [] at ih1 ih2 ⊢
                intro k
                rw [ih1 k]
                simp only [overlay, ih2 k, get_insert]
                cases b.get k with
                | some e => rfl
                | none =>
                  by_cases hk : k = r
                  · simp [hk]
                  · simp [hk, RuleMap.get]

def otherEntry (p : Name × Expr) : CfiReg × Expr := (.other p.1, p.2)

theorem remove_cfa_ra_eq (m : RuleMap) :
    (m.remove .cfa).remove .ra = (others m).map otherEntry := by
  unfold RuleMap.remove
  induction m with
  | nil => rfl
  | cons p m ih =>
    obtain ⟨k, e⟩ := p
    cases k with
    | cfa => simpa [others] using ih
    | ra => simpa [others] using ih
    | other n => simpa [others, otherEntry] using ih

theorem foldO_applyOtherO (w : Walker) (cfa : UInt64) (evalEq : ∀ e, evalCfiO w.env (some cfa) e = .ok (evalCfi w.env (some cfa) e))
    (l : List (Name × Expr)) (c : Caller) :
    foldO (applyOtherO w cfa) (l.map otherEntry) c = .ok (l.foldl (applyOther w cfa) c) := by
  induction l generalizing c with
  | nil => rfl
  | cons p l ih =>
    simp only [List.map_cons, foldO, List.foldl_cons, applyOtherO, otherEntry, evalEq, applyOther]
    cases evalCfi w.env (some cfa) p.2 with
    | none => exact ih _
    | some v =>
      simp only []
      cases w.setReg c p.1 v with
      | none => exact ih _
      | some c' => exact ih _

end MdModel.Cfi
