/-
  Bridge C06 ↔ walker model, part 2: the lexers.

  `MdModel.Walk.Cfi` classifies the characters of a token (`classifyL`, `classifyRL`, `mkCfiRegL`,
  `parseI64L`, `splitWsL`), `MdModel.Cfi` the bytes (`classify`, `stripColon`, `labelOf`,
  `parseI64`, `splitWs`). Here: on the UTF-8 encoding of the same text they find the same tokens
  and give them the same meaning — for EVERY text (non-ASCII characters included: none of their
  bytes is whitespace, `$`, `:`, a sign or a digit).
-/
import MdProofs.Lemmas.CfiBridgeUtf8
namespace MdModel.CfiBridge
open MdModel

/-! ## characters and bytes below 0x80 -/

theorem char_eq_iff (c d : Char) : c = d ↔ c.toNat = d.toNat :=
  ⟨fun h => h ▸ rfl, char_eq_of_toNat c d⟩

/-- first byte of a character's encoding: the character itself when ASCII, `≥ 0x80` otherwise -/
theorem encC_head (c : Char) :
    ∃ b tl, String.utf8EncodeChar c = b :: tl ∧
      ((isAscii c ∧ tl = [] ∧ b.toNat = c.toNat) ∨ (¬ isAscii c ∧ 0x80 ≤ b.toNat ∧ 0x80 ≤ c.toNat)) := by
  by_cases h : isAscii c
  · obtain ⟨b, he, hv⟩ := encC_ascii_toNat c h
    exact ⟨b, [], he, .inl ⟨h, rfl, hv⟩⟩
  · cases he : String.utf8EncodeChar c with
    | nil => exact absurd he (encC_ne_nil c)
    | cons b tl =>
      refine ⟨b, tl, rfl, .inr ⟨h, ?_, ?_⟩⟩
      · exact encC_high c h b (by rw [he]; exact List.mem_cons_self)
      · unfold isAscii at h; omega

/-- the encoding of the ASCII character with code `k` -/
theorem encC_of_code (c : Char) (k : Nat) (hk : k < 0x80) (h : c.toNat = k) :
    String.utf8EncodeChar c = [UInt8.ofNat k] := by
  rw [encC_ascii c (by unfold isAscii; omega), h]

/-- a byte `< 0x80` is not in the encoding of any other character -/
theorem not_mem_encC (c : Char) (b : UInt8) (hb : b.toNat < 0x80) (hne : c.toNat ≠ b.toNat) :
    b ∉ String.utf8EncodeChar c :=
  fun hm => hne (mem_encC_low c b hb hm).2.2

/-! ## whitespace -/

theorem cfi_isWs_iff (b : UInt8) :
    Cfi.isWs b = true ↔ (b.toNat = 32 ∨ b.toNat = 9 ∨ b.toNat = 10 ∨ b.toNat = 12 ∨ b.toNat = 13) := by
  simp only [Cfi.isWs, Bool.or_eq_true, beq_iff_eq, ← UInt8.toNat_inj]
  simp [or_assoc]

theorem walk_isWs_iff (c : Char) :
    Walk.isWs c = true ↔ (c.toNat = 32 ∨ c.toNat = 9 ∨ c.toNat = 10 ∨ c.toNat = 12 ∨ c.toNat = 13) := by
  simp only [Walk.isWs, Bool.or_eq_true, decide_eq_true_eq, char_eq_iff]
  have e1 : ' '.toNat = 32 := rfl
  have e2 : '\t'.toNat = 9 := rfl
  have e3 : '\n'.toNat = 10 := rfl
  have e4 : '\r'.toNat = 13 := rfl
  have e5 : '\x0c'.toNat = 12 := rfl
  rw [e1, e2, e3, e4, e5]
  omega

/-- a whitespace character is one whitespace byte; no byte of any other character is whitespace -/
theorem isWs_encC (c : Char) :
    (Walk.isWs c = true ∧ ∃ b, String.utf8EncodeChar c = [b] ∧ Cfi.isWs b = true) ∨
    (Walk.isWs c = false ∧ ∀ b ∈ String.utf8EncodeChar c, Cfi.isWs b = false) := by
  by_cases h : isAscii c
  · obtain ⟨b, he, hv⟩ := encC_ascii_toNat c h
    by_cases hw : Walk.isWs c = true
    · left
      refine ⟨hw, b, he, ?_⟩
      rw [cfi_isWs_iff, hv]; exact (walk_isWs_iff c).mp hw
    · right
      refine ⟨by simpa using hw, ?_⟩
      intro b' hb'
      rw [he] at hb'
      simp only [List.mem_cons, List.not_mem_nil, or_false] at hb'
      subst hb'
      cases hb : Cfi.isWs b' with
      | false => rfl
      | true =>
        exact absurd ((walk_isWs_iff c).mpr (hv ▸ (cfi_isWs_iff b').mp hb)) hw
  · right
    have hc : 0x80 ≤ c.toNat := by unfold isAscii at h; omega
    constructor
    · cases hw : Walk.isWs c with
      | false => rfl
      | true => have := (walk_isWs_iff c).mp hw; omega
    · intro b hb
      have := encC_high c h b hb
      cases hw : Cfi.isWs b with
      | false => rfl
      | true => have := (cfi_isWs_iff b).mp hw; omega

theorem splitWsAux_nows (e rest cur : Bytes) (h : ∀ b ∈ e, Cfi.isWs b = false) :
    Cfi.splitWsAux (e ++ rest) cur = Cfi.splitWsAux rest (e.reverse ++ cur) := by
  induction e generalizing cur with
  | nil => rfl
  | cons b e ih =>
    have hb : Cfi.isWs b = false := h b List.mem_cons_self
    simp only [List.cons_append, Cfi.splitWsAux, hb, Bool.false_eq_true, if_false]
    rw [ih _ (fun b' hb' => h b' (List.mem_cons_of_mem _ hb'))]
    simp

theorem enc_eq_nil_iff (l : List Char) : enc l = [] ↔ l = [] := by
  constructor
  · intro h
    cases l with
    | nil => rfl
    | cons c l =>
      simp only [enc_cons, List.append_eq_nil_iff] at h
      exact absurd h.1 (encC_ne_nil c)
  · rintro rfl; rfl

theorem splitWsAux_enc (cs cur : List Char) :
    Cfi.splitWsAux (enc cs) (enc cur.reverse).reverse = (Walk.splitWsAux cs cur).map enc := by
  induction cs generalizing cur with
  | nil =>
    simp only [enc_nil, Cfi.splitWsAux, Walk.splitWsAux, List.isEmpty_iff, List.reverse_eq_nil_iff,
      enc_eq_nil_iff, List.reverse_reverse]
    by_cases h : cur = []
    · simp [h]
    · simp [h]
  | cons c rest ih =>
    rcases isWs_encC c with ⟨hw, b, he, hb⟩ | ⟨hw, hall⟩
    · simp only [enc_cons, he, List.cons_append, List.nil_append, Cfi.splitWsAux, hb, if_true,
        Walk.splitWsAux, hw, List.isEmpty_iff, List.reverse_eq_nil_iff, enc_eq_nil_iff, List.reverse_reverse]
      have ih0 := ih []
      simp only [List.reverse_nil, enc_nil] at ih0
      by_cases h : cur = []
      · simp [h, ih0]
      · simp [h, ih0]
    · simp only [enc_cons, Walk.splitWsAux, hw, Bool.false_eq_true, if_false]
      rw [splitWsAux_nows _ _ _ hall, ← ih (c :: cur)]
      simp [enc_append]

/-- **tokens**: splitting the bytes of a text at ASCII whitespace gives the encodings of the
    pieces found by splitting its characters -/
theorem splitWs_enc (cs : List Char) : Cfi.splitWs (enc cs) = (Walk.splitWsL cs).map enc := by
  have := splitWsAux_enc cs []
  simpa [Cfi.splitWs, Walk.splitWsL] using this

/-! ## the fixed spellings -/

theorem enc_plus : enc ['+'] = Cfi.tPlus := by decide
theorem enc_minus : enc ['-'] = Cfi.tMinus := by decide
theorem enc_star : enc ['*'] = Cfi.tStar := by decide
theorem enc_slash : enc ['/'] = Cfi.tSlash := by decide
theorem enc_percent : enc ['%'] = Cfi.tPercent := by decide
theorem enc_at : enc ['@'] = Cfi.tAt := by decide
theorem enc_caret : enc ['^'] = Cfi.tCaret := by decide
theorem enc_cfa : enc ['.', 'c', 'f', 'a'] = Cfi.tCfa := by decide
theorem enc_ra : enc ['.', 'r', 'a'] = Cfi.tRa := by decide
theorem enc_undef : enc ['.', 'u', 'n', 'd', 'e', 'f'] = Cfi.tUndef := by decide

theorem enc_eq_fixed (tok lit : List Char) (b : Bytes) (h : enc lit = b) : enc tok = b ↔ tok = lit := by
  rw [← h]; exact enc_eq_iff

/-! ## `$` -/

theorem afterDollar_append (e r : Bytes) (h : (0x24 : UInt8) ∉ e) :
    Cfi.afterDollar (e ++ r) = Cfi.afterDollar r := by
  induction e with
  | nil => rfl
  | cons b e ih =>
    have hb : ¬ b = 0x24 := fun hh => h (hh ▸ List.mem_cons_self)
    simp only [List.cons_append, Cfi.afterDollar, beq_iff_eq, hb, if_false]
    exact ih (fun hm => h (List.mem_cons_of_mem _ hm))

theorem dollar_toNat : '$'.toNat = 0x24 := rfl

theorem afterDollar_enc (tok : List Char) :
    Cfi.afterDollar (enc tok) =
      if tok.contains '$' then some (enc ((tok.dropWhile (· ≠ '$')).drop 1)) else none := by
  induction tok with
  | nil => rfl
  | cons c rest ih =>
    by_cases hc : c = '$'
    · subst hc
      have he : String.utf8EncodeChar '$' = [0x24] := by decide
      simp [enc_cons, he, Cfi.afterDollar]
    · have hne : c.toNat ≠ (0x24 : UInt8).toNat := by
        intro h; exact hc ((char_eq_iff c '$').mpr (by rw [h]; rfl))
      have hnm := not_mem_encC c 0x24 (by decide) hne
      rw [enc_cons, afterDollar_append _ _ hnm, ih]
      have h1 : (c :: rest).contains '$' = rest.contains '$' := by
        have : ('$' == c) = false := by rw [beq_eq_false_iff_ne]; exact fun h => hc h.symm
        rw [List.contains_cons, this, Bool.false_or]
      have h2 : (c :: rest).dropWhile (· ≠ '$') = rest.dropWhile (· ≠ '$') := by
        rw [List.dropWhile_cons]; simp [hc]
      rw [h1, h2]

/-! ## `i64::from_str` -/

theorem isDigit_iff (c : Char) : c.isDigit = true ↔ 48 ≤ c.toNat ∧ c.toNat ≤ 57 := by
  simp only [Char.isDigit, Bool.and_eq_true, decide_eq_true_eq, UInt32.le_iff_toNat_le]
  exact Iff.rfl

theorem digitVal_iff (b : UInt8) : Cfi.digitVal b = if 48 ≤ b.toNat ∧ b.toNat ≤ 57 then some (b.toNat - 48) else none := by
  simp only [Cfi.digitVal, UInt8.le_iff_toNat_le]
  rfl

theorem parseDigits_enc (ds : List Char) (acc : Nat) :
    Cfi.parseDigits (enc ds) acc =
      if ds.all Char.isDigit then some (ds.foldl (fun acc c => acc * 10 + (c.toNat - '0'.toNat)) acc) else none := by
  induction ds generalizing acc with
  | nil => rfl
  | cons c rest ih =>
    obtain ⟨b, tl, he, hcase⟩ := encC_head c
    rw [enc_cons, he]
    simp only [List.cons_append, Cfi.parseDigits, digitVal_iff, List.all_cons, List.foldl_cons]
    by_cases hd : c.isDigit = true
    · have hr := (isDigit_iff c).mp hd
      rcases hcase with ⟨_, htl, hv⟩ | ⟨_, _, hhi⟩
      · subst htl
        have : 48 ≤ b.toNat ∧ b.toNat ≤ 57 := by omega
        simp only [this, and_self, if_true, List.nil_append, hd, Bool.true_and]
        rw [ih, hv]; rfl
      · omega
    · have hr : ¬ (48 ≤ c.toNat ∧ c.toNat ≤ 57) := fun h => hd ((isDigit_iff c).mpr h)
      have : ¬ (48 ≤ b.toNat ∧ b.toNat ≤ 57) := by
        rcases hcase with ⟨_, _, hv⟩ | ⟨_, hb, _⟩ <;> omega
      simp [this, hd]

theorem u64_ofNat_mod (n : Nat) : UInt64.ofNat (n % 2 ^ 64) = UInt64.ofNat n := by
  apply UInt64.toNat_inj.mp
  simp [UInt64.toNat_ofNat']

theorem minus_toNat : '-'.toNat = 0x2D := rfl
theorem plus_toNat : '+'.toNat = 0x2B := rfl

theorem parseI64L_minus (t : List Char) :
    Walk.parseI64L ('-' :: t) =
      if t.isEmpty ∨ !(t.all Char.isDigit) then none
      else
        let v := t.foldl (fun acc c => acc * 10 + (c.toNat - '0'.toNat)) 0
        if v ≤ 2 ^ 63 then some ((2 ^ 64 - v) % 2 ^ 64) else none := rfl

theorem parseI64L_plus (t : List Char) :
    Walk.parseI64L ('+' :: t) =
      if t.isEmpty ∨ !(t.all Char.isDigit) then none
      else
        let v := t.foldl (fun acc c => acc * 10 + (c.toNat - '0'.toNat)) 0
        if v < 2 ^ 63 then some v else none := rfl

theorem parseI64L_other (cs : List Char) (h1 : ∀ t, cs ≠ '-' :: t) (h2 : ∀ t, cs ≠ '+' :: t) :
    Walk.parseI64L cs =
      if cs.isEmpty ∨ !(cs.all Char.isDigit) then none
      else
        let v := cs.foldl (fun acc c => acc * 10 + (c.toNat - '0'.toNat)) 0
        if v < 2 ^ 63 then some v else none := by
  unfold Walk.parseI64L
  split
  rename_i neg ds heq
  split at heq
  · exact absurd rfl (h1 _)
  · exact absurd rfl (h2 _)
  · cases heq; rfl

theorem mkCfiRegL_other (cs : List Char) (hc : ∀ t, cs ≠ '$' :: t) (h1 : cs ≠ ['.', 'c', 'f', 'a'])
    (h2 : cs ≠ ['.', 'r', 'a']) : Walk.mkCfiRegL cs = Walk.CfiReg.other (String.ofList cs) := by
  unfold Walk.mkCfiRegL
  simp only [h1, h2, if_false]

theorem mkCfiRegL_dollar (t : List Char) : Walk.mkCfiRegL ('$' :: t) = Walk.CfiReg.other (String.ofList t) := by
  unfold Walk.mkCfiRegL
  have h1 : ¬ ('$' :: t = ['.', 'c', 'f', 'a']) := by intro h; exact absurd (List.cons.inj h).1 (by decide)
  have h2 : ¬ ('$' :: t = ['.', 'r', 'a']) := by intro h; exact absurd (List.cons.inj h).1 (by decide)
  simp only [h1, h2, if_false]

/-- **literals**: `i64::from_str` on the bytes = on the characters (`+5`, `-0`, `007`, the `i64`
    bounds, non-ASCII digits, a lone sign: everything), values as `u64` bit patterns -/
theorem parseI64_enc (tok : List Char) :
    Cfi.parseI64 (enc tok) = (Walk.parseI64L tok).map UInt64.ofNat := by
  cases tok with
  | nil => rfl
  | cons c t =>
    by_cases hm : c = '-'
    · subst hm
      have he : String.utf8EncodeChar '-' = [0x2D] := by decide
      rw [parseI64L_minus, enc_cons, he]
      simp only [List.cons_append, List.nil_append, Cfi.parseI64, beq_self_eq_true, if_true,
        List.isEmpty_iff, enc_eq_nil_iff, parseDigits_enc]
      by_cases ht : t = []
      · simp [ht]
      · by_cases hd : t.all Char.isDigit = true
        · simp only [ht, hd, if_false, if_true, Bool.not_true, Bool.false_eq_true, or_self]
          split
          · exact congrArg some (u64_ofNat_mod _).symm
          · rfl
        · simp [ht, hd]
    · by_cases hp : c = '+'
      · subst hp
        have he : String.utf8EncodeChar '+' = [0x2B] := by decide
        rw [parseI64L_plus, enc_cons, he]
        have hne : ((0x2B : UInt8) == 0x2D) = false := by decide
        simp only [List.cons_append, List.nil_append, Cfi.parseI64, hne, Bool.false_eq_true, if_false,
          beq_self_eq_true, if_true, List.isEmpty_iff, enc_eq_nil_iff, parseDigits_enc]
        by_cases ht : t = []
        · simp [ht]
        · by_cases hd : t.all Char.isDigit = true
          · simp only [ht, hd, if_false, if_true, Bool.not_true, Bool.false_eq_true, or_self]
            split <;> rfl
          · simp [ht, hd]
      · rw [parseI64L_other (c :: t) (fun t' h => hm (List.cons.inj h).1) (fun t' h => hp (List.cons.inj h).1)]
        obtain ⟨b, tl, he, hcase⟩ := encC_head c
        have hb1 : (b == 0x2D) = false := by
          rw [beq_eq_false_iff_ne]; intro hb
          rcases hcase with ⟨_, _, hv⟩ | ⟨_, hh, _⟩
          · exact hm ((char_eq_iff c '-').mpr (by rw [← hv, hb]; rfl))
          · rw [hb] at hh; exact absurd hh (by decide)
        have hb2 : (b == 0x2B) = false := by
          rw [beq_eq_false_iff_ne]; intro hb
          rcases hcase with ⟨_, _, hv⟩ | ⟨_, hh, _⟩
          · exact hp ((char_eq_iff c '+').mpr (by rw [← hv, hb]; rfl))
          · rw [hb] at hh; exact absurd hh (by decide)
        have hpd := parseDigits_enc (c :: t) 0
        rw [enc_cons, he] at hpd ⊢
        simp only [List.cons_append, Cfi.parseI64, hb1, hb2, Bool.false_eq_true, if_false]
        simp only [List.cons_append] at hpd
        rw [hpd]
        by_cases hd : (c :: t).all Char.isDigit = true
        · simp only [hd, if_true, List.isEmpty_cons, Bool.not_true, Bool.false_eq_true, or_self, if_false]
          split <;> rfl
        · simp [hd]

/-! ## expression tokens -/

/-- meaning of a walker-model token in the C06 model's vocabulary -/
def tokOf : Walk.ETok → Cfi.Tok
  | .add => .bin .add
  | .sub => .bin .sub
  | .mul => .bin .mul
  | .div => .bin .div
  | .rem => .bin .rem
  | .align => .bin .align
  | .deref => .deref
  | .cfa => .cfa
  | .undef => .undef
  | .dollar n => .reg (utf8 n)
  | .lit v => .lit (UInt64.ofNat v)
  | .bare n => .reg (utf8 n)

/-- **classification**: the C06 model's reading of the bytes of a token is the walker model's
    reading of its characters -/
theorem classify_enc (tok : List Char) : Cfi.classify (enc tok) = tokOf (Walk.classifyL tok) := by
  unfold Cfi.classify Walk.classifyL
  simp only [enc_eq_fixed tok _ _ enc_plus, enc_eq_fixed tok _ _ enc_minus, enc_eq_fixed tok _ _ enc_star,
    enc_eq_fixed tok _ _ enc_slash, enc_eq_fixed tok _ _ enc_percent, enc_eq_fixed tok _ _ enc_at,
    enc_eq_fixed tok _ _ enc_caret, enc_eq_fixed tok _ _ enc_cfa, enc_eq_fixed tok _ _ enc_undef]
  split; · rfl
  split; · rfl
  split; · rfl
  split; · rfl
  split; · rfl
  split; · rfl
  split; · rfl
  split; · rfl
  split; · rfl
  rw [afterDollar_enc, parseI64_enc]
  by_cases hd : tok.contains '$' = true
  · simp only [hd, if_true, tokOf, utf8_ofList]
  · simp only [hd, Bool.false_eq_true, if_false]
    cases Walk.parseI64L tok with
    | none => simp only [Option.map_none, tokOf, utf8_ofList]
    | some v => simp only [Option.map_some, tokOf]

/-- literal tokens produced by the lexer are 64-bit values -/
theorem parseI64L_lt (tok : List Char) (v : Nat) (h : Walk.parseI64L tok = some v) : v < 2 ^ 64 := by
  unfold Walk.parseI64L at h
  split at h
  all_goals
    simp only at h
    split at h
    · cases h
    · split at h
      · first
        | (cases h; omega)
        | (split at h <;> cases h <;> omega)
      · first
        | cases h
        | (split at h <;> cases h <;> omega)

/-! ## `REG:` labels -/

def regOf : Walk.CfiReg → Cfi.CfiReg
  | .cfa => .cfa
  | .ra => .ra
  | .other n => .other (utf8 n)

theorem regOf_inj {a b : Walk.CfiReg} (h : regOf a = regOf b) : a = b := by
  cases a <;> cases b <;> simp only [regOf, reduceCtorEq] at h <;> try rfl
  rw [utf8_inj (Cfi.CfiReg.other.inj h)]

theorem colon_toNat : ':'.toNat = 0x3A := rfl

theorem stripColon_enc (tok : List Char) :
    Cfi.stripColon (enc tok) = if tok.getLast? = some ':' then some (enc tok.dropLast) else none := by
  rcases List.eq_nil_or_concat tok with rfl | ⟨init, c, rfl⟩
  · rfl
  · simp only [List.concat_eq_append, enc_append, enc_cons, enc_nil, List.append_nil, Cfi.stripColon,
      List.reverse_append, List.getLast?_append, List.getLast?_singleton, Option.some_or,
      Option.some.injEq, List.dropLast_concat]
    by_cases hc : c = ':'
    · subst hc
      have he : String.utf8EncodeChar ':' = [0x3A] := by decide
      simp [he]
    · have hne : c.toNat ≠ (0x3A : UInt8).toNat := by
        intro h; exact hc ((char_eq_iff c ':').mpr (by rw [h]; rfl))
      have hnm := not_mem_encC c 0x3A (by decide) hne
      cases hr : (String.utf8EncodeChar c).reverse with
      | nil =>
        have : String.utf8EncodeChar c = [] := by simp at hr
        exact absurd this (encC_ne_nil c)
      | cons b rest =>
        have hb : b ∈ String.utf8EncodeChar c := by
          have : b ∈ (String.utf8EncodeChar c).reverse := by rw [hr]; exact List.mem_cons_self
          simpa using this
        have hb' : ¬ b = 0x3A := fun h => hnm (h ▸ hb)
        simp [hb', hc]

theorem labelOf_enc (name : List Char) : Cfi.labelOf (enc name) = regOf (Walk.mkCfiRegL name) := by
  by_cases h1 : name = ['.', 'c', 'f', 'a']
  · subst h1; rfl
  by_cases h2 : name = ['.', 'r', 'a']
  · subst h2; rfl
  have e1 : ¬ enc name = Cfi.tCfa := fun h => h1 ((enc_eq_fixed name _ _ enc_cfa).mp h)
  have e2 : ¬ enc name = Cfi.tRa := fun h => h2 ((enc_eq_fixed name _ _ enc_ra).mp h)
  unfold Cfi.labelOf
  simp only [e1, e2, if_false]
  cases name with
  | nil => rfl
  | cons c t =>
    by_cases hc : c = '$'
    · subst hc
      have he : String.utf8EncodeChar '$' = [0x24] := by decide
      rw [mkCfiRegL_dollar]
      simp [enc_cons, he, regOf]
    · obtain ⟨b, tl, he, hcase⟩ := encC_head c
      have hb : ¬ b = 0x24 := by
        intro hb
        rcases hcase with ⟨_, _, hv⟩ | ⟨_, hh, _⟩
        · exact hc ((char_eq_iff c '$').mpr (by rw [← hv, hb]; rfl))
        · rw [hb] at hh; exact absurd hh (by decide)
      rw [mkCfiRegL_other (c :: t) (fun t' h => hc (List.cons.inj h).1) h1 h2]
      have : enc (c :: t) = b :: (tl ++ enc t) := by rw [enc_cons, he]; rfl
      rw [this]
      simp only [beq_iff_eq, hb, if_false, regOf, utf8_ofList]
      rw [← this]

/-- a token of a rule set, seen from the C06 model: `REG:` or an expression token -/
theorem classifyRL_enc (tok : List Char) :
    match Walk.classifyRL tok with
    | .label r => ∃ name, Cfi.stripColon (enc tok) = some name ∧ Cfi.labelOf name = regOf r
    | .tok t => Cfi.stripColon (enc tok) = none ∧ Cfi.classify (enc tok) = tokOf t := by
  unfold Walk.classifyRL
  rw [stripColon_enc]
  by_cases h : tok.getLast? = some ':'
  · simp only [h, if_true]
    exact ⟨_, rfl, labelOf_enc _⟩
  · simp only [h, if_false]
    exact ⟨trivial, classify_enc tok⟩

end MdModel.CfiBridge
