/-
  Bridge C11 ↔ walker model, part 1: one range table, two valuations.

  `MdModel.Symbolize` (C11) and `MdModel.Walk` (C03/C04/C05/C14) both build `SymbolFile.functions`
  (and the two STACK WIN tables) with C08's `safeVecP`, from the same ranges in the same order, but
  with different *values*: C11 stores the position of the first structurally equal record (so that
  value equality is Rust's `PartialEq` on the records), the walker model stores the record's own
  position (STACK WIN: C11 encodes `(addr, size, parameter size)`, the walker `(addr, size, index)`).
  The builder's loop (`keep`) compares values, so the tables are not equal by construction.

  This file proves that the difference is invisible: whenever, in either valuation, equal values
  occur only on equal ranges (`Coh`), the two tables have the same ranges, entry by entry they come
  from one and the same input record (`safeVecP_sim`), and a lookup finds an entry in one iff it
  finds the corresponding entry in the other (`get_sim`).
-/
import MdProofs.C08
namespace MdModel.SymBridge
open MdModel MdModel.RangeMap

/-- one table input as the two models see it: range, value in model 1, value in model 2 -/
abbrev Tri := Rng × Val × Val

def e1 (z : Tri) : Entry := (z.1, z.2.1)
def e2 (z : Tri) : Entry := (z.1, z.2.2)

/-- well-formed ranges, and in either valuation equal values only on equal ranges -/
structure Coh (zs : List Tri) : Prop where
  wf : ∀ z ∈ zs, z.1.lo ≤ z.1.hi ∧ z.1.hi ≤ U64MAX
  inj1 : ∀ z ∈ zs, ∀ z' ∈ zs, z.2.1 = z'.2.1 → z.1 = z'.1
  inj2 : ∀ z ∈ zs, ∀ z' ∈ zs, z.2.2 = z'.2.2 → z.1 = z'.1

theorem keep_some_sim (src : List Tri) (hc : Coh src) (xs : List Tri) :
    ∀ (l : Tri), l ∈ src → (∀ x ∈ xs, x ∈ src) →
    ∃ ws : List Tri, (∀ w ∈ ws, w ∈ src) ∧
      keep (some (e1 l)) (xs.map e1) = ws.map e1 ∧
      keep (some (e2 l)) (xs.map e2) = ws.map e2 := by
  induction xs with
  | nil =>
    intro l hl _
    exact ⟨[l], by simpa using hl, rfl, rfl⟩
  | cons e rest ih =>
    intro l hl hx
    have he : e ∈ src := hx e List.mem_cons_self
    have hrest : ∀ x ∈ rest, x ∈ src := fun x h => hx x (List.mem_cons_of_mem _ h)
    obtain ⟨lr, l1, l2⟩ := l
    obtain ⟨er, v1, v2⟩ := e
    have hwf := hc.wf _ hl
    simp only at hwf
    have hs : lr.lo ≤ satSucc lr.hi := by
      have := satSucc_ge lr.hi hwf.2; omega
    simp only [List.map_cons, e1, e2, keep]
    by_cases h1 : v1 = l1
    · have hr : er = lr := hc.inj1 _ he _ hl h1
      subst hr; subst h1
      by_cases h2 : v2 = l2
      · subst h2
        simp only [ne_eq, not_true_eq_false, and_false, if_false, hs, and_self, if_true, Nat.max_self]
        exact ih (er, v1, v2) hl hrest
      · simp only [ne_eq, not_true_eq_false, and_false, if_false, hs, and_self, if_true, Nat.max_self,
          hwf.1, h2, not_false_eq_true]
        exact ih (er, v1, l2) hl hrest
    · by_cases h2 : v2 = l2
      · have hr : er = lr := hc.inj2 _ he _ hl h2
        subst hr; subst h2
        simp only [ne_eq, not_true_eq_false, and_false, if_false, hs, and_self, if_true, Nat.max_self,
          hwf.1, h1, not_false_eq_true]
        exact ih (er, l1, v2) hl hrest
      · by_cases ho : er.lo ≤ lr.hi
        · simp only [ho, ne_eq, h1, h2, not_false_eq_true, and_self, if_true]
          exact ih (lr, l1, l2) hl hrest
        · simp only [ho, ne_eq, h1, h2, not_false_eq_true, and_true, and_false, if_false]
          obtain ⟨ws, hws, k1, k2⟩ := ih (er, v1, v2) he hrest
          refine ⟨(lr, l1, l2) :: ws, ?_, ?_, ?_⟩
          · intro w hw
            rcases List.mem_cons.mp hw with rfl | hw
            · exact hl
            · exact hws w hw
          · simp only [e1] at k1; simp only [List.map_cons, e1, k1]
          · simp only [e2] at k2; simp only [List.map_cons, e2, k2]

theorem keep_sim (xs : List Tri) (hc : Coh xs) :
    ∃ ws : List Tri, (∀ w ∈ ws, w ∈ xs) ∧
      keep none (xs.map e1) = ws.map e1 ∧ keep none (xs.map e2) = ws.map e2 := by
  cases xs with
  | nil => exact ⟨[], by simp, rfl, rfl⟩
  | cons e rest =>
    simp only [List.map_cons, keep]
    exact keep_some_sim (e :: rest) hc rest e List.mem_cons_self (fun x h => List.mem_cons_of_mem _ h)

theorem sortEntries_map1 (zs : List Tri) :
    sortEntries (zs.map e1) = (zs.mergeSort fun a b => rle a.1 b.1).map e1 := by
  unfold sortEntries
  exact (List.map_mergeSort (f := e1) (fun a _ b _ => rfl)).symm

theorem sortEntries_map2 (zs : List Tri) :
    sortEntries (zs.map e2) = (zs.mergeSort fun a b => rle a.1 b.1).map e2 := by
  unfold sortEntries
  exact (List.map_mergeSort (f := e2) (fun a _ b _ => rfl)).symm

/-- **the two tables are one list of input records, read through the two valuations** -/
theorem safeVecP_sim (zs : List Tri) (hc : Coh zs) :
    ∃ ws : List Tri, (∀ w ∈ ws, w ∈ zs) ∧
      safeVecP (zs.map e1) = ws.map e1 ∧ safeVecP (zs.map e2) = ws.map e2 := by
  have hc' : Coh (zs.mergeSort fun a b => rle a.1 b.1) :=
    ⟨fun z hz => hc.wf z (List.mem_mergeSort.mp hz),
     fun z hz z' hz' => hc.inj1 z (List.mem_mergeSort.mp hz) z' (List.mem_mergeSort.mp hz'),
     fun z hz z' hz' => hc.inj2 z (List.mem_mergeSort.mp hz) z' (List.mem_mergeSort.mp hz')⟩
  obtain ⟨ws, hws, k1, k2⟩ := keep_sim _ hc'
  refine ⟨ws, fun w hw => List.mem_mergeSort.mp (hws w hw), ?_, ?_⟩
  · unfold safeVecP pass; simp only; rw [sortEntries_map1]; exact k1
  · unfold safeVecP pass; simp only; rw [sortEntries_map2]; exact k2

theorem coh_wf1 {zs : List Tri} (hc : Coh zs) : ∀ e ∈ zs.map e1, WF e := by
  intro e he
  obtain ⟨z, hz, rfl⟩ := List.mem_map.mp he
  exact hc.wf z hz

theorem coh_wf2 {zs : List Tri} (hc : Coh zs) : ∀ e ∈ zs.map e2, WF e := by
  intro e he
  obtain ⟨z, hz, rfl⟩ := List.mem_map.mp he
  exact hc.wf z hz

/-- **lookups agree**: what `get` finds in table 1 at `a` is the model-1 value of an input record
    whose range contains `a` and whose model-2 value is what `get` finds in table 2 -/
theorem get_sim (zs : List Tri) (hc : Coh zs) (a : Nat) :
    (∀ v, get (safeVecP (zs.map e1)) a = some v →
        ∃ z ∈ zs, z.1.contains a = true ∧ z.2.1 = v ∧ get (safeVecP (zs.map e2)) a = some z.2.2) ∧
    (get (safeVecP (zs.map e1)) a = none → get (safeVecP (zs.map e2)) a = none) := by
  obtain ⟨ws, hws, k1, k2⟩ := safeVecP_sim zs hc
  have s1 : Sep (ws.map e1) := by rw [← k1]; exact safeVecP_sep _ (coh_wf1 hc)
  have s2 : Sep (ws.map e2) := by rw [← k2]; exact safeVecP_sep _ (coh_wf2 hc)
  rw [k1, k2]
  constructor
  · intro v hv
    obtain ⟨e, he, hcont, hv'⟩ := get_sound_mem _ a v hv
    obtain ⟨w, hw, rfl⟩ := List.mem_map.mp he
    refine ⟨w, hws w hw, hcont, hv', ?_⟩
    exact get_complete_mem _ s2 (e2 w) (List.mem_map_of_mem hw) a hcont
  · intro hn
    cases h2 : get (ws.map e2) a with
    | none => rfl
    | some v =>
      obtain ⟨e, he, hcont, _⟩ := get_sound_mem _ a v h2
      obtain ⟨w, hw, rfl⟩ := List.mem_map.mp he
      have := get_complete_mem _ s1 (e1 w) (List.mem_map_of_mem hw) a hcont
      rw [hn] at this; cases this

/-- the starts of the entries are the same in both tables -/
theorem los_sim (zs : List Tri) (hc : Coh zs) :
    (safeVecP (zs.map e1)).map (·.1) = (safeVecP (zs.map e2)).map (·.1) := by
  obtain ⟨ws, _, k1, k2⟩ := safeVecP_sim zs hc
  rw [k1, k2]
  simp only [List.map_map]
  rfl

end MdModel.SymBridge
