/-
  Helper lemmas for C03 about `MdModel.OpAnalysis` (the abstract-instruction model of
  op_analysis.rs): which instructions reach a `panic!` / `assert_eq!` / `assert!`, the
  effective-address formula, the register set.
-/
import MdModel.OpAnalysis
import MdProofs.Lemmas.Process
namespace MdModel.OpAnalysis
open MdModel MdModel.Process

/-- the outcome is a panic -/
def IsPanic {α : Type} (o : Outcome α) : Prop := ∃ s, o = .panic s

theorem isPanic_or_noPanic {α : Type} (o : Outcome α) : IsPanic o ∨ NoPanic o := by
  cases o with
  | ok v => exact Or.inr ⟨v, rfl⟩
  | panic s => exact Or.inl ⟨s, rfl⟩

theorem not_isPanic_of_noPanic {α : Type} {o : Outcome α} (h : NoPanic o) : ¬ IsPanic o := by
  intro ⟨s, hs⟩
  exact noPanic_not_panic h s hs

/-! ### the `match idx` table -/

theorem accessTypeOf_ok (ad : AD) (idx : Nat) (h : memIdxAllowed ad idx = true) :
    NoPanic (accessTypeOf ad idx) := by
  match idx, h with
  | 0, h => cases ad <;> first | exact ⟨_, rfl⟩ | (simp [memIdxAllowed] at h)
  | 1, h => cases ad <;> first | exact ⟨_, rfl⟩ | (simp [memIdxAllowed] at h)
  | n + 2, h => cases ad <;> simp [memIdxAllowed] at h

theorem accessTypeOf_panic (ad : AD) (idx : Nat) (h : memIdxAllowed ad idx = false) :
    IsPanic (accessTypeOf ad idx) := by
  match idx, h with
  | 0, h => cases ad <;> first | exact ⟨_, rfl⟩ | (simp [memIdxAllowed] at h)
  | 1, h => cases ad <;> first | exact ⟨_, rfl⟩ | (simp [memIdxAllowed] at h)
  | n + 2, h => cases ad <;> exact ⟨_, rfl⟩

/-! ### one operand -/

theorem explicitDerivable_ok (ad : AD) (rf : Reg → Option Nat) (ms : Option Nat) (idx : Nat) (op : Operand)
    (h : (!op.isMemory || memIdxAllowed ad idx) = true) : NoPanic (explicitDerivable ad rf ms idx op) := by
  unfold explicitDerivable
  by_cases hm : op.isMemory = true
  · simp only [hm, Bool.not_true, Bool.false_or] at h
    obtain ⟨t, ht⟩ := accessTypeOf_ok ad idx h
    simp only [hm, Bool.not_true, Bool.false_eq_true, if_false, ht]
    cases t with
    | none => exact ⟨_, rfl⟩
    | some ty =>
      simp only
      cases addrOf rf op with
      | regInvalid => exact ⟨_, rfl⟩
      | ok a => cases a <;> exact ⟨_, rfl⟩
  · simp only [Bool.not_eq_true] at hm
    simp only [hm, Bool.not_false, if_true]
    exact ⟨_, rfl⟩

theorem explicitUnderivable_ok (rf : Reg → Option Nat) (ms : Option Nat) (op : Operand) :
    NoPanic (explicitUnderivable rf ms op) := by
  unfold explicitUnderivable
  split
  · exact ⟨_, rfl⟩
  · cases addrOf rf op with
    | regInvalid => exact ⟨_, rfl⟩
    | ok a => cases a <;> exact ⟨_, rfl⟩

/-! ### the operand loops -/

theorem operandLoop_ok (f : Nat → Operand → Outcome (Res (List MemAccess))) :
    ∀ (ops : List Operand) (idx : Nat), idx + ops.length ≤ 4 →
      (∀ k op, ops[k]? = some op → NoPanic (f (idx + k) op)) → NoPanic (operandLoop f idx ops) := by
  intro ops
  induction ops with
  | nil => intro idx _ _; exact ⟨_, rfl⟩
  | cons op rest ih =>
    intro idx hlen hf
    simp only [List.length_cons] at hlen
    have h4 : ¬ idx ≥ 4 := by omega
    obtain ⟨r, hr⟩ := hf 0 op rfl
    simp only [Nat.add_zero] at hr
    obtain ⟨r', hr'⟩ := ih (idx + 1) (by omega) (fun k o hk => by
      have := hf (k + 1) o (by simpa using hk)
      rwa [show idx + (k + 1) = idx + 1 + k by omega] at this)
    simp only [operandLoop, h4, if_false, hr]
    cases r with
    | regInvalid => exact ⟨_, rfl⟩
    | ok l =>
      simp only [hr']
      cases r' <;> exact ⟨_, rfl⟩

theorem memOperandsAllowed_at (ad : AD) :
    ∀ (ops : List Operand) (idx : Nat), memOperandsAllowed ad idx ops = true →
      ∀ k op, ops[k]? = some op → (!op.isMemory || memIdxAllowed ad (idx + k)) = true := by
  intro ops
  induction ops with
  | nil => intro idx _ k op hk; simp at hk
  | cons o rest ih =>
    intro idx h k op hk
    simp only [memOperandsAllowed, Bool.and_eq_true] at h
    cases k with
    | zero =>
      simp only [List.getElem?_cons_zero, Option.some.injEq] at hk
      subst hk
      simpa using h.1
    | succ k =>
      simp only [List.getElem?_cons_succ] at hk
      have := ih (idx + 1) h.2 k op hk
      rwa [show idx + (k + 1) = idx + 1 + k by omega]

theorem getRegisters_ok : ∀ (ops : List Operand) (idx : Nat) (acc : List Reg), idx + ops.length ≤ 4 →
    NoPanic (getRegisters idx ops acc) := by
  intro ops
  induction ops with
  | nil => intro idx acc _; exact ⟨_, rfl⟩
  | cons op rest ih =>
    intro idx acc hlen
    simp only [List.length_cons] at hlen
    have h4 : ¬ idx ≥ 4 := by omega
    simp only [getRegisters, h4, if_false]
    cases opInfo op with
    | none => exact ih (idx + 1) acc (by omega)
    | some i => exact ih (idx + 1) _ (by omega)

theorem getRegisters_panic : ∀ (ops : List Operand) (idx : Nat) (acc : List Reg), idx ≤ 4 → 4 < idx + ops.length →
    IsPanic (getRegisters idx ops acc) := by
  intro ops
  induction ops with
  | nil => intro idx acc h1 h2; simp only [List.length_nil, Nat.add_zero] at h2; omega
  | cons op rest ih =>
    intro idx acc hle hlen
    simp only [List.length_cons] at hlen
    by_cases h4 : idx ≥ 4
    · simp only [getRegisters, h4, if_true]; exact ⟨_, rfl⟩
    · simp only [getRegisters, h4, if_false]
      cases opInfo op with
      | none => exact ih (idx + 1) acc (by omega) (by omega)
      | some i => exact ih (idx + 1) _ (by omega) (by omega)

/-! ### the three parts of `analyze_instruction` under `Shape` -/

theorem shape_unpack (i : Instr) (h : Shape i = true) :
    i.operands.length ≤ 4 ∧ (ipClass i.opc = .callLike → i.operands.length = 1) ∧
    (∀ ms ad, i.memSize = some ms → derivable i.opc = some ad → memOperandsAllowed ad 0 i.operands = true) := by
  simp only [Shape, Bool.and_eq_true, decide_eq_true_eq, Bool.or_eq_true, bne_iff_ne, ne_eq] at h
  obtain ⟨⟨h1, h2⟩, h3⟩ := h
  refine ⟨h1, ?_, ?_⟩
  · intro hc
    cases h2 with
    | inl h => exact absurd hc h
    | inr h => exact h
  · intro ms ad hms had
    rw [hms, had] at h3
    exact h3

theorem memAccesses_ok (i : Instr) (rf : Reg → Option Nat) (h : Shape i = true) : NoPanic (memAccesses i rf) := by
  obtain ⟨h1, _, h3⟩ := shape_unpack i h
  unfold memAccesses
  cases hms : i.memSize with
  | none => exact ⟨_, rfl⟩
  | some ms =>
    simp only
    cases had : derivable i.opc with
    | none =>
      simp only
      exact operandLoop_ok _ i.operands 0 (by omega) (fun k op _ => explicitUnderivable_ok rf ms op)
    | some ad =>
      simp only
      have hall := memOperandsAllowed_at ad i.operands 0 (h3 ms ad hms had)
      obtain ⟨r, hr⟩ := operandLoop_ok (explicitDerivable ad rf ms) i.operands 0 (by omega)
        (fun k op hk => explicitDerivable_ok ad rf ms (0 + k) op (hall k op hk))
      rw [hr]
      cases r <;> exact ⟨_, rfl⟩

theorem ipUpdate_ok (i : Instr) (env : Env) (h : Shape i = true) : NoPanic (ipUpdate i env) := by
  obtain ⟨_, h2, _⟩ := shape_unpack i h
  unfold ipUpdate
  cases hc : ipClass i.opc with
  | callLike =>
    have hl := h2 hc
    match hops : i.operands, hl with
    | [op], _ => exact ⟨_, rfl⟩
  | retLike =>
    simp only
    cases env.rf "rsp" with
    | none => exact ⟨_, rfl⟩
    | some rsp =>
      cases env.readStack with
      | none => exact ⟨_, rfl⟩
      | some rd => simp only; cases rd rsp <;> exact ⟨_, rfl⟩
  | jcc => exact ⟨_, rfl⟩
  | other => exact ⟨_, rfl⟩

/-- `analyze` panics exactly when one of its three parts does -/
theorem analyze_isPanic_iff (i : Instr) (env : Env) :
    IsPanic (analyze i env) ↔
      IsPanic (memAccesses i env.rf) ∨ IsPanic (ipUpdate i env) ∨ IsPanic (getRegisters 0 i.operands []) := by
  unfold analyze
  cases h1 : memAccesses i env.rf with
  | panic s => simp only; exact ⟨fun _ => Or.inl ⟨s, rfl⟩, fun _ => ⟨s, rfl⟩⟩
  | ok acc =>
    simp only
    cases h2 : ipUpdate i env with
    | panic s => simp only; exact ⟨fun _ => Or.inr (Or.inl ⟨s, rfl⟩), fun _ => ⟨s, rfl⟩⟩
    | ok ip =>
      simp only
      cases h3 : getRegisters 0 i.operands [] with
      | panic s => simp only; exact ⟨fun _ => Or.inr (Or.inr ⟨s, rfl⟩), fun _ => ⟨s, rfl⟩⟩
      | ok regs =>
        simp only
        constructor
        · intro ⟨s, hs⟩; cases hs
        · intro h
          rcases h with ⟨s, hs⟩ | ⟨s, hs⟩ | ⟨s, hs⟩ <;> cases hs

/-! ### outside `Shape` a panic is reached (with every register valid) -/

/-- a register file in which every name is valid -/
def allValid : Reg → Option Nat := fun _ => some 1

theorem addrOf_allValid (op : Operand) : ∃ a, addrOf allValid op = .ok a := by
  unfold addrOf
  cases opInfo op with
  | none => exact ⟨_, rfl⟩
  | some i =>
    simp only [addrOfInfo, allValid]
    cases i.base <;> cases i.index <;> exact ⟨_, rfl⟩

theorem explicitDerivable_allValid (ad : AD) (ms : Option Nat) (idx : Nat) (op : Operand)
    (h : (!op.isMemory || memIdxAllowed ad idx) = true) : ∃ l, explicitDerivable ad allValid ms idx op = .ok (.ok l) := by
  unfold explicitDerivable
  by_cases hm : op.isMemory = true
  · simp only [hm, Bool.not_true, Bool.false_or] at h
    obtain ⟨t, ht⟩ := accessTypeOf_ok ad idx h
    simp only [hm, Bool.not_true, Bool.false_eq_true, if_false, ht]
    cases t with
    | none => exact ⟨_, rfl⟩
    | some ty =>
      obtain ⟨a, ha⟩ := addrOf_allValid op
      simp only [ha]
      cases a <;> exact ⟨_, rfl⟩
  · simp only [Bool.not_eq_true] at hm
    simp only [hm, Bool.not_false, if_true]
    exact ⟨_, rfl⟩

theorem operandLoop_panic (ad : AD) (ms : Option Nat) :
    ∀ (ops : List Operand) (idx : Nat), memOperandsAllowed ad idx ops = false →
      IsPanic (operandLoop (explicitDerivable ad allValid ms) idx ops) := by
  intro ops
  induction ops with
  | nil => intro idx h; simp [memOperandsAllowed] at h
  | cons op rest ih =>
    intro idx h
    by_cases h4 : idx ≥ 4
    · simp only [operandLoop, h4, if_true]; exact ⟨_, rfl⟩
    · simp only [operandLoop, h4, if_false]
      by_cases hop : (!op.isMemory || memIdxAllowed ad idx) = true
      · obtain ⟨l, hl⟩ := explicitDerivable_allValid ad ms idx op hop
        simp only [memOperandsAllowed, hop, Bool.true_and] at h
        obtain ⟨s, hs⟩ := ih (idx + 1) h
        simp only [hl, hs]
        exact ⟨_, rfl⟩
      · simp only [Bool.not_eq_true, Bool.or_eq_false_iff, Bool.not_eq_eq_eq_not, Bool.not_false] at hop
        obtain ⟨s, hs⟩ := accessTypeOf_panic ad idx hop.2
        simp only [explicitDerivable, hop.1, Bool.not_true, Bool.false_eq_true, if_false, hs]
        exact ⟨_, rfl⟩

theorem memAccesses_panic (i : Instr) (ms : Option Nat) (ad : AD) (hms : i.memSize = some ms)
    (had : derivable i.opc = some ad) (h : memOperandsAllowed ad 0 i.operands = false) :
    IsPanic (memAccesses i allValid) := by
  obtain ⟨s, hs⟩ := operandLoop_panic ad ms i.operands 0 h
  unfold memAccesses
  simp only [hms, had, hs]
  exact ⟨_, rfl⟩

theorem ipUpdate_panic (i : Instr) (env : Env) (hc : ipClass i.opc = .callLike) (hl : i.operands.length ≠ 1) :
    IsPanic (ipUpdate i env) := by
  unfold ipUpdate
  simp only [hc]
  match hops : i.operands with
  | [] => exact ⟨_, rfl⟩
  | [op] => rw [hops] at hl; simp at hl
  | _ :: _ :: _ => exact ⟨_, rfl⟩

/-! ### the effective address -/

/-- the value of an optional register: an absent register contributes 0 -/
def regVal (rf : Reg → Option Nat) : Option Reg → Option Nat
  | none => some 0
  | some r => rf r

theorem addrOfInfo_spec (rf : Reg → Option Nat) (i : OpInfo) (a : AddrInfo) (h : addrOfInfo rf i = .ok a) :
    ∃ B I : Nat, regVal rf i.base = some B ∧ regVal rf i.index = some I ∧
      (a.address : Int) = ((B : Int) + (I : Int) * ((i.scale.getD 1 : Nat) : Int) + i.disp.getD 0) % 18446744073709551616 ∧
      a.null = (i.base.isSome && B == 0) := by
  unfold addrOfInfo at h
  cases hb : i.base with
  | none =>
    rw [hb] at h
    simp only at h
    cases hi : i.index with
    | none =>
      rw [hi] at h
      simp only [Res.ok.injEq] at h
      refine ⟨0, 0, rfl, rfl, ?_, ?_⟩
      · subst h
        simp only [wadd, i64AsU64, TWO64]
        generalize i.disp.getD 0 = d
        omega
      · subst h; rfl
    | some r =>
      rw [hi] at h
      simp only at h
      cases hr : rf r with
      | none => rw [hr] at h; cases h
      | some ix =>
        rw [hr] at h
        simp only [Res.ok.injEq] at h
        refine ⟨0, ix, rfl, by simp [regVal, hr], ?_, ?_⟩
        · subst h
          simp only [wadd, wmul, i64AsU64, TWO64]
          generalize i.disp.getD 0 = d
          generalize hp : ix * i.scale.getD 1 = p
          have : (ix : Int) * ((i.scale.getD 1 : Nat) : Int) = (p : Int) := by rw [← hp]; push_cast; rfl
          rw [this]
          omega
        · subst h; rfl
  | some rb =>
    rw [hb] at h
    simp only at h
    cases hrb : rf rb with
    | none => rw [hrb] at h; cases h
    | some b =>
      rw [hrb] at h
      simp only at h
      cases hi : i.index with
      | none =>
        rw [hi] at h
        simp only [Res.ok.injEq] at h
        refine ⟨b, 0, by simp [regVal, hrb], rfl, ?_, ?_⟩
        · subst h
          simp only [wadd, i64AsU64, TWO64]
          generalize i.disp.getD 0 = d
          omega
        · subst h; simp
      | some r =>
        rw [hi] at h
        simp only at h
        cases hr : rf r with
        | none => rw [hr] at h; cases h
        | some ix =>
          rw [hr] at h
          simp only [Res.ok.injEq] at h
          refine ⟨b, ix, by simp [regVal, hrb], by simp [regVal, hr], ?_, ?_⟩
          · subst h
            simp only [wadd, wmul, i64AsU64, TWO64]
            generalize i.disp.getD 0 = d
            generalize hp : ix * i.scale.getD 1 = p
            have : (ix : Int) * ((i.scale.getD 1 : Nat) : Int) = (p : Int) := by rw [← hp]; push_cast; rfl
            rw [this]
            omega
          · subst h; simp

theorem addrOfInfo_invalid (rf : Reg → Option Nat) (i : OpInfo) :
    addrOfInfo rf i = .regInvalid ↔ regVal rf i.base = none ∨ regVal rf i.index = none := by
  unfold addrOfInfo
  cases hb : i.base with
  | none =>
    cases hi : i.index with
    | none => simp [regVal]
    | some r => cases hr : rf r <;> simp [regVal, hr]
  | some rb =>
    cases hrb : rf rb with
    | none => simp [regVal, hrb]
    | some b =>
      cases hi : i.index with
      | none => simp [regVal, hrb]
      | some r => cases hr : rf r <;> simp [regVal, hr, hrb]

/-! ### the register set -/

theorem mem_insertReg (r x : Reg) : ∀ l : List Reg, x ∈ insertReg r l ↔ x = r ∨ x ∈ l := by
  intro l
  induction l with
  | nil => simp [insertReg]
  | cons y ys ih =>
    simp only [insertReg]
    split
    · simp
    · split
      · rename_i h; subst h; simp
      · simp only [List.mem_cons, ih]
        constructor
        · rintro (h | h | h)
          · exact Or.inr (Or.inl h)
          · exact Or.inl h
          · exact Or.inr (Or.inr h)
        · rintro (h | h | h)
          · exact Or.inr (Or.inl h)
          · exact Or.inl h
          · exact Or.inr (Or.inr h)

theorem mem_regsOfInfo (i : OpInfo) (acc : List Reg) (x : Reg) :
    x ∈ regsOfInfo i acc ↔ i.base = some x ∨ i.index = some x ∨ x ∈ acc := by
  unfold regsOfInfo
  cases hb : i.base <;> cases hi : i.index <;> simp [mem_insertReg] <;> grind

theorem mem_getRegisters : ∀ (ops : List Operand) (idx : Nat) (acc l : List Reg),
    getRegisters idx ops acc = .ok l →
    ∀ x, x ∈ l ↔ x ∈ acc ∨ ∃ op ∈ ops, ∃ inf, opInfo op = some inf ∧ (inf.base = some x ∨ inf.index = some x) := by
  intro ops
  induction ops with
  | nil =>
    intro idx acc l h x
    simp only [getRegisters, Outcome.ok.injEq] at h
    subst h
    simp
  | cons op rest ih =>
    intro idx acc l h x
    simp only [getRegisters] at h
    split at h
    · cases h
    · cases hop : opInfo op with
      | none =>
        rw [hop] at h
        rw [ih (idx + 1) acc l h x]
        simp [hop]
      | some inf =>
        rw [hop] at h
        rw [ih (idx + 1) _ l h x, mem_regsOfInfo]
        simp only [List.mem_cons, exists_eq_or_imp, hop, Option.some.injEq, exists_eq_left']
        grind

/-! ### where the reported accesses come from -/

theorem operandLoop_mem (f : Nat → Operand → Outcome (Res (List MemAccess))) :
    ∀ (ops : List Operand) (idx : Nat) (l : List MemAccess), operandLoop f idx ops = .ok (.ok l) →
      ∀ m ∈ l, ∃ k op l', ops[k]? = some op ∧ f (idx + k) op = .ok (.ok l') ∧ m ∈ l' := by
  intro ops
  induction ops with
  | nil =>
    intro idx l h m hm
    simp only [operandLoop, Outcome.ok.injEq, Res.ok.injEq] at h
    subst h
    cases hm
  | cons op rest ih =>
    intro idx l h m hm
    simp only [operandLoop] at h
    split at h
    · cases h
    · cases hf : f idx op with
      | panic s => rw [hf] at h; cases h
      | ok r =>
        rw [hf] at h
        cases r with
        | regInvalid => cases h
        | ok l1 =>
          simp only at h
          cases hr : operandLoop f (idx + 1) rest with
          | panic s => rw [hr] at h; cases h
          | ok r2 =>
            rw [hr] at h
            cases r2 with
            | regInvalid => cases h
            | ok l2 =>
              simp only [Outcome.ok.injEq, Res.ok.injEq] at h
              subst h
              rcases List.mem_append.mp hm with h1 | h2
              · exact ⟨0, op, l1, rfl, by simpa using hf, h1⟩
              · obtain ⟨k, o, l', hk, hfk, hml⟩ := ih (idx + 1) l2 hr m h2
                exact ⟨k + 1, o, l', by simpa using hk, by rwa [show idx + (k + 1) = idx + 1 + k by omega], hml⟩

theorem addrOf_some (rf : Reg → Option Nat) (op : Operand) (a : AddrInfo) (h : addrOf rf op = .ok (some a)) :
    ∃ inf, opInfo op = some inf ∧ addrOfInfo rf inf = .ok a := by
  unfold addrOf at h
  cases hi : opInfo op with
  | none => rw [hi] at h; cases h
  | some inf =>
    rw [hi] at h
    simp only at h
    cases ha : addrOfInfo rf inf with
    | regInvalid => rw [ha] at h; cases h
    | ok a' =>
      rw [ha] at h
      simp only [Res.ok.injEq, Option.some.injEq] at h
      subst h
      exact ⟨inf, rfl, ha⟩

theorem explicitDerivable_mem (ad : AD) (rf : Reg → Option Nat) (ms : Option Nat) (idx : Nat) (op : Operand)
    (l : List MemAccess) (h : explicitDerivable ad rf ms idx op = .ok (.ok l)) (m : MemAccess) (hm : m ∈ l) :
    op.isMemory = true ∧ accessTypeOf ad idx = .ok (some m.ty) ∧ m.size = ms ∧
      ∃ inf, opInfo op = some inf ∧ addrOfInfo rf inf = .ok m.info := by
  unfold explicitDerivable at h
  split at h
  · simp only [Outcome.ok.injEq, Res.ok.injEq] at h; subst h; cases hm
  · rename_i hmem
    have hmem : op.isMemory = true := by cases hx : op.isMemory <;> simp [hx] at hmem ⊢
    cases ht : accessTypeOf ad idx with
    | panic s => rw [ht] at h; cases h
    | ok t =>
      rw [ht] at h
      cases t with
      | none => simp only [Outcome.ok.injEq, Res.ok.injEq] at h; subst h; cases hm
      | some ty =>
        simp only at h
        cases ha : addrOf rf op with
        | regInvalid => rw [ha] at h; cases h
        | ok a =>
          rw [ha] at h
          cases a with
          | none => simp only [Outcome.ok.injEq, Res.ok.injEq] at h; subst h; cases hm
          | some a =>
            simp only [Outcome.ok.injEq, Res.ok.injEq] at h
            subst h
            simp only [List.mem_singleton] at hm
            subst hm
            exact ⟨hmem, rfl, rfl, addrOf_some rf op a ha⟩

theorem explicitUnderivable_mem (rf : Reg → Option Nat) (ms : Option Nat) (op : Operand)
    (l : List MemAccess) (h : explicitUnderivable rf ms op = .ok (.ok l)) (m : MemAccess) (hm : m ∈ l) :
    op.isMemory = true ∧ m.ty = .underivable ∧ m.size = ms ∧
      ∃ inf, opInfo op = some inf ∧ addrOfInfo rf inf = .ok m.info := by
  unfold explicitUnderivable at h
  split at h
  · simp only [Outcome.ok.injEq, Res.ok.injEq] at h; subst h; cases hm
  · rename_i hmem
    have hmem : op.isMemory = true := by cases hx : op.isMemory <;> simp [hx] at hmem ⊢
    cases ha : addrOf rf op with
    | regInvalid => rw [ha] at h; cases h
    | ok a =>
      rw [ha] at h
      cases a with
      | none => simp only [Outcome.ok.injEq, Res.ok.injEq] at h; subst h; cases hm
      | some a =>
        simp only [Outcome.ok.injEq, Res.ok.injEq] at h
        subst h
        simp only [List.mem_singleton] at hm
        subst hm
        exact ⟨hmem, rfl, rfl, addrOf_some rf op a ha⟩

end MdModel.OpAnalysis
