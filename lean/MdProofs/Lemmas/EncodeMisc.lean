/-
  MdProofs.Lemmas.EncodeMisc — C02: the MISC INFO stream reads back: the reader picks the revision
  by the stream's length alone (`do_read!`), then reads that struct.
-/
import MdProofs.Lemmas.EncodeModules
namespace MdModel.Encode
open MdModel MdModel.Dump MdModel.Gen.Layouts MdModel.Gen.LayoutsC02

/-- executable form of `Fits` (for `decide` on concrete records) -/
def fitsB : Layout → List Nat → Bool
  | [], [] => true
  | (_, w) :: l, v :: vs => decide (v < 256 ^ w) && fitsB l vs
  | _, _ => false

theorem fits_of_fitsB : ∀ {l : Layout} {vs : List Nat}, fitsB l vs = true → Fits l vs := by
  intro l
  induction l with
  | nil => intro vs h; cases vs with
    | nil => trivial
    | cons v vs => simp [fitsB] at h
  | cons f rest ih =>
    intro vs h
    obtain ⟨n, w⟩ := f
    cases vs with
    | nil => simp [fitsB] at h
    | cons v vs =>
      simp only [fitsB, Bool.and_eq_true, decide_eq_true_eq] at h
      exact ⟨h.1, ih h.2⟩

theorem misc_sizes :
    Layout.size MINIDUMP_MISC_INFO = 24 ∧ Layout.size MINIDUMP_MISC_INFO_2 = 44 ∧ Layout.size MINIDUMP_MISC_INFO_3 = 232 ∧
    Layout.size MINIDUMP_MISC_INFO_4 = 832 ∧ Layout.size MINIDUMP_MISC_INFO_5 = 1364 := by decide +kernel

/-- a misc-info model the wire format can carry: a known revision, values that fit their fields,
    and a tail too short to make the stream as long as the next revision -/
def MiscFits (x : MMiscInfo) : Prop :=
  1 ≤ x.ver ∧ x.ver ≤ 5 ∧ Fits (miscLayout x.ver) x.vals ∧
  (x.ver < 5 → miscInfoSize x < Layout.size (miscLayout (x.ver + 1)))

theorem readMiscInfoGo_skip (b : Bytes) (e : Endian) (v : Nat) (l : Layout) (rest : List (Nat × Layout))
    (h : b.size < Layout.size l) : readMiscInfoGo b e ((v, l) :: rest) = readMiscInfoGo b e rest := by
  simp only [readMiscInfoGo]
  rw [if_neg (by omega)]

theorem readMiscInfoGo_hit (b : Bytes) (e : Endian) (v : Nat) (l : Layout) (rest : List (Nat × Layout)) (vs : List Nat)
    (h : Layout.size l ≤ b.size) (hr : readFields l b 0 e = some vs) :
    (readMiscInfoGo b e ((v, l) :: rest)).res = .ok ⟨v, vs⟩ := by
  simp only [readMiscInfoGo]
  rw [if_pos (by omega), hr]
  rfl

/-- **`MinidumpMiscInfo::read` on an encoded stream**: the revision and every scalar value -/
theorem readMiscInfo_enc {s : Bytes} {e : Endian} {x : MMiscInfo} (hs : s.toList = encMiscInfo e x) (hf : MiscFits x) :
    (readMiscInfo s e).res = .ok ⟨x.ver, x.vals⟩ := by
  obtain ⟨h1, h5, hfit, hnext⟩ := hf
  obtain ⟨s1, s2, s3, s4, s5⟩ := misc_sizes
  have hrd : readFields (miscLayout x.ver) s 0 e = some x.vals := readFields_has hfit (Has.prefix0 hs)
  have hsize : s.size = miscInfoSize x := by
    have := congrArg List.length hs
    simpa [encMiscInfo, miscInfoSize] using this
  unfold miscInfoSize at hsize hnext
  have hv : x.ver = 1 ∨ x.ver = 2 ∨ x.ver = 3 ∨ x.ver = 4 ∨ x.ver = 5 := by omega
  have l1 : miscLayout 1 = MINIDUMP_MISC_INFO := rfl
  have l2 : miscLayout 2 = MINIDUMP_MISC_INFO_2 := rfl
  have l3 : miscLayout 3 = MINIDUMP_MISC_INFO_3 := rfl
  have l4 : miscLayout 4 = MINIDUMP_MISC_INFO_4 := rfl
  have l5 : miscLayout 5 = MINIDUMP_MISC_INFO_5 := rfl
  unfold readMiscInfo MISC_LAYOUTS
  rcases hv with hv | hv | hv | hv | hv <;> rw [hv] at hrd hsize hnext ⊢
  · rw [l1] at hrd hsize; rw [l2] at hnext
    have hn := hnext (by omega)
    rw [l1] at hn
    rw [readMiscInfoGo_skip _ _ _ _ _ (by omega), readMiscInfoGo_skip _ _ _ _ _ (by omega),
      readMiscInfoGo_skip _ _ _ _ _ (by omega), readMiscInfoGo_skip _ _ _ _ _ (by omega)]
    exact readMiscInfoGo_hit _ _ _ _ _ _ (by omega) hrd
  · rw [l2] at hrd hsize; rw [l3] at hnext
    have hn := hnext (by omega)
    rw [l2] at hn
    rw [readMiscInfoGo_skip _ _ _ _ _ (by omega), readMiscInfoGo_skip _ _ _ _ _ (by omega),
      readMiscInfoGo_skip _ _ _ _ _ (by omega)]
    exact readMiscInfoGo_hit _ _ _ _ _ _ (by omega) hrd
  · rw [l3] at hrd hsize; rw [l4] at hnext
    have hn := hnext (by omega)
    rw [l3] at hn
    rw [readMiscInfoGo_skip _ _ _ _ _ (by omega), readMiscInfoGo_skip _ _ _ _ _ (by omega)]
    exact readMiscInfoGo_hit _ _ _ _ _ _ (by omega) hrd
  · rw [l4] at hrd hsize; rw [l5] at hnext
    have hn := hnext (by omega)
    rw [l4] at hn
    rw [readMiscInfoGo_skip _ _ _ _ _ (by omega)]
    exact readMiscInfoGo_hit _ _ _ _ _ _ (by omega) hrd
  · rw [l5] at hrd hsize
    exact readMiscInfoGo_hit _ _ _ _ _ _ (by omega) hrd

end MdModel.Encode
