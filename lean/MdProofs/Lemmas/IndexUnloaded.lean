/-
  Helper lemmas for C14: unloaded-module offsets of a frame, on top of C08's `unloaded_exact`
  and `safe_ok`.
-/
import MdModel.Index
import MdProofs.C08
namespace MdModel.Index
open MdModel MdModel.RangeMap

/-- an unloaded module record covers the address: its `memory_range()` exists and contains it -/
def covers (m : Mod) (a : Nat) : Bool :=
  match mkRange m.base m.size with
  | some r => r.contains a
  | none => false

theorem covers_iff (m : Mod) (a : Nat) :
    covers m a = true ↔ m.size ≠ 0 ∧ m.base + m.size ≤ U64MAX ∧ m.base ≤ a ∧ a < m.base + m.size := by
  unfold covers mkRange
  split
  · rename_i r h
    split at h
    · cases h
    · split at h
      · cases h
      · cases h
        simp only [Rng.contains, Bool.and_eq_true, decide_eq_true_eq]
        omega
  · rename_i h
    split at h
    · simp; omega
    · split at h
      · simp; omega
      · cases h

theorem mapM_option_all {α β : Type} (g : α → Option β) (g' : α → β) (l : List α)
    (h : ∀ i ∈ l, g i = some (g' i)) : l.mapM g = some (l.map g') := by
  induction l with
  | nil => rfl
  | cons x rest ih =>
    rw [List.mapM_cons, h x List.mem_cons_self, ih (fun i hi => h i (List.mem_cons_of_mem _ hi))]
    rfl

/-- the indices the unloaded-module lookup returns, characterised through C08's `unloaded_exact` -/
theorem mem_unloadedAt (ums : List Mod) (a i : Nat) :
    i ∈ unloadedAt (unloadedFrom (ums.map fun m => mkRange m.base m.size)) a ↔
      ∃ m, ums[i]? = some m ∧ covers m a = true := by
  rw [(unloaded_exact _ a).mem_iff]
  simp only [List.mem_map, List.mem_filter, validOnly, List.mem_filterMap, Option.map_eq_some_iff]
  constructor
  · rintro ⟨e, ⟨⟨x, ⟨y, hy, rfl⟩, r, hr, rfl⟩, hc⟩, rfl⟩
    rw [List.mem_zipIdx_iff_getElem?, List.getElem?_map] at hy
    simp only [Option.map_eq_some_iff] at hy
    obtain ⟨m, hm, hmk⟩ := hy
    refine ⟨m, hm, ?_⟩
    simp only at hr
    unfold covers
    rw [hmk, hr]
    exact hc
  · rintro ⟨m, hm, hc⟩
    unfold covers at hc
    split at hc
    · rename_i r hr
      refine ⟨(r, i), ⟨⟨(some r, i), ⟨(some r, i), ?_, rfl⟩, r, rfl, rfl⟩, hc⟩, rfl⟩
      rw [List.mem_zipIdx_iff_getElem?, List.getElem?_map, hm]
      simp [hr]
    · cases hc

/-- **the per-frame offsets never panic and are exactly those of the covering modules** -/
theorem offsetsAt_spec (ums : List Mod) (a : Nat) :
    ∃ l, offsetsAt ums a = some l ∧
      ∀ name off, (name, off) ∈ l ↔ ∃ m ∈ ums, covers m a = true ∧ name = m.name ∧ off = a - m.base := by
  let g' : Nat → String × Nat := fun i =>
    match ums[i]? with
    | some m => (m.name, a - m.base)
    | none => ("", 0)
  refine ⟨(unloadedAt (unloadedFrom (ums.map fun m => mkRange m.base m.size)) a).map g', ?_, ?_⟩
  · unfold offsetsAt
    apply mapM_option_all
    intro i hi
    obtain ⟨m, hm, hc⟩ := (mem_unloadedAt ums a i).mp hi
    have hle : m.base ≤ a := ((covers_iff m a).mp hc).2.2.1
    simp only [g', hm, if_pos hle]
  · intro name off
    simp only [List.mem_map]
    constructor
    · rintro ⟨i, hi, hg⟩
      obtain ⟨m, hm, hc⟩ := (mem_unloadedAt ums a i).mp hi
      simp only [g', hm, Prod.mk.injEq] at hg
      exact ⟨m, List.mem_iff_getElem?.mpr ⟨i, hm⟩, hc, hg.1.symm, hg.2.symm⟩
    · rintro ⟨m, hmem, hc, rfl, rfl⟩
      obtain ⟨i, hm⟩ := List.mem_iff_getElem?.mp hmem
      exact ⟨i, (mem_unloadedAt ums a i).mpr ⟨m, hm, hc⟩, by simp only [g', hm]⟩

/-- the attribution of one frame cannot panic -/
theorem attachFrame_some (ums : List Mod) (f : Walk.Frame) : ∃ x, attachFrame ums f = some x := by
  unfold attachFrame
  split
  · exact ⟨_, rfl⟩
  · obtain ⟨l, hl, -⟩ := offsetsAt_spec ums f.instruction
    rw [hl]
    exact ⟨_, rfl⟩

/-- … and stores exactly `frame.unloaded_modules` -/
theorem attachFrame_spec (ums : List Mod) (f : Walk.Frame) (x : IFrame) (h : attachFrame ums f = some x) :
    x.f = f ∧
    (∀ i, f.module = some i → x.unloaded = []) ∧
    (f.module = none → ∀ name off, (name, off) ∈ x.unloaded ↔
        ∃ m ∈ ums, covers m f.instruction = true ∧ name = m.name ∧ off = f.instruction - m.base) := by
  unfold attachFrame at h
  split at h
  · rename_i i hi
    cases h
    exact ⟨rfl, (fun _ _ => rfl), fun hn => by rw [hn] at hi; cases hi⟩
  · rename_i hn
    obtain ⟨l, hl, hspec⟩ := offsetsAt_spec ums f.instruction
    rw [hl] at h
    cases h
    exact ⟨rfl, (fun i hi => by rw [hi] at hn; cases hn), fun _ => hspec⟩

/-- the `unwrap` inside `into_rangemap_safe` cannot fire for index-valued `memory_range()` tables
    (C08's `safe_ok`) -/
theorem tableOk_modEntries (ms : List Mod) : tableOk (modEntries ms) = true := by
  unfold tableOk
  rw [safe_ok]
  intro e he r hr
  simp only [modEntries, List.mem_map] at he
  obtain ⟨⟨m, i⟩, -, rfl⟩ := he
  simp only at hr
  have := mkRange_wf hr
  exact ⟨this.1, this.2.1⟩

theorem memEntries_wf (rs : List Walk.Mem) : InputWF (memEntries rs) := by
  intro e he r hr
  simp only [memEntries, List.mem_map] at he
  obtain ⟨⟨m, i⟩, -, rfl⟩ := he
  simp only at hr
  have := mkRange_wf hr
  exact ⟨this.1, this.2.1⟩

theorem tableOk_memEntries (rs : List Walk.Mem) : tableOk (memEntries rs) = true := by
  unfold tableOk
  rw [safe_ok _ (memEntries_wf rs)]

end MdModel.Index
