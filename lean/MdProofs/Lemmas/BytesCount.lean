/-
  MdProofs.Lemmas.BytesCount — how MANY allocations the readers make: at most a constant per
  stream plus a constant per entry the stream can back, hence linear in the file length; with
  `alloc_backed` (each at most `K * len` bytes) the total is at most quadratic.
-/
import MdProofs.Lemmas.BytesStreams
namespace MdModel.Dump
open MdModel MdModel.Gen.Layouts

/-- at most `N` allocations are logged -/
def CntLe {α : Type} (N : Nat) (m : M α) : Prop := m.allocs.length ≤ N

theorem cnt_pure {α : Type} (a : α) : CntLe 0 (pure a : M α) := Nat.le_refl _
theorem cnt_fail {α : Type} (e : Err) : CntLe 0 (M.fail e : M α) := Nat.le_refl _
theorem cnt_alloc (n sz : Nat) (ex : Bool) : CntLe 1 (M.alloc n sz ex) := Nat.le_refl _

theorem CntLe.mono {α : Type} {N N' : Nat} {m : M α} (h : CntLe N m) (hle : N ≤ N') : CntLe N' m :=
  Nat.le_trans h hle

theorem cnt_bind {α β : Type} {A C : Nat} {x : M α} {f : α → M β}
    (hx : CntLe A x) (hf : ∀ a, x.res = .ok a → CntLe C (f a)) : CntLe (A + C) (x >>= f) := by
  rw [M.bind_def]
  unfold M.bind' CntLe
  unfold CntLe at hx
  cases hres : x.res with
  | ok a =>
    have := hf a hres
    unfold CntLe at this
    simp only [List.length_append]
    omega
  | err e => simp only; omega
  | panic s => simp only; omega

theorem cnt_catch {α : Type} {N : Nat} {x : M α} (hx : CntLe N x) : CntLe N (M.catch' x) := by
  unfold M.catch' CntLe
  unfold CntLe at hx
  cases x.res <;> exact hx

theorem cnt_ofOption {α : Type} (e : Err) (o : Option α) : CntLe 0 (M.ofOption e o) := by
  cases o <;> exact Nat.le_refl _

theorem cnt_ofExcept {α : Type} (o : Except Err α) : CntLe 0 (M.ofExcept o) := by
  cases o <;> exact Nat.le_refl _

theorem cnt_usizeAdd (site : String) (a b : Nat) : CntLe 0 (usizeAdd site a b) := by
  unfold usizeAdd; split <;> exact Nat.le_refl _

theorem cnt_usizeSub (site : String) (a b : Nat) : CntLe 0 (usizeSub site a b) := by
  unfold usizeSub; split <;> exact Nat.le_refl _

theorem cnt_sliceRange (site : String) (b : Bytes) (lo hi : Nat) : CntLe 0 (sliceRange site b lo hi) := by
  unfold sliceRange; split <;> exact Nat.le_refl _

/-! ### the readers -/

theorem cnt_readStringUtf16 (b : Bytes) (off : Nat) (e : Endian) : CntLe 1 (readStringUtf16 b off e) := by
  unfold readStringUtf16
  split
  · exact (cnt_pure _).mono (by omega)
  · split
    · exact (cnt_pure _).mono (by omega)
    · refine (cnt_bind (cnt_usizeAdd _ _ _) (C := 1) (fun stop _ => ?_)).mono (by omega)
      split
      · exact (cnt_pure _).mono (by omega)
      · refine (cnt_bind (cnt_sliceRange _ _ _ _) (C := 1) (fun s _ => ?_)).mono (by omega)
        refine (cnt_bind (cnt_alloc _ _ _) (C := 0) (fun _ _ => ?_)).mono (by omega)
        split <;> exact cnt_pure _

theorem cnt_cvTail (src : Bytes) (fixed : Nat) : CntLe 1 (cvTail src fixed) := by
  unfold cvTail
  refine (cnt_bind (cnt_usizeSub _ _ _) (C := 1) (fun n _ => ?_)).mono (by omega)
  exact (cnt_bind (cnt_alloc _ _ _) (C := 0) (fun _ _ => cnt_pure _)).mono (by omega)

theorem cnt_readCodeview (all : Bytes) (e : Endian) (loc : Loc) : CntLe 1 (readCodeview all e loc) := by
  unfold readCodeview
  split
  · exact (cnt_pure _).mono (by omega)
  · split
    · exact (cnt_pure _).mono (by omega)
    · split
      · split
        · exact (cnt_pure _).mono (by omega)
        · exact (cnt_bind (cnt_cvTail _ _) (C := 0) (fun _ _ => cnt_pure _)).mono (by omega)
      · split
        · split
          · exact (cnt_pure _).mono (by omega)
          · exact (cnt_bind (cnt_cvTail _ _) (C := 0) (fun _ _ => cnt_pure _)).mono (by omega)
        · split
          · exact (cnt_bind (cnt_cvTail _ _) (C := 0) (fun _ _ => cnt_pure _)).mono (by omega)
          · exact (cnt_bind (cnt_alloc _ _ _) (C := 0) (fun _ _ => cnt_pure _)).mono (by omega)

theorem cnt_readStreamList (l : Layout) (memSz : Nat) (b : Bytes) (e : Endian) :
    CntLe 1 (readStreamList l memSz b e) := by
  unfold readStreamList
  split
  · exact (cnt_fail _).mono (by omega)
  · split
    · exact (cnt_fail _).mono (by omega)
    · refine (cnt_bind (cnt_usizeSub _ _ _) (C := 1) (fun rest _ => ?_)).mono (by omega)
      refine (cnt_bind (A := 0) (C := 1)
        (x := if rest = 0 then pure 4 else if rest = 4 then usizeAdd _ 4 4 else M.fail _) ?_ (fun off _ => ?_)).mono (by omega)
      · split
        · exact cnt_pure _
        · split
          · exact cnt_usizeAdd _ _ _
          · exact cnt_fail _
      · exact (cnt_bind (cnt_alloc _ _ _) (C := 0) (fun _ _ => cnt_ofOption _ _)).mono (by omega)

theorem cnt_readExStreamList (l : Layout) (memSz : Nat) (b : Bytes) (e : Endian) :
    CntLe 1 (readExStreamList l memSz b e) := by
  unfold readExStreamList
  split
  · split
    · exact (cnt_fail _).mono (by omega)
    · split
      · exact (cnt_fail _).mono (by omega)
      · split
        · exact (cnt_fail _).mono (by omega)
        · refine (cnt_bind (cnt_usizeAdd _ _ _) (C := 1) (fun off _ => ?_)).mono (by omega)
          exact (cnt_bind (cnt_alloc _ _ _) (C := 0) (fun _ _ => cnt_ofOption _ _)).mono (by omega)
  · exact (cnt_fail _).mono (by omega)

theorem cnt_readModule (all : Bytes) (e : Endian) (raw : RawModule) : CntLe 2 (readModule all e raw) := by
  unfold readModule
  refine (cnt_bind (cnt_readStringUtf16 _ _ _) (C := 1) (fun r _ => ?_)).mono (by omega)
  split
  · exact (cnt_fail _).mono (by omega)
  · split
    · exact (cnt_pure _).mono (by omega)
    · refine (cnt_bind (cnt_readCodeview _ _ _) (C := 0) (fun cv _ => ?_)).mono (by omega)
      split
      · exact cnt_fail _
      · exact cnt_pure _

theorem cnt_readModules (all : Bytes) (e : Endian) :
    ∀ raws : List RawModule, CntLe (2 * raws.length) (readModules all e raws) := by
  intro raws
  induction raws with
  | nil => exact cnt_pure _
  | cons r rs ih =>
    unfold readModules
    split
    · exact ih.mono (by simp; omega)
    · refine (cnt_bind (cnt_readModule all e r) (C := 2 * rs.length) (fun m _ => ?_)).mono (by simp; omega)
      exact (cnt_bind ih (C := 0) (fun ms _ => cnt_pure _)).mono (by omega)

theorem cnt_readModuleList (ms : MemSizes) (b all : Bytes) (e : Endian) :
    CntLe (2 + b.size / 8) (readModuleList ms b all e) := by
  unfold readModuleList
  by_cases hok : ∃ raws, (readStreamList MINIDUMP_MODULE ms.rawModule b e).res = .ok raws
  · obtain ⟨raws0, h0⟩ := hok
    have hl := readStreamList_ok h0
    rw [size_module] at hl
    refine (cnt_bind (cnt_readStreamList _ _ _ _) (C := 1 + 2 * raws0.length) (fun raws hraws => ?_)).mono (by omega)
    have : raws = raws0 := by rw [h0] at hraws; cases hraws; rfl
    subst this
    exact (cnt_bind (cnt_alloc _ _ _) (fun _ _ => cnt_readModules all e _)).mono (by simp)
  · refine (cnt_bind (cnt_readStreamList _ _ _ _) (C := 0) (fun raws hraws => ?_)).mono (by omega)
    exact absurd ⟨raws, hraws⟩ hok

theorem cnt_readUnloadedModules (all : Bytes) (e : Endian) :
    ∀ raws : List (List Nat), CntLe raws.length (readUnloadedModules all e raws) := by
  intro raws
  induction raws with
  | nil => exact cnt_pure _
  | cons v vs ih =>
    unfold readUnloadedModules
    split
    · exact (cnt_fail _).mono (by omega)
    · refine (cnt_bind (cnt_readStringUtf16 _ _ _) (C := vs.length) (fun r _ => ?_)).mono (by simp; omega)
      split
      · exact (cnt_fail _).mono (by omega)
      · exact (cnt_bind ih (C := 0) (fun ms _ => cnt_pure _)).mono (by omega)

theorem cnt_readUnloadedModuleList (ms : MemSizes) (b all : Bytes) (e : Endian) :
    CntLe (2 + b.size / 8) (readUnloadedModuleList ms b all e) := by
  unfold readUnloadedModuleList
  by_cases hok : ∃ raws, (readExStreamList MINIDUMP_UNLOADED_MODULE ms.rawUnloaded b e).res = .ok raws
  · obtain ⟨raws0, h0⟩ := hok
    have hl := readExStreamList_ok h0
    rw [size_unloaded] at hl
    refine (cnt_bind (cnt_readExStreamList _ _ _ _) (C := 1 + raws0.length) (fun raws hraws => ?_)).mono (by omega)
    have : raws = raws0 := by rw [h0] at hraws; cases hraws; rfl
    subst this
    exact (cnt_bind (cnt_alloc _ _ _) (fun _ _ => cnt_readUnloadedModules all e _)).mono (by simp)
  · refine (cnt_bind (cnt_readExStreamList _ _ _ _) (C := 0) (fun raws hraws => ?_)).mono (by omega)
    exact absurd ⟨raws, hraws⟩ hok

theorem cnt_readNames (all : Bytes) (e : Endian) :
    ∀ (raws : List (List Nat)) (acc : List (Nat × List Nat)), CntLe raws.length (readNames all e raws acc) := by
  intro raws
  induction raws with
  | nil => intro acc; exact cnt_pure _
  | cons v vs ih =>
    intro acc
    unfold readNames
    refine (cnt_bind (cnt_readStringUtf16 _ _ _) (C := vs.length) (fun r _ => ?_)).mono (by simp; omega)
    split
    · exact ih _
    · exact ih _

theorem cnt_readThreadNames (ms : MemSizes) (b all : Bytes) (e : Endian) :
    CntLe (1 + b.size / 8) (readThreadNames ms b all e) := by
  unfold readThreadNames
  by_cases hok : ∃ raws, (readStreamList MINIDUMP_THREAD_NAME ms.rawThreadName b e).res = .ok raws
  · obtain ⟨raws0, h0⟩ := hok
    have hl := readStreamList_ok h0
    rw [size_threadname] at hl
    refine (cnt_bind (cnt_readStreamList _ _ _ _) (C := raws0.length) (fun raws hraws => ?_)).mono (by omega)
    have : raws = raws0 := by rw [h0] at hraws; cases hraws; rfl
    subst this
    exact cnt_readNames all e _ _
  · refine (cnt_bind (cnt_readStreamList _ _ _ _) (C := 0) (fun raws hraws => ?_)).mono (by omega)
    exact absurd ⟨raws, hraws⟩ hok

theorem cnt_readMemoryList (ms : MemSizes) (b all : Bytes) (e : Endian) : CntLe 2 (readMemoryList ms b all e) := by
  unfold readMemoryList
  refine (cnt_bind (cnt_readStreamList _ _ _ _) (C := 1) (fun raws _ => ?_)).mono (by omega)
  exact (cnt_bind (cnt_alloc _ _ _) (C := 0) (fun _ _ => cnt_pure _)).mono (by omega)

theorem cnt_readMemory64List (ms : MemSizes) (b all : Bytes) (e : Endian) : CntLe 2 (readMemory64List ms b all e) := by
  unfold readMemory64List
  split
  · split
    · exact (cnt_fail _).mono (by omega)
    · split
      · exact (cnt_fail _).mono (by omega)
      · refine (cnt_bind (cnt_alloc _ _ _) (C := 1) (fun _ _ => ?_)).mono (by omega)
        refine (cnt_bind (cnt_ofOption _ _) (C := 1) (fun raws _ => ?_)).mono (by omega)
        exact (cnt_bind (cnt_alloc _ _ _) (C := 0) (fun _ _ => cnt_ofExcept _)).mono (by omega)
  · exact (cnt_fail _).mono (by omega)

theorem cnt_readMemoryInfoList (ms : MemSizes) (b : Bytes) (e : Endian) : CntLe 2 (readMemoryInfoList ms b e) := by
  unfold readMemoryInfoList
  refine (cnt_bind (cnt_readExStreamList _ _ _ _) (C := 1) (fun raws _ => ?_)).mono (by omega)
  exact (cnt_bind (cnt_alloc _ _ _) (C := 0) (fun _ _ => cnt_pure _)).mono (by omega)

theorem cnt_readThreadList (ms : MemSizes) (b all : Bytes) (e : Endian) : CntLe 3 (readThreadList ms b all e) := by
  unfold readThreadList
  refine (cnt_bind (cnt_readStreamList _ _ _ _) (C := 2) (fun raws _ => ?_)).mono (by omega)
  refine (cnt_bind (cnt_alloc _ _ _) (C := 1) (fun _ _ => ?_)).mono (by omega)
  exact (cnt_bind (cnt_alloc _ _ _) (C := 0) (fun _ _ => cnt_pure _)).mono (by omega)

theorem cnt_readThreadInfoList (ms : MemSizes) (b : Bytes) (e : Endian) : CntLe 3 (readThreadInfoList ms b e) := by
  unfold readThreadInfoList
  refine (cnt_bind (cnt_readExStreamList _ _ _ _) (C := 2) (fun raws _ => ?_)).mono (by omega)
  refine (cnt_bind (cnt_alloc _ _ _) (C := 1) (fun _ _ => ?_)).mono (by omega)
  exact (cnt_bind (cnt_alloc _ _ _) (C := 0) (fun _ _ => cnt_pure _)).mono (by omega)

theorem cnt_handleString (all : Bytes) (e : Endian) (off : Nat) : CntLe 1 (handleString all e off) := by
  unfold handleString
  split
  · exact (cnt_pure _).mono (by omega)
  · exact (cnt_bind (cnt_readStringUtf16 _ _ _) (C := 0) (fun _ _ => cnt_pure _)).mono (by omega)

theorem cnt_readHandleDescriptor (ms : MemSizes) (b all : Bytes) (e : Endian) (fieldsize off : Nat) :
    CntLe 3 (readHandleDescriptor ms b all e fieldsize off) := by
  unfold readHandleDescriptor
  split
  · split
    · exact (cnt_pure _).mono (by omega)
    · refine (cnt_bind (cnt_handleString _ _ _) (C := 1) (fun _ _ => ?_)).mono (by omega)
      exact (cnt_bind (cnt_handleString _ _ _) (C := 0) (fun _ _ => cnt_pure _)).mono (by omega)
  · split
    · split
      · exact (cnt_pure _).mono (by omega)
      · refine (cnt_bind (cnt_handleString _ _ _) (C := 2) (fun _ _ => ?_)).mono (by omega)
        refine (cnt_bind (cnt_handleString _ _ _) (C := 1) (fun _ _ => ?_)).mono (by omega)
        split
        · exact Nat.zero_le _
        · exact (cnt_bind (cnt_alloc _ _ _) (C := 0) (fun _ _ => cnt_pure _)).mono (by omega)
    · exact (cnt_pure _).mono (by omega)

theorem cnt_readHandles (ms : MemSizes) (b all : Bytes) (e : Endian) (fieldsize : Nat) :
    ∀ n off, CntLe (3 * n) (readHandles ms b all e fieldsize n off) := by
  intro n
  induction n with
  | zero => intro off; exact cnt_pure _
  | succ n ih =>
    intro off
    unfold readHandles
    split
    · exact (cnt_fail _).mono (by omega)
    · refine (cnt_bind (cnt_readHandleDescriptor ms b all e fieldsize off) (C := 3 * n) (fun h _ => ?_)).mono (by omega)
      split
      · exact (cnt_fail _).mono (by omega)
      · exact (cnt_bind (ih _) (C := 0) (fun _ _ => cnt_pure _)).mono (by omega)

theorem cnt_readHandleData (ms : MemSizes) (b all : Bytes) (e : Endian) :
    CntLe (1 + b.size / 8) (readHandleData ms b all e) := by
  unfold readHandleData
  split
  · rename_i hdr desc count _ _ _
    split
    · exact (cnt_fail _).mono (by omega)
    · rename_i x hc
      have ⟨hc1, hc2⟩ := ensureCountInBound_ok hc
      split
      · exact (cnt_fail _).mono (by omega)
      · rename_i hcond
        rw [size_handle1, size_handle2] at hcond
        refine (cnt_bind (cnt_alloc _ _ _) (fun _ _ => cnt_readHandles ms b all e desc _ _)).mono ?_
        by_cases h0 : count = 0
        · subst h0; omega
        · have hd : desc = 32 ∨ desc = 40 := by
            by_cases h32 : desc = 32
            · exact .inl h32
            · by_cases h40 : desc = 40
              · exact .inr h40
              · exact absurd ⟨h0, h32, h40⟩ hcond
          have hcd : count * 32 ≤ b.size := by
            cases hd with
            | inl h => subst h; omega
            | inr h => subst h; omega
          omega
  · exact (cnt_fail _).mono (by omega)

theorem cnt_readException (b all : Bytes) (e : Endian) : CntLe 0 (readException b all e) := by
  unfold readException
  split
  · exact cnt_fail _
  · exact cnt_pure _

theorem cnt_getStream {α : Type} {N : Nat} (d : Dump) (b : Bytes) (ty : Nat) (reader : Bytes → M α)
    (h : ∀ s, s.size ≤ b.size → CntLe (N + s.size / 8) (reader s)) :
    CntLe (N + b.size / 8) (getStream d b ty reader) := by
  unfold getStream
  split
  · exact (cnt_pure _).mono (by omega)
  · rename_i s hs
    have hsz := getRawStream_size hs
    exact (cnt_catch (h s hsz)).mono (by omega)

theorem cnt_readCore (ms : MemSizes) (b : Bytes) (d : Dump) : CntLe (21 + 10 * (b.size / 8)) (readCore ms b d) := by
  unfold readCore
  dsimp only
  refine (cnt_bind (cnt_getStream (N := 3) _ _ _ _ (fun s _ => (cnt_readThreadList ms s b _).mono (by omega)))
    (C := 18 + 9 * (b.size / 8)) (fun _ _ => ?_)).mono (by omega)
  refine (cnt_bind (cnt_getStream (N := 2) _ _ _ _ (fun s _ => cnt_readModuleList ms s b _))
    (C := 16 + 8 * (b.size / 8)) (fun _ _ => ?_)).mono (by omega)
  refine (cnt_bind (cnt_getStream (N := 2) _ _ _ _ (fun s _ => cnt_readUnloadedModuleList ms s b _))
    (C := 14 + 7 * (b.size / 8)) (fun _ _ => ?_)).mono (by omega)
  refine (cnt_bind (cnt_getStream (N := 2) _ _ _ _ (fun s _ => (cnt_readMemoryList ms s b _).mono (by omega)))
    (C := 12 + 6 * (b.size / 8)) (fun _ _ => ?_)).mono (by omega)
  refine (cnt_bind (cnt_getStream (N := 2) _ _ _ _ (fun s _ => (cnt_readMemory64List ms s b _).mono (by omega)))
    (C := 10 + 5 * (b.size / 8)) (fun _ _ => ?_)).mono (by omega)
  refine (cnt_bind (cnt_getStream (N := 2) _ _ _ _ (fun s _ => (cnt_readMemoryInfoList ms s _).mono (by omega)))
    (C := 8 + 4 * (b.size / 8)) (fun _ _ => ?_)).mono (by omega)
  refine (cnt_bind (cnt_getStream (N := 1) _ _ _ _ (fun s _ => cnt_readThreadNames ms s b _))
    (C := 7 + 3 * (b.size / 8)) (fun _ _ => ?_)).mono (by omega)
  refine (cnt_bind (cnt_getStream (N := 3) _ _ _ _ (fun s _ => (cnt_readThreadInfoList ms s _).mono (by omega)))
    (C := 4 + 2 * (b.size / 8)) (fun _ _ => ?_)).mono (by omega)
  refine (cnt_bind (cnt_getStream (N := 1) _ _ _ _ (fun s _ => cnt_readHandleData ms s b _))
    (C := 3 + 1 * (b.size / 8)) (fun _ _ => ?_)).mono (by omega)
  refine (cnt_bind (cnt_getStream (N := 3) _ _ _ _ (fun s _ => (cnt_readException s b _).mono (by omega)))
    (C := 0) (fun _ _ => cnt_pure _)).mono (by omega)

/-- sum of the bytes of all logged allocations -/
def totalBytes (as : List Alloc) : Nat := (as.map Alloc.bytes).sum

theorem totalBytes_le (as : List Alloc) (B : Nat) (h : ∀ a ∈ as, a.bytes ≤ B) : totalBytes as ≤ as.length * B := by
  induction as with
  | nil => simp [totalBytes]
  | cons a rest ih =>
    have h1 := h a (List.mem_cons_self)
    have h2 := ih (fun x hx => h x (List.mem_cons_of_mem _ hx))
    simp only [totalBytes, List.map_cons, List.sum_cons, List.length_cons] at *
    rw [Nat.add_mul]
    omega

end MdModel.Dump
