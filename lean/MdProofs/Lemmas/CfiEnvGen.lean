/-
  C06 inside the stack-walk environment, generalised over the environment's symbolication.

  `FollowsC06` (C06Env.lean) speaks about the registers / validity set / trust / lookup address of a
  `cfi` frame and about the world `(arch, w, mem0)`; it does not mention `Frame.module` /
  `Frame.func`, i.e. nothing `Env.symb` computes. `follows_of_step` / `walk_frames_follow_c06` were
  stated about `Walk.mkEnv`; here they are re-proved for ANY `Env` described by the three fields the
  C06 theorems look at (`CfiEnv`): its architecture, its pointer-authentication mask, and its
  `get_caller_by_cfi` being `Walk.cfiOf` over the world's tables. `symb`, `instrOk`, `os` are free.

  Generic already and reused as they are: `cfi_frame_epilogue`, `walk_steps`, `CfiOk`.
-/
import MdProofs.C06Env
namespace MdModel.CfiBridge
open MdModel

/-- **`CfiEnv env arch os w mem0`** — the fields of `env` the C06-in-the-environment theorems depend
    on: `env` unwinds as `arch`, strips pointer authentication with the mask computed from `w`'s
    module table (what `mkEnv arch os w mem0` uses — `os` does not enter it), and its
    `get_caller_by_cfi` is STACK CFI evaluation `Walk.cfiOf` over `w`'s module table and CFI tables
    on the stack memory `mem0`. Nothing is asked of `env.symb`, `env.instrOk`, `env.os`. -/
structure CfiEnv (env : Walk.Env) (arch : Walk.Arch) (os : Walk.Os) (w : Walk.World) (mem0 : Walk.Mem) : Prop where
  harch : env.arch = arch
  hmask : env.mask = (Walk.mkEnv arch os w mem0).mask
  hcfi : env.cfi = Walk.cfiOf arch w (Walk.modTable w.mods) (Walk.cfiTables w) env.mask mem0

theorem CfiEnv.cfi_eq {env : Walk.Env} {arch : Walk.Arch} {os : Walk.Os} {w : Walk.World} {mem0 : Walk.Mem}
    (h : CfiEnv env arch os w mem0) : env.cfi = (Walk.mkEnv arch os w mem0).cfi := by
  rw [h.hcfi, h.hmask]
  rfl

/-- `mkEnv` is such an environment -/
theorem mkEnv_cfiEnv (arch : Walk.Arch) (os : Walk.Os) (w : Walk.World) (mem0 : Walk.Mem) :
    CfiEnv (Walk.mkEnv arch os w mem0) arch os w mem0 := ⟨rfl, rfl, rfl⟩

/-- the CFI oracle of such an environment keeps `CtxOk` (`mkEnv_cfiOk`, generalised) -/
theorem CfiEnv.cfiOk {env : Walk.Env} {arch : Walk.Arch} {os : Walk.Os} {w : Walk.World} {mem0 : Walk.Mem}
    (h : CfiEnv env arch os w mem0) : CfiOk env := by
  intro callee grand r h0 h1
  rw [h.harch] at h0 ⊢
  rw [h.cfi_eq] at h1
  exact mkEnv_cfiOk arch os w mem0 callee grand r h0 h1

/-- `FollowsC06` looks at the caller frame's context, trust and lookup address only — not at its
    module / function -/
theorem FollowsC06.congr {arch : Walk.Arch} {os : Walk.Os} {w : Walk.World} {mem0 : Walk.Mem}
    {p f f2 : Walk.Frame} (hc : f2.ctx = f.ctx) (ht : f2.trust = f.trust) (hi : f2.instruction = f.instruction)
    (h : FollowsC06 arch os w mem0 p f) : FollowsC06 arch os w mem0 p f2 := by
  unfold FollowsC06 at h ⊢
  rw [hc, ht, hi]
  exact h

/-- **`follows_of_step`, over any `CfiEnv`**: a `get_caller_frame` step of `env` that yields a frame
    of trust `cfi` is a step of `mkEnv arch os w mem0` yielding the same frame (`cfi_frame_epilogue`
    on both sides: the step is determined by `env.cfi` and `env.arch`), and the symbolised frames of
    the two environments differ in module / function only. -/
theorem follows_of_step_env {env : Walk.Env} {arch : Walk.Arch} {os : Walk.Os} {w : Walk.World} {mem0 : Walk.Mem}
    (h : CfiEnv env arch os w mem0) (m : Walk.Mem) (p f' : Walk.Frame) (g : Option Walk.Frame)
    (hp : CtxOk arch p.ctx) (hstep : Walk.step env m p g = some f')
    (ht : (Walk.symbolise env f').trust = .cfi) :
    FollowsC06 arch os w mem0 p (Walk.symbolise env f') := by
  have ht' : f'.trust = .cfi := ht
  obtain ⟨r, hc, hip, hsp, hf⟩ := (cfi_frame_epilogue env m p f' g).mp ⟨hstep, ht'⟩
  rw [h.cfi_eq] at hc
  rw [h.harch] at hsp hf
  obtain ⟨hstep', _⟩ := (cfi_frame_epilogue (Walk.mkEnv arch os w mem0) m p f' g).mpr ⟨r, hc, hip, hsp, hf⟩
  exact FollowsC06.congr (f := Walk.symbolise (Walk.mkEnv arch os w mem0) f') rfl rfl rfl
    (follows_of_step arch os w mem0 m p f' g hp hstep' ht')

/-- **`walk_frames_follow_c06`, over any `CfiEnv`** — every frame of trust `cfi` of every walk in an
    environment whose `arch` / `mask` / `cfi` fields are those of STACK CFI evaluation over
    `(arch, w, mem0)`, whatever its symbolication, from a well-formed context, satisfies `FollowsC06`
    w.r.t. the frame below it. -/
theorem walk_frames_follow_c06_env {env : Walk.Env} {arch : Walk.Arch} {os : Walk.Os} {w : Walk.World}
    {mem0 : Walk.Mem} (h : CfiEnv env arch os w mem0)
    (mem : Option Walk.Mem) (ctx : Walk.Ctx) (hctx : CtxOk arch ctx) :
    ∀ (i : Nat) (hi : i + 1 < (Walk.walk env mem ctx).length),
      (Walk.walk env mem ctx)[i + 1].trust = .cfi →
      FollowsC06 arch os w mem0 (Walk.walk env mem ctx)[i] (Walk.walk env mem ctx)[i + 1] := by
  intro i hi ht
  obtain ⟨hp, _, m, g, f', _, _, hstep, hf⟩ :=
    walk_steps env h.cfiOk mem ctx (by rw [h.harch]; exact hctx) i hi
  rw [h.harch] at hp
  generalize (Walk.walk env mem ctx)[i] = p at hp hstep ⊢
  generalize (Walk.walk env mem ctx)[i + 1] = f at ht hf ⊢
  subst hf
  exact follows_of_step_env h m p f' g hp hstep ht

end MdModel.CfiBridge
