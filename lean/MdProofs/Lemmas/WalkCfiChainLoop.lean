/-
  Helper lemmas for C04, canonical STACK CFI chains (part 3): the generated end of the stack, the
  invariant along the chain, and the chain induction (`walkLoop_chain_generic`).
-/
import MdProofs.Lemmas.WalkCfiChainStep
namespace MdModel.Walk
open MdModel

/-- the walk's environment with `get_caller_by_cfi` switched off -/
def Env.noCfi (env : Env) : Env := { env with cfi := fun _ _ => none }

/-- a frame for which `get_caller_by_cfi` yields nothing is unwound as in an environment without CFI -/
theorem step_noCfi {env : Env} {mem : Mem} {f : Frame} {g : Option Frame} (h : env.cfi f g = none) :
    step env mem f g = step env.noCfi mem f g := by
  unfold step candidate
  simp only [h, Env.noCfi]
  rfl

/-! ### the generated end: no record, a zero frame pointer, zero words -/

theorem resolveAmd64_zero_low {mem : Mem} (hbase : 16 < mem.base) (sp step : Nat) :
    ∀ n, resolveAmd64 mem 0 sp step n 0 = none := by
  intro n
  cases n with
  | zero => rfl
  | succ n =>
    unfold resolveAmd64
    simp only [Nat.zero_mul, Nat.zero_add]
    rw [if_neg (by decide), if_neg (by decide), read_below_base (by omega)]

theorem byFp_zero_x86 {env : Env} {mem : Mem} {c : Ctx} (hbase : 16 < mem.base)
    (hbp : c.raw .x86 "ebp" = 0) : byFp env .x86 mem c = none := by
  simp only [byFp, fpX86]
  split
  · rfl
  · rw [hbp, if_neg (by decide), read_below_base (by omega)]

theorem byFp_zero_amd64 {env : Env} {mem : Mem} {c : Ctx} (hbase : 16 < mem.base)
    (hbp : c.raw .amd64 "rbp" = 0) : byFp env .amd64 mem c = none := by
  simp only [byFp, fpAmd64]
  split
  · rfl
  · split
    · rfl
    · rw [hbp, if_neg (by decide)]
      simp [resolveAmd64_zero_low hbase]

/-- the end predicate of a CFI chain on the registers of a frame -/
def cfiEnd (w : World) (a : Arch) (mem : Mem) (st : Frame) : Bool :=
  (cfiRecordAt w st.instruction).isNone && decide (st.ctx.raw a a.fpName = 0) && decide (16 < mem.base) &&
    zerosFrom mem a.ptr st.ctx.sp

/-- **the generated end of a CFI chain**: no record covers the outermost frame, its frame pointer
    is 0 (nothing readable there), only zero words follow — no technique finds a caller.
    (`hok0`: on ARM32 the by-symbols check must reject the word 0; it does, `instrOkOf`.) -/
theorem step_cfi_end {env : Env} {a : Arch} {w : World} {mem : Mem} (harch : env.arch = a)
    (hcfi : env.cfi = cfiOf a w (modTable w.mods) (cfiTables w) env.mask mem)
    (hok0 : a = .arm → env.instrOk 0 = false)
    (f : Frame) (g : Option Frame) (hinv : CfiInv a f) (he : cfiEnd w a mem f = true) :
    step env mem f g = none := by
  obtain ⟨heff, htv, hspmax⟩ := hinv
  have hval : f.ctx.valid = none ∨ f.ctx.valid = some (validAfter a) := by
    rcases htv with h | h
    · exact Or.inl h.2
    · exact Or.inr h.2
  simp only [cfiEnd, Bool.and_eq_true, decide_eq_true_eq, Option.isNone_iff_eq_none] at he
  obtain ⟨⟨⟨hrec, hfp⟩, hbase⟩, hz⟩ := he
  have hnone : env.cfi f g = none := by rw [hcfi]; exact cfiOf_of_none heff hrec
  rw [step_noCfi hnone]
  have harch' : env.noCfi.arch = a := harch
  have hcfi' : ∀ f g, env.noCfi.cfi f g = none := fun _ _ => rfl
  have hspok := spOk_of_inv hval
  cases a
  · -- x86
    have hscan : ∀ n, scanFrom (instrValid env.noCfi .x86) mem 4 U32MAX f.ctx.sp n 0 = none := fun n =>
      scanFrom_zeros (by decide) hz (by simp [instrValid, instrPre]) n 0
    unfold step
    simp only [effArch, harch', Arch.isMips, Bool.false_eq_true, ↓reduceIte, candidate, hcfi',
      byFp_zero_x86 hbase hfp, byScan, scanX86, hscan, ite_self]
  · -- amd64
    have hscan : ∀ n, scanFrom (instrValid env.noCfi .amd64) mem 8 U64MAX f.ctx.sp n 0 = none := fun n =>
      scanFrom_zeros (by decide) hz (by simp [instrValid, instrPre, nonCanonAmd64]) n 0
    unfold step
    simp only [effArch, harch', Arch.isMips, Bool.false_eq_true, ↓reduceIte, candidate, hcfi',
      byFp_zero_amd64 hbase hfp, byScan, scanAmd64, hscan, ite_self]
  · -- arm
    have hget13 : f.ctx.get .arm "r13" = some f.ctx.sp := by
      simp only [Ctx.get, hspok, if_true]; rfl
    have hscan : ∀ n, scanFrom (instrValid env.noCfi .arm) mem 4 U32MAX f.ctx.sp n 0 = none := fun n =>
      scanFrom_zeros (by decide) hz (by
        have : env.noCfi.instrOk 0 = false := hok0 rfl
        simp [instrValid, instrPre, this]) n 0
    have hget11 : f.ctx.get .arm "r11" = some 0 := by
      have hr : f.ctx.raw .arm "r11" = 0 := hfp
      rcases hval with h | h <;>
        simp [Ctx.get, Ctx.has, h, hr, validAfter, setInsert, Arch.calleeSaved, Arch.canon, Arch.aliases,
          Arch.spName, Arch.ipName]
    unfold step
    simp only [effArch, harch', Arch.isMips, Bool.false_eq_true, ↓reduceIte, candidate, hcfi', byFp, fpArm,
      hget11, hget13]
    by_cases hos : env.noCfi.os = .ios
    · simp [hos, epilogue, nullish_eq, U32MAX]
    · simp [hos, byScan, scanArm, hget13, hscan]
  · -- arm64
    have hget : f.ctx.get .arm64 "sp" = some f.ctx.sp := by
      simp only [Ctx.get, hspok, if_true]; rfl
    have hx29 : f.ctx.get .arm64 "x29" = some 0 := by
      have hr : f.ctx.raw .arm64 "x29" = 0 := hfp
      rcases hval with h | h <;>
        simp [Ctx.get, Ctx.has, h, hr, validAfter, setInsert, Arch.calleeSaved, Arch.canon, Arch.aliases,
          Arch.spName, Arch.ipName]
    refine step_scan_end (first := decide (f.trust = .context)) rfl harch' hcfi' ⟨rfl, hget, ?_, heff, Or.inr (Or.inr hx29)⟩ hz
    cases f.trust <;> rfl
  · -- arm64old
    have hget : f.ctx.get .arm64old "sp" = some f.ctx.sp := by
      simp only [Ctx.get, hspok, if_true]; rfl
    have hx29 : f.ctx.get .arm64old "x29" = some 0 := by
      have hr : f.ctx.raw .arm64old "x29" = 0 := hfp
      rcases hval with h | h <;>
        simp [Ctx.get, Ctx.has, h, hr, validAfter, setInsert, Arch.calleeSaved, Arch.canon, Arch.aliases,
          Arch.spName, Arch.ipName]
    refine step_scan_end (first := decide (f.trust = .context)) rfl harch' hcfi' ⟨rfl, hget, ?_, heff, Or.inr (Or.inr hx29)⟩ hz
    cases f.trust <;> rfl
  · -- mips32
    have hm : f.ctx.m64 = false := by
      simp only [effArch, Arch.isMips, if_true] at heff
      split at heff
      · cases heff
      · simpa using ‹¬ f.ctx.m64 = true›
    have hz4 : zerosFrom mem 4 f.ctx.sp = true := hz
    have hok : instrValid env.noCfi .mips32 0 = false := by simp [instrValid, instrPre, Consts.mips_min_ip]
    have hscan : ∀ n, scanFrom (instrValid env.noCfi .mips32) mem 4 U32MAX f.ctx.sp n 0 = none := fun n =>
      scanFrom_zeros (by decide) hz4 hok n 0
    have hscan' : ∀ n, scanFrom (instrValid env.noCfi .mips32) mem 4 U32MAX (f.ctx.sp + 16) n 0 = none := fun n =>
      scanFrom_zeros' (fun i v hr => by
        have : f.ctx.sp + 16 + i * 4 = f.ctx.sp + (i + 4) * 4 := by omega
        rw [this] at hr
        exact zerosFrom_read (by decide) hz4 hr) hok n 0
    have heff' : effArch env.noCfi.arch f.ctx = .mips32 := by rw [harch']; exact heff
    have hc : Consts.mips_min_args * Consts.ptr_mips32 = 16 := rfl
    unfold step
    simp only [heff', candidate, hcfi', byFp, byScan, scanMips32, hc]
    have hget : f.ctx.get .mips32 "sp" = some f.ctx.sp := reg_sp_of_inv hval hspmax
    simp only [hget]
    by_cases htc : f.trust = .context
    · simp only [htc, ne_eq, not_true_eq_false, ↓reduceIte, hscan]
    · simp only [htc, ne_eq, not_false_eq_true, ↓reduceIte]
      by_cases hov : f.ctx.sp + 16 > U32MAX
      · simp only [if_pos hov]
      · simp only [if_neg hov, hscan']
  · -- mips64
    have hget : f.ctx.get .mips64 "sp" = some f.ctx.sp := by
      simp only [Ctx.get, hspok, if_true]; rfl
    refine step_scan_end (first := decide (f.trust = .context)) rfl harch' hcfi' ⟨rfl, hget, ?_, heff, Or.inl rfl⟩ hz
    cases f.trust <;> rfl

/-! ### along the chain -/

/-- link predicate of the chain induction: `linkCfi` on the frame's registers, in the MIPS mode of the walk -/
def cfiLinkI (w : World) (a : Arch) (mask : Nat) (mem : Mem) (st : Frame) (e : Exp) : Bool :=
  decide (effArch a st.ctx = a) && cfiLink w a mask mem st e

/-- where the record does not save the frame pointer, the claimed one is the callee's (stripped on ARM64) -/
theorem cfiLink_forwarded {a : Arch} {w : World} {mask : Nat} {mem : Mem} {f : Frame} {e : Exp}
    (hl : cfiLink w a mask mem f e = true) (hs : savesFpAt w a f.instruction (e.sp - f.ctx.sp) = false) :
    e.fp = some (stripOf a mask (f.ctx.raw a a.fpName)) ∧ e.sp ≤ a.regMax := by
  unfold cfiLink linkCfi at hl
  simp only [Bool.and_eq_true, decide_eq_true_eq] at hl
  obtain ⟨⟨⟨_, hspmax⟩, _⟩, hm⟩ := hl
  refine ⟨?_, hspmax⟩
  cases hrec : cfiRecordAt w f.instruction with
  | none => rw [hrec] at hm; cases hm
  | some rec =>
    rw [hrec] at hm
    simp only [savesFpAt, hrec, decide_eq_false_iff_not] at hs
    simp only [Bool.and_eq_true] at hm
    obtain ⟨_, hm⟩ := hm
    split at hm
    · simp only [Bool.and_eq_true, beq_iff_eq] at hm
      exact hm.2
    · simp only [Bool.and_eq_true, beq_iff_eq] at hm
      exact hm.2.2

theorem cfiLink_sp_le {a : Arch} {w : World} {mask : Nat} {mem : Mem} {f : Frame} {e : Exp}
    (hl : cfiLink w a mask mem f e = true) : e.sp ≤ a.regMax := by
  unfold cfiLink linkCfi at hl
  simp only [Bool.and_eq_true, decide_eq_true_eq] at hl
  exact hl.1.1.2

/-- the frame produced for a linked frame carries the claimed frame pointer -/
theorem cfiFrame_raw_fp {a : Arch} {w : World} {mask : Nat} {mem : Mem} {f : Frame} {e : Exp}
    (hl : cfiLink w a mask mem f e = true) : (cfiFrame w a f e).ctx.raw a a.fpName = e.fp.getD 0 := by
  rw [raw_fpName]
  unfold cfiFrame
  simp only
  split
  · exact assocGet_assocSet_same _ _ _
  · rename_i hsets
    simp only [Bool.or_eq_true, beq_iff_eq, not_or] at hsets
    obtain ⟨⟨hs, h1⟩, h2⟩ := hsets
    have hs' : savesFpAt w a f.instruction (e.sp - f.ctx.sp) = false := by simpa using hs
    obtain ⟨hfp, _⟩ := cfiLink_forwarded hl hs'
    rw [hfp, Option.getD_some, stripOf_eq, if_neg (by simp [h1, h2]), raw_fpName]

/-- the frame produced for a linked frame is again a frame of the chain -/
theorem cfiFrame_view {a : Arch} {w : World} {mask : Nat} {mem : Mem} (st : Frame) (e : Exp)
    (hl : cfiLinkI w a mask mem st e = true) : CfiView a (cfiFrame w a st e) (cfiFrame w a st e) := by
  simp only [cfiLinkI, Bool.and_eq_true, decide_eq_true_eq] at hl
  refine ⟨rfl, rfl, rfl, ?_, Or.inr ⟨by simp [cfiFrame], rfl⟩, cfiLink_sp_le hl.2⟩
  exact hl.1

/-- with `first = false` the link register plays no role -/
theorem linkCfi_lr_irrel (w : World) (a : Arch) (mask : Nat) (mem : Mem) (instr sp fp lr lr' : Nat) (e : Exp) :
    linkCfi w a mask mem instr sp fp lr false e = linkCfi w a mask mem instr sp fp lr' false e := by
  unfold linkCfi
  simp

/-- the frames a CFI chain must be walked to -/
def expectedCfi (env : Env) (w : World) (a : Arch) : Frame → List Exp → List Frame
  | _, [] => []
  | st, e :: rest => symbolise env (cfiFrame w a st e) :: expectedCfi env w a (cfiFrame w a st e) rest

theorem expectedCfi_foldr (env : Env) (w : World) (a : Arch) (chain : List Exp) (st : Frame) :
    expectedCfi env w a st chain =
      (chain.foldr (fun e (k : Frame → List Frame) => fun st =>
          symbolise env (cfiFrame w a st e) :: k (cfiFrame w a st e)) (fun _ => [])) st := by
  induction chain generalizing st with
  | nil => rfl
  | cons e rest ih => simp only [expectedCfi, List.foldr_cons, ih]

/-- one step of `preCfiFrom`, on the registers of a frame -/
theorem preCfiFrom_cons {w : World} {a : Arch} {os : Os} {mask : Nat} {mem : Mem} {st : Frame} {lr : Nat}
    {e : Exp} {rest : List Exp} (hlr : st.trust = .context → lr = st.ctx.raw a (lrName a))
    (h : preCfiFrom w a os mask mem st.instruction st.ctx.sp (st.ctx.raw a a.fpName) lr (st.trust == .context)
      (e :: rest) = true) :
    mem.inRange st.ctx.sp = true ∧ cfiLink w a mask mem st e = true ∧
      preCfiFrom w a os mask mem (cfiFrame w a st e).instruction (cfiFrame w a st e).ctx.sp
        ((cfiFrame w a st e).ctx.raw a a.fpName) 0 ((cfiFrame w a st e).trust == .context) rest = true := by
  simp only [preCfiFrom, Bool.and_eq_true] at h
  obtain ⟨⟨hin, hl⟩, hrest⟩ := h
  have hl' : cfiLink w a mask mem st e = true := by
    unfold cfiLink
    by_cases hc : st.trust = .context
    · rw [← hlr hc]; exact hl
    · have hb : (st.trust == Trust.context) = false := by simpa using hc
      rw [hb] at hl ⊢
      rw [linkCfi_lr_irrel w a mask mem _ _ _ _ lr]; exact hl
  refine ⟨hin, hl', ?_⟩
  rw [cfiFrame_raw_fp hl']
  exact hrest

/-- `preCfiFrom` (what `Pre … .cfi` evaluates) implies the frame-by-frame precondition of the induction -/
theorem preCfiFrom_foldr (w : World) (a : Arch) (os : Os) (mask : Nat) (mem : Mem) (chain : List Exp) :
    ∀ (st : Frame) (lr : Nat), effArch a st.ctx = a →
      (st.trust = .context → lr = st.ctx.raw a (lrName a)) →
      preCfiFrom w a os mask mem st.instruction st.ctx.sp (st.ctx.raw a a.fpName) lr (st.trust == .context)
        chain = true →
      (chain.foldr (fun e (k : Frame → Bool) => fun st =>
          mem.inRange st.ctx.sp && cfiLinkI w a mask mem st e && k (cfiFrame w a st e))
        (fun st => !mem.inRange st.ctx.sp || cfiEnd w a mem st)) st = true := by
  induction chain with
  | nil =>
    intro st lr _ _ h
    simpa [preCfiFrom, cfiEnd] using h
  | cons e rest ih =>
    intro st lr heff hlr h
    obtain ⟨hin, hl', hrest⟩ := preCfiFrom_cons hlr h
    simp only [List.foldr_cons, Bool.and_eq_true]
    refine ⟨⟨hin, ?_⟩, ?_⟩
    · simp only [cfiLinkI, Bool.and_eq_true, decide_eq_true_eq]
      exact ⟨heff, hl'⟩
    · exact ih (cfiFrame w a st e) 0 heff (fun h => by cases h) hrest

/-- the frame pointer is a valid register of every frame found by CFI below an all-valid context -/
theorem has_fp_validAfter (a : Arch) (c : Ctx) (h : c.valid = some (validAfter a)) :
    c.has a a.fpName = true := by
  cases a <;> simp [Ctx.has, h, validAfter, setInsert, Arch.calleeSaved, Arch.aliases, Arch.fpName,
    Arch.spName, Arch.ipName]

/-- **canonical STACK CFI chains of any depth**: the walk loop returns the frame it starts from and
    then exactly the expected frames — an instance of `walkLoop_chain_generic` -/
theorem walkLoop_cfi_chain {env : Env} {a : Arch} {w : World} {mem : Mem} (harch : env.arch = a)
    (hcfi : env.cfi = cfiOf a w (modTable w.mods) (cfiTables w) env.mask mem)
    (hok0 : a = .arm → env.instrOk 0 = false) (os : Os) :
    ∀ (chain : List Exp) (n : Nat) (f : Frame) (g : Option Frame) (st : Frame) (lr : Nat),
      CfiView a f st → (st.trust = .context → lr = st.ctx.raw a (lrName a)) →
      preCfiFrom w a os env.mask mem st.instruction st.ctx.sp (st.ctx.raw a a.fpName) lr
        (st.trust == .context) chain = true →
      need mem f ≤ n →
      walkLoop env mem n f g = symbolise env f :: expectedCfi env w a st chain := by
  intro chain n f g st lr hv hlr hp hn
  rw [expectedCfi_foldr]
  have hp' := preCfiFrom_foldr w a os env.mask mem chain st lr hv.2.2.2.1 hlr hp
  exact walkLoop_chain_generic (σ := Frame) (CfiView a) (cfiLinkI w a env.mask mem) (cfiEnd w a mem)
    (fun st => st.ctx.sp) (cfiFrame w a) (cfiFrame w a)
    (fun f st h => by rw [h.1])
    (fun f st h => h)
    (fun f g st e h hl => by
      simp only [cfiLinkI, Bool.and_eq_true] at hl
      exact step_cfi harch hcfi f g st e h hl.2)
    (fun st e hl => cfiFrame_view st e hl)
    (fun f g st h he => by
      obtain ⟨h1, h2, h3, h4⟩ := h
      have hinv : CfiInv a f := by unfold CfiInv at *; rw [h1, h2]; exact h4
      have he' : cfiEnd w a mem f = true := by unfold cfiEnd at *; rw [h1, h3]; exact he
      exact step_cfi_end harch hcfi hok0 f g hinv he')
    chain n f g st hv hp' hn

end MdModel.Walk
