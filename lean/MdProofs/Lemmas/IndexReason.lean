/-
  Helper lemmas for C14 about the translated enum tables and the reason decision tree.
-/
import MdModel.Reason
namespace MdModel.Reason
open MdModel MdModel.Gen

/-! ### `lookup` = membership in the translated table -/

theorem lookup_some_mem {t : Enums.Table} {v : Nat} {n : String} (h : lookup t v = some n) : (v, n) ∈ t := by
  unfold lookup at h
  simp only [Option.map_eq_some_iff] at h
  obtain ⟨e, he, rfl⟩ := h
  have hm := List.mem_of_find?_eq_some he
  have hp := List.find?_some he
  simp only [beq_iff_eq] at hp
  obtain ⟨a, b⟩ := e
  simp at hp; subst hp; exact hm

theorem lookup_none_iff {t : Enums.Table} {v : Nat} : lookup t v = none ↔ ∀ n, (v, n) ∉ t := by
  unfold lookup
  simp only [Option.map_eq_none_iff, List.find?_eq_none, beq_iff_eq]
  constructor
  · intro h n hn; exact h (v, n) hn rfl
  · intro h e he hv
    obtain ⟨a, b⟩ := e
    simp at hv; subst hv; exact h b he

/-- in a table without duplicate discriminants (Rust guarantees it; re-checked by `decide` per
    table where used) `lookup` finds every entry -/
theorem lookup_of_mem {t : Enums.Table} {v : Nat} {n : String}
    (hnd : (t.map (·.1)).Nodup) (h : (v, n) ∈ t) : lookup t v = some n := by
  induction t with
  | nil => cases h
  | cons e rest ih =>
    simp only [List.map_cons, List.nodup_cons] at hnd
    unfold lookup
    simp only [List.find?_cons]
    cases h with
    | head => simp
    | tail _ h =>
      have hne : e.1 ≠ v := by
        intro heq
        apply hnd.1
        rw [heq]
        exact List.mem_map.mpr ⟨(v, n), h, rfl⟩
      have : (e.1 == v) = false := by simpa using hne
      rw [this]
      exact ih hnd.2 h

/-- variant names are unique too, so a name determines its discriminant -/
theorem value_of_name {t : Enums.Table} {v v' : Nat} {n : String}
    (hnd : (t.map (·.2)).Nodup) (h : (v, n) ∈ t) (h' : (v', n) ∈ t) : v = v' := by
  induction t with
  | nil => cases h
  | cons e rest ih =>
    simp only [List.map_cons, List.nodup_cons] at hnd
    cases h with
    | head =>
      cases h' with
      | head => rfl
      | tail _ h' => exact absurd (List.mem_map.mpr ⟨(v', n), h', rfl⟩) hnd.1
    | tail _ h =>
      cases h' with
      | head => exact absurd (List.mem_map.mpr ⟨(v, n), h, rfl⟩) hnd.1
      | tail _ h' => exact ih hnd.2 h h'

/-- `lookup t v = some n ↔ v = v₀` for a named entry `(v₀, n)` of a duplicate-free table -/
theorem lookup_name_iff {t : Enums.Table} {v v₀ : Nat} {n : String}
    (hv : (t.map (·.1)).Nodup) (hn : (t.map (·.2)).Nodup) (hmem : (v₀, n) ∈ t) :
    lookup t v = some n ↔ v = v₀ := by
  constructor
  · intro h; exact value_of_name hn (lookup_some_mem h) hmem
  · rintro rfl; exact lookup_of_mem hv hmem

/-! ### the refinement step -/

theorem refine_cases (t : Enums.Table) (f : Family) (flags : Nat) (dflt : Reason) :
    (∃ ty, lookup t flags = some ty ∧ refine t f flags dflt = .mk1 f ty) ∨
    (lookup t flags = none ∧ refine t f flags dflt = dflt) := by
  unfold refine
  cases h : lookup t flags with
  | none => right; exact ⟨rfl, rfl⟩
  | some ty => left; exact ⟨ty, rfl, rfl⟩

theorem refine_family (t : Enums.Table) (f : Family) (flags : Nat) (dflt : Reason) :
    (refine t f flags dflt).family = f ∨ refine t f flags dflt = dflt := by
  rcases refine_cases t f flags dflt with ⟨ty, -, h⟩ | ⟨-, h⟩
  · left; rw [h]; rfl
  · right; exact h

end MdModel.Reason
