/-
  Helper lemmas for C14 about the translated enum tables and the reason decision tree.
-/
import MdModel.Reason
namespace MdModel.Reason
open MdModel MdModel.Gen

theorem lookup_some_mem {t : Enums.Table} {v : Nat} {n : String} (h : lookup t v = some n) : (v, n) ∈ t := by
  unfold lookup at h
  simp only [Option.map_eq_some_iff] at h
  obtain ⟨e, he, rfl⟩ := h
  have hm := List.mem_of_find?_eq_some he
  have hp := List.find?_some he
  simp only [beq_iff_eq] at hp
  obtain ⟨a, b⟩ := e
  simp at hp; subst hp; exact hm

end MdModel.Reason
