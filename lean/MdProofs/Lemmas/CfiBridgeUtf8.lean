/-
  Bridge C06 ↔ walker model, part 1: text.

  `MdModel.Cfi` (C06) works on the bytes of a rule text, `MdModel.Walk.Cfi` (C03/C04/C05) on the
  characters of a `String`. The two are related by UTF-8 encoding: `enc : List Char → List UInt8`
  (`String.utf8EncodeChar` of core, character by character). This file proves the facts about `enc`
  the lexers depend on:

    * an ASCII character is its own single byte, every byte of any other character is `≥ 0x80`
      (so whitespace, `$`, `:`, digits, signs and the operator spellings are found at the same
      places in the characters and in the bytes);
    * `enc` is injective (core: decoding inverts encoding);
    * `enc` preserves order: `String`'s `<` (code points) is `str::cmp` (bytes) — `strLe_enc`.
-/
import MdModel.Cfi
import MdModel.Walk.Cfi
namespace MdModel.CfiBridge
open MdModel

abbrev Bytes := Cfi.Bytes

/-- UTF-8 bytes of a list of characters -/
def enc (l : List Char) : Bytes := l.flatMap String.utf8EncodeChar

/-- UTF-8 bytes of a string (what the Rust code sees of a `&str`) -/
def utf8 (s : String) : Bytes := enc s.toList

@[simp] theorem enc_nil : enc [] = [] := rfl
@[simp] theorem enc_cons (c : Char) (l : List Char) : enc (c :: l) = String.utf8EncodeChar c ++ enc l := rfl
theorem enc_append (a b : List Char) : enc (a ++ b) = enc a ++ enc b := by
  simp [enc, List.flatMap_append]

@[simp] theorem utf8_ofList (l : List Char) : utf8 (String.ofList l) = enc l := by
  simp [utf8, String.toList_ofList]

/-- `utf8 s` is the content of the string's byte array -/
theorem utf8_eq_toByteArray (s : String) : (utf8 s).toByteArray = s.toByteArray := by
  have := String.utf8Encode_toList (b := s)
  simpa [utf8, enc, List.utf8Encode] using this

/-! ## shape of one character's encoding -/

def isAscii (c : Char) : Prop := c.toNat ≤ 0x7f

instance (c : Char) : Decidable (isAscii c) := inferInstanceAs (Decidable (_ ≤ _))

theorem encC_ascii (c : Char) (h : isAscii c) :
    String.utf8EncodeChar c = [UInt8.ofNat c.toNat] := by
  unfold isAscii at h
  have h' : c.val.toNat ≤ 0x7f := h
  simp only [String.utf8EncodeChar, h', if_true]
  rfl

theorem u8_toNat_ofNat (n : Nat) : (UInt8.ofNat n).toNat = n % 256 := by
  simp [UInt8.toNat_ofNat']

theorem encC_high (c : Char) (h : ¬ isAscii c) : ∀ b ∈ String.utf8EncodeChar c, 0x80 ≤ b.toNat := by
  unfold isAscii at h
  intro b hb
  have h' : ¬ c.val.toNat ≤ 0x7f := h
  simp only [String.utf8EncodeChar, h', if_false] at hb
  split at hb
  · simp only [List.mem_cons, List.not_mem_nil, or_false] at hb
    rcases hb with rfl | rfl <;> rw [u8_toNat_ofNat] <;> omega
  · split at hb
    · simp only [List.mem_cons, List.not_mem_nil, or_false] at hb
      rcases hb with rfl | rfl | rfl <;> rw [u8_toNat_ofNat] <;> omega
    · simp only [List.mem_cons, List.not_mem_nil, or_false] at hb
      rcases hb with rfl | rfl | rfl | rfl <;> rw [u8_toNat_ofNat] <;> omega

theorem encC_ne_nil (c : Char) : String.utf8EncodeChar c ≠ [] := String.utf8EncodeChar_ne_nil

/-- the byte of an ASCII character, as a number -/
theorem encC_ascii_toNat (c : Char) (h : isAscii c) :
    ∃ b, String.utf8EncodeChar c = [b] ∧ b.toNat = c.toNat := by
  refine ⟨_, encC_ascii c h, ?_⟩
  unfold isAscii at h
  rw [u8_toNat_ofNat]; omega

/-- A byte below `0x80` occurs in the encoding of `c` only as the encoding of the ASCII
    character with that code. -/
theorem mem_encC_low (c : Char) (b : UInt8) (hb : b.toNat < 0x80) (hm : b ∈ String.utf8EncodeChar c) :
    isAscii c ∧ String.utf8EncodeChar c = [b] ∧ c.toNat = b.toNat := by
  by_cases h : isAscii c
  · obtain ⟨b', he, hv⟩ := encC_ascii_toNat c h
    rw [he] at hm
    simp only [List.mem_cons, List.not_mem_nil, or_false] at hm
    subst hm
    exact ⟨h, he, hv.symm⟩
  · have := encC_high c h b hm
    omega

theorem char_eq_of_toNat (c d : Char) (h : c.toNat = d.toNat) : c = d := by
  apply Char.ext
  exact UInt32.toNat_inj.mp h

/-! ## injectivity -/

theorem enc_inj {a b : List Char} (h : enc a = enc b) : a = b := by
  have h1 : a.utf8Encode = b.utf8Encode := by
    simp only [List.utf8Encode]
    exact congrArg List.toByteArray h
  have h2 := congrArg ByteArray.utf8Decode? h1
  simp only [List.utf8Decode?_utf8Encode, Option.some.injEq] at h2
  simpa using h2

theorem enc_eq_iff {a b : List Char} : enc a = enc b ↔ a = b := ⟨enc_inj, fun h => h ▸ rfl⟩

theorem utf8_inj {s t : String} (h : utf8 s = utf8 t) : s = t :=
  String.toList_inj.mp (enc_inj h)

theorem utf8_eq_iff {s t : String} : utf8 s = utf8 t ↔ s = t := ⟨utf8_inj, fun h => h ▸ rfl⟩


/-! ## order: code-point order of characters = byte order of their encodings -/

/-- the two byte strings first differ at a position where the left one is smaller -/
def FD (u v : Bytes) : Prop :=
  ∃ p x y r1 r2, u = p ++ x :: r1 ∧ v = p ++ y :: r2 ∧ x.toNat < y.toNat

theorem char_toNat_lt (c : Char) : c.toNat < 0x110000 := by
  have h := c.valid
  have : c.toNat = c.val.toNat := rfl
  simp only [UInt32.isValidChar, Nat.isValidChar] at h
  omega

theorem u8_ofNat_lt (n m : Nat) (hn : n < 256) (hm : m < 256) (h : n < m) :
    (UInt8.ofNat n).toNat < (UInt8.ofNat m).toNat := by
  rw [u8_toNat_ofNat, u8_toNat_ofNat]; omega

theorem FD_intro (p : Bytes) (n m : Nat) (r1 r2 u v : Bytes)
    (hu : u = p ++ UInt8.ofNat n :: r1) (hv : v = p ++ UInt8.ofNat m :: r2)
    (hn : n < 256) (hm : m < 256) (h : n < m) : FD u v :=
  ⟨p, _, _, r1, r2, hu, hv, u8_ofNat_lt n m hn hm h⟩

/-- a smaller code point has an encoding that is smaller at the first difference -/
theorem encC_lt (a b : Char) (h : a.toNat < b.toNat) :
    FD (String.utf8EncodeChar a) (String.utf8EncodeChar b) := by
  have ha := char_toNat_lt a
  have hb := char_toNat_lt b
  have ea : a.val.toNat = a.toNat := rfl
  have eb : b.val.toNat = b.toNat := rfl
  simp only [String.utf8EncodeChar, ea, eb]
  clear ea eb
  generalize a.toNat = v at *
  generalize b.toNat = w at *
  by_cases a1 : v ≤ 0x7f
  · simp only [a1, if_true]
    by_cases b1 : w ≤ 0x7f
    · simp only [b1, if_true]
      exact FD_intro [] _ _ _ _ _ _ rfl rfl (by omega) (by omega) (by omega)
    · simp only [b1, if_false]
      by_cases b2 : w ≤ 0x7ff
      · simp only [b2, if_true]
        exact FD_intro [] _ _ _ _ _ _ rfl rfl (by omega) (by omega) (by omega)
      · simp only [b2, if_false]
        by_cases b3 : w ≤ 0xffff
        · simp only [b3, if_true]
          exact FD_intro [] _ _ _ _ _ _ rfl rfl (by omega) (by omega) (by omega)
        · simp only [b3, if_false]
          exact FD_intro [] _ _ _ _ _ _ rfl rfl (by omega) (by omega) (by omega)
  · have b1 : ¬ w ≤ 0x7f := by omega
    simp only [a1, b1, if_false]
    by_cases a2 : v ≤ 0x7ff
    · simp only [a2, if_true]
      by_cases b2 : w ≤ 0x7ff
      · simp only [b2, if_true]
        by_cases e0 : v / 64 % 0x20 = w / 64 % 0x20
        · rw [← e0]
          exact FD_intro [_] _ _ _ _ _ _ rfl rfl (by omega) (by omega) (by omega)
        · exact FD_intro [] _ _ _ _ _ _ rfl rfl (by omega) (by omega) (by omega)
      · simp only [b2, if_false]
        by_cases b3 : w ≤ 0xffff
        · simp only [b3, if_true]
          exact FD_intro [] _ _ _ _ _ _ rfl rfl (by omega) (by omega) (by omega)
        · simp only [b3, if_false]
          exact FD_intro [] _ _ _ _ _ _ rfl rfl (by omega) (by omega) (by omega)
    · have b2 : ¬ w ≤ 0x7ff := by omega
      simp only [a2, b2, if_false]
      by_cases a3 : v ≤ 0xffff
      · simp only [a3, if_true]
        by_cases b3 : w ≤ 0xffff
        · simp only [b3, if_true]
          by_cases e0 : v / 4096 % 0x10 = w / 4096 % 0x10
          · rw [← e0]
            by_cases e1 : v / 64 % 0x40 = w / 64 % 0x40
            · rw [← e1]
              exact FD_intro [_, _] _ _ _ _ _ _ rfl rfl (by omega) (by omega) (by omega)
            · exact FD_intro [_] _ _ _ _ _ _ rfl rfl (by omega) (by omega) (by omega)
          · exact FD_intro [] _ _ _ _ _ _ rfl rfl (by omega) (by omega) (by omega)
        · simp only [b3, if_false]
          exact FD_intro [] _ _ _ _ _ _ rfl rfl (by omega) (by omega) (by omega)
      · have b3 : ¬ w ≤ 0xffff := by omega
        simp only [a3, b3, if_false]
        by_cases e0 : v / 262144 % 0x08 = w / 262144 % 0x08
        · rw [← e0]
          by_cases e1 : v / 4096 % 0x40 = w / 4096 % 0x40
          · rw [← e1]
            by_cases e2 : v / 64 % 0x40 = w / 64 % 0x40
            · rw [← e2]
              exact FD_intro [_, _, _] _ _ _ _ _ _ rfl rfl (by omega) (by omega) (by omega)
            · exact FD_intro [_, _] _ _ _ _ _ _ rfl rfl (by omega) (by omega) (by omega)
          · exact FD_intro [_] _ _ _ _ _ _ rfl rfl (by omega) (by omega) (by omega)
        · exact FD_intro [] _ _ _ _ _ _ rfl rfl (by omega) (by omega) (by omega)

open Cfi in
theorem bytesLe_append_same (p a b : Bytes) : bytesLe (p ++ a) (p ++ b) = bytesLe a b := by
  induction p with
  | nil => rfl
  | cons x p ih =>
    have : ¬ x < x := UInt8.lt_irrefl x
    simp [bytesLe, this, ih]

open Cfi in
theorem bytesLe_of_FD (u v a b : Bytes) (h : FD u v) :
    bytesLe (u ++ a) (v ++ b) = true ∧ bytesLe (v ++ b) (u ++ a) = false := by
  obtain ⟨p, x, y, r1, r2, rfl, rfl, hxy⟩ := h
  have h1 : x < y := UInt8.lt_iff_toNat_lt.mpr hxy
  have h2 : ¬ y < x := fun h => by have := UInt8.lt_iff_toNat_lt.mp h; omega
  simp only [List.append_assoc, List.cons_append, bytesLe_append_same]
  simp [bytesLe, h1, h2]

/-- structural comparison of character lists (the one `String`'s `<` and `==` amount to) -/
def leL : List Char → List Char → Bool
  | [], _ => true
  | _ :: _, [] => false
  | a :: as, b :: bs => if a < b then true else if b < a then false else leL as bs

theorem char_lt_iff (a b : Char) : a < b ↔ a.toNat < b.toNat := by
  show a.val < b.val ↔ _
  rw [UInt32.lt_iff_toNat_lt]; rfl

theorem char_eq_of_not_lt (x y : Char) (h1 : ¬ x < y) (h2 : ¬ y < x) : x = y := by
  apply char_eq_of_toNat
  have a1 : ¬ x.toNat < y.toNat := fun h => h1 ((char_lt_iff x y).mpr h)
  have a2 : ¬ y.toNat < x.toNat := fun h => h2 ((char_lt_iff y x).mpr h)
  omega

theorem leL_enc (a b : List Char) : leL a b = Cfi.bytesLe (enc a) (enc b) := by
  induction a generalizing b with
  | nil => simp [leL, Cfi.bytesLe]
  | cons x a ih =>
    cases b with
    | nil =>
      simp only [leL, enc_cons, enc_nil]
      cases he : String.utf8EncodeChar x with
      | nil => exact absurd he (encC_ne_nil x)
      | cons y ys => simp [Cfi.bytesLe]
    | cons y b =>
      simp only [leL, enc_cons]
      by_cases h1 : x < y
      · simp only [h1, if_true]
        exact ((bytesLe_of_FD _ _ _ _ (encC_lt x y ((char_lt_iff x y).mp h1))).1).symm
      · by_cases h2 : y < x
        · simp only [h1, h2, if_true, if_false]
          exact ((bytesLe_of_FD _ _ _ _ (encC_lt y x ((char_lt_iff y x).mp h2))).2).symm
        · simp only [h1, h2, if_false]
          have : x = y := by
            exact char_eq_of_not_lt x y h1 h2
          subst this
          rw [bytesLe_append_same]; exact ih b

theorem leL_eq (a b : List Char) : leL a b = (decide (a < b) || a == b) := by
  induction a generalizing b with
  | nil =>
    cases b with
    | nil => simp [leL]
    | cons y b => simp [leL]
  | cons x a ih =>
    cases b with
    | nil => simp [leL]
    | cons y b =>
      simp only [leL, List.cons_lt_cons_iff]
      by_cases h1 : x < y
      · simp [h1]
      · by_cases h2 : y < x
        · have hne : x ≠ y := fun e => by subst e; exact h1 h2
          simp [h1, h2, hne]
        · have : x = y := by
            exact char_eq_of_not_lt x y h1 h2
          subst this
          simp only [h1, if_false, false_or, true_and, ih b]
          simp

/-- **`String` order = `str::cmp`**: the walker model's name order (`strLe`, on code points) is
    the C06 model's (`bytesLe`, on UTF-8 bytes). -/
theorem strLe_enc (s t : String) : Walk.strLe s t = Cfi.bytesLe (utf8 s) (utf8 t) := by
  unfold utf8
  rw [← leL_enc, leL_eq]
  unfold Walk.strLe
  have h1 : decide (s < t) = decide (s.toList < t.toList) := by
    simp only [String.lt_iff]
  have h2 : (s == t) = (s.toList == t.toList) := by
    by_cases h : s = t
    · subst h; simp
    · have : s.toList ≠ t.toList := fun e => h (String.toList_inj.mp e)
      rw [beq_eq_false_iff_ne.mpr h, beq_eq_false_iff_ne.mpr this]
  rw [h1, h2]

end MdModel.CfiBridge
