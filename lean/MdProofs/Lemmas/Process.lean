/-
  Helper lemmas for C03 (MdModel.Process): the checked operations and the per-kernel "no panic
  outcome" facts.
-/
import MdModel.Process
namespace MdModel.Process
open MdModel

/-- the outcome is not the panic outcome -/
def NoPanic {α : Type} (o : Outcome α) : Prop := ∃ v, o = .ok v

theorem noPanic_ok {α : Type} (v : α) : NoPanic (Outcome.ok v) := ⟨v, rfl⟩

theorem noPanic_not_panic {α : Type} {o : Outcome α} (h : NoPanic o) : ∀ s, o ≠ .panic s := by
  intro s hs
  obtain ⟨v, hv⟩ := h
  rw [hv] at hs
  cases hs

theorem bind_ok {α β : Type} (a : α) (f : α → Outcome β) : (Outcome.ok a >>= f) = f a := rfl
theorem bind_panic {α β : Type} (s : String) (f : α → Outcome β) : (Outcome.panic s >>= f) = .panic s := rfl
theorem pure_eq {α : Type} (a : α) : (pure a : Outcome α) = .ok a := rfl

theorem mapO_ok {α β : Type} (f : α → Outcome β) :
    ∀ (l : List α), (∀ x ∈ l, NoPanic (f x)) → NoPanic (mapO f l) := by
  intro l
  induction l with
  | nil => intro _; exact ⟨[], rfl⟩
  | cons x xs ih =>
    intro h
    obtain ⟨y, hy⟩ := h x (List.mem_cons_self)
    obtain ⟨ys, hys⟩ := ih (fun z hz => h z (List.mem_cons_of_mem _ hz))
    exact ⟨y :: ys, by simp only [mapO, hy, hys]⟩

theorem mapO_length {α β : Type} (f : α → Outcome β) :
    ∀ (l : List α) (ys : List β), mapO f l = .ok ys → ys.length = l.length := by
  intro l
  induction l with
  | nil => intro ys h; simp only [mapO] at h; cases h; rfl
  | cons x xs ih =>
    intro ys h
    simp only [mapO] at h
    split at h
    · cases h
    · split at h
      · cases h
      · rename_i zs hz
        cases h
        simp [ih zs hz]

theorem cidx_ok {α : Type} (site : String) (l : List α) (i : Nat) (h : i < l.length) :
    cidx site l i = .ok l[i] := by
  simp [cidx, List.getElem?_eq_getElem h]

theorem csub_ok (site : String) (a b : Nat) (h : b ≤ a) : csub site a b = .ok (a - b) := by
  simp [csub, h]

theorem cadd64_ok (site : String) (a b : Nat) (h : a + b ≤ U64MAX) : cadd64 site a b = .ok (a + b) := by
  simp [cadd64, h]

/-! ### K1 -/

theorem limitLine_ok (m : List (List Char)) (h : 3 ≤ m.length) : NoPanic (limitLine m) := by
  unfold limitLine
  by_cases h3 : m.length = 3
  · simp only [h3, if_true, pure_eq, bind_ok, cidx_ok _ m 0 (by omega), cidx_ok _ m 1 (by omega),
      cidx_ok _ m 2 (by omega)]
    exact ⟨_, rfl⟩
  · simp only [h3, if_false, pure_eq, bind_ok, cidx_ok _ m 3 (by omega), cidx_ok _ m 0 (by omega),
      cidx_ok _ m 1 (by omega), cidx_ok _ m 2 (by omega)]
    exact ⟨_, rfl⟩

/-! ### K2 -/

theorem rangeNew_ok (s e : Nat) (h : s ≤ e) : rangeNew s e = .ok (some (s, e)) := by
  simp [rangeNew, Nat.not_lt.mpr h]

/-- `memory_range()` never reaches the panic of `Range::new`, and a range it returns is ordered -/
theorem memRange_ok (k : InfoKind) (r : RawRegion) :
    ∃ o, memRange k r = .ok o ∧ ∀ s e, o = some (s, e) → s ≤ e := by
  cases k with
  | info =>
    unfold memRange
    simp only
    by_cases hb : r.b = 0
    · exact ⟨none, by simp [hb], fun s e h => by cases h⟩
    · simp only [hb, if_false]
      unfold checkedAdd64
      by_cases hov : r.a + r.b ≤ U64MAX
      · simp only [hov, if_true]
        have h1 : 1 ≤ r.a + r.b := by omega
        rw [csub_ok _ _ _ h1, bind_ok, rangeNew_ok _ _ (by omega)]
        exact ⟨_, rfl, fun s e h => by cases h; omega⟩
      · simp only [hov, if_false]
        exact ⟨none, rfl, fun s e h => by cases h⟩
  | maps =>
    unfold memRange
    simp only
    by_cases hgt : r.a > r.b
    · exact ⟨none, by simp [hgt], fun s e h => by cases h⟩
    · simp only [hgt, if_false]
      rw [rangeNew_ok _ _ (by omega)]
      exact ⟨_, rfl, fun s e h => by cases h; omega⟩

theorem adjacentLoop_ok (k : InfoKind) (range : Nat × Nat) :
    ∀ rs : List RawRegion, NoPanic (adjacentLoop k range rs) := by
  intro rs
  induction rs with
  | nil => exact ⟨false, rfl⟩
  | cons r rest ih =>
    obtain ⟨o, ho, _⟩ := memRange_ok k r
    unfold adjacentLoop
    rw [ho]
    cases o with
    | none => exact ih
    | some p =>
      obtain ⟨os, oe⟩ := p
      simp only
      split
      · exact ⟨true, rfl⟩
      · split
        · exact ⟨_, rfl⟩
        · exact ih

theorem guardFlag_ok (k : InfoKind) (byAddr : List RawRegion) (info : RawRegion) :
    NoPanic (guardFlag k byAddr info) := by
  obtain ⟨o, ho, hord⟩ := memRange_ok k info
  unfold guardFlag
  rw [ho]
  cases o with
  | none => exact ⟨false, rfl⟩
  | some p =>
    obtain ⟨s, e⟩ := p
    simp only
    split
    · exact ⟨false, rfl⟩
    · rw [csub_ok _ _ _ (hord s e rfl)]
      simp only
      split
      · exact adjacentLoop_ok k (s, e) byAddr
      · exact ⟨false, rfl⟩

/-! ### K4 -/

theorem checkedAdd32_le {a b v : Nat} (h : checkedAdd32 a b = some v) : v = a + b ∧ v ≤ U32MAX := by
  unfold checkedAdd32 at h
  split at h
  · cases h; exact ⟨rfl, by assumption⟩
  · cases h

theorem winFrameSize_le {i : WinInfo} {g v : Nat} (h : winFrameSize i g = some v) :
    v = i.localSize + i.savedSize + g ∧ v ≤ U32MAX := by
  unfold winFrameSize at h
  cases h1 : checkedAdd32 i.localSize i.savedSize with
  | none => rw [h1] at h; cases h
  | some x =>
    rw [h1] at h
    simp only [Option.bind_some] at h
    obtain ⟨e1, _⟩ := checkedAdd32_le h1
    obtain ⟨e2, b2⟩ := checkedAdd32_le h
    exact ⟨by omega, b2⟩

theorem u64_u32 : 2 * U32MAX + 16 ≤ U64MAX := by decide
theorem fpo_word_eq : Consts.fpo_word = 4 := rfl
theorem fpo_back_eq : Consts.fpo_ebp_back = 8 := rfl

/-- the return-address half: no panic when the operands are 32-bit values, and the address it
    settles on is at most `esp + frame_size + 4` -/
theorem fpoEip_ok (x : FpoIn) (esp fs : Nat) (he : esp ≤ U32MAX) (hf : fs ≤ U32MAX) :
    ∃ o, fpoEip x esp fs = .ok o ∧ ∀ a e, o = some (a, e) → a ≤ esp + fs + 4 := by
  have hu := u64_u32
  have hw := fpo_word_eq
  unfold fpoEip
  rw [cadd64_ok _ _ _ (by omega)]
  simp only
  cases hm : x.mem (esp + fs) with
  | none => exact ⟨none, rfl, fun a e h => by cases h⟩
  | some eip0 =>
    simp only
    split
    · exact ⟨_, rfl, fun a e h => by cases h; omega⟩
    · cases hc : x.eip with
      | none => exact ⟨none, rfl, fun a e h => by cases h⟩
      | some ceip =>
        simp only
        split
        · rw [cadd64_ok _ _ _ (by omega)]
          simp only
          cases hm2 : x.mem (esp + fs + Consts.fpo_word) with
          | none => exact ⟨none, rfl, fun a e h => by cases h⟩
          | some e2 => exact ⟨_, rfl, fun a e h => by cases h; omega⟩
        · exact ⟨_, rfl, fun a e h => by cases h; omega⟩

theorem fpoEbp_ok (i : WinInfo) (x : FpoIn) (esp : Nat) (he : esp ≤ U32MAX) (hg : x.gcps ≤ U32MAX)
    (hs : i.savedSize ≤ U32MAX) : NoPanic (fpoEbp i x esp) := by
  have hu := u64_u32
  have h3 : 3 * U32MAX ≤ U64MAX := by decide
  unfold fpoEbp
  split
  · rw [cadd64_ok _ _ _ (by omega)]
    simp only
    rw [cadd64_ok _ _ _ (by omega)]
    simp only
    split
    · exact ⟨none, rfl⟩
    · split
      · exact ⟨none, rfl⟩
      · exact ⟨_, rfl⟩
  · split
    · exact ⟨none, rfl⟩
    · exact ⟨_, rfl⟩

/-! ### K5 -/

theorem optSub_ok (site : String) (a : Nat) (b : Option Nat) (h : ∀ v, b = some v → v ≤ a) :
    NoPanic (optSub site a b) := by
  cases b with
  | none => exact ⟨none, rfl⟩
  | some v =>
    simp only [optSub, csub_ok _ _ _ (h v rfl)]
    exact ⟨_, rfl⟩

theorem jsonEnd_ok (m : ModRaw) (h : readerKeeps m = true) : NoPanic (jsonEnd m) := by
  unfold readerKeeps at h
  simp only [Bool.and_eq_true, bne_iff_ne, ne_eq, decide_eq_true_eq] at h
  have hu : U64MAX = 18446744073709551615 := rfl
  unfold jsonEnd
  rw [cadd64_ok _ _ _ (by omega)]
  exact ⟨_, rfl⟩

theorem textEnd_ok (m : ModRaw) (h : readerKeeps m = true) : NoPanic (textEnd m) := by
  unfold readerKeeps at h
  simp only [Bool.and_eq_true, bne_iff_ne, ne_eq, decide_eq_true_eq] at h
  have hu : U64MAX = 18446744073709551615 := rfl
  unfold textEnd
  simp only [cadd64_ok _ m.base m.size (by omega), bind_ok, csub_ok _ (m.base + m.size) 1 (by omega)]
  exact ⟨_, rfl⟩

end MdModel.Process
