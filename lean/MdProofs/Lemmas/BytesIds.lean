/-
  MdProofs.Lemmas.BytesIds — MdModel.DumpIds / MdModel.DumpUnified: what a successfully read module
  list guarantees about its CodeView records, `Safe` for the identifier accessors and the module
  printer, the memory-info lookup table never fails and its lookups stay inside the region vector,
  `UnifiedMemoryInfoList`.
-/
import MdModel.DumpIds
import MdModel.DumpUnified
import MdProofs.Lemmas.BytesFull
import MdProofs.Lemmas.BytesMaps
namespace MdModel.Dump
open MdModel MdModel.Gen.Layouts

/-! ### CodeView records of a module list that was read -/

/-- the record's GUID has its 11 scalars, its variable part is a piece of the file -/
def CvOk (allSize : Nat) : CodeView → Prop
  | .pdb70 guid _ name => guid.length = 11 ∧ name.size ≤ allSize
  | .pdb20 _ _ _ name => name.size ≤ allSize
  | .elf bid => bid.size ≤ allSize
  | .unknown raw => raw.size ≤ allSize

def ModuleOk (allSize : Nat) (m : Module) : Prop := ∀ cv, m.codeview = some cv → CvOk allSize cv

theorem cv_pdb70_length : CV_PDB70_FIXED.length = 13 := by decide

theorem cvTail_ok {src t : Bytes} {fixed : Nat} (h : (cvTail src fixed).res = .ok t) : t.size ≤ src.size := by
  unfold cvTail at h
  obtain ⟨_, _, h⟩ := bind_ok h
  obtain ⟨_, _, h⟩ := bind_ok h
  have := pure_ok h
  subst this
  simp only [Array.size_extract]
  omega

theorem readCodeview_ok {all : Bytes} {e : Endian} {loc : Loc} {cv : CodeView}
    (h : (readCodeview all e loc).res = .ok (some cv)) : CvOk all.size cv := by
  unfold readCodeview at h
  split at h
  · cases h
  · rename_i src hsrc
    have hs := locationSlice_size hsrc
    split at h
    · cases h
    · split at h
      · split at h
        · cases h
        · rename_i vs hvs
          obtain ⟨name, hname, h⟩ := bind_ok h
          have := pure_ok h
          cases this
          have hl := readFields_length hvs
          rw [cv_pdb70_length] at hl
          have := cvTail_ok hname
          exact ⟨by simp only [List.length_take, List.length_drop]; omega, by omega⟩
      · split at h
        · split at h
          · cases h
          · obtain ⟨name, hname, h⟩ := bind_ok h
            have := pure_ok h
            cases this
            have := cvTail_ok hname
            show name.size ≤ all.size
            omega
        · split at h
          · obtain ⟨id, hid, h⟩ := bind_ok h
            have := pure_ok h
            cases this
            have := cvTail_ok hid
            show id.size ≤ all.size
            omega
          · obtain ⟨_, _, h⟩ := bind_ok h
            have := pure_ok h
            cases this
            exact hs

theorem readModule_ok {all : Bytes} {e : Endian} {raw : RawModule} {m : Module}
    (h : (readModule all e raw).res = .ok m) : ModuleOk all.size m := by
  unfold readModule at h
  obtain ⟨r, _, h⟩ := bind_ok h
  split at h
  · cases h
  · split at h
    · have := pure_ok h; subst this
      intro cv hcv; cases hcv
    · obtain ⟨cv, hcv, h⟩ := bind_ok h
      split at h
      · cases h
      · have := pure_ok h; subst this
        intro cv' hcv'
        cases hcv'
        exact readCodeview_ok hcv

theorem readModules_ok {all : Bytes} {e : Endian} : ∀ (raws : List RawModule) (ms : List Module),
    (readModules all e raws).res = .ok ms → ∀ m ∈ ms, ModuleOk all.size m := by
  intro raws
  induction raws with
  | nil => intro ms h; have := pure_ok h; subst this; intro m hm; cases hm
  | cons r rest ih =>
    intro ms h
    unfold readModules at h
    split at h
    · exact ih ms h
    · obtain ⟨m, hm, h⟩ := bind_ok h
      obtain ⟨ms', hms', h⟩ := bind_ok h
      have := pure_ok h; subst this
      intro x hx
      cases List.mem_cons.mp hx with
      | inl heq => subst heq; exact readModule_ok hm
      | inr hmem => exact ih ms' hms' x hmem

theorem readModuleList_ok {ms : MemSizes} {b all : Bytes} {e : Endian} {mods : List Module}
    (h : (readModuleList ms b all e).res = .ok mods) : ∀ m ∈ mods, ModuleOk all.size m := by
  unfold readModuleList at h
  obtain ⟨_, _, h⟩ := bind_ok h
  obtain ⟨_, _, h⟩ := bind_ok h
  exact readModules_ok _ _ h

/-! ### the identifier accessors and the printer -/

theorem length_bytesToNul_le (bs : List UInt8) : (Encode.bytesToNul bs).length ≤ bs.length := by
  unfold Encode.bytesToNul
  exact length_takeWhile_le _ bs

theorem stringFromBytesNul_safe {B : Nat} (bs : List UInt8) (h : 3 * bs.length ≤ B) : Safe B (stringFromBytesNul bs) := by
  unfold stringFromBytesNul
  dsimp only
  refine safe_bind ?_ (fun _ _ => safe_pure _)
  split
  · exact safe_pure _
  · exact safe_alloc (by have := length_bytesToNul_le bs; omega)

theorem debugFileX_safe {B n : Nat} (m : Module) (hm : ModuleOk n m) (hB : 3 * n ≤ B) : Safe B (debugFileX m) := by
  unfold debugFileX
  split
  · rename_i g a name hcv
    have := (hm _ hcv).2
    exact safe_bind (stringFromBytesNul_safe _ (by simp only [Array.length_toList]; omega)) (fun _ _ => safe_pure _)
  · rename_i o s a name hcv
    have : name.size ≤ n := hm _ hcv
    exact safe_bind (stringFromBytesNul_safe _ (by simp only [Array.length_toList]; omega)) (fun _ _ => safe_pure _)
  · exact safe_pure _
  · exact safe_pure _

theorem moduleIds_safe {B n : Nat} (os : Encode.Os) (e : Endian) (m : Module) (hm : ModuleOk n m) (hB : 3 * n ≤ B) :
    Safe B (moduleIds os e m) := by
  unfold moduleIds
  dsimp only
  refine safe_bind ?_ (fun _ _ => safe_bind (debugFileX_safe m hm hB) (fun _ _ => safe_pure _))
  split
  · rename_i bid hcv
    have : bid.size ≤ n := hm _ hcv
    exact safe_alloc (by omega)
  · exact safe_pure _

theorem modulePrint_safe {B n : Nat} (m : Module) (hm : ModuleOk n m) (hB : 24 * n ≤ B) : Safe B (modulePrint m) := by
  unfold modulePrint
  split
  · rename_i guid a name hcv
    have hg := (hm _ hcv).1
    refine safe_loop_inv _ _ _ (fun _ _ => True) trivial ?_
    intro s i hi _
    refine ⟨?_, fun _ _ => trivial⟩
    rw [List.getElem?_eq_getElem (by omega : 3 + i < guid.length)]
    exact safe_pure _
  · exact safe_pure _
  · rename_i bid hcv
    have : bid.size ≤ n := hm _ hcv
    exact safe_bind (safe_alloc (by omega)) (fun _ _ => safe_bind (safe_alloc (by omega)) (fun _ _ => safe_pure _))
  · rename_i raw hcv
    have : raw.size ≤ n := hm _ hcv
    exact safe_bind (safe_alloc (by omega)) (fun _ _ => safe_bind (safe_alloc (by omega)) (fun _ _ => safe_pure _))
  · exact safe_pure _

theorem modulesOut_safe {B n : Nat} (os : Encode.Os) (e : Endian) (hB : 24 * n ≤ B) :
    ∀ ms : List Module, (∀ m ∈ ms, ModuleOk n m) → Safe B (modulesOut os e ms) := by
  intro ms
  induction ms with
  | nil => intro _; exact safe_pure _
  | cons m rest ih =>
    intro h
    unfold modulesOut
    have hm := h m List.mem_cons_self
    refine safe_bind (moduleIds_safe os e m hm (by omega)) (fun _ _ => ?_)
    refine safe_bind (modulePrint_safe m hm hB) (fun _ _ => ?_)
    exact safe_bind (ih (fun x hx => h x (List.mem_cons_of_mem _ hx))) (fun _ _ => safe_pure _)

theorem cnt_stringFromBytesNul (bs : List UInt8) : CntLe 1 (stringFromBytesNul bs) := by
  unfold stringFromBytesNul
  dsimp only
  refine (cnt_bind (A := 1) ?_ (C := 0) (fun _ _ => cnt_pure _)).mono (by omega)
  split
  · exact (cnt_pure _).mono (by omega)
  · exact cnt_alloc _ _ _

theorem cnt_moduleIds (os : Encode.Os) (e : Endian) (m : Module) : CntLe 2 (moduleIds os e m) := by
  unfold moduleIds
  dsimp only
  refine (cnt_bind (A := 1) ?_ (C := 1) (fun _ _ => ?_)).mono (by omega)
  · split
    · exact cnt_alloc _ _ _
    · exact (cnt_pure _).mono (by omega)
  · refine (cnt_bind (A := 1) ?_ (C := 0) (fun _ _ => cnt_pure _)).mono (by omega)
    unfold debugFileX
    split
    · exact (cnt_bind (cnt_stringFromBytesNul _) (C := 0) (fun _ _ => cnt_pure _)).mono (by omega)
    · exact (cnt_bind (cnt_stringFromBytesNul _) (C := 0) (fun _ _ => cnt_pure _)).mono (by omega)
    · exact (cnt_pure _).mono (by omega)
    · exact (cnt_pure _).mono (by omega)

theorem cnt_modulePrint (m : Module) : CntLe 2 (modulePrint m) := by
  unfold modulePrint
  split
  · refine (cnt_loop_zero _ _ _ (fun s i => ?_)).mono (by omega)
    split <;> exact Nat.le_refl _
  · exact (cnt_pure _).mono (by omega)
  · exact (cnt_bind (cnt_alloc _ _ _) (C := 1) (fun _ _ =>
      (cnt_bind (cnt_alloc _ _ _) (C := 0) (fun _ _ => cnt_pure _)).mono (by omega))).mono (by omega)
  · exact (cnt_bind (cnt_alloc _ _ _) (C := 1) (fun _ _ =>
      (cnt_bind (cnt_alloc _ _ _) (C := 0) (fun _ _ => cnt_pure _)).mono (by omega))).mono (by omega)
  · exact (cnt_pure _).mono (by omega)

theorem cnt_modulesOut (os : Encode.Os) (e : Endian) : ∀ ms : List Module, CntLe (4 * ms.length) (modulesOut os e ms) := by
  intro ms
  induction ms with
  | nil => exact cnt_pure _
  | cons m rest ih =>
    unfold modulesOut
    refine (cnt_bind (cnt_moduleIds os e m) (C := 2 + 4 * rest.length) (fun _ _ => ?_)).mono (by simp only [List.length_cons]; omega)
    refine (cnt_bind (cnt_modulePrint m) (C := 4 * rest.length) (fun _ _ => ?_)).mono (by omega)
    exact (cnt_bind ih (C := 0) (fun _ _ => cnt_pure _)).mono (by omega)

theorem readSoftErrors_safe {B : Nat} (b : Bytes) : Safe B (readSoftErrors b) := by
  unfold readSoftErrors
  split
  · exact safe_pure _
  · exact safe_fail _

theorem cnt_readSoftErrors (b : Bytes) : CntLe 0 (readSoftErrors b) := by
  unfold readSoftErrors
  split
  · exact cnt_pure _
  · exact cnt_fail _

/-! ### the memory-info lookup table, `UnifiedMemoryInfoList` -/

theorem memInfoInput_wf (is : List MemInfo) :
    RangeMap.InputWF (is.zipIdx.map fun (x, i) => (RangeMap.mkRange x.base x.size, i)) := by
  intro en hen r hr
  simp only [List.mem_map] at hen
  obtain ⟨⟨x, i⟩, _, rfl⟩ := hen
  have := RangeMap.mkRange_wf hr
  exact ⟨this.1, this.2.1⟩

theorem memInfoFromRegions_ok (is : List MemInfo) :
    (memInfoFromRegions is).res = .ok (RangeMap.safeVec (is.zipIdx.map fun (x, i) => (RangeMap.mkRange x.base x.size, i))) := by
  unfold memInfoFromRegions
  rw [RangeMap.safe_ok _ (memInfoInput_wf is)]
  rfl

theorem memInfoFromRegions_safe {B : Nat} (is : List MemInfo) (h : is.length * 32 ≤ B) : Safe B (memInfoFromRegions is) := by
  unfold memInfoFromRegions
  refine safe_bind (safe_alloc h) (fun _ _ => ?_)
  rw [RangeMap.safe_ok _ (memInfoInput_wf is)]
  exact safe_pure _

/-- a table whose values are positions of the region vector: every value it holds or serves is one -/
def TableInto (table : List RangeMap.Entry) (n : Nat) : Prop :=
  (∀ a i, RangeMap.get table a = some i → i < n) ∧ ∀ en ∈ table, en.2 < n

/-- every entry of a normalised table carries the value of some input range -/
theorem safeVec_value_mem (xs : List (Option RangeMap.Rng × RangeMap.Val)) (hwf : RangeMap.InputWF xs)
    (en : RangeMap.Entry) (hen : en ∈ RangeMap.safeVec xs) : ∃ r, (some r, en.2) ∈ xs := by
  have hsep := RangeMap.safeVec_sep xs hwf
  have hw := RangeMap.Sep.wf hsep en hen
  have hc : en.1.contains en.1.lo = true := by
    simp only [RangeMap.Rng.contains, Bool.and_eq_true, decide_eq_true_eq]
    exact ⟨Nat.le_refl _, hw.1⟩
  have hget := RangeMap.get_complete_mem _ hsep en hen en.1.lo hc
  obtain ⟨r, hr, _⟩ := RangeMap.get_sound xs en.1.lo en.2 hget
  exact ⟨r, hr⟩

theorem memInfoTable_into (is : List MemInfo) :
    TableInto (RangeMap.safeVec (is.zipIdx.map fun (x, i) => (RangeMap.mkRange x.base x.size, i))) is.length := by
  have key : ∀ r (i : RangeMap.Val), (some r, i) ∈ (is.zipIdx.map fun (x, i) => (RangeMap.mkRange x.base x.size, i)) → i < is.length := by
    intro r i hr
    simp only [List.mem_map] at hr
    obtain ⟨⟨x, j⟩, hmem, heq⟩ := hr
    have := List.mem_zipIdx hmem
    simp only [Nat.zero_add] at this
    simp only [Prod.mk.injEq] at heq
    obtain ⟨_, hji⟩ := heq
    obtain ⟨_, h2, _⟩ := this
    subst hji
    exact h2
  constructor
  · intro a i h
    obtain ⟨r, hr, _⟩ := RangeMap.get_sound _ a i h
    exact key r i hr
  · intro en hen
    obtain ⟨r, hr⟩ := safeVec_value_mem _ (memInfoInput_wf is) en hen
    exact key r en.2 hr

theorem mapsTable_into (es : List MapEntry) (h : ∀ x ∈ es, x.hi ≤ U64MAX) :
    TableInto (RangeMap.safeVec (es.zipIdx.map fun (x, i) => (RangeMap.mkRangeMap x.lo x.hi, i))) es.length := by
  constructor
  · intro a i hg; exact mapsTable_index_lt es a i hg
  · intro en hen
    obtain ⟨r, hr⟩ := safeVec_value_mem _ (mapsInput_wf es h) en hen
    simp only [List.mem_map] at hr
    obtain ⟨⟨x, j⟩, hmem, heq⟩ := hr
    have := List.mem_zipIdx hmem
    simp only [Nat.zero_add] at this
    simp only [Prod.mk.injEq] at heq
    obtain ⟨_, hji⟩ := heq
    obtain ⟨_, h2, _⟩ := this
    rw [← hji]
    exact h2

theorem tableAt_safe {B : Nat} (site : String) (table : List RangeMap.Entry) (n a : Nat) (h : TableInto table n) :
    Safe B (tableAt site table n a) := by
  unfold tableAt
  split
  · exact safe_pure _
  · rename_i i hi
    rw [if_pos (h.1 a i hi)]
    exact safe_pure _

theorem byAddrIndices_safe {B : Nat} (site : String) (n : Nat) : ∀ table : List RangeMap.Entry,
    (∀ en ∈ table, en.2 < n) → Safe B (byAddrIndices site n table) := by
  intro table
  induction table with
  | nil => intro _; exact safe_pure _
  | cons en rest ih =>
    intro h
    obtain ⟨r, i⟩ := en
    unfold byAddrIndices
    rw [if_pos (h (r, i) List.mem_cons_self)]
    exact safe_bind (ih (fun x hx => h x (List.mem_cons_of_mem _ hx))) (fun _ _ => safe_pure _)

theorem probeAll_safe {B : Nat} (site : String) (table : List RangeMap.Entry) (n : Nat) (h : TableInto table n) :
    ∀ as : List Nat, Safe B (probeAll site table n as) := by
  intro as
  induction as with
  | nil => exact safe_pure _
  | cons a rest ih =>
    unfold probeAll
    exact safe_bind (tableAt_safe site table n a h) (fun _ _ => safe_bind ih (fun _ _ => safe_pure _))

theorem tableAt_allocs (site : String) (table : List RangeMap.Entry) (n a : Nat) : (tableAt site table n a).allocs = [] := by
  unfold tableAt
  split
  · rfl
  · split <;> rfl

theorem byAddrIndices_allocs (site : String) (n : Nat) : ∀ table : List RangeMap.Entry, (byAddrIndices site n table).allocs = [] := by
  intro table
  induction table with
  | nil => rfl
  | cons en rest ih =>
    obtain ⟨r, i⟩ := en
    unfold byAddrIndices
    split
    · exact allocs_bind_nil ih (fun _ => rfl)
    · rfl

theorem probeAll_allocs (site : String) (table : List RangeMap.Entry) (n : Nat) : ∀ as : List Nat, (probeAll site table n as).allocs = [] := by
  intro as
  induction as with
  | nil => rfl
  | cons a rest ih =>
    unfold probeAll
    exact allocs_bind_nil (tableAt_allocs _ _ _ _) (fun _ => allocs_bind_nil ih (fun _ => rfl))

/-- `UnifiedMemoryInfoList` over a memory-info list that was read and / or maps that were read -/
theorem unifiedOut_safe {B : Nat} (info : Option (List MemInfo)) (maps : Option LinuxMapsX)
    (hi : ∀ is, info = some is → is.length * 32 ≤ B)
    (hm : ∀ m, maps = some m → MapsWF m ∧ ∀ x ∈ m.entries, x.hi ≤ U64MAX) : Safe B (unifiedOut info maps) := by
  unfold unifiedOut
  split
  · exact safe_pure _
  · rename_i hk
    cases info with
    | none => unfold unifiedNew at hk; cases maps <;> cases hk
    | some is =>
      simp only [Option.getD_some]
      refine safe_bind (memInfoFromRegions_safe is (hi is rfl)) (fun t ht => ?_)
      rw [memInfoFromRegions_ok] at ht
      cases ht
      have hinto := memInfoTable_into is
      refine safe_bind (byAddrIndices_safe _ _ _ hinto.2) (fun _ _ => ?_)
      exact safe_bind (probeAll_safe _ _ _ hinto _) (fun _ _ => safe_pure _)
  · rename_i hk
    cases maps with
    | none => unfold unifiedNew at hk; cases info <;> cases hk
    | some m =>
      simp only [Option.getD_some]
      have ⟨hwf, hhi⟩ := hm m rfl
      have hinto := mapsTable_into m.entries hhi
      rw [← hwf] at hinto
      refine safe_bind (byAddrIndices_safe _ _ _ hinto.2) (fun _ _ => ?_)
      exact safe_bind (probeAll_safe _ _ _ hinto _) (fun _ _ => safe_pure _)

theorem cnt_unifiedOut (info : Option (List MemInfo)) (maps : Option LinuxMapsX) : CntLe 1 (unifiedOut info maps) := by
  unfold unifiedOut
  split
  · exact (cnt_pure _).mono (by omega)
  · refine (cnt_bind (A := 1) ?_ (C := 0) (fun _ _ => ?_)).mono (by omega)
    · unfold memInfoFromRegions
      refine (cnt_bind (cnt_alloc _ _ _) (C := 0) (fun _ _ => ?_)).mono (by omega)
      split
      · exact cnt_pure _
      · exact cnt_panic _
    · refine cnt_bind (A := 0) ?_ (C := 0) (fun _ _ => ?_)
      · rw [cnt_zero_iff]; exact byAddrIndices_allocs _ _ _
      · refine cnt_bind (A := 0) ?_ (C := 0) (fun _ _ => cnt_pure _)
        rw [cnt_zero_iff]; exact probeAll_allocs _ _ _ _
  · refine (cnt_bind (A := 0) ?_ (C := 0) (fun _ _ => ?_)).mono (by omega)
    · rw [cnt_zero_iff]; exact byAddrIndices_allocs _ _ _
    · refine cnt_bind (A := 0) ?_ (C := 0) (fun _ _ => cnt_pure _)
      rw [cnt_zero_iff]; exact probeAll_allocs _ _ _ _

end MdModel.Dump
