/-
  MdProofs.Lemmas.EncodeFile — the file level of C02's round trip: header (byte order detected from
  the signature), directory walk, "the LAST directory entry of a type is served", and the raw stream
  handed to the stream readers: for ANY list of streams, `getRawStream` on `encodeStreams … ++ tail`
  returns the bytes of the last stream of the requested type (the layout/offset bookkeeping lemma
  for streams).
-/
import MdProofs.Lemmas.Encode
namespace MdModel.Encode
open MdModel MdModel.Dump MdModel.Gen.Layouts

/-! ## `BTreeMap` insert/lookup -/

theorem mapGet_mapInsert {α : Type} (k k' : Nat) (v : α) (m : List (Nat × α)) :
    mapGet k (mapInsert k' v m) = if k = k' then some v else mapGet k m := by
  induction m with
  | nil => simp [mapInsert, mapGet]
  | cons p rest ih =>
    obtain ⟨k'', v''⟩ := p
    simp only [mapInsert]
    split
    · simp [mapGet]
    · split
      · rename_i h1 h2
        subst h2
        simp only [mapGet]
        split <;> rfl
      · rename_i h1 h2
        simp only [mapGet, ih]
        by_cases hk : k = k''
        · simp only [hk, if_true]
          have : ¬ (k'' = k') := fun h => h2 h.symm
          simp [this]
        · simp [hk]

/-- the value of the LAST pair with key `ty` -/
def lastOf {α : Type} (ty : Nat) : List (Nat × α) → Option α
  | [] => none
  | (t, a) :: rest =>
    match lastOf ty rest with
    | some x => some x
    | none => if t = ty then some a else none

theorem lastOf_append {α : Type} (ty : Nat) (xs ys : List (Nat × α)) :
    lastOf ty (xs ++ ys) = match lastOf ty ys with
      | some x => some x
      | none => lastOf ty xs := by
  induction xs with
  | nil => simp [lastOf]; cases lastOf ty ys <;> rfl
  | cons p rest ih =>
    obtain ⟨t, a⟩ := p
    simp only [List.cons_append, lastOf, ih]
    cases lastOf ty ys <;> rfl

/-- inserting the pairs in order into a map: the last pair of a key wins -/
theorem mapGet_foldl {α : Type} (ty : Nat) (es : List (Nat × α)) (acc : List (Nat × α)) :
    mapGet ty (es.foldl (fun a p => mapInsert p.1 p.2 a) acc) =
      match lastOf ty es with
      | some x => some x
      | none => mapGet ty acc := by
  induction es generalizing acc with
  | nil => simp [lastOf]
  | cons p rest ih =>
    obtain ⟨t, a⟩ := p
    simp only [List.foldl_cons, ih, lastOf]
    cases lastOf ty rest with
    | some x => rfl
    | none =>
      simp only [mapGet_mapInsert]
      by_cases h : ty = t
      · subst h; simp
      · have : ¬ (t = ty) := fun h' => h h'.symm
        simp [h, this]

/-! ## the directory -/

/-- the directory entries the reader collects: stream `k` of `ss` starts at `off + Σ_{j<k} |ss[j]|` -/
def dirEntries : Nat → Nat → List (Nat × List UInt8) → List (Nat × DirEntry)
  | _, _, [] => []
  | i, off, (ty, bs) :: rest => (ty, ⟨i, ⟨bs.length, off⟩⟩) :: dirEntries (i + 1) (off + bs.length) rest

/-- every stream type, size and offset fits a u32 -/
def DirFits : Nat → List (Nat × List UInt8) → Prop
  | _, [] => True
  | off, (ty, bs) :: rest => ty < 2 ^ 32 ∧ bs.length < 2 ^ 32 ∧ off < 2 ^ 32 ∧ DirFits (off + bs.length) rest

@[simp] theorem encDirectory_length (e : Endian) (off : Nat) (ss : List (Nat × List UInt8)) :
    (encDirectory e off ss).length = 12 * ss.length := by
  induction ss generalizing off with
  | nil => rfl
  | cons p rest ih =>
    obtain ⟨ty, bs⟩ := p
    simp only [encDirectory, List.length_append, encFields_length, ih, List.length_cons]
    have : Layout.size MINIDUMP_DIRECTORY = 12 := by decide
    omega

theorem readDirectory_enc {b : Bytes} {e : Endian} :
    ∀ (ss : List (Nat × List UInt8)) (i off soff : Nat) (acc : List (Nat × DirEntry)),
      DirFits soff ss → Has b.toList off (encDirectory e soff ss) →
      readDirectory b e ss.length i off acc =
        (.ok ((dirEntries i soff ss).foldl (fun a p => mapInsert p.1 p.2 a) acc), i + ss.length) := by
  intro ss
  induction ss with
  | nil => intro i off soff acc _ _; simp [readDirectory, dirEntries]
  | cons p rest ih =>
    intro i off soff acc hf h
    obtain ⟨ty, bs⟩ := p
    simp only [DirFits] at hf
    simp only [encDirectory] at h
    have hfit : Fits MINIDUMP_DIRECTORY [ty, bs.length, soff] := by
      simp only [MINIDUMP_DIRECTORY, Fits]
      refine ⟨?_, ?_, ?_, trivial⟩ <;> omega
    have h1 := readFields_has hfit h.left
    have h2 := h.right
    simp only [encFields_length] at h2
    simp only [List.length_cons, readDirectory, h1]
    have hsz : Layout.size MINIDUMP_DIRECTORY = 12 := by decide
    rw [ih (i + 1) (off + Layout.size MINIDUMP_DIRECTORY) (soff + bs.length) _ hf.2.2.2 h2]
    simp only [dirEntries, List.foldl_cons, fld, List.getD_cons_zero, List.getD_cons_succ]
    congr 1
    omega

/-- **offset bookkeeping for streams**: the last directory entry of type `ty` cites exactly the
    bytes of the last stream of type `ty`, wherever the stream area was placed. -/
theorem lastOf_dirEntries {L : List UInt8} (ty : Nat) :
    ∀ (ss : List (Nat × List UInt8)) (i off : Nat), Has L off (streamsBytes ss) →
      match lastOf ty ss with
      | none => lastOf ty (dirEntries i off ss) = none
      | some bs => ∃ idx o, lastOf ty (dirEntries i off ss) = some ⟨idx, ⟨bs.length, o⟩⟩ ∧ Has L o bs := by
  intro ss
  induction ss with
  | nil => intro i off _; simp [lastOf, dirEntries]
  | cons p rest ih =>
    intro i off h
    obtain ⟨t, bs⟩ := p
    simp only [streamsBytes] at h
    have ih' := ih (i + 1) (off + bs.length) h.right
    simp only [lastOf, dirEntries]
    cases hl : lastOf ty rest with
    | some x =>
      rw [hl] at ih'
      obtain ⟨idx, o, h1, h2⟩ := ih'
      exact ⟨idx, o, by simp [h1], h2⟩
    | none =>
      rw [hl] at ih'
      simp only [ih']
      by_cases ht : t = ty
      · simp only [ht, if_true]
        exact ⟨i, off, rfl, h.left⟩
      · simp [ht]

/-! ## the header -/

theorem readFields_isSome {l : Layout} {b : Bytes} {off : Nat} (e : Endian) (h : off + Layout.size l ≤ b.size) :
    ∃ vs, readFields l b off e = some vs := by
  induction l generalizing off with
  | nil => exact ⟨[], rfl⟩
  | cons f rest ih =>
    obtain ⟨n, w⟩ := f
    rw [Layout.size_cons] at h
    obtain ⟨vs, hvs⟩ := ih (off := off + w) (by omega)
    refine ⟨decodeNat e (b.extract off (off + w)).toList :: vs, ?_⟩
    simp only [readFields, readScalar, hvs]
    rw [if_neg (by omega), if_neg (by omega)]

theorem readFields_head {n : String} {w : Nat} {rest : Layout} {b : Bytes} {off : Nat} {e : Endian} {v : Nat}
    {vs : List Nat} (h : readFields ((n, w) :: rest) b off e = some (v :: vs)) : readScalar b off w e = some v := by
  simp only [readFields] at h
  cases hs : readScalar b off w e with
  | none => rw [hs] at h; cases h
  | some v' =>
    rw [hs] at h
    cases hr : readFields rest b (off + w) e with
    | none => rw [hr] at h; cases h
    | some vs' => rw [hr] at h; cases h; rfl

theorem headerVals_fit (n flags : Nat) (hn : n < 2 ^ 32) (hfl : flags < 2 ^ 64) :
    Fits MINIDUMP_HEADER [MINIDUMP_SIGNATURE, MINIDUMP_VERSION, n, 32, 0, HEADER_TIME, flags] := by
  simp only [MINIDUMP_HEADER, Fits, MINIDUMP_SIGNATURE, MINIDUMP_VERSION, HEADER_TIME]
  refine ⟨by decide, by decide, ?_, by decide, by decide, by decide, ?_, trivial⟩ <;> omega

/-- `Minidump::read`'s first step on an encoded header: the byte order is recovered from the
    signature, in either order -/
theorem pickHeader_enc {b : Bytes} (e : Endian) (n flags : Nat) (hn : n < 2 ^ 32) (hfl : flags < 2 ^ 64)
    (h : Has b.toList 0 (encHeader e n flags)) :
    pickHeader b = .ok (e, ⟨MINIDUMP_SIGNATURE, MINIDUMP_VERSION, n, 32, 0, HEADER_TIME, flags⟩) := by
  have hfit := headerVals_fit n flags hn hfl
  have hrd := readFields_has hfit h
  cases e with
  | little =>
    unfold pickHeader
    simp only [hrd, Header.ofVals, fld, List.getD_cons_zero, List.getD_cons_succ, if_true]
  | big =>
    have hsz := h.size_le
    have h32 : Layout.size MINIDUMP_HEADER = 32 := by decide
    simp only [encHeader, encFields_length] at hsz
    obtain ⟨vs, hvs⟩ := readFields_isSome (l := MINIDUMP_HEADER) (b := b) (off := 0) .little (by omega)
    -- the first field read little-endian is the byte-swapped signature
    have hsig : Has b.toList 0 (encNat .big 4 MINIDUMP_SIGNATURE) := by
      have : Has b.toList 0 (encNat .big 4 MINIDUMP_SIGNATURE ++
          encFields .big (MINIDUMP_HEADER.drop 1) [MINIDUMP_VERSION, n, 32, 0, HEADER_TIME, flags]) := h
      exact this.left
    have hext := hsig.extract
    simp only [encNat_length, Nat.zero_add] at hext
    have hswap : decodeNat .little (encNat .big 4 MINIDUMP_SIGNATURE) = 1296321872 := by decide
    have hfirst : readScalar b 0 4 .little = some 1296321872 := by
      unfold readScalar
      rw [if_neg (by omega), if_neg (by omega)]
      simp only [Nat.zero_add, hext, hswap]
    cases vs with
    | nil =>
      have := readFields_length hvs
      simp [MINIDUMP_HEADER] at this
    | cons v0 vs' =>
      have hv0 : v0 = 1296321872 := by
        have := readFields_head hvs
        rw [hfirst] at this
        cases this; rfl
      subst hv0
      have h1 : ¬ ((1296321872 : Nat) = MINIDUMP_SIGNATURE) := by decide
      have h2 : swapBytes32 1296321872 = MINIDUMP_SIGNATURE := by decide
      unfold pickHeader
      simp only [hvs, hrd, Header.ofVals, fld, List.getD_cons_zero, List.getD_cons_succ, h1, h2, if_false,
        ne_eq, not_true_eq_false]

/-! ## `Minidump::read` and `get_raw_stream` on an encoded file -/

@[simp] theorem encHeader_length (e : Endian) (n flags : Nat) : (encHeader e n flags).length = 32 := by
  simp only [encHeader, encFields_length]; decide

/-- the directory map `Minidump::read` builds from `ss` -/
def dirMap (ss : List (Nat × List UInt8)) : List (Nat × DirEntry) :=
  (dirEntries 0 (32 + 12 * ss.length) ss).foldl (fun a p => mapInsert p.1 p.2 a) []

def encHeaderVal (n flags : Nat) : Header := ⟨MINIDUMP_SIGNATURE, MINIDUMP_VERSION, n, 32, 0, HEADER_TIME, flags⟩

theorem readDump_enc {b : Bytes} (e : Endian) (flags : Nat) (ss : List (Nat × List UInt8)) (tail : List UInt8)
    (hb : b.toList = encodeStreams e flags ss ++ tail)
    (hn : ss.length < 2 ^ 32) (hfl : flags < 2 ^ 64) (hdir : DirFits (32 + 12 * ss.length) ss) :
    readDump b = .ok ⟨e, encHeaderVal ss.length flags, dirMap ss, ss.length⟩ := by
  have hall : Has b.toList 0 (encHeader e ss.length flags ++ (encDirectory e (32 + 12 * ss.length) ss ++ streamsBytes ss)) :=
    ⟨[], tail, by simp [hb, encodeStreams], rfl⟩
  have hhdr := pickHeader_enc e ss.length flags hn hfl hall.left
  have hd : Has b.toList 32 (encDirectory e (32 + 12 * ss.length) ss) := by
    have := hall.right.left
    simpa using this
  have hrd := readDirectory_enc (b := b) (e := e) ss 0 32 (32 + 12 * ss.length) [] hdir hd
  unfold readDump
  simp only [hhdr]
  have hver : ¬ (MINIDUMP_VERSION % 65536 ≠ MINIDUMP_VERSION) := by decide
  simp only [hver, if_false, hrd, Nat.zero_add]
  rfl

theorem getRawStream_enc {b : Bytes} (e : Endian) (flags : Nat) (ss : List (Nat × List UInt8)) (tail : List UInt8)
    (hb : b.toList = encodeStreams e flags ss ++ tail) (hsz : b.size < 2 ^ 32) (ty : Nat) (d : Dump)
    (hd : d.streams = dirMap ss) :
    getRawStream d b ty = match lastOf ty ss with
      | none => .error .StreamNotFound
      | some bs => .ok bs.toArray := by
  have hs : Has b.toList (32 + 12 * ss.length) (streamsBytes ss) := by
    have : Has b.toList 0 (encHeader e ss.length flags ++ (encDirectory e (32 + 12 * ss.length) ss ++ streamsBytes ss)) :=
      ⟨[], tail, by simp [hb, encodeStreams], rfl⟩
    have := this.right.right
    simpa using this
  have hl := lastOf_dirEntries (L := b.toList) ty ss 0 (32 + 12 * ss.length) hs
  unfold getRawStream
  rw [hd, dirMap, mapGet_foldl]
  cases hlast : lastOf ty ss with
  | none =>
    rw [hlast] at hl
    simp [hl, mapGet]
  | some bs =>
    rw [hlast] at hl
    obtain ⟨idx, o, h1, h2⟩ := hl
    simp only [h1]
    have hle := h2.size_le
    have hU : (2 : Nat) ^ 32 ≤ U64MAX := by decide
    have hrange : locationRange b.size ⟨bs.length, o⟩ = some (o, o + bs.length) := by
      unfold locationRange checkedAdd
      simp only
      rw [if_pos (by omega)]
      simp only
      rw [if_pos (by omega)]
    unfold locationSlice
    simp only [hrange]
    congr 1
    apply Array.ext'
    simpa using h2.extract

end MdModel.Encode
