/-
  C06 inside the stack-walk environment, part 1: the invariant that makes the bridge applicable to
  EVERY frame of EVERY walk.

  `walkerOf_related` (the simulation relation between the walker model's callee frame and a C06
  `Walker` is inhabited) needs two facts about the callee context: its validity set names only
  registers of the context type (`ValidWf`) and its raw registers are 64-bit values. `CtxOk` is
  their conjunction; this file proves that every technique of every architecture returns such a
  context when it is given one — STACK CFI (`cfiOf`), frame pointer (`byFp`), scan (`byScan`) —
  so that it holds of every frame of `walk` as soon as it holds of the context frame
  (`walkLoop_ok`).
-/
import MdProofs.Lemmas.CfiBridgeSpec
import MdProofs.Lemmas.WalkSym
namespace MdModel.CfiBridge
open MdModel

/-! ## the effective architecture (MIPS: the frame's own `CONTEXT_MIPS64` flag) names the same registers -/

theorem canon_eff (a : Walk.Arch) (c : Walk.Ctx) (n : String) : (Walk.effArch a c).canon n = a.canon n := by
  cases a <;> simp [Walk.effArch, Walk.Arch.isMips] <;> split <;> rfl

/-- the context is one `walkerOf_related` accepts: validity set over the context type's register
    names, raw registers below 2^64 -/
structure CtxOk (a : Walk.Arch) (c : Walk.Ctx) : Prop where
  valid : ValidWf a c
  ip : c.ip < 2 ^ 64
  sp : c.sp < 2 ^ 64
  rest : ∀ p ∈ c.rest, p.2 < 2 ^ 64

theorem validWf_eff (a : Walk.Arch) (c' c : Walk.Ctx) : ValidWf (Walk.effArch a c') c ↔ ValidWf a c := by
  unfold ValidWf
  cases c.valid with
  | none => exact Iff.rfl
  | some which => simp only [canon_eff]

theorem CtxOk.eff {a : Walk.Arch} {c : Walk.Ctx} (c' : Walk.Ctx) (h : CtxOk a c) : CtxOk (Walk.effArch a c') c :=
  ⟨(validWf_eff a c' c).mpr h.valid, h.ip, h.sp, h.rest⟩

theorem CtxOk.of_eff {a : Walk.Arch} {c c' : Walk.Ctx} (h : CtxOk (Walk.effArch a c') c) : CtxOk a c :=
  ⟨(validWf_eff a c' c).mp h.valid, h.ip, h.sp, h.rest⟩

/-- the hypotheses of `walkerOf_related`, from `CtxOk` -/
theorem CtxOk.reg64 {a : Walk.Arch} {c : Walk.Ctx} (h : CtxOk a c) (mem : Walk.Mem) :
    ∀ n v, (⟨a, c, mem⟩ : Walk.CfiIn).reg n = some v → v < 2 ^ 64 :=
  reg64_of_ctx ⟨a, c, mem⟩ h.ip h.sp h.rest

theorem assocGet_lt (l : List (String × Nat)) (k : String) (hl : ∀ p ∈ l, p.2 < 2 ^ 64) :
    Walk.assocGet l k < 2 ^ 64 := by
  induction l with
  | nil => simp [Walk.assocGet]
  | cons p t ih =>
    obtain ⟨k', v'⟩ := p
    simp only [Walk.assocGet]
    split
    · exact hl (k', v') List.mem_cons_self
    · exact ih (fun p hp => hl p (List.mem_cons_of_mem _ hp))

theorem CtxOk.raw_lt {a : Walk.Arch} {c : Walk.Ctx} (h : CtxOk a c) (a' : Walk.Arch) (n : String) :
    c.raw a' n < 2 ^ 64 := by
  unfold Walk.Ctx.raw
  split
  · omega
  · split
    · exact h.ip
    · split
      · exact h.sp
      · exact assocGet_lt _ _ h.rest

theorem CtxOk.get_lt {a : Walk.Arch} {c : Walk.Ctx} (h : CtxOk a c) (a' : Walk.Arch) (n : String) (v : Nat)
    (hg : c.get a' n = some v) : v < 2 ^ 64 := by
  unfold Walk.Ctx.get at hg
  split at hg
  · simp only [Option.some.injEq] at hg
    subst hg
    split
    · exact Nat.lt_of_le_of_lt (Nat.mod_le _ _) (h.raw_lt a' n)
    · exact h.raw_lt a' n
  · cases hg

theorem rawC_lt {a : Walk.Arch} {c : Walk.Ctx} (hip : c.ip < 2 ^ 64) (hsp : c.sp < 2 ^ 64)
    (hrest : ∀ p ∈ c.rest, p.2 < 2 ^ 64) (s : String) : rawC a c s < 2 ^ 64 := by
  unfold rawC
  split
  · exact hip
  · split
    · exact hsp
    · exact assocGet_lt _ _ hrest

/-! ## stack memory reads are at most 64 bits wide -/

theorem leAt_lt (m : Walk.Mem) (w : Nat) : ∀ off, m.leAt off w < 256 ^ w := by
  induction w with
  | zero => intro off; simp [Walk.Mem.leAt]
  | succ w ih =>
    intro off
    have hb : m.byte off < 256 := by
      unfold Walk.Mem.byte
      exact UInt8.toNat_lt _
    have := ih (off + 1)
    simp only [Walk.Mem.leAt, Nat.pow_succ]
    omega

theorem read_lt {m : Walk.Mem} {a w v : Nat} (h : m.read a w = some v) (hw : w ≤ 8) : v < 2 ^ 64 := by
  unfold Walk.Mem.read at h
  split at h
  · cases h
  · simp only at h
    split at h
    · cases h
      calc m.wordAt (a - m.base) w < 256 ^ w := Walk.Mem.wordAt_lt m _ w
        _ ≤ 256 ^ 8 := Nat.pow_le_pow_right (by omega) hw
        _ = 2 ^ 64 := by decide
    · cases h

theorem regMax_lt (a : Walk.Arch) : a.regMax < 2 ^ 64 := by
  cases a <;> simp [Walk.Arch.regMax, U32MAX, U64MAX]

/-! ## the caller state `walk_with_stack_cfi` builds -/

/-- the caller validity set holds canonical register names only, the caller registers are 64-bit -/
structure OutOk (a : Walk.Arch) (o : Walk.CfiOut) : Prop where
  names : ∀ n ∈ o.valid, a.canon n = some n
  ip : o.ctx.ip < 2 ^ 64
  sp : o.ctx.sp < 2 ^ 64
  rest : ∀ p ∈ o.ctx.rest, p.2 < 2 ^ 64

theorem calleeSaved_canon (a : Walk.Arch) : ∀ n ∈ a.calleeSaved, a.canon n = some n := by
  cases a <;> decide

theorem spName_canon (a : Walk.Arch) : a.canon a.spName = some a.spName := by cases a <;> decide
theorem ipName_canon (a : Walk.Arch) : a.canon a.ipName = some a.ipName := by cases a <;> decide

theorem forwarded_canon (a : Walk.Arch) (c : Walk.Ctx) : ∀ n ∈ Walk.forwarded a c, a.canon n = some n := by
  intro n hn
  apply calleeSaved_canon
  unfold Walk.forwarded at hn
  cases a <;> exact (List.mem_filter.mp hn).1

theorem OutOk.init {a a' : Walk.Arch} {c : Walk.Ctx} (h : CtxOk a' c) :
    OutOk a ⟨c, Walk.forwarded a c⟩ :=
  ⟨forwarded_canon a c, h.ip, h.sp, h.rest⟩

theorem mem_setInsert {l : List String} {m n : String} (h : n ∈ Walk.setInsert l m) : n ∈ l ∨ n = m := by
  unfold Walk.setInsert at h
  split at h
  · exact .inl h
  · rcases List.mem_append.mp h with h | h
    · exact .inl h
    · exact .inr (List.mem_singleton.mp h)

theorem mem_assocSet {l : List (String × Nat)} {k : String} {v : Nat} {p : String × Nat}
    (h : p ∈ Walk.assocSet l k v) : p ∈ l ∨ p = (k, v) := by
  induction l with
  | nil => simp only [Walk.assocSet, List.mem_singleton] at h; exact .inr h
  | cons q t ih =>
    obtain ⟨k', v'⟩ := q
    simp only [Walk.assocSet] at h
    split at h
    · rcases List.mem_cons.mp h with h | h
      · exact .inr h
      · exact .inl (List.mem_cons_of_mem _ h)
    · rcases List.mem_cons.mp h with h | h
      · exact .inl (h ▸ List.mem_cons_self)
      · rcases ih h with h | h
        · exact .inl (List.mem_cons_of_mem _ h)
        · exact .inr h

theorem OutOk.afterCfaRa {a : Walk.Arch} {o : Walk.CfiOut} (h : OutOk a o) {cfa ra : Nat}
    (h1 : cfa ≤ a.regMax) (h2 : ra ≤ a.regMax) : OutOk a (CfiBridge.afterCfaRa a o cfa ra) := by
  have := regMax_lt a
  refine ⟨?_, by show ra < _; omega, by show cfa < _; omega, h.rest⟩
  intro n hn
  rcases mem_setInsert hn with hn | hn
  · rcases mem_setInsert hn with hn | hn
    · exact h.names n hn
    · rw [hn]; exact spName_canon a
  · rw [hn]; exact ipName_canon a

theorem OutOk.setReg {a : Walk.Arch} {o o' : Walk.CfiOut} (h : OutOk a o) {n : String} {v : Nat}
    (hs : o.setReg a n v = some o') : OutOk a o' := by
  rw [setReg_spec] at hs
  cases hm : a.canon n with
  | none => rw [hm] at hs; cases hs
  | some m =>
    rw [hm] at hs
    simp only at hs
    split at hs
    · cases hs
    · rename_i hv
      have hlt := regMax_lt a
      have hv' : v < 2 ^ 64 := by omega
      cases hs
      refine ⟨?_, ?_, ?_, ?_⟩
      · intro n' hn'
        rcases mem_setInsert hn' with hn' | hn'
        · exact h.names n' hn'
        · rw [hn']; exact canon_idem a n m hm
      · show Walk.Ctx.ip (if m = a.ipName then _ else if m = a.spName then _ else _) < _
        split
        · exact hv'
        · split
          · exact h.ip
          · exact h.ip
      · show Walk.Ctx.sp (if m = a.ipName then _ else if m = a.spName then _ else _) < _
        split
        · exact h.sp
        · split
          · exact hv'
          · exact h.sp
      · show ∀ p ∈ Walk.Ctx.rest (if m = a.ipName then _ else if m = a.spName then _ else _), _
        split
        · exact h.rest
        · split
          · exact h.rest
          · intro p hp
            rcases mem_assocSet hp with hp | hp
            · exact h.rest p hp
            · rw [hp]; exact hv'

theorem OutOk.clearReg {a : Walk.Arch} {o : Walk.CfiOut} (h : OutOk a o) (n : String) :
    OutOk a (o.clearReg a n) := by
  unfold Walk.CfiOut.clearReg
  split
  · exact h
  · exact ⟨fun n' hn' => h.names n' (List.mem_filter.mp hn').1, h.ip, h.sp, h.rest⟩

theorem OutOk.stepW {x : Walk.CfiIn} {o : Walk.CfiOut} (h : OutOk x.arch o) (cfa : Nat)
    (p : String × List Walk.ETok) : OutOk x.arch (CfiBridge.stepW x cfa o p) := by
  unfold CfiBridge.stepW
  split
  · split
    · rename_i hs; exact h.setReg hs
    · exact h.clearReg _
  · exact h.clearReg _

theorem OutOk.fold {x : Walk.CfiIn} (cfa : Nat) (l : List (String × List Walk.ETok)) :
    ∀ {o : Walk.CfiOut}, OutOk x.arch o → OutOk x.arch (l.foldl (CfiBridge.stepW x cfa) o) := by
  induction l with
  | nil => intro o h; exact h
  | cons p t ih => intro o h; exact ih (h.stepW cfa p)

/-- the shape of a successful `walk_with_stack_cfi` of the walker model: CFA and return address
    within the register width, then the loop over some list of remaining rules -/
theorem walkCfi_shape {x : Walk.CfiIn} {o0 o : Walk.CfiOut} {init : String} {adds : List String}
    (h : Walk.walkCfi x o0 init adds = some o) :
    ∃ (cfa ra : Nat) (l : List (String × List Walk.ETok)), cfa ≤ x.arch.regMax ∧ ra ≤ x.arch.regMax ∧
      o = l.foldl (stepW x cfa) (afterCfaRa x.arch o0 cfa ra) := by
  unfold Walk.walkCfi at h
  simp only at h
  split at h
  · cases h
  · split at h
    · split at h
      · cases h
      · rename_i cfa _
        split at h
        · cases h
        · rename_i ra _
          split at h
          · cases h
          · rename_i hfit
            simp only [Option.some.injEq] at h
            exact ⟨cfa, ra, _, by omega, by omega, h.symm⟩
    · cases h

theorem walkCfi_ok {x : Walk.CfiIn} {o0 o : Walk.CfiOut} {init : String} {adds : List String}
    (h0 : OutOk x.arch o0) (h : Walk.walkCfi x o0 init adds = some o) : OutOk x.arch o := by
  obtain ⟨cfa, ra, l, h1, h2, rfl⟩ := walkCfi_shape h
  exact OutOk.fold cfa l (h0.afterCfaRa h1 h2)

theorem walkFrameCfi_ok {sf : Walk.SymFile} {ct : List RangeMap.Entry} {base : Nat} {x : Walk.CfiIn}
    {o0 o : Walk.CfiOut} {instr : Nat} (h0 : OutOk x.arch o0)
    (h : Walk.walkFrameCfi sf ct base x o0 instr = some o) : OutOk x.arch o := by
  unfold Walk.walkFrameCfi at h
  split at h
  · cases h
  · simp only at h
    split at h
    · cases h
    · split at h
      · cases h
      · exact walkCfi_ok h0 h

theorem cfiWalk_ok {a a' : Walk.Arch} {w : Walk.World} {mtbl : List RangeMap.Entry}
    {ctbls : List (List RangeMap.Entry)} {mem : Walk.Mem} {callee : Walk.Frame} {o : Walk.CfiOut}
    (h0 : CtxOk a' callee.ctx) (h : Walk.cfiWalk a w mtbl ctbls mem callee = some o) : OutOk a o := by
  unfold Walk.cfiWalk at h
  split at h
  · cases h
  · split at h
    · exact walkFrameCfi_ok (x := ⟨a, callee.ctx, mem⟩) (OutOk.init h0) h
    · cases h

/-! ## `get_caller_by_cfi`, taken apart -/

/-- the stack-pointer validity test every `get_caller_by_cfi` starts with -/
def spValid (a : Walk.Arch) (c : Walk.Ctx) : Bool :=
  match a with
  | .x86 => c.hasLit "esp"
  | .amd64 => c.hasLit "rsp"
  | .arm => c.has a "r13"
  | _ => c.has a "sp"

/-- ARM64's pointer-authentication stripping at the end of `get_caller_by_cfi`: pc always, lr and
    fp when they are valid; every other architecture returns the context as it is -/
def stripPA (a : Walk.Arch) (mask : Nat) (r : Walk.Ctx) : Walk.Ctx :=
  match a with
  | .arm64 | .arm64old =>
    let r := { r with ip := r.ip &&& mask }
    let r := if r.has a "x30" then (r.set a "x30" (r.raw a "x30" &&& mask)).getD r else r
    let r := if r.has a "x29" then (r.set a "x29" (r.raw a "x29" &&& mask)).getD r else r
    r
  | _ => r

/-- **`cfiOf` = validity test, `cfiWalk`, validity set attached, pointer-authentication strip**; the
    grand-callee frame is not looked at -/
theorem cfiOf_eq (arch : Walk.Arch) (w : Walk.World) (mtbl : List RangeMap.Entry)
    (ctbls : List (List RangeMap.Entry)) (mask : Nat) (mem : Walk.Mem) (callee : Walk.Frame)
    (grand : Option Walk.Frame) :
    Walk.cfiOf arch w mtbl ctbls mask mem callee grand =
      if !spValid (Walk.effArch arch callee.ctx) callee.ctx then none
      else (Walk.cfiWalk (Walk.effArch arch callee.ctx) w mtbl ctbls mem callee).map fun o =>
        stripPA (Walk.effArch arch callee.ctx) mask { o.ctx with valid := some o.valid } := by
  unfold Walk.cfiOf
  simp only
  generalize Walk.effArch arch callee.ctx = a
  cases a <;> simp only [spValid, stripPA]
  all_goals
    generalize Walk.cfiWalk _ w mtbl ctbls mem callee = r
    cases r <;> simp only [Option.map_none, Option.map_some] <;> first | rfl | (split <;> rfl)

theorem and_lt {v m : Nat} (h : v < 2 ^ 64) : v &&& m < 2 ^ 64 :=
  Nat.lt_of_le_of_lt Nat.and_le_left h

theorem CtxOk.setD {a : Walk.Arch} {c : Walk.Ctx} (h : CtxOk a c) (a' : Walk.Arch) (n : String) {v : Nat}
    (hv : v < 2 ^ 64) : CtxOk a ((c.set a' n v).getD c) := by
  unfold Walk.Ctx.set
  split
  · exact h
  · split
    · exact ⟨h.valid, hv, h.sp, h.rest⟩
    · split
      · exact ⟨h.valid, h.ip, hv, h.rest⟩
      · refine ⟨h.valid, h.ip, h.sp, ?_⟩
        intro p hp
        rcases mem_assocSet hp with hp | hp
        · exact h.rest p hp
        · rw [hp]; exact hv

theorem stripPA_ok {a a' : Walk.Arch} {mask : Nat} {r : Walk.Ctx} (h : CtxOk a' r) : CtxOk a' (stripPA a mask r) := by
  have h1 : CtxOk a' { r with ip := r.ip &&& mask } := ⟨h.valid, and_lt h.ip, h.sp, h.rest⟩
  have step : ∀ (c : Walk.Ctx) (n : String), CtxOk a' c →
      CtxOk a' (if c.has a n then (c.set a n (c.raw a n &&& mask)).getD c else c) := by
    intro c n hc
    split
    · exact hc.setD a n (and_lt (hc.raw_lt a n))
    · exact hc
  cases a <;> first | exact h | exact step _ _ (step _ _ h1)

theorem OutOk.toCtx {a : Walk.Arch} {o : Walk.CfiOut} (h : OutOk a o) :
    CtxOk a { o.ctx with valid := some o.valid } :=
  ⟨fun n hn => by rw [h.names n hn]; rfl, h.ip, h.sp, h.rest⟩

/-- **STACK CFI keeps the invariant** -/
theorem cfiOf_ok {arch : Walk.Arch} {w : Walk.World} {mtbl : List RangeMap.Entry}
    {ctbls : List (List RangeMap.Entry)} {mask : Nat} {mem : Walk.Mem} {callee : Walk.Frame}
    {grand : Option Walk.Frame} {r : Walk.Ctx} (h0 : CtxOk arch callee.ctx)
    (h : Walk.cfiOf arch w mtbl ctbls mask mem callee grand = some r) : CtxOk arch r := by
  rw [cfiOf_eq] at h
  split at h
  · cases h
  · cases ho : Walk.cfiWalk (Walk.effArch arch callee.ctx) w mtbl ctbls mem callee with
    | none => rw [ho] at h; cases h
    | some o =>
      rw [ho] at h
      simp only [Option.map_some, Option.some.injEq] at h
      subst h
      exact (stripPA_ok (cfiWalk_ok h0 ho).toCtx).of_eff

/-! ## frame pointer and scan keep the invariant -/

theorem ctxOk_mk {a : Walk.Arch} {ip sp : Nat} {rest : List (String × Nat)} {names : List String} {m64 : Bool}
    (hn : ∀ n ∈ names, (a.canon n).isSome = true) (hip : ip < 2 ^ 64) (hsp : sp < 2 ^ 64)
    (hrest : ∀ p ∈ rest, p.2 < 2 ^ 64) :
    CtxOk a { ip := ip, sp := sp, rest := rest, valid := some names, m64 := m64 } :=
  ⟨hn, hip, hsp, hrest⟩

theorem fpX86_ok {mem : Walk.Mem} {c c' : Walk.Ctx} (h : Walk.fpX86 mem c = some c') : CtxOk .x86 c' := by
  unfold Walk.fpX86 at h
  split at h
  · cases h
  · simp only at h
    split at h
    · cases h
    · rename_i hbp
      split at h
      · cases h
      · rename_i ip hip
        split at h
        · cases h
        · rename_i cbp hcbp
          cases h
          refine ctxOk_mk (by decide) (read_lt hip (by omega)) ?_ ?_
          · simp only [U32MAX] at hbp; omega
          · intro p hp
            simp only [List.mem_singleton] at hp
            rw [hp]; exact read_lt hcbp (by omega)

theorem scanBpX86_lt {mem : Walk.Mem} {lastBp : Option Nat} {i a csp : Nat} {r : Option Nat}
    (hl : ∀ v, lastBp = some v → v < 2 ^ 64) (h : Walk.scanBpX86 mem lastBp i a csp = some r) :
    r.getD 0 < 2 ^ 64 := by
  unfold Walk.scanBpX86 at h
  split at h
  · cases h; decide
  · simp only at h
    split at h
    · cases h
    · rename_i bp hbp
      have hb := read_lt hbp (by omega)
      split at h
      · cases h; split <;> simp <;> omega
      · split at h
        · cases h; decide
        · rename_i lbp
          have := hl lbp rfl
          split at h
          · cases h; split <;> simp <;> omega
          · cases h; decide

theorem scanX86_ok {env : Walk.Env} {mem : Walk.Mem} {c c' : Walk.Ctx} {t : Walk.Trust} {a0 : Walk.Arch}
    (h0 : CtxOk a0 c) (h : Walk.scanX86 env mem c t = some c') : CtxOk .x86 c' := by
  unfold Walk.scanX86 at h
  split at h
  · cases h
  · simp only at h
    split at h
    · cases h
    · rename_i i a ip hs
      split at h
      · cases h
      · rename_i ha
        split at h
        · cases h
        · rename_i cbp hcbp
          cases h
          obtain ⟨hr, _⟩ := Walk.scanFrom_spec hs
          have hb := scanBpX86_lt (by
            intro v hv
            split at hv
            · cases hv; exact h0.raw_lt _ _
            · cases hv) hcbp
          refine ctxOk_mk ?_ (read_lt hr (by omega)) ?_ ?_
          · clear hcbp hb
            cases cbp with
            | none => decide
            | some v => simp only [Option.isSome_some, ↓reduceIte]; decide
          · simp only [U32MAX] at ha; omega
          · intro p hp
            simp only [List.mem_singleton] at hp
            rw [hp]; exact hb

theorem resolveAmd64_lt {mem : Walk.Mem} {bp sp step : Nat} :
    ∀ {n k ip cbp csp}, Walk.resolveAmd64 mem bp sp step n k = some (ip, cbp, csp) →
      ip < 2 ^ 64 ∧ cbp < 2 ^ 64 ∧ csp < 2 ^ 64 := by
  intro n
  induction n with
  | zero => intro k ip cbp csp h; simp [Walk.resolveAmd64] at h
  | succ n ih =>
    intro k ip cbp csp h
    unfold Walk.resolveAmd64 at h
    simp only at h
    split at h
    · cases h
    · split at h
      · cases h
      · split at h
        · cases h
        · rename_i ip' hip
          split at h
          · cases h
          · rename_i cbp' hcbp
            split at h
            · cases h
            · rename_i hcs
              split at h
              · exact ih h
              · split at h
                · cases h
                · split at h
                  · exact ih h
                  · split at h
                    · exact ih h
                    · cases h
                      refine ⟨read_lt hip (by omega), read_lt hcbp (by omega), ?_⟩
                      simp only [U64MAX] at hcs; omega

theorem fpAmd64_ok {os : Walk.Os} {mem : Walk.Mem} {c c' : Walk.Ctx} (h : Walk.fpAmd64 os mem c = some c') :
    CtxOk .amd64 c' := by
  unfold Walk.fpAmd64 at h
  split at h
  · cases h
  · split at h
    · cases h
    · simp only at h
      split at h
      · cases h
      · split at h
        · cases h
        · rename_i ip cbp csp hr
          cases h
          have hlt : ip < 2 ^ 64 ∧ cbp < 2 ^ 64 ∧ csp < 2 ^ 64 := by
            split at hr
            · exact resolveAmd64_lt hr
            · exact resolveAmd64_lt hr
          refine ctxOk_mk (by decide) hlt.1 hlt.2.2 ?_
          intro p hp
          simp only [List.mem_singleton] at hp
          rw [hp]; exact hlt.2.1

theorem scanBpAmd64_lt {mem : Walk.Mem} {lastBp : Option Nat} {i a csp : Nat} {r : Option Nat}
    (hl : ∀ v, lastBp = some v → v < 2 ^ 64) (h : Walk.scanBpAmd64 mem lastBp i a csp = some r) :
    r.getD 0 < 2 ^ 64 := by
  unfold Walk.scanBpAmd64 at h
  split at h
  · cases h; decide
  · rename_i lbp
    have := hl lbp rfl
    split at h
    · cases h; decide
    · simp only at h
      split at h
      · cases h
      · rename_i bp hbp
        have hb := read_lt hbp (by omega)
        split at h
        · cases h; split <;> simp <;> omega
        · split at h
          · cases h; simpa using this
          · cases h; decide

theorem scanAmd64_ok {env : Walk.Env} {mem : Walk.Mem} {c c' : Walk.Ctx} {t : Walk.Trust} {a0 : Walk.Arch}
    (h0 : CtxOk a0 c) (h : Walk.scanAmd64 env mem c t = some c') : CtxOk .amd64 c' := by
  unfold Walk.scanAmd64 at h
  split at h
  · cases h
  · simp only at h
    split at h
    · cases h
    · rename_i i a ip hs
      split at h
      · cases h
      · rename_i ha
        split at h
        · cases h
        · rename_i cbp hcbp
          cases h
          obtain ⟨hr, _⟩ := Walk.scanFrom_spec hs
          have hb := scanBpAmd64_lt (by
            intro v hv
            split at hv
            · cases hv; exact h0.raw_lt _ _
            · cases hv) hcbp
          refine ctxOk_mk ?_ (read_lt hr (by omega)) ?_ ?_
          · clear hcbp hb
            cases cbp with
            | none => decide
            | some v => simp only [Option.isSome_some, ↓reduceIte]; decide
          · simp only [U64MAX] at ha; omega
          · intro p hp
            simp only [List.mem_singleton] at hp
            rw [hp]; exact hb

theorem fpArm_ok {os : Walk.Os} {mem : Walk.Mem} {c c' : Walk.Ctx} {a0 : Walk.Arch} (h0 : CtxOk a0 c)
    (h : Walk.fpArm os mem c = some c') : CtxOk .arm c' := by
  unfold Walk.fpArm at h
  split at h
  · cases h
  · split at h
    · cases h
    · rename_i fp hfp
      split at h
      · cases h
      · rename_i sp hsp
        have hsp' := h0.get_lt _ _ _ hsp
        split at h
        · cases h
        · rename_i hfpm
          split at h
          · cases h
            refine ctxOk_mk (by decide) (by decide) hsp' ?_
            intro p hp
            simp only [List.mem_singleton] at hp
            rw [hp]; decide
          · split at h
            · cases h
            · rename_i cfp hcfp
              split at h
              · cases h
              · rename_i pc hpc
                cases h
                refine ctxOk_mk (by decide) (read_lt hpc (by omega)) ?_ ?_
                · simp only [U32MAX] at hfpm; omega
                · intro p hp
                  simp only [List.mem_singleton] at hp
                  rw [hp]; exact read_lt hcfp (by omega)

theorem scanArm_ok' {env : Walk.Env} {mem : Walk.Mem} {c c' : Walk.Ctx} {t : Walk.Trust}
    (h : Walk.scanArm env mem c t = some c') : CtxOk .arm c' := by
  unfold Walk.scanArm at h
  split at h
  · cases h
  · split at h
    · cases h
    · rename_i i a ip hs
      split at h
      · cases h
      · rename_i ha
        cases h
        obtain ⟨hr, _⟩ := Walk.scanFrom_spec hs
        refine ctxOk_mk (by decide) (read_lt hr (by omega)) ?_ (fun p hp => by cases hp)
        simp only [U32MAX] at ha; omega

theorem arm64_names (a : Walk.Arch) (ha : a = .arm64 ∨ a = .arm64old) :
    (∀ n ∈ ["pc", "x29", "sp"], (a.canon n).isSome = true) ∧ (∀ n ∈ ["pc", "sp"], (a.canon n).isSome = true) := by
  rcases ha with rfl | rfl <;> decide

theorem fpArm64_ok {env : Walk.Env} {a : Walk.Arch} {mem : Walk.Mem} {c c' : Walk.Ctx} {a0 : Walk.Arch}
    (ha : a = .arm64 ∨ a = .arm64old) (h0 : CtxOk a0 c) (h : Walk.fpArm64 env a mem c = some c') : CtxOk a c' := by
  unfold Walk.fpArm64 at h
  split at h
  · cases h
  · rename_i fp hfp
    split at h
    · cases h
    · rename_i sp hsp
      have hsp' := h0.get_lt _ _ _ hsp
      split at h
      · cases h
      · rename_i hfpm
        simp only at h
        split at h
        · cases h
        · rename_i cfp pc csp hr
          have hlt : cfp < 2 ^ 64 ∧ pc < 2 ^ 64 ∧ csp < 2 ^ 64 := by
            split at hr
            · cases hr; exact ⟨by decide, by decide, hsp'⟩
            · split at hr
              · cases hr
              · rename_i v1 hv1
                split at hr
                · cases hr
                · rename_i v2 hv2
                  cases hr
                  refine ⟨read_lt hv1 (by omega), read_lt hv2 (by omega), ?_⟩
                  simp only [U64MAX] at hfpm; omega
          split at h
          · cases h
          · cases h
            refine ctxOk_mk (arm64_names a ha).1 (and_lt hlt.2.1) hlt.2.2 ?_
            intro p hp
            simp only [List.mem_singleton] at hp
            rw [hp]; exact and_lt hlt.1

theorem scanArm64_ok' {env : Walk.Env} {a : Walk.Arch} {mem : Walk.Mem} {c c' : Walk.Ctx} {t : Walk.Trust}
    (ha : a = .arm64 ∨ a = .arm64old) (h : Walk.scanArm64 env a mem c t = some c') : CtxOk a c' := by
  unfold Walk.scanArm64 at h
  split at h
  · cases h
  · split at h
    · cases h
    · rename_i i ad ip hs
      split at h
      · cases h
      · rename_i had
        cases h
        obtain ⟨hr, _⟩ := Walk.scanFrom_spec hs
        refine ctxOk_mk (arm64_names a ha).2 (read_lt hr (by omega)) ?_ (fun p hp => by cases hp)
        simp only [U64MAX] at had; omega

theorem scanMips32_ok' {env : Walk.Env} {mem : Walk.Mem} {c c' : Walk.Ctx} {t : Walk.Trust}
    (h : Walk.scanMips32 env mem c t = some c') : CtxOk .mips32 c' := by
  unfold Walk.scanMips32 at h
  split at h
  · cases h
  · simp only at h
    split at h
    · cases h
    · split at h
      · cases h
      · rename_i i a ip hs
        split at h
        · cases h
        · rename_i ha
          cases h
          obtain ⟨hr, _⟩ := Walk.scanFrom_spec hs
          refine ctxOk_mk (by decide) (read_lt hr (by omega)) ?_ (fun p hp => by cases hp)
          simp only [U32MAX] at ha; omega

theorem scanMips64_ok' {env : Walk.Env} {mem : Walk.Mem} {c c' : Walk.Ctx}
    (h : Walk.scanMips64 env mem c = some c') : CtxOk .mips64 c' := by
  unfold Walk.scanMips64 at h
  split at h
  · cases h
  · split at h
    · cases h
    · rename_i i a ip hs
      split at h
      · cases h
      · rename_i ha
        cases h
        obtain ⟨hr, _⟩ := Walk.scanFrom_spec hs
        refine ctxOk_mk (by decide) (read_lt hr (by omega)) ?_ (fun p hp => by cases hp)
        simp only [U64MAX] at ha; omega

theorem byFp_ok {env : Walk.Env} {a a0 : Walk.Arch} {mem : Walk.Mem} {c c' : Walk.Ctx} (h0 : CtxOk a0 c)
    (h : Walk.byFp env a mem c = some c') : CtxOk a c' := by
  cases a <;> simp only [Walk.byFp] at h
  · exact fpX86_ok h
  · exact fpAmd64_ok h
  · exact fpArm_ok h0 h
  · exact fpArm64_ok (.inl rfl) h0 h
  · exact fpArm64_ok (.inr rfl) h0 h
  · cases h
  · cases h

theorem byScan_ok' {env : Walk.Env} {a a0 : Walk.Arch} {mem : Walk.Mem} {c c' : Walk.Ctx} {t : Walk.Trust}
    (h0 : CtxOk a0 c) (h : Walk.byScan env a mem c t = some c') : CtxOk a c' := by
  cases a <;> simp only [Walk.byScan] at h
  · exact scanX86_ok h0 h
  · exact scanAmd64_ok h0 h
  · exact scanArm_ok' h
  · exact scanArm64_ok' (.inl rfl) h
  · exact scanArm64_ok' (.inr rfl) h
  · exact scanMips32_ok' h
  · exact scanMips64_ok' h

end MdModel.CfiBridge
