/-
  Helper lemmas for C04 (MdProofs/C04Gen.lean): the scan-only GENERATOR of the `chain` engine as a
  Lean function (`gscanWords` / `gscanChain`, MdModel/Walk/LayoutGenScan.lean), generically in the
  architecture, and `preScanFrom` of it for all parameters — given `gscanFramesOk` (junk words
  `< 4096` and not valid instructions, return addresses valid instructions, scan windows, the
  MIPS32 four-word skip).

  * `linkScan_frame`   — one generated frame is a `linkScan` (per architecture / first flag: the
                         window literal and the skip; the arithmetic with the literal word size)
  * `preScan_gen_aux`  — the induction on the frames
-/
import MdProofs.Lemmas.WalkGenMem
import MdModel.Walk.LayoutGenScan
set_option linter.unusedSimpArgs false
set_option linter.unusedVariables false
namespace MdModel.Walk
open MdModel

/-- one generated frame is a `linkScan`: `K` = number of scanned junk words, `sk` = skipped words -/
theorem linkScan_frame (env : Env) (a : Arch) (mem : Mem) (base s : Nat) (first : Bool) (c : ScFr)
    (hskip : gscanSkip a first ≤ c.junk.length)
    (hwin : c.junk.length - gscanSkip a first < gscanWindow a first)
    (htop : pAddr a.ptr base (s + c.junk.length + 1) ≤ a.regMax) (hret : 4096 ≤ c.ret)
    (hvalid : instrValid env a c.ret = true)
    (hjunk : ∀ j, j < c.junk.length - gscanSkip a first →
      ∃ w, mem.read (pAddr a.ptr base (s + gscanSkip a first) + j * a.ptr) a.ptr = some w ∧ w < 4096 ∧
        instrValid env a w = false)
    (hr_ret : mem.read (pAddr a.ptr base (s + c.junk.length)) a.ptr = some c.ret) :
    linkScan env a mem (pAddr a.ptr base s) first
      { ret := c.ret, sp := pAddr a.ptr base (s + c.junk.length + 1), fp := none } = true := by
  have hp := ptr_pos a
  -- the start of the scan and the number of scanned words
  have hstart : (if a = .mips32 ∧ (!first) = true then pAddr a.ptr base s + 4 * a.ptr else pAddr a.ptr base s) =
      pAddr a.ptr base (s + gscanSkip a first) := by
    unfold gscanSkip
    by_cases hc : a = .mips32 ∧ (!first) = true
    · rw [if_pos hc, if_pos hc]; simp only [pAddr, Nat.mul_add]; omega
    · rw [if_neg hc, if_neg hc]; rfl
  obtain ⟨K, hK⟩ : ∃ K, c.junk.length = gscanSkip a first + K := ⟨c.junk.length - gscanSkip a first, by omega⟩
  have hKe : c.junk.length - gscanSkip a first = K := by omega
  rw [hKe] at hwin hjunk
  have hdiff : pAddr a.ptr base (s + c.junk.length + 1) - a.ptr - pAddr a.ptr base (s + gscanSkip a first) =
      a.ptr * K := by
    rw [hK]; simp only [pAddr, Nat.mul_add, Nat.mul_one]; omega
  have hk : (pAddr a.ptr base (s + c.junk.length + 1) - a.ptr - pAddr a.ptr base (s + gscanSkip a first)) / a.ptr = K := by
    rw [hdiff, Nat.mul_div_cancel_left _ hp]
  have hesp : pAddr a.ptr base (s + c.junk.length + 1) =
      pAddr a.ptr base (s + gscanSkip a first) + K * a.ptr + a.ptr := by
    rw [hK, Nat.mul_comm K]; simp only [pAddr, Nat.mul_add, Nat.mul_one]; omega
  have hretaddr : pAddr a.ptr base (s + gscanSkip a first) + K * a.ptr = pAddr a.ptr base (s + c.junk.length) := by
    rw [hK, Nat.mul_comm K]; simp only [pAddr, Nat.mul_add]; omega
  have hle : pAddr a.ptr base (s + gscanSkip a first) + a.ptr ≤ pAddr a.ptr base (s + c.junk.length + 1) := by
    rw [hK]; simp only [pAddr, Nat.mul_add, Nat.mul_one]; omega
  unfold linkScan
  simp only [hstart, hk, hretaddr, hr_ret, hvalid, hret, htop, Bool.and_eq_true, decide_eq_true_eq, beq_iff_eq,
    List.all_eq_true, List.mem_range, and_true, true_and, BEq.rfl, Bool.and_true]
  refine ⟨⟨⟨hle, by rw [← hretaddr]; exact hesp⟩, ?_⟩, ?_⟩
  · revert hwin; unfold gscanWindow; cases a <;> exact id
  · intro j hj
    obtain ⟨w, hw, hw4, hwi⟩ := hjunk j hj
    rw [hw]
    simp only [hw4, hwi, decide_true, Bool.not_false, Bool.and_self]

theorem gscanChain_nil (p base s : Nat) : gscanChain p base s [] = [] := rfl

/-- the induction on the frames: `ws = pre ++ body frames ++ zeros`, the callee's stack pointer at
    word `s = pre.length` -/
theorem preScan_gen_aux (env : Env) (a : Arch) (base tail : Nat) (ws : List Nat)
    (htop : base + a.ptr * ws.length ≤ a.regMax) :
    ∀ (frames : List ScFr) (s : Nat) (first : Bool) (pre : List Nat),
      ws = pre ++ (gscanBody frames ++ List.replicate tail 0) → pre.length = s →
      gscanFramesOk env a first frames = true →
      preScanFrom env a (wordsMemP a.ptr base ws) (pAddr a.ptr base s) first (gscanChain a.ptr base s frames) = true := by
  have hp := ptr_pos a
  have hpow := regMax_lt_pow a
  have h64 := regMax_le_u64 a
  have haddr : ∀ i, i ≤ ws.length → pAddr a.ptr base i ≤ a.regMax := by
    intro i hi
    have : a.ptr * i ≤ a.ptr * ws.length := Nat.mul_le_mul_left _ hi
    simp only [pAddr]; omega
  intro frames
  induction frames with
  | nil =>
    intro s first pre hws hpl _
    have hlen : ws.length = s + tail := by rw [hws]; simp [gscanBody, hpl]
    simp only [preScanFrom, gscanChain, Bool.or_eq_true, Bool.not_eq_true']
    by_cases ht : tail = 0
    · left; exact wordsMemP_not_inRange a.ptr base ws s (by omega)
    · right
      apply wordsMemP_zerosFrom a.ptr base ws s hp
      intro i h1 h2
      rw [hws, getD_append_right' _ _ _ (by omega), hpl]
      simp only [gscanBody, List.nil_append]
      exact getD_replicate_zero' _ _
  | cons c rest ih =>
    intro s first pre hws hpl hok
    simp only [gscanFramesOk, Bool.and_eq_true, decide_eq_true_eq, List.all_eq_true] at hok
    obtain ⟨⟨⟨⟨⟨⟨⟨hskip, hwin⟩, hjunk⟩, hskipped⟩, hr4096⟩, hrmax⟩, hvalid⟩, hok'⟩ := hok
    have hlen : s + c.junk.length + 1 ≤ ws.length := by
      rw [hws]; simp only [gscanBody, List.length_append, hpl, List.length_cons, List.length_nil]; omega
    -- the words of this frame
    have hget : ∀ j, j < c.junk.length + 1 → ws[s + j]?.getD 0 = (c.junk ++ [c.ret])[j]?.getD 0 := by
      intro j hj
      rw [hws, getD_append_right' _ _ _ (by omega), hpl]
      have : s + j - s = j := by omega
      rw [this]
      simp only [gscanBody, List.append_assoc]
      rw [← List.append_assoc, getD_append_left' _ _ _ (by simp; omega)]
    have hr_ret : (wordsMemP a.ptr base ws).read (pAddr a.ptr base (s + c.junk.length)) a.ptr = some c.ret := by
      refine read_wordsMemP_eq a.ptr base ws _ c.ret (by omega) ?_ (by omega)
      rw [hget _ (by omega), getD_append_right' _ _ _ (Nat.le_refl _)]
      simp
    have hrec := ih (s + c.junk.length + 1) false (pre ++ (c.junk ++ [c.ret]))
      (by rw [hws]; simp only [gscanBody, List.append_assoc])
      (by simp only [List.length_append, hpl, List.length_cons, List.length_nil]; omega) hok'
    have hin : (wordsMemP a.ptr base ws).inRange (pAddr a.ptr base s) = true :=
      wordsMemP_inRange a.ptr base ws s hp (by omega) (by omega)
    simp only [preScanFrom, gscanChain, Bool.and_eq_true]
    refine ⟨⟨hin, ?_⟩, hrec⟩
    refine linkScan_frame env a _ base s first c hskip hwin (haddr _ hlen) hr4096 hvalid ?_ hr_ret
    intro j hj
    have hjl : gscanSkip a first + j < c.junk.length := by omega
    have hmem : c.junk[gscanSkip a first + j]?.getD 0 ∈ c.junk.drop (gscanSkip a first) := by
      rw [List.getElem?_eq_getElem hjl, Option.getD_some]
      exact List.mem_drop_iff_getElem.mpr ⟨j, by omega, rfl⟩
    have hw := hjunk _ hmem
    simp only [Bool.and_eq_true, decide_eq_true_eq, Bool.not_eq_true'] at hw
    refine ⟨c.junk[gscanSkip a first + j]?.getD 0, ?_, hw.1, hw.2⟩
    have hadr : pAddr a.ptr base (s + gscanSkip a first) + j * a.ptr = pAddr a.ptr base (s + (gscanSkip a first + j)) := by
      simp only [pAddr, Nat.mul_add, Nat.mul_comm j]; omega
    rw [hadr]
    refine read_wordsMemP_eq a.ptr base ws _ _ (by omega) ?_ (by omega)
    rw [hget _ (by omega), getD_append_left' _ _ _ hjl]

end MdModel.Walk
