/-
  Helper lemmas for C04 (generators as Lean functions, MdProofs/C04Gen.lean): a stack memory given
  as a list of `p`-byte words (`wordsMemP`, MdModel/Walk/LayoutGen.lean), for ANY word size `p`.

  * `leAt_digits`      — the little-endian value of `n` bytes that are the base-256 digits of `v`
  * `read_wordsMemP`   — `Mem.read` of word `i`
  * `wordsMemP_inRange`, `wordsMemP_zerosFrom`, `wordsMemP_range`
-/
import MdProofs.Lemmas.WalkChain
import MdModel.Walk.LayoutGen
set_option linter.unusedSimpArgs false
namespace MdModel.Walk
open MdModel

theorem leP_length (p v : Nat) : (leP p v).length = p := by simp [leP]

theorem flatMap_leP_length (p : Nat) (ws : List Nat) : (ws.flatMap (leP p)).length = p * ws.length := by
  induction ws with
  | nil => rfl
  | cons w ws ih =>
    rw [List.flatMap_cons, List.length_append, leP_length, ih, List.length_cons, Nat.mul_succ]
    omega

theorem wordsMemP_size (p base : Nat) (ws : List Nat) : (wordsMemP p base ws).size = p * ws.length := by
  simp only [wordsMemP, Mem.size, List.size_toArray, flatMap_leP_length]

theorem wordsMemP_base (p base : Nat) (ws : List Nat) : (wordsMemP p base ws).base = base := rfl

/-- byte `p i + j` of the memory is byte `j` of word `i` -/
theorem flatMap_leP_get (p : Nat) (ws : List Nat) : ∀ (i j : Nat), i < ws.length → j < p →
    (ws.flatMap (leP p))[p * i + j]? = (leP p (ws[i]?.getD 0))[j]? := by
  induction ws with
  | nil => intro i j hi; cases hi
  | cons w ws ih =>
    intro i j hi hj
    simp only [List.flatMap_cons]
    cases i with
    | zero =>
      simp only [Nat.mul_zero, Nat.zero_add, List.getElem?_cons_zero, Option.getD_some]
      rw [List.getElem?_append_left (by rw [leP_length]; exact hj)]
    | succ i =>
      have hi' : i < ws.length := by simpa using hi
      rw [List.getElem?_append_right (by rw [leP_length, Nat.mul_succ]; omega)]
      have : p * (i + 1) + j - (leP p w).length = p * i + j := by rw [leP_length, Nat.mul_succ]; omega
      rw [this, ih i j hi' hj]
      simp

theorem leP_get (p v j : Nat) (hj : j < p) : (leP p v)[j]? = some (UInt8.ofNat (v / 256 ^ j % 256)) := by
  simp [leP, hj]

theorem wordsMemP_byte (p base : Nat) (ws : List Nat) (i j : Nat) (hi : i < ws.length) (hj : j < p) :
    (wordsMemP p base ws).byte (p * i + j) = (ws[i]?.getD 0) / 256 ^ j % 256 := by
  unfold Mem.byte wordsMemP
  simp only [List.getElem?_toArray, flatMap_leP_get p ws i j hi hj, leP_get p _ j hj, Option.getD_some]
  have : (ws[i]?.getD 0) / 256 ^ j % 256 < 256 := Nat.mod_lt _ (by decide)
  simp [UInt8.toNat_ofNat, Nat.mod_eq_of_lt this]

/-- `n` bytes that are the base-256 digits of `v`, least significant first, read back as `v % 256^n` -/
theorem leAt_digits (m : Mem) : ∀ (n off v : Nat), (∀ j, j < n → m.byte (off + j) = v / 256 ^ j % 256) →
    m.leAt off n = v % 256 ^ n
  | 0, _, _, _ => by simp [Mem.leAt, Nat.mod_one]
  | n + 1, off, v, h => by
    have h0 : m.byte off = v % 256 := by have := h 0 (by omega); simpa using this
    have ih := leAt_digits m n (off + 1) (v / 256) (fun j hj => by
      have := h (j + 1) (by omega)
      rw [show off + 1 + j = off + (j + 1) by omega, this, Nat.pow_succ, Nat.mul_comm, Nat.div_div_eq_div_mul])
    simp only [Mem.leAt, h0, ih]
    rw [Nat.pow_succ, Nat.mul_comm (256 ^ n) 256, Nat.mod_mul]

/-- **reading word `i`** of a memory given by its `p`-byte words -/
theorem read_wordsMemP (p base : Nat) (ws : List Nat) (i : Nat) (hi : i < ws.length)
    (hw : ws[i]?.getD 0 < 256 ^ p) :
    (wordsMemP p base ws).read (base + p * i) p = some (ws[i]?.getD 0) := by
  unfold Mem.read
  rw [wordsMemP_base, if_neg (by omega)]
  simp only [wordsMemP_size]
  have hoff : base + p * i - base = p * i := by omega
  have hle : p * i + p ≤ p * ws.length := by
    have : p * (i + 1) ≤ p * ws.length := Nat.mul_le_mul_left p hi
    rw [Nat.mul_succ] at this; exact this
  rw [hoff, if_pos hle]
  simp only [Option.some.injEq]
  rw [Mem.wordAt_le _ _ _ rfl, leAt_digits _ p (p * i) (ws[i]?.getD 0) (fun j hj => wordsMemP_byte p base ws i j hi hj)]
  exact Nat.mod_eq_of_lt hw

theorem read_wordsMemP_isSome (p base : Nat) (ws : List Nat) (i : Nat) (hi : i < ws.length) :
    ((wordsMemP p base ws).read (base + p * i) p).isSome = true := by
  unfold Mem.read
  rw [wordsMemP_base, if_neg (by omega)]
  simp only [wordsMemP_size]
  have hoff : base + p * i - base = p * i := by omega
  have hle : p * i + p ≤ p * ws.length := by
    have : p * (i + 1) ≤ p * ws.length := Nat.mul_le_mul_left p hi
    rw [Nat.mul_succ] at this; exact this
  rw [hoff, if_pos hle]
  rfl

/-- a word that holds `v` -/
theorem read_wordsMemP_eq (p base : Nat) (ws : List Nat) (i v : Nat) (hi : i < ws.length)
    (hv : ws[i]?.getD 0 = v) (hw : v < 256 ^ p) :
    (wordsMemP p base ws).read (pAddr p base i) p = some v := by
  have := read_wordsMemP p base ws i hi (by rw [hv]; exact hw)
  rw [hv] at this; exact this

theorem wordsMemP_range (p base : Nat) (ws : List Nat) (hp : 0 < p) (hl : 0 < ws.length)
    (htop : base + p * ws.length ≤ U64MAX) : (wordsMemP p base ws).range?.isSome = true := by
  have : 0 < p * ws.length := Nat.mul_pos hp hl
  simp only [Mem.range?, wordsMemP_size, wordsMemP_base]
  rw [if_neg (by omega), if_neg (by omega)]
  rfl

theorem wordsMemP_inRange (p base : Nat) (ws : List Nat) (i : Nat) (hp : 0 < p) (hi : i < ws.length)
    (htop : base + p * ws.length ≤ U64MAX) : (wordsMemP p base ws).inRange (pAddr p base i) = true := by
  have h1 : p * (i + 1) ≤ p * ws.length := Nat.mul_le_mul_left p hi
  rw [Nat.mul_succ] at h1
  simp only [Mem.inRange, Mem.range?, wordsMemP_size, wordsMemP_base]
  rw [if_neg (by omega), if_neg (by omega)]
  simp only [Bool.and_eq_true, pAddr]
  exact ⟨decide_eq_true (by omega), decide_eq_true (by omega)⟩

/-- an address at or beyond the end of the memory is not in range -/
theorem wordsMemP_not_inRange (p base : Nat) (ws : List Nat) (i : Nat) (hi : ws.length ≤ i) :
    (wordsMemP p base ws).inRange (pAddr p base i) = false := by
  have h1 : p * ws.length ≤ p * i := Nat.mul_le_mul_left p hi
  simp only [Mem.inRange, Mem.range?, wordsMemP_size, wordsMemP_base]
  by_cases h0 : p * ws.length = 0
  · simp [h0]
  · by_cases h2 : base + p * ws.length > U64MAX
    · simp [h0, h2]
    · rw [if_neg h0, if_neg h2]
      have : ¬ (pAddr p base i ≤ base + p * ws.length - 1) := by simp only [pAddr]; omega
      simp [this]

/-- every word from index `s` on is zero ⇒ `zerosFrom` at `addr s` -/
theorem wordsMemP_zerosFrom (p base : Nat) (ws : List Nat) (s : Nat) (hp : 0 < p)
    (hz : ∀ i, s ≤ i → i < ws.length → ws[i]?.getD 0 = 0) :
    zerosFrom (wordsMemP p base ws) p (pAddr p base s) = true := by
  simp only [zerosFrom, wordsMemP_base, wordsMemP_size, Bool.and_eq_true, decide_eq_true_eq, List.all_eq_true,
    List.mem_range, beq_iff_eq, pAddr]
  refine ⟨decide_eq_true (Nat.le_add_right _ _), ?_⟩
  intro j hj
  have hlt : s + j < ws.length := by
    have hj' : j * p < base + p * ws.length - (base + p * s) := by
      have := (Nat.lt_div_iff_mul_lt hp).mp hj
      omega
    have h2 : p * (s + j) < p * ws.length := by
      rw [Nat.mul_add, Nat.mul_comm p j]; omega
    exact Nat.lt_of_mul_lt_mul_left h2
  have ha : base + p * s + j * p = base + p * (s + j) := by rw [Nat.mul_add, Nat.mul_comm p j]; omega
  rw [ha, read_wordsMemP p base ws (s + j) hlt (by rw [hz _ (by omega) hlt]; exact Nat.pow_pos (by decide)),
    hz _ (by omega) hlt]

theorem getD_append_right' (l1 l2 : List Nat) (i : Nat) (h : l1.length ≤ i) :
    (l1 ++ l2)[i]?.getD 0 = l2[i - l1.length]?.getD 0 := by
  rw [List.getElem?_append_right h]

theorem getD_append_left' (l1 l2 : List Nat) (i : Nat) (h : i < l1.length) :
    (l1 ++ l2)[i]?.getD 0 = l1[i]?.getD 0 := by
  rw [List.getElem?_append_left h]

theorem getD_replicate_zero' (n i : Nat) : (List.replicate n 0)[i]?.getD 0 = 0 := by
  by_cases h : i < n
  · simp [List.getElem?_replicate, h]
  · simp [List.getElem?_replicate, h]

/-- the registers are `p` bytes wide -/
theorem regMax_lt_pow (a : Arch) : a.regMax < 256 ^ a.ptr := by cases a <;> decide

theorem regMax_le_u64 (a : Arch) : a.regMax ≤ U64MAX := by cases a <;> decide

end MdModel.Walk
