/-
  Helper lemmas for C06 (STACK CFI): the independent statement of the documented postfix language
  (expression trees, their denotation, `postfix`) and the stack-machine lemmas relating it to
  `MdModel.Cfi.run`.
-/
import MdModel.Cfi
namespace MdModel.Cfi
open MdModel

/-! ## The documented language, stated independently of the evaluator

  walker.rs, "STACK CFI expressions": postfix notation; `+ - * / %` binary arithmetic, `@` binary
  align ("truncate lhs to be a multiple of rhs"), `^` unary dereference; values `.cfa`, `.undef`
  ("terminate execution, the output is explicitly unknown"), signed decimal integers, registers.
  "For binary operators the right-hand-side (rhs) will be the first value popped from the stack."
  The property adds: arithmetic is 64-bit wrapping; division by zero, non-power-of-two alignment,
  unreadable memory, unknown registers and `.undef` make the rule fail. -/

/-- An expression as a tree. -/
inductive Tree where
  | lit (v : UInt64)
  | reg (n : Name)
  | cfa
  | undef
  | deref (t : Tree)
  | bin (o : BinOp) (l r : Tree)
  deriving Repr

/-- Meaning of a binary operator on the values of its operands, in terms of natural-number
    arithmetic modulo `2^64` (written without reference to `applyBin`). -/
def binSem (o : BinOp) (l r : UInt64) : Option UInt64 :=
  match o with
  | .add => some (UInt64.ofNat ((l.toNat + r.toNat) % 2^64))
  | .sub => some (UInt64.ofNat ((l.toNat + (2^64 - r.toNat)) % 2^64))
  | .mul => some (UInt64.ofNat ((l.toNat * r.toNat) % 2^64))
  | .div => if r.toNat = 0 then none else some (UInt64.ofNat (l.toNat / r.toNat))
  | .rem => if r.toNat = 0 then none else some (UInt64.ofNat (l.toNat % r.toNat))
  | .align =>
    if ∃ k, k < 64 ∧ r.toNat = 2 ^ k then some (UInt64.ofNat (l.toNat - l.toNat % r.toNat)) else none

/-- Denotation of a tree by structural recursion: `none` = the rule fails. -/
def denote (env : Env) (cfa : Option UInt64) : Tree → Option UInt64
  | .lit v => some v
  | .reg n => env.reg n
  | .cfa => cfa
  | .undef => none
  | .deref t =>
    match denote env cfa t with
    | some a => env.deref a
    | none => none
  | .bin o l r =>
    match denote env cfa l, denote env cfa r with
    | some a, some b => binSem o a b
    | _, _ => none

/-- The postfix (reverse Polish) form of a tree: operands left to right, then the operator. -/
def postfixOf : Tree → List Tok
  | .lit v => [.lit v]
  | .reg n => [.reg n]
  | .cfa => [.cfa]
  | .undef => [.undef]
  | .deref t => postfixOf t ++ [.deref]
  | .bin o l r => postfixOf l ++ postfixOf r ++ [.bin o]

/-! ## decimal literals -/

/-- decimal rendering of a natural number (no leading zeros) -/
def renderNat (n : Nat) : Bytes :=
  if h : n < 10 then [UInt8.ofNat (48 + n)]
  else renderNat (n / 10) ++ [UInt8.ofNat (48 + n % 10)]
termination_by n
decreasing_by omega

theorem digit_cases (d : Nat) (h : d < 10) :
    d = 0 ∨ d = 1 ∨ d = 2 ∨ d = 3 ∨ d = 4 ∨ d = 5 ∨ d = 6 ∨ d = 7 ∨ d = 8 ∨ d = 9 := by omega

theorem digitVal_ofNat (d : Nat) (h : d < 10) : digitVal (UInt8.ofNat (48 + d)) = some d := by
  rcases digit_cases d h with rfl | rfl | rfl | rfl | rfl | rfl | rfl | rfl | rfl | rfl <;> decide

theorem digit_not_sign (d : Nat) (h : d < 10) :
    (UInt8.ofNat (48 + d) == 0x2D) = false ∧ (UInt8.ofNat (48 + d) == 0x2B) = false := by
  rcases digit_cases d h with rfl | rfl | rfl | rfl | rfl | rfl | rfl | rfl | rfl | rfl <;> decide

theorem parseDigits_append (a b : Bytes) (acc : Nat) :
    parseDigits (a ++ b) acc = match parseDigits a acc with
                               | some x => parseDigits b x
                               | none => none := by
  induction a generalizing acc with
  | nil => rfl
  | cons c a ih =>
    simp only [List.cons_append, parseDigits]
    cases digitVal c with
    | none => rfl
    | some d => exact ih _

theorem parseDigits_render (n : Nat) : parseDigits (renderNat n) 0 = some n := by
  induction n using Nat.strongRecOn with
  | _ n ih =>
    rw [renderNat]
    by_cases h : n < 10
    · simp only [h, dif_pos, parseDigits]
      rw [digitVal_ofNat n h]
      simp
    · simp only [h, dif_neg, not_false_eq_true]
      rw [parseDigits_append, ih (n / 10) (by omega)]
      simp only [parseDigits, digitVal_ofNat (n % 10) (by omega)]
      congr 1; omega

theorem renderNat_head (n : Nat) : ∃ d rest, d < 10 ∧ renderNat n = UInt8.ofNat (48 + d) :: rest := by
  induction n using Nat.strongRecOn with
  | _ n ih =>
    rw [renderNat]
    by_cases h : n < 10
    · exact ⟨n, [], h, by simp [h]⟩
    · obtain ⟨d, rest, hd, hr⟩ := ih (n / 10) (by omega)
      exact ⟨d, rest ++ [UInt8.ofNat (48 + n % 10)], hd, by simp [h, hr]⟩

/-! ## arithmetic: `applyBin` is `binSem` -/

theorem isPow2_iff (r : UInt64) : isPow2 r = true ↔ ∃ k, k < 64 ∧ r.toNat = 2 ^ k := by
  unfold isPow2
  simp only [List.any_eq_true, List.mem_range, beq_iff_eq]
  constructor
  · rintro ⟨k, hk, rfl⟩
    refine ⟨k, hk, ?_⟩
    have : (UInt64.ofNat k).toNat = k := by
      simp [UInt64.toNat_ofNat']; omega
    simp only [UInt64.toNat_shiftLeft, this, UInt64.toNat_one]
    have h64 : k % 64 = k := Nat.mod_eq_of_lt hk
    rw [h64, Nat.shiftLeft_eq, Nat.one_mul]
    exact Nat.mod_eq_of_lt (Nat.pow_lt_pow_right (by omega) hk)
  · rintro ⟨k, hk, h⟩
    refine ⟨k, hk, ?_⟩
    apply UInt64.toNat_inj.mp
    have : (UInt64.ofNat k).toNat = k := by
      simp [UInt64.toNat_ofNat']; omega
    simp only [UInt64.toNat_shiftLeft, this, UInt64.toNat_one]
    have h64 : k % 64 = k := Nat.mod_eq_of_lt hk
    rw [h64, Nat.shiftLeft_eq, Nat.one_mul, h]
    exact (Nat.mod_eq_of_lt (Nat.pow_lt_pow_right (by omega) hk)).symm


theorem nat_align (l k : Nat) (hl : l < 2^64) (hk : k < 64) :
    l &&& ((2^64 - 1) ^^^ (2^k - 1)) = l - l % 2^k := by
  have hr : l - l % 2^k = (l >>> k) <<< k := by
    rw [Nat.shiftLeft_eq, Nat.shiftRight_eq_div_pow]
    have := Nat.div_add_mod l (2^k)
    rw [Nat.mul_comm] at this
    omega
  rw [hr]
  apply Nat.eq_of_testBit_eq
  intro i
  simp only [Nat.testBit_and, Nat.testBit_xor, Nat.testBit_two_pow_sub_one, Nat.testBit_shiftLeft,
    Nat.testBit_shiftRight]
  by_cases hik : i < k
  · have : ¬ (i ≥ k) := by omega
    have h64 : i < 64 := by omega
    simp [hik, this, h64]
  · have hge : i ≥ k := by omega
    have hadd : k + (i - k) = i := by omega
    by_cases h64 : i < 64
    · simp [hik, hge, h64, hadd]
    · have : l.testBit i = false := by
        apply Nat.testBit_lt_two_pow
        exact Nat.lt_of_lt_of_le hl (Nat.pow_le_pow_right (by omega) (by omega))
      simp [hik, hge, h64, hadd, this]

theorem alignDown_spec (l r : UInt64) (k : Nat) (hk : k < 64) (hr : r.toNat = 2^k) :
    (alignDown l r).toNat = l.toNat - l.toNat % r.toNat := by
  unfold alignDown allOnes
  have hpos : 0 < 2^k := Nat.pow_pos (by omega)
  have hlt : 2^k < 2^64 := Nat.pow_lt_pow_right (by omega) hk
  have h1 : (r - 1).toNat = 2^k - 1 := by
    rw [UInt64.toNat_sub, hr]
    simp only [UInt64.toNat_one]
    omega
  rw [UInt64.toNat_and, UInt64.toNat_xor, h1, hr]
  exact nat_align l.toNat k l.toNat_lt hk

/-- **`applyBin` computes the documented meaning** (`binSem` is stated over ℕ modulo `2^64`). -/
theorem applyBin_eq_binSem (o : BinOp) (l r : UInt64) : applyBin o l r = binSem o l r := by
  cases o <;> simp only [applyBin, binSem]
  · congr 1; apply UInt64.toNat_inj.mp
    simp [UInt64.toNat_add, UInt64.toNat_ofNat']
  · congr 1; apply UInt64.toNat_inj.mp
    simp [UInt64.toNat_sub, UInt64.toNat_ofNat']
    congr 1; omega
  · congr 1; apply UInt64.toNat_inj.mp
    simp [UInt64.toNat_mul, UInt64.toNat_ofNat']
  · have h0 : (r = 0) ↔ r.toNat = 0 := by
      rw [← UInt64.toNat_inj]; simp
    by_cases h : r = 0
    · simp [h]
    · have h' : r.toNat ≠ 0 := fun e => h (h0.mpr e)
      simp only [h, h', if_false]
      congr 1; apply UInt64.toNat_inj.mp
      have : l.toNat / r.toNat < 2^64 := Nat.lt_of_le_of_lt (Nat.div_le_self _ _) l.toNat_lt
      simp [UInt64.toNat_div, UInt64.toNat_ofNat', Nat.mod_eq_of_lt this]
  · have h0 : (r = 0) ↔ r.toNat = 0 := by
      rw [← UInt64.toNat_inj]; simp
    by_cases h : r = 0
    · simp [h]
    · have h' : r.toNat ≠ 0 := fun e => h (h0.mpr e)
      simp only [h, h', if_false]
      congr 1; apply UInt64.toNat_inj.mp
      have : l.toNat % r.toNat < 2^64 := Nat.lt_of_le_of_lt (Nat.mod_le _ _) l.toNat_lt
      simp [UInt64.toNat_mod, UInt64.toNat_ofNat', Nat.mod_eq_of_lt this]
  · by_cases hp : ∃ k, k < 64 ∧ r.toNat = 2 ^ k
    · have hp2 : isPow2 r = true := (isPow2_iff r).mpr hp
      obtain ⟨k, hk, hr⟩ := hp
      have hne : r ≠ 0 := by
        intro e; rw [e] at hr; simp at hr
        have := Nat.pow_pos (n := k) (show 0 < 2 by omega); omega
      have hex : ∃ k, k < 64 ∧ r.toNat = 2 ^ k := ⟨k, hk, hr⟩
      simp only [hne, hp2, hex, if_true]
      simp only [Bool.not_true, Bool.or_false, decide_false, Bool.false_eq_true, if_false]
      congr 1; apply UInt64.toNat_inj.mp
      rw [alignDown_spec l r k hk hr]
      have : l.toNat - l.toNat % r.toNat < 2^64 := Nat.lt_of_le_of_lt (Nat.sub_le _ _) l.toNat_lt
      simp [UInt64.toNat_ofNat', Nat.mod_eq_of_lt this]
    · have hp2 : isPow2 r = false := by
        cases h : isPow2 r
        · rfl
        · exact absurd ((isPow2_iff r).mp h) hp
      simp [hp, hp2]


/-! ## the stack machine and postfix forms -/

theorem run_append (env : Env) (cfa : Option UInt64) (a b : List Tok) (st : Stack) :
    run env cfa (a ++ b) st =
      match run env cfa a st with
      | some st' => run env cfa b st'
      | none => none := by
  induction a generalizing st with
  | nil => simp [run]
  | cons t ts ih =>
    simp only [List.cons_append, run]
    cases step env cfa t st with
    | none => rfl
    | some st' => exact ih st'

/-- Running the postfix form of a tree pushes its denotation, or fails if it has none. -/
theorem run_postfix (env : Env) (cfa : Option UInt64) (t : Tree) (rest : List Tok) (st : Stack) :
    run env cfa (postfixOf t ++ rest) st =
      match denote env cfa t with
      | some v => run env cfa rest (v :: st)
      | none => none := by
  induction t generalizing rest st with
  | lit v => simp [postfixOf, run, step, denote]
  | reg n =>
    simp only [postfixOf, List.cons_append, List.nil_append, run, step, denote]
    cases env.reg n <;> rfl
  | cfa =>
    simp only [postfixOf, List.cons_append, List.nil_append, run, step, denote]
    cases cfa <;> rfl
  | undef => simp [postfixOf, run, step, denote]
  | deref t ih =>
    simp only [postfixOf, List.append_assoc, denote]
    rw [ih]
    cases denote env cfa t with
    | none => rfl
    | some a =>
      simp only [List.cons_append, List.nil_append, run, step]
      cases env.deref a <;> rfl
  | bin o l r ihl ihr =>
    simp only [postfixOf, List.append_assoc, denote]
    rw [ihl]
    cases denote env cfa l with
    | none => rfl
    | some a =>
      simp only []
      rw [ihr]
      cases denote env cfa r with
      | none => rfl
      | some b =>
        simp only [List.cons_append, List.nil_append, run, step]
        rw [applyBin_eq_binSem]
        cases binSem o a b <;> rfl

theorem rev_induction {α} {P : List α → Prop} (nil : P [])
    (append_singleton : ∀ l a, P l → P (l ++ [a])) : ∀ l, P l := by
  intro l
  have : ∀ r : List α, P r.reverse := by
    intro r
    induction r with
    | nil => exact nil
    | cons a r ih => simp only [List.reverse_cons]; exact append_singleton _ _ ih
  simpa using this l.reverse

/-- Completeness of the shape: whatever the machine accepts from the empty stack is the
    concatenation of the postfix forms of a forest whose denotations are the final stack
    (bottom to top). -/
theorem run_forest (env : Env) (cfa : Option UInt64) (ts : List Tok) :
    ∀ st, run env cfa ts [] = some st →
      ∃ f : List Tree, ts = f.flatMap postfixOf ∧ f.map (denote env cfa) = st.reverse.map some := by
  induction ts using rev_induction with
  | nil =>
    intro st h
    simp only [run, Option.some.injEq] at h
    subst h
    exact ⟨[], rfl, rfl⟩
  | append_singleton ts t ih =>
    intro st h
    rw [run_append] at h
    cases hr : run env cfa ts [] with
    | none => rw [hr] at h; cases h
    | some st0 =>
      rw [hr] at h
      simp only [run] at h
      obtain ⟨f, hf, hd⟩ := ih st0 hr
      cases hs : step env cfa t st0 with
      | none => rw [hs] at h; cases h
      | some st1 =>
        rw [hs] at h
        simp only [Option.some.injEq] at h
        subst h
        -- case analysis on the token
        cases t with
        | lit v =>
          simp only [step, Option.some.injEq] at hs
          subst hs
          refine ⟨f ++ [.lit v], ?_, ?_⟩
          · simp [hf, postfixOf]
          · simp [hd, denote]
        | reg n =>
          simp only [step, Option.map_eq_some_iff] at hs
          obtain ⟨v, hv, rfl⟩ := hs
          refine ⟨f ++ [.reg n], ?_, ?_⟩
          · simp [hf, postfixOf]
          · simp [hd, denote, hv]
        | cfa =>
          simp only [step, Option.map_eq_some_iff] at hs
          obtain ⟨v, hv, rfl⟩ := hs
          subst hv
          refine ⟨f ++ [.cfa], ?_, ?_⟩
          · simp [hf, postfixOf]
          · simp [hd, denote]
        | undef => simp [step] at hs
        | deref =>
          cases st0 with
          | nil => simp [step] at hs
          | cons p rest =>
            simp only [step, Option.map_eq_some_iff] at hs
            obtain ⟨v, hv, rfl⟩ := hs
            -- the last tree of the forest denotes p
            simp only [List.reverse_cons, List.map_append, List.map_cons, List.map_nil] at hd
            obtain ⟨f', tp, rfl⟩ : ∃ f' tp, f = f' ++ [tp] := by
              cases hfe : f.reverse with
              | nil =>
                have : f = [] := by simpa using hfe
                subst this; simp at hd
              | cons x xs =>
                refine ⟨xs.reverse, x, ?_⟩
                have := congrArg List.reverse hfe
                simpa using this
            simp only [List.map_append, List.map_cons, List.map_nil] at hd
            have hd' := List.append_inj' hd rfl
            obtain ⟨hd1, hd2⟩ := hd'
            simp only [List.cons.injEq, and_true] at hd2
            refine ⟨f' ++ [.deref tp], ?_, ?_⟩
            · simp [hf, postfixOf]
            · simp [hd1, denote, hd2, hv]
        | bin o =>
          cases st0 with
          | nil => simp [step] at hs
          | cons r rest0 =>
            cases rest0 with
            | nil => simp [step] at hs
            | cons l rest =>
              simp only [step, Option.map_eq_some_iff] at hs
              obtain ⟨v, hv, rfl⟩ := hs
              simp only [List.reverse_cons, List.map_append, List.map_cons, List.map_nil,
                List.append_assoc, List.cons_append, List.nil_append] at hd
              obtain ⟨f1, tr, rfl⟩ : ∃ f' tp, f = f' ++ [tp] := by
                cases hfe : f.reverse with
                | nil =>
                  have : f = [] := by simpa using hfe
                  subst this; simp at hd
                | cons x xs =>
                  refine ⟨xs.reverse, x, ?_⟩
                  have := congrArg List.reverse hfe
                  simpa using this
              obtain ⟨f2, tl, rfl⟩ : ∃ f' tp, f1 = f' ++ [tp] := by
                cases hfe : f1.reverse with
                | nil =>
                  have : f1 = [] := by simpa using hfe
                  subst this
                  have := congrArg List.length hd
                  simp at this
                | cons x xs =>
                  refine ⟨xs.reverse, x, ?_⟩
                  have := congrArg List.reverse hfe
                  simpa using this
              simp only [List.map_append, List.map_cons, List.map_nil, List.append_assoc,
                List.cons_append, List.nil_append] at hd
              have hd' := List.append_inj' hd rfl
              obtain ⟨hd1, hd2⟩ := hd'
              simp only [List.cons.injEq, and_true] at hd2
              obtain ⟨hl, hr'⟩ := hd2
              refine ⟨f2 ++ [.bin o tl tr], ?_, ?_⟩
              · simp [hf, postfixOf]
              · simp [hd1, denote, hl, hr', ← applyBin_eq_binSem, hv]

end MdModel.Cfi
