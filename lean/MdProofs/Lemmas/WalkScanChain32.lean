/-
  Helper lemmas for C04, scan-only chains on the remaining architectures: x86 and x86-64 (whose
  scanners also try to recover the frame pointer), ARM32 (not iOS) and MIPS32 (4-word skip on every
  frame but the context frame). One `get_caller_frame` on a scanned frame, the end of the chain;
  the induction is `walkLoop_chain_generic`.
-/
import MdProofs.Lemmas.WalkChainMixed
namespace MdModel.Walk
open MdModel

/-- architectures handled here -/
def Arch.scan32 : Arch → Bool
  | .x86 | .amd64 | .arm | .mips32 => true
  | _ => false

theorem read_some_ge {mem : Mem} {a w v : Nat} (h : mem.read a w = some v) : mem.base ≤ a := by
  unfold Mem.read at h
  split at h
  · cases h
  · omega

theorem read_below_base {mem : Mem} {a w : Nat} (h : a < mem.base) : mem.read a w = none := by
  unfold Mem.read
  rw [if_pos h]

/-- where the scan of a frame starts (MIPS32 skips the four argument words of every frame but the
    context frame) -/
def scanStart (a : Arch) (sp : Nat) (first : Bool) : Nat :=
  if a = .mips32 ∧ !first then sp + 4 * a.ptr else sp

/-- the windows of the property text -/
def scanWin (a : Arch) (first : Bool) : Nat :=
  match a with
  | .mips32 => if first then 256 else 252
  | .mips64 => 128
  | _ => if first then 160 else 40

theorem linkScan_spec' {env : Env} {a : Arch} {mem : Mem} {sp : Nat} {first : Bool} {e : Exp}
    (h : linkScan env a mem sp first e = true) :
    ∃ k, e.sp = scanStart a sp first + k * a.ptr + a.ptr ∧ k < scanWin a first ∧
      e.sp ≤ a.regMax ∧ 4096 ≤ e.ret ∧
      (∀ j, j < k → ∃ w, mem.read (scanStart a sp first + j * a.ptr) a.ptr = some w ∧ w < 4096 ∧
        instrValid env a w = false) ∧
      mem.read (scanStart a sp first + k * a.ptr) a.ptr = some e.ret ∧ instrValid env a e.ret = true := by
  unfold linkScan at h
  simp only [Bool.and_eq_true, decide_eq_true_eq, beq_iff_eq, List.all_eq_true, List.mem_range] at h
  obtain ⟨⟨⟨⟨⟨⟨⟨h1, h2⟩, h3⟩, h4⟩, h5⟩, h6⟩, h7⟩, h8⟩ := h
  refine ⟨(e.sp - a.ptr - scanStart a sp first) / a.ptr, h2, ?_, h4, h5, ?_, h7, h8⟩
  · unfold scanWin
    cases a <;> cases first <;> exact h3
  · intro j hj
    have := h6 j hj
    split at this
    · rename_i w hw
      simp only [Bool.and_eq_true, decide_eq_true_eq, Bool.not_eq_true'] at this
      exact ⟨w, hw, this.1, this.2⟩
    · cases this

/-- scanning zero words finds nothing (stated on the words actually read) -/
theorem scanFrom_zeros' {ok : Nat → Bool} {mem : Mem} {p lim s : Nat}
    (hz : ∀ i v, mem.read (s + i * p) p = some v → v = 0) (hok : ok 0 = false) :
    ∀ (n i : Nat), scanFrom ok mem p lim s n i = none := by
  intro n
  induction n with
  | zero => intro i; rfl
  | succ n ih =>
    intro i
    unfold scanFrom
    simp only
    split
    · rfl
    · split
      · rfl
      · rename_i v hv
        have : v = 0 := hz i v hv
        subst this
        rw [hok]
        simp only [Bool.false_eq_true, ↓reduceIte]
        exact ih (i + 1)

/-- the frame the walker must produce for an expected caller found by scanning -/
def scanFrame32 (a : Arch) (e : Exp) : Frame :=
  match a with
  | .x86 => { ctx := { ip := e.ret, sp := e.sp, rest := [("ebp", 0)], valid := some ["eip", "esp"] },
              trust := .scan, instruction := e.ret - 1 }
  | .amd64 => { ctx := { ip := e.ret, sp := e.sp, rest := [("rbp", 0)], valid := some ["rip", "rsp"] },
                trust := .scan, instruction := e.ret - 1 }
  | .arm => { ctx := { ip := e.ret, sp := e.sp, rest := [], valid := some ["r15", "r13"] },
              trust := .scan, instruction := e.ret - 2 }
  | _ => { ctx := { ip := e.ret, sp := e.sp, rest := [], valid := some ["pc", "sp"] },
           trust := .scan, instruction := e.ret - 8 }

/-- what the scanner of `a` sees of a frame -/
def ScanView32 (a : Arch) (f : Frame) (st : Nat × Bool) : Prop :=
  f.ctx.sp = st.1 ∧ (f.trust = .context ↔ st.2 = true) ∧ f.ctx.m64 = false ∧ st.1 ≤ a.regMax ∧
  match a with
  | .x86 => f.ctx.hasLit "esp" = true ∧ (f.ctx.hasLit "ebp" = false ∨ f.ctx.raw .x86 "ebp" = 0)
  | .amd64 => f.ctx.hasLit "rsp" = true ∧ (f.ctx.hasLit "rbp" = false ∨ f.ctx.raw .amd64 "rbp" = 0)
  | .arm => f.ctx.get .arm "r13" = some st.1
  | .mips32 => f.ctx.get .mips32 "sp" = some st.1
  | _ => False

theorem scanWindow_of {a : Arch} {t : Trust} {first : Bool} (ha : a = .x86 ∨ a = .amd64 ∨ a = .arm)
    (h : t = .context ↔ first = true) : scanWindow a t = scanWin a first := by
  cases first
  · have : t ≠ .context := fun hh => by have := h.mp hh; cases this
    rcases ha with ha | ha | ha <;> subst ha <;> cases t <;> first | rfl | exact absurd rfl this
  · have : t = .context := h.mpr rfl
    subst this
    rcases ha with ha | ha | ha <;> subst ha <;> rfl

theorem scanBpX86_none {mem : Mem} {lastBp : Option Nat} {i a : Nat}
    (hlb : lastBp = none ∨ lastBp = some 0)
    (hi : i = 0 ∨ ∃ w, mem.read (a - 4) 4 = some w ∧ w < 4096) (ha : 4096 ≤ a) :
    scanBpX86 mem lastBp i a (a + 4) = some none := by
  unfold scanBpX86
  by_cases h0 : i = 0
  · rw [if_pos h0]
  · rw [if_neg h0]
    rcases hi with hi | ⟨w, hw, hlt⟩
    · exact absurd hi h0
    · simp only [hw]
      rw [if_neg (by omega)]
      rcases hlb with h | h <;> subst h
      · rfl
      · simp only
        rw [if_neg (by omega)]

theorem scanBpAmd64_none {mem : Mem} {lastBp : Option Nat} {i a : Nat}
    (hlb : lastBp = none ∨ lastBp = some 0)
    (hi : i = 0 ∨ ∃ w, mem.read (a - 8) 8 = some w ∧ w < 4096) (ha : 4096 ≤ a) :
    scanBpAmd64 mem lastBp i a (a + 8) = some none := by
  unfold scanBpAmd64
  rcases hlb with h | h <;> subst h
  · rfl
  · simp only
    by_cases h0 : i = 0
    · rw [if_pos h0]
    · rw [if_neg h0]
      rcases hi with hi | ⟨w, hw, hlt⟩
      · exact absurd hi h0
      · simp only [hw]
        rw [if_neg (by omega), if_neg (by omega)]

theorem step_scan_x86 {env : Env} {mem : Mem} {f : Frame} {g : Option Frame} {e : Exp} {st : Nat × Bool}
    (harch : env.arch = .x86) (hcfi : ∀ f g, env.cfi f g = none) (hbase : 4096 ≤ mem.base)
    (hv : ScanView32 .x86 f st) (hl : linkScan env .x86 mem st.1 st.2 e = true) :
    step env mem f g = some (scanFrame32 .x86 e) := by
  obtain ⟨hsp, htr, hm, hmax, hesp, hbp⟩ := hv
  obtain ⟨k, hes, hk, hemax, hret, hrej, hacc, hok⟩ := linkScan_spec' hl
  have hst : scanStart .x86 st.1 st.2 = st.1 := by simp [scanStart]
  have hp : Arch.x86.ptr = 4 := rfl
  rw [hst, hp] at hes hrej hacc
  have hemax' : e.sp ≤ U32MAX := hemax
  have hscan : scanFrom (instrValid env .x86) mem 4 U32MAX f.ctx.sp (scanWindow .x86 f.trust) 0 =
      some (k, st.1 + k * 4, e.ret) := by
    rw [hsp, scanWindow_of (Or.inl rfl) htr]
    exact scanFrom_first (fun j hj => by obtain ⟨w, hw, _, hv⟩ := hrej j hj; exact ⟨w, hw, hv⟩) hacc hok
      (by omega) _ 0 (Nat.zero_le _) (by omega)
  have hage : 4096 ≤ st.1 + k * 4 := by have := read_some_ge hacc; omega
  have hfp : byFp env .x86 mem f.ctx = none := by
    simp only [byFp, fpX86]
    by_cases hlit : f.ctx.hasLit "ebp" = true
    · rcases hbp with h | h
      · rw [h] at hlit; cases hlit
      · simp only [hlit, h, Bool.not_true, Bool.false_eq_true, if_false]
        rw [if_neg (by decide), read_below_base (by omega)]
    · simp [hlit]
  have hbpn : scanBpX86 mem (if f.ctx.hasLit "ebp" = true then some (f.ctx.raw .x86 "ebp") else none) k
      (st.1 + k * 4) (st.1 + k * 4 + 4) = some none := by
    apply scanBpX86_none
    · by_cases hlit : f.ctx.hasLit "ebp" = true
      · rcases hbp with h | h
        · rw [h] at hlit; cases hlit
        · simp [hlit, h]
      · simp [hlit]
    · by_cases hk0 : k = 0
      · exact Or.inl hk0
      · obtain ⟨w, hw, hlt, _⟩ := hrej (k - 1) (by omega)
        have : st.1 + k * 4 - 4 = st.1 + (k - 1) * 4 := by omega
        exact Or.inr ⟨w, by rw [this]; exact hw, hlt⟩
    · exact hage
  have hnot : ¬ (st.1 + k * 4 + 4 > U32MAX) := by omega
  unfold step
  simp only [effArch, harch, Arch.isMips, Bool.false_eq_true, ↓reduceIte, candidate, hcfi, hfp, byScan, scanX86,
    hesp, hscan, Bool.not_true, if_neg hnot, hbpn]
  simp [epilogue, nullish_eq, scanFrame32, Arch.adj, Consts.adj_x86, Arch.leafOk, hes, hsp]
  omega

theorem resolveAmd64_at_zero {mem : Mem} (hbase : 4096 ≤ mem.base) (sp step : Nat) :
    ∀ n, resolveAmd64 mem 0 sp step n 0 = none := by
  intro n
  cases n with
  | zero => rfl
  | succ n =>
    unfold resolveAmd64
    simp only [Nat.zero_mul, Nat.zero_add]
    rw [if_neg (by decide), if_neg (by decide), read_below_base (by omega)]

theorem byFp_none_amd64 {env : Env} {mem : Mem} {c : Ctx} (hbase : 4096 ≤ mem.base)
    (hbp : c.hasLit "rbp" = false ∨ c.raw .amd64 "rbp" = 0) : byFp env .amd64 mem c = none := by
  simp only [byFp, fpAmd64]
  by_cases hlit : c.hasLit "rbp" = true
  · rcases hbp with h | h
    · rw [h] at hlit; cases hlit
    · simp only [hlit, h, Bool.not_true, Bool.false_eq_true, if_false]
      split
      · rfl
      · rw [if_neg (by decide)]
        simp [resolveAmd64_at_zero hbase]
  · simp [hlit]

theorem step_scan_amd64 {env : Env} {mem : Mem} {f : Frame} {g : Option Frame} {e : Exp} {st : Nat × Bool}
    (harch : env.arch = .amd64) (hcfi : ∀ f g, env.cfi f g = none) (hbase : 4096 ≤ mem.base)
    (hv : ScanView32 .amd64 f st) (hl : linkScan env .amd64 mem st.1 st.2 e = true) :
    step env mem f g = some (scanFrame32 .amd64 e) := by
  obtain ⟨hsp, htr, hm, hmax, hesp, hbp⟩ := hv
  obtain ⟨k, hes, hk, hemax, hret, hrej, hacc, hok⟩ := linkScan_spec' hl
  have hst : scanStart .amd64 st.1 st.2 = st.1 := by simp [scanStart]
  have hp : Arch.amd64.ptr = 8 := rfl
  rw [hst, hp] at hes hrej hacc
  have hemax' : e.sp ≤ U64MAX := hemax
  have hscan : scanFrom (instrValid env .amd64) mem 8 U64MAX f.ctx.sp (scanWindow .amd64 f.trust) 0 =
      some (k, st.1 + k * 8, e.ret) := by
    rw [hsp, scanWindow_of (Or.inr (Or.inl rfl)) htr]
    exact scanFrom_first (fun j hj => by obtain ⟨w, hw, _, hv⟩ := hrej j hj; exact ⟨w, hw, hv⟩) hacc hok
      (by omega) _ 0 (Nat.zero_le _) (by omega)
  have hage : 4096 ≤ st.1 + k * 8 := by have := read_some_ge hacc; omega
  have hfp := byFp_none_amd64 (env := env) hbase hbp
  have hbpn : scanBpAmd64 mem (if f.ctx.hasLit "rbp" = true then some (f.ctx.raw .amd64 "rbp") else none) k
      (st.1 + k * 8) (st.1 + k * 8 + 8) = some none := by
    apply scanBpAmd64_none
    · by_cases hlit : f.ctx.hasLit "rbp" = true
      · rcases hbp with h | h
        · rw [h] at hlit; cases hlit
        · simp [hlit, h]
      · simp [hlit]
    · by_cases hk0 : k = 0
      · exact Or.inl hk0
      · obtain ⟨w, hw, hlt, _⟩ := hrej (k - 1) (by omega)
        have : st.1 + k * 8 - 8 = st.1 + (k - 1) * 8 := by omega
        exact Or.inr ⟨w, by rw [this]; exact hw, hlt⟩
    · exact hage
  have hnot : ¬ (st.1 + k * 8 + 8 > U64MAX) := by omega
  unfold step
  simp only [effArch, harch, Arch.isMips, Bool.false_eq_true, ↓reduceIte, candidate, hcfi, hfp, byScan, scanAmd64,
    hesp, hscan, Bool.not_true, if_neg hnot, hbpn]
  simp [epilogue, nullish_eq, scanFrame32, Arch.adj, Consts.adj_amd64, Arch.leafOk, hes, hsp]
  omega

theorem step_scan_arm {env : Env} {mem : Mem} {f : Frame} {g : Option Frame} {e : Exp} {st : Nat × Bool}
    (harch : env.arch = .arm) (hos : env.os ≠ .ios) (hcfi : ∀ f g, env.cfi f g = none)
    (hv : ScanView32 .arm f st) (hl : linkScan env .arm mem st.1 st.2 e = true) :
    step env mem f g = some (scanFrame32 .arm e) := by
  obtain ⟨hsp, htr, hm, hmax, hget⟩ := hv
  obtain ⟨k, hes, hk, hemax, hret, hrej, hacc, hok⟩ := linkScan_spec' hl
  have hst : scanStart .arm st.1 st.2 = st.1 := by simp [scanStart]
  have hp : Arch.arm.ptr = 4 := rfl
  rw [hst, hp] at hes hrej hacc
  have hemax' : e.sp ≤ U32MAX := hemax
  have hscan : scanFrom (instrValid env .arm) mem 4 U32MAX st.1 (scanWindow .arm f.trust) 0 =
      some (k, st.1 + k * 4, e.ret) := by
    rw [scanWindow_of (Or.inr (Or.inr rfl)) htr]
    exact scanFrom_first (fun j hj => by obtain ⟨w, hw, _, hv⟩ := hrej j hj; exact ⟨w, hw, hv⟩) hacc hok
      (by omega) _ 0 (Nat.zero_le _) (by omega)
  have hfp : byFp env .arm mem f.ctx = none := by simp [byFp, fpArm, hos]
  have hnot : ¬ (st.1 + k * 4 + 4 > U32MAX) := by omega
  unfold step
  simp only [effArch, harch, Arch.isMips, Bool.false_eq_true, ↓reduceIte, candidate, hcfi, hfp, byScan, scanArm,
    hget, hscan, if_neg hnot]
  simp [epilogue, nullish_eq, scanFrame32, Arch.adj, Consts.adj_arm, Arch.leafOk, hes, hsp]
  omega

theorem step_scan_mips32 {env : Env} {mem : Mem} {f : Frame} {g : Option Frame} {e : Exp} {st : Nat × Bool}
    (harch : env.arch = .mips32) (hcfi : ∀ f g, env.cfi f g = none)
    (hv : ScanView32 .mips32 f st) (hl : linkScan env .mips32 mem st.1 st.2 e = true) :
    step env mem f g = some (scanFrame32 .mips32 e) := by
  obtain ⟨hsp, htr, hm, hmax, hget⟩ := hv
  obtain ⟨k, hes, hk, hemax, hret, hrej, hacc, hok⟩ := linkScan_spec' hl
  have hp : Arch.mips32.ptr = 4 := rfl
  rw [hp] at hes hrej hacc
  have hemax' : e.sp ≤ U32MAX := hemax
  have heff : effArch env.arch f.ctx = .mips32 := by simp [effArch, harch, Arch.isMips, hm]
  have hc : Consts.mips_max_stack / Consts.ptr_mips32 = 256 ∧ Consts.mips_min_args * Consts.ptr_mips32 = 16 ∧
      256 - Consts.mips_min_args = 252 := ⟨rfl, rfl, rfl⟩
  unfold step
  simp only [heff, candidate, hcfi, byFp, byScan, scanMips32, hget, hc.1, hc.2.1, hc.2.2]
  cases hfirst : st.2 with
  | true =>
    have htc : f.trust = .context := htr.mpr hfirst
    have hst : scanStart .mips32 st.1 st.2 = st.1 := by simp [scanStart, hfirst]
    rw [hst] at hes hrej hacc
    have hkk : k < 256 := by simpa [scanWin, hfirst] using hk
    have hscan : scanFrom (instrValid env .mips32) mem 4 U32MAX st.1 256 0 = some (k, st.1 + k * 4, e.ret) :=
      scanFrom_first (fun j hj => by obtain ⟨w, hw, _, hv⟩ := hrej j hj; exact ⟨w, hw, hv⟩) hacc hok
        (by omega) _ 0 (Nat.zero_le _) (by omega)
    have hnot : ¬ (st.1 + k * 4 + 4 > U32MAX) := by omega
    simp only [htc, ne_eq, not_true_eq_false, ↓reduceIte, hscan, if_neg hnot]
    simp [epilogue, nullish_eq, scanFrame32, Arch.adj, Consts.adj_mips, Arch.leafOk, hes, hsp, hm, htc]
    exact ⟨hret, fun h => by omega⟩
  | false =>
    have htc : f.trust ≠ .context := fun h => by have := htr.mp h; rw [hfirst] at this; cases this
    have hst : scanStart .mips32 st.1 st.2 = st.1 + 16 := by simp [scanStart, hfirst, Arch.ptr, Consts.ptr_mips32]
    rw [hst] at hes hrej hacc
    have hkk : k < 252 := by simpa [scanWin, hfirst] using hk
    have hscan : scanFrom (instrValid env .mips32) mem 4 U32MAX (st.1 + 16) 252 0 =
        some (k, st.1 + 16 + k * 4, e.ret) :=
      scanFrom_first (fun j hj => by obtain ⟨w, hw, _, hv⟩ := hrej j hj; exact ⟨w, hw, hv⟩) hacc hok
        (by omega) _ 0 (Nat.zero_le _) (by omega)
    have hskip : ¬ (st.1 + 16 > U32MAX) := by omega
    have hnot : ¬ (st.1 + 16 + k * 4 + 4 > U32MAX) := by omega
    simp only [htc, ne_eq, not_false_eq_true, ↓reduceIte, if_neg hskip, hscan, if_neg hnot]
    simp [epilogue, nullish_eq, scanFrame32, Arch.adj, Consts.adj_mips, Arch.leafOk, hes, hsp, hm, htc]
    omega

theorem byFp_none_x86 {env : Env} {mem : Mem} {c : Ctx} (hbase : 4096 ≤ mem.base)
    (hbp : c.hasLit "ebp" = false ∨ c.raw .x86 "ebp" = 0) : byFp env .x86 mem c = none := by
  simp only [byFp, fpX86]
  by_cases hlit : c.hasLit "ebp" = true
  · rcases hbp with h | h
    · rw [h] at hlit; cases hlit
    · simp only [hlit, h, Bool.not_true, Bool.false_eq_true, if_false]
      rw [if_neg (by decide), read_below_base (by omega)]
  · simp [hlit]

/-- one `get_caller_frame` on a scanned frame, for the four architectures of this file -/
theorem step_scan32 {env : Env} {a : Arch} {mem : Mem} (ha : a.scan32 = true) (harch : env.arch = a)
    (hos : a = .arm → env.os ≠ .ios) (hcfi : ∀ f g, env.cfi f g = none) (hbase : 4096 ≤ mem.base)
    (f : Frame) (g : Option Frame) (st : Nat × Bool) (e : Exp)
    (hv : ScanView32 a f st) (hl : linkScan env a mem st.1 st.2 e = true) :
    step env mem f g = some (scanFrame32 a e) := by
  cases a <;> simp only [Arch.scan32, Bool.false_eq_true] at ha
  · exact step_scan_x86 harch hcfi hbase hv hl
  · exact step_scan_amd64 harch hcfi hbase hv hl
  · exact step_scan_arm harch (hos rfl) hcfi hv hl
  · exact step_scan_mips32 harch hcfi hv hl

/-- the generated end: zero words from the stack pointer on — no technique finds anything -/
theorem step_scan_end32 {env : Env} {a : Arch} {mem : Mem} (ha : a.scan32 = true) (harch : env.arch = a)
    (hos : a = .arm → env.os ≠ .ios) (hcfi : ∀ f g, env.cfi f g = none) (hbase : 4096 ≤ mem.base)
    (hok0 : a = .arm → env.instrOk 0 = false)
    (f : Frame) (g : Option Frame) (st : Nat × Bool)
    (hv : ScanView32 a f st) (hz : zerosFrom mem a.ptr st.1 = true) : step env mem f g = none := by
  obtain ⟨hsp, htr, hm, hmax, hrest⟩ := hv
  cases a <;> simp only [Arch.scan32, Bool.false_eq_true] at ha
  · -- x86
    obtain ⟨hesp, hbp⟩ := hrest
    have hfp := byFp_none_x86 (env := env) hbase hbp
    have hscan : ∀ n, scanFrom (instrValid env .x86) mem 4 U32MAX f.ctx.sp n 0 = none := fun n => by
      rw [hsp]; exact scanFrom_zeros (by decide) hz (by simp [instrValid, instrPre]) n 0
    unfold step
    simp only [effArch, harch, Arch.isMips, Bool.false_eq_true, ↓reduceIte, candidate, hcfi, hfp, byScan, scanX86,
      hesp, hscan, Bool.not_true]
  · -- amd64
    obtain ⟨hesp, hbp⟩ := hrest
    have hfp := byFp_none_amd64 (env := env) hbase hbp
    have hscan : ∀ n, scanFrom (instrValid env .amd64) mem 8 U64MAX f.ctx.sp n 0 = none := fun n => by
      rw [hsp]; exact scanFrom_zeros (by decide) hz (by simp [instrValid, instrPre, nonCanonAmd64]) n 0
    unfold step
    simp only [effArch, harch, Arch.isMips, Bool.false_eq_true, ↓reduceIte, candidate, hcfi, hfp, byScan, scanAmd64,
      hesp, hscan, Bool.not_true]
  · -- arm
    have hfp : byFp env .arm mem f.ctx = none := by simp [byFp, fpArm, hos rfl]
    have hscan : ∀ n, scanFrom (instrValid env .arm) mem 4 U32MAX st.1 n 0 = none := fun n =>
      scanFrom_zeros (by decide) hz (by simp [instrValid, instrPre, hok0 rfl]) n 0
    unfold step
    simp only [effArch, harch, Arch.isMips, Bool.false_eq_true, ↓reduceIte, candidate, hcfi, hfp, byScan, scanArm,
      hrest, hscan]
  · -- mips32
    have heff : effArch env.arch f.ctx = .mips32 := by simp [effArch, harch, Arch.isMips, hm]
    have hz4 : zerosFrom mem 4 st.1 = true := hz
    have hok : instrValid env .mips32 0 = false := by simp [instrValid, instrPre, Consts.mips_min_ip]
    have hscan : ∀ n, scanFrom (instrValid env .mips32) mem 4 U32MAX st.1 n 0 = none := fun n =>
      scanFrom_zeros (by decide) hz4 hok n 0
    have hscan' : ∀ n, scanFrom (instrValid env .mips32) mem 4 U32MAX (st.1 + 16) n 0 = none := fun n =>
      scanFrom_zeros' (fun i v hr => by
        have : st.1 + 16 + i * 4 = st.1 + (i + 4) * 4 := by omega
        rw [this] at hr
        exact zerosFrom_read (by decide) hz4 hr) hok n 0
    have hc : Consts.mips_min_args * Consts.ptr_mips32 = 16 := rfl
    unfold step
    simp only [heff, candidate, hcfi, byFp, byScan, scanMips32, hrest, hc]
    by_cases htc : f.trust = .context
    · simp only [htc, ne_eq, not_true_eq_false, ↓reduceIte, hscan]
    · simp only [htc, ne_eq, not_false_eq_true, ↓reduceIte]
      by_cases hov : st.1 + 16 > U32MAX
      · simp only [if_pos hov]
      · simp only [if_neg hov, hscan']

theorem scanFrame32_view (a : Arch) (ha : a.scan32 = true) (e : Exp) (he : e.sp ≤ a.regMax) :
    ScanView32 a (scanFrame32 a e) (e.sp, false) := by
  cases a <;> simp only [Arch.scan32, Bool.false_eq_true] at ha
  · exact ⟨rfl, by simp [scanFrame32], rfl, he, by simp [scanFrame32, Ctx.hasLit],
      Or.inl (by simp [scanFrame32, Ctx.hasLit])⟩
  · exact ⟨rfl, by simp [scanFrame32], rfl, he, by simp [scanFrame32, Ctx.hasLit],
      Or.inl (by simp [scanFrame32, Ctx.hasLit])⟩
  · refine ⟨rfl, by simp [scanFrame32], rfl, he, ?_⟩
    simp [scanFrame32, Ctx.get, Ctx.has, Arch.aliases, Ctx.raw, Arch.canon, Arch.spName, Arch.ipName]
  · refine ⟨rfl, by simp [scanFrame32], rfl, he, ?_⟩
    have hlt : e.sp < 2 ^ 32 := by have : e.sp ≤ U32MAX := he; simp only [U32MAX] at this; omega
    simp [scanFrame32, Ctx.get, Ctx.has, Arch.aliases, Ctx.raw, Arch.canon, Arch.registers, Arch.spName,
      Arch.ipName, Nat.mod_eq_of_lt hlt]

theorem scan_view_context32 (a : Arch) (ha : a.scan32 = true) (c : Ctx) (hv : c.valid = none)
    (hfp : c.raw a a.fpName = 0) (hm : c.m64 = false) (hsp : c.sp ≤ a.regMax) :
    ScanView32 a (Frame.ofCtx c .context) (c.sp, true) := by
  cases a <;> simp only [Arch.scan32, Bool.false_eq_true] at ha
  · exact ⟨rfl, by simp [Frame.ofCtx], hm, hsp, by simp [Frame.ofCtx, Ctx.hasLit, hv], Or.inr hfp⟩
  · exact ⟨rfl, by simp [Frame.ofCtx], hm, hsp, by simp [Frame.ofCtx, Ctx.hasLit, hv], Or.inr hfp⟩
  · refine ⟨rfl, by simp [Frame.ofCtx], hm, hsp, ?_⟩
    simp [Frame.ofCtx, Ctx.get, Ctx.has, hv, Arch.canon, Ctx.raw, Arch.spName, Arch.ipName]
  · refine ⟨rfl, by simp [Frame.ofCtx], hm, hsp, ?_⟩
    have hlt : c.sp < 2 ^ 32 := by have : c.sp ≤ U32MAX := hsp; simp only [U32MAX] at this; omega
    simp [Frame.ofCtx, Ctx.get, Ctx.has, hv, Arch.canon, Arch.registers, Ctx.raw, Arch.spName, Arch.ipName,
      Nat.mod_eq_of_lt hlt]

/-- expected frames of a scan-only chain on these architectures -/
def expectedScan32 (env : Env) (a : Arch) (chain : List Exp) : List Frame :=
  chain.map fun e => symbolise env (scanFrame32 a e)

theorem preScanFrom_foldr (env : Env) (a : Arch) (mem : Mem) (chain : List Exp) (st : Nat × Bool) :
    preScanFrom env a mem st.1 st.2 chain =
      (chain.foldr (fun e (k : Nat × Bool → Bool) => fun st =>
          mem.inRange st.1 && linkScan env a mem st.1 st.2 e && k (e.sp, false))
        (fun st => !mem.inRange st.1 || zerosFrom mem a.ptr st.1)) st := by
  induction chain generalizing st with
  | nil => rfl
  | cons e rest ih =>
    simp only [preScanFrom, List.foldr_cons]
    rw [← ih (e.sp, false)]

theorem expectedScan32_foldr (env : Env) (a : Arch) (chain : List Exp) (st : Nat × Bool) :
    expectedScan32 env a chain =
      (chain.foldr (fun e (k : Nat × Bool → List Frame) => fun _ => symbolise env (scanFrame32 a e) :: k (e.sp, false))
        (fun _ => [])) st := by
  induction chain generalizing st with
  | nil => rfl
  | cons e rest ih =>
    simp only [expectedScan32, List.map_cons, List.foldr_cons]
    rw [← ih (e.sp, false)]
    rfl

theorem linkScan_sp_le {env : Env} {a : Arch} {mem : Mem} {sp : Nat} {first : Bool} {e : Exp}
    (h : linkScan env a mem sp first e = true) : e.sp ≤ a.regMax := by
  obtain ⟨_, _, _, h4, _⟩ := linkScan_spec' h
  exact h4

theorem walkLoop_scan32_chain {env : Env} {mem : Mem} {a : Arch} (ha : a.scan32 = true)
    (harch : env.arch = a) (hos : a = .arm → env.os ≠ .ios) (hcfi : ∀ f g, env.cfi f g = none)
    (hbase : 4096 ≤ mem.base) (hok0 : a = .arm → env.instrOk 0 = false) :
    ∀ (chain : List Exp) (n : Nat) (f : Frame) (g : Option Frame) (st : Nat × Bool),
      ScanView32 a f st → preScanFrom env a mem st.1 st.2 chain = true → need mem f ≤ n →
      walkLoop env mem n f g = symbolise env f :: expectedScan32 env a chain := by
  intro chain n f g st hv hp hn
  rw [expectedScan32_foldr env a chain st]
  rw [preScanFrom_foldr env a mem chain st] at hp
  exact walkLoop_chain_generic (σ := Nat × Bool) (ScanView32 a)
    (fun st e => linkScan env a mem st.1 st.2 e) (fun st => zerosFrom mem a.ptr st.1)
    (fun st => st.1) (fun _ e => scanFrame32 a e) (fun _ e => (e.sp, false))
    (fun f st h => h.1) (fun f st h => h)
    (fun f g st e h hl => step_scan32 ha harch hos hcfi hbase f g st e h hl)
    (fun st e hl => scanFrame32_view a ha e (linkScan_sp_le hl))
    (fun f g st h hz => step_scan_end32 ha harch hos hcfi hbase hok0 f g st h hz)
    chain n f g st hv hp hn

end MdModel.Walk
