/-
  C11: the independent linear-scan specification of symbolication (`scanFill`: written without
  range maps, sorting or binary search — plain `find?`/`foldl`/`any` over the file's records in
  file order) and the lemmas that connect the model's table lookups with it on files whose records
  do not overlap. The property theorem `eq_linear_scan` is in `MdProofs/C11.lean`.
-/
import MdProofs.Lemmas.Symbolize
namespace MdModel.Symbolize
open MdModel MdModel.RangeMap

/-- the FUNC record's own range `[addr, addr+size)` is valid and contains the relative address -/
def Func.Covers (f : Func) (a : Nat) : Prop :=
  0 < f.size ∧ f.addr + f.size ≤ U64MAX ∧ f.addr ≤ a ∧ a < f.addr + f.size

/-- the line record's own range `[addr, addr+size-1]` is valid and contains the relative address -/
def Line.Covers (l : Line) (a : Nat) : Prop :=
  0 < l.size ∧ l.addr + (l.size - 1) ≤ U64MAX ∧ l.addr ≤ a ∧ a ≤ l.addr + (l.size - 1)

/-- the inlinee's own range `[addr, addr+size)` is valid and contains the relative address -/
def Inl.Covers (x : Inl) (a : Nat) : Prop :=
  x.addr + x.size ≤ U64MAX ∧ x.addr ≤ a ∧ a < x.addr + x.size

instance (f : Func) (a : Nat) : Decidable (f.Covers a) := by unfold Func.Covers; infer_instance
instance (l : Line) (a : Nat) : Decidable (l.Covers a) := by unfold Line.Covers; infer_instance
instance (x : Inl) (a : Nat) : Decidable (x.Covers a) := by unfold Inl.Covers; infer_instance

/-! ## the specification -/

/-- the first FUNC record whose own range contains `a` -/
def scanFunc (r : Recs) (a : Nat) : Option Func := r.funcs.find? fun f => decide (f.Covers a)

/-- the first line record of `f` whose own range contains `a` -/
def scanLine (f : Func) (a : Nat) : Option Line := f.lines.find? fun l => decide (l.Covers a)

/-- the first INLINE range of `f` at depth `d` that contains `a` -/
def scanInl (f : Func) (d a : Nat) : Option Inl :=
  f.inls.find? fun x => decide (x.depth = d ∧ x.Covers a)

/-- a STACK WIN record's own range contains `a` -/
def winCovers (w : Rec) (a : Nat) : Bool :=
  decide (0 < w.size ∧ w.addr + w.size ≤ U64MAX ∧ w.addr ≤ a ∧ a < w.addr + w.size)

/-- parameter size: first covering frame-data record, else first covering fpo record, else the FUNC's -/
def scanPsize (r : Recs) (a : Nat) (f : Func) : Nat :=
  match r.win4.find? (winCovers · a) with
  | some w => w.tag
  | none =>
    match r.win0.find? (winCovers · a) with
    | some w => w.tag
    | none => f.psize

def scanSrc (r : Recs) (fileId line addr base : Nat) : Option (Name × Nat × Nat) :=
  (mapGet r.files fileId).map fun file => (file, line, addr + base)

/-- the innermost frame: named by `origin`, located by the line record covering `a` -/
def scanLast (r : Recs) (f : Func) (a origin : Nat) : List InlineFrame :=
  let (file, line) : Option Name × Option Nat :=
    match scanLine f a with
    | some l => (mapGet r.files l.file, if l.line ≠ 0 then some l.line else none)
    | none => (none, none)
  match mapGet r.origins origin with
  | some name => [⟨name, file, line⟩]
  | none => []

/-- inline frames from depth `d` on; `origin` names the function the frame of depth `d-1` is in -/
def scanLoop (r : Recs) (f : Func) (a : Nat) : Nat → Nat → Nat → List InlineFrame
  | 0, _, _ => []
  | fuel + 1, d, origin =>
    match scanInl f d a with
    | none => scanLast r f a origin
    | some x =>
      (match mapGet r.origins origin with
        | some name => [⟨name, mapGet r.files x.callFile, some x.callLine⟩]
        | none => []) ++ scanLoop r f a fuel (d + 1) x.origin

/-- the greatest `(address, name, parameter size)` among the PUBLIC records at or below `a` -/
def scanStep (a : Nat) (best : Option Pub) (q : Pub) : Option Pub :=
  if q.addr ≤ a then
    match best with
    | none => some q
    | some b => if pubLe b q then some q else some b
  else best

def scanPublic (pubs : List Pub) (a : Nat) : Option Pub := pubs.foldl (scanStep a) none

/-- some valid FUNC record starts in `[p.addr, a]` -/
def scanCut (r : Recs) (a : Nat) (p : Pub) : Bool :=
  r.funcs.any fun f =>
    decide (0 < f.size ∧ f.addr + f.size ≤ U64MAX ∧ f.addr ≤ a ∧ p.addr ≤ f.addr)

/-- linear-scan symbolication with the parameter size of a FUNC given by `psf` -/
def scanFillWith (psf : Nat → Func → Nat) (r : Recs) (base instr : Nat) : Frame :=
  if instr < base then {} else
  let a := instr - base
  match scanFunc r a with
  | some f =>
    let fn := some (f.name, f.addr + base, psf a f)
    match scanInl f 0 a with
    | some x =>
      { fn := fn, src := scanSrc r x.callFile x.callLine x.addr base,
        inl := scanLoop r f a (f.inls.length + 1) 1 x.origin }
    | none =>
      match scanLine f a with
      | some l => { fn := fn, src := scanSrc r l.file l.line l.addr base }
      | none => { fn := fn }
  | none =>
    match scanPublic r.pubs a with
    | some p => if scanCut r a p then {} else { fn := some (p.name, p.addr + base, p.psize) }
    | none => {}

/-- **linear-scan symbolication** of instruction `instr` in a module loaded at `base` -/
def scanFill (r : Recs) (base instr : Nat) : Frame := scanFillWith (scanPsize r) r base instr

/-- two ranges share no address -/
def RDisjoint (r s : Rng) : Prop := r.hi < s.lo ∨ s.hi < r.lo

/-- "files whose records do not overlap": valid FUNC ranges pairwise disjoint; within every FUNC
    valid line ranges pairwise disjoint and non-empty INLINE ranges of equal depth pairwise disjoint
    as half-open intervals `[addr, addr+size)`. Empty ranges (size 0) overlap nothing; the parser
    drops them. (Pairs = two different positions in the file.) -/
structure NonOverlapping (r : Recs) : Prop where
  funcs : r.funcs.Pairwise fun f g => ∀ rf rg, mkRange f.addr f.size = some rf →
      mkRange g.addr g.size = some rg → RDisjoint rf rg
  lines : ∀ f ∈ r.funcs, f.lines.Pairwise fun l m => ∀ rl rm,
      mkRangeLine l.addr l.size = some rl → mkRangeLine m.addr m.size = some rm → RDisjoint rl rm
  inls : ∀ f ∈ r.funcs, f.inls.Pairwise fun x y => x.depth = y.depth → 0 < x.size → 0 < y.size →
      x.addr + x.size ≤ y.addr ∨ y.addr + y.size ≤ x.addr

/-! ## general facts -/

theorem find?_unique {α : Type} {l : List α} {p : α → Bool} {R : α → α → Prop}
    (hpw : l.Pairwise R) (hR : ∀ x y, R x y → p x = true → p y = true → False) {x y : α}
    (hf : l.find? p = some x) (hy : y ∈ l) (hpy : p y = true) : y = x := by
  obtain ⟨hpx, as, bs, rfl, has⟩ := List.find?_eq_some_iff_append.mp hf
  rcases List.mem_append.mp hy with h | h
  · have := has y h; simp [hpy] at this
  · rcases List.mem_cons.mp h with rfl | h
    · rfl
    · have hp := (List.pairwise_append.mp hpw).2.1
      exact (hR x y (List.rel_of_pairwise_cons hp h) hpx hpy).elim

theorem intersects_false_of_disjoint {r s : Rng} (h : RDisjoint r s) : r.intersects s = false := by
  unfold RDisjoint at h
  simp only [Rng.intersects, Bool.and_eq_false_iff, decide_eq_false_iff_not]
  omega

/-- a sorted list of well-formed, pairwise disjoint entries whose value determines the range is
    already a normalized table -/
theorem sep_of_sorted_disjoint (m : List Entry) (hw : ∀ e ∈ m, WF e)
    (hsorted : m.Pairwise fun x y => rle x.1 y.1 = true)
    (hdis : m.Pairwise fun x y => RDisjoint x.1 y.1)
    (hself : ∀ x ∈ m, ∀ y ∈ m, x.2 = y.2 → x.1 = y.1) : Sep m := by
  induction m with
  | nil => trivial
  | cons p rest ih =>
    have hrest := ih (fun e he => hw e (List.mem_cons_of_mem _ he)) (List.Pairwise.of_cons hsorted)
      (List.Pairwise.of_cons hdis)
      (fun x hx y hy => hself x (List.mem_cons_of_mem _ hx) y (List.mem_cons_of_mem _ hy))
    cases rest with
    | nil => exact hw p List.mem_cons_self
    | cons n rest =>
      refine ⟨hw p List.mem_cons_self, ?_, hrest⟩
      have hle := List.rel_of_pairwise_cons hsorted (List.mem_cons_self (a := n) (l := rest))
      have hd := List.rel_of_pairwise_cons hdis (List.mem_cons_self (a := n) (l := rest))
      have hwp := hw p List.mem_cons_self
      have hwn := hw n (List.mem_cons_of_mem _ List.mem_cons_self)
      unfold WF at hwp hwn
      unfold RDisjoint at hd
      simp only [rle, Bool.or_eq_true, Bool.and_eq_true, decide_eq_true_eq, beq_iff_eq] at hle
      have hlt : p.1.hi < n.1.lo := by omega
      refine ⟨hlt, ?_⟩
      intro ⟨_, hv⟩
      have := hself n (List.mem_cons_of_mem _ List.mem_cons_self) p List.mem_cons_self hv
      rw [this] at hlt
      omega

/-! ## P1: the function table of a file without overlapping FUNCs -/

theorem funcInput_mem {bs : List BFunc} {e : Entry} (he : e ∈ funcInput bs) :
    ∃ b ∈ bs, mkRange b.addr b.size = some e.1 ∧ e.2 = funcVal bs b := by
  simp only [funcInput, validOnly, List.mem_filterMap, List.mem_map, Option.map_eq_some_iff] at he
  obtain ⟨x, ⟨b, hb, rfl⟩, r', hr', rfl⟩ := he
  exact ⟨b, hb, hr', rfl⟩

theorem funcInput_self {bs : List BFunc} : ∀ x ∈ funcInput bs, ∀ y ∈ funcInput bs,
    x.2 = y.2 → x.1 = y.1 := by
  intro x hx y hy hv
  obtain ⟨b, hb, hrb, hvb⟩ := funcInput_mem hx
  obtain ⟨c, hc, hrc, hvc⟩ := funcInput_mem hy
  obtain ⟨g, hg, hkb⟩ := funcVal_get hb
  obtain ⟨g', hg', hkc⟩ := funcVal_get hc
  rw [← hvb, hv, hvc, hg'] at hg
  cases hg
  simp only [BFunc.key, Prod.mk.injEq] at hkb hkc
  have h1 : b.addr = c.addr := by omega
  have h2 : b.size = c.size := by omega
  rw [h1, h2, hrc] at hrb
  exact (Option.some.inj hrb).symm

theorem funcInput_pairwise {fs : List Func}
    (h : fs.Pairwise fun f g => ∀ rf rg, mkRange f.addr f.size = some rf →
      mkRange g.addr g.size = some rg → RDisjoint rf rg) :
    (funcInput (fs.map finOf)).Pairwise fun x y => RDisjoint x.1 y.1 := by
  unfold funcInput validOnly
  rw [List.map_map]
  have h1 : (fs.map ((fun b => (mkRange b.addr b.size, funcVal (fs.map finOf) b)) ∘ finOf)).Pairwise
      (fun e e' : Option Rng × Val => ∀ r r', e.1 = some r → e'.1 = some r' → RDisjoint r r') := by
    rw [List.pairwise_map]
    exact h.imp (fun {f g} hfg => fun r r' hr hr' => hfg r r' hr hr')
  refine List.Pairwise.filterMap (fun e : Option Rng × Val => e.1.map fun r => (r, e.2))
    (S := fun x y : Entry => RDisjoint x.1 y.1) ?_ h1
  intro e e' hee x hx y hy
  simp only [Option.map_eq_some_iff] at hx hy
  obtain ⟨r, hr, rfl⟩ := hx
  obtain ⟨r', hr', rfl⟩ := hy
  exact hee r r' hr hr'

theorem rdisjoint_symm {r s : Rng} (h : RDisjoint r s) : RDisjoint s r := by
  unfold RDisjoint at *; omega

theorem ftab_nonoverlap {fs : List Func}
    (h : fs.Pairwise fun f g => ∀ rf rg, mkRange f.addr f.size = some rf →
      mkRange g.addr g.size = some rg → RDisjoint rf rg) :
    safeVecP (funcInput (fs.map finOf)) = sortEntries (funcInput (fs.map finOf)) ∧
    Sep (sortEntries (funcInput (fs.map finOf))) := by
  have hsep : Sep (sortEntries (funcInput (fs.map finOf))) := by
    apply sep_of_sorted_disjoint
    · intro e he; exact funcInput_wf _ e (List.mem_mergeSort.mp he)
    · exact List.pairwise_mergeSort rle_trans rle_total _
    · exact (List.Perm.pairwise_iff (fun {x y} hxy => rdisjoint_symm hxy)
        (List.mergeSort_perm _ _)).mpr (funcInput_pairwise h)
    · intro x hx y hy
      exact funcInput_self x (List.mem_mergeSort.mp hx) y (List.mem_mergeSort.mp hy)
  refine ⟨?_, hsep⟩
  unfold safeVecP
  rw [pass_of_sep _ hsep]

theorem mkRange_of_covers {f : Func} {a : Nat} (h : f.Covers a) :
    mkRange f.addr f.size = some ⟨f.addr, f.addr + f.size - 1⟩ := by
  obtain ⟨h1, h2, _, _⟩ := h
  unfold mkRange
  rw [if_neg (by omega), if_neg (by omega)]

theorem covers_not_disjoint {f g : Func} {a : Nat} (hf : f.Covers a) (hg : g.Covers a) :
    ¬ (∀ rf rg, mkRange f.addr f.size = some rf → mkRange g.addr g.size = some rg →
        RDisjoint rf rg) := by
  intro h
  have := h _ _ (mkRange_of_covers hf) (mkRange_of_covers hg)
  obtain ⟨h1, h2, h3, h4⟩ := hf
  obtain ⟨g1, g2, g3, g4⟩ := hg
  unfold RDisjoint at this
  simp only at this
  omega

/-- **P1**: with pairwise disjoint FUNC ranges the table lookup is the linear scan -/
theorem funcAt_scan {r : Recs} (hno : NonOverlapping r) (a : Nat) :
    funcAt (r.funcs.map finOf) (safeVecP (funcInput (r.funcs.map finOf))) a =
      (scanFunc r a).map finOf := by
  cases hs : scanFunc r a with
  | none =>
    simp only [Option.map_none]
    cases hf : funcAt (r.funcs.map finOf) (safeVecP (funcInput (r.funcs.map finOf))) a with
    | none => rfl
    | some g =>
      exfalso
      obtain ⟨hm, h1, h2, h3, h4⟩ := funcAt_sound hf
      rw [List.mem_map] at hm
      obtain ⟨f, hfm, rfl⟩ := hm
      unfold scanFunc at hs
      have := List.find?_eq_none.mp hs f hfm
      apply this
      simp only [decide_eq_true_eq]
      exact ⟨h1, h4, h2, h3⟩
  | some f =>
    simp only [Option.map_some]
    unfold scanFunc at hs
    have hfm : f ∈ r.funcs := List.mem_of_find?_eq_some hs
    have hcov : f.Covers a := by simpa using List.find?_some hs
    obtain ⟨htab, hsep⟩ := ftab_nonoverlap hno.funcs
    rw [htab]
    -- the entry of `f`
    have he : ((⟨f.addr, f.addr + f.size - 1⟩ : Rng), funcVal (r.funcs.map finOf) (finOf f)) ∈
        sortEntries (funcInput (r.funcs.map finOf)) := by
      apply List.mem_mergeSort.mpr
      simp only [funcInput, validOnly, List.mem_filterMap, List.mem_map, Option.map_eq_some_iff]
      exact ⟨_, ⟨finOf f, ⟨f, hfm, rfl⟩, rfl⟩, _, mkRange_of_covers hcov, rfl⟩
    obtain ⟨c1, c2, c3, c4⟩ := hcov
    have hget := get_complete_mem _ hsep _ he a
      (by simp only [Rng.contains, Bool.and_eq_true, decide_eq_true_eq]; omega)
    unfold funcAt
    rw [hget]
    simp only [Option.bind_some]
    obtain ⟨g, hg, hkey⟩ := funcVal_get (bs := r.funcs.map finOf) (b := finOf f)
      (List.mem_map.mpr ⟨f, hfm, rfl⟩)
    rw [hg]
    have hgm := List.mem_of_getElem? hg
    rw [List.mem_map] at hgm
    obtain ⟨f', hfm', rfl⟩ := hgm
    simp only [BFunc.key, Prod.mk.injEq] at hkey
    have ha : f'.addr = f.addr := hkey.1
    have hsz : f'.size = f.size := hkey.2.1
    have hcov' : f'.Covers a := by
      unfold Func.Covers; rw [ha, hsz]; exact ⟨c1, c2, c3, c4⟩
    have := find?_unique hno.funcs
      (fun x y hxy hx hy => covers_not_disjoint (by simpa using hx) (by simpa using hy) hxy)
      hs hfm' (by simpa using hcov')
    rw [this]

/-! ## P2: the line table of a FUNC without overlapping lines -/

theorem mkRangeLine_of_covers {l : Line} {a : Nat} (h : l.Covers a) :
    mkRangeLine l.addr l.size = some ⟨l.addr, l.addr + (l.size - 1)⟩ := by
  obtain ⟨h1, h2, _, _⟩ := h
  unfold mkRangeLine
  rw [if_neg (by omega), if_neg (by omega)]

theorem lineAt_scan {f : Func}
    (hpw : f.lines.Pairwise fun l m => ∀ rl rm, mkRangeLine l.addr l.size = some rl →
      mkRangeLine m.addr m.size = some rm → RDisjoint rl rm) (a : Nat) :
    lineAt (finOf f) a = scanLine f a := by
  cases hs : scanLine f a with
  | none =>
    cases hl : lineAt (finOf f) a with
    | none => rfl
    | some l =>
      exfalso
      obtain ⟨hm, h0, h1, h2, h3⟩ := lineAt_sound (b := finOf f) rfl hl
      unfold scanLine at hs
      have := List.find?_eq_none.mp hs l (List.mem_filter.mp hm).1
      apply this
      simp only [decide_eq_true_eq]
      exact ⟨h0, h3, h1, h2⟩
  | some l =>
    unfold scanLine at hs
    have hlm : l ∈ f.lines := List.mem_of_find?_eq_some hs
    have hcov : l.Covers a := by simpa using List.find?_some hs
    obtain ⟨c1, c2, c3, c4⟩ := hcov
    -- the surviving lines
    obtain ⟨ls, hls⟩ : ∃ ls, ls = f.lines.filter fun l => l.size > 0 := ⟨_, rfl⟩
    have hl : l ∈ ls := by rw [hls]; exact List.mem_filter.mpr ⟨hlm, by simpa using c1⟩
    have hpw' : ls.Pairwise fun l m => ∀ rl rm, mkRangeLine l.addr l.size = some rl →
        mkRangeLine m.addr m.size = some rm → RDisjoint rl rm := by
      rw [hls]; exact hpw.filter _
    obtain ⟨g, hg⟩ : ∃ g : Line → Option Rng × Val,
        g = fun l => (mkRangeLine l.addr l.size, ls.idxOf l) := ⟨_, rfl⟩
    have hin : lineInput ls = ls.map g := by rw [hg]; rfl
    obtain ⟨pre, post, hsplit⟩ := List.append_of_mem hl
    have hgl : g l = (some ⟨l.addr, l.addr + (l.size - 1)⟩, ls.idxOf l) := by
      rw [hg]; simp only [mkRangeLine_of_covers ⟨c1, c2, c3, c4⟩]
    have hform : lineInput ls =
        pre.map g ++ (some ⟨l.addr, l.addr + (l.size - 1)⟩, ls.idxOf l) :: post.map g := by
      rw [hin]
      conv => lhs; rw [hsplit]
      rw [List.map_append, List.map_cons, hgl]
    have hwf := lineInput_wf ls
    rw [hform] at hwf
    rw [hsplit] at hpw'
    have hget := get_complete (pre.map g) (post.map g) ⟨l.addr, l.addr + (l.size - 1)⟩
      (ls.idxOf l) a hwf ?_ ⟨c3, c4⟩
    · have hlt : List.idxOf l ls < ls.length := List.idxOf_lt_length_iff.mpr hl
      show (get (safeVec (lineInput (f.lines.filter fun l => l.size > 0))) a).bind
        (fun v => (f.lines.filter fun l => l.size > 0)[v]?) = some l
      rw [← hls, hform, hget]
      simp only [Option.bind_some]
      rw [List.getElem?_eq_getElem hlt, List.getElem_idxOf hlt]
    · intro e he s hs'
      apply intersects_false_of_disjoint
      rcases List.mem_append.mp he with he | he
      · obtain ⟨x, hx, rfl⟩ := List.mem_map.mp he
        have hrel := (List.pairwise_append.mp hpw').2.2 x hx l List.mem_cons_self
        rw [hg] at hs'
        exact rdisjoint_symm (hrel _ _ hs' (mkRangeLine_of_covers ⟨c1, c2, c3, c4⟩))
      · obtain ⟨x, hx, rfl⟩ := List.mem_map.mp he
        have hrel := List.rel_of_pairwise_cons (List.pairwise_append.mp hpw').2.1 hx
        rw [hg] at hs'
        exact hrel _ _ (mkRangeLine_of_covers ⟨c1, c2, c3, c4⟩) hs'

/-! ## P3: inlinee lookup in a FUNC without overlapping same-depth inlinees -/

theorem inlLe_trans (x y z : Inl) : inlLe x y = true → inlLe y z = true → inlLe x z = true :=
  lexLe_trans _ _ _

theorem inlLe_total (x y : Inl) : (inlLe x y || inlLe y x) = true := by
  rw [Bool.or_eq_true]; exact lexLe_total _ _

theorem inlLe_prefix {x y : Inl} (h : inlLe x y = true) :
    x.depth < y.depth ∨ (x.depth = y.depth ∧
      (x.addr < y.addr ∨ (x.addr = y.addr ∧ x.size ≤ y.size))) := by
  simp only [inlLe, Inl.key, lexLe, Bool.or_eq_true, Bool.and_eq_true, decide_eq_true_eq,
    beq_iff_eq] at h
  omega

theorem cmpDepthAddr_gt {d a : Nat} {i : Inl} :
    cmpDepthAddr d a i = .gt ↔ i.depth > d ∨ (i.depth = d ∧ i.addr > a) := by
  unfold cmpDepthAddr
  split
  · rename_i h; rw [cmpNat_eq] at h; rw [cmpNat_gt]; simp [h]
  · rename_i o hne
    constructor
    · intro h; left; exact cmpNat_gt.mp h
    · intro h
      rcases h with h | ⟨h, _⟩
      · exact cmpNat_gt.mpr h
      · exact absurd (cmpNat_eq.mpr h) (hne ·)

theorem inlineeAt_of_cand {S : List Inl} {d a i : Nat} {c : Inl}
    (hbs : binarySearchBy S.length (probeOf S (cmpDepthAddr d a)) = .found i ∨
           binarySearchBy S.length (probeOf S (cmpDepthAddr d a)) = .notFound (i + 1))
    (hc : S[i]? = some c) :
    inlineeAt S d a =
      if c.depth ≠ d then .ok none
      else if c.addr + c.size > U64MAX then .ok none
      else if a < c.addr + c.size then .ok (some c) else .ok none := by
  unfold inlineeAt
  rcases hbs with h | h <;> simp only [h, hc]

theorem inlineeAt_complete (S : List Inl) (hsorted : S.Pairwise fun x y => inlLe x y = true)
    (hdis : S.Pairwise fun x y => x.depth = y.depth →
      x.addr + x.size ≤ y.addr ∨ y.addr + y.size ≤ x.addr)
    {x : Inl} (hx : x ∈ S) {d a : Nat} (hd : x.depth = d) (hc : x.Covers a) :
    inlineeAt S d a = .ok (some x) := by
  obtain ⟨c1, c2, c3⟩ := hc
  have hle : ∀ i j (hi : i < S.length) (hj : j < S.length), i ≤ j → inlLe S[i] S[j] = true := by
    intro i j hi hj hij
    by_cases h : i = j
    · subst h; exact lexLe_refl _
    · exact List.pairwise_iff_getElem.mp hsorted i j hi hj (by omega)
  have hmono : ∀ i j, i ≤ j → j < S.length →
      probeOf S (cmpDepthAddr d a) i = .gt → probeOf S (cmpDepthAddr d a) j = .gt := by
    intro i j hij hj hgt
    have hi : i < S.length := by omega
    unfold probeOf at hgt ⊢
    rw [List.getElem?_eq_getElem hi] at hgt
    rw [List.getElem?_eq_getElem hj]
    simp only at hgt ⊢
    have := inlLe_prefix (hle i j hi hj hij)
    rw [cmpDepthAddr_gt] at hgt ⊢
    omega
  obtain ⟨k, hk, rfl⟩ := List.getElem_of_mem hx
  have hpk : probeOf S (cmpDepthAddr d a) k ≠ .gt := by
    unfold probeOf
    rw [List.getElem?_eq_getElem hk]
    simp only
    rw [Ne, cmpDepthAddr_gt]
    omega
  obtain ⟨h1, h2, h3⟩ := binarySearchBy_mono hmono
  -- the candidate index
  have hcand : ∃ i, i < S.length ∧ (binarySearchBy S.length (probeOf S (cmpDepthAddr d a)) = .found i ∨
      binarySearchBy S.length (probeOf S (cmpDepthAddr d a)) = .notFound (i + 1)) ∧
      probeOf S (cmpDepthAddr d a) i ≠ .gt ∧
      ∀ j, i < j → j < S.length → probeOf S (cmpDepthAddr d a) j = .gt := by
    cases hbs : binarySearchBy S.length (probeOf S (cmpDepthAddr d a)) with
    | found i =>
      obtain ⟨hi, he, hu⟩ := h1 i hbs
      exact ⟨i, hi, .inl rfl, by rw [he]; simp, hu⟩
    | notFound n =>
      cases n with
      | zero => exact absurd (h2 hbs k hk) hpk
      | succ i =>
        obtain ⟨hi, he, hu⟩ := h3 i hbs
        exact ⟨i, hi, .inr rfl, by rw [he]; simp, hu⟩
  obtain ⟨i, hi, hbs, hpi, hu⟩ := hcand
  have hki : k ≤ i := by
    by_cases h : k ≤ i
    · exact h
    · exact absurd (hu k (by omega) hk) hpk
  have hpi' : ¬ (S[i].depth > d ∨ (S[i].depth = d ∧ S[i].addr > a)) := by
    unfold probeOf at hpi
    rw [List.getElem?_eq_getElem hi] at hpi
    simp only at hpi
    rwa [Ne, cmpDepthAddr_gt] at hpi
  have hik : i = k := by
    by_cases h : i = k
    · exact h
    · exfalso
      have hlt : k < i := by omega
      have hs := inlLe_prefix (List.pairwise_iff_getElem.mp hsorted k i hk hi hlt)
      have hdj := List.pairwise_iff_getElem.mp hdis k i hk hi hlt
      omega
  subst hik
  rw [inlineeAt_of_cand hbs (List.getElem?_eq_getElem hi)]
  rw [if_neg (by omega), if_neg (by omega), if_pos (by omega)]

theorem inlineeAt_scan {f : Func}
    (hpw : f.inls.Pairwise fun x y => x.depth = y.depth → 0 < x.size → 0 < y.size →
      x.addr + x.size ≤ y.addr ∨ y.addr + y.size ≤ x.addr) (d a : Nat) :
    inlineeAt (finOf f).inls d a = .ok (scanInl f d a) := by
  cases hs : scanInl f d a with
  | none =>
    obtain ⟨o, ho⟩ := inlineeAt_ok (finOf f).inls d a
    cases o with
    | none => exact ho
    | some x =>
      exfalso
      obtain ⟨hm, hd, h1, h2, h3⟩ := inlineeAt_sound ho
      unfold scanInl at hs
      have := List.find?_eq_none.mp hs x (List.mem_filter.mp (List.mem_mergeSort.mp hm)).1
      apply this
      simp only [decide_eq_true_eq]
      exact ⟨hd, h3, h1, h2⟩
  | some x =>
    unfold scanInl at hs
    have hm : x ∈ f.inls := List.mem_of_find?_eq_some hs
    have hp : x.depth = d ∧ x.Covers a := by simpa using List.find?_some hs
    have hpos : 0 < x.size := by obtain ⟨_, _, h2, h3⟩ := hp; omega
    -- among the non-empty ranges the hypothesis is plain disjointness
    have hpw' : (f.inls.filter fun x => x.size > 0).Pairwise fun x y => x.depth = y.depth →
        x.addr + x.size ≤ y.addr ∨ y.addr + y.size ≤ x.addr := by
      refine List.Pairwise.imp_of_mem ?_ (hpw.filter _)
      intro x y hx hy hxy hd
      have hx' := (List.mem_filter.mp hx).2
      have hy' := (List.mem_filter.mp hy).2
      simp only [gt_iff_lt, decide_eq_true_eq] at hx' hy'
      exact hxy hd hx' hy'
    apply inlineeAt_complete
    · exact List.pairwise_mergeSort inlLe_trans inlLe_total _
    · refine (List.Perm.pairwise_iff ?_ (List.mergeSort_perm _ _)).mpr hpw'
      intro x y hxy he
      have := hxy he.symm
      omega
    · exact List.mem_mergeSort.mpr (List.mem_filter.mpr ⟨hm, by simpa using hpos⟩)
    · exact hp.1
    · exact hp.2

/-! ## P4: the inline loop -/

theorem lastInline_scan {r : Recs} {sf : SymFile} (B : Built r sf) {f : Func}
    (hl : f.lines.Pairwise fun l m => ∀ rl rm, mkRangeLine l.addr l.size = some rl →
      mkRangeLine m.addr m.size = some rm → RDisjoint rl rm) (a origin : Nat) :
    lastInline sf (finOf f) a origin = scanLast r f a origin := by
  unfold lastInline scanLast
  rw [lineAt_scan hl, B.files, B.origins]
  rfl

/-- whatever the model's loop returns (with whatever fuel it was given) is what the scan's loop
    returns with that much fuel or more -/
theorem inlineLoop_scan {r : Recs} {sf : SymFile} (B : Built r sf) {f : Func}
    (hl : f.lines.Pairwise fun l m => ∀ rl rm, mkRangeLine l.addr l.size = some rl →
      mkRangeLine m.addr m.size = some rm → RDisjoint rl rm)
    (hi : f.inls.Pairwise fun x y => x.depth = y.depth → 0 < x.size → 0 < y.size →
      x.addr + x.size ≤ y.addr ∨ y.addr + y.size ≤ x.addr) (a : Nat) :
    ∀ fuel d origin inl, inlineLoop sf (finOf f) a fuel d origin = some (.ok inl) →
      ∀ k, inl = scanLoop r f a (fuel + k) d origin := by
  intro fuel
  induction fuel with
  | zero => intro d origin inl h; simp [inlineLoop] at h
  | succ fuel ih =>
    intro d origin inl h k
    rw [show fuel + 1 + k = (fuel + k) + 1 by omega]
    simp only [inlineLoop, inlineeAt_scan hi] at h
    split at h
    · cases h
    · cases hs : scanInl f d a with
      | none =>
        rw [hs] at h
        simp only [Option.some.injEq, Outcome.ok.injEq] at h
        simp only [scanLoop, hs]
        rw [← h, lastInline_scan B hl]
      | some x =>
        rw [hs] at h
        simp only at h
        simp only [scanLoop, hs]
        split at h
        · cases h
        · cases h
        · rename_i rest hrest
          simp only [Option.some.injEq, Outcome.ok.injEq] at h
          rw [← h, ih _ _ _ hrest k, B.files, B.origins]
          rfl

/-! ## P5: the nearest preceding PUBLIC by a single pass -/

theorem pubLe_antisymm (p q : Pub) (h1 : pubLe p q = true) (h2 : pubLe q p = true) : p = q := by
  rw [pubLe_iff] at h1 h2
  obtain ⟨pa, pn, pp⟩ := p
  obtain ⟨qa, qn, qp⟩ := q
  simp only at h1 h2
  rcases h1 with h1 | ⟨h1, h1'⟩
  · rcases h2 with h2 | ⟨h2, _⟩ <;> omega
  · rcases h2 with h2 | ⟨h2, h2'⟩
    · omega
    · subst h1
      rcases h1' with ⟨a1, a2⟩ | ⟨a1, a2⟩ <;> rcases h2' with ⟨b1, b2⟩ | ⟨b1, b2⟩
      · exact absurd (lexLe_antisymm _ _ a1 b1) a2
      · exact absurd b1.symm a2
      · exact absurd a1.symm b2
      · subst a1
        have : pp = qp := by omega
        subst this; rfl

theorem NearestPublic.unique {pubs : List Pub} {a : Nat} {p q : Pub}
    (hp : NearestPublic pubs a p) (hq : NearestPublic pubs a q) : p = q :=
  pubLe_antisymm p q (hq.2.2 p hp.1 hp.2.1) (hp.2.2 q hq.1 hq.2.1)

/-- invariant of the single pass: `best` is the nearest preceding PUBLIC among the records seen -/
def ScanInv (a : Nat) (best : Option Pub) (seen : List Pub) : Prop :=
  (best = none → ∀ q ∈ seen, a < q.addr) ∧
  (∀ p, best = some p → p ∈ seen ∧ p.addr ≤ a ∧ ∀ q ∈ seen, q.addr ≤ a → pubLe q p = true)

theorem scanStep_inv (a : Nat) (seen : List Pub) (best : Option Pub) (q : Pub)
    (hinv : ScanInv a best seen) : ScanInv a (scanStep a best q) (seen ++ [q]) := by
  obtain ⟨h1, h2⟩ := hinv
  unfold scanStep
  by_cases hq : q.addr ≤ a
  · simp only [hq, if_true]
    cases best with
    | none =>
      refine ⟨(by intro h; cases h), ?_⟩
      intro p hp
      simp only [Option.some.injEq] at hp
      subst hp
      refine ⟨by simp, hq, ?_⟩
      intro q' hq' hle
      rcases List.mem_append.mp hq' with h | h
      · have := h1 rfl q' h; omega
      · simp at h; subst h; exact pubLe_refl _
    | some b =>
      obtain ⟨hb1, hb2, hb3⟩ := h2 b rfl
      by_cases hle : pubLe b q = true
      · simp only [hle, if_true]
        refine ⟨(by intro h; cases h), ?_⟩
        intro p hp
        simp only [Option.some.injEq] at hp
        subst hp
        refine ⟨by simp, hq, ?_⟩
        intro q' hq' hle'
        rcases List.mem_append.mp hq' with h | h
        · exact pubLe_trans _ _ _ (hb3 q' h hle') hle
        · simp at h; subst h; exact pubLe_refl _
      · simp only [hle]
        refine ⟨(by intro h; cases h), ?_⟩
        intro p hp
        cases hp
        refine ⟨by simp [hb1], hb2, ?_⟩
        intro q' hq' hle'
        rcases List.mem_append.mp hq' with h | h
        · exact hb3 q' h hle'
        · simp at h; subst h
          have := pubLe_total b q'
          simp only [Bool.or_eq_true] at this
          rcases this with h | h
          · exact absurd h hle
          · exact h
  · simp only [hq, if_false]
    refine ⟨?_, ?_⟩
    · intro hb q' hq'
      rcases List.mem_append.mp hq' with h | h
      · exact h1 hb q' h
      · simp at h; subst h; omega
    · intro p hp
      obtain ⟨hb1, hb2, hb3⟩ := h2 p hp
      refine ⟨by simp [hb1], hb2, ?_⟩
      intro q' hq' hle'
      rcases List.mem_append.mp hq' with h | h
      · exact hb3 q' h hle'
      · simp at h; subst h; omega

theorem scanPublic_inv (a : Nat) (l seen : List Pub) (best : Option Pub)
    (hinv : ScanInv a best seen) : ScanInv a (l.foldl (scanStep a) best) (seen ++ l) := by
  induction l generalizing best seen with
  | nil => simpa using hinv
  | cons q rest ih =>
    simp only [List.foldl_cons]
    have := ih (seen ++ [q]) (scanStep a best q) (scanStep_inv a seen best q hinv)
    simpa using this

theorem scanPublic_spec (pubs : List Pub) (a : Nat) :
    (∀ p, scanPublic pubs a = some p → NearestPublic pubs a p) ∧
    (scanPublic pubs a = none → ∀ q ∈ pubs, a < q.addr) := by
  have := scanPublic_inv a pubs [] none ⟨(by intro _ q hq; cases hq), (by intro p hp; cases hp)⟩
  simp only [List.nil_append] at this
  exact ⟨fun p hp => this.2 p hp, fun h => this.1 h⟩

/-! ## table entries = valid FUNC records (files without overlapping FUNCs) -/

theorem ftab_has_record {r : Recs} (hno : NonOverlapping r) {f : Func} (hf : f ∈ r.funcs)
    (h1 : 0 < f.size) (h2 : f.addr + f.size ≤ U64MAX) :
    ∃ e ∈ safeVecP (funcInput (r.funcs.map finOf)), e.1.lo = f.addr := by
  obtain ⟨htab, _⟩ := ftab_nonoverlap hno.funcs
  rw [htab]
  refine ⟨(⟨f.addr, f.addr + f.size - 1⟩, funcVal (r.funcs.map finOf) (finOf f)), ?_, rfl⟩
  apply List.mem_mergeSort.mpr
  simp only [funcInput, validOnly, List.mem_filterMap, List.mem_map, Option.map_eq_some_iff]
  refine ⟨_, ⟨finOf f, ⟨f, hf, rfl⟩, rfl⟩, _, ?_, rfl⟩
  show mkRange f.addr f.size = _
  unfold mkRange
  rw [if_neg (by omega), if_neg (by omega)]

/-! ## P6: parameter size — STACK WIN tables of a file without overlapping STACK WIN records -/

theorem Rec.dec_enc (w : Rec) (hs : w.size < 2 ^ 32) (ht : w.tag < 2 ^ 64) : Rec.dec w.enc = w := by
  obtain ⟨a, s, t⟩ := w
  simp only [Rec.enc, Rec.dec, Rec.mk.injEq] at *
  refine ⟨?_, ?_, ?_⟩ <;> omega

/-- the valid records with their ranges, in file order -/
def validWin (recs : List Rec) : List (Rng × Rec) :=
  recs.filterMap fun w => (mkRange w.addr w.size).map fun r => (r, w)

/-- without intersections the overlap repair is the identity on the valid records -/
theorem insertWinAll_disjoint (recs : List Rec) (acc : List (Rng × Rec))
    (hacc : ∀ p ∈ acc, ∀ q ∈ validWin recs, RDisjoint p.1 q.1)
    (hpw : (validWin recs).Pairwise fun p q => RDisjoint p.1 q.1) :
    insertWinAll acc recs = .ok (acc.reverse ++ validWin recs) := by
  induction recs generalizing acc with
  | nil => simp [insertWinAll, validWin]
  | cons w rest ih =>
    simp only [insertWinAll]
    cases hr : mkRange w.addr w.size with
    | none =>
      have hv : validWin (w :: rest) = validWin rest := by simp [validWin, hr]
      rw [hv] at hacc hpw
      have : insertWin acc w = .ok acc := by unfold insertWin; rw [hr]
      rw [this]
      simp only
      rw [ih acc hacc hpw, hv]
    | some mr =>
      have hv : validWin (w :: rest) = (mr, w) :: validWin rest := by simp [validWin, hr]
      rw [hv] at hacc hpw
      have hins : insertWin acc w = .ok ((mr, w) :: acc) := by
        unfold insertWin
        rw [hr]
        simp only
        cases acc with
        | nil => rfl
        | cons l acc' =>
          obtain ⟨lr, li⟩ := l
          simp only
          have := hacc (lr, li) List.mem_cons_self (mr, w) List.mem_cons_self
          rw [intersects_false_of_disjoint this]
          simp
      rw [hins]
      simp only
      rw [ih ((mr, w) :: acc) ?_ (List.Pairwise.of_cons hpw), hv]
      · simp
      · intro p hp q hq
        rcases List.mem_cons.mp hp with rfl | hp
        · exact List.rel_of_pairwise_cons hpw hq
        · exact hacc p hp q (List.mem_cons_of_mem _ hq)

/-- "STACK WIN records do not overlap": valid ranges of each type pairwise disjoint; and the fields
    fit their Rust types (`size`, `parameter_size` are `u32`) -/
structure WinNonOverlapping (recs : List Rec) : Prop where
  disjoint : recs.Pairwise fun w v => ∀ rw rv, mkRange w.addr w.size = some rw →
      mkRange v.addr v.size = some rv → RDisjoint rw rv
  bounds : ∀ w ∈ recs, w.size < 2 ^ 32 ∧ w.tag < 2 ^ 64

theorem validWin_pairwise {recs : List Rec} (h : WinNonOverlapping recs) :
    (validWin recs).Pairwise fun p q => RDisjoint p.1 q.1 := by
  unfold validWin
  refine List.Pairwise.filterMap (fun w : Rec => (mkRange w.addr w.size).map fun r => (r, w))
    (S := fun p q : Rng × Rec => RDisjoint p.1 q.1) ?_ h.disjoint
  intro w v hwv x hx y hy
  simp only [Option.map_eq_some_iff] at hx hy
  obtain ⟨r, hr, rfl⟩ := hx
  obtain ⟨r', hr', rfl⟩ := hy
  exact hwv r r' hr hr'

theorem validWin_mem {recs : List Rec} {p : Rng × Rec} (h : p ∈ validWin recs) :
    p.2 ∈ recs ∧ mkRange p.2.addr p.2.size = some p.1 := by
  simp only [validWin, List.mem_filterMap, Option.map_eq_some_iff] at h
  obtain ⟨w, hw, r, hr, rfl⟩ := h
  exact ⟨hw, hr⟩

/-- the STACK WIN lookup is the linear scan -/
theorem winTable_scan {recs : List Rec} (h : WinNonOverlapping recs) {tab : List Entry}
    (ht : winTable recs = .ok tab) (a : Nat) :
    (get tab a).map (fun v => (Rec.dec v).tag) = (recs.find? (winCovers · a)).map (·.tag) := by
  unfold winTable at ht
  rw [insertWinAll_disjoint recs [] (by intro p hp; cases hp) (validWin_pairwise h)] at ht
  simp only [List.reverse_nil, List.nil_append] at ht
  -- the input of the safe builder
  obtain ⟨xs, hxs⟩ : ∃ xs : List Entry, xs = (validWin recs).map fun (r, w) => (r, w.enc) := ⟨_, rfl⟩
  rw [← hxs] at ht
  have hmem : ∀ e ∈ xs, ∃ w ∈ recs, mkRange w.addr w.size = some e.1 ∧ e.2 = w.enc := by
    intro e he
    rw [hxs, List.mem_map] at he
    obtain ⟨p, hp, rfl⟩ := he
    obtain ⟨h1, h2⟩ := validWin_mem hp
    exact ⟨p.2, h1, h2, rfl⟩
  have hwf : ∀ e ∈ xs, WF e := by
    intro e he
    obtain ⟨w, _, hr, _⟩ := hmem e he
    have := mkRange_wf hr
    exact ⟨this.1, this.2.1⟩
  rw [safeP_ok _ hwf] at ht
  simp only [Outcome.ok.injEq] at ht
  subst ht
  have hsep : Sep (sortEntries xs) := by
    apply sep_of_sorted_disjoint
    · intro e he; exact hwf e (List.mem_mergeSort.mp he)
    · exact List.pairwise_mergeSort rle_trans rle_total _
    · refine (List.Perm.pairwise_iff (fun {x y} hxy => rdisjoint_symm hxy)
        (List.mergeSort_perm _ _)).mpr ?_
      rw [hxs, List.pairwise_map]
      exact (validWin_pairwise h).imp (fun {p q} hpq => hpq)
    · intro x hx y hy hv
      obtain ⟨w, hw, hrw, hvw⟩ := hmem x (List.mem_mergeSort.mp hx)
      obtain ⟨v, hv', hrv, hvv⟩ := hmem y (List.mem_mergeSort.mp hy)
      have e1 := Rec.dec_enc w (h.bounds w hw).1 (h.bounds w hw).2
      have e2 := Rec.dec_enc v (h.bounds v hv').1 (h.bounds v hv').2
      rw [← hvw, hv, hvv, e2] at e1
      subst e1
      rw [hrv] at hrw
      exact (Option.some.inj hrw).symm
  have htab : safeVecP xs = sortEntries xs := by
    unfold safeVecP; rw [pass_of_sep _ hsep]
  rw [htab]
  cases hf : recs.find? (winCovers · a) with
  | none =>
    simp only [Option.map_none, Option.map_eq_none_iff]
    cases hg : get (sortEntries xs) a with
    | none => rfl
    | some v =>
      exfalso
      obtain ⟨e, he, hc, rfl⟩ := get_sound_mem _ a _ hg
      obtain ⟨w, hw, hrw, _⟩ := hmem e (List.mem_mergeSort.mp he)
      have := List.find?_eq_none.mp hf w hw
      apply this
      obtain ⟨w1, w2, w3, w4⟩ := mkRange_wf hrw
      have hpos : 0 < w.size ∧ w.addr + w.size ≤ U64MAX := by
        unfold mkRange at hrw; split at hrw
        · cases hrw
        · split at hrw
          · cases hrw
          · omega
      simp only [Rng.contains, Bool.and_eq_true, decide_eq_true_eq] at hc
      simp only [winCovers, decide_eq_true_eq]
      omega
  | some w =>
    have hw : w ∈ recs := List.mem_of_find?_eq_some hf
    have hc : winCovers w a = true := by simpa using List.find?_some hf
    simp only [winCovers, decide_eq_true_eq] at hc
    obtain ⟨c1, c2, c3, c4⟩ := hc
    have hr : mkRange w.addr w.size = some ⟨w.addr, w.addr + w.size - 1⟩ := by
      unfold mkRange; rw [if_neg (by omega), if_neg (by omega)]
    have he : ((⟨w.addr, w.addr + w.size - 1⟩ : Rng), w.enc) ∈ sortEntries xs := by
      apply List.mem_mergeSort.mpr
      rw [hxs, List.mem_map]
      refine ⟨(⟨w.addr, w.addr + w.size - 1⟩, w), ?_, rfl⟩
      simp only [validWin, List.mem_filterMap, Option.map_eq_some_iff]
      exact ⟨w, hw, _, hr, rfl⟩
    have hget := get_complete_mem _ hsep _ he a
      (by simp only [Rng.contains, Bool.and_eq_true, decide_eq_true_eq]; omega)
    rw [hget]
    simp only [Option.map_some, Rec.dec_enc w (h.bounds w hw).1 (h.bounds w hw).2]

/-- **P6**: parameter size = frame data, else fpo, else the FUNC's — by linear scan -/
theorem paramSize_scan {r : Recs} {sf : SymFile} (B : Built r sf)
    (h4 : WinNonOverlapping r.win4) (h0 : WinNonOverlapping r.win0) (a : Nat) (f : Func) :
    paramSize sf a (finOf f) = scanPsize r a f := by
  have e4 := winTable_scan h4 B.wfd a
  have e0 := winTable_scan h0 B.wfpo a
  unfold paramSize scanPsize
  cases hg4 : get sf.wfd a with
  | some v =>
    rw [hg4] at e4
    cases hf4 : r.win4.find? (winCovers · a) with
    | none => rw [hf4] at e4; simp at e4
    | some w => rw [hf4] at e4; simp at e4; simp [e4]
  | none =>
    rw [hg4] at e4
    cases hf4 : r.win4.find? (winCovers · a) with
    | some w => rw [hf4] at e4; simp at e4
    | none =>
      simp only
      cases hg0 : get sf.wfpo a with
      | some v =>
        rw [hg0] at e0
        cases hf0 : r.win0.find? (winCovers · a) with
        | none => rw [hf0] at e0; simp at e0
        | some w => rw [hf0] at e0; simp at e0; simp [e0]
      | none =>
        rw [hg0] at e0
        cases hf0 : r.win0.find? (winCovers · a) with
        | some w => rw [hf0] at e0; simp at e0
        | none => rfl

theorem winTable_ok {recs : List Rec} (h : WinNonOverlapping recs) : ∃ t, winTable recs = .ok t := by
  unfold winTable
  rw [insertWinAll_disjoint recs [] (by intro p hp; cases hp) (validWin_pairwise h)]
  simp only [List.reverse_nil, List.nil_append]
  refine ⟨_, safeP_ok _ ?_⟩
  intro e he
  rw [List.mem_map] at he
  obtain ⟨p, hp, rfl⟩ := he
  obtain ⟨_, h2⟩ := validWin_mem hp
  have := mkRange_wf h2
  exact ⟨this.1, this.2.1⟩

end MdModel.Symbolize
