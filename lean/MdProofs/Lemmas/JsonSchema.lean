/-
  Leaf facts for the schema predicate `check` (C15 `conforms`).
-/
import MdProofs.Lemmas.Json
namespace MdModel.Json
open MdModel

theorem check_null (w : Nat) (t : Ty) (p : String) : check w t .null p = none := by
  cases t <;> simp [check]

@[simp] theorem check_optStr (w : Nat) (o : Option String) (p : String) : check w .str (optStr o) p = none := by
  cases o <;> simp [optStr, optJ, check]

@[simp] theorem check_str (w : Nat) (s : String) (p : String) : check w .str (.str s) p = none := by
  simp [check]

@[simp] theorem check_bool (w : Nat) (b : Bool) (p : String) : check w .bool (.bool b) p = none := by
  simp [check]

@[simp] theorem check_boolTrue (w : Nat) (p : String) : check w .boolTrue (.bool true) p = none := by
  simp [check]

theorem check_u32 (w n : Nat) (p : String) (h : n ≤ U32MAX) : check w .u32 (.nat n) p = none := by
  simp [check, isU32, JNum.ofNat, h]

theorem check_u64 (w n : Nat) (p : String) (h : n ≤ U64MAX) : check w .u64 (.nat n) p = none := by
  simp [check, isU64, JNum.ofNat, h]

theorem check_optNat_u32 (w : Nat) (o : Option Nat) (p : String) (h : ∀ n, o = some n → n ≤ U32MAX) :
    check w .u32 (optNat o) p = none := by
  cases o with
  | none => simp [optNat, optJ, check]
  | some n => simpa [optNat, optJ] using check_u32 w n p (h n rfl)

theorem hexDigits_hex' (v : Nat) : (hexDigits v).all isHexLower = true :=
  digitsB_all 16 isHexLower (by decide) (fun d hd => (digitChar_hex d hd).1) v

theorem hexValue_hexDigits' (v : Nat) : hexValue (hexDigits v) = v :=
  valB_digitsB 16 hexVal (by decide) (fun d hd => (digitChar_hex d hd).2.1) v

/-- `0x`-padded hex of a `u64` has the shape `isHexString` asks for, at any width up to the pad -/
theorem isHexString_hexPad (w pad v : Nat) (hv : v ≤ U64MAX) (hw : w ≤ max pad 1) :
    isHexString w (hexPad pad v) = true := by
  have hne : hexDigits v ≠ [] := digitsB_ne_nil 16 v
  have hlen : 1 ≤ (hexDigits v).length := by
    cases h : hexDigits v with
    | nil => exact absurd h hne
    | cons a b => simp
  have e : (hexPad pad v).toList =
      '0' :: 'x' :: (List.replicate (pad - (hexDigits v).length) '0' ++ hexDigits v) := by
    simp [hexPad, padLeft]
  have h1 : (List.replicate (pad - (hexDigits v).length) '0' ++ hexDigits v).isEmpty = false := by
    cases h : hexDigits v with
    | nil => exact absurd h hne
    | cons a b => simp
  have h2 : (List.replicate (pad - (hexDigits v).length) '0' ++ hexDigits v).all isHexLower = true := by
    simp only [List.all_append, hexDigits_hex', Bool.and_true]
    simp [isHexLower, isDigit]
  have h3 : w ≤ (List.replicate (pad - (hexDigits v).length) '0' ++ hexDigits v).length := by
    simp only [List.length_append, List.length_replicate]; omega
  have h4 : hexValue (List.replicate (pad - (hexDigits v).length) '0' ++ hexDigits v) ≤ U64MAX := by
    unfold hexValue
    rw [valB_zeros 16 hexVal (by decide), ← hexValue, hexValue_hexDigits']
    exact hv
  simp only [isHexString, e, h1, h2, Bool.not_false, Bool.true_and, Bool.and_eq_true, decide_eq_true_eq]
  exact ⟨h3, h4⟩

theorem check_hexA (pw : PW) (v : Nat) (p : String) (hv : v ≤ U64MAX) :
    check pw.digits .hexA (.str (hexAddr pw v)) p = none := by
  have := isHexString_hexPad pw.digits pw.digits v hv (by omega)
  simp [check, hexAddr, this]

theorem check_hexN (w pad v : Nat) (p : String) (hv : v ≤ U64MAX) :
    check w .hexN (.str (hexPad pad v)) p = none := by
  have := isHexString_hexPad 1 pad v hv (by omega)
  simp [check, this]

theorem firstSome_none {α : Type} (f : α → Nat → Option String) (xs : List α) (i : Nat)
    (h : ∀ x ∈ xs, ∀ k, f x k = none) : firstSome f xs i = none := by
  induction xs generalizing i with
  | nil => rfl
  | cons x xs ih =>
    simp only [firstSome, h x (by simp)]
    exact ih (i + 1) (fun y hy => h y (by simp [hy]))

theorem check_arr (w : Nat) (t : Ty) (xs : List Json) (p : String)
    (h : ∀ x ∈ xs, ∀ q, check w t x q = none) : check w (.arr t) (.arr xs) p = none := by
  simp only [check]
  exact firstSome_none _ xs 0 (fun x hx k => h x hx _)

/-- members of a `json!` object literal are checked through `lookupLast` -/
theorem checkFields_mkObj (w : Nat) (fields : List (String × Ty)) (lits : List (String × Json)) (p : String) :
    check w (.obj fields) (mkObj lits) p =
      checkFields w fields (lits.foldl (fun m kv => insertKV kv.1 kv.2 m) []) p := by
  simp [mkObj, check]

theorem getKV_lits (k : String) (lits : List (String × Json)) :
    getKV k (lits.foldl (fun m kv => insertKV kv.1 kv.2 m) []) = lookupLast k lits := by
  rw [getKV_foldl]
  cases lookupLast k lits <;> rfl

/-! ## typed ranges of a state (what the Rust field types guarantee) -/

/-- `StackFrame`: `instruction : u64`, `source_line : u32`, inline lines `u32`; every
    `unloaded_modules` value is a non-empty `BTreeSet<u64>` (iteration strictly ascending; the
    processor only creates an entry together with its first offset). -/
structure FrameTyped (f : FrameM) : Prop where
  instr : f.instruction ≤ U64MAX
  line : ∀ n, f.sourceLine = some n → n ≤ U32MAX
  inl : ∀ i ∈ f.inlines, ∀ n, i.line = some n → n ≤ U32MAX
  unl : ∀ m ∈ f.unloaded, m.2 ≠ [] ∧ ascending m.2 = true ∧ ∀ o ∈ m.2, o ≤ U64MAX

/-- registers are `u64` values at most -/
def RegsTyped (c : RegCtx) : Prop := ∀ r ∈ c.gpr, r.2 ≤ U64MAX

theorem check_trust (w : Nat) (t : Trust) (p : String) : check w trustTy (.str t.name) p = none := by
  cases t <;> simp [check, trustTy, trustDocumented, trustUndocumented, Trust.name]

theorem check_inlines (w : Nat) (l : List InlineM) (p : String)
    (h : ∀ i ∈ l, ∀ n, i.line = some n → n ≤ U32MAX) :
    check w (.arr (.obj [("function", .str), ("file", .str), ("line", .u32)]))
      (if l = [] then Json.null else .arr (l.map inlineJson)) p = none := by
  split
  · exact check_null _ _ _
  · apply check_arr
    intro x hx q
    obtain ⟨i, hi, rfl⟩ := List.mem_map.mp hx
    simp [inlineJson, mkObj, check, checkFields, getKV_insertKV, getKV, check_optNat_u32 _ _ _ (h i hi)]

theorem hexStringValue_hexAddr (pw : PW) (o : Nat) : hexStringValue (.str (hexAddr pw o)) = o := by
  simp only [hexStringValue, hexAddr, hexPad, padLeft, String.toList_ofList, List.drop_succ_cons, List.drop_zero]
  unfold hexValue
  rw [valB_zeros 16 hexVal (by decide), ← hexValue, hexValue_hexDigits']

theorem check_offsets (pw : PW) (offs : List Nat) (p : String)
    (h : offs ≠ [] ∧ ascending offs = true ∧ ∀ o ∈ offs, o ≤ U64MAX) :
    check pw.digits .offsets (.arr (offs.map fun o => .str (hexAddr pw o))) p = none := by
  have h1 : (offs.map fun o => Json.str (hexAddr pw o)).all (isHexJ pw.digits) = true := by
    simp only [List.all_map, List.all_eq_true]
    intro o ho
    simp only [Function.comp, isHexJ, hexAddr]
    exact isHexString_hexPad _ _ _ (h.2.2 o ho) (by omega)
  have h2 : (offs.map fun o => Json.str (hexAddr pw o)).isEmpty = false := by
    cases offs with
    | nil => exact absurd rfl h.1
    | cons a b => rfl
  have h3 : (offs.map fun o => Json.str (hexAddr pw o)).map hexStringValue = offs := by
    simp [List.map_map, Function.comp_def, hexStringValue_hexAddr]
  simp [check, h1, h2, h3, h.2.1]

theorem check_unloadedRefs (pw : PW) (l : List (String × List Nat)) (p : String)
    (h : ∀ m ∈ l, m.2 ≠ [] ∧ ascending m.2 = true ∧ ∀ o ∈ m.2, o ≤ U64MAX) :
    check pw.digits (.arr (.obj [("module", .str), ("offsets", .offsets)]))
      (if l = [] then Json.null else .arr (l.map (unloadedRefJson pw))) p = none := by
  split
  · exact check_null _ _ _
  · apply check_arr
    intro x hx q
    obtain ⟨m, hm, rfl⟩ := List.mem_map.mp hx
    have hoff := check_offsets pw m.2 (q ++ "." ++ "offsets") (h m hm)
    simp [unloadedRefJson, checkFields_mkObj, checkFields, getKV_insertKV, getKV, hoff]

/-- the literal of `frameJson` conforms, whatever well-typed offsets are plugged in -/
theorem check_frame_lits (pw : PW) (i : Nat) (f : FrameM) (mo fo : Json) (p : String)
    (ht : FrameTyped f) (hi : i ≤ U32MAX)
    (hmo : ∀ q, check pw.digits .hexA mo q = none) (hfo : ∀ q, check pw.digits .hexA fo q = none) :
    check pw.digits (.obj frameFields) (mkObj [
    ("frame", .nat i),
    ("module", optJ (fun m : String × Nat => .str (basename m.1)) f.module),
    ("function", optStr f.functionName),
    ("file", optStr f.sourceFile),
    ("line", optNat f.sourceLine),
    ("offset", .str (hexAddr pw f.instruction)),
    ("inlines", if f.inlines.isEmpty then .null else .arr (f.inlines.map inlineJson)),
    ("module_offset", mo),
    ("unloaded_modules", if f.unloaded.isEmpty then .null else .arr (f.unloaded.map (unloadedRefJson pw))),
    ("function_offset", fo),
    ("missing_symbols", .bool f.functionName.isNone),
    ("trust", .str f.trust.name)]) p = none := by
  have hmod : ∀ q, check pw.digits .str (optJ (fun m : String × Nat => .str (basename m.1)) f.module) q = none := by
    intro q; cases f.module <;> simp [optJ, check]
  rw [checkFields_mkObj]
  simp [frameFields, checkFields, getKV_insertKV, getKV, check_u32 _ _ _ hi, hmo, hfo,
    check_hexA pw _ _ ht.instr, check_optNat_u32 _ _ _ ht.line, check_trust, hmod,
    check_unloadedRefs pw _ _ ht.unl, check_inlines _ _ _ ht.inl]

theorem check_frameJson (pw : PW) (i : Nat) (f : FrameM) (j : Json) (h : frameJson pw i f = .ok j)
    (ht : FrameTyped f) (hi : i ≤ U32MAX) (p : String) :
    check pw.digits (.obj frameFields) j p = none := by
  have hle : ∀ b, f.instruction - b ≤ U64MAX := fun b => Nat.le_trans (Nat.sub_le _ _) ht.instr
  simp only [frameJson, obind] at h
  split at h
  · rename_i mo hmo
    split at h
    · rename_i fo hfo
      cases h
      apply check_frame_lits pw i f mo fo p ht hi
      · intro q
        cases hm : f.module with
        | none => simp only [hm] at hmo; cases hmo; exact check_null _ _ _
        | some m =>
          obtain ⟨nm, base⟩ := m
          by_cases hlt : f.instruction < base
          · simp [hm, checkedSub, hlt] at hmo
          · simp only [hm, checkedSub, hlt, if_false] at hmo
            cases hmo; exact check_hexA pw _ _ (hle _)
      · intro q
        cases hm : f.functionBase with
        | none => simp only [hm] at hfo; cases hfo; exact check_null _ _ _
        | some fb =>
          by_cases hlt : f.instruction < fb
          · simp [hm, checkedSub, hlt] at hfo
          · simp only [hm, checkedSub, hlt, if_false] at hfo
            cases hfo; exact check_hexA pw _ _ (hle _)
    · cases h
  · cases h

/-! ## threads, the crashing-thread copy -/

structure ThreadTyped (t : ThreadM) : Prop where
  tid : t.threadId ≤ U32MAX
  nframes : t.frames.length ≤ U32MAX
  frames : ∀ f ∈ t.frames, FrameTyped f

theorem check_framesJson (pw : PW) (fs : List FrameM) (i0 : Nat) (js : List Json)
    (h : framesJson pw i0 fs = .ok js) (ht : ∀ f ∈ fs, FrameTyped f) (hn : i0 + fs.length ≤ U32MAX + 1) :
    ∀ x ∈ js, ∀ q, check pw.digits (.obj frameFields) x q = none := by
  obtain ⟨hl, hk⟩ := framesJson_ok pw fs i0 js h
  intro x hx q
  obtain ⟨k, hklt, hkx⟩ := List.getElem_of_mem hx
  have hk' : k < fs.length := by omega
  obtain ⟨j, hj, hok⟩ := hk k fs[k] (by simp [hk'])
  have : js[k]? = some x := by simp [hklt, hkx]
  rw [this] at hj
  cases hj
  exact check_frameJson pw (i0 + k) fs[k] x hok (ht _ (List.getElem_mem hk')) (by omega) q

theorem check_threadJson (pw : PW) (t : ThreadM) (tj : Json) (h : threadJson pw t = .ok tj)
    (ht : ThreadTyped t) (p : String) : check pw.digits (.obj threadFields) tj p = none := by
  simp only [threadJson, obind] at h
  split at h
  · rename_i fs hfs
    cases h
    have hfr := check_arr pw.digits (.obj frameFields) fs (p ++ "." ++ "frames")
      (check_framesJson pw t.frames 0 fs hfs ht.frames (by have := ht.nframes; omega))
    rw [checkFields_mkObj]
    simp [threadFields, checkFields, getKV_insertKV, getKV, check_u32 _ _ _ ht.tid,
      check_u32 _ _ _ ht.nframes, hfr]
  · cases h

theorem insertKV_mem (k : String) (v : Json) (m : List (String × Json)) (x : String × Json)
    (h : x ∈ insertKV k v m) : x = (k, v) ∨ x ∈ m := by
  induction m with
  | nil => simp [insertKV] at h; exact Or.inl h
  | cons a m ih =>
    obtain ⟨ak, av⟩ := a
    simp only [insertKV] at h
    split at h
    · simp at h; rcases h with h | h
      · exact Or.inl h
      · exact Or.inr (by simp [h])
    · split at h
      · simp at h; rcases h with h | h | h
        · exact Or.inl h
        · exact Or.inr (by simp [h])
        · exact Or.inr (by simp [h])
      · simp at h; rcases h with h | h
        · exact Or.inr (by simp [h])
        · rcases ih h with h | h
          · exact Or.inl h
          · exact Or.inr (by simp [h])

theorem foldl_insertKV_mem (lits acc : List (String × Json)) (x : String × Json)
    (h : x ∈ lits.foldl (fun m kv => insertKV kv.1 kv.2 m) acc) : x ∈ lits ∨ x ∈ acc := by
  induction lits generalizing acc with
  | nil => exact Or.inr h
  | cons a lits ih =>
    rcases ih _ h with h | h
    · exact Or.inl (by simp [h])
    · rcases insertKV_mem _ _ _ _ h with h | h
      · exact Or.inl (by simp [h])
      · exact Or.inr h

theorem check_registers (w : Nat) (c : RegCtx) (hc : RegsTyped c) (p : String) :
    check w .regs (registersJson c) p = none := by
  simp only [registersJson, mkObj, check]
  rw [if_pos]
  simp only [List.all_eq_true]
  intro x hx
  rcases foldl_insertKV_mem _ _ _ hx with h | h
  · obtain ⟨r, hr, rfl⟩ := List.mem_map.mp h
    have hr' := (List.mem_filter.mp hr).1
    simp only [isHexJ]
    exact isHexString_hexPad 1 _ _ (hc r hr') (by omega)
  · cases h

theorem checkFields_insert (w : Nat) (fields : List (String × Ty)) (kvs : List (String × Json))
    (p k : String) (v : Json) (hold : checkFields w fields kvs p = none)
    (hnew : ∀ t, (k, t) ∈ fields → check w t v (p ++ "." ++ k) = none) :
    checkFields w fields (insertKV k v kvs) p = none := by
  induction fields with
  | nil => rfl
  | cons a fields ih =>
    obtain ⟨fk, ft⟩ := a
    simp only [checkFields, getKV_insertKV] at hold ⊢
    split at hold
    · cases hold
    · rename_i hhead
      have htail := ih hold (fun t ht => hnew t (by simp [ht]))
      rw [htail]
      by_cases hk : fk = k
      · subst hk
        simp [hnew ft (by simp)]
      · simp only [hk, if_false]
        rw [hhead]

/-! ## the remaining members -/

structure ExcTyped (e : ExcInfo) : Prop where
  address : e.address ≤ U64MAX
  adjNon : ∀ v, e.adjusted = some (.nonCanonical v) → v ≤ U64MAX
  adjNull : ∀ v, e.adjusted = some (.nullOffset v) → v ≤ U64MAX
  mem : ∀ l, e.memAccesses = some l → ∀ a ∈ l, a.address ≤ U64MAX ∧ ∀ n, a.size = some n → n ≤ U32MAX
  ip : ∀ a g, e.ipUpdate = some (.update a g) → a ≤ U64MAX
  flips : ∀ b ∈ e.bitFlips, b.address ≤ U64MAX ∧ b.nearby ≤ U32MAX

theorem check_optHex (pw : PW) (o : Option Nat) (p : String) (h : ∀ n, o = some n → n ≤ U64MAX) :
    check pw.digits .hexA (optJ (fun n => Json.str (hexAddr pw n)) o) p = none := by
  cases o with
  | none => exact check_null _ _ _
  | some n => exact check_hexA pw n p (h n rfl)

theorem check_moduleJson (pw : PW) (ci : List (String × String)) (ss : List (String × Stats))
    (m : ModuleM) (j : Json) (h : moduleJson pw ci ss m = .ok j) (p : String) :
    check pw.digits (.obj moduleFields) j p = none := by
  by_cases hgt : m.base + m.size > U64MAX
  · simp only [moduleJson, obind, checkedAdd, hgt, if_true] at h
    cases h
  · simp only [moduleJson, obind, checkedAdd, hgt, if_false] at h
    cases h
    rw [checkFields_mkObj]
    simp [moduleFields, checkFields, getKV_insertKV, getKV, check_hexA pw m.base _ (by omega),
      check_hexA pw (m.base + m.size) _ (by omega)]

theorem check_unloadedJson (pw : PW) (ci : List (String × String))
    (m : UnloadedM) (j : Json) (h : unloadedJson pw ci m = .ok j) (p : String) :
    check pw.digits (.obj unloadedFields) j p = none := by
  by_cases hgt : m.base + m.size > U64MAX
  · simp only [unloadedJson, obind, checkedAdd, hgt, if_true] at h
    cases h
  · simp only [unloadedJson, obind, checkedAdd, hgt, if_false] at h
    cases h
    rw [checkFields_mkObj]
    simp [unloadedFields, checkFields, getKV_insertKV, getKV, check_hexA pw m.base _ (by omega),
      check_hexA pw (m.base + m.size) _ (by omega)]

theorem check_handleJson (w : Nat) (h : HandleM) (hh : h.handle ≤ U64MAX) (p : String) :
    check w (.obj handleFields) (handleJson h) p = none := by
  simp [handleFields, handleJson, checkFields_mkObj, checkFields, getKV_insertKV, getKV, check_u64 _ _ _ hh]

theorem check_systemInfo (w : Nat) (s : SysInfo) (hos : ∀ v, s.os ≠ .unknown v)
    (hc : s.cpuCount ≤ U32MAX) (hm : ∀ n, s.microcode = some n → n ≤ U64MAX) (p : String) :
    check w (.obj systemInfoFields) (systemInfoJson s) p = none := by
  have hosj : ∀ q, check w osTy (.str s.os.longName) q = none := by
    intro q
    cases ho : s.os with
    | unknown v => exact absurd ho (hos v)
    | _ => simp [check, osTy, osDocumented, Os.longName]
  have hcpu : ∀ q, check w cpuTy (.str s.cpu.name) q = none := by
    intro q; cases s.cpu <;> simp [check, cpuTy, cpuDocumented, cpuUndocumented, Cpu.name]
  have hmc : ∀ q, check w .hexN (optJ (fun n : Nat => Json.str (hexPad 0 n)) s.microcode) q = none := by
    intro q
    cases hmm : s.microcode with
    | none => exact check_null _ _ _
    | some n => exact check_hexN w 0 n q (hm n hmm)
  simp [systemInfoFields, systemInfoJson, checkFields_mkObj, checkFields, getKV_insertKV, getKV, hosj, hcpu, hmc,
    check_u32 _ _ _ hc]

theorem check_lsb (w : Nat) (l : Lsb) (p : String) :
    check w (.obj lsbFields)
      (mkObj [("id", .str l.id), ("release", .str l.release), ("codename", .str l.codename),
              ("description", .str l.description)]) p = none := by
  simp [lsbFields, checkFields_mkObj, checkFields, getKV_insertKV, getKV]

theorem check_macRecord (pw : PW) (r : MacRecord) (p : String)
    (h1 : ∀ n, r.thread = some n → n ≤ U64MAX) (h2 : ∀ n, r.dialogMode = some n → n ≤ U64MAX)
    (h3 : ∀ n, r.abortCause = some n → n ≤ U64MAX) :
    check pw.digits (.obj macRecordFields) (macRecordJson pw r) p = none := by
  simp [macRecordFields, macRecordJson, checkFields_mkObj, checkFields, getKV_insertKV, getKV, check_optHex pw _ _ h1,
    check_optHex pw _ _ h2, check_optHex pw _ _ h3]

theorem check_memAccess (pw : PW) (a : MemAccess) (p : String) (ha : a.address ≤ U64MAX)
    (hs : ∀ n, a.size = some n → n ≤ U32MAX) :
    check pw.digits (.obj memAccessFields) (memAccessJson pw a) p = none := by
  have hty : a.ty ≠ .underivable → ∀ q, check pw.digits accessTy (.str a.ty.lower) q = none := by
    intro hne q
    cases hh : a.ty with
    | underivable => exact absurd hh hne
    | _ => simp [check, accessTy, accessTypeDocumented, AccessType.lower]
  unfold memAccessJson
  by_cases hg : a.guard = true <;> by_cases ht : a.ty = .underivable <;>
    simp [memAccessFields, hg, ht, checkFields_mkObj, checkFields, getKV_insertKV, getKV, check_hexA pw _ _ ha,
      check_optNat_u32 _ _ _ hs, hty]

theorem check_ipUpdate (pw : PW) (u : IpUpdate) (p : String)
    (h : ∀ a g, u = .update a g → a ≤ U64MAX) :
    check pw.digits (.obj ipUpdateFields) (ipUpdateJson pw u) p = none := by
  cases u with
  | noUpdate => exact check_null _ _ _
  | update a g =>
    cases g <;>
      simp [ipUpdateFields, ipUpdateJson, checkFields_mkObj, checkFields, getKV_insertKV, getKV, check_hexA pw _ _ (h a _ rfl)]

theorem check_bitFlip (pw : PW) (b : BitFlip) (p : String) (ha : b.address ≤ U64MAX) (hn : b.nearby ≤ U32MAX) :
    check pw.digits (.obj bitFlipFields) (bitFlipJson pw b) p = none := by
  have hconf : ∀ q, check pw.digits .f32 (optJ Json.num b.confidence) q = none := by
    intro q; cases b.confidence <;> simp [optJ, check]
  simp [bitFlipFields, bitFlipJson, checkFields_mkObj, checkFields, getKV_insertKV, getKV, check_hexA pw _ _ ha,
    check_u32 _ _ _ hn, hconf]

theorem isHexString_hexAddr (pw : PW) (v : Nat) (hv : v ≤ U64MAX) :
    isHexString pw.digits (hexAddr pw v) = true :=
  isHexString_hexPad pw.digits pw.digits v hv (by omega)

/-- `adjusted_address`: `kind` is one of the two documented strings and exactly the member that
    goes with it is present, as a hex string of the platform width -/
theorem check_adjusted (pw : PW) (a : Adjusted) (p : String)
    (h1 : ∀ v, a = .nonCanonical v → v ≤ U64MAX) (h2 : ∀ v, a = .nullOffset v → v ≤ U64MAX) :
    check pw.digits .adjusted (adjustedJson pw a) p = none := by
  cases a with
  | nonCanonical v =>
    simp [adjustedJson, mkObj, check, checkAdjusted, getKV_insertKV, getKV, isAbsent,
      isHexString_hexAddr pw v (h1 v rfl)]
  | nullOffset v =>
    simp [adjustedJson, mkObj, check, checkAdjusted, getKV_insertKV, getKV, isAbsent,
      isHexString_hexAddr pw v (h2 v rfl)]

theorem optJ_some {α : Type} (f : α → Json) (a : α) : optJ f (some a) = f a := rfl
theorem optJ_none {α : Type} (f : α → Json) : optJ f none = .null := rfl

theorem check_obj_unfold (w : Nat) (fields : List (String × Ty)) (kvs : List (String × Json)) (p : String) :
    check w (.obj fields) (.obj kvs) p = checkFields w fields kvs p := by
  simp [check]

theorem check_crashingCopy (w : Nat) (tj c regs : Json) (i : Nat) (fs : List Json)
    (hc : crashingCopy tj regs i = some c)
    (htj : ∀ q, check w (.obj threadFields) tj q = none)
    (hframes : tj.get "frames" = some (.arr fs))
    (hfs : ∀ x ∈ fs, ∀ q, check w (.obj frameFields) x q = none)
    (hregs : ∀ q, check w .regs regs q = none) (hi : i ≤ U32MAX) (p : String) :
    check w (.obj (("threads_index", .u32) :: threadFields)) c p = none := by
  simp only [crashingCopy] at hc
  split at hc
  · rename_i kvs
    split at hc
    · rename_i f0 rest hget
      cases hc
      simp only [Json.get, hget, Option.some.injEq, Json.arr.injEq] at hframes
      subst hframes
      rw [check_obj_unfold]
      have hold : checkFields w threadFields kvs p = none := by
        rw [← check_obj_unfold]; exact htj p
      have hF : ∀ t, ("frames", t) ∈ threadFields →
          check w t (.arr (.obj (insertKV "registers" regs f0) :: rest)) (p ++ "." ++ "frames") = none := by
        intro t ht
        have : t = .arr (.obj frameFields) := by
          simp [threadFields] at ht; exact ht
        subst this
        apply check_arr
        intro x hx q
        rcases List.mem_cons.mp hx with h | h
        · subst h
          rw [check_obj_unfold]
          apply checkFields_insert
          · rw [← check_obj_unfold]; exact hfs _ (by simp) q
          · intro t ht
            have : t = .regs := by simp [frameFields] at ht; exact ht
            subst this
            exact hregs _
        · exact hfs x (by simp [h]) q
      have h1 := checkFields_insert w threadFields kvs p "frames" _ hold hF
      have h2 := checkFields_insert w threadFields _ p "threads_index" (.nat i) h1
        (by intro t ht; simp [threadFields] at ht)
      simp only [checkFields, getKV_insertKV, if_true, check_u32 _ _ _ hi]
      exact h2
    · cases hc
  · cases hc

theorem check_inconsistency (w : Nat) (i : Inconsistency) (p : String) :
    check w inconsistencyTy (.str i.name) p = none := by
  cases i <;> simp [check, inconsistencyTy, inconsistencyDocumented, Inconsistency.name]

theorem check_crashInfo (pw : PW) (s : StateModel) (p : String)
    (he : ∀ e, s.exc = some e → ExcTyped e) (hreq : ∀ n, s.requestingThread = some n → n ≤ U32MAX) :
    check pw.digits (.obj crashInfoFields) (crashInfoJson pw s) p = none := by
  cases hexc : s.exc with
  | none =>
    simp [crashInfoFields, crashInfoJson, hexc, optJ_none, checkFields_mkObj, checkFields, getKV_insertKV, getKV,
      check_null, check_optNat_u32 _ _ _ hreq]
  | some e =>
    have et := he e hexc
    have hadj : ∀ q, check pw.digits .adjusted (optJ (adjustedJson pw) e.adjusted) q = none := by
      intro q
      cases ha : e.adjusted with
      | none => exact check_null _ _ _
      | some a =>
        exact check_adjusted pw a q (fun v hv => et.adjNon v (by rw [ha, hv]))
          (fun v hv => et.adjNull v (by rw [ha, hv]))
    have hmem : ∀ q, check pw.digits (.arr (.obj memAccessFields))
        (optJ (fun l : List MemAccess => .arr (l.map (memAccessJson pw))) e.memAccesses) q = none := by
      intro q
      cases hm : e.memAccesses with
      | none => exact check_null _ _ _
      | some l =>
        apply check_arr
        intro x hx q'
        obtain ⟨a, ha, rfl⟩ := List.mem_map.mp hx
        exact check_memAccess pw a q' (et.mem l hm a ha).1 (et.mem l hm a ha).2
    have hip : ∀ q, check pw.digits (.obj ipUpdateFields) (optJ (ipUpdateJson pw) e.ipUpdate) q = none := by
      intro q
      cases hu : e.ipUpdate with
      | none => exact check_null _ _ _
      | some u => exact check_ipUpdate pw u q (fun a g hag => et.ip a g (by rw [hu, hag]))
    have hflips : ∀ q, check pw.digits (.arr (.obj bitFlipFields))
        (if e.bitFlips = [] then Json.null else .arr (e.bitFlips.map (bitFlipJson pw))) q = none := by
      intro q
      split
      · exact check_null _ _ _
      · apply check_arr
        intro x hx q'
        obtain ⟨b, hb, rfl⟩ := List.mem_map.mp hx
        exact check_bitFlip pw b q' (et.flips b hb).1 (et.flips b hb).2
    have hinc : ∀ q, check pw.digits (.arr inconsistencyTy)
        (.arr (e.inconsistencies.map fun i => .str i.name)) q = none := by
      intro q
      apply check_arr
      intro x hx q'
      obtain ⟨i, _, rfl⟩ := List.mem_map.mp hx
      exact check_inconsistency _ i q'
    simp [crashInfoFields, crashInfoJson, hexc, optJ_some, checkFields_mkObj, checkFields, getKV_insertKV, getKV,
      check_optNat_u32 _ _ _ hreq, check_hexA pw _ _ et.address, hadj, hmem, hip, hflips, hinc]

end MdModel.Json
