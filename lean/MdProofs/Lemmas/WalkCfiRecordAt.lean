/-
  Helper lemmas for C04: `cfiRecordAt` from record-level facts, through C08's completeness of
  range-table lookups (`get_complete`: an entry that intersects no other entry is returned for every
  address inside it).

  * `safeVecP_eq_safeVec`, `getP_complete` — the parser-local table builder (`safeVecP`, no `Option`
    layer) is `safeVec` on `some` ranges, so completeness carries over.
  * `moduleAt_of_isolated` — a module whose range intersects no other module's is found for every
    address inside it.
  * `cfiRecordAt_of_isolated` — … and so is a STACK CFI record whose range intersects no other
    record's: the hypothesis `cfiRecordAt w instr = some rec` of the C04 theorems follows from the
    positions of the module and the record in their lists.
-/
import MdProofs.C08
import MdModel.Walk.Layout
namespace MdModel.Walk
open MdModel MdModel.RangeMap

theorem sortOpt_map_some (xs : List Entry) :
    sortOpt (xs.map fun e => (some e.1, e.2)) = (sortEntries xs).map fun e => (some e.1, e.2) := by
  unfold sortOpt sortEntries
  symm
  exact List.map_mergeSort (fun _ _ _ _ => rfl)

theorem validOnly_map_some (xs : List Entry) : validOnly (xs.map fun e => (some e.1, e.2)) = xs := by
  unfold validOnly
  induction xs with
  | nil => rfl
  | cons e xs ih => simp only [List.map_cons, List.filterMap_cons, Option.map_some, ih]

/-- the parser-local `into_rangemap_safe` is the general one on present ranges -/
theorem safeVecP_eq_safeVec (xs : List Entry) : safeVecP xs = safeVec (xs.map fun e => (some e.1, e.2)) := by
  unfold safeVecP safeVec
  rw [sortOpt_map_some, validOnly_map_some]

theorem fst_mem_of_mem_zipIdx {α : Type} {l : List α} {k : Nat} {x : α × Nat} (h : x ∈ l.zipIdx k) :
    x.1 ∈ l := by
  obtain ⟨a, i⟩ := x
  obtain ⟨_, _, h3⟩ := List.mem_zipIdx h
  rw [h3]
  exact List.getElem_mem _

/-- **C08.4 for the parser-local tables**: an entry whose range intersects no other entry's is
    returned for every address inside it -/
theorem getP_complete (pre post : List Entry) (r : Rng) (v : Val) (a : Nat)
    (hwf : ∀ e ∈ pre ++ (r, v) :: post, WF e)
    (hiso : ∀ e ∈ pre ++ post, r.intersects e.1 = false)
    (ha : r.lo ≤ a ∧ a ≤ r.hi) :
    get (safeVecP (pre ++ (r, v) :: post)) a = some v := by
  rw [safeVecP_eq_safeVec]
  simp only [List.map_append, List.map_cons]
  apply get_complete
  · intro e he r' hr'
    have hex : ∃ e0 ∈ pre ++ (r, v) :: post, e = (some e0.1, e0.2) := by
      simp only [List.mem_append, List.mem_cons, List.mem_map] at he ⊢
      rcases he with ⟨x, hx, rfl⟩ | rfl | ⟨x, hx, rfl⟩
      · exact ⟨x, Or.inl hx, rfl⟩
      · exact ⟨(r, v), Or.inr (Or.inl rfl), rfl⟩
      · exact ⟨x, Or.inr (Or.inr hx), rfl⟩
    obtain ⟨e0, he0, rfl⟩ := hex
    simp only [Option.some.injEq] at hr'
    subst hr'
    exact hwf e0 he0
  · intro e he s hs
    have hex : ∃ e0 ∈ pre ++ post, e = (some e0.1, e0.2) := by
      simp only [List.mem_append, List.mem_map] at he ⊢
      rcases he with ⟨x, hx, rfl⟩ | ⟨x, hx, rfl⟩
      · exact ⟨x, Or.inl hx, rfl⟩
      · exact ⟨x, Or.inr hx, rfl⟩
    obtain ⟨e0, he0, rfl⟩ := hex
    simp only [Option.some.injEq] at hs
    subst hs
    exact hiso e0 he0
  · exact ha

theorem mkRange_spec {b s : Nat} {r : Rng} (h : mkRange b s = some r) :
    r.lo = b ∧ r.hi = b + s - 1 ∧ 0 < s ∧ b + s ≤ U64MAX := by
  unfold mkRange at h
  split at h
  · cases h
  · split at h
    · cases h
    · cases h; exact ⟨rfl, rfl, by omega, by omega⟩

/-- a module whose range intersects no other module's is found for every address inside it -/
theorem moduleAt_of_isolated (pre post : List Module) (m : Module) (r : Rng) (instr : Nat)
    (hr : mkRange m.base m.size = some r)
    (hiso : ∀ m' ∈ pre ++ post, ∀ s, mkRange m'.base m'.size = some s → r.intersects s = false)
    (hin : r.lo ≤ instr ∧ instr ≤ r.hi) :
    moduleAt (modTable (pre ++ m :: post)) instr = some pre.length := by
  unfold moduleAt modTable
  have hz : (pre ++ m :: post).zipIdx.map (fun (x : Module × Nat) => (mkRange x.1.base x.1.size, x.2)) =
      (pre.zipIdx.map fun (x : Module × Nat) => (mkRange x.1.base x.1.size, x.2)) ++
        (some r, pre.length) ::
          ((post.zipIdx (pre.length + 1)).map fun (x : Module × Nat) => (mkRange x.1.base x.1.size, x.2)) := by
    simp [List.zipIdx_append, List.zipIdx_cons, hr]
  rw [hz]
  apply get_complete
  · intro e he s hs
    have hmem : ∃ m' : Module, mkRange m'.base m'.size = some s := by
      rw [← hz] at he
      simp only [List.mem_map] at he
      obtain ⟨x, _, rfl⟩ := he
      exact ⟨x.1, hs⟩
    obtain ⟨m', hm'⟩ := hmem
    have := mkRange_spec hm'
    omega
  · intro e he s hs
    simp only [List.mem_append, List.mem_map] at he
    rcases he with ⟨x, hx, rfl⟩ | ⟨x, hx, rfl⟩
    · exact hiso x.1 (List.mem_append_left _ (fst_mem_of_mem_zipIdx hx)) s hs
    · exact hiso x.1 (List.mem_append_right _ (fst_mem_of_mem_zipIdx hx)) s hs
  · exact hin

/-- a STACK CFI record whose range intersects no other record's is found for every address inside it -/
theorem cfiTable_get_of_isolated (sf : SymFile) (cpre cpost : List CfiRec) (rec : CfiRec) (r : Rng) (addr : Nat)
    (hc : sf.cfis = cpre ++ rec :: cpost) (hr : mkRange rec.addr rec.size = some r)
    (hiso : ∀ c ∈ cpre ++ cpost, ∀ s, mkRange c.addr c.size = some s → r.intersects s = false)
    (hin : r.lo ≤ addr ∧ addr ≤ r.hi) :
    RangeMap.get (cfiTable sf) addr = some cpre.length := by
  unfold cfiTable
  have hz : (sf.cfis.zipIdx.filterMap fun (x : CfiRec × Nat) => (mkRange x.1.addr x.1.size).map fun r => (r, x.2)) =
      (cpre.zipIdx.filterMap fun (x : CfiRec × Nat) => (mkRange x.1.addr x.1.size).map fun r => (r, x.2)) ++
        (r, cpre.length) ::
          ((cpost.zipIdx (cpre.length + 1)).filterMap fun (x : CfiRec × Nat) =>
            (mkRange x.1.addr x.1.size).map fun r => (r, x.2)) := by
    simp [hc, List.zipIdx_append, List.zipIdx_cons, hr]
  rw [hz]
  apply getP_complete
  · intro e he
    rw [← hz] at he
    simp only [List.mem_filterMap, Option.map_eq_some_iff] at he
    obtain ⟨x, _, s, hs, rfl⟩ := he
    have := mkRange_spec hs
    unfold WF
    simp only
    omega
  · intro e he
    simp only [List.mem_append, List.mem_filterMap, Option.map_eq_some_iff] at he
    rcases he with ⟨x, hx, s, hs, rfl⟩ | ⟨x, hx, s, hs, rfl⟩
    · exact hiso x.1 (List.mem_append_left _ (fst_mem_of_mem_zipIdx hx)) s hs
    · exact hiso x.1 (List.mem_append_right _ (fst_mem_of_mem_zipIdx hx)) s hs
  · exact hin

/-- **the hypothesis `cfiRecordAt w instr = some rec` from record-level facts**: module number
    `pre.length` intersects no other module, its symbol file's record number `cpre.length`
    intersects no other record, and the address lies inside the record (relative to the module) -/
theorem cfiRecordAt_of_isolated (w : World) (pre post : List Module) (m : Module) (sf : SymFile)
    (cpre cpost : List CfiRec) (rec : CfiRec) (rm rr : Rng) (instr : Nat)
    (hmods : w.mods = pre ++ m :: post) (hsym : w.syms[pre.length]? = some (some sf))
    (hcfis : sf.cfis = cpre ++ rec :: cpost)
    (hrm : mkRange m.base m.size = some rm) (hrr : mkRange rec.addr rec.size = some rr)
    (hmiso : ∀ m' ∈ pre ++ post, ∀ s, mkRange m'.base m'.size = some s → rm.intersects s = false)
    (hriso : ∀ c ∈ cpre ++ cpost, ∀ s, mkRange c.addr c.size = some s → rr.intersects s = false)
    (hin : m.base + rec.addr ≤ instr ∧ instr < m.base + rec.addr + rec.size)
    (hfit : rec.addr + rec.size ≤ m.size) :
    cfiRecordAt w instr = some rec := by
  have hm := mkRange_spec hrm
  have hr := mkRange_spec hrr
  have hmod := moduleAt_of_isolated pre post m rm instr hrm hmiso (by omega)
  have hget := cfiTable_get_of_isolated sf cpre cpost rec rr (instr - m.base) hcfis hrr hriso (by omega)
  have hmi : w.mods[pre.length]? = some m := by simp [hmods]
  have hsj : (w.syms[pre.length]?).join = some sf := by rw [hsym]; rfl
  have hci : sf.cfis[cpre.length]? = some rec := by simp [hcfis]
  rw [← hmods] at hmod
  unfold cfiRecordAt
  simp only [hmod, hmi, hsj, if_neg (show ¬ instr < m.base by omega), hget, hci]

end MdModel.Walk
