/-
  Helper lemmas for C19 (bit-flip candidates). Property theorems are in `MdProofs/C19.lean`.
-/
import MdModel.BitFlip
import MdProofs.C08
namespace MdModel.BitFlip
open MdModel

/-! ## bit ranges -/

theorem BitRange.mem_bits {R : BitRange} {i : Nat} : i ∈ R.bits ↔ R.lo ≤ i ∧ i < R.hi := by
  unfold BitRange.bits
  rw [List.mem_range'_1]
  cases R <;> simp [BitRange.lo, BitRange.hi]

theorem BitRange.hi_le_64 (R : BitRange) : R.hi ≤ 64 := by
  cases R <;> simp [BitRange.hi]

/-! ## one flipped bit -/

/-- bit `j` of `a ^ (1 << i)` is bit `j` of `a`, inverted iff `j = i` -/
theorem flip_testBit (a i j : Nat) :
    (a ^^^ (1 <<< i)).testBit j = (a.testBit j ^^ decide (i = j)) := by
  rw [Nat.testBit_xor, Nat.one_shiftLeft, Nat.testBit_two_pow]

theorem flip_lt {a i : Nat} (ha : a < 2 ^ 64) (hi : i < 64) : a ^^^ (1 <<< i) < 2 ^ 64 := by
  rw [Nat.one_shiftLeft]
  exact Nat.xor_lt_two_pow ha (Nat.pow_lt_pow_right (by omega) hi)

theorem flip_ne (a i : Nat) : a ^^^ (1 <<< i) ≠ a := by
  intro h
  have := flip_testBit a i i
  rw [h] at this
  cases hb : a.testBit i <;> simp [hb] at this

theorem flip_flip (a i : Nat) : (a ^^^ (1 <<< i)) ^^^ (1 <<< i) = a := by
  rw [Nat.xor_assoc, Nat.xor_self, Nat.xor_zero]

/-! ## `try_bit_flips` membership -/

theorem mem_candidatesAt {a : Nat} {src : Option String} {R : BitRange} {ctx : Option Ctx}
    {look : Nat → Option Perm} {op : MemOp} {i : Nat} {r : Flip}
    (h : r ∈ candidatesAt a src R ctx look op i) :
    r = mkFlip a src R ctx (a ^^^ (1 <<< i)) ∧
      (a ^^^ (1 <<< i) = 0 ∨ accessible look op (a ^^^ (1 <<< i)) = true) := by
  unfold candidatesAt at h
  simp only [List.mem_append] at h
  rcases h with h | h
  · split at h
    · rename_i h0
      simp at h
      exact ⟨h, Or.inl h0⟩
    · cases h
  · split at h
    · rename_i hacc
      simp at h
      exact ⟨h, Or.inr hacc⟩
    · cases h

theorem mem_tryBitFlips {a : Nat} {src : Option String} {R : BitRange} {ctx : Option Ctx}
    {look : Nat → Option Perm} {op : MemOp} {r : Flip}
    (h : r ∈ tryBitFlips a src R ctx look op) :
    accessible look op a = false ∧ ∃ i ∈ R.bits, r ∈ candidatesAt a src R ctx look op i := by
  unfold tryBitFlips at h
  split at h
  · cases h
  · rename_i hacc
    refine ⟨by simpa using hacc, ?_⟩
    simpa [List.mem_flatMap] using h

/-- completeness of the loop: every permitted mapped neighbour in range is reported -/
theorem mem_tryBitFlips_of {a : Nat} {src : Option String} {R : BitRange} {ctx : Option Ctx}
    {look : Nat → Option Perm} {op : MemOp} {i : Nat}
    (hacc : accessible look op a = false) (hi : i ∈ R.bits)
    (h : a ^^^ (1 <<< i) = 0 ∨ accessible look op (a ^^^ (1 <<< i)) = true) :
    mkFlip a src R ctx (a ^^^ (1 <<< i)) ∈ tryBitFlips a src R ctx look op := by
  unfold tryBitFlips
  simp only [hacc, Bool.false_eq_true, if_false, List.mem_flatMap]
  refine ⟨i, hi, ?_⟩
  unfold candidatesAt
  simp only [List.mem_append]
  rcases h with h | h
  · left; simp [h]
  · right; simp [h]

theorem accessible_iff {look : Nat → Option Perm} {op : MemOp} {a : Nat} :
    accessible look op a = true ↔ ∃ m, look a = some m ∧ op.possiblyAllowed m = true := by
  unfold accessible
  cases look a <;> simp

/-! ## rationals in the unit interval -/

namespace Q

theorem unit_one : Q.one.Unit := by unfold Q.Unit Q.one; decide

theorem unit_mul {a b : Q} (ha : a.Unit) (hb : b.Unit) : (Q.mul a b).Unit := by
  obtain ⟨ha0, ha1, ha2⟩ := ha
  obtain ⟨hb0, hb1, hb2⟩ := hb
  refine ⟨Nat.mul_pos ha0 hb0, Int.mul_nonneg ha1 hb1, ?_⟩
  show a.num * b.num ≤ ((a.den * b.den : Nat) : Int)
  rw [Int.natCast_mul]
  exact Int.mul_le_mul ha2 hb2 hb1 (by omega)

theorem unit_oneMinus {a : Q} (ha : a.Unit) : (Q.oneMinus a).Unit := by
  obtain ⟨ha0, ha1, ha2⟩ := ha
  refine ⟨ha0, ?_, ?_⟩
  · show 0 ≤ (a.den : Int) - a.num
    omega
  · show (a.den : Int) - a.num ≤ (a.den : Int)
    omega

end Q

theorem foldl_unit (vs : List Q) (acc : Q) (hacc : acc.Unit) (hv : ∀ v ∈ vs, v.Unit) :
    (vs.foldl (fun acc v => Q.mul acc (Q.oneMinus v)) acc).Unit := by
  induction vs generalizing acc with
  | nil => exact hacc
  | cons v rest ih =>
    simp only [List.foldl_cons]
    apply ih
    · exact Q.unit_mul hacc (Q.unit_oneMinus (hv v List.mem_cons_self))
    · intro w hw; exact hv w (List.mem_cons_of_mem _ hw)

theorem combine_unit (vs : List Q) (hv : ∀ v ∈ vs, v.Unit) : (combine vs).Unit :=
  Q.unit_oneMinus (foldl_unit vs Q.one Q.unit_one hv)

theorem unit_cMEDIUM : cMEDIUM.Unit := by unfold Q.Unit cMEDIUM; decide
theorem unit_cLOW : cLOW.Unit := by unfold Q.Unit cLOW; decide
theorem unit_cHIGH : cHIGH.Unit := by unfold Q.Unit cHIGH; decide

theorem unit_cNEARBY (k : Nat) : (cNEARBY.getD k cMEDIUM).Unit := by
  match k with
  | 0 => unfold Q.Unit cNEARBY; decide
  | 1 => unfold Q.Unit cNEARBY; decide
  | 2 => unfold Q.Unit cNEARBY; decide
  | 3 => unfold Q.Unit cNEARBY; decide
  | k + 4 =>
    have : cNEARBY.getD (k + 4) cMEDIUM = cMEDIUM := by simp [cNEARBY, List.getD]
    rw [this]; exact unit_cMEDIUM

theorem confValues_unit (d : Details) : ∀ v ∈ confValues d, v.Unit := by
  intro v hv
  unfold confValues at hv
  simp only [List.mem_append, List.mem_singleton] at hv
  rcases hv with ((hv | hv) | hv) | hv
  · subst hv; exact unit_cLOW
  · split at hv
    · simp at hv; subst hv; exact unit_cHIGH
    · cases hv
  · split at hv
    · simp at hv; subst hv
      split
      · exact Q.unit_mul unit_cMEDIUM unit_cMEDIUM
      · exact unit_cMEDIUM
    · cases hv
  · split at hv
    · simp only [List.mem_singleton] at hv; subst hv; exact unit_cNEARBY _
    · cases hv

/-! ## the memory map: building never fails, lookups are sound (C08) -/

theorem tableInput_wf (k : MapKind) (rs : List Region) (hb : ∀ r ∈ rs, r.b ≤ U64MAX) :
    RangeMap.InputWF (tableInput k rs) := by
  intro e he rg hrg
  unfold tableInput at he
  simp only [List.mem_map] at he
  obtain ⟨⟨reg, i⟩, hmem, rfl⟩ := he
  have hreg : reg ∈ rs := by
    have := List.mem_zipIdx_iff_getElem?.mp hmem
    exact List.mem_of_getElem? this
  simp only at hrg
  unfold Region.range at hrg
  cases k with
  | info =>
    have := RangeMap.mkRange_wf hrg
    exact ⟨this.1, this.2.1⟩
  | maps => exact RangeMap.mkRangeMap_wf (hb reg hreg) hrg

theorem buildTable_ok (k : MapKind) (rs : List Region) (hb : ∀ r ∈ rs, r.b ≤ U64MAX) :
    buildTable k rs = .ok (RangeMap.safeVec (tableInput k rs)) :=
  RangeMap.safe_ok _ (tableInput_wf k rs hb)

/-- whatever `memory_info_at_address(a)` answers is the permission of an input region whose own
    `memory_range()` contains `a` -/
theorem lookupIn_sound (k : MapKind) (rs : List Region) (a : Nat) (p : Perm)
    (h : lookupIn rs (RangeMap.safeVec (tableInput k rs)) a = some p) :
    ∃ reg ∈ rs, reg.perm = p ∧ ∃ rg, reg.range k = some rg ∧ rg.lo ≤ a ∧ a ≤ rg.hi := by
  unfold lookupIn at h
  split at h
  · cases h
  · rename_i i hget
    obtain ⟨rg, hmem, h1, h2⟩ := RangeMap.get_sound _ a i hget
    unfold tableInput at hmem
    simp only [List.mem_map] at hmem
    obtain ⟨⟨reg, j⟩, hzip, heq⟩ := hmem
    simp only [Prod.mk.injEq] at heq
    obtain ⟨hr, hj⟩ := heq
    subst hj
    have hget? : rs[j]? = some reg := List.mem_zipIdx_iff_getElem?.mp hzip
    rw [hget?] at h
    simp only [Option.map_some, Option.some.injEq] at h
    exact ⟨reg, List.mem_of_getElem? hget?, h, rg, hr, h1, h2⟩

/-! ## the `BTreeSet<&str>` model -/

theorem mem_insertSorted {s x : String} {l : List String} (h : x ∈ insertSorted s l) :
    x = s ∨ x ∈ l := by
  induction l with
  | nil => simp [insertSorted] at h; exact Or.inl h
  | cons t rest ih =>
    simp only [insertSorted] at h
    split at h
    · rcases List.mem_cons.mp h with h | h
      · exact Or.inl h
      · exact Or.inr h
    · split at h
      · exact Or.inr h
      · rcases List.mem_cons.mp h with h | h
        · exact Or.inr (h ▸ List.mem_cons_self)
        · rcases ih h with h | h
          · exact Or.inl h
          · exact Or.inr (List.mem_cons_of_mem _ h)

theorem mem_foldl_insertSorted {x : String} (l : List String) (acc : List String)
    (h : x ∈ l.foldl (fun acc s => insertSorted s acc) acc) : x ∈ acc ∨ x ∈ l := by
  induction l generalizing acc with
  | nil => exact Or.inl h
  | cons s rest ih =>
    simp only [List.foldl_cons] at h
    rcases ih _ h with h | h
    · rcases mem_insertSorted h with h | h
      · exact Or.inr (h ▸ List.mem_cons_self)
      · exact Or.inl h
    · exact Or.inr (List.mem_cons_of_mem _ h)

theorem mem_btreeSet {x : String} {l : List String} (h : x ∈ btreeSet l) : x ∈ l := by
  rcases mem_foldl_insertSorted l [] h with h | h
  · cases h
  · exact h

theorem mem_insertSorted_self (s : String) (l : List String) : s ∈ insertSorted s l := by
  induction l with
  | nil => simp [insertSorted]
  | cons t rest ih =>
    simp only [insertSorted]
    split
    · exact List.mem_cons_self
    · split
      · rename_i h; rw [eq_of_beq h]; exact List.mem_cons_self
      · exact List.mem_cons_of_mem _ ih

theorem mem_insertSorted_of_mem {x s : String} {l : List String} (h : x ∈ l) :
    x ∈ insertSorted s l := by
  induction l with
  | nil => cases h
  | cons t rest ih =>
    simp only [insertSorted]
    split
    · exact List.mem_cons_of_mem _ h
    · split
      · exact h
      · rcases List.mem_cons.mp h with h | h
        · exact h ▸ List.mem_cons_self
        · exact List.mem_cons_of_mem _ (ih h)

theorem insertSorted_sorted (s : String) (l : List String) (h : l.Pairwise (· < ·)) :
    (insertSorted s l).Pairwise (· < ·) := by
  induction l with
  | nil => simp [insertSorted]
  | cons t rest ih =>
    have ht : ∀ {x}, x ∈ rest → t < x := fun hx => List.rel_of_pairwise_cons h hx
    have hrest := List.Pairwise.of_cons h
    simp only [insertSorted]
    split
    · rename_i hst
      refine List.Pairwise.cons ?_ h
      intro x hx
      rcases List.mem_cons.mp hx with rfl | hx
      · exact hst
      · exact String.lt_trans hst (ht hx)
    · split
      · exact h
      · rename_i hlt hne
        refine List.Pairwise.cons ?_ (ih hrest)
        intro x hx
        rcases mem_insertSorted hx with rfl | hx
        · apply String.not_le.mp
          intro hle
          have := String.le_antisymm hle (String.not_lt.mp hlt)
          exact hne (by simp [this])
        · exact ht hx

end MdModel.BitFlip
