/-
  Bridge C11 ↔ walker model, part 4: `fill_symbol` itself — which record the two models select.
-/
import MdProofs.Lemmas.SymBridge
namespace MdModel.SymBridge
open MdModel MdModel.RangeMap

/-- the walker model's answer in C11's vocabulary: `set_function(name, base, parameter_size)` -/
def projW (g : Walk.FuncInfo) : Symbolize.Name × Nat × Nat := (nm g.name, g.base, g.psize)

theorem funcAt_none_get {r : Symbolize.Recs} {csf : Symbolize.SymFile} (hb : Symbolize.build r = .ok csf)
    {a : Nat} (h : Symbolize.funcAt csf.funcs csf.ftab a = none) : get csf.ftab a = none := by
  cases hg : get csf.ftab a with
  | none => rfl
  | some v =>
    obtain ⟨e, he, _, hv⟩ := get_sound_mem _ a v hg
    obtain ⟨f, _, _, _, _, hf⟩ := Symbolize.ftab_entry_is_record hb he
    unfold Symbolize.funcAt at h
    rw [hg] at h
    simp only [Option.bind_some, ← hv, hf] at h
    cases h

/-- **selection**: the two `fill_symbol`s pick the same record. Either both find a FUNC through
    their function tables (the same address, size, parameter size and name), and C11 reports it
    with `paramSize`; or both take the PUBLIC path (or are below the module base) and then agree
    completely. -/
theorem fill_core {sf : Walk.SymFile} {r : Symbolize.Recs} (hrel : FileRel sf r)
    {csf : Symbolize.SymFile} (hb : Symbolize.build r = .ok csf) {base instr : Nat}
    {fr : Symbolize.Frame} (h : Symbolize.fillSymbol csf base instr = .ok fr) :
    (∃ g w, base ≤ instr ∧ Symbolize.funcAt csf.funcs csf.ftab (instr - base) = some g ∧
        (get (Walk.funcTable sf) (instr - base)).isSome = true ∧
        Walk.fillSymbol sf (Walk.funcTable sf) base instr =
          some { name := w.name, base := w.addr + base, psize := w.psize } ∧
        (g.addr, g.size, g.psize, g.name) = wcore w ∧
        fr.fn = some (g.name, g.addr + base, Symbolize.paramSize csf (instr - base) g)) ∨
    ((instr < base ∨ get (Walk.funcTable sf) (instr - base) = none) ∧
        (Walk.fillSymbol sf (Walk.funcTable sf) base instr).map projW = fr.fn) := by
  by_cases hlt : instr < base
  · right
    refine ⟨.inl hlt, ?_⟩
    rw [Symbolize.fillSymbol_below hlt] at h
    cases h
    unfold Walk.fillSymbol
    rw [if_pos hlt]
    rfl
  · have hge : base ≤ instr := by omega
    have B := Symbolize.build_built hb
    obtain ⟨t1, t2, t3⟩ := ftab_sim hrel (instr - base)
    rw [← B.funcs, ← B.ftab] at t1 t2 t3
    cases hf : Symbolize.funcAt csf.funcs csf.ftab (instr - base) with
    | some g =>
      left
      obtain ⟨i, w, hw, hget, hcore⟩ := t1 g hf
      obtain ⟨_, hc⟩ := Symbolize.fillSymbol_func hge hf h
      refine ⟨g, w, hge, rfl, by rw [hget]; rfl, ?_, hcore, hc.fn_eq⟩
      unfold Walk.fillSymbol
      rw [if_neg hlt]
      simp only [hget, hw]
    | none =>
      right
      have hgn := t2 (funcAt_none_get hb hf)
      refine ⟨.inr hgn, ?_⟩
      have hnear := nearest_sim sf.pubs (instr - base)
      have hcut := fun p => pubTruncated_iff sf (instr - base) p hgn
      -- entries with the same starts in both tables
      have hlos : ∀ (P : Rng → Prop), (∃ e ∈ csf.ftab, P e.1) ↔ (∃ e ∈ Walk.funcTable sf, P e.1) := by
        intro P
        constructor
        · rintro ⟨e, he, hp⟩
          have : e.1 ∈ csf.ftab.map (·.1) := List.mem_map_of_mem he
          rw [t3] at this
          obtain ⟨e', he', heq⟩ := List.mem_map.mp this
          exact ⟨e', he', by rw [heq]; exact hp⟩
        · rintro ⟨e, he, hp⟩
          have : e.1 ∈ (Walk.funcTable sf).map (·.1) := List.mem_map_of_mem he
          rw [← t3] at this
          obtain ⟨e', he', heq⟩ := List.mem_map.mp this
          exact ⟨e', he', by rw [heq]; exact hp⟩
      unfold Walk.fillSymbol
      rw [if_neg hlt]
      simp only [hgn]
      rcases Symbolize.public_rule hb hge h hf with ⟨p, hnp, hfree, rfl⟩ | ⟨rfl, hnone | ⟨p, hnp, hcutc⟩⟩
      · -- a PUBLIC is reported
        have hc : Symbolize.findNearestPublic csf.pubs (instr - base) = some p := by
          rw [B.pubs]
          obtain ⟨c1, c2⟩ := Symbolize.findNearestPublic_spec r.pubs (instr - base)
          cases hq : Symbolize.findNearestPublic (r.pubs.mergeSort Symbolize.pubLe) (instr - base) with
          | none => have := c2 hq p hnp.1; have := hnp.2.1; omega
          | some q =>
            have hq' := c1 q hq
            have k1 := hq'.2.2 p hnp.1 hnp.2.1
            have k2 := hnp.2.2 q hq'.1 hq'.2.1
            rw [Symbolize.pubLe_antisymm _ _ k1 k2]
        rw [B.pubs, hrel.pubs, hnear] at hc
        cases hw : Walk.nearestPublic sf.pubs (instr - base) with
        | none => rw [hw] at hc; cases hc
        | some pw =>
          rw [hw] at hc
          simp only [Option.map_some, Option.some.injEq] at hc
          subst hc
          have hnt : Walk.pubTruncated sf (Walk.funcTable sf) (instr - base) pw = false := by
            cases ht : Walk.pubTruncated sf (Walk.funcTable sf) (instr - base) pw with
            | false => rfl
            | true =>
              obtain ⟨e, he, h1, h2⟩ := (hcut pw).mp ht
              obtain ⟨e', he', h1', h2'⟩ :=
                (hlos fun rg => rg.lo ≤ instr - base ∧ pw.addr ≤ rg.lo).mpr ⟨e, he, h1, h2⟩
              have := hfree e' he' h1'
              simp only [pubOf] at this
              omega
          simp only [hnt]
          rfl
      · -- no PUBLIC at or below the address
        cases hw : Walk.nearestPublic sf.pubs (instr - base) with
        | none => rfl
        | some pw =>
          obtain ⟨hm, ha⟩ := Walk.nearestPublic_spec _ _ _ hw
          have := hnone (pubOf pw) (by rw [hrel.pubs]; exact List.mem_map_of_mem hm)
          simp only [pubOf] at this
          omega
      · -- the nearest PUBLIC is cut off
        obtain ⟨e, he, h1, h2⟩ := hcutc
        have hc : (Walk.nearestPublic sf.pubs (instr - base)).map pubOf = some p := by
          rw [← hnear, ← hrel.pubs]
          obtain ⟨c1, c2⟩ := Symbolize.findNearestPublic_spec r.pubs (instr - base)
          cases hq : Symbolize.findNearestPublic (r.pubs.mergeSort Symbolize.pubLe) (instr - base) with
          | none => have := c2 hq p hnp.1; have := hnp.2.1; omega
          | some q =>
            have hq' := c1 q hq
            have k1 := hq'.2.2 p hnp.1 hnp.2.1
            have k2 := hnp.2.2 q hq'.1 hq'.2.1
            rw [Symbolize.pubLe_antisymm _ _ k1 k2]
        cases hw : Walk.nearestPublic sf.pubs (instr - base) with
        | none => rfl
        | some pw =>
          rw [hw] at hc
          simp only [Option.map_some, Option.some.injEq] at hc
          subst hc
          obtain ⟨e', he', h1', h2'⟩ :=
            (hlos fun rg => rg.lo ≤ instr - base ∧ pw.addr ≤ rg.lo).mp ⟨e, he, h1, h2⟩
          have ht := (hcut pw).mpr ⟨e', he', h1', h2'⟩
          simp only [ht]
          rfl

end MdModel.SymBridge
