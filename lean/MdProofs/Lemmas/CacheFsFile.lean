/-
  Helper lemmas about `MdModel.CacheFs.File` — the opaque download path
  `locate_file` → `fetch_lookup`: the local invariant of a call, and what one step can do to the cache.
-/
import MdModel.CacheFs
import MdProofs.Lemmas.CacheFs
namespace MdModel.CacheFs.File

/-- Local invariant of a call: the server being talked to is one of the configured ones, and the
    live temp file holds exactly the chunks received so far (every write succeeded, or the fetch
    would have ended). -/
def PhaseInv (req : Req) : Phase → Prop
  | .awaitStatus u rest => ∃ pre, req.urls = pre ++ u :: rest
  | .streaming u rest temp rx => (∃ pre, req.urls = pre ++ u :: rest) ∧ temp = bodyOf rx
  | _ => True

theorem nextUrl_inv (req : Req) (rest : List Url) (h : ∃ pre, req.urls = pre ++ rest) :
    PhaseInv req (nextUrl rest) := by
  cases rest with
  | nil => simp [nextUrl, PhaseInv]
  | cons u r => simpa [nextUrl, PhaseInv] using h

theorem step_done (c : Cache) (req : Req) (r : FResult) (e : Ev) : step c req (.done r) e = (c, .done r) := by
  cases e <;> rfl

theorem step_dropped (c : Cache) (req : Req) (e : Ev) : step c req .dropped e = (c, .dropped) := by
  cases e <;> rfl

theorem runTask_done (c : Cache) (req : Req) (r : FResult) (es : List Ev) :
    runTask c req (.done r) es = (c, .done r) := by
  induction es with
  | nil => rfl
  | cons e es ih => simp [runTask, step_done, ih]

theorem runTask_dropped (c : Cache) (req : Req) (es : List Ev) :
    runTask c req .dropped es = (c, .dropped) := by
  induction es with
  | nil => rfl
  | cons e es ih => simp [runTask, step_dropped, ih]

theorem step_inv (c : Cache) (req : Req) (ph : Phase) (e : Ev) (h : PhaseInv req ph) :
    PhaseInv req (step c req ph e).2 := by
  cases ph with
  | start =>
    cases e with
    | lookup =>
      simp only [step]
      cases lookupLocal c req with
      | some b => trivial
      | none => exact nextUrl_inv req req.urls ⟨[], rfl⟩
    | drop => trivial
    | status _ _ => trivial
    | chunk _ _ => trivial
    | eof _ => trivial
    | netError => trivial
  | awaitStatus u rest =>
    obtain ⟨pre, hpre⟩ := h
    cases e with
    | lookup => exact ⟨pre, hpre⟩
    | chunk _ _ => exact ⟨pre, hpre⟩
    | eof _ => exact ⟨pre, hpre⟩
    | drop => trivial
    | netError => exact nextUrl_inv req rest (suffix_tail hpre)
    | status code createOk =>
      simp only [step]
      cases isErrorStatus code with
      | true => exact nextUrl_inv req rest (suffix_tail hpre)
      | false =>
        cases createOk with
        | true => exact ⟨⟨pre, hpre⟩, rfl⟩
        | false => exact nextUrl_inv req rest (suffix_tail hpre)
  | streaming u rest temp rx =>
    obtain ⟨⟨pre, hpre⟩, htemp⟩ := h
    cases e with
    | lookup => exact ⟨⟨pre, hpre⟩, htemp⟩
    | status _ _ => exact ⟨⟨pre, hpre⟩, htemp⟩
    | chunk b w =>
      simp only [step]
      cases w with
      | true => exact ⟨⟨pre, hpre⟩, by simp [bodyOf, htemp]⟩
      | false => exact nextUrl_inv req rest (suffix_tail hpre)
    | eof io =>
      simp only [step]
      cases c req.path with
      | some n => exact nextUrl_inv req rest (suffix_tail hpre)
      | none =>
        simp only []
        cases io.persistOk with
        | true => trivial
        | false => exact nextUrl_inv req rest (suffix_tail hpre)
    | netError => exact nextUrl_inv req rest (suffix_tail hpre)
    | drop => trivial
  | done r => rw [step_done]; exact h
  | dropped => rw [step_dropped]; exact h

theorem runTask_inv (c : Cache) (req : Req) (ph : Phase) (es : List Ev) (h : PhaseInv req ph) :
    PhaseInv req (runTask c req ph es).2 := by
  induction es generalizing c ph with
  | nil => exact h
  | cons e es ih => exact ih _ _ (step_inv c req ph e h)

/-- **the only step that touches the cache**: the end of a response in the streaming phase, with
    the name free and `persist_noclobber` succeeding; the new entry is exactly the chunks received
    since the response head, and the call ends as `fetched`. -/
theorem step_cache (c : Cache) (req : Req) (ph : Phase) (e : Ev) (h : PhaseInv req ph) :
    (step c req ph e).1 = c ∨
    ∃ u rest rx io, ph = .streaming u rest (bodyOf rx) rx ∧ e = .eof io ∧ u ∈ req.urls ∧
      c req.path = none ∧
      (step c req ph e).2 = .done (.fetched rx u) ∧
      (step c req ph e).1 = c.set req.path (some (.file (bodyOf rx))) := by
  cases ph with
  | start =>
    left
    cases e with
    | lookup => simp only [step]; cases lookupLocal c req <;> rfl
    | drop => rfl
    | status _ _ => rfl
    | chunk _ _ => rfl
    | eof _ => rfl
    | netError => rfl
  | awaitStatus u rest =>
    left
    cases e with
    | status code ok => simp only [step]; cases isErrorStatus code <;> cases ok <;> rfl
    | lookup => rfl
    | drop => rfl
    | chunk _ _ => rfl
    | eof _ => rfl
    | netError => rfl
  | streaming u rest temp rx =>
    obtain ⟨⟨pre, hpre⟩, htemp⟩ := h
    cases e with
    | lookup => left; rfl
    | status _ _ => left; rfl
    | netError => left; rfl
    | drop => left; rfl
    | chunk b w => left; simp only [step]; cases w <;> rfl
    | eof io =>
      cases hc : c req.path with
      | some n => left; simp [step, hc]
      | none =>
        cases hp : io.persistOk with
        | false => left; simp [step, hc, hp]
        | true =>
          right
          subst htemp
          refine ⟨u, rest, rx, io, rfl, rfl, by simp [hpre], rfl, ?_, ?_⟩
          · simp [step, hc, hp]
          · simp [step, hc, hp]
  | done r => left; rw [step_done]
  | dropped => left; rw [step_dropped]

/-- a name that is taken stays as it is: `fetch_lookup` never removes or replaces anything -/
theorem step_keeps (c : Cache) (req : Req) (ph : Phase) (e : Ev) (h : PhaseInv req ph) (p : Path) (n : Node)
    (hp : c p = some n) : (step c req ph e).1 p = some n := by
  rcases step_cache c req ph e h with hc | ⟨u, rest, rx, io, _, _, _, hfree, _, hset⟩
  · rw [hc]; exact hp
  · rw [hset]
    unfold Cache.set
    by_cases hq : p = req.path
    · subst hq; rw [hfree] at hp; cases hp
    · simp [hq, hp]

end MdModel.CacheFs.File
