/-
  Helper lemmas for C04, chains whose technique changes from frame to frame:

  * `walkLoop_chain_generic` — the induction on the chain (any depth), for an arbitrary per-frame
    state, link predicate and expected frame: whenever one `get_caller_frame` on a linked frame
    yields the expected frame, the expected frame is again in the invariant, and the end predicate
    stops the walk, `walk_stack`'s loop returns exactly the chain.
  * its instance for ARM64 (both layouts) stacks that mix frame-pointer records and scanned frames
    (`MixLink`, `step_mix_arm64`, `step_mix_end_arm64`).
-/
import MdProofs.Lemmas.WalkScanChain
namespace MdModel.Walk
open MdModel

/-- The chain induction, generic in the per-frame state `σ`. -/
theorem walkLoop_chain_generic {σ : Type} {env : Env} {mem : Mem}
    (View : Frame → σ → Prop) (link : σ → Exp → Bool) (endp : σ → Bool) (spOf : σ → Nat)
    (frameOf : σ → Exp → Frame) (next : σ → Exp → σ)
    (hsp : ∀ f st, View f st → f.ctx.sp = spOf st)
    (hsym : ∀ f st, View f st → View (symbolise env f) st)
    (hstep : ∀ f g st e, View f st → link st e = true → step env mem f g = some (frameOf st e))
    (hnext : ∀ st e, link st e = true → View (frameOf st e) (next st e))
    (hend : ∀ f g st, View f st → endp st = true → step env mem f g = none) :
    ∀ (chain : List Exp) (n : Nat) (f : Frame) (g : Option Frame) (st : σ),
      View f st →
      (chain.foldr (fun e (k : σ → Bool) => fun st => mem.inRange (spOf st) && link st e && k (next st e))
        (fun st => !mem.inRange (spOf st) || endp st)) st = true →
      need mem f ≤ n →
      walkLoop env mem n f g =
        symbolise env f ::
          (chain.foldr (fun e (k : σ → List Frame) => fun st => symbolise env (frameOf st e) :: k (next st e))
            (fun _ => [])) st := by
  intro chain
  induction chain with
  | nil =>
    intro n f g st hv hp hn
    cases n with
    | zero => have := need_pos mem f; omega
    | succ n =>
      simp only [walkLoop, List.foldr_nil]
      split
      · rfl
      · rename_i hin
        simp only [symbolise_ctx, Bool.not_eq_true] at hin
        simp only [List.foldr_nil, Bool.or_eq_true, Bool.not_eq_true'] at hp
        have he : endp st = true := by
          rcases hp with hp | hp
          · rw [← hsp f st hv] at hp; rw [hp] at hin; cases hin
          · exact hp
        rw [hend (symbolise env f) g st (hsym f st hv) he]
  | cons e rest ih =>
    intro n f g st hv hp hn
    cases n with
    | zero => have := need_pos mem f; omega
    | succ n =>
      simp only [List.foldr_cons, Bool.and_eq_true] at hp
      obtain ⟨⟨hin, hl⟩, hrest⟩ := hp
      have hst := hstep (symbolise env f) g st e (hsym f st hv) hl
      have hin' : mem.inRange (symbolise env f).ctx.sp = true := by
        simp only [symbolise_ctx, hsp f st hv, hin]
      simp only [walkLoop, hin', Bool.not_true, Bool.false_eq_true, ↓reduceIte, hst, List.foldr_cons]
      have hneed := need_step hin' (step_link hst)
      simp only [need_symbolise] at hneed
      have := ih n (frameOf st e) (some (symbolise env f)) (next st e) (hnext st e hl) hrest (by omega)
      rw [this]

/-! ### ARM64: frame-pointer records and scanned frames in one stack -/

/-- per-frame state: stack pointer, the frame pointer if it is valid, "is the context frame" -/
structure MixSt where
  sp : Nat
  fp : Option Nat
  first : Bool

/-- the frame is found by the frame pointer (`e.tech = "fp"`: the callee's frame pointer is valid
    and `linkFp` holds of the record it points to) or by scanning (`linkScan`; the callee's frame
    pointer is not valid, or it is 0) -/
def mixLink (env : Env) (a : Arch) (mem : Mem) (st : MixSt) (e : Exp) : Bool :=
  if e.tech = "fp" then
    match st.fp with
    | some f => linkFp a env.os env.mask mem st.sp f e
    | none => false
  else
    (st.fp == none || st.fp == some 0) && linkScan env a mem st.sp st.first e

def mixFrame (a : Arch) (_st : MixSt) (e : Exp) : Frame :=
  if e.tech = "fp" then fpFrame a e else scanFrame a e

def mixNext (st : MixSt) (e : Exp) : MixSt :=
  if e.tech = "fp" then { sp := e.sp, fp := some (e.fp.getD 0), first := false }
  else { sp := e.sp, fp := none, first := false }

/-- the generated end: a dead frame pointer and zero words, or the record `(0, 0)` and zero words -/
def mixEnd (env : Env) (a : Arch) (mem : Mem) (st : MixSt) : Bool :=
  match st.fp with
  | none => zerosFrom mem a.ptr st.sp
  | some f => (f == 0 && zerosFrom mem a.ptr st.sp) || endFp a env.os mem st.sp f

/-- what both ARM64 unwinders see of a frame in state `st` -/
def MixView (a : Arch) (f : Frame) (st : MixSt) : Prop :=
  f.ctx.sp = st.sp ∧ f.ctx.get a "sp" = some st.sp ∧ f.ctx.m64 = false ∧
  scanWindow a f.trust = (if st.first then scanWindow a .context else scanWindow a .scan) ∧
  match st.fp with
  | some v => f.ctx.has a "x29" = true ∧ f.ctx.has a "sp" = true ∧ f.ctx.raw a a.fpName = v
  | none => f.ctx.get a "x29" = none

theorem MixView.fpView {a : Arch} {f : Frame} {st : MixSt} {v : Nat} (ha : a = .arm64 ∨ a = .arm64old)
    (h : MixView a f st) (hf : st.fp = some v) : FpView a f.ctx st.sp v := by
  obtain ⟨h1, _, h3, _, h5⟩ := h
  rw [hf] at h5
  rcases ha with ha | ha <;> subst ha <;> exact ⟨h1, h5.2.2, h3, h5.1, h5.2.1⟩

theorem MixView.scanView {a : Arch} {f : Frame} {st : MixSt} (ha : a = .arm64 ∨ a = .arm64old)
    (h : MixView a f st) (hf : st.fp = none ∨ st.fp = some 0) : ScanView a f st.sp st.first := by
  obtain ⟨h1, h2, _, h4, h5⟩ := h
  refine ⟨h1, h2, h4, ?_, Or.inr ?_⟩
  · rcases ha with ha | ha <;> subst ha <;> rfl
  · rcases hf with hf | hf
    · rw [hf] at h5; exact Or.inl h5
    · rw [hf] at h5
      right
      obtain ⟨hx, _, hr⟩ := h5
      rcases ha with ha | ha <;> subst ha
      · have : f.ctx.raw .arm64 "x29" = 0 := hr
        simp [Ctx.get, hx, this]
      · have : f.ctx.raw .arm64old "x29" = 0 := hr
        simp [Ctx.get, hx, this]

theorem step_mix_arm64 {env : Env} {a : Arch} {mem : Mem} (ha : a = .arm64 ∨ a = .arm64old)
    (harch : env.arch = a) (hcfi : ∀ f g, env.cfi f g = none)
    (f : Frame) (g : Option Frame) (st : MixSt) (e : Exp)
    (hv : MixView a f st) (hl : mixLink env a mem st e = true) :
    step env mem f g = some (mixFrame a st e) := by
  have hps : a.plainScan64 = true := by rcases ha with ha | ha <;> subst ha <;> rfl
  unfold mixLink at hl
  unfold mixFrame
  by_cases ht : e.tech = "fp"
  · simp only [ht, if_true] at hl ⊢
    cases hf : st.fp with
    | none => rw [hf] at hl; cases hl
    | some v =>
      rw [hf] at hl
      exact step_fp_arm64 ha harch hcfi (hv.fpView ha hf) hl
  · simp only [ht, if_false, Bool.and_eq_true, Bool.or_eq_true, beq_iff_eq] at hl ⊢
    exact step_scan hps harch hcfi (hv.scanView ha hl.1) hl.2

theorem mixNext_view {env : Env} {a : Arch} {mem : Mem} (ha : a = .arm64 ∨ a = .arm64old)
    (st : MixSt) (e : Exp) (_hl : mixLink env a mem st e = true) :
    MixView a (mixFrame a st e) (mixNext st e) := by
  unfold mixFrame mixNext
  by_cases ht : e.tech = "fp"
  · simp only [ht, if_true]
    rcases ha with ha | ha <;> subst ha
    · obtain ⟨_, hr, _, hx, hs⟩ := fpFrame_view .arm64 rfl e
      exact ⟨rfl, rfl, rfl, rfl, hx, hs, hr⟩
    · obtain ⟨_, hr, _, hx, hs⟩ := fpFrame_view .arm64old rfl e
      exact ⟨rfl, rfl, rfl, rfl, hx, hs, hr⟩
  · simp only [ht, if_false]
    rcases ha with ha | ha <;> subst ha
    · exact ⟨rfl, rfl, rfl, rfl, rfl⟩
    · exact ⟨rfl, rfl, rfl, rfl, rfl⟩

theorem step_mix_end_arm64 {env : Env} {a : Arch} {mem : Mem} (ha : a = .arm64 ∨ a = .arm64old)
    (harch : env.arch = a) (hcfi : ∀ f g, env.cfi f g = none)
    (f : Frame) (g : Option Frame) (st : MixSt)
    (hv : MixView a f st) (he : mixEnd env a mem st = true) : step env mem f g = none := by
  have hps : a.plainScan64 = true := by rcases ha with ha | ha <;> subst ha <;> rfl
  unfold mixEnd at he
  cases hf : st.fp with
  | none =>
    rw [hf] at he
    exact step_scan_end hps harch hcfi (hv.scanView ha (Or.inl hf)) he
  | some v =>
    rw [hf] at he
    simp only [Bool.or_eq_true, Bool.and_eq_true, beq_iff_eq] at he
    rcases he with ⟨h0, hz⟩ | he
    · subst h0
      exact step_scan_end hps harch hcfi (hv.scanView ha (Or.inr hf)) hz
    · exact step_end_arm64 ha harch hcfi (hv.fpView ha hf) he

/-- the precondition of a mixed ARM64 chain, frame by frame -/
def preMix (env : Env) (a : Arch) (mem : Mem) : MixSt → List Exp → Bool
  | st, [] => !mem.inRange st.sp || mixEnd env a mem st
  | st, e :: rest => mem.inRange st.sp && mixLink env a mem st e && preMix env a mem (mixNext st e) rest

/-- the frames a mixed ARM64 chain must be walked to -/
def expectedMix (env : Env) (a : Arch) : MixSt → List Exp → List Frame
  | _, [] => []
  | st, e :: rest => symbolise env (mixFrame a st e) :: expectedMix env a (mixNext st e) rest

theorem preMix_foldr (env : Env) (a : Arch) (mem : Mem) (chain : List Exp) (st : MixSt) :
    preMix env a mem st chain =
      (chain.foldr (fun e (k : MixSt → Bool) => fun st => mem.inRange st.sp && mixLink env a mem st e && k (mixNext st e))
        (fun st => !mem.inRange st.sp || mixEnd env a mem st)) st := by
  induction chain generalizing st with
  | nil => rfl
  | cons e rest ih => simp only [preMix, List.foldr_cons, ih]

theorem expectedMix_foldr (env : Env) (a : Arch) (chain : List Exp) (st : MixSt) :
    expectedMix env a st chain =
      (chain.foldr (fun e (k : MixSt → List Frame) => fun st => symbolise env (mixFrame a st e) :: k (mixNext st e))
        (fun _ => [])) st := by
  induction chain generalizing st with
  | nil => rfl
  | cons e rest ih => simp only [expectedMix, List.foldr_cons, ih]

theorem mix_view_context (a : Arch) (ha : a = .arm64 ∨ a = .arm64old) (c : Ctx) (hv : c.valid = none)
    (hm : c.m64 = false) :
    MixView a (Frame.ofCtx c .context) { sp := c.sp, fp := some (c.raw a a.fpName), first := true } := by
  rcases ha with ha | ha <;> subst ha
  · refine ⟨rfl, ?_, hm, rfl, ?_, ?_, rfl⟩
    · simp [Frame.ofCtx, Ctx.get, Ctx.has, hv, Arch.canon, Arch.registers, Ctx.raw, Arch.spName, Arch.ipName]
    · simp [Frame.ofCtx, Ctx.has, hv, Arch.canon]
    · simp [Frame.ofCtx, Ctx.has, hv, Arch.canon, Arch.registers]
  · refine ⟨rfl, ?_, hm, rfl, ?_, ?_, rfl⟩
    · simp [Frame.ofCtx, Ctx.get, Ctx.has, hv, Arch.canon, Arch.registers, Ctx.raw, Arch.spName, Arch.ipName]
    · simp [Frame.ofCtx, Ctx.has, hv, Arch.canon]
    · simp [Frame.ofCtx, Ctx.has, hv, Arch.canon, Arch.registers]

end MdModel.Walk
