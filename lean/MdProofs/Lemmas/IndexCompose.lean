/-
  Adapter lemmas for `MdProofs/C14Compose.lean`: what is needed to put C14's `stacks_are_walks` /
  `env_spec` under the per-walk theorems of C06 (`walk_frames_follow_c06`), C11
  (`walk_frames_follow_c11`, `walk_frames_follow_c11W`, `instr_ok_follows_c11`) and C05 / C03.

  * index-wise reading of `frames.map (·.f) = walk …` (`getElem_of_map_eq`);
  * `winsAt` of a list without STACK WIN records is empty, so `WinRel` forces `win4 = win0 = []`
    (the hypotheses of `walk_frames_follow_c11`) — one statement serves both branches of `env_spec`;
  * `RegsOk` (every register of a context record below 2^64) gives C06's `CtxOk` of the start context
    `toCtx d.arch r`; `startCtx_regsOk`: it holds of the start context of every thread when it holds
    of the context records of the dump;
  * NEW walker fact (no existing theorem said it): a frame of trust `scan` of ANY walk has a return
    address the environment's by-symbols validation accepted (`walk_scan_instrOk`), by following
    `scanFrom_spec` through the seven `get_caller_by_scan`s, `candidate`, `step` and `walkLoop`.
-/
import MdProofs.C14
import MdProofs.C06Env
import MdProofs.C11Walk
namespace MdModel.Index
open MdModel
open MdModel.Walk (Mem)

/-! ## lists -/

theorem getElem_of_map_eq {fs : List IFrame} {L : List Walk.Frame} (h : fs.map (·.f) = L)
    (j : Nat) (hj : j < fs.length) : ∃ hj' : j < L.length, L[j] = fs[j].f := by
  subst h
  exact ⟨by simpa using hj, by simp⟩

theorem mem_of_map_eq {fs : List IFrame} {L : List Walk.Frame} (h : fs.map (·.f) = L)
    (x : IFrame) (hx : x ∈ fs) : x.f ∈ L := by
  subst h
  exact List.mem_map.mpr ⟨x, hx, rfl⟩

/-! ## STACK WIN records of a module, when no module has any -/

theorem winsAt_noWins {wins : List (List Win.Rec)} (h : Walk.noWins wins = true) (i : Nat) :
    SymBridge.winsAt wins i = [] := by
  unfold SymBridge.winsAt
  cases hq : wins[i]? with
  | none => rfl
  | some ws =>
    simp only [Walk.noWins, List.all_eq_true] at h
    have := h ws (List.mem_of_getElem? hq)
    simpa using this

theorem winRel_nil {r : Symbolize.Recs} (h : SymBridge.WinRel [] r) : r.win4 = [] ∧ r.win0 = [] :=
  ⟨h.win4, h.win0⟩

/-! ## the start context is one C06's bridge accepts -/

/-- every register of a context record is a `u64` (what any context read from dump bytes satisfies;
    the abstract `Dump` carries naturals) -/
def RegsOk (r : Regs) : Prop :=
  r.ip < 2 ^ 64 ∧ r.sp < 2 ^ 64 ∧ r.fp < 2 ^ 64 ∧ ∀ p ∈ r.rest, p.2 < 2 ^ 64

theorem toCtx_ok (a : Walk.Arch) (arch : Nat) (r : Regs) (h : RegsOk r) :
    CfiBridge.CtxOk a (toCtx arch r) := by
  obtain ⟨h1, h2, h3, h4⟩ := h
  refine ⟨trivial, h1, h2, ?_⟩
  intro p hp
  simp only [toCtx] at hp
  split at hp
  · rcases List.mem_cons.mp hp with rfl | hp
    · exact h3
    · exact h4 p hp
  · cases hp

/-- the context records of a dump: the exception's and the threads' -/
def DumpRegsOk (d : Dump) : Prop :=
  (∀ e c, d.exc = some (e, some c) → RegsOk c) ∧
  ∀ ts, d.threads = some ts → ∀ t ∈ ts, ∀ c, t.ctx = some c → RegsOk c

theorem readCtx_some {d : Dump} {c : Option Regs} {r : Regs} (h : readCtx d c = some r) : c = some r := by
  unfold readCtx at h
  split at h
  · exact h
  · cases h

/-- the start context `index` picks for a thread is one of the dump's context records -/
theorem startCtx_regsOk (d : Dump) (ts : List Thread) (hth : d.threads = some ts) (hd : DumpRegsOk d)
    (t : Thread) (ht : t ∈ ts) (r : Regs) (hr : startCtx d t = some r) : RegsOk r := by
  have hthread : ∀ r, readCtx d t.ctx = some r → RegsOk r :=
    fun r h => hd.2 ts hth t ht r (readCtx_some h)
  have hexc : ∀ r, excCtx d = some r → RegsOk r := by
    intro r h
    unfold excCtx at h
    split at h
    · rename_i e c he
      exact hd.1 e r (by rw [he, readCtx_some h])
    · cases h
  unfold startCtx at hr
  split at hr
  · cases hr
  · split at hr
    · cases he : excCtx d with
      | none => rw [he] at hr; exact hthread r (by simpa using hr)
      | some r' =>
        rw [he] at hr
        simp only [Option.orElse_some, Option.some.injEq] at hr
        subst hr
        exact hexc _ he
    · exact hthread r hr

end MdModel.Index

/-! ## a scanned frame's return address passed the by-symbols validation -/

namespace MdModel.Walk

theorem scanX86_valid {env : Env} {mem : Mem} {c c' : Ctx} {t : Trust}
    (h : scanX86 env mem c t = some c') : instrValid env .x86 c'.ip = true := by
  unfold scanX86 at h
  split at h
  · cases h
  · simp only at h
    split at h
    · cases h
    · rename_i i a ip hs
      split at h
      · cases h
      · split at h
        · cases h
        · cases h
          exact (scanFrom_spec hs).2.2.1

theorem scanAmd64_valid {env : Env} {mem : Mem} {c c' : Ctx} {t : Trust}
    (h : scanAmd64 env mem c t = some c') : instrValid env .amd64 c'.ip = true := by
  unfold scanAmd64 at h
  split at h
  · cases h
  · simp only at h
    split at h
    · cases h
    · rename_i i a ip hs
      split at h
      · cases h
      · split at h
        · cases h
        · cases h
          exact (scanFrom_spec hs).2.2.1

theorem scanArm_valid {env : Env} {mem : Mem} {c c' : Ctx} {t : Trust}
    (h : scanArm env mem c t = some c') : instrValid env .arm c'.ip = true := by
  unfold scanArm at h
  split at h
  · cases h
  · split at h
    · cases h
    · rename_i i a ip hs
      split at h
      · cases h
      · cases h
        exact (scanFrom_spec hs).2.2.1

theorem scanArm64_valid {env : Env} {a : Arch} {mem : Mem} {c c' : Ctx} {t : Trust}
    (h : scanArm64 env a mem c t = some c') : instrValid env a c'.ip = true := by
  unfold scanArm64 at h
  split at h
  · cases h
  · split at h
    · cases h
    · rename_i i ad ip hs
      split at h
      · cases h
      · cases h
        exact (scanFrom_spec hs).2.2.1

theorem scanMips32_valid {env : Env} {mem : Mem} {c c' : Ctx} {t : Trust}
    (h : scanMips32 env mem c t = some c') : instrValid env .mips32 c'.ip = true := by
  unfold scanMips32 at h
  split at h
  · cases h
  · simp only at h
    split at h
    · cases h
    · split at h
      · cases h
      · rename_i i a ip hs
        split at h
        · cases h
        · cases h
          exact (scanFrom_spec hs).2.2.1

theorem scanMips64_valid {env : Env} {mem : Mem} {c c' : Ctx}
    (h : scanMips64 env mem c = some c') : instrValid env .mips64 c'.ip = true := by
  unfold scanMips64 at h
  split at h
  · cases h
  · split at h
    · cases h
    · rename_i i a ip hs
      split at h
      · cases h
      · cases h
        exact (scanFrom_spec hs).2.2.1

/-- `get_caller_by_scan` returns only a word `instruction_seems_valid` accepted -/
theorem byScan_valid {env : Env} {a : Arch} {mem : Mem} {c c' : Ctx} {t : Trust}
    (h : byScan env a mem c t = some c') : instrValid env a c'.ip = true := by
  cases a <;> simp only [byScan] at h
  · exact scanX86_valid h
  · exact scanAmd64_valid h
  · exact scanArm_valid h
  · exact scanArm64_valid h
  · exact scanArm64_valid h
  · exact scanMips32_valid h
  · exact scanMips64_valid h

theorem candidate_scan_valid {env : Env} {a : Arch} {mem : Mem} {callee : Frame} {grand : Option Frame}
    {c : Ctx} {t : Trust} (h : candidate env a mem callee grand = some (c, t)) (ht : t = .scan) :
    instrValid env a c.ip = true := by
  unfold candidate at h
  split at h
  · cases h; cases ht
  · split at h
    · cases h; cases ht
    · split at h
      · rename_i c' hs
        cases h
        exact byScan_valid hs
      · cases h

/-- a frame `get_caller_frame` found by scanning: its return address passed the architecture's
    pre-check and the by-symbols validation of the environment -/
theorem step_scan_valid {env : Env} {mem : Mem} {callee f : Frame} {grand : Option Frame}
    (h : step env mem callee grand = some f) (ht : f.trust = .scan) :
    instrValid env (effArch env.arch callee.ctx) f.ctx.ip = true := by
  unfold step at h
  simp only at h
  split at h
  · cases h
  · rename_i c t hc
    obtain ⟨h1, h2, _⟩ := epilogue_spec h
    rw [h1]
    exact candidate_scan_valid hc (by rw [← h2]; exact ht)

/-- every frame of the walk loop is the (symbolised) start frame or a (symbolised) result of
    `get_caller_frame` -/
theorem walkLoop_origin {env : Env} {mem : Mem} :
    ∀ (n : Nat) (f : Frame) (g : Option Frame), ∀ x ∈ walkLoop env mem n f g,
      x = symbolise env f ∨ ∃ p g' f', step env mem p g' = some f' ∧ x = symbolise env f' := by
  intro n
  induction n with
  | zero =>
    intro f g x hx
    simp only [walkLoop, List.mem_singleton] at hx
    exact .inl hx
  | succ n ih =>
    intro f g x hx
    simp only [walkLoop] at hx
    split at hx
    · simp only [List.mem_singleton] at hx
      exact .inl hx
    · split at hx
      · simp only [List.mem_singleton] at hx
        exact .inl hx
      · rename_i f' hstep
        rcases List.mem_cons.mp hx with hx | hx
        · exact .inl hx
        · rcases ih _ _ x hx with h | h
          · exact .inr ⟨_, _, f', hstep, h⟩
          · exact .inr h

/-- **a scanned frame's return address was accepted by `instruction_seems_valid_by_symbols`** —
    for ANY environment, stack memory and context: every frame of trust `scan` of `walk` has a
    return address `env.instrOk` accepts. -/
theorem walk_scan_instrOk (env : Env) (mem : Option Mem) (ctx : Ctx) :
    ∀ x ∈ walk env mem ctx, x.trust = .scan → env.instrOk x.ctx.ip = true := by
  intro x hx ht
  have key : x = symbolise env (Frame.ofCtx ctx .context) ∨
      ∃ m p g' f', step env m p g' = some f' ∧ x = symbolise env f' := by
    unfold walk at hx
    simp only at hx
    split at hx
    · simp only [List.mem_singleton] at hx
      exact .inl hx
    · rename_i m _
      rcases walkLoop_origin _ _ _ x hx with h | ⟨p, g', f', h1, h2⟩
      · exact .inl h
      · exact .inr ⟨m, p, g', f', h1, h2⟩
  rcases key with h | ⟨m, p, g', f', hstep, h⟩
  · rw [h] at ht; cases ht
  · subst h
    have := step_scan_valid hstep ht
    unfold instrValid at this
    simp only [Bool.and_eq_true] at this
    exact this.2

end MdModel.Walk

namespace MdModel.Index
open MdModel

/-- the by-symbols validation of every walk of the dump is `instrOkOf` over the state's modules and
    the supplier's function tables — in both branches of `env_spec` -/
theorem envOf_instrOk (d : Dump) (sel : Option Walk.Mem) :
    (envOf d sel).instrOk =
      Walk.instrOkOf (worldOf d) (Walk.modTable (worldOf d).mods) (SymBridge.ftblsOf (worldOf d)) := by
  obtain ⟨-, -, h1, h2, -⟩ := env_spec d sel
  cases hn : Walk.noWins (winsOf d) with
  | true => rw [h1 hn]; exact (SymBridge.mkEnv_instrOk _ _ _ [] _).1
  | false => rw [h2 hn]; exact (SymBridge.mkEnv_instrOk _ _ _ _ _).2

end MdModel.Index
