/-
  The panic sites of the symbol parser are unreachable:
    * `insert_win_stack_info`'s `as u32` + `memory_range().unwrap()` (C08: safe when sizes are u32 —
      they are, `hex_str::<u32>` reads at most 8 digits),
    * `into_rangemap_safe(..)`'s final `try_from_iter(..).unwrap()` (C08: never fires on valid ranges),
    * `Range::new` (`mkRange*` only build ordered ranges), `&input[..consumed]`,
    * the model's own loop fuel.
-/
import MdModel.SymParse
import MdProofs.C08
import MdProofs.Lemmas.SymParseLocal
namespace MdModel.Sym
open MdModel MdModel.RangeMap MdModel.Stream

/-! ### values produced by the parsers -/

def Ensures {α} (p : P α) (Q : α → Prop) : Prop := ∀ i r v, p i = .ok r v → Q v

theorem Ensures.bind {α β} {p : P α} {f : α → P β} {Q1 : α → Prop} {Q : β → Prop}
    (hp : Ensures p Q1) (hf : ∀ v, Q1 v → Ensures (f v) Q) : Ensures (p.bind f) Q := by
  intro i r v h
  unfold P.bind at h
  cases hpi : p i with
  | ok r1 v1 => rw [hpi] at h; exact hf v1 (hp i r1 v1 hpi) r1 r v h
  | error => rw [hpi] at h; cases h
  | failure => rw [hpi] at h; cases h

theorem Ensures.bind' {α β} {p : P α} {f : α → P β} {Q : β → Prop}
    (hf : ∀ v, Ensures (f v) Q) : Ensures (p.bind f) Q :=
  Ensures.bind (Q1 := fun _ => True) (fun _ _ _ _ => trivial) (fun v _ => hf v)

theorem Ensures.pure {α} {v : α} {Q : α → Prop} (h : Q v) : Ensures (P.pure v) Q := by
  intro i r w hw; cases hw; exact h

theorem Ensures.cut {α} {p : P α} {Q : α → Prop} (hp : Ensures p Q) : Ensures (cut p) Q := by
  intro i r v h
  unfold Sym.cut at h
  cases hpi : p i with
  | ok r1 v1 => rw [hpi] at h; cases h; exact hp i _ _ hpi
  | error => rw [hpi] at h; cases h
  | failure => rw [hpi] at h; cases h

theorem Ensures.terminated {α β} {p : P α} {q : P β} {Q : α → Prop} (hp : Ensures p Q) :
    Ensures (terminated p q) Q :=
  Ensures.bind hp fun v hv => Ensures.bind' fun _ => Ensures.pure hv

theorem Ensures.orElse {α} {p q : P α} {Q : α → Prop} (hp : Ensures p Q) (hq : Ensures q Q) :
    Ensures (orElse p q) Q := by
  intro i r v h
  unfold Sym.orElse at h
  cases hpi : p i with
  | ok r1 v1 => rw [hpi] at h; cases h; exact hp i _ _ hpi
  | error => rw [hpi] at h; exact hq i r v h
  | failure => rw [hpi] at h; cases h

theorem hexDigitVal_lt (d : UInt8) (h : isHexDigit d = true) : hexDigitVal d < 16 := by
  unfold isHexDigit at h
  unfold hexDigitVal
  simp only [Bool.or_eq_true, Bool.and_eq_true, decide_eq_true_eq, UInt8.le_iff_toNat_le] at h ⊢
  have e1 : (0x30 : UInt8).toNat = 48 := rfl
  have e2 : (0x39 : UInt8).toNat = 57 := rfl
  have e3 : (0x41 : UInt8).toNat = 65 := rfl
  have e4 : (0x46 : UInt8).toNat = 70 := rfl
  have e5 : (0x61 : UInt8).toNat = 97 := rfl
  have e6 : (0x66 : UInt8).toNat = 102 := rfl
  simp only [e1, e2, e3, e4, e5, e6] at h ⊢
  split
  · omega
  · split <;> omega

theorem hexVal_lt (ds : Bytes) (h : ∀ d ∈ ds, isHexDigit d = true) : hexVal ds < 16 ^ ds.length := by
  unfold hexVal
  suffices ∀ (acc k : Nat), acc < 16 ^ k →
      ds.foldl (fun acc d => acc * 16 + hexDigitVal d) acc < 16 ^ (k + ds.length) from by
    have := this 0 0 (by simp); simpa using this
  induction ds with
  | nil => intro acc k hk; simpa using hk
  | cons d rest ih =>
    intro acc k hk
    have hd := hexDigitVal_lt d (h d (by simp))
    have hr : ∀ x ∈ rest, isHexDigit x = true := fun x hx => h x (by simp [hx])
    simp only [List.foldl_cons, List.length_cons]
    have := ih hr (acc * 16 + hexDigitVal d) (k + 1) (by rw [Nat.pow_succ]; omega)
    rw [show k + (rest.length + 1) = k + 1 + rest.length by omega]
    exact this

theorem mem_takeWhile_true (p : UInt8 → Bool) (l : Bytes) : ∀ d ∈ l.takeWhile p, p d = true := by
  induction l with
  | nil => intro d hd; simp at hd
  | cons b rest ih =>
    intro d hd
    simp only [List.takeWhile] at hd
    cases hb : p b with
    | false => rw [hb] at hd; simp at hd
    | true =>
      rw [hb] at hd
      rcases List.mem_cons.mp hd with rfl | h
      · exact hb
      · exact ih d h

/-- `hex_str::<u32>` yields a `u32`, `hex_str::<u64>` a `u64` -/
theorem hexStr_bound (n : Nat) : Ensures (hexStr n) (fun v => v < 16 ^ n) := by
  intro i r v h
  unfold Sym.hexStr at h
  dsimp only at h
  split at h
  · cases h
  · cases h
    have hall : ∀ d ∈ (i.take n).takeWhile isHexDigit, isHexDigit d = true :=
      mem_takeWhile_true _ _
    have hlen : ((i.take n).takeWhile isHexDigit).length ≤ n :=
      Nat.le_trans (List.takeWhile_prefix _).length_le (by simp; omega)
    exact Nat.lt_of_lt_of_le (hexVal_lt _ hall) (Nat.pow_le_pow_right (by decide) hlen)

/-- the size of a STACK WIN record is a `u32` -/
def WinSizeOk : Line → Prop
  | .stackWin (.frameData s) => s.size ≤ U32MAX
  | .stackWin (.fpo s) => s.size ≤ U32MAX
  | _ => True

theorem mkWin_sizeOk (ty : UInt8) (a c p e pa sa lo mx : Nat) (hp : Bool) (rest : Bytes)
    (hc : c < 16 ^ 8) : WinSizeOk (.stackWin (mkWin ty a c p e pa sa lo mx hp rest)) := by
  have hc' : c ≤ U32MAX := by
    have : (16 : Nat) ^ 8 = U32MAX + 1 := by decide
    omega
  unfold mkWin
  dsimp only
  split
  · trivial
  · split
    · exact hc'
    · split
      · exact hc'
      · trivial

macro "ens" : tactic => `(tactic| repeat (first
  | exact Ensures.pure trivial | apply Ensures.cut | apply Ensures.bind' | intro _))

theorem stackWinLine_sizeOk : Ensures stackWinLine WinSizeOk := by
  unfold Sym.stackWinLine
  apply Ensures.bind'; intro _
  apply Ensures.cut
  apply Ensures.bind'; intro ty
  apply Ensures.bind'; intro address
  refine Ensures.bind (Q1 := fun v => v < 16 ^ 8) (Ensures.terminated (hexStr_bound 8)) ?_
  intro codeSize hcs
  apply Ensures.bind'; intro _
  apply Ensures.bind'; intro _
  apply Ensures.bind'; intro _
  apply Ensures.bind'; intro _
  apply Ensures.bind'; intro _
  apply Ensures.bind'; intro _
  apply Ensures.bind'; intro _
  apply Ensures.bind'; intro _
  exact Ensures.pure (mkWin_sizeOk _ _ _ _ _ _ _ _ _ _ _ hcs)

theorem infoUrl_sizeOk : Ensures infoUrl WinSizeOk := Ensures.bind' fun _ => Ensures.cut (Ensures.bind' fun _ => Ensures.pure trivial)
theorem infoLine_sizeOk : Ensures infoLine WinSizeOk := Ensures.bind' fun _ => Ensures.cut (Ensures.bind' fun _ => Ensures.pure trivial)
theorem fileLine_sizeOk : Ensures fileLine WinSizeOk := Ensures.bind' fun _ => Ensures.cut (Ensures.bind' fun _ => Ensures.bind' fun _ => Ensures.pure trivial)
theorem publicLine_sizeOk : Ensures publicLine WinSizeOk := Ensures.bind' fun _ => Ensures.cut (Ensures.bind' fun _ => Ensures.bind' fun _ => Ensures.bind' fun _ => Ensures.bind' fun _ => Ensures.pure trivial)
theorem funcLine_sizeOk : Ensures funcLine WinSizeOk := Ensures.bind' fun _ => Ensures.cut (Ensures.bind' fun _ => Ensures.bind' fun _ => Ensures.bind' fun _ => Ensures.bind' fun _ => Ensures.bind' fun _ => Ensures.pure trivial)
theorem stackCfiInit_sizeOk : Ensures stackCfiInit WinSizeOk := Ensures.bind' fun _ => Ensures.cut (Ensures.bind' fun _ => Ensures.bind' fun _ => Ensures.bind' fun _ => Ensures.pure trivial)
theorem moduleLine_sizeOk : Ensures moduleLine WinSizeOk := Ensures.bind' fun _ => Ensures.cut (Ensures.bind' fun _ => Ensures.bind' fun _ => Ensures.bind' fun _ => Ensures.bind' fun _ => Ensures.pure trivial)
theorem originTop_sizeOk :
    Ensures (P.bind inlineOriginLine fun (i, f) => P.pure (Line.inlineOrigin i f)) WinSizeOk := by
  apply Ensures.bind'; intro v; obtain ⟨a, b⟩ := v; exact Ensures.pure trivial

theorem line_sizeOk : Ensures line WinSizeOk :=
  Ensures.orElse infoUrl_sizeOk <| Ensures.orElse infoLine_sizeOk <| Ensures.orElse fileLine_sizeOk <|
  Ensures.orElse originTop_sizeOk <| Ensures.orElse publicLine_sizeOk <| Ensures.orElse funcLine_sizeOk <|
  Ensures.orElse stackWinLine_sizeOk <| Ensures.orElse stackCfiInit_sizeOk moduleLine_sizeOk

/-! ### `insert_win_stack_info`, one record at a time -/

def foldWin : List (Rng × Rec) → List Rec → Outcome (List (Rng × Rec))
  | acc, [] => .ok acc
  | acc, r :: rest =>
    match insertWin acc r with
    | .panic s => .panic s
    | .ok acc' => foldWin acc' rest

theorem insertWinAll_eq (acc : List (Rng × Rec)) (xs : List Rec) :
    insertWinAll acc xs = match foldWin acc xs with
      | .ok a => .ok a.reverse
      | .panic s => .panic s := by
  induction xs generalizing acc with
  | nil => rfl
  | cons r rest ih =>
    simp only [insertWinAll, foldWin]
    cases insertWin acc r with
    | panic s => rfl
    | ok acc' => exact ih acc'

theorem foldWin_snoc (acc : List (Rng × Rec)) (xs : List Rec) (r : Rec) :
    foldWin acc (xs ++ [r]) = match foldWin acc xs with
      | .ok a => insertWin a r
      | .panic s => .panic s := by
  induction xs generalizing acc with
  | nil =>
    simp only [List.nil_append, foldWin]
    cases insertWin acc r <;> rfl
  | cons x rest ih =>
    simp only [List.cons_append, foldWin]
    cases insertWin acc x with
    | panic s => rfl
    | ok acc' => exact ih acc'

/-- the vector is what `insert_win_stack_info` built from records whose sizes are `u32`s -/
def WinOK (acc : List (Rng × Rec)) : Prop :=
  ∃ recs, (∀ r ∈ recs, r.size ≤ U32MAX) ∧ foldWin [] recs = .ok acc

theorem WinOK.nil : WinOK [] := ⟨[], fun _ h => (by cases h), rfl⟩

theorem insertWin_step (acc : List (Rng × Rec)) (r : Rec) (h : WinOK acc) (hr : r.size ≤ U32MAX) :
    ∃ acc', insertWin acc r = .ok acc' ∧ WinOK acc' := by
  obtain ⟨recs, hs, hf⟩ := h
  have hall : ∀ x ∈ recs ++ [r], x.size ≤ U32MAX := by
    intro x hx
    rcases List.mem_append.mp hx with h | h
    · exact hs x h
    · simp at h; rw [h]; exact hr
  obtain ⟨v, hv⟩ := win_repair_no_panic (recs ++ [r]) hall
  rw [insertWinAll_eq, foldWin_snoc, hf] at hv
  simp only [] at hv
  cases hi : insertWin acc r with
  | panic s => rw [hi] at hv; cases hv
  | ok acc' =>
    refine ⟨acc', rfl, recs ++ [r], hall, ?_⟩
    rw [foldWin_snoc, hf]; exact hi

/-- a range as `Range::new` accepts it, inside `u64` -/
def RWF (r : Rng) : Prop := r.lo ≤ r.hi ∧ r.hi ≤ U64MAX

theorem mkRange_rwf {b s : Nat} {r : Rng} (h : mkRange b s = some r) : RWF r := by
  have := mkRange_wf h; exact ⟨this.1, this.2.1⟩

theorem insertWin_rwf (acc acc' : List (Rng × Rec)) (r : Rec) (h : ∀ p ∈ acc, RWF p.1)
    (hi : insertWin acc r = .ok acc') : ∀ p ∈ acc', RWF p.1 := by
  unfold insertWin at hi
  split at hi
  · cases hi; exact h
  · next mr hmr =>
    have hm := mkRange_rwf hmr
    split at hi
    · cases hi; intro p hp; simp at hp; rw [hp]; exact hm
    · next lr li rest =>
      have hpush : ∀ p ∈ (mr, r) :: (lr, li) :: rest, RWF p.1 := by
        intro p hp
        rcases List.mem_cons.mp hp with rfl | hp
        · exact hm
        · exact h p hp
      split at hi
      · split at hi
        · dsimp only at hi
          split at hi
          · cases hi
          · next r' hr' =>
            cases hi
            intro p hp
            rcases List.mem_cons.mp hp with rfl | hp
            · exact hm
            · rcases List.mem_cons.mp hp with rfl | hp
              · exact mkRange_rwf hr'
              · exact h p (by simp [hp])
        · split at hi
          · cases hi; exact h
          · cases hi; exact hpush
      · cases hi; exact hpush

/-! ### range tables -/

theorem tableP_ok {α} [DecidableEq α] (xs : List (Rng × α)) (h : ∀ e ∈ xs, RWF e.1) :
    ∃ m, tableP xs = .ok m := by
  unfold tableP
  dsimp only
  rw [safeP_ok]
  · exact ⟨_, rfl⟩
  · intro e he
    simp only [List.mem_map] at he
    obtain ⟨x, hx, rfl⟩ := he
    exact h x hx

theorem tableOpt_ok {α} [DecidableEq α] (xs : List (Option Rng × α))
    (h : ∀ e ∈ xs, ∀ r, e.1 = some r → RWF r) : ∃ m, tableOpt xs = .ok m := by
  unfold tableOpt
  dsimp only
  rw [safe_ok]
  · exact ⟨_, rfl⟩
  · intro e he r hr
    simp only [List.mem_map] at he
    obtain ⟨x, hx, rfl⟩ := he
    exact h x hx r hr


/-! ### the parser-state invariant that keeps every panic site unreachable -/

structure PInv (st : PState) : Prop where
  fdOK : WinOK st.winFd
  fpoOK : WinOK st.winFpo
  fdR : ∀ p ∈ st.winFd, RWF p.1
  fpoR : ∀ p ∈ st.winFpo, RWF p.1
  funR : ∀ p ∈ st.functions, RWF p.1
  cfiR : ∀ p ∈ st.cfi, RWF p.1

theorem PInv.init : PInv {} :=
  ⟨WinOK.nil, WinOK.nil, fun _ h => (by cases h), fun _ h => (by cases h), fun _ h => (by cases h),
   fun _ h => (by cases h)⟩

/-- only these six fields matter -/
theorem PInv.congr {a b : PState} (h : PInv a) (h1 : b.winFd = a.winFd) (h2 : b.winFpo = a.winFpo)
    (h3 : b.functions = a.functions) (h4 : b.cfi = a.cfi) : PInv b :=
  ⟨h1 ▸ h.fdOK, h2 ▸ h.fpoOK, h1 ▸ h.fdR, h2 ▸ h.fpoR, h3 ▸ h.funR, h4 ▸ h.cfiR⟩

theorem finishFunc_ok (st : PState) (f : Function) (ls : List SourceLine) (inl : List Inlinee)
    (h : PInv st) : ∃ st', finishFunc st f ls inl = .ok st' ∧ PInv st' := by
  unfold finishFunc
  dsimp only
  obtain ⟨tbl, htbl⟩ := tableOpt_ok
    ((ls.reverse.filter fun l => l.size > 0).map fun l => (mkRangeLine l.address l.size, l)) (by
      intro e he r hr
      simp only [List.mem_map] at he
      obtain ⟨x, _, rfl⟩ := he
      have := mkRangeLine_wf hr
      exact ⟨this.1, this.2.1⟩)
  rw [htbl]
  dsimp only
  split
  · next r hr =>
    refine ⟨_, rfl, h.fdOK, h.fpoOK, h.fdR, h.fpoR, ?_, h.cfiR⟩
    intro p hp
    rcases List.mem_cons.mp hp with rfl | hp
    · exact mkRange_rwf hr
    · exact h.funR p hp
  · exact ⟨_, rfl, h⟩

theorem finishCfi_inv (st : PState) (c : StackInfoCfi) (h : PInv st) : PInv (finishCfi st c) := by
  unfold finishCfi
  dsimp only
  split
  · next r hr =>
    refine ⟨h.fdOK, h.fpoOK, h.fdR, h.fpoR, h.funR, ?_⟩
    intro p hp
    rcases List.mem_cons.mp hp with rfl | hp
    · exact mkRange_rwf hr
    · exact h.cfiR p hp
  · exact h

theorem finishCur_ok (st : PState) (h : PInv st) : ∃ st', finishCur st = .ok st' ∧ PInv st' := by
  unfold finishCur
  split
  · exact ⟨_, rfl, h⟩
  · exact finishFunc_ok _ _ _ _ (h.congr rfl rfl rfl rfl)
  · exact ⟨_, rfl, finishCfi_inv _ _ (h.congr rfl rfl rfl rfl)⟩

theorem applyLine_ok (st : PState) (v : Line) (h : PInv st) (hv : WinSizeOk v) :
    (∃ k n, applyLine st v = .error (k, n)) ∨ (∃ st', applyLine st v = .ok (.ok st') ∧ PInv st') := by
  cases v with
  | module os cpu id file =>
    by_cases hl : st.lines ≠ 0
    · exact Or.inl ⟨Stream.errModuleLate, st.lines, by simp only [applyLine, if_pos hl]⟩
    · exact Or.inr ⟨{ st with moduleId := id, debugFile := file }, by simp only [applyLine, if_neg hl],
        h.congr rfl rfl rfl rfl⟩
  | infoUrl u => exact Or.inr ⟨_, rfl, h.congr rfl rfl rfl rfl⟩
  | infoUnknown => exact Or.inr ⟨_, rfl, h⟩
  | file id name => exact Or.inr ⟨_, rfl, h.congr rfl rfl rfl rfl⟩
  | inlineOrigin id name => exact Or.inr ⟨_, rfl, h.congr rfl rfl rfl rfl⟩
  | public_ p => exact Or.inr ⟨_, rfl, h.congr rfl rfl rfl rfl⟩
  | function f => exact Or.inr ⟨_, rfl, h.congr rfl rfl rfl rfl⟩
  | stackCfi c => exact Or.inr ⟨_, rfl, h.congr rfl rfl rfl rfl⟩
  | stackWin w =>
    cases w with
    | unhandled => exact Or.inr ⟨_, rfl, h⟩
    | frameData s =>
      obtain ⟨acc', hi, hok⟩ := insertWin_step st.winFd ⟨s.address, s.size, st.winFdInfos.length⟩ h.fdOK hv
      refine Or.inr ⟨{ st with winFd := acc', winFdInfos := s :: st.winFdInfos }, by simp only [applyLine, hi],
        hok, h.fpoOK, ?_, h.fpoR, h.funR, h.cfiR⟩
      exact insertWin_rwf _ _ _ h.fdR hi
    | fpo s =>
      obtain ⟨acc', hi, hok⟩ := insertWin_step st.winFpo ⟨s.address, s.size, st.winFpoInfos.length⟩ h.fpoOK hv
      refine Or.inr ⟨{ st with winFpo := acc', winFpoInfos := s :: st.winFpoInfos }, by simp only [applyLine, hi],
        h.fdOK, hok, h.fdR, ?_, h.funR, h.cfiR⟩
      exact insertWin_rwf _ _ _ h.fpoR hi

theorem topLevel_ok (st : PState) (i : Bytes) (h : PInv st) :
    (∃ rest st', topLevel st i = .ok rest st' ∧ PInv st') ∨ (∃ k n, topLevel st i = .err k n) := by
  unfold topLevel
  cases hm : myEol i with
  | ok rest v => exact Or.inl ⟨_, _, rfl, h.congr rfl rfl rfl rfl⟩
  | error =>
    simp only []
    cases hl : line i with
    | ok rest v =>
      simp only []
      rcases applyLine_ok st v h (line_sizeOk i rest v hl) with ⟨k, n, ha⟩ | ⟨st', ha, hp⟩
      · rw [ha]; exact Or.inr ⟨_, _, rfl⟩
      · rw [ha]; exact Or.inl ⟨_, _, rfl, hp.congr rfl rfl rfl rfl⟩
    | error => exact Or.inr ⟨_, _, rfl⟩
    | failure => exact Or.inr ⟨_, _, rfl⟩
  | failure =>
    simp only []
    cases hl : line i with
    | ok rest v =>
      simp only []
      rcases applyLine_ok st v h (line_sizeOk i rest v hl) with ⟨k, n, ha⟩ | ⟨st', ha, hp⟩
      · rw [ha]; exact Or.inr ⟨_, _, rfl⟩
      · rw [ha]; exact Or.inl ⟨_, _, rfl, hp.congr rfl rfl rfl rfl⟩
    | error => exact Or.inr ⟨_, _, rfl⟩
    | failure => exact Or.inr ⟨_, _, rfl⟩

/-- one round of the `parse_more` loop never panics and keeps the invariant -/
theorem stepLine_ok (st : PState) (i : Bytes) (h : PInv st) :
    (∃ rest st', stepLine st i = .ok rest st' ∧ PInv st') ∨ (∃ k n, stepLine st i = .err k n) := by
  have hfb : (∃ rest st', (match finishCur st with
        | .panic e => StepRes.panic e
        | .ok st' => topLevel st' i) = .ok rest st' ∧ PInv st') ∨
      (∃ k n, (match finishCur st with
        | .panic e => StepRes.panic e
        | .ok st' => topLevel st' i) = .err k n) := by
    obtain ⟨st1, hf, hp⟩ := finishCur_ok st h
    rw [hf]; exact topLevel_ok st1 i hp
  unfold stepLine
  split
  · exact topLevel_ok st i h
  · split
    · exact Or.inl ⟨_, _, rfl, h.congr rfl rfl rfl rfl⟩
    · exact Or.inl ⟨_, _, rfl, h.congr rfl rfl rfl rfl⟩
    · exact Or.inl ⟨_, _, rfl, h.congr rfl rfl rfl rfl⟩
    · exact hfb
  · split
    · exact Or.inl ⟨_, _, rfl, h.congr rfl rfl rfl rfl⟩
    · exact hfb

theorem Lsym_ok (st : PState) (line : Bytes) (h : PInv st) :
    (∃ st', Lsym st line = .ok st' ∧ PInv st') ∨ (∃ k n, Lsym st line = .err k n) := by
  unfold Lsym
  rcases stepLine_ok st line h with ⟨rest, st', hs, hp⟩ | ⟨k, n, hs⟩
  · rw [hs]; exact Or.inl ⟨st', rfl, hp⟩
  · rw [hs]; exact Or.inr ⟨k, n, rfl⟩

theorem foldL_ok (ls : List Bytes) : ∀ (st : PState), PInv st →
    (∃ st', foldL Lsym st ls = .ok st' ∧ PInv st') ∨ (∃ k n, foldL Lsym st ls = .err k n) := by
  induction ls with
  | nil => intro st h; exact Or.inl ⟨st, rfl, h⟩
  | cons l rest ih =>
    intro st h
    rcases Lsym_ok st l h with ⟨st', hs, hp⟩ | ⟨k, n, hs⟩
    · simp only [foldL, hs]; exact ih st' hp
    · simp only [foldL, hs]; exact Or.inr ⟨k, n, rfl⟩

/-- `parse_more` never panics, reports at most the window length, keeps the invariant -/
theorem parseMore_ok (st : PState) (w : Bytes) (h : PInv st) :
    (∃ n st', parseMore st w = .ok n st' ∧ n ≤ w.length ∧ PInv st') ∨ (∃ k l, parseMore st w = .err k l) := by
  rw [parseMore_eq]
  unfold pmSpec
  rcases foldL_ok (linesOf w).1 st h with ⟨st', hs, hp⟩ | ⟨k, n, hs⟩
  · rw [hs]
    refine Or.inl ⟨_, st', rfl, ?_, hp⟩
    have := congrArg List.length (linesOf_flatten w)
    simp only [List.length_append] at this
    omega
  · rw [hs]; exact Or.inr ⟨k, n, rfl⟩

theorem winBack_rwf (infos : List StackInfoWin) (v : List (Rng × Rec)) (h : ∀ p ∈ v, RWF p.1) :
    ∀ e ∈ winBack infos v, RWF e.1 := by
  intro e he
  unfold winBack at he
  simp only [List.mem_filterMap, List.mem_reverse] at he
  obtain ⟨p, hp, hpe⟩ := he
  obtain ⟨r, c⟩ := p
  simp only [Option.map_eq_some_iff] at hpe
  obtain ⟨i, _, rfl⟩ := hpe
  exact h _ hp

/-- `finish` never panics -/
theorem finish_ok (st : PState) (h : PInv st) : ∃ f, finish st = .ok f := by
  unfold finish
  obtain ⟨st1, hf, hp⟩ := finishCur_ok st h
  rw [hf]
  dsimp only
  obtain ⟨m1, h1⟩ := tableP_ok st1.functions.reverse (fun e he => hp.funR e (List.mem_reverse.mp he))
  obtain ⟨m2, h2⟩ := tableP_ok st1.cfi.reverse (fun e he => hp.cfiR e (List.mem_reverse.mp he))
  obtain ⟨m3, h3⟩ := tableP_ok (winBack st1.winFdInfos st1.winFd) (winBack_rwf _ _ hp.fdR)
  obtain ⟨m4, h4⟩ := tableP_ok (winBack st1.winFpoInfos st1.winFpo) (winBack_rwf _ _ hp.fpoR)
  rw [h1, h2, h3, h4]
  exact ⟨_, rfl⟩

end MdModel.Sym
