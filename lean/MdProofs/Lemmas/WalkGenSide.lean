/-
  C04 — the side condition `gcfiSide` of `preCfi_layout` from RECORD-LEVEL facts, for one-module
  worlds (the generator's `tidy_world` with one module, incl. the appended leaf FUNC/CFI pair).

  `gcfiSide` speaks about `cfiRecordAt`: the module table (`into_rangemap_safe` of the module
  ranges) and the module's CFI range table (sort, drop overlaps, binary search). Here it is
  reduced to a linear `find?` over the list of STACK CFI records (`cfiCover`), under
  `OneModOk`: the module has a range, every record has one and lies inside the module, the records
  are pairwise disjoint.

  * `mkRange_some`            — `mkRange` of a non-empty range that does not overflow
  * `cfiRecordAt_one_some`    — the first record covering `instr` is `cfiRecordAt` (C08 completeness,
                                `cfiRecordAt_of_isolated`)
  * `cfiRecordAt_one_none`    — no record covers `instr` (inside the module) → `cfiRecordAt = none`
                                (C08 soundness, `getP_sound`)
  * `gcfiSide_of_one`         — `gcfiSideOne → gcfiSide`
-/
import MdProofs.Lemmas.WalkCfiRecordAt
import MdModel.Walk.LayoutGen
namespace MdModel.Walk
open MdModel MdModel.RangeMap

/-- record-level well-formedness of a one-module world: what `tidy_world` arranges -/
structure OneModOk (m : Module) (sf : SymFile) : Prop where
  hm : 0 < m.size ∧ m.base + m.size ≤ U64MAX
  hfit : ∀ c ∈ sf.cfis, 0 < c.size ∧ c.addr + c.size ≤ m.size
  hdisj : sf.cfis.Pairwise fun c d => c.addr + c.size ≤ d.addr ∨ d.addr + d.size ≤ c.addr

theorem mkRange_some {b s : Nat} (h0 : 0 < s) (h1 : b + s ≤ U64MAX) :
    mkRange b s = some ⟨b, b + s - 1⟩ := by
  unfold mkRange
  rw [if_neg (by omega), if_neg (by omega)]

theorem cfiRecordAt_one_some (w : World) (m : Module) (sf : SymFile) (hok : OneModOk m sf)
    (hmods : w.mods = [m]) (hsyms : w.syms = [some sf]) (instr : Nat) (rec : CfiRec)
    (h : cfiCover m sf instr = some rec) : cfiRecordAt w instr = some rec := by
  unfold cfiCover at h
  obtain ⟨hcov, as, bs, hsplit, _⟩ := List.find?_eq_some_iff_append.mp h
  simp only [CfiRec.covers, Bool.and_eq_true, decide_eq_true_eq] at hcov
  have hrec : rec ∈ sf.cfis := by rw [hsplit]; simp
  have hf := hok.hfit rec hrec
  have hmr := mkRange_some hok.hm.1 hok.hm.2
  have hrr := mkRange_some hf.1 (show rec.addr + rec.size ≤ U64MAX by have := hok.hm; omega)
  have hd := hok.hdisj
  rw [hsplit, List.pairwise_append] at hd
  obtain ⟨_, hd2, hd3⟩ := hd
  rw [List.pairwise_cons] at hd2
  refine cfiRecordAt_of_isolated w [] [] m sf as bs rec _ _ instr (by simpa using hmods)
    (by simp [hsyms]) hsplit hmr hrr (by intro m' hm'; cases hm') ?_ ⟨hcov.1, hcov.2⟩ hf.2
  intro c hc s hs
  have hs' := mkRange_spec hs
  simp only [Rng.intersects, ge_iff_le, Bool.and_eq_false_imp, decide_eq_true_eq, decide_eq_false_iff_not]
  intro _
  rcases List.mem_append.mp hc with hc | hc
  · have := hd3 c hc rec (by simp)
    omega
  · have := hd2.1 c hc
    omega

theorem cfiRecordAt_one_none (w : World) (m : Module) (sf : SymFile) (hok : OneModOk m sf)
    (hmods : w.mods = [m]) (hsyms : w.syms = [some sf]) (instr : Nat)
    (hin : m.base ≤ instr ∧ instr < m.base + m.size)
    (h : cfiCover m sf instr = none) : cfiRecordAt w instr = none := by
  unfold cfiCover at h
  have hmr := mkRange_some hok.hm.1 hok.hm.2
  have hmod := moduleAt_of_isolated [] [] m _ instr hmr (by intro m' hm'; cases hm') (by simp only; omega)
  simp only [List.nil_append, List.length_nil] at hmod
  unfold cfiRecordAt
  rw [hmods, hmod]
  simp only [hsyms, List.getElem?_cons_zero, Option.join_some, if_neg (show ¬ instr < m.base by omega)]
  cases hg : RangeMap.get (cfiTable sf) (instr - m.base) with
  | none => rfl
  | some j =>
    exfalso
    unfold cfiTable at hg
    obtain ⟨r, hmem, hlo, hhi⟩ := getP_sound _ _ _ hg
    simp only [List.mem_filterMap, Option.map_eq_some_iff] at hmem
    obtain ⟨x, hx, s, hs, hrs⟩ := hmem
    have hxc : x.1 ∈ sf.cfis := fst_mem_of_mem_zipIdx hx
    have hsp := mkRange_spec hs
    have hnc := List.find?_eq_none.mp h x.1 hxc
    simp only [Prod.mk.injEq] at hrs
    obtain ⟨rfl, _⟩ := hrs
    apply hnc
    simp only [CfiRec.covers, Bool.and_eq_true, decide_eq_true_eq]
    omega

/-- **`gcfiSide` from record-level facts, one-module worlds**: under `OneModOk` the range-table
    lookups of `gcfiSide` are the linear search of `gcfiSideOne` -/
theorem gcfiSide_of_one (w : World) (m : Module) (sf : SymFile) (hok : OneModOk m sf)
    (hmods : w.mods = [m]) (hsyms : w.syms = [some sf]) (a : Arch) (frames : List CfiFr) :
    ∀ (instr : Nat) (first : Bool), gcfiSideOne m sf a instr first frames = true →
      gcfiSide w a instr first frames = true := by
  induction frames with
  | nil =>
    intro instr first h
    simp only [gcfiSideOne, Bool.and_eq_true, decide_eq_true_eq, Option.isNone_iff_eq_none] at h
    simp only [gcfiSide, Option.isNone_iff_eq_none]
    exact cfiRecordAt_one_none w m sf hok hmods hsyms instr ⟨h.1.1, h.1.2⟩ h.2
  | cons c rest ih =>
    intro instr first h
    simp only [gcfiSideOne, Bool.and_eq_true] at h
    obtain ⟨h1, h2⟩ := h
    cases hc : cfiCover m sf instr with
    | none => rw [hc] at h1; cases h1
    | some rec =>
      rw [hc] at h1
      simp only [gcfiSide, cfiRecordAt_one_some w m sf hok hmods hsyms instr rec hc, Bool.and_eq_true]
      exact ⟨by simpa only [Bool.and_eq_true] using h1, ih _ _ h2⟩

theorem pairwise_of_disjB (l : List CfiRec) (h : disjB l = true) :
    l.Pairwise fun c d => c.addr + c.size ≤ d.addr ∨ d.addr + d.size ≤ c.addr := by
  induction l with
  | nil => exact List.Pairwise.nil
  | cons c rest ih =>
    simp only [disjB, Bool.and_eq_true, List.all_eq_true, Bool.or_eq_true, decide_eq_true_eq] at h
    exact List.pairwise_cons.mpr ⟨h.1, ih h.2⟩

theorem oneModOk_of_B (m : Module) (sf : SymFile) (h : oneModOkB m sf = true) : OneModOk m sf := by
  simp only [oneModOkB, Bool.and_eq_true, List.all_eq_true, decide_eq_true_eq] at h
  exact ⟨⟨h.1.1.1, h.1.1.2⟩, h.1.2, pairwise_of_disjB _ h.2⟩

end MdModel.Walk
