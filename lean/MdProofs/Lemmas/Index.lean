/-
  Helper lemmas for C14 (the process state is a faithful index of the dump).
  Property theorems are in `MdProofs/C14.lean`.
-/
import MdModel.Index
import MdProofs.C08
namespace MdModel.Index
open MdModel
open MdModel.Reason (Exc Reason Os Cpu)

/-! ### the thread loop -/

/-- the call stacks are the image of the thread list, whatever the index offset and the incoming
    value of `requesting_thread` -/
theorem loop_stacks (d : Dump) (i : Nat) (ts : List Thread) (req : Option Nat) :
    (loop d i ts req).1 = ts.map (stackOf d) := by
  induction ts generalizing i req with
  | nil => rfl
  | cons t ts ih => simp [loop, ih]

/-- the final `requesting_thread`: the last marked thread, else the incoming value -/
theorem loop_req (d : Dump) (k : Nat) (ts : List Thread) (req : Option Nat) (r : Option Nat) :
    (loop d k ts req).2 = r ↔
      (∃ j, ∃ hj : j < ts.length, r = some (k + j) ∧ isRequesting d ts[j] = true ∧
          ∀ j' (hj' : j' < ts.length), j < j' → isRequesting d ts[j'] = false)
      ∨ (r = req ∧ ∀ t ∈ ts, isRequesting d t = false) := by
  induction ts generalizing k req with
  | nil =>
    simp only [loop]
    constructor
    · intro h; right; exact ⟨h.symm, by simp⟩
    · rintro (⟨j, hj, _⟩ | ⟨h, _⟩)
      · simp at hj
      · exact h.symm
  | cons t ts ih =>
    simp only [loop]
    rw [ih]
    constructor
    · rintro (⟨j, hj, hr, hreq, hlast⟩ | ⟨hr, hnone⟩)
      · left
        refine ⟨j + 1, by simp; omega, by rw [hr]; congr 1; omega, by simpa using hreq, ?_⟩
        intro j' hj' hlt
        cases j' with
        | zero => omega
        | succ j' => simpa using hlast j' (by simpa using hj') (by omega)
      · by_cases ht : isRequesting d t = true
        · left
          refine ⟨0, by simp, by simp [hr, ht], by simpa using ht, ?_⟩
          intro j' hj' hlt
          cases j' with
          | zero => omega
          | succ j' => simp; exact hnone _ (List.getElem_mem _)
        · right
          simp only [Bool.not_eq_true] at ht
          refine ⟨by simp [hr, ht], ?_⟩
          intro x hx
          cases hx with
          | head => exact ht
          | tail _ hx => exact hnone x hx
    · rintro (⟨j, hj, hr, hreq, hlast⟩ | ⟨hr, hnone⟩)
      · cases j with
        | zero =>
          right
          simp at hreq
          refine ⟨by simp [hr, hreq], ?_⟩
          intro x hx
          obtain ⟨n, hn, rfl⟩ := List.getElem_of_mem hx
          have := hlast (n + 1) (by simp; omega) (by omega)
          simp only [List.getElem_cons_succ] at this
          exact this
        | succ j =>
          left
          refine ⟨j, by simpa using hj, by rw [hr]; congr 1; omega, by simpa using hreq, ?_⟩
          intro j' hj' hlt
          have := hlast (j' + 1) (by simp; omega) (by omega)
          simp only [List.getElem_cons_succ] at this
          exact this
      · right
        have ht := hnone t List.mem_cons_self
        refine ⟨by simp [hr, ht], fun x hx => hnone x (List.mem_cons_of_mem _ hx)⟩

/-! ### thread names -/

/-- the fold of `nameOf` started from an arbitrary accumulator -/
def nameFold (id : Nat) (acc : Option String) (names : List (Nat × Option String)) : Option String :=
  names.foldl (fun acc e => if e.1 = id then (match e.2 with | some n => some n | none => acc) else acc) acc

theorem nameOf_eq (names : List (Nat × Option String)) (id : Nat) : nameOf names id = nameFold id none names := rfl

theorem nameFold_keep (id : Nat) (acc : Option String) (names : List (Nat × Option String))
    (h : ∀ e ∈ names, e.1 = id → e.2 = none) : nameFold id acc names = acc := by
  induction names generalizing acc with
  | nil => rfl
  | cons e rest ih =>
    have he := h e List.mem_cons_self
    have hrest : ∀ x ∈ rest, x.1 = id → x.2 = none := fun x hx => h x (List.mem_cons_of_mem _ hx)
    simp only [nameFold, List.foldl_cons]
    by_cases hid : e.1 = id
    · rw [if_pos hid, he hid]; exact ih _ hrest
    · rw [if_neg hid]; exact ih _ hrest

theorem nameFold_append (id : Nat) (acc : Option String) (a b : List (Nat × Option String)) :
    nameFold id acc (a ++ b) = nameFold id (nameFold id acc a) b := by
  simp [nameFold, List.foldl_append]

/-! ### attaching the unloaded-module offsets leaves everything else alone -/

/-- everything of a call stack except the unloaded-module attribution -/
def Stack.core (s : Stack) : Nat × Option String × Info × Option Nat := (s.id, s.name, s.info, s.frame0)

theorem attach_core (ms ums : List Mod) (ss ss' : List Stack) (h : attachUnloaded ms ums ss = some ss') :
    ss'.map Stack.core = ss.map Stack.core := by
  induction ss generalizing ss' with
  | nil => simp [attachUnloaded] at h; subst h; rfl
  | cons s rest ih =>
    simp only [attachUnloaded] at h
    split at h
    · simp only [Option.map_eq_some_iff] at h
      obtain ⟨r, hr, rfl⟩ := h
      simp [ih r hr]
    · split at h
      · cases h
        rename_i u r _ hr
        simp [ih r hr, Stack.core]
      · cases h

theorem attach_some_of (ms ums : List Mod) (ss : List Stack)
    (h : ∀ s ∈ ss, ∀ a, s.frame0 = some a → ∃ u, frameUnloaded ms ums a = some u) :
    ∃ ss', attachUnloaded ms ums ss = some ss' := by
  induction ss with
  | nil => exact ⟨[], rfl⟩
  | cons s rest ih =>
    obtain ⟨r, hr⟩ := ih (fun x hx => h x (List.mem_cons_of_mem _ hx))
    simp only [attachUnloaded]
    split
    · exact ⟨s :: r, by simp [hr]⟩
    · rename_i a ha
      obtain ⟨u, hu⟩ := h s List.mem_cons_self a ha
      rw [hu, hr]
      exact ⟨_, rfl⟩

/-- what the attribution stores in each stack -/
theorem attach_unloaded (ms ums : List Mod) (ss ss' : List Stack) (h : attachUnloaded ms ums ss = some ss')
    (i : Nat) (h1 : i < ss.length) (h2 : i < ss'.length) :
    match ss[i].frame0 with
    | none => ss'[i].unloaded = ss[i].unloaded
    | some a => frameUnloaded ms ums a = some ss'[i].unloaded := by
  induction ss generalizing ss' i with
  | nil => simp at h1
  | cons s rest ih =>
    simp only [attachUnloaded] at h
    split at h
    · rename_i hs
      simp only [Option.map_eq_some_iff] at h
      obtain ⟨r, hr, rfl⟩ := h
      cases i with
      | zero => simp [hs]
      | succ i => simpa using ih r hr i (by simpa using h1) (by simpa using h2)
    · rename_i a hs
      split at h
      · cases h
        rename_i u r hu hr
        cases i with
        | zero => simp [hs, hu]
        | succ i => simpa using ih r hr i (by simpa using h1) (by simpa using h2)
      · cases h

end MdModel.Index

namespace MdModel.Index
open MdModel
open MdModel.Reason (Exc Reason Os Cpu)

/-- unfolding of `index` on a dump with a thread list -/
theorem index_state_inv (d : Dump) (ts : List Thread) (s : State)
    (hth : d.threads = some ts) (h : index d = .state s) :
    attachUnloaded (loadedModules d) (unloadedModules d) (ts.map (stackOf d)) = some s.stacks ∧
    s.requesting = (loop d 0 ts none).2 ∧
    s.exc = d.exc.map (fun p => (Reason.fromException p.1 (Os.ofPlatformId d.platformId) (Cpu.ofArch d.arch),
                                 Reason.crashAddress p.1 (Os.ofPlatformId d.platformId) (Cpu.ofArch d.arch))) ∧
    s.pid = processId d ∧ s.ctime = createTime d ∧ s.time = d.timestamp ∧
    s.modules = loadedModules d ∧ s.unloaded = unloadedModules d := by
  unfold index at h
  rw [hth] at h
  simp only at h
  rw [loop_stacks] at h
  split at h
  · cases h
  · rename_i ss hss
    cases h
    refine ⟨hss, rfl, ?_, rfl, rfl, rfl, rfl, rfl⟩
    cases d.exc with
    | none => rfl
    | some p => obtain ⟨e, c⟩ := p; rfl

end MdModel.Index
