/-
  Helper lemmas for C14 (the process state is a faithful index of the dump).
  Property theorems are in `MdProofs/C14.lean`.
-/
import MdModel.Index
import MdProofs.C08
namespace MdModel.Index
open MdModel
open MdModel.Reason (Exc Reason Os Cpu)

/-! ### the thread loop -/

/-- the call stacks are the image of the thread list, whatever the index offset and the incoming
    value of `requesting_thread` -/
theorem loop_stacks (d : Dump) (i : Nat) (ts : List Thread) (req : Option Nat) :
    (loop d i ts req).1 = ts.map (stackOf d) := by
  induction ts generalizing i req with
  | nil => rfl
  | cons t ts ih => simp [loop, ih]

/-- the final `requesting_thread`: the last marked thread, else the incoming value -/
theorem loop_req (d : Dump) (k : Nat) (ts : List Thread) (req : Option Nat) (r : Option Nat) :
    (loop d k ts req).2 = r ↔
      (∃ j, ∃ hj : j < ts.length, r = some (k + j) ∧ isRequesting d ts[j] = true ∧
          ∀ j' (hj' : j' < ts.length), j < j' → isRequesting d ts[j'] = false)
      ∨ (r = req ∧ ∀ t ∈ ts, isRequesting d t = false) := by
  induction ts generalizing k req with
  | nil =>
    simp only [loop]
    constructor
    · intro h; right; exact ⟨h.symm, by simp⟩
    · rintro (⟨j, hj, _⟩ | ⟨h, _⟩)
      · simp at hj
      · exact h.symm
  | cons t ts ih =>
    simp only [loop]
    rw [ih]
    constructor
    · rintro (⟨j, hj, hr, hreq, hlast⟩ | ⟨hr, hnone⟩)
      · left
        refine ⟨j + 1, by simp; omega, by rw [hr]; congr 1; omega, by simpa using hreq, ?_⟩
        intro j' hj' hlt
        cases j' with
        | zero => omega
        | succ j' => simpa using hlast j' (by simpa using hj') (by omega)
      · by_cases ht : isRequesting d t = true
        · left
          refine ⟨0, by simp, by simp [hr, ht], by simpa using ht, ?_⟩
          intro j' hj' hlt
          cases j' with
          | zero => omega
          | succ j' => simp; exact hnone _ (List.getElem_mem _)
        · right
          simp only [Bool.not_eq_true] at ht
          refine ⟨by simp [hr, ht], ?_⟩
          intro x hx
          cases hx with
          | head => exact ht
          | tail _ hx => exact hnone x hx
    · rintro (⟨j, hj, hr, hreq, hlast⟩ | ⟨hr, hnone⟩)
      · cases j with
        | zero =>
          right
          simp at hreq
          refine ⟨by simp [hr, hreq], ?_⟩
          intro x hx
          obtain ⟨n, hn, rfl⟩ := List.getElem_of_mem hx
          have := hlast (n + 1) (by simp; omega) (by omega)
          simp only [List.getElem_cons_succ] at this
          exact this
        | succ j =>
          left
          refine ⟨j, by simpa using hj, by rw [hr]; congr 1; omega, by simpa using hreq, ?_⟩
          intro j' hj' hlt
          have := hlast (j' + 1) (by simp; omega) (by omega)
          simp only [List.getElem_cons_succ] at this
          exact this
      · right
        have ht := hnone t List.mem_cons_self
        refine ⟨by simp [hr, ht], fun x hx => hnone x (List.mem_cons_of_mem _ hx)⟩

/-! ### thread names -/

/-- the fold of `nameOf` started from an arbitrary accumulator -/
def nameFold (id : Nat) (acc : Option String) (names : List (Nat × Option String)) : Option String :=
  names.foldl (fun acc e => if e.1 = id then (match e.2 with | some n => some n | none => acc) else acc) acc

theorem nameOf_eq (names : List (Nat × Option String)) (id : Nat) : nameOf names id = nameFold id none names := rfl

theorem nameFold_keep (id : Nat) (acc : Option String) (names : List (Nat × Option String))
    (h : ∀ e ∈ names, e.1 = id → e.2 = none) : nameFold id acc names = acc := by
  induction names generalizing acc with
  | nil => rfl
  | cons e rest ih =>
    have he := h e List.mem_cons_self
    have hrest : ∀ x ∈ rest, x.1 = id → x.2 = none := fun x hx => h x (List.mem_cons_of_mem _ hx)
    simp only [nameFold, List.foldl_cons]
    by_cases hid : e.1 = id
    · rw [if_pos hid, he hid]; exact ih _ hrest
    · rw [if_neg hid]; exact ih _ hrest

theorem nameFold_append (id : Nat) (acc : Option String) (a b : List (Nat × Option String)) :
    nameFold id acc (a ++ b) = nameFold id (nameFold id acc a) b := by
  simp [nameFold, List.foldl_append]

/-! ### `optMap`: all-or-nothing map -/

theorem optMap_length {α β : Type} (g : α → Option β) (l : List α) (l' : List β)
    (h : optMap g l = some l') : l'.length = l.length := by
  induction l generalizing l' with
  | nil => simp [optMap] at h; subst h; rfl
  | cons a as ih =>
    simp only [optMap] at h
    split at h
    · cases h
      rename_i b bs _ hbs
      simp [ih bs hbs]
    · cases h

theorem optMap_getElem {α β : Type} (g : α → Option β) (l : List α) (l' : List β)
    (h : optMap g l = some l') (i : Nat) (h1 : i < l.length) (h2 : i < l'.length) :
    g l[i] = some l'[i] := by
  induction l generalizing l' i with
  | nil => simp at h1
  | cons a as ih =>
    simp only [optMap] at h
    split at h
    · cases h
      rename_i b bs hb hbs
      cases i with
      | zero => simpa using hb
      | succ i => simpa using ih bs hbs i (by simpa using h1) (by simpa using h2)
    · cases h

theorem optMap_some_of {α β : Type} (g : α → Option β) (l : List α)
    (h : ∀ a ∈ l, ∃ b, g a = some b) : ∃ l', optMap g l = some l' := by
  induction l with
  | nil => exact ⟨[], rfl⟩
  | cons a as ih =>
    obtain ⟨b, hb⟩ := h a List.mem_cons_self
    obtain ⟨bs, hbs⟩ := ih (fun x hx => h x (List.mem_cons_of_mem _ hx))
    exact ⟨b :: bs, by simp [optMap, hb, hbs]⟩

/-! ### attaching the unloaded-module offsets leaves everything else alone -/

theorem attachFrame_f (ums : List Mod) (f : Walk.Frame) (x : IFrame) (h : attachFrame ums f = some x) :
    x.f = f := by
  unfold attachFrame at h
  split at h
  · cases h; rfl
  · split at h
    · cases h; rfl
    · cases h

theorem optMap_attachFrame_f (ums : List Mod) (fs : List Walk.Frame) (xs : List IFrame)
    (h : optMap (attachFrame ums) fs = some xs) : xs.map (·.f) = fs := by
  induction fs generalizing xs with
  | nil => simp [optMap] at h; subst h; rfl
  | cons f rest ih =>
    simp only [optMap] at h
    split at h
    · cases h
      rename_i b bs hb hbs
      simp [ih bs hbs, attachFrame_f ums f b hb]
    · cases h

/-- what attribution leaves alone: id, name, info, and the walker's frames -/
theorem attachStack_core (ums : List Mod) (p : PreStack) (s : Stack) (h : attachStack ums p = some s) :
    s.id = p.id ∧ s.name = p.name ∧ s.info = p.info ∧ s.frames.map (·.f) = p.frames ∧
    optMap (attachFrame ums) p.frames = some s.frames := by
  unfold attachStack at h
  split at h
  · rename_i fs hfs
    cases h
    exact ⟨rfl, rfl, rfl, optMap_attachFrame_f ums _ _ hfs, hfs⟩
  · cases h

/-- unfolding of `index` on a dump with a thread list -/
theorem index_state_inv (d : Dump) (ts : List Thread) (s : State)
    (hth : d.threads = some ts) (h : index d = .state s) :
    optMap (attachStack (unloadedModules d)) (ts.map (stackOf d)) = some s.stacks ∧
    s.requesting = (loop d 0 ts none).2 ∧
    s.exc = d.exc.map (fun p => (Reason.fromException p.1 (Os.ofPlatformId d.platformId) (Cpu.ofArch d.arch),
                                 Reason.crashAddress p.1 (Os.ofPlatformId d.platformId) (Cpu.ofArch d.arch))) ∧
    s.pid = processId d ∧ s.ctime = createTime d ∧ s.time = d.timestamp ∧
    s.modules = loadedModules d ∧ s.unloaded = unloadedModules d ∧
    s.sys = sysInfo d.platformId d.arch d.sys ∧ s.lsb = d.lsb.map lsbOf ∧
    s.macCrash = macCrashInfo d.macCrash ∧ s.bootArgs = d.bootArgs ∧ s.assertion = none ∧
    s.certs = [] ∧ s.handles = d.handles := by
  unfold index at h
  rw [hth] at h
  simp only at h
  split at h
  · cases h
  · rw [loop_stacks] at h
    split at h
    · cases h
    · rename_i ss hss
      cases h
      refine ⟨hss, rfl, ?_, rfl, rfl, rfl, rfl, rfl, rfl, rfl, rfl, rfl, rfl, rfl, rfl⟩
      cases d.exc with
      | none => rfl
      | some p => obtain ⟨e, c⟩ := p; rfl

end MdModel.Index
