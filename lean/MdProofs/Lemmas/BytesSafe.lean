/-
  MdProofs.Lemmas.BytesSafe — `Safe (K * all.size)` for every reader of `MdModel.Dump`,
  the termination argument of the handle object-info walk, and the iteration bound of the
  directory loop. `MdProofs.C01` states the property theorems on top of these.
-/
import MdProofs.Lemmas.Bytes
namespace MdModel.Dump
open MdModel MdModel.Gen.Layouts

/-- Rust slices (and every allocation) are at most `isize::MAX` bytes long. -/
def SliceLen (n : Nat) : Prop := n < 9223372036854775808

/-- The factor of the allocation bound: no single allocation exceeds `K` times the file length. -/
def K : Nat := 32

/-- What the theorems need of the in-memory element sizes: each vector element is at most four
    times as large in memory as the wire record whose count sizes the vector (the real ratios
    are below 3.8), and an object-info element is at most 16 bytes. `MdModel.Bytes.handle`
    refuses a request whose sizes violate this, so a struct that outgrows the proven bound breaks
    the correspondence loudly. -/
structure MemSizes.Bounded (ms : MemSizes) : Prop where
  rawThread : ms.rawThread ≤ 4 * 48
  thread : ms.thread ≤ 4 * 48
  rawModule : ms.rawModule ≤ 4 * 108
  module : ms.module ≤ 4 * 108
  rawUnloaded : ms.rawUnloaded ≤ 4 * 24
  unloaded : ms.unloaded ≤ 4 * 24
  rawMemDesc : ms.rawMemDesc ≤ 4 * 16
  memory : ms.memory ≤ 4 * 16
  rawMemDesc64 : ms.rawMemDesc64 ≤ 4 * 16
  memory64 : ms.memory64 ≤ 4 * 16
  rawMemInfo : ms.rawMemInfo ≤ 4 * 48
  memInfo : ms.memInfo ≤ 4 * 48
  rawThreadName : ms.rawThreadName ≤ 4 * 12
  handleDesc : ms.handleDesc ≤ 4 * 32
  objInfo : ms.objInfo ≤ 16
  rawThreadInfo : ms.rawThreadInfo ≤ 4 * 64
  threadInfo : ms.threadInfo ≤ 4 * 64
  string : ms.string ≤ 8 * 4
  moduleCrashpad : ms.moduleCrashpad ≤ 10 * 12

theorem MemSizes.bounded_iff (ms : MemSizes) : ms.bounded = true ↔ ms.Bounded := by
  constructor
  · intro h
    simp only [MemSizes.bounded, Bool.and_eq_true, decide_eq_true_eq] at h
    obtain ⟨⟨⟨⟨⟨⟨⟨⟨⟨⟨⟨⟨⟨⟨⟨⟨⟨⟨h1, h2⟩, h3⟩, h4⟩, h5⟩, h6⟩, h7⟩, h8⟩, h9⟩, h10⟩, h11⟩, h12⟩, h13⟩, h14⟩, h15⟩, h16⟩, h17⟩, h18⟩, h19⟩ := h
    exact ⟨h1, h2, h3, h4, h5, h6, h7, h8, h9, h10, h11, h12, h13, h14, h15, h16, h17, h18, h19⟩
  · intro h
    simp only [MemSizes.bounded, Bool.and_eq_true, decide_eq_true_eq]
    exact ⟨⟨⟨⟨⟨⟨⟨⟨⟨⟨⟨⟨⟨⟨⟨⟨⟨⟨h.1, h.2⟩, h.3⟩, h.4⟩, h.5⟩, h.6⟩, h.7⟩, h.8⟩, h.9⟩, h.10⟩, h.11⟩, h.12⟩, h.13⟩, h.14⟩, h.15⟩, h.16⟩, h.17⟩, h.18⟩, h.19⟩

theorem default_bounded : MemSizes.default.Bounded := (MemSizes.bounded_iff _).mp (by decide)

/-! ### arithmetic helpers -/

theorem alloc_bound {count wire mem len c : Nat} (h1 : count * wire ≤ len) (h2 : mem ≤ c * wire) :
    count * mem ≤ c * len :=
  calc count * mem ≤ count * (c * wire) := Nat.mul_le_mul_left _ h2
    _ = c * (count * wire) := by rw [Nat.mul_left_comm]
    _ ≤ c * len := Nat.mul_le_mul_left _ h1

theorem ensureCountInBound_ok {len n size off x : Nat} (h : ensureCountInBound len n size off = .ok x) :
    x = n * size + off ∧ x ≤ len := by
  unfold ensureCountInBound at h
  split at h
  · cases h
  · rename_i v hv
    have ⟨hv1, _⟩ := checkedMul_some hv
    split at h
    · cases h
    · rename_i ex hex
      have ⟨he1, _⟩ := checkedAdd_some hex
      split at h
      · cases h
      · cases h
        subst hv1 he1
        exact ⟨rfl, by omega⟩

theorem mapM_option_length {α β : Type} (f : α → Option β) :
    ∀ (l : List α) (r : List β), l.mapM f = some r → r.length = l.length := by
  intro l
  induction l with
  | nil => intro r h; simp at h; subst h; rfl
  | cons a as ih =>
    intro r h
    simp only [List.mapM_cons] at h
    cases ha : f a with
    | none => simp [ha] at h
    | some b =>
      cases has : as.mapM f with
      | none => simp [ha, has] at h
      | some bs =>
        simp [ha, has] at h
        subst h
        simp [ih bs has]

theorem readEntries_length {l : Layout} {b : Bytes} {e : Endian} {off count : Nat} {es : List (List Nat)}
    (h : readEntries l b e off count = some es) : es.length = count := by
  unfold readEntries at h
  have := mapM_option_length _ _ _ h
  simpa using this

/-- pigeonhole: a duplicate-free list of numbers below `n` has at most `n` elements -/
theorem nodup_length_le (n : Nat) : ∀ l : List Nat, l.Nodup → (∀ x ∈ l, x < n) → l.length ≤ n := by
  induction n with
  | zero =>
    intro l _ hlt
    cases l with
    | nil => simp
    | cons x xs => exact absurd (hlt x (List.mem_cons_self)) (Nat.not_lt_zero _)
  | succ n ih =>
    intro l hnd hlt
    have hnd' : (l.erase n).Nodup := hnd.erase n
    have hlt' : ∀ x ∈ l.erase n, x < n := by
      intro x hx
      have := (hnd.mem_erase_iff).mp hx
      have := hlt x this.2
      omega
    have h1 := ih _ hnd' hlt'
    by_cases hmem : n ∈ l
    · have := List.length_erase_of_mem hmem
      omega
    · rw [List.erase_of_not_mem hmem] at h1
      omega

/-! ### strings -/

theorem readStringUtf16_safe {B : Nat} (b : Bytes) (off : Nat) (e : Endian)
    (hsz : SliceLen b.size) (hB : 2 * b.size ≤ B) : Safe B (readStringUtf16 b off e) := by
  unfold SliceLen at hsz
  unfold readStringUtf16
  split
  · exact safe_pure _
  · rename_i size hsize
    have ⟨h1, h2⟩ := readU32_some hsize
    split
    · exact safe_pure _
    · refine safe_bind (usizeAdd_safe _ ?_) (fun stop hstop => ?_)
      · unfold USIZE_MAX U64MAX; omega
      · have := usizeAdd_ok hstop; subst this
        split
        · exact safe_pure _
        · refine safe_bind (sliceRange_safe _ ⟨by omega, by omega⟩) (fun s _ => ?_)
          refine safe_bind (safe_alloc ?_) (fun _ _ => ?_)
          · omega
          · split <;> exact safe_pure _

theorem cstringScan_some (b : Bytes) : ∀ (fuel off stop : Nat), cstringScan b fuel off = some stop →
    off + 1 ≤ stop ∧ stop ≤ b.size := by
  intro fuel
  induction fuel with
  | zero => intro off stop h; simp [cstringScan] at h
  | succ f ih =>
    intro off stop h
    simp only [cstringScan] at h
    split at h
    · cases h
    · rename_i hv
      cases h
      have := readScalar_some hv
      omega
    · rename_i v hv _
      have := ih _ _ h
      omega

theorem readCStringUtf8_safe {B : Nat} (b : Bytes) (off : Nat) : Safe B (readCStringUtf8 b off) := by
  unfold readCStringUtf8
  split
  · exact safe_pure _
  · rename_i stop hstop
    have ⟨h1, h2⟩ := cstringScan_some b _ _ _ hstop
    refine safe_bind (usizeSub_safe _ (by omega)) (fun last hlast => ?_)
    have ⟨hl, _⟩ := usizeSub_ok hlast
    subst hl
    refine safe_bind (sliceRange_safe _ ⟨by omega, by omega⟩) (fun s _ => ?_)
    exact safe_pure _

/-! ### location slices -/

theorem locationRange_some {len : Nat} {l : Loc} {s e : Nat} (h : locationRange len l = some (s, e)) :
    s ≤ e ∧ e ≤ len := by
  unfold locationRange at h
  split at h
  · cases h
  · split at h
    · cases h; omega
    · cases h

theorem locationSlice_size {b s : Bytes} {l : Loc} (h : locationSlice b l = some s) : s.size ≤ b.size := by
  unfold locationSlice at h
  split at h
  · cases h
  · rename_i st en hr
    cases h
    have := locationRange_some hr
    simp [Array.size_extract]
    omega

/-! ### CodeView -/

theorem cvTail_safe {B : Nat} (src : Bytes) (fixed : Nat) (h1 : fixed ≤ src.size) (h2 : src.size ≤ B) :
    Safe B (cvTail src fixed) := by
  unfold cvTail
  refine safe_bind (usizeSub_safe _ h1) (fun n hn => ?_)
  have ⟨hn1, _⟩ := usizeSub_ok hn
  refine safe_bind (safe_alloc (by omega)) (fun _ _ => safe_pure _)

theorem readCodeview_safe {B : Nat} (all : Bytes) (e : Endian) (loc : Loc) (hB : all.size ≤ B) :
    Safe B (readCodeview all e loc) := by
  unfold readCodeview
  split
  · exact safe_pure _
  · rename_i src hsrc
    have hs := locationSlice_size hsrc
    split
    · exact safe_pure _
    · rename_i sig hsig
      have ⟨hs4, _⟩ := readU32_some hsig
      split
      · split
        · exact safe_pure _
        · rename_i vs hvs
          have h24 : Layout.size CV_PDB70_FIXED = 24 := by decide
          have := readFields_some hvs
          rw [h24] at this ⊢
          cases this with
          | inl h => exact absurd h (by decide)
          | inr h => exact safe_bind (cvTail_safe _ _ (by omega) (by omega)) (fun _ _ => safe_pure _)
      · split
        · split
          · exact safe_pure _
          · rename_i vs hvs
            have h16 : Layout.size CV_PDB20_FIXED = 16 := by decide
            have := readFields_some hvs
            rw [h16] at this ⊢
            cases this with
            | inl h => exact absurd h (by decide)
            | inr h => exact safe_bind (cvTail_safe _ _ (by omega) (by omega)) (fun _ _ => safe_pure _)
        · split
          · exact safe_bind (cvTail_safe _ _ (by omega) (by omega)) (fun _ _ => safe_pure _)
          · exact safe_bind (safe_alloc (by omega)) (fun _ _ => safe_pure _)

/-! ### list headers -/

theorem readStreamList_safe {B : Nat} (l : Layout) (memSz : Nat) (b : Bytes) (e : Endian)
    (hmem : memSz ≤ 4 * Layout.size l) (hB : 4 * b.size ≤ B) : Safe B (readStreamList l memSz b e) := by
  unfold readStreamList
  split
  · exact safe_fail _
  · rename_i count _
    split
    · exact safe_fail _
    · rename_i counted hc
      have ⟨hc1, hc2⟩ := ensureCountInBound_ok hc
      refine safe_bind (usizeSub_safe _ hc2) (fun rest _ => ?_)
      refine safe_bind (x := if rest = 0 then pure 4 else if rest = 4 then usizeAdd _ 4 4 else M.fail _) ?_ (fun off _ => ?_)
      · split
        · exact safe_pure _
        · split
          · exact usizeAdd_safe _ (by decide)
          · exact safe_fail _
      · refine safe_bind (safe_alloc ?_) (fun _ _ => safe_ofOption _ _)
        have := alloc_bound (count := count) (len := b.size) (c := 4) (by omega) hmem
        omega

/-- what a successful `readStreamList` returns has as many entries as the stream can back -/
theorem readStreamList_ok {l : Layout} {memSz : Nat} {b : Bytes} {e : Endian} {es : List (List Nat)}
    (h : (readStreamList l memSz b e).res = .ok es) : es.length * Layout.size l ≤ b.size := by
  unfold readStreamList at h
  split at h
  · cases h
  · rename_i count _
    split at h
    · cases h
    · rename_i counted hc
      have ⟨hc1, hc2⟩ := ensureCountInBound_ok hc
      obtain ⟨_, _, h⟩ := bind_ok h
      obtain ⟨_, _, h⟩ := bind_ok h
      obtain ⟨_, _, h⟩ := bind_ok h
      have := readEntries_length (ofOption_ok h)
      rw [this]; omega

theorem readExStreamList_safe {B : Nat} (l : Layout) (memSz : Nat) (b : Bytes) (e : Endian)
    (hmem : memSz ≤ 4 * Layout.size l) (hB : 4 * b.size ≤ B) : Safe B (readExStreamList l memSz b e) := by
  unfold readExStreamList
  split
  · rename_i hdr ent count hh _ _
    have ⟨_, hh2⟩ := readU32_some hh
    split
    · exact safe_fail _
    · rename_i hent
      split
      · exact safe_fail _
      · rename_i x hc
        have ⟨hc1, hc2⟩ := ensureCountInBound_ok hc
        split
        · exact safe_fail _
        · rename_i pad hpad
          have ⟨hp1, hp2⟩ := checkedSub_some hpad
          refine safe_bind (usizeAdd_safe _ ?_) (fun off _ => ?_)
          · unfold USIZE_MAX U64MAX; omega
          · refine safe_bind (safe_alloc ?_) (fun _ _ => safe_ofOption _ _)
            have hent' : ent = Layout.size l := by
              by_cases h : ent = Layout.size l
              · exact h
              · exact absurd h hent
            subst hent'
            have := alloc_bound (count := count) (len := b.size) (c := 4) (by omega) hmem
            omega
  · exact safe_fail _

theorem readExStreamList_ok {l : Layout} {memSz : Nat} {b : Bytes} {e : Endian} {es : List (List Nat)}
    (h : (readExStreamList l memSz b e).res = .ok es) : es.length * Layout.size l ≤ b.size := by
  unfold readExStreamList at h
  split at h
  · rename_i hdr ent count _ _ _
    split at h
    · cases h
    · rename_i hent
      have hent' : ent = Layout.size l := by
        by_cases h : ent = Layout.size l
        · exact h
        · exact absurd h hent
      split at h
      · cases h
      · rename_i x hc
        have ⟨hc1, hc2⟩ := ensureCountInBound_ok hc
        split at h
        · cases h
        · obtain ⟨_, _, h⟩ := bind_ok h
          obtain ⟨_, _, h⟩ := bind_ok h
          have := readEntries_length (ofOption_ok h)
          rw [this, ← hent']; omega
  · cases h

end MdModel.Dump
