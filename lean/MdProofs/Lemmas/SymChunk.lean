/-
  Chunk independence of the buffer state machine, for every line parser that processes its
  window line by line (`PmSpec`): when no line reaches half the capacity limit, the loop never
  enters recovery and computes the reference semantics `specOut` — whatever the chunk schedule.
-/
import MdProofs.Lemmas.SymStream
import MdProofs.Lemmas.SymLines
namespace MdModel.Stream
open MdModel

/-- the line parser handles exactly the complete lines of its window, in order -/
def PmSpec {σ} (ops : Ops σ) (L : σ → Bytes → LR σ) : Prop :=
  ∀ st w, ops.parseMore st w = pmSpec L st w

/-- every newline-free stretch of the input (every line, the unterminated last one included) is
    shorter than `half` -/
def ShortLines (half : Nat) (input : Bytes) : Prop :=
  ∀ a seg b, input = a ++ seg ++ b → NL ∉ seg → seg.length < half

/-- loop-head invariant of a run that never recovers -/
structure J {σ} (maxCap : Nat) (input : Bytes) (L : σ → Bytes → LR σ) (st0 : σ) (s : St σ) : Prop where
  inv : Inv maxCap input s
  notRec : s.inRecovery = false
  notJust : s.justFinished = false
  noNL : NL ∉ s.buf.data
  aligned : ∃ ls, (∀ l ∈ ls, IsLine l) ∧ cbBytes s = ls.flatten ∧ foldL L st0 ls = .ok s.ps
  fullyIff : s.fullyConsumed = true ↔ (s.buf.data = [] ∧ cbBytes s ≠ [])
  tried : s.triedToGrow = true → s.buf.availableSpace > 0
  chain : ∃ k, s.buf.cap * 2 ^ k = maxCap

theorem isEmpty_append' (a b : Bytes) : (a ++ b).isEmpty = (a.isEmpty && b.isEmpty) := by
  cases a <;> simp

theorem isLine_ne_nil {l : Bytes} (h : IsLine l) : l ≠ [] := by
  obtain ⟨c, _, rfl⟩ := h; simp

theorem flatten_isEmpty_of_lines (ls : List Bytes) (h : ∀ l ∈ ls, IsLine l) :
    ls.flatten.isEmpty = ls.isEmpty := by
  cases ls with
  | nil => rfl
  | cons l rest =>
    have := isLine_ne_nil (h l (by simp))
    cases l with
    | nil => exact absurd rfl this
    | cons b bs => simp

theorem readBlock_facts {σ} (s : St σ) :
    (readBlock s).1.cb = s.cb ∧ (readBlock s).1.ps = s.ps ∧
    (readBlock s).1.fullyConsumed = s.fullyConsumed ∧ (readBlock s).1.triedToGrow = s.triedToGrow ∧
    (readBlock s).1.inRecovery = s.inRecovery ∧ (readBlock s).1.justFinished = s.justFinished ∧
    (readBlock s).1.totalConsumed = s.totalConsumed ∧
    (readBlock s).1.buf.cap = s.buf.cap ∧
    (readBlock s).2 ++ (readBlock s).1.unread = s.unread := by
  obtain ⟨r1, _, _⟩ := readChunk_spec s.buf.availableSpace s.unread s.sched
  refine ⟨rfl, rfl, rfl, rfl, rfl, rfl, rfl, ?_, r1⟩
  unfold readBlock; dsimp only; rw [Buf.fill_cap]

theorem cbBytes_eq {σ} (a b : St σ) (h : a.cb = b.cb) : cbBytes a = cbBytes b := by
  simp [cbBytes, h]

set_option maxHeartbeats 4000000 in
/-- One iteration from a `J` state: either the loop returns what the reference semantics says, or
    it goes on in a `J` state with the same reference answer. -/
theorem step_J {σ} (maxCap : Nat) (input : Bytes) (ops : Ops σ) (L : σ → Bytes → LR σ) (st0 : σ)
    (hspec : PmSpec ops L) (hmax : maxCap ≤ U64MAX) (hshort : ShortLines (maxCap / 2) input)
    (s : St σ) (hJ : J maxCap input L st0 s) :
    (∃ sf, step maxCap ops s =
        .inr (specRest L ops.lines s.ps (!(cbBytes s).isEmpty) (s.buf.data ++ s.unread), sf)) ∨
    (∃ s', step maxCap ops s = .inl s' ∧ J maxCap input L st0 s' ∧
        specRest L ops.lines s'.ps (!(cbBytes s').isEmpty) (s'.buf.data ++ s'.unread) =
        specRest L ops.lines s.ps (!(cbBytes s).isEmpty) (s.buf.data ++ s.unread)) := by
  obtain ⟨hinv, hnr, hnj, hnoNL, ⟨ls0, hls0, hcb0, hfold0⟩, hfully, htried, ⟨k, hk⟩⟩ := hJ
  obtain ⟨sp1, sp2⟩ := step_spec maxCap input ops s hinv
  obtain ⟨f_cb, f_ps, f_fc, f_tg, f_ir, f_jf, f_tc, f_cap, f_un⟩ := readBlock_facts s
  obtain ⟨hm2, hd2, hz2⟩ := readBlock_mid maxCap input s hinv.toMid
  have hcbr : cbBytes (readBlock s).1 = cbBytes s := cbBytes_eq _ _ f_cb
  have hstep : step maxCap ops s =
      if (readBlock s).2.length = 0 then
        zeroBlock maxCap ops (decide (s.buf.availableSpace > 0)) (readBlock s).1
      else parseBlock ops { (readBlock s).1 with triedToGrow := false } := by
    unfold step; simp only [hnr, Bool.false_eq_true, if_false]
  by_cases hz : (readBlock s).2.length = 0
  · -- ===== a zero-length read
    have hnil : (readBlock s).2 = [] := List.eq_nil_of_length_eq_zero hz
    rw [hnil, List.append_nil] at hd2
    rw [hnil, List.nil_append] at f_un
    have hzb : zeroBlock maxCap ops (decide (s.buf.availableSpace > 0)) (readBlock s).1 =
        (if (readBlock s).1.fullyConsumed = true then .inr (.ok (readBlock s).1.ps, (readBlock s).1)
         else if (!(readBlock s).1.triedToGrow && !decide (s.buf.availableSpace > 0)) = true then
           (if satDouble (readBlock s).1.buf.cap > maxCap then .inl { (readBlock s).1 with inRecovery := true }
            else .inl { (readBlock s).1 with buf := (readBlock s).1.buf.grow (satDouble (readBlock s).1.buf.cap),
                                             triedToGrow := true })
         else if (readBlock s).1.totalConsumed = 0 then .inr (.err errEmpty 0, (readBlock s).1)
         else .inr (.err errEof (ops.lines (readBlock s).1.ps), (readBlock s).1)) := by
      unfold zeroBlock
      simp only [f_jf, hnj, Bool.false_and, Bool.false_eq_true, if_false]
    by_cases hfc : s.fullyConsumed = true
    · -- Ok
      left
      have hS : step maxCap ops s = .inr (.ok (readBlock s).1.ps, (readBlock s).1) := by
        rw [hstep, if_pos hz, hzb, if_pos (show (readBlock s).1.fullyConsumed = true from hfc)]
      obtain ⟨hd, hne⟩ := hfully.mp hfc
      obtain ⟨_, hok⟩ := sp2 _ _ hS
      obtain ⟨_, hun⟩ := hok _ rfl
      refine ⟨(readBlock s).1, ?_⟩
      rw [hS]
      rw [f_un] at hun
      rw [hd, hun, f_ps]
      have : (cbBytes s).isEmpty = false := by
        cases h : cbBytes s with
        | nil => exact absurd h hne
        | cons _ _ => rfl
      simp [specRest, this, linesOf, linesAux, foldL]
    · by_cases hgrow : (!(readBlock s).1.triedToGrow && !decide (s.buf.availableSpace > 0)) = true
      · -- the buffer is full: it can still grow
        right
        have hsp : s.buf.availableSpace = 0 := by
          simp only [Bool.and_eq_true, Bool.not_eq_true', decide_eq_false_iff_not] at hgrow
          omega
        have hbuf := hinv.buf
        have hlen : s.buf.data.length < maxCap / 2 := by
          refine hshort (cbBytes s) s.buf.data s.unread ?_ hnoNL
          exact hinv.split.symm
        have hcaplt : s.buf.cap < maxCap := by
          have h1 := hbuf.fits; have h2 := hbuf.half
          simp only [Buf.availableSpace, Buf.end_] at hsp
          omega
        have hk1 : ∃ k', k = k' + 1 := by
          cases k with
          | zero => simp at hk; omega
          | succ k' => exact ⟨k', rfl⟩
        obtain ⟨k', rfl⟩ := hk1
        have h2cap : 2 * s.buf.cap * 2 ^ k' = maxCap := by
          rw [← hk, Nat.pow_succ, Nat.mul_comm 2 s.buf.cap, Nat.mul_assoc, Nat.mul_comm 2 (2 ^ k')]
        have h2le : 2 * s.buf.cap ≤ maxCap := by
          have : 0 < 2 ^ k' := Nat.two_pow_pos k'
          calc 2 * s.buf.cap = 2 * s.buf.cap * 1 := by omega
            _ ≤ 2 * s.buf.cap * 2 ^ k' := Nat.mul_le_mul_left _ this
            _ = maxCap := h2cap
        have hsd : satDouble (readBlock s).1.buf.cap = 2 * s.buf.cap := by
          rw [f_cap]; unfold satDouble; omega
        have hng : ¬ satDouble (readBlock s).1.buf.cap > maxCap := by rw [hsd]; omega
        have hS : step maxCap ops s = .inl { (readBlock s).1 with
            buf := (readBlock s).1.buf.grow (satDouble (readBlock s).1.buf.cap), triedToGrow := true } := by
          rw [hstep, if_pos hz, hzb, if_neg (show ¬ (readBlock s).1.fullyConsumed = true from hfc),
            if_pos hgrow, if_neg hng]
        have hgc : ((readBlock s).1.buf.grow (satDouble (readBlock s).1.buf.cap)).cap = 2 * s.buf.cap := by
          unfold Buf.grow; rw [hsd, f_cap]
          have := hbuf.capPos
          split
          · omega
          · rfl
        have hgp : ((readBlock s).1.buf.grow (satDouble (readBlock s).1.buf.cap)).pos = (readBlock s).1.buf.pos := by
          unfold Buf.grow; split <;> rfl
        have hcb' : cbBytes { (readBlock s).1 with
            buf := (readBlock s).1.buf.grow (satDouble (readBlock s).1.buf.cap), triedToGrow := true }
            = cbBytes s := cbBytes_eq _ _ f_cb
        refine ⟨_, hS, ?_, ?_⟩
        · refine ⟨sp1 _ hS, f_ir.trans hnr, f_jf.trans hnj, ?_, ⟨ls0, hls0, ?_, ?_⟩, ?_, ?_, ⟨k', ?_⟩⟩
          · show NL ∉ ((readBlock s).1.buf.grow _).data
            rw [Buf.grow_data, hd2]; exact hnoNL
          · rw [hcb']; exact hcb0
          · exact hfold0
          · show s.fullyConsumed = true ↔ (((readBlock s).1.buf.grow _).data = [] ∧ _ ≠ [])
            rw [Buf.grow_data, hd2, hcb']
            exact hfully
          · intro _
            have hb2 := hm2.buf
            show ((readBlock s).1.buf.grow (satDouble (readBlock s).1.buf.cap)).availableSpace > 0
            simp only [Buf.availableSpace, Buf.end_, hgc, Buf.grow_data, hgp]
            have h1 := hb2.fits; have h2 := hbuf.capPos
            rw [f_cap] at h1
            omega
          · show ((readBlock s).1.buf.grow (satDouble (readBlock s).1.buf.cap)).cap * 2 ^ k' = maxCap
            rw [hgc]; exact h2cap
        · show specRest L ops.lines (readBlock s).1.ps _ (((readBlock s).1.buf.grow _).data ++ (readBlock s).1.unread) = _
          rw [Buf.grow_data, hd2, f_un, f_ps, hcb']
      · -- end of input with an unterminated rest (or nothing at all)
        left
        have hhad : s.buf.availableSpace > 0 := by
          rw [f_tg] at hgrow
          cases htg : s.triedToGrow with
          | true => exact htried htg
          | false =>
            simp only [htg, Bool.not_false, Bool.true_and, Bool.not_eq_true', decide_eq_false_iff_not,
              Decidable.not_not] at hgrow
            exact hgrow
        have hun : s.unread = [] := by
          rcases hz2 hz with h | h
          · omega
          · rw [f_un] at h; exact h
        have hlo : linesOf s.buf.data = ([], s.buf.data) := linesOf_noNL _ hnoNL
        have htot : s.totalConsumed = (cbBytes s).length := hinv.total
        by_cases ht0 : (readBlock s).1.totalConsumed = 0
        · have hS : step maxCap ops s = .inr (.err errEmpty 0, (readBlock s).1) := by
            rw [hstep, if_pos hz, hzb, if_neg (show ¬ (readBlock s).1.fullyConsumed = true from hfc),
              if_neg hgrow, if_pos ht0]
          refine ⟨(readBlock s).1, ?_⟩
          rw [hS]
          rw [f_tc, htot] at ht0
          have hce : cbBytes s = [] := List.eq_nil_of_length_eq_zero ht0
          rw [hun, List.append_nil]
          simp [specRest, hlo, foldL, hce]
        · have hS : step maxCap ops s = .inr (.err errEof (ops.lines (readBlock s).1.ps), (readBlock s).1) := by
            rw [hstep, if_pos hz, hzb, if_neg (show ¬ (readBlock s).1.fullyConsumed = true from hfc),
              if_neg hgrow, if_neg ht0]
          refine ⟨(readBlock s).1, ?_⟩
          rw [hS]
          rw [f_tc, htot] at ht0
          have hce : (cbBytes s).isEmpty = false := by
            cases h : cbBytes s with
            | nil => simp [h] at ht0
            | cons _ _ => rfl
          have hdne : s.buf.data.isEmpty = false := by
            cases h : s.buf.data with
            | nil =>
              exfalso; apply hfc; apply hfully.mpr
              refine ⟨h, ?_⟩
              intro hc; rw [hc] at hce; simp at hce
            | cons _ _ => rfl
          rw [hun, List.append_nil, f_ps]
          simp [specRest, hlo, foldL, hce, hdne]
  · -- ===== some bytes were read: the parser runs on the window
    have hpm : ops.parseMore (readBlock s).1.ps (readBlock s).1.buf.data =
        pmSpec L s.ps (readBlock s).1.buf.data := by
      have := hspec (readBlock s).1.ps (readBlock s).1.buf.data
      rw [f_ps] at this ⊢; exact this
    have hpb : parseBlock ops { (readBlock s).1 with triedToGrow := false } =
        (match ops.parseMore (readBlock s).1.ps (readBlock s).1.buf.data with
         | .err k l => .inr (.err k l, { (readBlock s).1 with triedToGrow := false, justFinished := false })
         | .panic site => .inr (.panic site, { (readBlock s).1 with triedToGrow := false, justFinished := false })
         | .ok consumed ps' =>
           if consumed > (readBlock s).1.buf.data.length then
             .inr (.panic "callback(&input[..consumed])",
                   { (readBlock s).1 with triedToGrow := false, justFinished := false })
           else .inl { (readBlock s).1 with
                  triedToGrow := false, justFinished := false, ps := ps',
                  totalConsumed := (readBlock s).1.totalConsumed + consumed,
                  cb := (readBlock s).1.buf.data.take consumed :: (readBlock s).1.cb,
                  fullyConsumed := ((readBlock s).1.buf.data.length == consumed),
                  buf := (readBlock s).1.buf.consume consumed }) := by
      unfold parseBlock
      rw [if_neg (by show ¬ ((readBlock s).1.inRecovery = true); rw [f_ir, hnr]; simp)]
      rfl
    -- the window and its lines
    have hw : s.buf.data ++ s.unread = ((linesOf (readBlock s).1.buf.data).1).flatten ++
        ((linesOf (readBlock s).1.buf.data).2 ++ (readBlock s).1.unread) := by
      rw [← List.append_assoc, linesOf_flatten, hd2, List.append_assoc, f_un]
    have hlines := linesOf_isLine (readBlock s).1.buf.data
    unfold pmSpec at hpm
    cases hf : foldL L s.ps (linesOf (readBlock s).1.buf.data).1 with
    | err k n =>
      left
      rw [hf] at hpm
      have hS : step maxCap ops s =
          .inr (.err k n, { (readBlock s).1 with triedToGrow := false, justFinished := false }) := by
        rw [hstep, if_neg hz, hpb, hpm]
      exact ⟨{ (readBlock s).1 with triedToGrow := false, justFinished := false }, by rw [hS, hw, specRest_err L ops.lines s.ps _ _ hlines _ k n hf]⟩
    | panic e =>
      left
      rw [hf] at hpm
      have hS : step maxCap ops s =
          .inr (.panic e, { (readBlock s).1 with triedToGrow := false, justFinished := false }) := by
        rw [hstep, if_neg hz, hpb, hpm]
      exact ⟨{ (readBlock s).1 with triedToGrow := false, justFinished := false }, by rw [hS, hw, specRest_panic L ops.lines s.ps _ _ hlines _ e hf]⟩
    | ok st' =>
      right
      rw [hf] at hpm
      have hwl : (readBlock s).1.buf.data.length =
          (linesOf (readBlock s).1.buf.data).1.flatten.length + (linesOf (readBlock s).1.buf.data).2.length := by
        rw [← List.length_append, linesOf_flatten]
      have hle : ¬ (linesOf (readBlock s).1.buf.data).1.flatten.length > (readBlock s).1.buf.data.length := by omega
      have hS : step maxCap ops s = .inl { (readBlock s).1 with
            triedToGrow := false, justFinished := false, ps := st',
            totalConsumed := (readBlock s).1.totalConsumed + (linesOf (readBlock s).1.buf.data).1.flatten.length,
            cb := (readBlock s).1.buf.data.take (linesOf (readBlock s).1.buf.data).1.flatten.length :: (readBlock s).1.cb,
            fullyConsumed := ((readBlock s).1.buf.data.length == (linesOf (readBlock s).1.buf.data).1.flatten.length),
            buf := (readBlock s).1.buf.consume (linesOf (readBlock s).1.buf.data).1.flatten.length } := by
        rw [hstep, if_neg hz, hpb, hpm]
        dsimp only
        rw [if_neg hle]
      have htake : (readBlock s).1.buf.data.take (linesOf (readBlock s).1.buf.data).1.flatten.length =
          (linesOf (readBlock s).1.buf.data).1.flatten := by
        conv => lhs; arg 2; rw [← linesOf_flatten (readBlock s).1.buf.data]
        exact List.take_left
      have hdrop : (readBlock s).1.buf.data.drop (linesOf (readBlock s).1.buf.data).1.flatten.length =
          (linesOf (readBlock s).1.buf.data).2 := by
        conv => lhs; arg 2; rw [← linesOf_flatten (readBlock s).1.buf.data]
        exact List.drop_left
      have hcb' : cbBytes { (readBlock s).1 with
            triedToGrow := false, justFinished := false, ps := st',
            totalConsumed := (readBlock s).1.totalConsumed + (linesOf (readBlock s).1.buf.data).1.flatten.length,
            cb := (readBlock s).1.buf.data.take (linesOf (readBlock s).1.buf.data).1.flatten.length :: (readBlock s).1.cb,
            fullyConsumed := ((readBlock s).1.buf.data.length == (linesOf (readBlock s).1.buf.data).1.flatten.length),
            buf := (readBlock s).1.buf.consume (linesOf (readBlock s).1.buf.data).1.flatten.length }
            = cbBytes s ++ (linesOf (readBlock s).1.buf.data).1.flatten := by
        rw [cbBytes_push (readBlock s).1 _ _ rfl, htake, hcbr]
      refine ⟨_, hS, ?_, ?_⟩
      · refine ⟨sp1 _ hS, f_ir.trans hnr, rfl, ?_, ⟨ls0 ++ (linesOf (readBlock s).1.buf.data).1, ?_, ?_, ?_⟩, ?_,
          fun h => (by cases h), ⟨k, ?_⟩⟩
        · show NL ∉ ((readBlock s).1.buf.consume _).data
          rw [Buf.consume_data, hdrop]; exact linesOf_rest_noNL _
        · intro l hl
          rcases List.mem_append.mp hl with h | h
          · exact hls0 l h
          · exact hlines l h
        · rw [hcb', hcb0, List.flatten_append]
        · rw [foldL_append, hfold0]; exact hf
        · show ((readBlock s).1.buf.data.length == (linesOf (readBlock s).1.buf.data).1.flatten.length) = true ↔
            (((readBlock s).1.buf.consume _).data = [] ∧ _ ≠ [])
          rw [Buf.consume_data, hdrop, hcb']
          constructor
          · intro h
            have h' : (readBlock s).1.buf.data.length = (linesOf (readBlock s).1.buf.data).1.flatten.length := by
              simpa using h
            have ht : (linesOf (readBlock s).1.buf.data).2 = [] := List.eq_nil_of_length_eq_zero (by omega)
            refine ⟨ht, ?_⟩
            intro hc
            have h2 := (List.append_eq_nil_iff.mp hc).2
            rw [h2] at h'
            have hpos : 0 < (readBlock s).2.length := Nat.pos_of_ne_zero hz
            rw [hd2] at h'
            simp only [List.length_append, List.length_nil] at h'
            omega
          · intro ⟨ht, _⟩
            rw [ht] at hwl
            simp only [List.length_nil, Nat.add_zero] at hwl
            simp [hwl]
        · show ((readBlock s).1.buf.consume _).cap * 2 ^ k = maxCap
          rw [Buf.consume_cap, f_cap]; exact hk
      · show specRest L ops.lines st' _ (((readBlock s).1.buf.consume _).data ++ (readBlock s).1.unread) = _
        rw [Buf.consume_data, hdrop, hw, specRest_append L ops.lines s.ps st' _ _ hlines _ hf]
        congr 1
        rw [hcb', isEmpty_append', flatten_isEmpty_of_lines _ hlines]
        cases (cbBytes s).isEmpty <;> cases (linesOf (readBlock s).1.buf.data).1.isEmpty <;> rfl


theorem run_J {σ} (maxCap : Nat) (input : Bytes) (ops : Ops σ) (L : σ → Bytes → LR σ) (st0 : σ)
    (hspec : PmSpec ops L) (hmax : maxCap ≤ U64MAX) (hshort : ShortLines (maxCap / 2) input) :
    ∀ (fuel : Nat) (s : St σ), J maxCap input L st0 s → measure s < fuel →
      ∃ sf, run maxCap ops fuel s =
        some (specRest L ops.lines s.ps (!(cbBytes s).isEmpty) (s.buf.data ++ s.unread), sf) := by
  intro fuel
  induction fuel with
  | zero => intro s _ h; omega
  | succ n ih =>
    intro s hJ hm
    unfold run
    rcases step_J maxCap input ops L st0 hspec hmax hshort s hJ with ⟨sf, h⟩ | ⟨s', h, hJ', heq⟩
    · rw [h]; exact ⟨sf, rfl⟩
    · rw [h]
      have := step_measure maxCap ops s s' h
      obtain ⟨sf, hr⟩ := ih s' hJ' (by omega)
      exact ⟨sf, by show run maxCap ops n s' = _; rw [hr, heq]⟩

theorem init_J {σ} (maxCap initCap : Nat) (input : Bytes) (L : σ → Bytes → LR σ) (st0 : σ) (sched : List Nat)
    (h0 : 0 < initCap) (hchain : ∃ k, initCap * 2 ^ k = maxCap) :
    J maxCap input L st0 (init initCap st0 input sched) := by
  have hle : initCap ≤ maxCap := by
    obtain ⟨k, hk⟩ := hchain
    have : 0 < 2 ^ k := Nat.two_pow_pos k
    calc initCap = initCap * 1 := by omega
      _ ≤ initCap * 2 ^ k := Nat.mul_le_mul_left _ this
      _ = maxCap := hk
  refine ⟨init_inv maxCap initCap st0 input sched h0 hle, rfl, rfl, ?_, ⟨[], ?_, ?_, ?_⟩, ?_, ?_, hchain⟩
  · simp [init, Buf.withCapacity]
  · intro l hl; cases hl
  · simp [init, cbBytes]
  · rfl
  · simp [init, cbBytes]
  · intro h; cases h

/-- **The buffer machine computes the reference semantics, whatever the chunk schedule**, provided
    the parser works line by line and no line reaches half the capacity limit. -/
theorem machine_eq_spec {σ} (maxCap initCap : Nat) (input : Bytes) (ops : Ops σ) (L : σ → Bytes → LR σ)
    (st0 : σ) (sched : List Nat)
    (hspec : PmSpec ops L) (hmax : maxCap ≤ U64MAX) (h0 : 0 < initCap)
    (hchain : ∃ k, initCap * 2 ^ k = maxCap) (hshort : ShortLines (maxCap / 2) input) :
    ∃ sf, run maxCap ops (fuelFor input) (init initCap st0 input sched) =
      some (specOut L ops.lines st0 input, sf) := by
  obtain ⟨sf, h⟩ := run_J maxCap input ops L st0 hspec hmax hshort (fuelFor input) _
    (init_J maxCap initCap input L st0 sched h0 hchain) (measure_init initCap st0 input sched)
  refine ⟨sf, ?_⟩
  rw [h]
  simp [specOut, init, cbBytes, Buf.withCapacity]

end MdModel.Stream
