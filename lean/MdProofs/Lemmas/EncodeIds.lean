/-
  MdProofs.Lemmas.EncodeIds — formatting lemmas behind `ids_as_documented`: the hex of a number's
  big-endian bytes is the number's zero-padded hex; bytes → number → bytes is the identity.
-/
import MdProofs.Lemmas.Encode
namespace MdModel.Encode
open MdModel MdModel.Dump

theorem hexBytes_append (dig : Nat → Char) (xs ys : List UInt8) :
    hexBytes dig (xs ++ ys) = hexBytes dig xs ++ hexBytes dig ys := by
  simp [hexBytes]

theorem hexPad_two (dig : Nat → Char) (v : Nat) : hexPad dig 2 v = [dig (v / 16 % 16), dig (v % 16)] := by
  simp [hexPad]

/-- the hex of the `w` big-endian bytes of `v` = `v` as `2w` zero-padded hex digits -/
theorem hexBytes_encNat_big (dig : Nat → Char) (w v : Nat) :
    hexBytes dig (encNat .big w v) = hexPad dig (2 * w) v := by
  induction w generalizing v with
  | zero => simp [encNat, leBytes, hexBytes, hexPad]
  | succ n ih =>
    have ih' := ih (v / 256)
    simp only [encNat] at ih' ⊢
    simp only [leBytes, List.reverse_cons, hexBytes_append, ih']
    have h2 : 2 * (n + 1) = 2 * n + 1 + 1 := by omega
    rw [h2]
    simp only [hexPad, hexBytes, List.flatMap_cons, List.flatMap_nil, List.append_nil, UInt8.toNat_ofNat',
      List.nil_append, List.append_assoc, List.cons_append]
    have e1 : v / 16 / 16 = v / 256 := by omega
    have e2 : v % 256 % 2 ^ 8 / 16 % 16 = v / 16 % 16 := by omega
    have e3 : v % 256 % 2 ^ 8 % 16 = v % 16 := by omega
    rw [e2, e3]
    try rw [e1]

theorem leBytes_leNat (bs : List UInt8) : leBytes bs.length (leNat bs) = bs := by
  induction bs with
  | nil => rfl
  | cons x xs ih =>
    have hx : x.toNat < 256 := x.toNat_lt
    simp only [List.length_cons, leBytes, leNat]
    have h1 : (x.toNat + 256 * leNat xs) % 256 = x.toNat := by omega
    have h2 : (x.toNat + 256 * leNat xs) / 256 = leNat xs := by omega
    rw [h1, h2, ih]
    simp

/-- reading bytes as a big-endian number and writing it big-endian again gives the bytes back -/
theorem encNat_big_decodeNat_big (bs : List UInt8) : encNat .big bs.length (decodeNat .big bs) = bs := by
  have := leBytes_leNat bs.reverse
  simp only [List.length_reverse] at this
  simp [encNat, decodeNat, this]

/-- reading bytes as a little-endian number and writing it big-endian reverses them -/
theorem encNat_big_decodeNat_little (bs : List UInt8) : encNat .big bs.length (decodeNat .little bs) = bs.reverse := by
  simp [encNat, decodeNat, leBytes_leNat]

end MdModel.Encode
