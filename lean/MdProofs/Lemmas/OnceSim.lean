/-
  C12 helper lemmas: the dynamic machine of `MdModel.OnceG` (what a task does next depends on the
  result it observed) and the base machine of `MdModel.OnceCore` on the statically compiled programs
  are in lock step, poll for poll, for every schedule (`sim_exec`).

  The only fact about reachable states the simulation needs is `DoneOk`: a remembered value is the
  supplier's outcome for that slot — then "what the task observed" and "what the supplier table says"
  coincide, and the dynamic decision equals the static one.
-/
import MdProofs.Lemmas.OnceWake
import MdModel.OnceG
namespace MdModel.Once
open MdModel

/-! ## abstraction -/

def absT (cfg : ICfg) (T : GTask) : Task :=
  match T.ctl with
  | .ready => ⟨.ready, compS cfg 0 T.rest, T.woken⟩
  | .waiting i => ⟨.waiting i.slot, compS cfg (skipOf (cfg.outcome i.slot) i) T.rest, T.woken⟩
  | .inSup i n => ⟨.inSup i.slot n, compS cfg (skipOf (cfg.outcome i.slot) i) T.rest, T.woken⟩
  | .fin => ⟨.fin, [], T.woken⟩

def absS (cfg : ICfg) (s : GState) : State :=
  ⟨fun u => absT cfg (s.task u), s.slot, s.waiters, s.requested, s.processed, s.log⟩

def DoneOk (cfg : ICfg) (s : GState) : Prop := ∀ k r, s.slot k = .done r → r = cfg.outcome k

@[simp] theorem absT_woken (cfg : ICfg) (T : GTask) : (absT cfg T).woken = T.woken := by
  unfold absT; split <;> rfl

@[simp] theorem absS_slot (cfg : ICfg) (s : GState) : (absS cfg s).slot = s.slot := rfl
@[simp] theorem absS_waiters (cfg : ICfg) (s : GState) : (absS cfg s).waiters = s.waiters := rfl
@[simp] theorem absS_log (cfg : ICfg) (s : GState) : (absS cfg s).log = s.log := rfl
@[simp] theorem absS_requested (cfg : ICfg) (s : GState) : (absS cfg s).requested = s.requested := rfl
@[simp] theorem absS_processed (cfg : ICfg) (s : GState) : (absS cfg s).processed = s.processed := rfl
@[simp] theorem absS_task (cfg : ICfg) (s : GState) (u : Nat) :
    (absS cfg s).task u = absT cfg (s.task u) := rfl

@[simp] theorem compile_sup (cfg : ICfg) : (compile cfg).sup = cfg.sup := rfl
@[simp] theorem compile_outcome (cfg : ICfg) (k : Nat) : (compile cfg).outcome k = cfg.outcome k := rfl
@[simp] theorem compile_ntasks (cfg : ICfg) : (compile cfg).ntasks = cfg.ntasks := by
  simp [compile, Cfg.ntasks, ICfg.ntasks]

theorem compile_prog (cfg : ICfg) (t : Nat) : (compile cfg).prog t = compS cfg 0 (cfg.prog t) := by
  unfold compile Cfg.prog ICfg.prog
  by_cases ht : t < cfg.progs.length
  · simp [List.getD_eq_getElem?_getD, ht]
  · simp [List.getD_eq_getElem?_getD, ht, compS]

theorem compS_drop (cfg : ICfg) (n : Nat) (l : List Item) :
    compS cfg 0 (l.drop n) = compS cfg n l := by
  induction l generalizing n with
  | nil => cases n <;> simp [compS]
  | cons a l ih =>
    cases n with
    | zero => simp
    | succ n => simp [compS, ih]

/-! ## the helpers commute with the abstraction -/

theorem absS_gsetWoken (cfg : ICfg) (s : GState) (t : Nat) (b : Bool) :
    absS cfg (gsetWoken s t b) = setWoken (absS cfg s) t b := by
  unfold absS gsetWoken setWoken
  simp only [State.mk.injEq, and_true]
  funext u
  simp only [upd_apply]
  split
  · subst_vars
    unfold absT
    cases (s.task u).ctl <;> rfl
  · rfl

theorem absS_gemit (cfg : ICfg) (s : GState) (e : Event) :
    absS cfg (gemit s e) = emit (absS cfg s) e := rfl

theorem absS_gsetSlot (cfg : ICfg) (s : GState) (k : Nat) (v : Slot) :
    absS cfg (gsetSlot s k v) = setSlot (absS cfg s) k v := rfl

theorem absS_gsetWaiters (cfg : ICfg) (s : GState) (k : Nat) (ws : List (Nat × Bool)) :
    absS cfg (gsetWaiters s k ws) = setWaiters (absS cfg s) k ws := rfl

theorem absS_gunlock (cfg : ICfg) (s : GState) (k : Nat) :
    absS cfg (gunlock s k) = unlock (absS cfg s) k := by
  unfold gunlock unlock
  simp only [absS_waiters]
  split
  · rename_i hw; simp only [hw]; rw [absS_gsetWoken, absS_gsetWaiters]
  · rename_i hw
    split
    · rename_i hw'; exact absurd hw' (hw _ _)
    · rfl

theorem absS_gsetCtl (cfg : ICfg) (s : GState) (t : Nat) (c : GCtl) (r : List Item)
    (c' : Ctl) (r' : List Nat)
    (h : ∀ w, absT cfg ⟨c, r, w⟩ = ⟨c', r', w⟩) :
    absS cfg (gsetCtl s t c r) = setCtl (absS cfg s) t c' r' := by
  unfold absS gsetCtl setCtl
  simp only [State.mk.injEq, and_true]
  funext u
  simp only [upd_apply]
  split
  · subst_vars
    rw [h]; simp
  · rfl

theorem absT_ready (cfg : ICfg) (r : List Item) (w : Bool) :
    absT cfg ⟨.ready, r, w⟩ = ⟨.ready, compS cfg 0 r, w⟩ := rfl
theorem absT_waiting (cfg : ICfg) (i : Item) (r : List Item) (w : Bool) :
    absT cfg ⟨.waiting i, r, w⟩ =
      ⟨.waiting i.slot, compS cfg (skipOf (cfg.outcome i.slot) i) r, w⟩ := rfl
theorem absT_inSup (cfg : ICfg) (i : Item) (n : Nat) (r : List Item) (w : Bool) :
    absT cfg ⟨.inSup i n, r, w⟩ =
      ⟨.inSup i.slot n, compS cfg (skipOf (cfg.outcome i.slot) i) r, w⟩ := rfl
theorem absT_fin (cfg : ICfg) (r : List Item) (w : Bool) :
    absT cfg ⟨.fin, r, w⟩ = ⟨.fin, [], w⟩ := rfl

/-! ## `DoneOk` is preserved -/

theorem doneOk_gsetWoken {cfg : ICfg} {s : GState} (t : Nat) (b : Bool) (h : DoneOk cfg s) :
    DoneOk cfg (gsetWoken s t b) := h

theorem doneOk_gunlock {cfg : ICfg} {s : GState} (k : Nat) (h : DoneOk cfg s) :
    DoneOk cfg (gunlock s k) := by
  unfold gunlock; split
  · exact h
  · exact h

theorem doneOk_gcomplete {cfg : ICfg} {s : GState} (t : Nat) (i : Item) (r : List Item)
    (h : DoneOk cfg s) : DoneOk cfg (gcomplete cfg t i r s) := by
  unfold gcomplete
  apply doneOk_gunlock
  intro k res hs
  simp only [gsetCtl, gemit, gsetSlot, upd_apply] at hs
  split at hs
  · subst_vars; cases hs; rfl
  · exact h k res hs

theorem doneOk_glookup {cfg : ICfg} {s : GState} (t : Nat) (i : Item) (r : List Item)
    (h : DoneOk cfg s) : DoneOk cfg (glookup cfg t i r s).1 := by
  unfold glookup
  split
  · exact h
  · apply doneOk_gunlock; exact h
  · have key : DoneOk cfg (gsetSlot (gemit { gsetWaiters s i.slot (deregister (s.waiters i.slot) t) with
        requested := (gsetWaiters s i.slot (deregister (s.waiters i.slot) t)).requested + 1 }
        (.call i.slot)) i.slot (.held t)) := by
      intro k res hs
      simp only [gsetSlot, gemit, gsetWaiters, upd_apply] at hs
      split at hs
      · cases hs
      · exact h k res hs
    split
    · exact doneOk_gcomplete t i r (s := gsetCtl _ t (.inSup i 0) r) key
    · exact key

theorem doneOk_grunReady {cfg : ICfg} (t : Nat) (n : Nat) (l : List Item) {s : GState}
    (h : DoneOk cfg s) : DoneOk cfg (grunReady cfg t n l s) := by
  induction l generalizing n s with
  | nil => unfold grunReady; exact h
  | cons a l ih =>
    cases n with
    | succ n => unfold grunReady; exact ih n h
    | zero =>
      unfold grunReady
      have hl := doneOk_glookup t a l h
      split
      · rename_i s' res heq; rw [heq] at hl; exact ih _ hl
      · rename_i s' heq; rw [heq] at hl; exact hl

theorem doneOk_gpoll {cfg : ICfg} (t : Nat) {s : GState} (h : DoneOk cfg s) :
    DoneOk cfg (gpoll cfg t s) := by
  unfold gpoll
  simp only
  split
  · exact h
  · exact doneOk_grunReady t _ _ (doneOk_gsetWoken t false h)
  · rename_i i _
    have hl := doneOk_glookup t i (s.task t).rest (doneOk_gsetWoken t false h)
    split
    · rename_i s' res heq; rw [heq] at hl; exact doneOk_grunReady t _ _ hl
    · rename_i s' heq; rw [heq] at hl; exact hl
  · exact h
  · exact doneOk_grunReady t _ _ (doneOk_gcomplete t _ _ (doneOk_gsetWoken t false h))

theorem doneOk_gexec {cfg : ICfg} (sched : List Nat) {s : GState} (h : DoneOk cfg s) :
    DoneOk cfg (gexec cfg sched s) := by
  induction sched generalizing s with
  | nil => exact h
  | cons t ts ih => exact ih (doneOk_gpoll t h)

theorem doneOk_ginit (cfg : ICfg) : DoneOk cfg (ginit cfg) := by
  intro k r h; simp [ginit] at h

/-! ## simulation, function by function -/

theorem sim_gcomplete (cfg : ICfg) (t : Nat) (i : Item) (r : List Item) (s : GState) :
    absS cfg (gcomplete cfg t i r s) =
      complete (compile cfg) t i.slot (compS cfg (skipOf (cfg.outcome i.slot) i) r) (absS cfg s) := by
  unfold gcomplete complete
  simp only [compile_outcome]
  rw [absS_gunlock]
  congr 1
  rw [absS_gsetCtl cfg _ t .ready _ .ready (compS cfg (skipOf (cfg.outcome i.slot) i) r)
    (fun w => by rw [absT_ready, compS_drop])]
  rfl

/-- one lookup: same successor state, same "completed" flag, and what was observed is the
    supplier's outcome -/
theorem sim_glookup (cfg : ICfg) (t : Nat) (i : Item) (r : List Item) {s : GState}
    (h : DoneOk cfg s) :
    absS cfg (glookup cfg t i r s).1 =
        (lookup (compile cfg) t i.slot (compS cfg (skipOf (cfg.outcome i.slot) i) r) (absS cfg s)).1 ∧
    ((glookup cfg t i r s).2.isSome =
        (lookup (compile cfg) t i.slot (compS cfg (skipOf (cfg.outcome i.slot) i) r) (absS cfg s)).2) ∧
    (∀ res, (glookup cfg t i r s).2 = some res → res = cfg.outcome i.slot) := by
  unfold glookup lookup
  simp only [absS_slot, absS_waiters, compile_sup]
  cases hs : s.slot i.slot with
  | held u =>
    simp only
    refine ⟨?_, rfl, by simp⟩
    rw [absS_gsetCtl cfg _ t (.waiting i) r (.waiting i.slot)
      (compS cfg (skipOf (cfg.outcome i.slot) i) r) (fun w => absT_waiting cfg i r w)]
    rfl
  | done res =>
    simp only
    have hres : res = cfg.outcome i.slot := h _ _ hs
    refine ⟨?_, rfl, by intro res' h'; cases h'; exact hres⟩
    rw [absS_gunlock]
    congr 1
    rw [absS_gsetCtl cfg _ t .ready _ .ready (compS cfg (skipOf (cfg.outcome i.slot) i) r)
      (fun w => by rw [absT_ready, compS_drop, hres])]
    rfl
  | empty =>
    simp only
    cases hd : (cfg.sup i.slot).delay with
    | zero =>
      simp only
      refine ⟨?_, rfl, by intro res' h'; cases h'; rfl⟩
      rw [sim_gcomplete]
      congr 1
      rw [absS_gsetCtl cfg _ t (.inSup i 0) r (.inSup i.slot 0)
        (compS cfg (skipOf (cfg.outcome i.slot) i) r) (fun w => absT_inSup cfg i 0 r w)]
      rfl
    | succ n =>
      simp only
      refine ⟨?_, rfl, by simp⟩
      rw [absS_gsetWoken]
      congr 1
      rw [absS_gsetCtl cfg _ t (.inSup i n) r (.inSup i.slot n)
        (compS cfg (skipOf (cfg.outcome i.slot) i) r) (fun w => absT_inSup cfg i n r w)]
      rfl

theorem sim_grunReady (cfg : ICfg) (t : Nat) (n : Nat) (l : List Item) {s : GState}
    (h : DoneOk cfg s) :
    absS cfg (grunReady cfg t n l s) = runReady (compile cfg) t (compS cfg n l) (absS cfg s) := by
  induction l generalizing n s with
  | nil =>
    unfold grunReady
    simp only [compS, runReady]
    exact absS_gsetCtl cfg s t .fin [] .fin [] (fun w => absT_fin cfg [] w)
  | cons a l ih =>
    cases n with
    | succ n => unfold grunReady; simp only [compS]; exact ih n h
    | zero =>
      unfold grunReady
      simp only [compS]
      unfold runReady
      obtain ⟨h1, h2, h3⟩ := sim_glookup cfg t a l h
      have hd := doneOk_glookup t a l h
      split
      · rename_i s' res heq
        rw [heq] at h1 h2 h3 hd
        have hres := h3 res rfl
        simp only [Option.isSome_some] at h2
        split
        · rename_i sb heqb
          rw [heqb] at h1
          simp only at h1
          rw [hres, ih _ hd, h1]
        · rename_i sb heqb
          rw [heqb] at h2; simp at h2
      · rename_i s' heq
        rw [heq] at h1 h2
        simp only [Option.isSome_none] at h2
        split
        · rename_i sb heqb
          rw [heqb] at h2; simp at h2
        · rename_i sb heqb
          rw [heqb] at h1
          exact h1

theorem sim_gpoll (cfg : ICfg) (t : Nat) {s : GState} (h : DoneOk cfg s) :
    absS cfg (gpoll cfg t s) = poll (compile cfg) t (absS cfg s) := by
  unfold gpoll poll
  simp only [absS_task]
  cases hc : (s.task t).ctl with
  | fin => simp [absT, hc]
  | ready =>
    simp only [absT, hc]
    rw [sim_grunReady cfg t 0 _ (doneOk_gsetWoken t false h), absS_gsetWoken]
  | waiting i =>
    simp only [absT, hc]
    have hw := doneOk_gsetWoken (cfg := cfg) t false h
    obtain ⟨h1, h2, h3⟩ := sim_glookup cfg t i (s.task t).rest hw
    have hd := doneOk_glookup t i (s.task t).rest hw
    rw [absS_gsetWoken] at h1 h2
    split
    · rename_i s' res heq
      rw [heq] at h1 h2 h3 hd
      have hres := h3 res rfl
      simp only [Option.isSome_some] at h2
      split
      · rename_i sb heqb
        rw [heqb] at h1
        simp only at h1
        rw [hres, sim_grunReady cfg t _ _ hd, h1]
      · rename_i sb heqb
        rw [heqb] at h2; simp at h2
    · rename_i s' heq
      rw [heq] at h1 h2
      simp only [Option.isSome_none] at h2
      split
      · rename_i sb heqb
        rw [heqb] at h2; simp at h2
      · rename_i sb heqb
        rw [heqb] at h1
        exact h1
  | inSup i n =>
    cases n with
    | succ n =>
      simp only [absT, hc]
      rw [absS_gsetWoken]
      congr 1
      exact absS_gsetCtl cfg s t (.inSup i n) _ (.inSup i.slot n) _ (fun w => absT_inSup cfg i n _ w)
    | zero =>
      simp only [absT, hc]
      rw [sim_grunReady cfg t _ _ (doneOk_gcomplete t _ _ (doneOk_gsetWoken t false h)),
        sim_gcomplete, absS_gsetWoken]

theorem sim_gexec (cfg : ICfg) (sched : List Nat) {s : GState} (h : DoneOk cfg s) :
    absS cfg (gexec cfg sched s) = exec (compile cfg) sched (absS cfg s) := by
  induction sched generalizing s with
  | nil => rfl
  | cons t ts ih =>
    simp only [gexec, exec]
    rw [ih (doneOk_gpoll t h), sim_gpoll cfg t h]

theorem absS_ginit (cfg : ICfg) : absS cfg (ginit cfg) = init (compile cfg) := by
  unfold absS ginit init
  simp only [State.mk.injEq, and_true, compile_ntasks]
  funext u
  split
  · simp [absT, compile_prog]
  · simp [absT]

/-- **simulation**: after every schedule the dynamic machine's state abstracts to the state of the
    base machine on the compiled configuration after the same schedule -/
theorem sim_exec (cfg : ICfg) (sched : List Nat) :
    absS cfg (gexec cfg sched (ginit cfg)) = exec (compile cfg) sched (init (compile cfg)) := by
  rw [sim_gexec cfg sched (doneOk_ginit cfg), absS_ginit]

/-- in particular both machines produce the same event log -/
theorem sim_log (cfg : ICfg) (sched : List Nat) :
    (gexec cfg sched (ginit cfg)).log = (exec (compile cfg) sched (init (compile cfg))).log := by
  rw [← sim_exec]; rfl

theorem sim_isFin (cfg : ICfg) (s : GState) (t : Nat) : gisFin s t = isFin (absS cfg s) t := by
  unfold gisFin isFin
  simp only [absS_task]
  unfold absT
  cases (s.task t).ctl <;> rfl

theorem sim_allFin (cfg : ICfg) (s : GState) : gallFin cfg s = allFin (compile cfg) (absS cfg s) := by
  unfold gallFin allFin
  simp only [compile_ntasks]
  congr 1
  funext t
  exact sim_isFin cfg s t

theorem sim_runnable (cfg : ICfg) (s : GState) :
    grunnable cfg s = runnable (compile cfg) (absS cfg s) := by
  unfold grunnable runnable
  simp only [compile_ntasks, absS_task, absT_woken, sim_isFin cfg]

theorem sim_gfinish (cfg : ICfg) (f : Nat) {s : GState} (h : DoneOk cfg s) :
    absS cfg (gfinish cfg f s) = finish (compile cfg) f (absS cfg s) ∧ DoneOk cfg (gfinish cfg f s) := by
  induction f generalizing s with
  | zero => exact ⟨rfl, h⟩
  | succ f ih =>
    unfold gfinish finish
    rw [sim_allFin]
    split
    · exact ⟨rfl, h⟩
    · have hd : DoneOk cfg (groundRobin cfg s) := doneOk_gexec _ h
      have := ih hd
      unfold groundRobin at this hd ⊢
      unfold roundRobin
      rw [sim_gexec cfg _ h] at this
      rw [compile_ntasks]
      exact this

theorem sim_gfinishW (cfg : ICfg) (f : Nat) {s : GState} (h : DoneOk cfg s) :
    absS cfg (gfinishW cfg f s) = finishW (compile cfg) f (absS cfg s) := by
  induction f generalizing s with
  | zero => rfl
  | succ f ih =>
    unfold gfinishW finishW
    rw [sim_allFin, sim_runnable]
    split
    · rfl
    · split
      · rfl
      · rw [ih (doneOk_gexec _ h), sim_gexec cfg _ h]

end MdModel.Once
