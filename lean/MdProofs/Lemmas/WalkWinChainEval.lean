/-
  Helper lemmas for C04, x86 STACK WIN chains — the evaluator side.

  `PreW` (MdModel/Walk/LayoutMixed.lean) recognises a frame-data program by the token list the
  lexer produces (`matchWinToks`). Here: what C07's evaluator (`MdModel.Win.run` / `finalVars`)
  computes on exactly those token lists — the standard prologue program, the `.raSearch` programs
  with and without `@`, the optional MSVC temporaries and the saved-register groups of any length.
  Nothing about evaluation is re-proved: the lemmas unfold `Win.step` on the fixed prefixes and use
  C07's variable-map lemmas (`Vars.get_set_self`, `Vars.get_set_other`, `consts_table`).
-/
import MdProofs.C07
import MdModel.Walk
set_option linter.unusedSimpArgs false
namespace MdModel.Walk
open MdModel MdModel.Win

/-! ### `u32` arithmetic that does not wrap -/

theorem u32_toNat_ofNat {n : Nat} (h : n ≤ U32MAX) : (UInt32.ofNat n).toNat = n := by
  rw [UInt32.toNat_ofNat']; apply Nat.mod_eq_of_lt; simp only [U32MAX] at h; omega

theorem u32_add {a k : UInt32} (h : a.toNat + k.toNat ≤ U32MAX) : (a + k).toNat = a.toNat + k.toNat := by
  rw [UInt32.toNat_add]; apply Nat.mod_eq_of_lt; simp only [U32MAX] at h; omega

theorem u32_sub {a k : UInt32} (h : k.toNat ≤ a.toNat) : (a - k).toNat = a.toNat - k.toNat := by
  rw [UInt32.toNat_sub]
  have := UInt32.toNat_lt a
  have := UInt32.toNat_lt k
  omega

theorem u32_ofNat_inj {a b : Nat} (ha : a ≤ U32MAX) (hb : b ≤ U32MAX) :
    UInt32.ofNat a = UInt32.ofNat b ↔ a = b := by
  constructor
  · intro h
    have := congrArg UInt32.toNat h
    rwa [u32_toNat_ofNat ha, u32_toNat_ofNat hb] at this
  · intro h; rw [h]

/-! ### the evaluation loop on a concatenation -/

theorem run_append (mem : Nat → Option UInt32) (a b : List Tok) (st : St) :
    run mem st (a ++ b) =
      match run mem st a with
      | .ok st' => run mem st' b
      | .fail => .fail
      | .panic s => .panic s := by
  induction a generalizing st with
  | nil => rfl
  | cons t rest ih =>
    simp only [List.cons_append, run]
    cases Win.step mem st t with
    | ok st' => exact ih st'
    | fail => rfl
    | panic s => rfl

theorem run_append_ok {mem : Nat → Option UInt32} {a b : List Tok} {st st' : St}
    (h : run mem st a = .ok st') : run mem st (a ++ b) = run mem st' b := by
  rw [run_append, h]

/-! ### the fixed pieces of the generated programs -/

/-- `$T0 $ebp = $eip $T0 4 + ^ = $ebp $T0 ^ = $esp $T0 8 + =` -/
theorem run_std {mem : Nat → Option UInt32} {vs : Vars} {ebp ret nfp : UInt32}
    (hb : vs.get "$ebp" = some ebp) (h1 : mem (ebp + 4).toNat = some ret) (h2 : mem ebp.toNat = some nfp) :
    run mem ⟨vs, []⟩ stdPrefix =
      .ok ⟨(((vs.set "$T0" ebp).set "$eip" ret).set "$ebp" nfp).set "$esp" (ebp + 8), []⟩ := by
  simp (config := { decide := true }) only [stdPrefix, run, Win.step, stepBin, pop2, Val.toInt, BinOp.eval,
    Vars.get_set_self, Vars.get_set_other, hb, h1, h2, ne_eq, not_false_eq_true]

/-- `$L $T0 .cbSavedRegs - = $P $T0 8 + .cbParams + =` (MSVC's temporaries: no output register) -/
theorem run_msvc {mem : Nat → Option UInt32} {vs : Vars} {t0 sav par : UInt32}
    (ht : vs.get "$T0" = some t0) (hs : vs.get ".cbSavedRegs" = some sav) (hp : vs.get ".cbParams" = some par) :
    run mem ⟨vs, []⟩ msvcGroup = .ok ⟨(vs.set "$L" (t0 - sav)).set "$P" (t0 + 8 + par), []⟩ := by
  simp (config := { decide := true }) only [msvcGroup, run, Win.step, stepBin, pop2, Val.toInt, BinOp.eval,
    Vars.get_set_self, Vars.get_set_other, ht, hs, hp, ne_eq, not_false_eq_true]

/-- `$T0 .raSearch = $eip $T0 ^ = $esp $T0 4 + =` -/
theorem run_raPrefix {mem : Nat → Option UInt32} {vs : Vars} {ss ret : UInt32}
    (hs : vs.get ".raSearch" = some ss) (h1 : mem ss.toNat = some ret) :
    run mem ⟨vs, []⟩ raPrefix = .ok ⟨((vs.set "$T0" ss).set "$eip" ret).set "$esp" (ss + 4), []⟩ := by
  simp (config := { decide := true }) only [raPrefix, run, Win.step, stepBin, pop2, Val.toInt, BinOp.eval,
    Vars.get_set_self, Vars.get_set_other, hs, h1, ne_eq, not_false_eq_true]

/-- `$ebp $T0 4 - ^ =` -/
theorem run_raAtEbp {mem : Nat → Option UInt32} {vs : Vars} {t0 nfp : UInt32}
    (ht : vs.get "$T0" = some t0) (h1 : mem (t0 - 4).toNat = some nfp) :
    run mem ⟨vs, []⟩ raAtEbp = .ok ⟨vs.set "$ebp" nfp, []⟩ := by
  simp (config := { decide := true }) only [raAtEbp, run, Win.step, stepBin, pop2, Val.toInt, BinOp.eval,
    Vars.get_set_self, Vars.get_set_other, ht, h1, ne_eq, not_false_eq_true]

/-- `$ebp $ebp =` -/
theorem run_raSelfEbp {mem : Nat → Option UInt32} {vs : Vars} {ebp : UInt32}
    (hb : vs.get "$ebp" = some ebp) :
    run mem ⟨vs, []⟩ raSelfEbp = .ok ⟨vs.set "$ebp" ebp, []⟩ := by
  simp (config := { decide := true }) only [raSelfEbp, run, Win.step, Val.toInt, hb]

/-- `$T1 $esp 16 @ =` -/
theorem run_atTrailer {mem : Nat → Option UInt32} {vs : Vars} {esp : UInt32}
    (he : vs.get "$esp" = some esp) :
    ∃ v, run mem ⟨vs, []⟩ atTrailer = .ok ⟨vs.set "$T1" v, []⟩ := by
  refine ⟨esp &&& (0xffffffff ^^^ (16 - 1)), ?_⟩
  have h16 : alignOp esp 16 = .ok (esp &&& (0xffffffff ^^^ (16 - 1))) := by
    unfold alignOp
    simp (config := { decide := true })
  simp (config := { decide := true }) only [atTrailer, run, Win.step, pop2, Val.toInt, he, h16]

/-! ### saved-register groups `$r $T0 OFF - ^ =`, any number of them -/

theorem winRegOfVar_some {v n : String} (h : winRegOfVar v = some n) :
    (v = "$ebx" ∧ n = "ebx") ∨ (v = "$esi" ∧ n = "esi") ∨ (v = "$edi" ∧ n = "edi") := by
  unfold winRegOfVar at h
  by_cases h1 : v = "$ebx"
  · rw [if_pos h1] at h; injection h with h; exact Or.inl ⟨h1, h.symm⟩
  · rw [if_neg h1] at h
    by_cases h2 : v = "$esi"
    · rw [if_pos h2] at h; injection h with h; exact Or.inr (Or.inl ⟨h2, h.symm⟩)
    · rw [if_neg h2] at h
      by_cases h3 : v = "$edi"
      · rw [if_pos h3] at h; injection h with h; exact Or.inr (Or.inr ⟨h3, h.symm⟩)
      · rw [if_neg h3] at h; cases h

/-- the three registers a group may name -/
def Reg3 (n : String) : Prop := n = "ebx" ∨ n = "esi" ∨ n = "edi"

theorem reg3_var_inj {n m : String} (hn : Reg3 n) (hm : Reg3 m) (h : "$" ++ n = "$" ++ m) : n = m := by
  rcases hn with rfl | rfl | rfl <;> rcases hm with rfl | rfl | rfl <;> first | rfl | (revert h; decide)

/-- the variable map after the groups: each assigns the word `rdv off` to `$r` -/
def afterGroups (rdv : Nat → UInt32) : Vars → List (String × Nat) → Vars
  | vs, [] => vs
  | vs, (n, off) :: rest => afterGroups rdv (vs.set ("$" ++ n) (rdv off)) rest

/-- one group, or none: what `winGroups` accepts -/
theorem winGroups_inv {toks : List Tok} {saved : List (String × Nat)} (h : winGroups toks = some saved) :
    (toks = [] ∧ saved = []) ∨
    ∃ r off rest n l, toks = .var r :: .var "$T0" :: .lit off :: .sub :: .deref :: .assign :: rest ∧
      winRegOfVar r = some n ∧ winGroups rest = some l ∧ saved = (n, off.toNat) :: l := by
  unfold winGroups at h
  split at h
  · left; cases h; exact ⟨rfl, rfl⟩
  · rename_i r t off rest
    right
    by_cases ht : t = "$T0"
    · subst ht
      simp only [if_true] at h
      cases hr : winRegOfVar r with
      | none => simp [hr] at h
      | some n =>
        cases hg : winGroups rest with
        | none => simp [hr, hg] at h
        | some l =>
          simp only [hr, hg, Option.some.injEq] at h
          exact ⟨r, off, rest, n, l, rfl, hr, hg, h.symm⟩
    · simp [ht] at h
  · cases h

theorem winGroups_names : ∀ (saved : List (String × Nat)) (toks : List Tok),
    winGroups toks = some saved → ∀ p ∈ saved, Reg3 p.1 := by
  intro saved
  induction saved with
  | nil => intro toks _ p hp; cases hp
  | cons q l ih =>
    intro toks h p hp
    rcases winGroups_inv h with ⟨_, h2⟩ | ⟨r, off, rest, n, l', rfl, hr, hg, hs⟩
    · cases h2
    · injection hs with hq hl
      subst hq; subst hl
      rcases List.mem_cons.mp hp with rfl | hp
      · rcases winRegOfVar_some hr with ⟨_, rfl⟩ | ⟨_, rfl⟩ | ⟨_, rfl⟩
        · exact Or.inl rfl
        · exact Or.inr (Or.inl rfl)
        · exact Or.inr (Or.inr rfl)
      · exact ih rest hg p hp

/-- the groups evaluate: each reads the word `OFF` below `$T0` and assigns it -/
theorem run_groups {mem : Nat → Option UInt32} {t0 : UInt32} :
    ∀ (saved : List (String × Nat)) (toks : List Tok) (vs : Vars),
      winGroups toks = some saved → vs.get "$T0" = some t0 →
      (∀ p ∈ saved, (mem (t0 - UInt32.ofNat p.2).toNat).isSome = true) →
      run mem ⟨vs, []⟩ toks =
        .ok ⟨afterGroups (fun off => (mem (t0 - UInt32.ofNat off).toNat).getD 0) vs saved, []⟩ := by
  intro saved
  induction saved with
  | nil =>
    intro toks vs h _ _
    rcases winGroups_inv h with ⟨rfl, _⟩ | ⟨r, off, rest, n, l', _, _, _, hs⟩
    · rfl
    · cases hs
  | cons q l ih =>
    intro toks vs h ht hm
    rcases winGroups_inv h with ⟨_, h2⟩ | ⟨r, off, rest, n, l', rfl, hr, hg, hs⟩
    · cases h2
    · injection hs with hq hl
      subst hq; subst hl
      have hm0 := hm (n, off.toNat) List.mem_cons_self
      simp only [UInt32.ofNat_toNat] at hm0
      obtain ⟨v, hv⟩ := Option.isSome_iff_exists.mp hm0
      have hrn : r = "$" ++ n ∧ r ≠ "$T0" := by
        rcases winRegOfVar_some hr with ⟨rfl, rfl⟩ | ⟨rfl, rfl⟩ | ⟨rfl, rfl⟩ <;> decide
      have ht' : (vs.set r v).get "$T0" = some t0 := by
        rw [Vars.get_set_other _ _ (Ne.symm hrn.2)]; exact ht
      have hrest := ih rest (vs.set r v) hg ht' (fun p hp => hm p (List.mem_cons_of_mem _ hp))
      simp only [run, Win.step, stepBin, pop2, Val.toInt, BinOp.eval, ht, hv]
      rw [hrest]
      simp only [afterGroups, UInt32.ofNat_toNat, hv, Option.getD_some, hrn.1]


theorem afterGroups_get_other (rdv : Nat → UInt32) {k : String} :
    ∀ (saved : List (String × Nat)) (vs : Vars), (∀ p ∈ saved, "$" ++ p.1 ≠ k) →
      (afterGroups rdv vs saved).get k = vs.get k := by
  intro saved
  induction saved with
  | nil => intro vs _; rfl
  | cons q l ih =>
    intro vs h
    obtain ⟨n, off⟩ := q
    simp only [afterGroups]
    rw [ih _ (fun p hp => h p (List.mem_cons_of_mem _ hp))]
    exact Vars.get_set_other _ _ (Ne.symm (h (n, off) List.mem_cons_self))

/-- with pairwise distinct register names, `$r` ends up holding the word of ITS group -/
theorem afterGroups_get_mem (rdv : Nat → UInt32) {r : String} {off : Nat} :
    ∀ (saved : List (String × Nat)) (vs : Vars), (saved.map (·.1)).Nodup → (∀ p ∈ saved, Reg3 p.1) →
      saved.lookup r = some off → (afterGroups rdv vs saved).get ("$" ++ r) = some (rdv off) := by
  intro saved
  induction saved with
  | nil => intro vs _ _ h; cases h
  | cons q l ih =>
    intro vs hnd h3 hl
    obtain ⟨n, o⟩ := q
    simp only [List.map_cons, List.nodup_cons] at hnd
    simp only [afterGroups]
    by_cases hrn : r = n
    · subst hrn
      simp only [List.lookup_cons_self, Option.some.injEq] at hl
      subst hl
      rw [afterGroups_get_other rdv l _ (fun p hp hpe => by
        have := reg3_var_inj (h3 p (List.mem_cons_of_mem _ hp)) (h3 (r, o) List.mem_cons_self) hpe
        exact hnd.1 (List.mem_map.mpr ⟨p, hp, this⟩))]
      exact Vars.get_set_self _ _ _
    · have hb : (r == n) = false := by simpa using hrn
      simp only [List.lookup_cons, hb] at hl
      exact ih _ hnd.2 (fun p hp => h3 p (List.mem_cons_of_mem _ hp)) hl

theorem reg3_ne_out {n : String} (hn : Reg3 n) : "$" ++ n ≠ "$eip" ∧ "$" ++ n ≠ "$esp" ∧ "$" ++ n ≠ "$ebp" ∧
    "$" ++ n ≠ "$T0" ∧ "$" ++ n ≠ "$T1" := by
  rcases hn with rfl | rfl | rfl <;> decide

/-- the groups as a whole: they evaluate, leave `$eip $esp $ebp $T0` alone, and each `$r` holds
    the word of its group -/
theorem run_groups_spec {mem : Nat → Option UInt32} {t0 : UInt32} {saved : List (String × Nat)}
    {gs : List Tok} {vs : Vars} (hg : winGroups gs = some saved) (ht : vs.get "$T0" = some t0)
    (hm : ∀ p ∈ saved, p.2 ≤ t0.toNat ∧ (mem (t0.toNat - p.2)).isSome = true)
    (hnd : (saved.map (·.1)).Nodup) :
    ∃ vs', run mem ⟨vs, []⟩ gs = .ok ⟨vs', []⟩ ∧
      vs'.get "$eip" = vs.get "$eip" ∧ vs'.get "$esp" = vs.get "$esp" ∧ vs'.get "$ebp" = vs.get "$ebp" ∧
      (∀ r off, saved.lookup r = some off → vs'.get ("$" ++ r) = some ((mem (t0.toNat - off)).getD 0)) := by
  have h3 := winGroups_names saved gs hg
  have haddr : ∀ off, off ≤ t0.toNat → (t0 - UInt32.ofNat off).toNat = t0.toNat - off := by
    intro off hle
    have hlt := UInt32.toNat_lt t0
    have ho : (UInt32.ofNat off).toNat = off := u32_toNat_ofNat (by simp only [U32MAX]; omega)
    rw [u32_sub (by rw [ho]; exact hle), ho]
  have hm' : ∀ p ∈ saved, (mem (t0 - UInt32.ofNat p.2).toNat).isSome = true := by
    intro p hp
    rw [haddr _ (hm p hp).1]; exact (hm p hp).2
  refine ⟨_, run_groups saved gs vs hg ht hm', ?_, ?_, ?_, ?_⟩
  · exact afterGroups_get_other _ saved vs (fun p hp => (reg3_ne_out (h3 p hp)).1)
  · exact afterGroups_get_other _ saved vs (fun p hp => (reg3_ne_out (h3 p hp)).2.1)
  · exact afterGroups_get_other _ saved vs (fun p hp => (reg3_ne_out (h3 p hp)).2.2.1)
  · intro r off hl
    rw [afterGroups_get_mem _ saved vs hnd h3 hl]
    have hmem : (r, off) ∈ saved := by
      have := List.lookup_eq_some_iff.mp hl
      obtain ⟨l1, l2, hh, _⟩ := this
      rw [hh]; simp
    rw [haddr _ (hm _ hmem).1]

/-! ### what `matchWinToks` accepts -/

theorem stripPrefix_some {p l r : List Tok} (h : stripPrefix p l = some r) : l = p ++ r := by
  unfold stripPrefix at h
  split at h
  · rename_i hp
    injection h with h
    subst h
    exact (List.prefix_iff_eq_append.mp (List.isPrefixOf_iff_prefix.mp hp)).symm
  · cases h

theorem stripSuffix_some {p l r : List Tok} (h : stripSuffix p l = some r) : l = r ++ p := by
  unfold stripSuffix at h
  split at h
  · rename_i hp
    injection h with h
    subst h
    exact (List.suffix_iff_eq_append.mp (List.isSuffixOf_iff_suffix.mp hp)).symm
  · cases h

/-- the four kinds of frame-data programs `PreW` accepts, as token lists -/
inductive WinToks : Bool → List Tok → WinShape → Prop where
  | std (mid gs saved) (hmid : mid = [] ∨ mid = msvcGroup) (hg : winGroups gs = some saved) :
      WinToks false (stdPrefix ++ (mid ++ gs)) (.std saved)
  | raAt (gs saved) (hg : winGroups gs = some saved) :
      WinToks true (raPrefix ++ ((raAtEbp ++ gs) ++ atTrailer)) (.raAt saved)
  | raSelf (gs saved) (hg : winGroups gs = some saved) :
      WinToks false (raPrefix ++ (raSelfEbp ++ gs)) (.ra none saved)
  | raOff (off : UInt32) (gs saved) (hg : winGroups gs = some saved) :
      WinToks false (raPrefix ++ (.var "$ebp" :: .var "$T0" :: .lit off :: .sub :: .deref :: .assign :: gs))
        (.ra (some off.toNat) saved)

theorem matchWinToks_spec {hasAt : Bool} {toks : List Tok} {sh : WinShape}
    (h : matchWinToks hasAt toks = some sh) : WinToks hasAt toks sh := by
  unfold matchWinToks at h
  split at h
  · rename_i rest hp
    have htoks := stripPrefix_some hp
    cases hasAt with
    | true => simp at h
    | false =>
      simp only [Bool.false_eq_true, if_false] at h
      cases hms : stripPrefix msvcGroup rest with
      | none =>
        simp only [hms, Option.getD_none, Option.map_eq_some_iff] at h
        obtain ⟨saved, hg, rfl⟩ := h
        rw [htoks]
        exact WinToks.std [] rest saved (Or.inl rfl) hg
      | some gs =>
        simp only [hms, Option.getD_some, Option.map_eq_some_iff] at h
        obtain ⟨saved, hg, rfl⟩ := h
        rw [htoks, stripPrefix_some hms]
        exact WinToks.std msvcGroup gs saved (Or.inr rfl) hg
  · split at h
    · cases h
    · rename_i rest hp
      have htoks := stripPrefix_some hp
      split at h
      · rename_i mid hs
        have hrest := stripSuffix_some hs
        cases hasAt with
        | false => simp at h
        | true =>
          simp only [Bool.not_true, Bool.false_eq_true, if_false] at h
          split at h
          · rename_i gs hg
            simp only [Option.map_eq_some_iff] at h
            obtain ⟨saved, hgs, rfl⟩ := h
            rw [htoks, hrest, stripPrefix_some hg]
            exact WinToks.raAt gs saved hgs
          · cases h
      · cases hasAt with
        | true => simp at h
        | false =>
          simp only [Bool.false_eq_true, if_false] at h
          split at h
          · rename_i gs hg
            simp only [Option.map_eq_some_iff] at h
            obtain ⟨saved, hgs, rfl⟩ := h
            rw [htoks, stripPrefix_some hg]
            exact WinToks.raSelf gs saved hgs
          · split at h
            · rename_i r t off gs _ _
              by_cases hrt : r = "$ebp" ∧ t = "$T0"
              · obtain ⟨rfl, rfl⟩ := hrt
                simp only [and_self, if_true] at h
                cases hgs : winGroups gs with
                | none => simp [hgs] at h
                | some saved =>
                  simp only [hgs, Option.some.injEq] at h
                  subst h
                  rw [htoks]
                  exact WinToks.raOff off gs saved hgs
              · simp [hrt] at h
            · cases h

/-! ### the variable map before the first token -/

theorem initVars_ok {hasAt : Bool} {info : Info} {w : Walker} {esp ebp ss : UInt32}
    (h1 : w.reg "esp" = some esp) (h2 : w.reg "ebp" = some ebp)
    (h3 : searchStart hasAt info w.gcParam esp ebp = some ss) :
    ∃ vs, initVars hasAt info w = some vs ∧ vs.get "$esp" = some esp ∧ vs.get "$ebp" = some ebp ∧
      vs.get ".raSearch" = some ss ∧ vs.get ".cbSavedRegs" = some info.sav ∧
      vs.get ".cbParams" = some info.par := by
  have hex : ∃ vs, initVars hasAt info w = some vs := by
    unfold initVars
    simp only [h1, h2, h3]
    exact ⟨_, rfl⟩
  obtain ⟨vs, hvs⟩ := hex
  obtain ⟨esp', ebp', ss', e1, e2, e3, c1, _, c3, _, c5, _, c7, c8, _, _⟩ := consts_table hvs
  rw [h1] at e1; rw [h2] at e2
  injection e1 with e1; injection e2 with e2
  subst e1; subst e2
  rw [h3] at e3; injection e3 with e3; subst e3
  exact ⟨vs, hvs, c7, c8, c5, c3, c1⟩

theorem searchStart_esp_ok {info : Info} {gc esp ebp : UInt32}
    (h : esp.toNat + (info.loc.toNat + info.sav.toNat + gc.toNat) ≤ U32MAX) :
    ∃ ss, searchStart false info gc esp ebp = some ss ∧
      ss.toNat = esp.toNat + (info.loc.toNat + info.sav.toNat + gc.toNat) :=
  ⟨UInt32.ofNat (esp.toNat + (info.loc.toNat + info.sav.toNat + gc.toNat)),
    ra_search_esp.mpr ⟨h, u32_toNat_ofNat h⟩, u32_toNat_ofNat h⟩

theorem searchStart_ebp_ok {info : Info} {gc esp ebp : UInt32} (h : ebp.toNat + 4 ≤ U32MAX) :
    ∃ ss, searchStart true info gc esp ebp = some ss ∧ ss.toNat = ebp.toNat + 4 :=
  ⟨UInt32.ofNat (ebp.toNat + 4), ra_search_ebp.mpr ⟨h, u32_toNat_ofNat h⟩, u32_toNat_ofNat h⟩

/-! ### the four program shapes, end to end -/

/-- **standard prologue program** (with or without MSVC's temporaries, any saved-register groups):
    `$eip = *(ebp + 4)`, `$esp = ebp + 8`, `$ebp = *ebp`, `$r = *(ebp - OFF)` -/
theorem finalVars_std {prog : List Char} {info : Info} {w : Walker} {saved : List (String × Nat)}
    (hm : matchWin prog = some (.std saved)) {esp ebp ret nfp : UInt32}
    (hesp : w.reg "esp" = some esp) (hebp : w.reg "ebp" = some ebp)
    (hss : esp.toNat + (info.loc.toNat + info.sav.toNat + w.gcParam.toNat) ≤ U32MAX)
    (hb : ebp.toNat + 8 ≤ U32MAX)
    (h1 : w.mem (ebp.toNat + 4) = some ret) (h2 : w.mem ebp.toNat = some nfp)
    (hsv : ∀ p ∈ saved, p.2 ≤ ebp.toNat ∧ (w.mem (ebp.toNat - p.2)).isSome = true)
    (hnd : (saved.map (·.1)).Nodup) :
    ∃ vs, finalVars prog info w = .ok vs ∧ vs.get "$eip" = some ret ∧ vs.get "$esp" = some (ebp + 8) ∧
      vs.get "$ebp" = some nfp ∧
      ∀ r off, saved.lookup r = some off → vs.get ("$" ++ r) = some ((w.mem (ebp.toNat - off)).getD 0) := by
  have hw := matchWinToks_spec hm
  obtain ⟨ss, hss1, _⟩ := searchStart_esp_ok (ebp := ebp) hss
  generalize hAt : prog.contains '@' = b at hw
  generalize htk : Win.tokenize prog = toks at hw
  cases hw with
  | std mid gs _ hmid hg =>
    obtain ⟨vs0, hinit, g1, g2, _, g4, g5⟩ := initVars_ok hesp hebp hss1
    have e4 : (ebp + 4).toNat = ebp.toNat + 4 := u32_add (by
      have : (4 : UInt32).toNat = 4 := rfl
      rw [this]; omega)
    have hstd := run_std (mem := w.mem) (vs := vs0) g2 (by rw [e4]; exact h1) h2
    unfold finalVars
    rw [hAt, hinit]
    simp only [htk]
    rw [run_append_ok hstd]
    -- the variable map after the prefix
    generalize hv1 : (((vs0.set "$T0" ebp).set "$eip" ret).set "$ebp" nfp).set "$esp" (ebp + 8) = vs1
    have t1 : vs1.get "$T0" = some ebp := by
      subst hv1; simp (config := { decide := true }) only [Vars.get_set_self, Vars.get_set_other, ne_eq, not_false_eq_true]
    have o1 : vs1.get "$eip" = some ret ∧ vs1.get "$esp" = some (ebp + 8) ∧ vs1.get "$ebp" = some nfp ∧
        vs1.get ".cbSavedRegs" = some info.sav ∧ vs1.get ".cbParams" = some info.par := by
      subst hv1
      simp (config := { decide := true }) only [Vars.get_set_self, Vars.get_set_other, ne_eq, not_false_eq_true, g4, g5, and_self]
    rcases hmid with rfl | rfl
    · rw [List.nil_append]
      obtain ⟨vs', hr, q1, q2, q3, q4⟩ := run_groups_spec (mem := w.mem) hg t1 hsv hnd
      rw [hr]
      exact ⟨vs', rfl, by rw [q1, o1.1], by rw [q2, o1.2.1], by rw [q3, o1.2.2.1], q4⟩
    · have hms := run_msvc (mem := w.mem) t1 o1.2.2.2.1 o1.2.2.2.2
      rw [run_append_ok hms]
      have t2 : ((vs1.set "$L" (ebp - info.sav)).set "$P" (ebp + 8 + info.par)).get "$T0" = some ebp := by
        simp (config := { decide := true }) only [Vars.get_set_other, ne_eq, not_false_eq_true, t1]
      obtain ⟨vs', hr, q1, q2, q3, q4⟩ := run_groups_spec (mem := w.mem) hg t2 hsv hnd
      rw [hr]
      refine ⟨vs', rfl, ?_, ?_, ?_, q4⟩
      · rw [q1]; simp (config := { decide := true }) only [Vars.get_set_other, ne_eq, not_false_eq_true, o1.1]
      · rw [q2]; simp (config := { decide := true }) only [Vars.get_set_other, ne_eq, not_false_eq_true, o1.2.1]
      · rw [q3]; simp (config := { decide := true }) only [Vars.get_set_other, ne_eq, not_false_eq_true, o1.2.2.1]

/-- **`.raSearch` program with `@`** (search start `ebp + 4`): `$eip = *(ebp + 4)`, `$esp = ebp + 8`,
    `$ebp = *ebp`, `$r = *(ebp + 4 - OFF)` -/
theorem finalVars_raAt {prog : List Char} {info : Info} {w : Walker} {saved : List (String × Nat)}
    (hm : matchWin prog = some (.raAt saved)) {esp ebp ret nfp : UInt32}
    (hesp : w.reg "esp" = some esp) (hebp : w.reg "ebp" = some ebp)
    (hb : ebp.toNat + 8 ≤ U32MAX)
    (h1 : w.mem (ebp.toNat + 4) = some ret) (h2 : w.mem ebp.toNat = some nfp)
    (hsv : ∀ p ∈ saved, p.2 ≤ ebp.toNat + 4 ∧ (w.mem (ebp.toNat + 4 - p.2)).isSome = true)
    (hnd : (saved.map (·.1)).Nodup) :
    ∃ vs csp, finalVars prog info w = .ok vs ∧ vs.get "$eip" = some ret ∧ vs.get "$esp" = some csp ∧
      csp.toNat = ebp.toNat + 8 ∧ vs.get "$ebp" = some nfp ∧
      ∀ r off, saved.lookup r = some off → vs.get ("$" ++ r) = some ((w.mem (ebp.toNat + 4 - off)).getD 0) := by
  have hw := matchWinToks_spec hm
  obtain ⟨ss, hss1, hss2⟩ := searchStart_ebp_ok (info := info) (gc := w.gcParam) (esp := esp) (ebp := ebp)
    (by omega)
  generalize hAt : prog.contains '@' = b at hw
  generalize htk : Win.tokenize prog = toks at hw
  cases hw with
  | raAt gs _ hg =>
    obtain ⟨vs0, hinit, g1, g2, g3, _, _⟩ := initVars_ok hesp hebp hss1
    have four : (4 : UInt32).toNat = 4 := rfl
    have hpre := run_raPrefix (mem := w.mem) (vs := vs0) g3 (by rw [hss2]; exact h1)
    unfold finalVars
    rw [hAt, hinit]
    simp only [htk]
    rw [run_append_ok hpre, List.append_assoc]
    generalize hv1 : ((vs0.set "$T0" ss).set "$eip" ret).set "$esp" (ss + 4) = vs1
    have t1 : vs1.get "$T0" = some ss ∧ vs1.get "$eip" = some ret ∧ vs1.get "$esp" = some (ss + 4) := by
      subst hv1
      simp (config := { decide := true }) only [Vars.get_set_self, Vars.get_set_other, ne_eq, not_false_eq_true, and_self]
    have e4 : (ss - 4).toNat = ebp.toNat := by
      rw [u32_sub (by rw [four, hss2]; omega), four, hss2]; omega
    have hebp' := run_raAtEbp (mem := w.mem) (vs := vs1) t1.1 (by rw [e4]; exact h2)
    rw [run_append_ok hebp']
    have t2 : (vs1.set "$ebp" nfp).get "$T0" = some ss := by
      simp (config := { decide := true }) only [Vars.get_set_other, ne_eq, not_false_eq_true, t1.1]
    obtain ⟨vs', hr, q1, q2, q3, q4⟩ := run_groups_spec (mem := w.mem) hg t2 (by rw [hss2]; exact hsv) hnd
    rw [run_append_ok hr]
    have q2' : vs'.get "$esp" = some (ss + 4) := by
      rw [q2]; simp (config := { decide := true }) only [Vars.get_set_other, ne_eq, not_false_eq_true, t1.2.2]
    obtain ⟨v, htr⟩ := run_atTrailer (mem := w.mem) q2'
    rw [htr]
    refine ⟨_, ss + 4, rfl, ?_, ?_, ?_, ?_, ?_⟩
    · simp (config := { decide := true }) only [Vars.get_set_other, ne_eq, not_false_eq_true]
      rw [q1]; simp (config := { decide := true }) only [Vars.get_set_other, ne_eq, not_false_eq_true, t1.2.1]
    · simp (config := { decide := true }) only [Vars.get_set_other, ne_eq, not_false_eq_true]
      exact q2'
    · rw [u32_add (by rw [four, hss2]; omega), four, hss2]
    · simp (config := { decide := true }) only [Vars.get_set_other, ne_eq, not_false_eq_true]
      rw [q3]; exact Vars.get_set_self _ _ _
    · intro r off hl
      have hr3 : Reg3 r := by
        have hmem : (r, off) ∈ saved := by
          obtain ⟨l1, l2, hh, _⟩ := List.lookup_eq_some_iff.mp hl
          rw [hh]; simp
        exact winGroups_names saved gs hg _ hmem
      rw [Vars.get_set_other _ _ (reg3_ne_out hr3).2.2.2.2, q4 r off hl, hss2]

/-- the run of `$ebp $T0 OFF - ^ =` -/
theorem run_ebpOff {mem : Nat → Option UInt32} {vs : Vars} {t0 off nfp : UInt32} (gs : List Tok)
    (ht : vs.get "$T0" = some t0) (h1 : mem (t0 - off).toNat = some nfp) :
    run mem ⟨vs, []⟩ (.var "$ebp" :: .var "$T0" :: .lit off :: .sub :: .deref :: .assign :: gs) =
      run mem ⟨vs.set "$ebp" nfp, []⟩ gs := by
  simp (config := { decide := true }) only [run, Win.step, stepBin, pop2, Val.toInt, BinOp.eval, ht, h1]

/-- **`.raSearch` programs without `@`** (search start `esp + locals + saved + callee params`):
    `$eip = *T0`, `$esp = T0 + 4`, `$ebp` assigned to itself or restored from `T0 - OFF`,
    `$r = *(T0 - OFF)` -/
theorem finalVars_ra {prog : List Char} {info : Info} {w : Walker} {saved : List (String × Nat)}
    {ebpOff : Option Nat} (hm : matchWin prog = some (.ra ebpOff saved)) {esp ebp ret : UInt32} {t0 : Nat}
    (hesp : w.reg "esp" = some esp) (hebp : w.reg "ebp" = some ebp)
    (ht0 : t0 = esp.toNat + (info.loc.toNat + info.sav.toNat + w.gcParam.toNat))
    (hb : t0 + 4 ≤ U32MAX) (h1 : w.mem t0 = some ret)
    (nfp : UInt32)
    (hfp : match ebpOff with
      | some off => off ≤ t0 ∧ w.mem (t0 - off) = some nfp
      | none => nfp = ebp)
    (hsv : ∀ p ∈ saved, p.2 ≤ t0 ∧ (w.mem (t0 - p.2)).isSome = true)
    (hnd : (saved.map (·.1)).Nodup) :
    ∃ vs csp, finalVars prog info w = .ok vs ∧ vs.get "$eip" = some ret ∧ vs.get "$esp" = some csp ∧
      csp.toNat = t0 + 4 ∧ vs.get "$ebp" = some nfp ∧
      ∀ r off, saved.lookup r = some off → vs.get ("$" ++ r) = some ((w.mem (t0 - off)).getD 0) := by
  have hw := matchWinToks_spec hm
  obtain ⟨ss, hss1, hss2⟩ := searchStart_esp_ok (info := info) (gc := w.gcParam) (esp := esp) (ebp := ebp)
    (by omega)
  rw [← ht0] at hss2
  generalize hAt : prog.contains '@' = b at hw
  generalize htk : Win.tokenize prog = toks at hw
  obtain ⟨vs0, hinit, g1, g2, g3, _, _⟩ := initVars_ok hesp hebp hss1
  have four : (4 : UInt32).toNat = 4 := rfl
  have hpre := run_raPrefix (mem := w.mem) (vs := vs0) g3 (by rw [hss2]; exact h1)
  generalize hv1 : ((vs0.set "$T0" ss).set "$eip" ret).set "$esp" (ss + 4) = vs1 at hpre
  have t1 : vs1.get "$T0" = some ss ∧ vs1.get "$eip" = some ret ∧ vs1.get "$esp" = some (ss + 4) ∧
      vs1.get "$ebp" = some ebp := by
    subst hv1
    simp (config := { decide := true }) only [Vars.get_set_self, Vars.get_set_other, ne_eq, not_false_eq_true, g2, and_self]
  have fin : ∀ (gs : List Tok) (vs2 : Vars), winGroups gs = some saved → vs2.get "$T0" = some ss →
      vs2.get "$eip" = some ret → vs2.get "$esp" = some (ss + 4) → vs2.get "$ebp" = some nfp →
      ∃ vs csp, (match run w.mem ⟨vs2, []⟩ gs with
          | .ok st => R.ok st.vars
          | .fail => .fail
          | .panic s => .panic s) = .ok vs ∧ vs.get "$eip" = some ret ∧ vs.get "$esp" = some csp ∧
        csp.toNat = t0 + 4 ∧ vs.get "$ebp" = some nfp ∧
        ∀ r off, saved.lookup r = some off → vs.get ("$" ++ r) = some ((w.mem (t0 - off)).getD 0) := by
    intro gs vs2 hg a1 a2 a3 a4
    obtain ⟨vs', hr, q1, q2, q3, q4⟩ := run_groups_spec (mem := w.mem) hg a1 (by rw [hss2]; exact hsv) hnd
    rw [hr]
    refine ⟨vs', ss + 4, rfl, by rw [q1, a2], by rw [q2, a3], ?_, by rw [q3, a4], ?_⟩
    · rw [u32_add (by rw [four, hss2]; omega), four, hss2]
    · intro r off hl; rw [q4 r off hl, hss2]
  cases hw with
  | raSelf gs _ hg =>
    simp only at hfp
    subst hfp
    unfold finalVars
    rw [hAt, hinit]
    simp only [htk]
    rw [run_append_ok hpre, run_append_ok (run_raSelfEbp (mem := w.mem) t1.2.2.2)]
    refine fin gs _ hg ?_ ?_ ?_ (Vars.get_set_self _ _ _)
    · simp (config := { decide := true }) only [Vars.get_set_other, ne_eq, not_false_eq_true, t1.1]
    · simp (config := { decide := true }) only [Vars.get_set_other, ne_eq, not_false_eq_true, t1.2.1]
    · simp (config := { decide := true }) only [Vars.get_set_other, ne_eq, not_false_eq_true, t1.2.2.1]
  | raOff off gs _ hg =>
    simp only at hfp
    obtain ⟨hle, hrd⟩ := hfp
    have e4 : (ss - off).toNat = t0 - off.toNat := by
      rw [u32_sub (by rw [hss2]; exact hle), hss2]
    unfold finalVars
    rw [hAt, hinit]
    simp only [htk]
    rw [run_append_ok hpre, run_ebpOff (mem := w.mem) gs t1.1 (by rw [e4]; exact hrd)]
    refine fin gs _ hg ?_ ?_ ?_ (Vars.get_set_self _ _ _)
    · simp (config := { decide := true }) only [Vars.get_set_other, ne_eq, not_false_eq_true, t1.1]
    · simp (config := { decide := true }) only [Vars.get_set_other, ne_eq, not_false_eq_true, t1.2.1]
    · simp (config := { decide := true }) only [Vars.get_set_other, ne_eq, not_false_eq_true, t1.2.2.1]

end MdModel.Walk
