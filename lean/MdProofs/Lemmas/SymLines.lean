/-
  Splitting a byte string into complete lines (each ending in `\n`) and an unterminated rest;
  folding a per-line parser over them; the reference semantics `specRest` of the streaming loop.
-/
import MdModel.Stream
namespace MdModel.Stream
open MdModel

/-- complete lines (each including its `\n`) and the unterminated rest; `cur` is the reversed
    prefix of the line being collected -/
def linesAux : Bytes → Bytes → List Bytes × Bytes
  | [], cur => ([], cur.reverse)
  | b :: rest, cur =>
    if b = NL then
      let r := linesAux rest []
      ((b :: cur).reverse :: r.1, r.2)
    else linesAux rest (b :: cur)

def linesOf (w : Bytes) : List Bytes × Bytes := linesAux w []

theorem linesAux_flatten (w cur : Bytes) :
    (linesAux w cur).1.flatten ++ (linesAux w cur).2 = cur.reverse ++ w := by
  induction w generalizing cur with
  | nil => simp [linesAux]
  | cons b rest ih =>
    unfold linesAux
    split
    · simp only [List.flatten_cons, List.append_assoc]
      rw [ih []]; simp
    · rw [ih (b :: cur)]; simp

theorem linesOf_flatten (w : Bytes) : (linesOf w).1.flatten ++ (linesOf w).2 = w := by
  have := linesAux_flatten w []; simpa [linesOf] using this

theorem linesAux_rest_noNL (w cur : Bytes) (hc : NL ∉ cur) : NL ∉ (linesAux w cur).2 := by
  induction w generalizing cur with
  | nil => simpa [linesAux] using hc
  | cons b rest ih =>
    unfold linesAux
    split
    · exact ih [] (by simp)
    · next hb => exact ih (b :: cur) (by simp [hc, Ne.symm hb])

theorem linesOf_rest_noNL (w : Bytes) : NL ∉ (linesOf w).2 := linesAux_rest_noNL w [] (by simp)

/-- a window without newline has no complete line -/
theorem linesAux_noNL (w cur : Bytes) (h : NL ∉ w) : linesAux w cur = ([], cur.reverse ++ w) := by
  induction w generalizing cur with
  | nil => simp [linesAux]
  | cons b rest ih =>
    unfold linesAux
    have hb : b ≠ NL := fun e => h (by simp [e])
    have hr : NL ∉ rest := fun e => h (by simp [e])
    simp only [hb, if_false]
    rw [ih (b :: cur) hr]; simp

theorem linesOf_noNL (w : Bytes) (h : NL ∉ w) : linesOf w = ([], w) := by
  have := linesAux_noNL w [] h; simpa [linesOf] using this

/-- the prefix collected so far only matters for the first line -/
theorem linesAux_cur (w cur : Bytes) :
    linesAux w cur =
      (match (linesAux w []).1 with
        | [] => ([], cur.reverse ++ (linesAux w []).2)
        | l :: ls => ((cur.reverse ++ l) :: ls, (linesAux w []).2)) := by
  induction w generalizing cur with
  | nil => simp [linesAux]
  | cons b rest ih =>
    unfold linesAux
    split
    · simp
    · rw [ih (b :: cur), ih [b]]
      cases h : (linesAux rest []).1 <;> simp

/-- appending after a string of complete lines -/
theorem linesOf_append_line (l : Bytes) (hl : NL ∉ l) (w : Bytes) :
    linesOf (l ++ NL :: w) = ((l ++ [NL]) :: (linesOf w).1, (linesOf w).2) := by
  unfold linesOf
  have : ∀ cur, linesAux (l ++ NL :: w) cur = ((cur.reverse ++ l ++ [NL]) :: (linesAux w []).1, (linesAux w []).2) := by
    induction l with
    | nil => intro cur; simp [linesAux]
    | cons b rest ih =>
      intro cur
      have hb : b ≠ NL := fun e => hl (by simp [e])
      have hr : NL ∉ rest := fun e => hl (by simp [e])
      simp only [List.cons_append]
      rw [linesAux]
      simp only [hb, if_false]
      rw [ih hr (b :: cur)]; simp
  simpa using this []

/-- every element of `(linesOf w).1` is a line: newline-free content followed by `\n` -/
def IsLine (l : Bytes) : Prop := ∃ c, NL ∉ c ∧ l = c ++ [NL]

theorem linesAux_isLine (w cur : Bytes) (hc : NL ∉ cur) : ∀ l ∈ (linesAux w cur).1, IsLine l := by
  induction w generalizing cur with
  | nil => simp [linesAux]
  | cons b rest ih =>
    unfold linesAux
    split
    · next hb =>
      intro l hl
      simp only [List.mem_cons] at hl
      rcases hl with hl | hl
      · exact ⟨cur.reverse, by simpa using hc, by rw [hl, hb]; simp⟩
      · exact ih [] (by simp) l hl
    · next hb => exact ih (b :: cur) (by simp [hc, Ne.symm hb])

theorem linesOf_isLine (w : Bytes) : ∀ l ∈ (linesOf w).1, IsLine l := linesAux_isLine w [] (by simp)

theorem linesOf_append_lines (ls : List Bytes) (h : ∀ l ∈ ls, IsLine l) (w : Bytes) :
    linesOf (ls.flatten ++ w) = (ls ++ (linesOf w).1, (linesOf w).2) := by
  induction ls with
  | nil => simp
  | cons l rest ih =>
    obtain ⟨c, hc, rfl⟩ := h l (by simp)
    have hr : ∀ l ∈ rest, IsLine l := fun l hl => h l (by simp [hl])
    have e : ((c ++ [NL]) :: rest).flatten ++ w = c ++ NL :: (rest.flatten ++ w) := by simp
    rw [e, linesOf_append_line c hc, ih hr]
    simp

/-- splitting `w` as (its complete lines) ++ rest and re-splitting gives the same thing -/
theorem linesOf_complete (w : Bytes) : linesOf (linesOf w).1.flatten = ((linesOf w).1, []) := by
  have := linesOf_append_lines (linesOf w).1 (linesOf_isLine w) []
  simpa [linesOf, linesAux] using this

/-! ### a per-line parser folded over lines -/

/-- result of processing ONE complete line -/
inductive LR (σ : Type) where
  | ok (st : σ)
  | err (kind : Nat) (line : Nat)
  | panic (site : String)

def foldL {σ} (L : σ → Bytes → LR σ) : σ → List Bytes → LR σ
  | st, [] => .ok st
  | st, l :: ls =>
    match L st l with
    | .ok st' => foldL L st' ls
    | .err k n => .err k n
    | .panic e => .panic e

theorem foldL_append {σ} (L : σ → Bytes → LR σ) (st : σ) (a b : List Bytes) :
    foldL L st (a ++ b) =
      match foldL L st a with
      | .ok st' => foldL L st' b
      | .err k n => .err k n
      | .panic e => .panic e := by
  induction a generalizing st with
  | nil => simp [foldL]
  | cons l ls ih =>
    simp only [List.cons_append, foldL]
    cases L st l with
    | ok st' => exact ih st'
    | err k n => rfl
    | panic e => rfl

/-- what `parse_more` must compute: all complete lines of the window, in order -/
def pmSpec {σ} (L : σ → Bytes → LR σ) (st : σ) (w : Bytes) : PM σ :=
  match foldL L st (linesOf w).1 with
  | .ok st' => .ok (linesOf w).1.flatten.length st'
  | .err k n => .err k n
  | .panic e => .panic e

/-- reference semantics of the rest of a parse: `ne` = something has been consumed already -/
def specRest {σ} (L : σ → Bytes → LR σ) (lines : σ → Nat) (st : σ) (ne : Bool) (rest : Bytes) : Out σ :=
  match foldL L st (linesOf rest).1 with
  | .err k n => .err k n
  | .panic e => .panic e
  | .ok st' =>
    if !ne && (linesOf rest).1.isEmpty then .err errEmpty 0
    else if (linesOf rest).2.isEmpty then .ok st'
    else .err errEof (lines st')

/-- reference semantics of `SymbolFile::parse` for inputs without over-long lines: fold the line
    parser over the complete lines; an unterminated rest is `unexpected EOF`; nothing consumed at
    all is `empty SymbolFile`. -/
def specOut {σ} (L : σ → Bytes → LR σ) (lines : σ → Nat) (st : σ) (input : Bytes) : Out σ :=
  specRest L lines st false input

theorem specRest_append {σ} (L : σ → Bytes → LR σ) (lines : σ → Nat) (st st' : σ) (ne : Bool)
    (ls : List Bytes) (hls : ∀ l ∈ ls, IsLine l) (w : Bytes) (hf : foldL L st ls = .ok st') :
    specRest L lines st ne (ls.flatten ++ w) = specRest L lines st' (ne || !ls.isEmpty) w := by
  unfold specRest
  rw [linesOf_append_lines ls hls w]
  simp only []
  rw [foldL_append, hf]
  simp only []
  cases foldL L st' (linesOf w).1 with
  | err k n => rfl
  | panic e => rfl
  | ok st2 =>
    simp only []
    cases ne <;> cases hl : ls.isEmpty <;> simp_all

theorem specRest_err {σ} (L : σ → Bytes → LR σ) (lines : σ → Nat) (st : σ) (ne : Bool)
    (ls : List Bytes) (hls : ∀ l ∈ ls, IsLine l) (w : Bytes) (k n : Nat) (hf : foldL L st ls = .err k n) :
    specRest L lines st ne (ls.flatten ++ w) = .err k n := by
  unfold specRest
  rw [linesOf_append_lines ls hls w]
  simp only []
  rw [foldL_append, hf]

theorem specRest_panic {σ} (L : σ → Bytes → LR σ) (lines : σ → Nat) (st : σ) (ne : Bool)
    (ls : List Bytes) (hls : ∀ l ∈ ls, IsLine l) (w : Bytes) (e : String) (hf : foldL L st ls = .panic e) :
    specRest L lines st ne (ls.flatten ++ w) = .panic e := by
  unfold specRest
  rw [linesOf_append_lines ls hls w]
  simp only []
  rw [foldL_append, hf]

end MdModel.Stream
