/-
  MdProofs.Lemmas.BytesStreams — `Safe (K * all.size)` for the stream readers, the handle
  object-info walk (termination by the visited set), the exception accessors, the directory
  loop, and finally `readAll`.
-/
import MdProofs.Lemmas.BytesSafe
namespace MdModel.Dump
open MdModel MdModel.Gen.Layouts

/-- the allocation bound used throughout: `K` times the length of the whole file -/
abbrev Bnd (all : Bytes) : Nat := K * all.size

theorem size_thread : Layout.size MINIDUMP_THREAD = 48 := by decide
theorem size_module : Layout.size MINIDUMP_MODULE = 108 := by decide
theorem size_unloaded : Layout.size MINIDUMP_UNLOADED_MODULE = 24 := by decide
theorem size_memdesc : Layout.size MINIDUMP_MEMORY_DESCRIPTOR = 16 := by decide
theorem size_memdesc64 : Layout.size MINIDUMP_MEMORY_DESCRIPTOR64 = 16 := by decide
theorem size_meminfo : Layout.size MINIDUMP_MEMORY_INFO = 48 := by decide
theorem size_threadname : Layout.size MINIDUMP_THREAD_NAME = 12 := by decide
theorem size_threadinfo : Layout.size MINIDUMP_THREAD_INFO = 64 := by decide
theorem size_objinfo : Layout.size MINIDUMP_HANDLE_OBJECT_INFORMATION = 12 := by decide
theorem size_handle1 : Layout.size MINIDUMP_HANDLE_DESCRIPTOR = 32 := by decide
theorem size_handle2 : Layout.size MINIDUMP_HANDLE_DESCRIPTOR_2 = 40 := by decide
theorem size_directory : Layout.size MINIDUMP_DIRECTORY = 12 := by decide
theorem size_header : Layout.size MINIDUMP_HEADER = 32 := by decide
theorem size_exception : Layout.size MINIDUMP_EXCEPTION_STREAM = 168 := by decide

/-! ### modules -/

theorem readModule_safe (all : Bytes) (e : Endian) (raw : RawModule) (hsz : SliceLen all.size) :
    Safe (Bnd all) (readModule all e raw) := by
  unfold readModule
  refine safe_bind (readStringUtf16_safe _ _ _ hsz (by unfold Bnd K; omega)) (fun r _ => ?_)
  split
  · exact safe_fail _
  · split
    · exact safe_pure _
    · refine safe_bind (readCodeview_safe _ _ _ (by unfold Bnd K; omega)) (fun cv _ => ?_)
      split
      · exact safe_fail _
      · exact safe_pure _

theorem readModules_safe (all : Bytes) (e : Endian) (hsz : SliceLen all.size) :
    ∀ raws : List RawModule, Safe (Bnd all) (readModules all e raws) := by
  intro raws
  induction raws with
  | nil => exact safe_pure _
  | cons r rs ih =>
    unfold readModules
    split
    · exact ih
    · exact safe_bind (readModule_safe all e r hsz) (fun m _ => safe_bind ih (fun ms _ => safe_pure _))

theorem readModuleList_safe (ms : MemSizes) (hms : ms.Bounded) (b all : Bytes) (e : Endian)
    (hsz : SliceLen all.size) (hb : b.size ≤ all.size) : Safe (Bnd all) (readModuleList ms b all e) := by
  unfold readModuleList
  refine safe_bind (readStreamList_safe _ _ _ _ (by rw [size_module]; exact hms.rawModule) (by unfold Bnd K; omega))
    (fun raws hraws => ?_)
  have hlen := readStreamList_ok hraws
  rw [size_module] at hlen
  refine safe_bind (safe_alloc ?_) (fun _ _ => readModules_safe all e hsz _)
  have := alloc_bound (c := 4) hlen hms.module
  unfold Bnd K; omega

theorem readUnloadedModules_safe (all : Bytes) (e : Endian) (hsz : SliceLen all.size) :
    ∀ raws : List (List Nat), Safe (Bnd all) (readUnloadedModules all e raws) := by
  intro raws
  induction raws with
  | nil => exact safe_pure _
  | cons v vs ih =>
    unfold readUnloadedModules
    split
    · exact safe_fail _
    · refine safe_bind (readStringUtf16_safe _ _ _ hsz (by unfold Bnd K; omega)) (fun r _ => ?_)
      split
      · exact safe_fail _
      · exact safe_bind ih (fun ms _ => safe_pure _)

theorem readUnloadedModuleList_safe (ms : MemSizes) (hms : ms.Bounded) (b all : Bytes) (e : Endian)
    (hsz : SliceLen all.size) (hb : b.size ≤ all.size) :
    Safe (Bnd all) (readUnloadedModuleList ms b all e) := by
  unfold readUnloadedModuleList
  refine safe_bind (readExStreamList_safe _ _ _ _ (by rw [size_unloaded]; exact hms.rawUnloaded) (by unfold Bnd K; omega))
    (fun raws hraws => ?_)
  have hlen := readExStreamList_ok hraws
  rw [size_unloaded] at hlen
  refine safe_bind (safe_alloc ?_) (fun _ _ => readUnloadedModules_safe all e hsz _)
  have := alloc_bound (c := 4) hlen hms.unloaded
  unfold Bnd K; omega

/-! ### thread names -/

theorem readNames_safe (all : Bytes) (e : Endian) (hsz : SliceLen all.size) :
    ∀ (raws : List (List Nat)) (acc : List (Nat × List Nat)), Safe (Bnd all) (readNames all e raws acc) := by
  intro raws
  induction raws with
  | nil => intro acc; exact safe_pure _
  | cons v vs ih =>
    intro acc
    unfold readNames
    refine safe_bind (readStringUtf16_safe _ _ _ hsz (by unfold Bnd K; omega)) (fun r _ => ?_)
    split
    · exact ih _
    · exact ih _

theorem readThreadNames_safe (ms : MemSizes) (hms : ms.Bounded) (b all : Bytes) (e : Endian)
    (hsz : SliceLen all.size) (hb : b.size ≤ all.size) : Safe (Bnd all) (readThreadNames ms b all e) := by
  unfold readThreadNames
  exact safe_bind (readStreamList_safe _ _ _ _ (by rw [size_threadname]; exact hms.rawThreadName) (by unfold Bnd K; omega))
    (fun raws _ => readNames_safe all e hsz _ _)

/-! ### memory -/

theorem readMemoryList_safe (ms : MemSizes) (hms : ms.Bounded) (b all : Bytes) (e : Endian)
    (hb : b.size ≤ all.size) : Safe (Bnd all) (readMemoryList ms b all e) := by
  unfold readMemoryList
  refine safe_bind (readStreamList_safe _ _ _ _ (by rw [size_memdesc]; exact hms.rawMemDesc) (by unfold Bnd K; omega))
    (fun raws hraws => ?_)
  have hlen := readStreamList_ok hraws
  rw [size_memdesc] at hlen
  refine safe_bind (safe_alloc ?_) (fun _ _ => safe_pure _)
  have := alloc_bound (c := 4) hlen hms.memory
  unfold Bnd K; omega

theorem readMemory64List_safe (ms : MemSizes) (hms : ms.Bounded) (b all : Bytes) (e : Endian)
    (hb : b.size ≤ all.size) : Safe (Bnd all) (readMemory64List ms b all e) := by
  unfold readMemory64List
  split
  · rename_i count rva _ _
    split
    · exact safe_fail _
    · rename_i counted hc
      have ⟨hc1, hc2⟩ := ensureCountInBound_ok hc
      rw [size_memdesc64] at hc1
      split
      · exact safe_fail _
      · have h1 : count * 16 ≤ b.size := by omega
        refine safe_bind (safe_alloc ?_) (fun _ _ => ?_)
        · have := alloc_bound (c := 4) h1 hms.rawMemDesc64
          unfold Bnd K; omega
        · refine safe_bind (safe_ofOption _ _) (fun raws hraws => ?_)
          have hl := readEntries_length (ofOption_ok hraws)
          refine safe_bind (safe_alloc ?_) (fun _ _ => safe_ofExcept _)
          rw [hl]
          have := alloc_bound (c := 4) h1 hms.memory64
          unfold Bnd K; omega
  · exact safe_fail _

theorem readMemoryInfoList_safe (ms : MemSizes) (hms : ms.Bounded) (b all : Bytes) (e : Endian)
    (hb : b.size ≤ all.size) : Safe (Bnd all) (readMemoryInfoList ms b e) := by
  unfold readMemoryInfoList
  refine safe_bind (readExStreamList_safe _ _ _ _ (by rw [size_meminfo]; exact hms.rawMemInfo) (by unfold Bnd K; omega))
    (fun raws hraws => ?_)
  have hlen := readExStreamList_ok hraws
  rw [size_meminfo] at hlen
  refine safe_bind (safe_alloc ?_) (fun _ _ => safe_pure _)
  have := alloc_bound (c := 4) hlen hms.memInfo
  unfold Bnd K; omega

/-! ### threads -/

theorem readThreadList_safe (ms : MemSizes) (hms : ms.Bounded) (b all : Bytes) (e : Endian)
    (hb : b.size ≤ all.size) : Safe (Bnd all) (readThreadList ms b all e) := by
  unfold readThreadList
  refine safe_bind (readStreamList_safe _ _ _ _ (by rw [size_thread]; exact hms.rawThread) (by unfold Bnd K; omega))
    (fun raws hraws => ?_)
  have hlen := readStreamList_ok hraws
  rw [size_thread] at hlen
  refine safe_bind (safe_alloc ?_) (fun _ _ => safe_bind (safe_alloc ?_) (fun _ _ => safe_pure _))
  · have := alloc_bound (c := 4) hlen hms.thread
    unfold Bnd K; omega
  · have := alloc_bound (c := 4) (mem := HASHMAP_SLOT) hlen (by decide)
    unfold Bnd K; omega

theorem readThreadInfoList_safe (ms : MemSizes) (hms : ms.Bounded) (b all : Bytes) (e : Endian)
    (hb : b.size ≤ all.size) : Safe (Bnd all) (readThreadInfoList ms b e) := by
  unfold readThreadInfoList
  refine safe_bind (readExStreamList_safe _ _ _ _ (by rw [size_threadinfo]; exact hms.rawThreadInfo) (by unfold Bnd K; omega))
    (fun raws hraws => ?_)
  have hlen := readExStreamList_ok hraws
  rw [size_threadinfo] at hlen
  refine safe_bind (safe_alloc ?_) (fun _ _ => safe_bind (safe_alloc ?_) (fun _ _ => safe_pure _))
  · have := alloc_bound (c := 4) hlen hms.threadInfo
    unfold Bnd K; omega
  · have := alloc_bound (c := 4) (mem := HASHMAP_SLOT) hlen (by decide)
    unfold Bnd K; omega

/-! ### handle data: the object-info walk ends -/

theorem readObjectInfo_some {all : Bytes} {e : Endian} {rva : Nat} {oi : ObjInfo}
    (h : readObjectInfo all e rva = some oi) : rva ≠ 0 ∧ rva + 12 ≤ all.size := by
  unfold readObjectInfo at h
  split at h
  · cases h
  · rename_i hne
    split at h
    · cases h
    · rename_i v hv
      have := readFields_some hv
      rw [size_objinfo] at this
      cases this with
      | inl hnil => exact absurd hnil (by decide)
      | inr hle => exact ⟨hne, hle⟩

/-- Invariant of the walk: the visited set is duplicate free and holds only offsets inside the
    file, so it cannot grow beyond `all.size` elements; with `fuel + |seen| > all.size` the fuel is
    never the reason the walk stops, and the chain it returns has at most `all.size` elements. -/
theorem walkChain_inv (all : Bytes) (e : Endian) :
    ∀ (fuel rva : Nat) (seen : List Nat) (acc : List ObjInfo),
      seen.Nodup → (∀ r ∈ seen, r < all.size) → all.size < fuel + seen.length → acc.length ≤ seen.length →
      ∃ infos, walkChain all e fuel rva seen acc = some infos ∧ infos.length ≤ all.size := by
  intro fuel
  induction fuel with
  | zero =>
    intro rva seen acc hnd hlt hfuel _
    have := nodup_length_le all.size seen hnd hlt
    omega
  | succ f ih =>
    intro rva seen acc hnd hlt hfuel hacc
    have hpig := nodup_length_le all.size seen hnd hlt
    unfold walkChain
    split
    · exact ⟨_, rfl, by simp; omega⟩
    · split
      · exact ⟨_, rfl, by simp; omega⟩
      · rename_i hnc
        split
        · exact ⟨_, rfl, by simp; omega⟩
        · rename_i oi hoi
          have ⟨_, hr⟩ := readObjectInfo_some hoi
          have hnm : rva ∉ seen := by
            intro hm
            exact hnc (by simpa using hm)
          apply ih
          · exact List.nodup_cons.mpr ⟨hnm, hnd⟩
          · intro r hr'
            cases List.mem_cons.mp hr' with
            | inl h => subst h; omega
            | inr h => exact hlt r h
          · simp; omega
          · simp; omega

theorem handleString_safe (all : Bytes) (e : Endian) (off : Nat) (hsz : SliceLen all.size) :
    Safe (Bnd all) (handleString all e off) := by
  unfold handleString
  split
  · exact safe_pure _
  · exact safe_bind (readStringUtf16_safe _ _ _ hsz (by unfold Bnd K; omega)) (fun _ _ => safe_pure _)

theorem readHandleDescriptor_safe (ms : MemSizes) (hms : ms.Bounded) (b all : Bytes) (e : Endian)
    (fieldsize off : Nat) (hsz : SliceLen all.size) :
    Safe (Bnd all) (readHandleDescriptor ms b all e fieldsize off) := by
  unfold readHandleDescriptor
  split
  · split
    · exact safe_pure _
    · exact safe_bind (handleString_safe _ _ _ hsz) (fun _ _ =>
        safe_bind (handleString_safe _ _ _ hsz) (fun _ _ => safe_pure _))
  · split
    · split
      · exact safe_pure _
      · rename_i v _
        refine safe_bind (handleString_safe _ _ _ hsz) (fun _ _ =>
          safe_bind (handleString_safe _ _ _ hsz) (fun _ _ => ?_))
        have ⟨infos, hw, hl⟩ := walkChain_inv all e (all.size + 1) (fld v 7) [] []
          List.nodup_nil (by intro r h; cases h) (by simp) (by simp)
        rw [hw]
        refine safe_bind (safe_alloc ?_) (fun _ _ => safe_pure _)
        have h16 := hms.objInfo
        have : infos.length * (2 * ms.objInfo) ≤ all.size * 32 :=
          Nat.mul_le_mul hl (by omega)
        unfold Bnd K; omega
    · exact safe_pure _

theorem readHandles_safe (ms : MemSizes) (hms : ms.Bounded) (b all : Bytes) (e : Endian) (fieldsize : Nat)
    (hsz : SliceLen all.size) : ∀ n off, Safe (Bnd all) (readHandles ms b all e fieldsize n off) := by
  intro n
  induction n with
  | zero => intro off; exact safe_pure _
  | succ n ih =>
    intro off
    unfold readHandles
    split
    · exact safe_fail _
    · refine safe_bind (readHandleDescriptor_safe ms hms b all e fieldsize off hsz) (fun h _ => ?_)
      split
      · exact safe_fail _
      · exact safe_bind (ih _) (fun _ _ => safe_pure _)

theorem readHandleData_safe (ms : MemSizes) (hms : ms.Bounded) (b all : Bytes) (e : Endian)
    (hsz : SliceLen all.size) (hb : b.size ≤ all.size) : Safe (Bnd all) (readHandleData ms b all e) := by
  unfold readHandleData
  split
  · rename_i hdr desc count _ _ _
    split
    · exact safe_fail _
    · rename_i x hc
      have ⟨hc1, hc2⟩ := ensureCountInBound_ok hc
      split
      · exact safe_fail _
      · rename_i hcond
        refine safe_bind (safe_alloc ?_) (fun _ _ => readHandles_safe ms hms b all e desc hsz _ _)
        rw [size_handle1, size_handle2] at hcond
        by_cases h0 : count = 0
        · subst h0; simp
        · have hd : desc = 32 ∨ desc = 40 := by
            by_cases h32 : desc = 32
            · exact .inl h32
            · by_cases h40 : desc = 40
              · exact .inr h40
              · exact absurd ⟨h0, h32, h40⟩ hcond
          have hcd : count * desc ≤ b.size := by omega
          have hm : ms.handleDesc ≤ 4 * desc := by
            have := hms.handleDesc
            cases hd with
            | inl h => subst h; omega
            | inr h => subst h; omega
          have := alloc_bound (c := 4) hcd hm
          unfold Bnd K; omega
  · exact safe_fail _

/-! ### exception -/

theorem readException_safe {B : Nat} (b all : Bytes) (e : Endian) : Safe B (readException b all e) := by
  unfold readException
  split
  · exact safe_fail _
  · exact safe_pure _

theorem readException_info_length {b all : Bytes} {e : Endian} {x : Exception}
    (h : (readException b all e).res = .ok x) : x.info.length = 15 := by
  unfold readException at h
  split at h
  · cases h
  · rename_i v hv
    have hl := readFields_length hv
    have : MINIDUMP_EXCEPTION_STREAM.length = 25 := by decide
    rw [this] at hl
    cases h
    simp [hl]

/-! ### the directory loop -/

theorem readDirectory_steps (b : Bytes) (e : Endian) :
    ∀ (todo i off : Nat) (acc : List (Nat × DirEntry)),
      (readDirectory b e todo i off acc).2 ≤ i + (b.size - off) / 12 + 1 := by
  intro todo
  induction todo with
  | zero => intro i off acc; simp [readDirectory]; omega
  | succ t ih =>
    intro i off acc
    unfold readDirectory
    split
    · simp <;> omega
    · rename_i v hv
      have := readFields_some hv
      rw [size_directory] at this ⊢
      cases this with
      | inl h => exact absurd h (by decide)
      | inr h =>
        have := ih (i + 1) (off + 12) (mapInsert (fld v 0) ⟨i, ⟨fld v 1, fld v 2⟩⟩ acc)
        omega

/-- when the loop succeeds, all `todo` entries were inside the file -/
theorem readDirectory_ok (b : Bytes) (e : Endian) :
    ∀ (todo i off : Nat) (acc m : List (Nat × DirEntry)) (steps : Nat),
      readDirectory b e todo i off acc = (.ok m, steps) → steps = i + todo ∧ (todo = 0 ∨ off + 12 * todo ≤ b.size) := by
  intro todo
  induction todo with
  | zero => intro i off acc m steps h; simp [readDirectory] at h; exact ⟨by omega, .inl rfl⟩
  | succ t ih =>
    intro i off acc m steps h
    unfold readDirectory at h
    split at h
    · cases h
    · rename_i v hv
      have hf := readFields_some hv
      rw [size_directory] at hf h
      cases hf with
      | inl h' => exact absurd h' (by decide)
      | inr hle =>
        have ⟨h1, h2⟩ := ih _ _ _ _ _ h
        refine ⟨by omega, .inr ?_⟩
        cases h2 with
        | inl h0 => subst h0; omega
        | inr h' => omega

/-! ### `get_stream`, `readAll` -/

theorem getRawStream_size {d : Dump} {b s : Bytes} {ty : Nat} (h : getRawStream d b ty = .ok s) :
    s.size ≤ b.size := by
  unfold getRawStream at h
  split at h
  · cases h
  · split at h
    · cases h
    · rename_i s' hs
      cases h
      exact locationSlice_size hs

theorem getStream_safe {α : Type} {B : Nat} (d : Dump) (b : Bytes) (ty : Nat) (reader : Bytes → M α)
    (h : ∀ s, s.size ≤ b.size → Safe B (reader s)) : Safe B (getStream d b ty reader) := by
  unfold getStream
  split
  · exact safe_pure _
  · rename_i s hs
    exact safe_catch (h s (getRawStream_size hs))

theorem readCore_safe (ms : MemSizes) (hms : ms.Bounded) (b : Bytes) (d : Dump) (hsz : SliceLen b.size) :
    Safe (Bnd b) (readCore ms b d) := by
  unfold readCore
  dsimp only
  refine safe_bind (getStream_safe _ _ _ _ (fun s hs => readThreadList_safe ms hms s b _ hs)) (fun _ _ => ?_)
  refine safe_bind (getStream_safe _ _ _ _ (fun s hs => readModuleList_safe ms hms s b _ hsz hs)) (fun _ _ => ?_)
  refine safe_bind (getStream_safe _ _ _ _ (fun s hs => readUnloadedModuleList_safe ms hms s b _ hsz hs)) (fun _ _ => ?_)
  refine safe_bind (getStream_safe _ _ _ _ (fun s hs => readMemoryList_safe ms hms s b _ hs)) (fun _ _ => ?_)
  refine safe_bind (getStream_safe _ _ _ _ (fun s hs => readMemory64List_safe ms hms s b _ hs)) (fun _ _ => ?_)
  refine safe_bind (getStream_safe _ _ _ _ (fun s hs => readMemoryInfoList_safe ms hms s b _ hs)) (fun _ _ => ?_)
  refine safe_bind (getStream_safe _ _ _ _ (fun s hs => readThreadNames_safe ms hms s b _ hsz hs)) (fun _ _ => ?_)
  refine safe_bind (getStream_safe _ _ _ _ (fun s hs => readThreadInfoList_safe ms hms s b _ hs)) (fun _ _ => ?_)
  refine safe_bind (getStream_safe _ _ _ _ (fun s hs => readHandleData_safe ms hms s b _ hsz hs)) (fun _ _ => ?_)
  refine safe_bind (getStream_safe _ _ _ _ (fun s _ => readException_safe s b _)) (fun _ _ => ?_)
  exact safe_pure _

/-! ### `readAll` reports errors as values -/

/-- the `Err` outcome is not reached (errors, if any, have been turned into values) -/
def NoErr {α : Type} (m : M α) : Prop := ∀ e, m.res ≠ .err e

theorem noErr_pure {α : Type} (a : α) : NoErr (pure a : M α) := by intro e h; cases h

theorem noErr_catch {α : Type} (x : M α) : NoErr (M.catch' x) := by
  intro e h
  unfold M.catch' at h
  split at h <;> cases h

theorem noErr_bind {α β : Type} {x : M α} {f : α → M β} (hx : NoErr x) (hf : ∀ a, NoErr (f a)) :
    NoErr (x >>= f) := by
  intro e h
  rw [M.bind_def] at h
  unfold M.bind' at h
  cases hres : x.res with
  | ok a => rw [hres] at h; exact hf a e h
  | err e' => exact hx e' hres
  | panic s => rw [hres] at h; cases h

theorem getStream_noErr {α : Type} (d : Dump) (b : Bytes) (ty : Nat) (reader : Bytes → M α) :
    NoErr (getStream d b ty reader) := by
  unfold getStream
  split
  · exact noErr_pure _
  · exact noErr_catch _

theorem readCore_noErr (ms : MemSizes) (b : Bytes) (d : Dump) : NoErr (readCore ms b d) := by
  unfold readCore
  dsimp only
  repeat (refine noErr_bind (getStream_noErr _ _ _ _) (fun _ => ?_))
  exact noErr_pure _

end MdModel.Dump
