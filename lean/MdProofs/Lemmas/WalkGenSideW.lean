/-
  C04 — `gcfiSide` from record-level facts for worlds of SEVERAL modules (the generator's
  `tidy_world`: 1–3 modules, the list possibly permuted): `worldOkB` (modules with ranges, pairwise
  disjoint; every symbol file's STACK CFI records non-empty, inside its module, pairwise disjoint)
  turns the module-table and CFI-range-table lookups of `cfiRecordAt` into two linear searches
  (`modFind`, `cfiCover`).

  * `cfiRecordAt_world`  — `modFind w instr = some (m, sf) → cfiRecordAt w instr = cfiCover m sf instr`
  * `gcfiSide_of_world`  — `gcfiSideW → gcfiSide`
-/
import MdProofs.Lemmas.WalkGenSide
namespace MdModel.Walk
open MdModel MdModel.RangeMap

theorem pairwise_of_modsDisjB (l : List Module) (h : modsDisjB l = true) :
    l.Pairwise fun c d => c.base + c.size ≤ d.base ∨ d.base + d.size ≤ c.base := by
  induction l with
  | nil => exact List.Pairwise.nil
  | cons c rest ih =>
    simp only [modsDisjB, Bool.and_eq_true, List.all_eq_true, Bool.or_eq_true, decide_eq_true_eq] at h
    exact List.pairwise_cons.mpr ⟨h.1, ih h.2⟩

/-- position `i` of a list splits it -/
theorem split_at_getElem {α : Type} (l : List α) (i : Nat) (h : i < l.length) :
    l = l.take i ++ l[i] :: l.drop (i + 1) ∧ (l.take i).length = i := by
  refine ⟨?_, by simp; omega⟩
  rw [List.getElem_cons_drop, List.take_append_drop]

theorem cfiRecordAt_at (w : World) (pre post : List Module) (m : Module) (sf : SymFile) (hok : OneModOk m sf)
    (hmods : w.mods = pre ++ m :: post) (hsym : w.syms[pre.length]? = some (some sf))
    (hdisj : ∀ m' ∈ pre ++ post, m.base + m.size ≤ m'.base ∨ m'.base + m'.size ≤ m.base)
    (instr : Nat) (hin : m.base ≤ instr ∧ instr < m.base + m.size) :
    cfiRecordAt w instr = cfiCover m sf instr := by
  have hmr := mkRange_some hok.hm.1 hok.hm.2
  have hmiso : ∀ m' ∈ pre ++ post, ∀ s, mkRange m'.base m'.size = some s →
      (⟨m.base, m.base + m.size - 1⟩ : Rng).intersects s = false := by
    intro m' hm' s hs
    have hs' := mkRange_spec hs
    have := hdisj m' hm'
    have := hok.hm
    simp only [Rng.intersects, ge_iff_le, Bool.and_eq_false_imp, decide_eq_true_eq, decide_eq_false_iff_not]
    intro _
    omega
  cases h : cfiCover m sf instr with
  | some rec =>
    unfold cfiCover at h
    obtain ⟨hcov, as, bs, hsplit, _⟩ := List.find?_eq_some_iff_append.mp h
    simp only [CfiRec.covers, Bool.and_eq_true, decide_eq_true_eq] at hcov
    have hrec : rec ∈ sf.cfis := by rw [hsplit]; simp
    have hf := hok.hfit rec hrec
    have hrr := mkRange_some hf.1 (show rec.addr + rec.size ≤ U64MAX by have := hok.hm; omega)
    have hd := hok.hdisj
    rw [hsplit, List.pairwise_append] at hd
    obtain ⟨_, hd2, hd3⟩ := hd
    rw [List.pairwise_cons] at hd2
    refine cfiRecordAt_of_isolated w pre post m sf as bs rec _ _ instr hmods hsym hsplit hmr hrr hmiso ?_
      ⟨hcov.1, hcov.2⟩ hf.2
    intro c hc s hs
    have hs' := mkRange_spec hs
    simp only [Rng.intersects, ge_iff_le, Bool.and_eq_false_imp, decide_eq_true_eq, decide_eq_false_iff_not]
    intro _
    rcases List.mem_append.mp hc with hc | hc
    · have := hd3 c hc rec (by simp)
      omega
    · have := hd2.1 c hc
      omega
  | none =>
    unfold cfiCover at h
    have hmod := moduleAt_of_isolated pre post m _ instr hmr hmiso (by simp only; omega)
    have hmi : w.mods[pre.length]? = some m := by simp [hmods]
    have hsj : (w.syms[pre.length]?).join = some sf := by rw [hsym]; rfl
    rw [← hmods] at hmod
    unfold cfiRecordAt
    simp only [hmod, hmi, hsj, if_neg (show ¬ instr < m.base by omega)]
    cases hg : RangeMap.get (cfiTable sf) (instr - m.base) with
    | none => rfl
    | some j =>
      exfalso
      unfold cfiTable at hg
      obtain ⟨r, hmem, hlo, hhi⟩ := getP_sound _ _ _ hg
      simp only [List.mem_filterMap, Option.map_eq_some_iff] at hmem
      obtain ⟨x, hx, s, hs, hrs⟩ := hmem
      have hxc : x.1 ∈ sf.cfis := fst_mem_of_mem_zipIdx hx
      have hsp := mkRange_spec hs
      have hnc := List.find?_eq_none.mp h x.1 hxc
      simp only [Prod.mk.injEq] at hrs
      obtain ⟨rfl, _⟩ := hrs
      apply hnc
      simp only [CfiRec.covers, Bool.and_eq_true, decide_eq_true_eq]
      omega

/-- **the two range-table lookups are two linear searches** under `worldOkB` -/
theorem cfiRecordAt_world (w : World) (hok : worldOkB w = true) (instr : Nat) (m : Module) (sf : SymFile)
    (h : modFind w instr = some (m, sf)) : cfiRecordAt w instr = cfiCover m sf instr := by
  simp only [worldOkB, Bool.and_eq_true, List.all_eq_true, decide_eq_true_eq] at hok
  obtain ⟨⟨hdisj, _⟩, hsyms⟩ := hok
  unfold modFind at h
  cases hf : w.mods.zipIdx.find? (fun x => x.1.has instr) with
  | none => rw [hf] at h; cases h
  | some x =>
    obtain ⟨m', i⟩ := x
    rw [hf] at h
    simp only [Option.map_eq_some_iff, Prod.mk.injEq] at h
    obtain ⟨sf', hsf, rfl, rfl⟩ := h
    have hmem := List.mem_of_find?_eq_some hf
    have hhas := List.find?_some hf
    simp only [Module.has, Bool.and_eq_true, decide_eq_true_eq] at hhas
    obtain ⟨_, hil, hmi⟩ := List.mem_zipIdx hmem
    simp only [Nat.sub_zero, Nat.zero_add] at hil hmi
    obtain ⟨hsplit, hlen⟩ := split_at_getElem w.mods i hil
    rw [← hmi] at hsplit
    have hone := hsyms (m', i) hmem
    simp only [hsf] at hone
    have hpw := pairwise_of_modsDisjB _ hdisj
    rw [hsplit, List.pairwise_append] at hpw
    obtain ⟨_, hp2, hp3⟩ := hpw
    rw [List.pairwise_cons] at hp2
    refine cfiRecordAt_at w _ _ m' sf' (oneModOk_of_B _ _ hone) hsplit
      (by rw [hlen]; exact Option.join_eq_some_iff.mp hsf) ?_ instr hhas
    intro m'' hm''
    rcases List.mem_append.mp hm'' with hc | hc
    · have := hp3 m'' hc m' (by simp)
      omega
    · exact hp2.1 m'' hc

/-- **`gcfiSide` from record-level facts, worlds of several modules** -/
theorem gcfiSide_of_world (w : World) (hok : worldOkB w = true) (a : Arch) (frames : List CfiFr) :
    ∀ (instr : Nat) (first : Bool), gcfiSideW w a instr first frames = true →
      gcfiSide w a instr first frames = true := by
  induction frames with
  | nil =>
    intro instr first h
    simp only [gcfiSideW] at h
    cases hm : modFind w instr with
    | none => rw [hm] at h; cases h
    | some x =>
      obtain ⟨m, sf⟩ := x
      rw [hm] at h
      simp only [gcfiSide, cfiRecordAt_world w hok instr m sf hm]
      exact h
  | cons c rest ih =>
    intro instr first h
    simp only [gcfiSideW, Bool.and_eq_true] at h
    obtain ⟨h1, h2⟩ := h
    cases hm : modFind w instr with
    | none => rw [hm] at h1; simp at h1
    | some x =>
      obtain ⟨m, sf⟩ := x
      rw [hm] at h1
      simp only [Option.bind_some] at h1
      simp only [gcfiSide, cfiRecordAt_world w hok instr m sf hm, Bool.and_eq_true]
      exact ⟨by simpa only [Bool.and_eq_true] using h1, ih _ _ h2⟩

end MdModel.Walk
