/-
  MdProofs.Lemmas.EncodeMemory — `memory_at_address` + `get_memory_at_address::<u8>` on a region
  list, through C08's range table (`get_complete`): every address of a region that intersects no
  other region reads back that region's byte.
-/
import MdModel.Encode
import MdProofs.C08
namespace MdModel.Encode
open MdModel MdModel.RangeMap

/-- the table input `from_regions` builds: `(region.memory_range(), index)` -/
def regionInput (start : Nat) (rs : List MRegion) : List (Option Rng × Val) :=
  (rs.zipIdx start).map fun (r, i) => (mkRange r.base r.bytes.length, i)

theorem regionInput_wf (start : Nat) (rs : List MRegion) : InputWF (regionInput start rs) := by
  intro e he r hr
  simp only [regionInput, List.mem_map] at he
  obtain ⟨⟨x, i⟩, _, rfl⟩ := he
  have := mkRange_wf hr
  exact ⟨this.1, this.2.1⟩

theorem regionInput_append (start : Nat) (xs ys : List MRegion) :
    regionInput start (xs ++ ys) = regionInput start xs ++ regionInput (start + xs.length) ys := by
  simp [regionInput, List.zipIdx_append]

theorem regionInput_cons (start : Nat) (r : MRegion) (rs : List MRegion) :
    regionInput start (r :: rs) = (mkRange r.base r.bytes.length, start) :: regionInput (start + 1) rs := by
  simp [regionInput, List.zipIdx_cons]

theorem regionInput_mem {start : Nat} {rs : List MRegion} {e : Option Rng × Val} (h : e ∈ regionInput start rs) :
    ∃ x ∈ rs, e.1 = mkRange x.base x.bytes.length := by
  simp only [regionInput, List.mem_map] at h
  obtain ⟨⟨x, i⟩, hx, rfl⟩ := h
  exact ⟨x, (List.mem_zipIdx hx).2.2 ▸ List.getElem_mem _, rfl⟩

/-- `r` shares no address with `x` (or `x` has no valid range: empty, or reaching past 2^64-1) -/
def Apart (r x : MRegion) : Prop :=
  x.bytes.length = 0 ∨ x.base + x.bytes.length > U64MAX ∨ x.base + x.bytes.length ≤ r.base ∨
  r.base + r.bytes.length ≤ x.base

/-- **every address of an isolated region reads back its byte** -/
theorem memoryByteAt_exact (pre post : List MRegion) (r : MRegion) (j : Nat) (hj : j < r.bytes.length)
    (hfit : r.base + r.bytes.length ≤ U64MAX) (hiso : ∀ x ∈ pre ++ post, Apart r x) :
    memoryByteAt (pre ++ r :: post) (r.base + j) = r.bytes[j]? := by
  have hrange : mkRange r.base r.bytes.length = some ⟨r.base, r.base + r.bytes.length - 1⟩ := by
    unfold mkRange
    rw [if_neg (by omega), if_neg (by omega)]
  have hinput : regionInput 0 (pre ++ r :: post) =
      regionInput 0 pre ++ (some ⟨r.base, r.base + r.bytes.length - 1⟩, pre.length) :: regionInput (pre.length + 1) post := by
    rw [regionInput_append, regionInput_cons, hrange]; simp
  have hget := get_complete (regionInput 0 pre) (regionInput (pre.length + 1) post)
    ⟨r.base, r.base + r.bytes.length - 1⟩ pre.length (r.base + j)
    (by rw [← hinput]; exact regionInput_wf 0 _)
    (by
      intro e he s hs
      have hx : ∃ x ∈ pre ++ post, e.1 = mkRange x.base x.bytes.length := by
        rcases List.mem_append.mp he with h | h
        · obtain ⟨x, hx, hx'⟩ := regionInput_mem h; exact ⟨x, by simp [hx], hx'⟩
        · obtain ⟨x, hx, hx'⟩ := regionInput_mem h; exact ⟨x, by simp [hx], hx'⟩
      obtain ⟨x, hx, hx'⟩ := hx
      rw [hx'] at hs
      have hw := mkRange_wf hs
      have hap := hiso x hx
      unfold mkRange at hs
      split at hs; · cases hs
      split at hs; · cases hs
      cases hs
      simp only [Rng.intersects, Bool.and_eq_false_imp, decide_eq_true_eq, decide_eq_false_iff_not]
      unfold Apart at hap
      intro h1
      omega)
    ⟨by simp, by simp only; omega⟩
  unfold memoryByteAt regionTable
  have hzip : (pre ++ r :: post).zipIdx.map (fun (r, i) => (mkRange r.base r.bytes.length, i)) =
      regionInput 0 (pre ++ r :: post) := rfl
  rw [hzip, hinput, hget]
  simp only [List.getElem?_append_right (Nat.le_refl _), Nat.sub_self, List.getElem?_cons_zero, regionByte]
  rw [if_neg (by omega)]
  congr 1
  omega

end MdModel.Encode
