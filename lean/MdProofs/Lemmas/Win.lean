/-
  Helper lemmas for C07 (MdModel.Win): the variable map, the caller's validity set.
-/
import MdModel.Win
namespace MdModel.Win
open MdModel

/-! ### variable map (`HashMap<&str, u32>`) -/

theorem Vars.get_nil (k : String) : Vars.get [] k = none := rfl

theorem Vars.get_cons (e : String × UInt32) (vs : Vars) (k : String) :
    Vars.get (e :: vs) k = if e.1 = k then some e.2 else Vars.get vs k := by
  unfold Vars.get
  by_cases h : e.1 = k <;> simp [h]

theorem Vars.erase_cons (e : String × UInt32) (vs : Vars) (k : String) :
    Vars.erase (e :: vs) k = if e.1 = k then Vars.erase vs k else e :: Vars.erase vs k := by
  unfold Vars.erase
  by_cases h : e.1 = k <;> simp [h]

theorem Vars.get_erase_self (vs : Vars) (k : String) : (Vars.erase vs k).get k = none := by
  induction vs with
  | nil => rfl
  | cons e vs ih =>
    rw [Vars.erase_cons]
    by_cases h : e.1 = k
    · simp only [h, if_true]; exact ih
    · simp only [h, if_false]; rw [Vars.get_cons]; simp only [h, if_false]; exact ih

theorem Vars.get_erase_other (vs : Vars) {k k' : String} (h : k' ≠ k) :
    (Vars.erase vs k).get k' = vs.get k' := by
  induction vs with
  | nil => rfl
  | cons e vs ih =>
    rw [Vars.erase_cons, Vars.get_cons]
    by_cases he : e.1 = k
    · have h2 : ¬ e.1 = k' := by intro h'; exact h (h'.symm.trans he)
      simp only [he, if_true]
      rw [if_neg (by intro h'; exact h h'.symm)]; exact ih
    · simp only [he, if_false]; rw [Vars.get_cons]
      by_cases hk : e.1 = k'
      · simp only [hk, if_true]
      · simp only [hk, if_false]; exact ih

theorem Vars.get_set_self (vs : Vars) (k : String) (v : UInt32) : (Vars.set vs k v).get k = some v := by
  unfold Vars.set; rw [Vars.get_cons]; simp

theorem Vars.get_set_other (vs : Vars) {k k' : String} (v : UInt32) (h : k' ≠ k) :
    (Vars.set vs k v).get k' = vs.get k' := by
  unfold Vars.set; rw [Vars.get_cons]
  have : ¬ k = k' := fun h' => h h'.symm
  simp only [this, if_false]; exact Vars.get_erase_other vs h

end MdModel.Win
