/-
  Helper lemmas for C07 (MdModel.Win): the variable map, the caller's validity set.
-/
import MdModel.Win
deriving instance DecidableEq for MdModel.Outcome

namespace MdModel.Win
open MdModel

/-! ### variable map (`HashMap<&str, u32>`) -/

theorem Vars.get_nil (k : String) : Vars.get [] k = none := rfl

theorem Vars.get_cons (e : String × UInt32) (vs : Vars) (k : String) :
    Vars.get (e :: vs) k = if e.1 = k then some e.2 else Vars.get vs k := by
  unfold Vars.get
  by_cases h : e.1 = k <;> simp [h]

theorem Vars.erase_cons (e : String × UInt32) (vs : Vars) (k : String) :
    Vars.erase (e :: vs) k = if e.1 = k then Vars.erase vs k else e :: Vars.erase vs k := by
  unfold Vars.erase
  by_cases h : e.1 = k <;> simp [h]

theorem Vars.get_erase_self (vs : Vars) (k : String) : (Vars.erase vs k).get k = none := by
  induction vs with
  | nil => rfl
  | cons e vs ih =>
    rw [Vars.erase_cons]
    by_cases h : e.1 = k
    · simp only [h, if_true]; exact ih
    · simp only [h, if_false]; rw [Vars.get_cons]; simp only [h, if_false]; exact ih

theorem Vars.get_erase_other (vs : Vars) {k k' : String} (h : k' ≠ k) :
    (Vars.erase vs k).get k' = vs.get k' := by
  induction vs with
  | nil => rfl
  | cons e vs ih =>
    rw [Vars.erase_cons, Vars.get_cons]
    by_cases he : e.1 = k
    · have h2 : ¬ e.1 = k' := by intro h'; exact h (h'.symm.trans he)
      simp only [he, if_true]
      rw [if_neg (by intro h'; exact h h'.symm)]; exact ih
    · simp only [he, if_false]; rw [Vars.get_cons]
      by_cases hk : e.1 = k'
      · simp only [hk, if_true]
      · simp only [hk, if_false]; exact ih

theorem Vars.get_set_self (vs : Vars) (k : String) (v : UInt32) : (Vars.set vs k v).get k = some v := by
  unfold Vars.set; rw [Vars.get_cons]; simp

theorem Vars.get_set_other (vs : Vars) {k k' : String} (v : UInt32) (h : k' ≠ k) :
    (Vars.set vs k v).get k' = vs.get k' := by
  unfold Vars.set; rw [Vars.get_cons]
  have : ¬ k = k' := fun h' => h h'.symm
  simp only [this, if_false]; exact Vars.get_erase_other vs h

/-! ### the caller half of the walker -/

theorem Caller.set_some {c c' : Caller} {n : String} {v : Nat} (h : c.set n v = some c') :
    n ∈ x86Regs ∧ v ≤ U32MAX ∧ c'.vals = c.vals.set n (UInt32.ofNat v) ∧
    c'.valid = (if n ∈ c.valid then c.valid else n :: c.valid) ∧ c'.clears = c.clears ∧
    c'.log = c.log ++ [(n, v)] := by
  unfold Caller.set Caller.setCore at h
  by_cases h1 : n ∈ x86Regs
  · by_cases h2 : v ≤ U32MAX
    · simp only [h1, h2, if_true, Option.map_some, Option.some.injEq] at h
      subst h; exact ⟨h1, h2, rfl, rfl, rfl, rfl⟩
    · simp [h1, h2] at h
  · simp [h1] at h

theorem Caller.set_ok (c : Caller) {n : String} {v : Nat} (h1 : n ∈ x86Regs) (h2 : v ≤ U32MAX) :
    ∃ c', c.set n v = some c' := by
  unfold Caller.set Caller.setCore; simp [h1, h2]

theorem Caller.set_valid {c c' : Caller} {n : String} {v : Nat} (h : c.set n v = some c') (r : String) :
    r ∈ c'.valid ↔ r = n ∨ r ∈ c.valid := by
  obtain ⟨_, _, _, hv, _, _⟩ := Caller.set_some h
  rw [hv]
  by_cases hn : n ∈ c.valid
  · simp only [hn, if_true]
    constructor
    · intro h; exact Or.inr h
    · rintro (h | h)
      · exact h ▸ hn
      · exact h
  · simp only [hn, if_false, List.mem_cons]

theorem Caller.set_vals_self {c c' : Caller} {n : String} {v : Nat} (h : c.set n v = some c') :
    c'.vals.get n = some (UInt32.ofNat v) := by
  obtain ⟨_, _, hv, _, _, _⟩ := Caller.set_some h
  rw [hv]; exact Vars.get_set_self _ _ _

theorem Caller.set_vals_other {c c' : Caller} {n : String} {v : Nat} (h : c.set n v = some c')
    {r : String} (hr : r ≠ n) : c'.vals.get r = c.vals.get r := by
  obtain ⟨_, _, hv, _, _, _⟩ := Caller.set_some h
  rw [hv]; exact Vars.get_set_other _ _ hr

theorem Caller.clear_valid (c : Caller) (n r : String) :
    r ∈ (c.clear n).valid ↔ r ∈ c.valid ∧ ¬ (n ∈ x86Regs ∧ r = n) := by
  unfold Caller.clear
  by_cases h : n ∈ x86Regs
  · simp only [h, if_true, List.mem_filter, true_and, decide_eq_true_eq, ne_eq]
  · simp only [h, if_false, false_and, not_false_eq_true, and_true]

theorem Caller.clear_vals (c : Caller) (n : String) : (c.clear n).vals = c.vals := rfl

theorem clearAll_valid (names : List String) (c : Caller) (r : String) :
    r ∈ (clearAll names c).valid ↔ r ∈ c.valid ∧ ¬ (r ∈ names ∧ r ∈ x86Regs) := by
  unfold clearAll
  induction names generalizing c with
  | nil => simp
  | cons n ns ih =>
    simp only [List.foldl_cons]
    rw [ih, Caller.clear_valid]
    simp only [List.mem_cons]
    constructor
    · rintro ⟨⟨h1, h2⟩, h3⟩
      refine ⟨h1, ?_⟩
      rintro ⟨h4 | h4, h5⟩
      · exact h2 ⟨h4 ▸ h5, h4⟩
      · exact h3 ⟨h4, h5⟩
    · rintro ⟨h1, h2⟩
      refine ⟨⟨h1, ?_⟩, ?_⟩
      · rintro ⟨h3, h4⟩; exact h2 ⟨Or.inl h4, h4 ▸ h3⟩
      · rintro ⟨h3, h4⟩; exact h2 ⟨Or.inr h3, h4⟩

theorem clearAll_vals (names : List String) (c : Caller) : (clearAll names c).vals = c.vals := by
  unfold clearAll
  induction names generalizing c with
  | nil => rfl
  | cons n ns ih => simp only [List.foldl_cons]; rw [ih]; rfl

theorem clearAll_log (names : List String) (c : Caller) : (clearAll names c).log = c.log := by
  unfold clearAll
  induction names generalizing c with
  | nil => rfl
  | cons n ns ih => simp only [List.foldl_cons]; rw [ih]; rfl

theorem clearAll_clears (names : List String) (c : Caller) :
    (clearAll names c).clears = c.clears ++ names := by
  unfold clearAll
  induction names generalizing c with
  | nil => simp
  | cons n ns ih => simp only [List.foldl_cons]; rw [ih]; simp [Caller.clear]

/-- validity after a run of `set_caller_register` calls (complete or cut short by a failure):
    nothing but the named registers can have become valid, nothing became invalid -/
theorem applySets_valid_sub {c c' : Caller} {sets : List (String × Nat)} {b : Bool}
    (h : applySets c sets = (b, c')) (r : String) :
    (r ∈ c.valid → r ∈ c'.valid) ∧ (r ∈ c'.valid → r ∈ c.valid ∨ r ∈ sets.map (·.1)) := by
  induction sets generalizing c with
  | nil => simp only [applySets, Prod.mk.injEq] at h; obtain ⟨_, rfl⟩ := h; simp
  | cons e rest ih =>
    obtain ⟨n, v⟩ := e
    simp only [applySets] at h
    cases hs : c.set n v with
    | none =>
      simp only [hs, Prod.mk.injEq] at h; obtain ⟨_, rfl⟩ := h
      exact ⟨fun hr => hr, fun hr => Or.inl hr⟩
    | some c1 =>
      simp only [hs] at h
      obtain ⟨i1, i2⟩ := ih h
      have hv := Caller.set_valid hs r
      constructor
      · intro hr; exact i1 (hv.mpr (Or.inr hr))
      · intro hr
        rcases i2 hr with h1 | h1
        · rcases hv.mp h1 with h2 | h2
          · right; simp [h2]
          · left; exact h2
        · right; simp only [List.map_cons, List.mem_cons]; right; exact h1

/-- validity after a complete run: exactly the old set plus the named registers -/
theorem applySets_valid {c c' : Caller} {sets : List (String × Nat)}
    (h : applySets c sets = (true, c')) (r : String) :
    r ∈ c'.valid ↔ r ∈ c.valid ∨ r ∈ sets.map (·.1) := by
  induction sets generalizing c with
  | nil => simp only [applySets, Prod.mk.injEq] at h; obtain ⟨_, rfl⟩ := h; simp
  | cons e rest ih =>
    obtain ⟨n, v⟩ := e
    simp only [applySets] at h
    cases hs : c.set n v with
    | none => simp [hs] at h
    | some c1 =>
      simp only [hs] at h
      rw [ih h, Caller.set_valid hs]
      simp only [List.map_cons, List.mem_cons]
      constructor
      · rintro ((h1 | h1) | h1)
        · right; left; exact h1
        · left; exact h1
        · right; right; exact h1
      · rintro (h1 | h1 | h1)
        · left; right; exact h1
        · left; left; exact h1
        · right; exact h1

theorem applySets_vals_other {c c' : Caller} {sets : List (String × Nat)} {b : Bool}
    (h : applySets c sets = (b, c')) {r : String} (hr : r ∉ sets.map (·.1)) :
    c'.vals.get r = c.vals.get r := by
  induction sets generalizing c with
  | nil => simp only [applySets, Prod.mk.injEq] at h; obtain ⟨_, rfl⟩ := h; rfl
  | cons e rest ih =>
    obtain ⟨n, v⟩ := e
    simp only [List.map_cons, List.mem_cons, not_or] at hr
    simp only [applySets] at h
    cases hs : c.set n v with
    | none => simp only [hs, Prod.mk.injEq] at h; obtain ⟨_, rfl⟩ := h; rfl
    | some c1 =>
      simp only [hs] at h
      rw [ih h hr.2, Caller.set_vals_other hs hr.1]

/-- with pairwise distinct names every register of a complete run holds the value it was given -/
theorem applySets_vals_mem {c c' : Caller} {sets : List (String × Nat)}
    (h : applySets c sets = (true, c')) (hnd : (sets.map (·.1)).Nodup) {r : String} {v : Nat}
    (hm : (r, v) ∈ sets) : c'.vals.get r = some (UInt32.ofNat v) := by
  induction sets generalizing c with
  | nil => cases hm
  | cons e rest ih =>
    obtain ⟨n, u⟩ := e
    simp only [List.map_cons, List.nodup_cons] at hnd
    simp only [applySets] at h
    cases hs : c.set n u with
    | none => simp [hs] at h
    | some c1 =>
      simp only [hs] at h
      rcases List.mem_cons.mp hm with h1 | h1
      · cases h1
        rw [applySets_vals_other h hnd.1]; exact Caller.set_vals_self hs
      · exact ih h hnd.2 h1

theorem applySets_clears {c c' : Caller} {sets : List (String × Nat)} {b : Bool}
    (h : applySets c sets = (b, c')) : c'.clears = c.clears := by
  induction sets generalizing c with
  | nil => simp only [applySets, Prod.mk.injEq] at h; obtain ⟨_, rfl⟩ := h; rfl
  | cons e rest ih =>
    obtain ⟨n, v⟩ := e
    simp only [applySets] at h
    cases hs : c.set n v with
    | none => simp only [hs, Prod.mk.injEq] at h; obtain ⟨_, rfl⟩ := h; rfl
    | some c1 =>
      simp only [hs] at h
      rw [ih h]; exact (Caller.set_some hs).2.2.2.2.1

/-- the recorded calls of a complete run are exactly the plan's calls -/
theorem applySets_log {c c' : Caller} {sets : List (String × Nat)}
    (h : applySets c sets = (true, c')) : c'.log = c.log ++ sets := by
  induction sets generalizing c with
  | nil => simp only [applySets, Prod.mk.injEq] at h; obtain ⟨_, rfl⟩ := h; simp
  | cons e rest ih =>
    obtain ⟨n, v⟩ := e
    simp only [applySets] at h
    cases hs : c.set n v with
    | none => simp [hs] at h
    | some c1 =>
      simp only [hs] at h
      rw [ih h, (Caller.set_some hs).2.2.2.2.2]; simp

/-- a run whose names are x86 registers and whose values fit 32 bits never fails -/
theorem applySets_ok (c : Caller) (sets : List (String × Nat))
    (h : ∀ e ∈ sets, e.1 ∈ x86Regs ∧ e.2 ≤ U32MAX) : ∃ c', applySets c sets = (true, c') := by
  induction sets generalizing c with
  | nil => exact ⟨c, rfl⟩
  | cons e rest ih =>
    obtain ⟨n, v⟩ := e
    obtain ⟨h1, h2⟩ := h (n, v) List.mem_cons_self
    obtain ⟨c1, hc1⟩ := Caller.set_ok c h1 h2
    obtain ⟨c2, hc2⟩ := ih c1 (fun e he => h e (List.mem_cons_of_mem _ he))
    exact ⟨c2, by simp only [applySets, hc1, hc2]⟩

/-! ### the output list -/

theorem mem_outputs {vs : Vars} {r : String} {v : Nat} :
    (r, v) ∈ outputs vs ↔ r ∈ outputRegs ∧ ∃ u, vs.get ("$" ++ r) = some u ∧ v = u.toNat := by
  unfold outputs
  simp only [List.mem_filterMap, Option.map_eq_some_iff, Prod.mk.injEq]
  constructor
  · rintro ⟨a, ha, u, hu, rfl, rfl⟩; exact ⟨ha, u, hu, rfl⟩
  · rintro ⟨ha, u, hu, rfl⟩; exact ⟨r, ha, u, hu, rfl, rfl⟩

theorem filterMap_fst_sublist (l : List String) (g : String → Option Nat) :
    ((l.filterMap fun r => (g r).map fun v => (r, v)).map (·.1)).Sublist l := by
  induction l with
  | nil => simp
  | cons a l ih =>
    simp only [List.filterMap_cons]
    cases g a with
    | none => simp only [Option.map_none]; exact List.Sublist.cons _ ih
    | some v => simp only [Option.map_some, List.map_cons]; exact List.Sublist.cons_cons _ ih

theorem outputs_names_sublist (vs : Vars) : ((outputs vs).map (·.1)).Sublist outputRegs := by
  have := filterMap_fst_sublist outputRegs (fun r => (vs.get ("$" ++ r)).map (·.toNat))
  unfold outputs
  simpa [Option.map_map, Function.comp_def] using this

theorem outputs_names_nodup (vs : Vars) : ((outputs vs).map (·.1)).Nodup :=
  List.Nodup.sublist (outputs_names_sublist vs) (by decide)

end MdModel.Win
