/-
  Helper lemmas for C04, Windows x86-64: the frame-pointer record may sit up to 240 bytes above
  `rbp` (16 probes, 16 bytes apart); smaller probe positions holding a zero "saved rbp" are skipped.
-/
import MdProofs.Lemmas.WalkChain
import MdProofs.Lemmas.WalkChainMixed
namespace MdModel.Walk
open MdModel

/-- the probe loop skips `k` positions whose "saved rbp" is 0 and accepts the record at position `k` -/
theorem resolveAmd64_skip {mem : Mem} {bp sp k ret nfp : Nat}
    (hskip : ∀ j, j < k → mem.read (bp + 16 * j) 8 = some 0 ∧ ∃ v, mem.read (bp + 16 * j + 8) 8 = some v)
    (hr1 : mem.read (bp + 16 * k + 8) 8 = some ret) (hr2 : mem.read (bp + 16 * k) 8 = some nfp)
    (hmax : bp + 16 * k + 16 ≤ U64MAX) (hle : bp + 16 * k + 16 ≤ nfp)
    (hr3 : ∃ v, mem.read nfp 8 = some v) (hcan : nonCanonAmd64 ret = false)
    (hst : stackSeemsValid mem (bp + 16 * k + 16) sp = true) :
    ∀ (n i : Nat), i ≤ k → k < i + n →
      resolveAmd64 mem bp sp 16 n i = some (ret, nfp, bp + 16 * k + 16) := by
  intro n
  induction n with
  | zero => intro i h1 h2; omega
  | succ n ih =>
    intro i h1 h2
    unfold resolveAmd64
    simp only
    have g1 : ¬ bp + i * 16 > U64MAX := by omega
    have g2 : ¬ bp + i * 16 + 8 > U64MAX := by omega
    have g3 : ¬ bp + i * 16 + 16 > U64MAX := by omega
    rw [if_neg g1, if_neg g2]
    by_cases hik : i = k
    · subst hik
      have e1 : bp + i * 16 + 8 = bp + 16 * i + 8 := by omega
      have e2 : bp + i * 16 = bp + 16 * i := by omega
      have e3 : bp + i * 16 + 16 = bp + 16 * i + 16 := by omega
      rw [e1, hr1, e2, hr2]
      dsimp only
      rw [if_neg (by omega)]
      have h4 : ¬ (bp + 16 * i + 16 ≤ bp ∨ nfp < bp + 16 * i + 16) := by omega
      obtain ⟨v3, hv3⟩ := hr3
      simp only [if_neg h4, hv3, hcan, hst]
      simp
    · obtain ⟨hz, v, hv⟩ := hskip i (by omega)
      have e1 : bp + i * 16 + 8 = bp + 16 * i + 8 := by omega
      have e2 : bp + i * 16 = bp + 16 * i := by omega
      rw [e1, hv, e2, hz]
      simp only
      rw [if_neg (by omega)]
      have h4 : (bp + 16 * i + 16 ≤ bp ∨ 0 < bp + 16 * i + 16) := Or.inr (by omega)
      rw [if_pos h4]
      exact ih (i + 1) (by omega) (by omega)

/-- one `get_caller_frame` on a Windows x86-64 frame-pointer record with slack (`k ≤ 15` probes) -/
theorem step_fp_amd64_win {env : Env} {mem : Mem} {f : Frame} {g : Option Frame} {e : Exp} {sp fp : Nat}
    (harch : env.arch = .amd64) (hos : env.os = .windows) (hcfi : ∀ f g, env.cfi f g = none)
    (hv : FpView .amd64 f.ctx sp fp) (hl : linkFp .amd64 env.os env.mask mem sp fp e = true) :
    step env mem f g = some (fpFrame .amd64 e) := by
  obtain ⟨hsp, hfp, _, hlit1, hlit2⟩ := hv
  simp only [linkFp, hos, if_true, Bool.and_eq_true, decide_eq_true_eq, beq_iff_eq, Bool.not_eq_true',
    List.all_eq_true, List.mem_range] at hl
  obtain ⟨⟨⟨hsome, hret⟩, hlt⟩, ⟨⟨⟨⟨⟨⟨⟨⟨⟨⟨⟨hg, hge⟩, hesp⟩, hk⟩, hall⟩, hr1⟩, hr2⟩, hle⟩, hr3⟩, hcan⟩, hr4⟩, hmax⟩⟩ := hl
  generalize hkk : (e.sp - 16 - fp) / 16 = k at hesp hk hall
  have e1 : e.sp - 8 = fp + 16 * k + 8 := by omega
  have e2 : e.sp - 16 = fp + 16 * k := by omega
  rw [e1] at hr1
  rw [e2] at hr2
  simp only [Arch.fpName] at hfp
  have hstack : stackSeemsValid mem (fp + 16 * k + 16) f.ctx.sp = true := by
    unfold stackSeemsValid
    rw [if_neg (by omega)]
    rw [← hesp]; exact hr4
  have hskip : ∀ j, j < k → mem.read (fp + 16 * j) 8 = some 0 ∧ ∃ v, mem.read (fp + 16 * j + 8) 8 = some v := by
    intro j hj
    have := hall j hj
    exact ⟨this.1, Option.isSome_iff_exists.mp this.2⟩
  have hres := resolveAmd64_skip (sp := f.ctx.sp) hskip hr1 hr2 (by omega) (by omega)
    (Option.isSome_iff_exists.mp hr3) hcan hstack 16 0 (Nat.zero_le _) (by omega)
  unfold step
  simp only [effArch, harch, Arch.isMips, candidate, hcfi, byFp, fpAmd64, hlit1, hlit2, hfp, hos]
  simp only [Bool.not_true, Bool.false_eq_true, ↓reduceIte, Nat.not_le.mpr hg]
  have hc : Consts.win_probe_step = 16 ∧ Consts.win_probe_max + 1 = 16 := ⟨rfl, rfl⟩
  rw [hc.1, hc.2, hres]
  simp [epilogue, nullish_eq, fpFrame, Arch.adj, Consts.adj_amd64, Arch.leafOk, hesp, hsp]
  omega

/-- probing zero words only never yields a frame -/
theorem resolveAmd64_zeros {mem : Mem} {bp sp : Nat}
    (hz : ∀ j v, mem.read (bp + j * 16) 8 = some v → v = 0) :
    ∀ (n i : Nat), resolveAmd64 mem bp sp 16 n i = none := by
  intro n
  induction n with
  | zero => intro i; rfl
  | succ n ih =>
    intro i
    unfold resolveAmd64
    simp only
    split
    · rfl
    · split
      · rfl
      · split
        · rfl
        · split
          · rfl
          · rename_i cbp hcbp
            have h0 : cbp = 0 := hz i cbp hcbp
            subst h0
            split
            · rfl
            · rw [if_pos (Or.inr (by omega))]
              exact ih (i + 1)

/-- the generated end of a Windows x86-64 frame-pointer chain: the outermost record `(0, 0)` at an
    8-byte-aligned distance above the stack pointer, zero words to the end of the stack memory -/
def endFpWin (os : Os) (mem : Mem) (sp fp : Nat) : Bool :=
  endFp .amd64 os mem sp fp && decide (sp ≤ fp) && decide ((fp - sp) % 8 = 0)

theorem step_end_amd64_win {env : Env} {mem : Mem} {f : Frame} {g : Option Frame} {sp fp : Nat}
    (harch : env.arch = .amd64) (hos : env.os = .windows) (hcfi : ∀ f g, env.cfi f g = none)
    (hv : FpView .amd64 f.ctx sp fp) (he : endFpWin env.os mem sp fp = true) :
    step env mem f g = none := by
  obtain ⟨hsp, hfp, _, hlit1, hlit2⟩ := hv
  simp only [endFpWin, endFp, Bool.and_eq_true, decide_eq_true_eq, beq_iff_eq] at he
  obtain ⟨⟨⟨⟨_, hz⟩, ⟨hr1, hr2⟩, hg⟩, hle⟩, hal⟩ := he
  simp only [Arch.fpName] at hfp
  have hz8 : zerosFrom mem 8 sp = true := hz
  have hscan : ∀ n, scanFrom (instrValid env .amd64) mem 8 U64MAX f.ctx.sp n 0 = none := by
    intro n
    rw [hsp]
    exact scanFrom_zeros (by decide) hz8 (by simp [instrValid, instrPre, nonCanonAmd64]) n 0
  have hzero : ∀ j v, mem.read (fp + j * 16) 8 = some v → v = 0 := by
    intro j v hr
    have hm : fp + j * 16 = sp + ((fp - sp) / 8 + 2 * j) * 8 := by omega
    rw [hm] at hr
    exact zerosFrom_read (by decide) hz8 hr
  have hres := resolveAmd64_zeros (sp := f.ctx.sp) hzero 16 0
  have hc : Consts.win_probe_step = 16 ∧ Consts.win_probe_max + 1 = 16 := ⟨rfl, rfl⟩
  unfold step
  simp only [effArch, harch, Arch.isMips, candidate, hcfi, byFp, fpAmd64, hlit1, hlit2, hfp, hos]
  simp only [Bool.not_true, Bool.false_eq_true, ↓reduceIte, Nat.not_le.mpr hg]
  rw [hc.1, hc.2, hres]
  simp [byScan, scanAmd64, hscan, hlit2]

/-- `preFp` for Windows x86-64 with the aligned end of chain -/
def preFpWin (os : Os) (mask : Nat) (mem : Mem) : Nat → Nat → List Exp → Bool
  | sp, fp, [] => !mem.inRange sp || endFpWin os mem sp fp
  | sp, fp, e :: rest =>
    mem.inRange sp && linkFp .amd64 os mask mem sp fp e && preFpWin os mask mem e.sp (e.fp.getD 0) rest

theorem preFpWin_foldr (os : Os) (mask : Nat) (mem : Mem) (chain : List Exp) (st : Nat × Nat) :
    preFpWin os mask mem st.1 st.2 chain =
      (chain.foldr (fun e (k : Nat × Nat → Bool) => fun st =>
          mem.inRange st.1 && linkFp .amd64 os mask mem st.1 st.2 e && k (e.sp, e.fp.getD 0))
        (fun st => !mem.inRange st.1 || endFpWin os mem st.1 st.2)) st := by
  induction chain generalizing st with
  | nil => rfl
  | cons e rest ih =>
    simp only [preFpWin, List.foldr_cons]
    rw [← ih (e.sp, e.fp.getD 0)]

theorem expectedFp_foldr (env : Env) (a : Arch) (chain : List Exp) (st : Nat × Nat) :
    expectedFp env a chain =
      (chain.foldr (fun e (k : Nat × Nat → List Frame) => fun _ => symbolise env (fpFrame a e) :: k (e.sp, e.fp.getD 0))
        (fun _ => [])) st := by
  induction chain generalizing st with
  | nil => rfl
  | cons e rest ih =>
    simp only [expectedFp, List.map_cons, List.foldr_cons]
    rw [← ih (e.sp, e.fp.getD 0)]
    rfl

theorem walkLoop_fp_win_chain {env : Env} {mem : Mem} (harch : env.arch = .amd64) (hos : env.os = .windows)
    (hcfi : ∀ f g, env.cfi f g = none) :
    ∀ (chain : List Exp) (n : Nat) (f : Frame) (g : Option Frame) (sp fp : Nat),
      FpView .amd64 f.ctx sp fp → preFpWin env.os env.mask mem sp fp chain = true → need mem f ≤ n →
      walkLoop env mem n f g = symbolise env f :: expectedFp env .amd64 chain := by
  intro chain n f g sp fp hv hp hn
  rw [expectedFp_foldr env .amd64 chain (sp, fp)]
  have hp' := hp
  rw [preFpWin_foldr env.os env.mask mem chain (sp, fp)] at hp'
  exact walkLoop_chain_generic (σ := Nat × Nat) (fun f st => FpView .amd64 f.ctx st.1 st.2)
    (fun st e => linkFp .amd64 env.os env.mask mem st.1 st.2 e) (fun st => endFpWin env.os mem st.1 st.2)
    (fun st => st.1) (fun _ e => fpFrame .amd64 e) (fun _ e => (e.sp, e.fp.getD 0))
    (fun f st h => h.1) (fun f st h => h)
    (fun f g st e h hl => step_fp_amd64_win harch hos hcfi h hl)
    (fun st e _ => fpFrame_view .amd64 rfl e)
    (fun f g st h he => step_end_amd64_win harch hos hcfi h he)
    chain n f g (sp, fp) hv hp' hn

end MdModel.Walk
