/-
  The stack-walk model (`MdModel.Walk`, C03/C04/C05) and the real `CfiStackWalker` model
  (`MdModel.CfiWalker`) describe the same walker.

  `MdModel.Walk.Common` carries HAND-WRITTEN per-architecture register tables (`Arch.registers`,
  `canon`, `aliases`, `calleeSaved`, sp/ip names); `MdModel.CfiWalker` uses the tables
  machine-translated from context.rs (C18) and from the unwinder files. `arch_tables` decides, by
  kernel evaluation over all seven architectures, that they agree; `cwOf` builds the real walker
  of a walker-model callee frame and `cwOf_sim` proves its C06 record is related to that frame by
  the bridge's `WalkerSim` — so every bridge theorem of `MdProofs.C06Walk` applies with the real
  walker's record in the place of `walkerOf`.
-/
import MdProofs.Lemmas.CfiWalkerSim
import MdProofs.C06Walk
namespace MdModel.CfiWalker
open MdModel MdModel.Gen.Regs MdModel.Regs MdModel.CfiBridge

/-- the unwinder kind of a walker-model architecture -/
def kindOf : Walk.Arch → Kind
  | .x86 => .x86 | .amd64 => .amd64 | .arm => .arm | .arm64 => .arm64 | .arm64old => .arm64old
  | .mips32 => .mips32 | .mips64 => .mips64

/-- **TABLE FACT**: the hand-written tables of `MdModel.Walk.Common` ARE the translated ones —
    `REGISTERS`, the sp/ip names, `CALLEE_SAVED_REGS`, `memoize_register` on every table name, the
    alias keys, the alias classes of `register_is_valid`, the register width -/
theorem arch_tables (a : Walk.Arch) :
    (a.registers == registers (kindOf a).rawCtx
      && a.spName == spName (kindOf a).rawCtx && a.ipName == ipName (kindOf a).rawCtx
      && a.calleeSaved == Gen.CfiWalkerConsts.calleeSaved (kindOf a).file
      && (knownNames (kindOf a).rawCtx).all (fun n => a.canon n == memoName (kindOf a).rawCtx n)
      && (aliasTable a).all (fun p => (knownNames (kindOf a).rawCtx).contains p.1)
      && (registers (kindOf a).rawCtx).all (fun s => (knownNames (kindOf a).rawCtx).all fun n =>
            (a.aliases s).contains n == sameReg (kindOf a).rawCtx s n)
      && (kindOf a).cpu.bits / 8 == ptrOf a) = true := by
  cases a <;> decide +kernel

theorem arch_registers (a : Walk.Arch) : a.registers = registers (kindOf a).cpu.tbl := by
  have := arch_tables a
  simp only [Bool.and_eq_true, beq_iff_eq] at this
  exact this.1.1.1.1.1.1.1

theorem arch_spName (a : Walk.Arch) : a.spName = (kindOf a).cpu.spName := by
  have := arch_tables a
  simp only [Bool.and_eq_true, beq_iff_eq] at this
  exact this.1.1.1.1.1.1.2

theorem arch_ipName (a : Walk.Arch) : a.ipName = (kindOf a).cpu.ipName := by
  have := arch_tables a
  simp only [Bool.and_eq_true, beq_iff_eq] at this
  exact this.1.1.1.1.1.2

theorem arch_calleeSaved (a : Walk.Arch) : a.calleeSaved = Gen.CfiWalkerConsts.calleeSaved (kindOf a).file := by
  have := arch_tables a
  simp only [Bool.and_eq_true, beq_iff_eq] at this
  exact this.1.1.1.1.2

theorem arch_ptr (a : Walk.Arch) : (kindOf a).cpu.bits / 8 = ptrOf a := by
  have := arch_tables a
  simp only [Bool.and_eq_true, beq_iff_eq] at this
  exact this.2

/-- **`memoize_register` of the walker model is the real one, on EVERY string** -/
theorem arch_canon (a : Walk.Arch) (n : String) : a.canon n = (kindOf a).cpu.canon n := by
  have ht := arch_tables a
  simp only [Bool.and_eq_true, List.all_eq_true, beq_iff_eq] at ht
  by_cases hk : n ∈ knownNames (kindOf a).rawCtx
  · exact ht.1.1.1.2 n hk
  · rw [canon_unknown (p := (kindOf a).cpu) hk, canon_eq]
    have hkeys := ht.1.1.2
    cases hl : (aliasTable a).lookup n with
    | some c =>
      exfalso
      have := hkeys (n, c) (lookup_mem _ _ _ hl)
      exact hk (by simpa using this)
    | none =>
      simp only
      have : a.registers.contains n = false := by
        rw [← Bool.not_eq_true, List.contains_iff_mem, arch_registers]
        exact fun h => hk (known_of_registers h)
      rw [this]; rfl

/-- the alias classes `register_is_valid` consults are C18's "same storage cell" -/
theorem arch_aliases (a : Walk.Arch) {s n : String} (hs : s ∈ registers (kindOf a).cpu.tbl)
    (hn : n ∈ knownNames (kindOf a).cpu.tbl) :
    (a.aliases s).contains n = sameReg (kindOf a).cpu.tbl s n := by
  have ht := arch_tables a
  simp only [Bool.and_eq_true, List.all_eq_true, beq_iff_eq] at ht
  exact ht.1.2 s hs n hn

/-! ## the register file of a walker-model context, as a C18 state -/

/-- every cell holds the raw value of the register it belongs to (0 for cells no register names) -/
def stateOf (a : Walk.Arch) (c : Walk.Ctx) : Regs.State := fun cell =>
  match (registers (kindOf a).cpu.tbl).find? (fun r => getCell (kindOf a).cpu.tbl r == some cell) with
  | some r => rawC a c r
  | none => 0

theorem rawOf_stateOf (a : Walk.Arch) (c : Walk.Ctx) {s : String} (hs : s ∈ registers (kindOf a).cpu.tbl) :
    rawOf (kindOf a).cpu.tbl (stateOf a c) s = rawC a c s := by
  obtain ⟨cell, _, f⟩ := known_facts (known_of_registers hs)
  unfold rawOf
  rw [f.getCell]
  simp only [stateOf]
  cases hfind : (registers (kindOf a).cpu.tbl).find? (fun r => getCell (kindOf a).cpu.tbl r == some cell) with
  | none =>
    exfalso
    have := List.find?_eq_none.mp hfind s hs
    simp [f.getCell] at this
  | some r =>
    have hr := List.mem_of_find?_eq_some hfind
    have hp := List.find?_some hfind
    have hcell : getCell (kindOf a).cpu.tbl r = getCell (kindOf a).cpu.tbl s := by
      rw [f.getCell]; simpa using hp
    have : r = s := (cell_inj (p := (kindOf a).cpu) (canon_register hs) hr).mp hcell
    rw [this]

def validityOf (c : Walk.Ctx) : Validity :=
  match c.valid with
  | none => .all
  | some l => .some l

/-- **the real walker of a walker-model callee frame** (`x`: architecture, callee context, stack
    memory; `o`: the caller state it starts with) -/
def cwOf (x : Walk.CfiIn) (o : Walk.CfiOut) (instr modBase : Nat) : CfiStackWalker :=
  { cpu := (kindOf x.arch).cpu
    instruction := instr
    hasGrandCallee := false
    grandCalleeParameterSize := 0
    calleeCtx := stateOf x.arch x.callee
    calleeValidity := validityOf x.callee
    callerCtx := stateOf x.arch o.ctx
    callerValidity := o.valid
    moduleBase := modBase
    stack := { base := x.mem.base, bytes := x.mem.bytes.toList, bigEndian := x.mem.be } }

theorem cwOf_validityWf (x : Walk.CfiIn) (o : Walk.CfiOut) (instr modBase : Nat)
    (hvalid : ValidWf x.arch x.callee) :
    validityWf (cwOf x o instr modBase).cpu.tbl (cwOf x o instr modBase).calleeValidity = true := by
  unfold cwOf validityOf ValidWf at *
  simp only
  cases hv : x.callee.valid with
  | none => rfl
  | some which =>
    rw [hv] at hvalid
    simp only [validityWf, List.all_eq_true, List.contains_eq_mem, decide_eq_true_eq]
    intro n hn
    have := hvalid n hn
    rw [arch_canon] at this
    cases hc : (kindOf x.arch).cpu.canon n with
    | none => rw [hc] at this; cases this
    | some r => exact canon_known hc

theorem raw_canonical (a : Walk.Arch) (c : Walk.Ctx) {s : String} (hs : a.canon s = some s) :
    c.raw a s = rawC a c s := by
  unfold Walk.Ctx.raw rawC
  rw [hs]

/-- the walker model's `get_register` of a canonical name is the real walker's view of it -/
theorem reg_canonical (x : Walk.CfiIn) (o : Walk.CfiOut) (instr modBase : Nat)
    (hvalid : ValidWf x.arch x.callee) {s : String} (hs : s ∈ registers (kindOf x.arch).cpu.tbl) :
    x.reg s = calleeView (cwOf x o instr modBase) s := by
  have hcs : (kindOf x.arch).cpu.canon s = some s := canon_register hs
  have hcs' : x.arch.canon s = some s := by rw [arch_canon]; exact hcs
  unfold Walk.CfiIn.reg Walk.Ctx.get calleeView
  have hcpu : (cwOf x o instr modBase).cpu = (kindOf x.arch).cpu := rfl
  rw [hcpu, hcs]
  simp only
  -- validity
  have hcov : x.callee.has x.arch s = covers (kindOf x.arch).cpu.tbl (cwOf x o instr modBase).calleeValidity s := by
    unfold Walk.Ctx.has covers cwOf validityOf
    simp only
    cases hv : x.callee.valid with
    | none => simp [hcs']
    | some which =>
      simp only
      unfold ValidWf at hvalid
      rw [hv] at hvalid
      rw [Bool.eq_iff_iff, List.any_eq_true, List.any_eq_true]
      have hknown : ∀ n ∈ which, n ∈ knownNames (kindOf x.arch).cpu.tbl := by
        intro n hn
        have := hvalid n hn
        rw [arch_canon] at this
        cases hc : (kindOf x.arch).cpu.canon n with
        | none => rw [hc] at this; cases this
        | some r => exact canon_known hc
      constructor
      · rintro ⟨n, hn, hw⟩
        have hnw : n ∈ which := by simpa using hw
        refine ⟨n, hnw, ?_⟩
        rw [← arch_aliases x.arch hs (hknown n hnw)]
        simpa using hn
      · rintro ⟨n, hnw, hsame⟩
        refine ⟨n, ?_, by simpa using hnw⟩
        have := arch_aliases x.arch hs (hknown n hnw)
        rw [hsame] at this
        simpa using this
  rw [hcov]
  -- value
  have hval : (if x.arch = .mips32 then x.callee.raw x.arch s % 2 ^ 32 else x.callee.raw x.arch s) =
      (kindOf x.arch).cpu.read (cwOf x o instr modBase).calleeCtx s := by
    rw [raw_canonical x.arch x.callee hcs']
    have hraw := rawOf_stateOf x.arch x.callee hs
    unfold Cpu.read
    cases ha : x.arch <;>
      simp_all [cwOf, kindOf, Kind.cpu, Cpu.tbl, Gen.CfiWalkerConsts.mips32Bits]
  rw [hval]

/-- **the C06 record of `cwOf` is related to the walker-model frame** (the bridge's simulation
    relation), for every architecture, every callee context whose validity set names only registers
    of the context type and whose registers are 64-bit, every stack memory and lookup address -/
theorem cwOf_sim (x : Walk.CfiIn) (o : Walk.CfiOut) (instr modBase : Nat) (fwd : List (Cfi.Name × UInt64))
    (hvalid : ValidWf x.arch x.callee) (h64 : ∀ n v, x.reg n = some v → v < 2 ^ 64) :
    WalkerSim x (toWalker (cwOf x o instr modBase) fwd) := by
  have hcpu : (cwOf x o instr modBase).cpu = (kindOf x.arch).cpu := rfl
  have hmemo : ∀ n : String, (toWalker (cwOf x o instr modBase) fwd).memo (utf8 n) = (x.arch.canon n).map utf8 := by
    intro n; rw [memo_toWalker, hcpu, arch_canon]
  have hptr : (toWalker (cwOf x o instr modBase) fwd).ptr = ptrOf x.arch := arch_ptr x.arch
  refine ⟨⟨?_, ?_⟩, hmemo, ?_⟩
  · intro n
    show x.reg n = ((toWalker (cwOf x o instr modBase) fwd).getCallee (utf8 n)).map UInt64.toNat
    rw [getCallee_toWalker]
    cases hc : x.arch.canon n with
    | none =>
      rw [reg_unknown x hvalid n hc]
      have : (cwOf x o instr modBase).cpu.canon n = none := by rw [hcpu, ← arch_canon]; exact hc
      simp [calleeView, this]
    | some s =>
      have hcs : (cwOf x o instr modBase).cpu.canon n = some s := by rw [hcpu, ← arch_canon]; exact hc
      have hsr : s ∈ registers (kindOf x.arch).cpu.tbl := (canon_canon (p := (kindOf x.arch).cpu) (hcpu ▸ hcs)).1
      rw [reg_canon x n s hc, calleeView_canon _ hcs, ← reg_canonical x o instr modBase hvalid hsr]
      cases hx : x.reg s with
      | none => rfl
      | some v => simp [u64_toNat_ofNat_lt v (h64 s v hx)]
  · intro a
    have : (toWalker (cwOf x o instr modBase) fwd).readMem a = (walkerOf x instr fwd).readMem a := by
      unfold Cfi.Walker.readMem
      rw [hptr]
      rfl
    show x.deref a.toNat = ((toWalker (cwOf x o instr modBase) fwd).readMem a).map UInt64.toNat
    rw [this]
    exact deref_walkerOf x instr fwd a
  · intro v
    unfold Cfi.Walker.fits
    rw [hptr]
    rcases ptrOf_cases x.arch with ⟨h1, h2⟩ | ⟨h1, h2⟩
    · rw [h1, h2]; simp only [U32MAX]; congr 1; apply propext; omega
    · rw [h1, h2]; simp only [U64MAX]; congr 1; apply propext; omega

/-- the caller registers of the two models' walkers, seen alike -/
theorem callerView_cwOf (x : Walk.CfiIn) (o : Walk.CfiOut) (instr modBase : Nat) {s : String}
    (hs : s ∈ registers (kindOf x.arch).cpu.tbl) :
    callerView (cwOf x o instr modBase) s = viewW x.arch o s := by
  unfold callerView viewW
  have : rawOf (cwOf x o instr modBase).cpu.tbl (cwOf x o instr modBase).callerCtx s = rawC x.arch o.ctx s :=
    rawOf_stateOf x.arch o.ctx hs
  rw [this]
  rfl

end MdModel.CfiWalker
