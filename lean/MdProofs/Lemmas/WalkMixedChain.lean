/-
  Helper lemmas for C04, chains whose technique changes from frame to frame (part 5): off x86 —
  the generated end of the stack (`step_end_arch`), the dispatcher on `e.tech` (`step_arch_mixed`:
  `cfi` / `fp` / `scan`, `PreW`'s own `linkMixed`), the context frame (`mview_context`) and the
  chain of any depth (`walkLoop_arch_chain`, an instance of `walkLoop_chain_rel`).
-/
import MdProofs.Lemmas.WalkMixedArch
set_option linter.unusedSimpArgs false
namespace MdModel.Walk
open MdModel

/-! ### the generated end of the stack -/

/-- `endMixed`'s three ways to end, as propositions -/
def EndAlt (a : Arch) (os : Os) (mem : Mem) (st : MState) : Prop :=
  fpDead a os mem st.fp = true ∨ (a = .arm ∧ os = .ios ∧ st.fp = some 0) ∨
  ∃ f0, st.fp = some f0 ∧ st.sp ≤ f0 ∧ mem.read f0 a.ptr = some 0 ∧ mem.read (f0 + a.ptr) a.ptr = some 0 ∧
    f0 + 2 * a.ptr < a.regMax ∧ (a = .amd64 → os = .windows → (f0 - st.sp) % 8 = 0)

theorem endMixed_spec {w : World} {wins : List (List Win.Rec)} {a : Arch} {os : Os} {mem : Mem} {st : MState}
    (h : endMixed w wins a os mem st = true) :
    noRecordAt w wins st.instr = true ∧ 16 < mem.base ∧ zerosFrom mem a.ptr st.sp = true ∧ EndAlt a os mem st := by
  simp only [endMixed, Bool.and_eq_true, decide_eq_true_eq, Bool.or_eq_true, beq_iff_eq] at h
  obtain ⟨⟨⟨hn, hb⟩, hz⟩, he⟩ := h
  refine ⟨hn, hb, hz, ?_⟩
  rcases he with (he | he) | he
  · exact Or.inl he
  · exact Or.inr (Or.inl ⟨he.1.1, he.1.2, he.2⟩)
  · cases hfp : st.fp with
    | none => simp [hfp] at he
    | some f0 =>
      simp only [hfp, Bool.and_eq_true, decide_eq_true_eq, beq_iff_eq, Bool.or_eq_true, Bool.not_eq_true',
        Bool.and_eq_false_imp] at he
      obtain ⟨⟨⟨⟨h1, h2⟩, h3⟩, h4⟩, h5⟩ := he
      refine Or.inr (Or.inr ⟨f0, hfp, h1, h2, h3, h4, ?_⟩)
      intro ha ho
      rcases h5 with h5 | h5
      · have := h5 ha
        rw [ho] at this
        simp at this
      · exact h5

theorem scanFrom_zeros_at {env : Env} {a : Arch} {mem : Mem} {sp : Nat} (hz : zerosFrom mem a.ptr sp = true)
    (hok : instrValid env a 0 = false) (lim n : Nat) :
    scanFrom (instrValid env a) mem a.ptr lim sp n 0 = none :=
  scanFrom_zeros (ptr_pos a) hz hok n 0

/-- **the generated end of a stack off x86**: no record for the outermost frame, zero words to the
    end of the stack memory, and a frame pointer that is dead, or 0 on iOS-ARM, or pointing at a
    record `(0, 0)` — no technique finds a caller -/
theorem step_end_arch {env : Env} {a : Arch} {w : World} {mem : Mem} {f : Frame} {g : Option Frame} {st : MState}
    (hx : a ≠ .x86) (harch : env.arch = a) (hcfi : env.cfi f g = none)
    (hok0 : a = .arm → env.instrOk 0 = false) (hv : MView w a f st)
    (hbase : 16 < mem.base) (hz : zerosFrom mem a.ptr st.sp = true) (hend : EndAlt a env.os mem st) :
    step env mem f g = none := by
  rw [step_noCfiEnv hcfi]
  have hcfi' : ∀ f g, (noCfiEnv env).cfi f g = none := fun _ _ => rfl
  have harch' : (noCfiEnv env).arch = a := harch
  have hos' : (noCfiEnv env).os = env.os := rfl
  have heff := hv.eff
  cases a
  · exact absurd rfl hx
  · -- x86-64
    have hz8 : zerosFrom mem 8 st.sp = true := hz
    have hscan : ∀ n, scanFrom (instrValid (noCfiEnv env) .amd64) mem 8 U64MAX f.ctx.sp n 0 = none := fun n => by
      rw [hv.sp]; exact scanFrom_zeros (by decide) hz8 (by simp [instrValid, instrPre, nonCanonAmd64]) n 0
    rcases hend with hd | ⟨h, _⟩ | ⟨f0, hfp, hle, hr1, hr2, hlt, hal⟩
    · have hd' := hv.rbp_dead hd
      have hbf : byFp (noCfiEnv env) .amd64 mem f.ctx = none := by
        apply byFp_dead_amd64
        rcases hd' with ⟨h, _⟩ | ⟨_, h, _, hb⟩
        · exact Or.inl h
        · exact Or.inr ⟨h, hb⟩
      unfold step
      simp only [effArch, harch', Arch.isMips, Bool.false_eq_true, ↓reduceIte, candidate, hcfi', hbf, byScan,
        scanAmd64, hscan, ite_self]
    · cases h
    · have hview := hv.fpView hx rfl hfp
      have hlt' : f0 < U64MAX - 16 := by
        have : Arch.amd64.regMax = U64MAX := rfl
        have h8 : Arch.amd64.ptr = 8 := rfl
        rw [this, h8] at hlt
        simp only [U64MAX] at hlt ⊢; omega
      have hend : endFp .amd64 (noCfiEnv env).os mem st.sp f0 = true := by
        simp only [endFp, Bool.and_eq_true, decide_eq_true_eq, beq_iff_eq]
        exact ⟨⟨hbase, hz⟩, ⟨hr1, hr2⟩, hlt'⟩
      by_cases hos : env.os = .windows
      · refine step_end_amd64_win (env := noCfiEnv env) harch' hos hcfi' hview ?_
        simp only [endFpWin, Bool.and_eq_true, decide_eq_true_eq]
        exact ⟨⟨hend, hle⟩, hal rfl hos⟩
      · exact step_end_amd64 (env := noCfiEnv env) harch' hos hcfi' hview hend
  · -- ARM
    have hz4 : zerosFrom mem 4 st.sp = true := hz
    have hget13 := hv.get_r13
    have hscan : ∀ n, scanFrom (instrValid (noCfiEnv env) .arm) mem 4 U32MAX st.sp n 0 = none := fun n =>
      scanFrom_zeros (by decide) hz4 (by
        have : (noCfiEnv env).instrOk 0 = false := hok0 rfl
        simp [instrValid, instrPre, this]) n 0
    have hdeadcase : byFp (noCfiEnv env) .arm mem f.ctx = none → step (noCfiEnv env) mem f g = none := by
      intro hbf
      unfold step
      simp only [effArch, harch', Arch.isMips, Bool.false_eq_true, ↓reduceIte, candidate, hcfi', hbf, byScan,
        scanArm, hget13, hscan]
    by_cases hos : env.os = .ios
    · rcases hend with hd | ⟨_, _, hfp⟩ | ⟨f0, hfp, hle, hr1, hr2, hlt, _⟩
      · exact hdeadcase (byFp_dead_arm (env := noCfiEnv env) hv hd)
      · obtain ⟨h1, h2⟩ := hv.fp_some hfp
        have hget11 : f.ctx.get .arm "r11" = some 0 := by
          have hh : f.ctx.has .arm "r11" = true := by rw [has_arm_r11]; exact h1
          have hr : f.ctx.raw .arm "r11" = 0 := h2
          simp [Ctx.get, hh, hr]
        unfold step
        simp only [effArch, harch', Arch.isMips, Bool.false_eq_true, ↓reduceIte, candidate, hcfi', byFp, fpArm,
          hget11, hget13, hos', hos]
        simp [epilogue, nullish_eq, U32MAX]
      · have hview := hv.fpView hx rfl hfp
        have hlt' : f0 < U32MAX - 8 := by
          have : Arch.arm.regMax = U32MAX := rfl
          have h4 : Arch.arm.ptr = 4 := rfl
          rw [this, h4] at hlt
          simp only [U32MAX] at hlt ⊢; omega
        refine step_end_arm (env := noCfiEnv env) harch' hcfi' hview ?_
        simp only [endFp, Bool.and_eq_true, decide_eq_true_eq, beq_iff_eq]
        exact ⟨⟨hbase, hz⟩, ⟨⟨hos, hr1⟩, hr2⟩, hlt'⟩
    · exact hdeadcase (by simp [byFp, fpArm, hos', hos])
  · -- ARM64
    have hget : f.ctx.get .arm64 "sp" = some st.sp := hv.get_sp
    rcases hend with hd | ⟨h, _⟩ | ⟨f0, hfp, hle, hr1, hr2, hlt, _⟩
    · refine step_scan_end (first := decide (f.trust = .context)) rfl harch' hcfi'
        ⟨hv.sp, hget, ?_, heff, Or.inr ?_⟩ hz
      · cases f.trust <;> rfl
      · rcases fpDead_spec hd with h | h | ⟨h, _, _⟩
        · simp [hasFpTech] at h
        · exact Or.inl (by rw [get_none_of_has]; rw [has_arm64_x29 (Or.inl rfl)]; exact hv.fp_none h)
        · obtain ⟨h1, h2⟩ := hv.fp_some h
          right
          have hh : f.ctx.has .arm64 "x29" = true := by rw [has_arm64_x29 (Or.inl rfl)]; exact h1
          have hr : f.ctx.raw .arm64 "x29" = 0 := h2
          simp [Ctx.get, hh, hr]
    · cases h
    · have hview := hv.fpView hx rfl hfp
      have hlt' : f0 < U64MAX - 16 := by
        have : Arch.arm64.regMax = U64MAX := rfl
        have h8 : Arch.arm64.ptr = 8 := rfl
        rw [this, h8] at hlt
        simp only [U64MAX] at hlt ⊢; omega
      refine step_end_arm64 (env := noCfiEnv env) (Or.inl rfl) harch' hcfi' hview ?_
      simp only [endFp, Bool.and_eq_true, decide_eq_true_eq, beq_iff_eq]
      exact ⟨⟨hbase, hz⟩, ⟨hr1, hr2⟩, hlt'⟩
  · -- ARM64, old context layout
    have hget : f.ctx.get .arm64old "sp" = some st.sp := hv.get_sp
    rcases hend with hd | ⟨h, _⟩ | ⟨f0, hfp, hle, hr1, hr2, hlt, _⟩
    · refine step_scan_end (first := decide (f.trust = .context)) rfl harch' hcfi'
        ⟨hv.sp, hget, ?_, heff, Or.inr ?_⟩ hz
      · cases f.trust <;> rfl
      · rcases fpDead_spec hd with h | h | ⟨h, _, _⟩
        · simp [hasFpTech] at h
        · exact Or.inl (by rw [get_none_of_has]; rw [has_arm64_x29 (Or.inr rfl)]; exact hv.fp_none h)
        · obtain ⟨h1, h2⟩ := hv.fp_some h
          right
          have hh : f.ctx.has .arm64old "x29" = true := by rw [has_arm64_x29 (Or.inr rfl)]; exact h1
          have hr : f.ctx.raw .arm64old "x29" = 0 := h2
          simp [Ctx.get, hh, hr]
    · cases h
    · have hview := hv.fpView hx rfl hfp
      have hlt' : f0 < U64MAX - 16 := by
        have : Arch.arm64old.regMax = U64MAX := rfl
        have h8 : Arch.arm64old.ptr = 8 := rfl
        rw [this, h8] at hlt
        simp only [U64MAX] at hlt ⊢; omega
      refine step_end_arm64 (env := noCfiEnv env) (Or.inr rfl) harch' hcfi' hview ?_
      simp only [endFp, Bool.and_eq_true, decide_eq_true_eq, beq_iff_eq]
      exact ⟨⟨hbase, hz⟩, ⟨hr1, hr2⟩, hlt'⟩
  · -- MIPS32: no frame-pointer technique; the scan (with or without the 4-word skip) reads zeros
    have hm : f.ctx.m64 = false := hv.m64_false (by decide)
    have hz4 : zerosFrom mem 4 st.sp = true := hz
    have hok : instrValid (noCfiEnv env) .mips32 0 = false := by simp [instrValid, instrPre, Consts.mips_min_ip]
    have hscan : ∀ n, scanFrom (instrValid (noCfiEnv env) .mips32) mem 4 U32MAX st.sp n 0 = none := fun n =>
      scanFrom_zeros (by decide) hz4 hok n 0
    have hscan' : ∀ n, scanFrom (instrValid (noCfiEnv env) .mips32) mem 4 U32MAX (st.sp + 16) n 0 = none := fun n =>
      scanFrom_zeros' (fun i v hr => by
        have : st.sp + 16 + i * 4 = st.sp + (i + 4) * 4 := by omega
        rw [this] at hr
        exact zerosFrom_read (by decide) hz4 hr) hok n 0
    have heff' : effArch (noCfiEnv env).arch f.ctx = .mips32 := by rw [harch']; exact heff
    have hc : Consts.mips_min_args * Consts.ptr_mips32 = 16 := rfl
    have hget : f.ctx.get .mips32 "sp" = some st.sp := hv.get_sp
    unfold step
    simp only [heff', candidate, hcfi', byFp, byScan, scanMips32, hget, hc]
    by_cases htc : f.trust = .context
    · simp only [htc, ne_eq, not_true_eq_false, ↓reduceIte, hscan]
    · simp only [htc, ne_eq, not_false_eq_true, ↓reduceIte]
      by_cases hov : st.sp + 16 > U32MAX
      · simp only [if_pos hov]
      · simp only [if_neg hov, hscan']
  · -- MIPS64
    have hget : f.ctx.get .mips64 "sp" = some st.sp := hv.get_sp
    refine step_scan_end (first := decide (f.trust = .context)) rfl harch' hcfi'
      ⟨hv.sp, hget, ?_, heff, Or.inl rfl⟩ hz
    cases f.trust <;> rfl

/-! ### the dispatcher -/

theorem cfi_none_arch {a : Arch} {os : Os} {w : World} {wins : List (List Win.Rec)} {mem : Mem} {f : Frame}
    {g : Option Frame} (hx : a ≠ .x86) (heff : effArch a f.ctx = a)
    (hn : noRecordAt w wins f.instruction = true) : (mkEnvW a os w wins mem).cfi f g = none := by
  rw [mkEnvW_cfi_arch hx]
  simp only [noRecordAt, Bool.and_eq_true, Option.isNone_iff_eq_none] at hn
  exact cfiOf_of_none heff hn.1.1

theorem mkEnvW_instrOk_zero (a : Arch) (os : Os) (w : World) (wins : List (List Win.Rec)) (mem : Mem) :
    (mkEnvW a os w wins mem).instrOk 0 = false := by
  simp [mkEnvW, instrOkOf]

/-- **one `get_caller_frame`** on a frame in state `st` off x86, for an expected caller found by
    STACK CFI, by the frame pointer or by scanning — `PreW`'s own link predicate -/
theorem step_arch_mixed {a : Arch} {os : Os} {w : World} {wins : List (List Win.Rec)} {mem : Mem}
    (hx : a ≠ .x86) (f : Frame) (g : Option Frame) (st : MState) (e : Exp)
    (hv : MView w a f st)
    (hl : linkMixed w wins (mkEnvW a os w wins mem) a os mem st e = true) :
    ∃ f', step (mkEnvW a os w wins mem) mem (symbolise (mkEnvW a os w wins mem) f) g = some f' ∧
      MView w a f' (nextState (mkEnvW a os w wins mem) a st e) ∧ FrameIsA a (techTrust e) e f' := by
  have hvs := hv.symbolise (mkEnvW a os w wins mem)
  suffices h : ∃ f', step (mkEnvW a os w wins mem) mem (symbolise (mkEnvW a os w wins mem) f) g = some f' ∧
      FrameIsA a (techTrust e) e f' by
    obtain ⟨f', h1, h2⟩ := h
    exact ⟨f', h1, MView.next h2 (techTrust_ne_context e), h2⟩
  generalize hF : symbolise (mkEnvW a os w wins mem) f = F at hvs ⊢
  simp only [linkMixed, Bool.and_eq_true, decide_eq_true_eq, Bool.or_eq_true] at hl
  obtain ⟨⟨⟨⟨hret, hspm⟩, hretm⟩, hsp⟩, hl⟩ := hl
  have hsp' : st.sp < e.sp ∨ (st.first = true ∧ a.leafOk = true ∧ st.sp = e.sp) := by
    rcases hsp with h | h
    · exact Or.inl h
    · exact Or.inr ⟨h.1.1, h.1.2, h.2⟩
  have harch : (mkEnvW a os w wins mem).arch = a := rfl
  by_cases hw : e.tech = "win"
  · rw [if_pos hw] at hl
    simp only [Bool.and_eq_true, beq_iff_eq] at hl
    exact absurd hl.1 hx
  · rw [if_neg hw] at hl
    by_cases hc : e.tech = "cfi"
    · rw [if_pos hc] at hl
      simp only [Bool.and_eq_true] at hl
      have ht : techTrust e = .cfi := by simp [techTrust, hc]
      rw [ht]
      exact step_cfi_arch harch (mkEnvW_cfi_arch hx os w wins mem) hvs hret hspm hretm hsp' hl.2
    · rw [if_neg hc] at hl
      by_cases hf : e.tech = "fp"
      · rw [if_pos hf] at hl
        simp only [Bool.and_eq_true] at hl
        obtain ⟨⟨⟨hn, _⟩, hregs⟩, hl⟩ := hl
        have ht : techTrust e = .fp := by simp [techTrust, hf, hw, hc]
        rw [ht]
        have hcfi : (mkEnvW a os w wins mem).cfi F g = none :=
          cfi_none_arch hx hvs.eff (by rw [hvs.instr]; exact hn)
        cases hfp : st.fp with
        | none => simp [hfp] at hl
        | some f0 =>
          simp only [hfp] at hl
          exact step_fp_arch hx harch hcfi hvs hfp hl hregs hspm hretm
      · rw [if_neg hf] at hl
        by_cases hs : e.tech = "scan"
        · rw [if_pos hs] at hl
          simp only [Bool.and_eq_true] at hl
          obtain ⟨⟨hn, hdead⟩, hl⟩ := hl
          have ht : techTrust e = .scan := by simp [techTrust, hf, hw, hc]
          rw [ht]
          have hcfi : (mkEnvW a os w wins mem).cfi F g = none :=
            cfi_none_arch hx hvs.eff (by rw [hvs.instr]; exact hn)
          rw [step_noCfiEnv hcfi]
          have hcfi' : ∀ f g, (noCfiEnv (mkEnvW a os w wins mem)).cfi f g = none := fun _ _ => rfl
          have harch' : (noCfiEnv (mkEnvW a os w wins mem)).arch = a := rfl
          have hl' : linkScanM (noCfiEnv (mkEnvW a os w wins mem)) a mem st e = true := hl
          have hdead' : fpDead a (noCfiEnv (mkEnvW a os w wins mem)).os mem st.fp = true := hdead
          cases a
          · exact absurd rfl hx
          · exact step_scan_amd64M harch' hcfi' hvs hdead' hl' hret hretm
          · exact step_scan_armM harch' hcfi' hvs hdead' hl' hret hretm
          · exact step_scan64M rfl harch' hcfi' hvs hdead' hl' hret hretm
          · exact step_scan64M rfl harch' hcfi' hvs hdead' hl' hret hretm
          · exact step_scan_mips32M harch' hcfi' hvs hl' hret hretm
          · exact step_scan64M rfl harch' hcfi' hvs hdead' hl' hret hretm
        · rw [if_neg hs] at hl
          cases hl

/-- the generated end of a stack off x86: no technique finds a caller -/
theorem step_arch_end {a : Arch} {os : Os} {w : World} {wins : List (List Win.Rec)} {mem : Mem}
    (hx : a ≠ .x86) (f : Frame) (g : Option Frame) (st : MState)
    (hv : MView w a f st) (he : endMixed w wins a os mem st = true) :
    step (mkEnvW a os w wins mem) mem (symbolise (mkEnvW a os w wins mem) f) g = none := by
  have hvs := hv.symbolise (mkEnvW a os w wins mem)
  obtain ⟨hn, hbase, hz, halt⟩ := endMixed_spec he
  have hcfi : (mkEnvW a os w wins mem).cfi (symbolise (mkEnvW a os w wins mem) f) g = none :=
    cfi_none_arch hx hvs.eff (by rw [hvs.instr]; exact hn)
  exact step_end_arch hx rfl hcfi (fun _ => mkEnvW_instrOk_zero a os w wins mem) hvs hbase hz halt

/-! ### the context frame -/

theorem calleeSaved_registers {a : Arch} {r : String} (h : r ∈ a.calleeSaved) : r ∈ a.registers := by
  have hall : a.calleeSaved.all (fun r => a.registers.contains r) = true := by cases a <;> decide
  have := List.all_eq_true.mp hall r h
  simpa using this

theorem spName_registers (a : Arch) : a.spName ∈ a.registers := by cases a <;> decide

theorem lrName_registers {a : Arch} (h : a.leafOk = true) : lrName a ∈ a.registers := by
  cases a <;> simp [Arch.leafOk] at h <;> decide

theorem lookup_filter_map_mem {p : String → Bool} {gv : String → Nat} {r : String} {v : Nat} :
    ∀ (l : List String), ((l.filter p).map fun x => (x, gv x)).lookup r = some v → r ∈ l ∧ p r = true ∧ gv r = v := by
  intro l
  induction l with
  | nil => intro h; cases h
  | cons x l ih =>
    intro h
    by_cases hp : p x = true
    · simp only [List.filter_cons, hp, if_true, List.map_cons, List.lookup_cons] at h
      by_cases hrx : r = x
      · subst hrx
        simp only [beq_self_eq_true, Option.some.injEq] at h
        exact ⟨List.mem_cons_self, hp, h⟩
      · have hb : (r == x) = false := by simpa using hrx
        rw [hb] at h
        obtain ⟨h1, h2⟩ := ih h
        exact ⟨List.mem_cons_of_mem _ h1, h2⟩
    · simp only [List.filter_cons, hp, Bool.false_eq_true, if_false] at h
      obtain ⟨h1, h2⟩ := ih h
      exact ⟨List.mem_cons_of_mem _ h1, h2⟩

/-- a register valid by its literal name is valid -/
theorem has_of_hasLit {a : Arch} {c : Ctx} {r : String} (hr : a.canon r = some r) (h : c.hasLit r = true) :
    c.has a r = true := by
  unfold Ctx.has
  unfold Ctx.hasLit at h
  cases hv : c.valid with
  | none => simp [hr]
  | some V =>
    rw [hv] at h
    simp only at h
    have hm : r ∈ a.aliases r := by
      cases a <;> simp only [Arch.aliases] <;> repeat (first | split | simp_all)
    exact List.any_eq_true.mpr ⟨r, hm, h⟩

/-- the context frame is in `PreW`'s initial state -/
theorem mview_context {w : World} {a : Arch} (ctx : Ctx) (hsp : ctx.has a a.spName = true)
    (hm : ctx.m64 = (a == .mips64)) (hfit : ∀ r ∈ a.registers, ctx.raw a r ≤ a.regMax)
    (hlr : a.leafOk = true → (ctx.has a (lrName a) = true ∨
      ∀ rec, cfiRecordAt w ctx.ip = some rec → tokenize rec.init ≠ leafToks a)) :
    MView w a (Frame.ofCtx ctx .context) (initState a ctx) := by
  refine ⟨hm, rfl, rfl, ?_, hsp, rfl, ?_, ?_, ?_, ?_⟩
  · have := hfit a.spName (spName_registers a)
    rw [raw_spName] at this
    exact this
  · intro v hv
    have hv' : (if ctx.has a a.fpName = true then some (ctx.raw a a.fpName) else none) = some v := hv
    split at hv'
    · injection hv' with hv'
      rw [← hv']
      exact hfit a.fpName (calleeSaved_registers (by have := (fpName_calleeSaved a).1; simpa using this))
    · cases hv'
  · intro r v hl
    obtain ⟨h1, h2, h3⟩ := lookup_filter_map_mem
      (p := fun r => decide (r ≠ a.fpName ∧ r ≠ a.spName ∧ ctx.hasLit r = true))
      (gv := fun r => ctx.raw a r) _ hl
    have hc : a.calleeSaved.contains r = true := by simpa using h1
    refine ⟨has_of_hasLit (canon_calleeSaved hc).1 (of_decide_eq_true h2).2.2, h3, ?_⟩
    rw [← h3]
    exact hfit r (calleeSaved_registers h1)
  · exact ⟨fun _ => rfl, fun _ => rfl⟩
  · intro _ hleaf
    exact ⟨rfl, hlr hleaf⟩

/-! ### the chain -/

theorem preMixedFrom_preChainA (w : World) (wins : List (List Win.Rec)) (a : Arch) (os : Os) (mem : Mem) :
    ∀ (chain : List Exp) (st : MState),
      preMixedFrom w wins (mkEnvW a os w wins mem) a os mem st chain = true →
      preChain (fun st => mem.inRange st.sp) (linkMixed w wins (mkEnvW a os w wins mem) a os mem)
        (endMixed w wins a os mem) (nextState (mkEnvW a os w wins mem) a) st chain = true := by
  intro chain
  induction chain with
  | nil => intro st h; exact h
  | cons e rest ih =>
    intro st h
    simp only [preMixedFrom, Bool.and_eq_true] at h
    simp only [preChain, Bool.and_eq_true]
    exact ⟨⟨h.1.1, h.1.2⟩, ih _ h.2⟩

/-- **the walk loop on a chain of `cfi` / `fp` / `scan` frames off x86**, any order, any depth -/
theorem walkLoop_arch_chain {a : Arch} {os : Os} {w : World} {wins : List (List Win.Rec)} {mem : Mem}
    (hx : a ≠ .x86) (chain : List Exp) (n : Nat) (f : Frame) (g : Option Frame) (st : MState)
    (hv : MView w a f st)
    (hp : preMixedFrom w wins (mkEnvW a os w wins mem) a os mem st chain = true)
    (hn : need mem f ≤ n) :
    ∃ frames, walkLoop (mkEnvW a os w wins mem) mem n f g =
        symbolise (mkEnvW a os w wins mem) f :: frames ∧
      All2 (fun fr e => ∃ f', fr = symbolise (mkEnvW a os w wins mem) f' ∧ FrameIsA a (techTrust e) e f')
        frames chain :=
  walkLoop_chain_rel (env := mkEnvW a os w wins mem) (mem := mem) (fun f _ st => MView w a f st)
    (linkMixed w wins (mkEnvW a os w wins mem) a os mem)
    (endMixed w wins a os mem) (fun st => st.sp) (nextState (mkEnvW a os w wins mem) a)
    (fun e f' => FrameIsA a (techTrust e) e f')
    (fun _ _ _ h => h.sp) (fun f g st e hv hl => step_arch_mixed hx f g st e hv hl)
    (fun f g st hv he => step_arch_end hx f g st hv he) chain n f g st hv
    (preMixedFrom_preChainA w wins a os mem chain st hp) hn

end MdModel.Walk
