/-
  `parse_more` handles its window line by line: `parseMore st w = pmSpec Lsym st w`, where `Lsym`
  is one round of the loop on ONE complete line.
-/
import MdModel.SymParse
import MdProofs.Lemmas.SymLocal
import MdProofs.Lemmas.SymLines
namespace MdModel.Sym
open MdModel MdModel.Stream

/-- what one complete line does to the parser state -/
def Lsym (st : PState) (line : Bytes) : LR PState :=
  match stepLine st line with
  | .ok _ st' => .ok st'
  | .err k n => .err k n
  | .panic e => .panic e

/-- "the answer depends on the line only and the line is consumed exactly" for `StepRes` -/
def UnifStep (f : Bytes → StepRes) (l : Bytes) : Prop :=
  (∃ st', ∀ s, f (l ++ Sym.NL :: s) = .ok s st') ∨ (∃ k n, ∀ s, f (l ++ Sym.NL :: s) = .err k n) ∨
  (∃ e, ∀ s, f (l ++ Sym.NL :: s) = .panic e)

theorem topLevel_unif (st : PState) (l : Bytes) (hl : Sym.NL ∉ l) : UnifStep (topLevel st) l := by
  rcases Final.myEol l hl with ⟨v, h⟩ | h | h
  · exact Or.inl ⟨_, fun s => by simp only [topLevel, h s] <;> rfl⟩
  all_goals
    rcases Final.line l hl with ⟨v, h2⟩ | h2 | h2
    · cases ha : applyLine st v with
      | error e =>
        obtain ⟨k, n⟩ := e
        exact Or.inr (Or.inl ⟨k, n, fun s => by simp only [topLevel, h s, h2 s, ha] <;> rfl⟩)
      | ok o =>
        cases o with
        | panic e => exact Or.inr (Or.inr ⟨e, fun s => by simp only [topLevel, h s, h2 s, ha] <;> rfl⟩)
        | ok st' => exact Or.inl ⟨_, fun s => by simp only [topLevel, h s, h2 s, ha] <;> rfl⟩
    · exact Or.inr (Or.inl ⟨_, _, fun s => by simp only [topLevel, h s, h2 s] <;> rfl⟩)
    · exact Or.inr (Or.inl ⟨_, _, fun s => by simp only [topLevel, h s, h2 s] <;> rfl⟩)

theorem Final.funcSubline : Final funcSubline := by
  intro l hl
  have e1 : ∀ s, (kw "INLINE_ORIGIN ").isPrefixOf (l ++ Sym.NL :: s) = (kw "INLINE_ORIGIN ").isPrefixOf l :=
    fun s => isPrefixOf_line _ l s (by decide) hl
  have e2 : ∀ s, (kw "INLINE ").isPrefixOf (l ++ Sym.NL :: s) = (kw "INLINE ").isPrefixOf l :=
    fun s => isPrefixOf_line _ l s (by decide) hl
  by_cases h1 : (kw "INLINE_ORIGIN ").isPrefixOf l = true
  · have hf : Final (P.bind Sym.inlineOriginLine fun (id, name) => P.pure (Sub.origin id name)) :=
      Final.map _ Final.inlineOriginLine fun v => by obtain ⟨a, b⟩ := v; exact ⟨_, fun _ => rfl⟩
    rcases hf l hl with ⟨v, h⟩ | h | h
    · exact Or.inl ⟨v, fun s => by simp only [Sym.funcSubline, e1 s, h1, if_true]; exact h s⟩
    · exact Or.inr (Or.inl fun s => by simp only [Sym.funcSubline, e1 s, h1, if_true]; exact h s)
    · exact Or.inr (Or.inr fun s => by simp only [Sym.funcSubline, e1 s, h1, if_true]; exact h s)
  · by_cases h2 : (kw "INLINE ").isPrefixOf l = true
    · have hf : Final (P.bind Sym.inlineLine fun xs => P.pure (Sub.inlinees xs)) :=
        Final.map _ Final.inlineLine fun v => ⟨_, fun _ => rfl⟩
      rcases hf l hl with ⟨v, h⟩ | h | h
      · exact Or.inl ⟨v, fun s => by simp only [Sym.funcSubline, e1 s, e2 s, h1, h2, if_true]; exact h s⟩
      · exact Or.inr (Or.inl fun s => by simp only [Sym.funcSubline, e1 s, e2 s, h1, h2, if_true]; exact h s)
      · exact Or.inr (Or.inr fun s => by simp only [Sym.funcSubline, e1 s, e2 s, h1, h2, if_true]; exact h s)
    · have hf : Final (P.bind Sym.funcLineData fun l => P.pure (Sub.line l)) :=
        Final.map _ Final.funcLineData fun v => ⟨_, fun _ => rfl⟩
      rcases hf l hl with ⟨v, h⟩ | h | h
      · exact Or.inl ⟨v, fun s => by simp only [Sym.funcSubline, e1 s, e2 s, h1, h2]; exact h s⟩
      · exact Or.inr (Or.inl fun s => by simp only [Sym.funcSubline, e1 s, e2 s, h1, h2]; exact h s)
      · exact Or.inr (Or.inr fun s => by simp only [Sym.funcSubline, e1 s, e2 s, h1, h2]; exact h s)

theorem stepLine_unif (st : PState) (l : Bytes) (hl : Sym.NL ∉ l) : UnifStep (stepLine st) l := by
  cases hc : st.cur with
  | none =>
    have := topLevel_unif st l hl
    unfold UnifStep at *
    simpa only [stepLine, hc] using this
  | func f ls inl =>
    have hfb : UnifStep (fun i => match finishCur st with
        | .panic e => StepRes.panic e
        | .ok st' => topLevel st' i) l := by
      cases finishCur st with
      | panic e => exact Or.inr (Or.inr ⟨e, fun _ => rfl⟩)
      | ok st' => exact topLevel_unif st' l hl
    rcases Final.funcSubline l hl with ⟨v, h⟩ | h | h
    · cases v with
      | origin id name => exact Or.inl ⟨_, fun s => by simp only [stepLine, hc, h s] <;> rfl⟩
      | inlinees xs => exact Or.inl ⟨_, fun s => by simp only [stepLine, hc, h s] <;> rfl⟩
      | line x => exact Or.inl ⟨_, fun s => by simp only [stepLine, hc, h s] <;> rfl⟩
    · rcases hfb with ⟨st', h2⟩ | ⟨k, n, h2⟩ | ⟨e, h2⟩
      · exact Or.inl ⟨st', fun s => by simp only [stepLine, hc, h s]; exact h2 s⟩
      · exact Or.inr (Or.inl ⟨k, n, fun s => by simp only [stepLine, hc, h s]; exact h2 s⟩)
      · exact Or.inr (Or.inr ⟨e, fun s => by simp only [stepLine, hc, h s]; exact h2 s⟩)
    · rcases hfb with ⟨st', h2⟩ | ⟨k, n, h2⟩ | ⟨e, h2⟩
      · exact Or.inl ⟨st', fun s => by simp only [stepLine, hc, h s]; exact h2 s⟩
      · exact Or.inr (Or.inl ⟨k, n, fun s => by simp only [stepLine, hc, h s]; exact h2 s⟩)
      · exact Or.inr (Or.inr ⟨e, fun s => by simp only [stepLine, hc, h s]; exact h2 s⟩)
  | cfi c =>
    have hfb : UnifStep (fun i => match finishCur st with
        | .panic e => StepRes.panic e
        | .ok st' => topLevel st' i) l := by
      cases finishCur st with
      | panic e => exact Or.inr (Or.inr ⟨e, fun _ => rfl⟩)
      | ok st' => exact topLevel_unif st' l hl
    rcases Final.stackCfi l hl with ⟨v, h⟩ | h | h
    · exact Or.inl ⟨_, fun s => by simp only [stepLine, hc, h s] <;> rfl⟩
    · rcases hfb with ⟨st', h2⟩ | ⟨k, n, h2⟩ | ⟨e, h2⟩
      · exact Or.inl ⟨st', fun s => by simp only [stepLine, hc, h s]; exact h2 s⟩
      · exact Or.inr (Or.inl ⟨k, n, fun s => by simp only [stepLine, hc, h s]; exact h2 s⟩)
      · exact Or.inr (Or.inr ⟨e, fun s => by simp only [stepLine, hc, h s]; exact h2 s⟩)
    · rcases hfb with ⟨st', h2⟩ | ⟨k, n, h2⟩ | ⟨e, h2⟩
      · exact Or.inl ⟨st', fun s => by simp only [stepLine, hc, h s]; exact h2 s⟩
      · exact Or.inr (Or.inl ⟨k, n, fun s => by simp only [stepLine, hc, h s]; exact h2 s⟩)
      · exact Or.inr (Or.inr ⟨e, fun s => by simp only [stepLine, hc, h s]; exact h2 s⟩)

/-- **line locality of one loop round**: on `line ++ s` (`line` = one complete line) the round
    consumes exactly `line` and its effect depends on `line` only. -/
theorem stepLine_line (st : PState) (line : Bytes) (h : IsLine line) (s : Bytes) :
    stepLine st (line ++ s) =
      match Lsym st line with
      | .ok st' => .ok s st'
      | .err k n => .err k n
      | .panic e => .panic e := by
  obtain ⟨l, hl, rfl⟩ := h
  have hl' : Sym.NL ∉ l := hl
  have e : ∀ s, l ++ [Stream.NL] ++ s = l ++ Sym.NL :: s := fun s => by simp [Sym.NL, Stream.NL]
  have e0 : l ++ [Stream.NL] = l ++ Sym.NL :: [] := by simp [Sym.NL, Stream.NL]
  rcases stepLine_unif st l hl' with ⟨st', h⟩ | ⟨k, n, h⟩ | ⟨e', h⟩
  · rw [e s, h s]; unfold Lsym; rw [e0, h []]
  · rw [e s, h s]; unfold Lsym; rw [e0, h []]
  · rw [e s, h s]; unfold Lsym; rw [e0, h []]

theorem linesLoop_lines (ls : List Bytes) (hls : ∀ l ∈ ls, IsLine l) :
    ∀ (fuel : Nat) (st : PState), ls.flatten.length ≤ fuel →
      linesLoop fuel st ls.flatten =
        match foldL Lsym st ls with
        | .ok st' => .ok [] st'
        | .err k n => .err k n
        | .panic e => .panic e := by
  induction ls with
  | nil => intro fuel st _; cases fuel <;> simp [linesLoop, foldL]
  | cons line rest ih =>
    intro fuel st hf
    have hline := hls line (by simp)
    have hrest : ∀ l ∈ rest, IsLine l := fun l hl => hls l (by simp [hl])
    obtain ⟨c, hc, rfl⟩ := hline
    have hne : (c ++ [Stream.NL]) ++ rest.flatten = (c ++ [Stream.NL] ++ rest.flatten).head (by simp) ::
        (c ++ [Stream.NL] ++ rest.flatten).tail := by simp
    simp only [List.flatten_cons, List.length_append, List.length_cons, List.length_nil] at hf
    cases fuel with
    | zero => omega
    | succ f =>
      have hstep := stepLine_line st (c ++ [Stream.NL]) ⟨c, hc, rfl⟩ rest.flatten
      simp only [List.flatten_cons]
      rw [hne, linesLoop, ← hne, hstep]
      simp only [foldL]
      cases Lsym st (c ++ [Stream.NL]) with
      | ok st' => simp only []; exact ih hrest f st' (by omega)
      | err k n => rfl
      | panic e => rfl

theorem lastNL_go_spec : ∀ (w : Bytes) (i : Nat) (acc : Option Nat),
    (Sym.NL ∉ w → lastNL.go w i acc = acc) ∧
    (Sym.NL ∈ w → ∃ a t, w = a ++ Sym.NL :: t ∧ Sym.NL ∉ t ∧ lastNL.go w i acc = some (i + a.length)) := by
  intro w
  induction w with
  | nil => intro i acc; exact ⟨fun _ => rfl, fun h => by simp at h⟩
  | cons b rest ih =>
    intro i acc
    obtain ⟨ih1, ih2⟩ := ih (i + 1) (if b = Sym.NL then some i else acc)
    by_cases hr : Sym.NL ∈ rest
    · obtain ⟨a, t, hw, ht, hg⟩ := ih2 hr
      refine ⟨fun h => absurd (List.mem_cons_of_mem _ hr) h, fun _ => ⟨b :: a, t, by simp [hw], ht, ?_⟩⟩
      simp only [lastNL.go, hg, List.length_cons]; congr 1; omega
    · by_cases hb : b = Sym.NL
      · refine ⟨fun h => absurd (by simp [hb]) h, fun _ => ⟨[], rest, by simp [hb], hr, ?_⟩⟩
        simp only [lastNL.go, hb, if_true, List.length_nil, Nat.add_zero]
        exact (ih (i + 1) (some i)).1 hr
      · refine ⟨fun _ => ?_, fun h => ?_⟩
        · simp only [lastNL.go, hb, if_false]
          exact (ih (i + 1) acc).1 hr
        · exfalso
          rcases List.mem_cons.mp h with h | h
          · exact hb h.symm
          · exact hr h

theorem linesAux_endNL (a cur : Bytes) : (linesAux (a ++ [Stream.NL]) cur).2 = [] := by
  induction a generalizing cur with
  | nil => simp [linesAux]
  | cons b rest ih =>
    simp only [List.cons_append]
    unfold linesAux
    split
    · exact ih []
    · exact ih (b :: cur)

/-- **`parse_more` = fold of the per-line step over the complete lines of the window** -/
theorem parseMore_eq (st : PState) (w : Bytes) : parseMore st w = pmSpec Lsym st w := by
  unfold parseMore lastNL
  obtain ⟨g1, g2⟩ := lastNL_go_spec w 0 none
  by_cases hw : Sym.NL ∈ w
  · obtain ⟨a, t, hwe, ht, hg⟩ := g2 hw
    rw [hg]
    simp only [Nat.zero_add]
    have htake : w.take (a.length + 1) = a ++ [Stream.NL] := by
      rw [hwe, show a ++ Sym.NL :: t = (a ++ [Stream.NL]) ++ t by simp [Sym.NL, Stream.NL]]
      rw [List.take_left' (by simp)]
    rw [htake]
    -- the complete lines of the window
    have hrest : (linesOf (a ++ [Stream.NL])).2 = [] := linesAux_endNL a []
    have hflat : (linesOf (a ++ [Stream.NL])).1.flatten = a ++ [Stream.NL] := by
      have := linesOf_flatten (a ++ [Stream.NL]); rw [hrest, List.append_nil] at this; exact this
    have hlines := linesOf_isLine (a ++ [Stream.NL])
    have hw1 : (linesOf w).1 = (linesOf (a ++ [Stream.NL])).1 := by
      have hws : w = (linesOf (a ++ [Stream.NL])).1.flatten ++ t := by
        rw [hflat, hwe]; simp [Sym.NL, Stream.NL]
      rw [hws, linesOf_append_lines _ hlines t, linesOf_noNL t ht]; simp
    have hloop := linesLoop_lines _ hlines (a ++ [Stream.NL]).length st (by rw [hflat]; exact Nat.le_refl _)
    rw [hflat] at hloop
    rw [hloop]
    unfold pmSpec
    rw [hw1, hflat]
    cases foldL Lsym st (linesOf (a ++ [Stream.NL])).1 <;> rfl
  · rw [g1 hw]
    unfold pmSpec
    rw [linesOf_noNL w hw]
    simp [foldL]

end MdModel.Sym
