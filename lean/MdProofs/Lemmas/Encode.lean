/-
  MdProofs.Lemmas.Encode — the proof kit of C02's round trip:
    * integers: `decodeNat e (encNat e w v) = v`;
    * placement: `Has l off c` ("the bytes `c` sit in `l` at offset `off`") and its algebra;
    * "a serialized fixed-layout record reads back" (`readFields_has`), driven by the GENERATED layouts;
    * "n records read back" (`readEntries_has`);
    * the reader monad's `.res` under `>>=` (`res_bind`), forward direction.
-/
import MdModel.Encode
import MdProofs.Lemmas.Bytes
namespace MdModel.Encode
open MdModel MdModel.Dump MdModel.Gen.Layouts

/-! ## integers -/

@[simp] theorem leBytes_length (w v : Nat) : (leBytes w v).length = w := by
  induction w generalizing v with
  | zero => rfl
  | succ n ih => simp [leBytes, ih]

@[simp] theorem encNat_length (e : Endian) (w v : Nat) : (encNat e w v).length = w := by
  cases e <;> simp [encNat]

theorem leNat_leBytes (w v : Nat) (h : v < 256 ^ w) : leNat (leBytes w v) = v := by
  induction w generalizing v with
  | zero => simp at h; subst h; rfl
  | succ n ih =>
    have h' : v / 256 < 256 ^ n := by
      rw [Nat.pow_succ] at h
      exact Nat.div_lt_of_lt_mul (by rw [Nat.mul_comm]; exact h)
    simp only [leBytes, leNat, ih _ h', UInt8.toNat_ofNat']
    omega

/-- **integers round trip** in either byte order -/
theorem decodeNat_encNat (e : Endian) (w v : Nat) (h : v < 256 ^ w) : decodeNat e (encNat e w v) = v := by
  cases e with
  | little => exact leNat_leBytes w v h
  | big => simp [decodeNat, encNat, leNat_leBytes w v h]

/-! ## placement -/

/-- the bytes `c` sit in `l` at offset `off` -/
def Has (l : List UInt8) (off : Nat) (c : List UInt8) : Prop :=
  ∃ pre post, l = pre ++ c ++ post ∧ pre.length = off

theorem Has.mid (pre c post : List UInt8) : Has (pre ++ c ++ post) pre.length c := ⟨pre, post, rfl, rfl⟩

theorem Has.left {l : List UInt8} {off : Nat} {c1 c2 : List UInt8} (h : Has l off (c1 ++ c2)) : Has l off c1 := by
  obtain ⟨pre, post, hl, hp⟩ := h
  exact ⟨pre, c2 ++ post, by simp [hl], hp⟩

theorem Has.right {l : List UInt8} {off : Nat} {c1 c2 : List UInt8} (h : Has l off (c1 ++ c2)) :
    Has l (off + c1.length) c2 := by
  obtain ⟨pre, post, hl, hp⟩ := h
  exact ⟨pre ++ c1, post, by simp [hl], by simp [hp]⟩

theorem Has.length_le {l : List UInt8} {off : Nat} {c : List UInt8} (h : Has l off c) : off + c.length ≤ l.length := by
  obtain ⟨pre, post, hl, hp⟩ := h
  subst hl; simp; omega

/-- placement composes: a chunk of a chunk -/
theorem Has.sub {l : List UInt8} {off off' : Nat} {c c' : List UInt8} (h : Has l off c) (h' : Has c off' c') :
    Has l (off + off') c' := by
  obtain ⟨pre, post, hl, hp⟩ := h
  obtain ⟨pre', post', hc, hp'⟩ := h'
  exact ⟨pre ++ pre', post' ++ post, by simp [hl, hc], by simp [hp, hp']⟩

theorem Has.nil {l : List UInt8} {off : Nat} (h : off ≤ l.length) : Has l off [] :=
  ⟨l.take off, l.drop off, by simp, by simp [h]⟩

/-- what `Array.extract` returns on a placed chunk -/
theorem Has.extract {b : Bytes} {off : Nat} {c : List UInt8} (h : Has b.toList off c) :
    (b.extract off (off + c.length)).toList = c := by
  obtain ⟨pre, post, hl, hp⟩ := h
  rw [Array.toList_extract, hl, List.extract_eq_take_drop]
  subst hp
  simp

theorem Has.extract' {b : Bytes} {off stop : Nat} {c : List UInt8} (h : Has b.toList off c) (hs : stop = off + c.length) :
    (b.extract off stop).toList = c := by
  subst hs; exact h.extract

theorem Has.size_le {b : Bytes} {off : Nat} {c : List UInt8} (h : Has b.toList off c) : off + c.length ≤ b.size := by
  have := h.length_le
  simpa using this

/-! ## scalars and records -/

theorem readScalar_has {b : Bytes} {off w v : Nat} {e : Endian} (h : Has b.toList off (encNat e w v))
    (hv : v < 256 ^ w) : readScalar b off w e = some v := by
  have hsz := h.size_le
  simp only [encNat_length] at hsz
  unfold readScalar
  rw [if_neg (by omega), if_neg (by omega)]
  have := h.extract
  simp only [encNat_length] at this
  rw [this, decodeNat_encNat e w v hv]

/-- the values fit the widths of the layout, one value per field -/
def Fits : Layout → List Nat → Prop
  | [], [] => True
  | (_, w) :: l, v :: vs => v < 256 ^ w ∧ Fits l vs
  | _, _ => False

@[simp] theorem encFields_length (e : Endian) (l : Layout) (vs : List Nat) :
    (encFields e l vs).length = Layout.size l := by
  induction l generalizing vs with
  | nil => simp [encFields, Layout.size]
  | cons f rest ih =>
    obtain ⟨n, w⟩ := f
    cases vs with
    | nil => simp [encFields, Layout.size, ih]
    | cons v vs => simp [encFields, Layout.size, ih]

theorem Layout.size_cons (n : String) (w : Nat) (l : Layout) : Layout.size ((n, w) :: l) = w + Layout.size l := by
  simp [Layout.size]

/-- **a serialized fixed-layout record reads back**, for every layout (the generated ones in
    particular), every offset, either byte order -/
theorem readFields_has {l : Layout} {b : Bytes} {off : Nat} {e : Endian} {vs : List Nat}
    (hf : Fits l vs) (h : Has b.toList off (encFields e l vs)) : readFields l b off e = some vs := by
  induction l generalizing off vs with
  | nil =>
    cases vs with
    | nil => rfl
    | cons v vs => exact absurd hf (by simp [Fits])
  | cons f rest ih =>
    obtain ⟨n, w⟩ := f
    cases vs with
    | nil => exact absurd hf (by simp [Fits])
    | cons v vs =>
      simp only [Fits] at hf
      simp only [encFields] at h
      have h1 := readScalar_has h.left hf.1
      have h2 := h.right
      simp only [encNat_length] at h2
      simp only [readFields, h1, ih hf.2 h2]

/-! ## record lists -/

theorem mapM_range' {β : Type} (f : Nat → Option β) :
    ∀ (rs : List β) (s : Nat), (∀ k (hk : k < rs.length), f (s + k) = some rs[k]) →
      (List.range' s rs.length).mapM f = some rs := by
  intro rs
  induction rs with
  | nil => intro s _; simp
  | cons r rs ih =>
    intro s h
    have h0 := h 0 (by simp)
    simp only [Nat.add_zero, List.getElem_cons_zero] at h0
    have ih' := ih (s + 1) (fun k hk => by
      have := h (k + 1) (by simp; omega)
      simp only [List.getElem_cons_succ] at this
      rw [← this]; congr 1; omega)
    simp only [List.length_cons, List.range'_succ, List.mapM_cons, h0, ih']
    rfl

theorem encRecords_cons (e : Endian) (l : Layout) (r : List Nat) (rs : List (List Nat)) :
    encRecords e l (r :: rs) = encFields e l r ++ encRecords e l rs := by
  simp [encRecords]

@[simp] theorem encRecords_length (e : Endian) (l : Layout) (rs : List (List Nat)) :
    (encRecords e l rs).length = rs.length * Layout.size l := by
  induction rs with
  | nil => simp [encRecords]
  | cons r rs ih => rw [encRecords_cons]; simp [ih, Nat.add_mul]; omega

/-- record `k` of a placed record list sits at `off + k * size` -/
theorem Has.record {bs : List UInt8} {off : Nat} {e : Endian} {l : Layout} :
    ∀ {rs : List (List Nat)} (k : Nat) (hk : k < rs.length), Has bs off (encRecords e l rs) →
      Has bs (off + k * Layout.size l) (encFields e l rs[k]) := by
  intro rs
  induction rs generalizing off with
  | nil => intro k hk; exact absurd hk (by simp)
  | cons r rs ih =>
    intro k hk h
    rw [encRecords_cons] at h
    cases k with
    | zero => simpa using h.left
    | succ k =>
      have h2 := h.right
      simp only [encFields_length] at h2
      have := ih k (by simpa using hk) h2
      simp only [List.getElem_cons_succ]
      have heq : off + Layout.size l + k * Layout.size l = off + (k + 1) * Layout.size l := by
        rw [Nat.add_mul]; omega
      rw [← heq]; exact this

/-- **a list of n serialized records reads back** -/
theorem readEntries_has {l : Layout} {b : Bytes} {off : Nat} {e : Endian} {rs : List (List Nat)}
    (hf : ∀ r ∈ rs, Fits l r) (h : Has b.toList off (encRecords e l rs)) :
    readEntries l b e off rs.length = some rs := by
  unfold readEntries
  rw [List.range_eq_range']
  apply mapM_range'
  intro k hk
  simp only [Nat.zero_add]
  exact readFields_has (hf _ (List.getElem_mem hk)) (h.record k hk)

/-! ## the reader monad, forward -/

theorem res_bind {α β : Type} (x : M α) (f : α → M β) :
    (x >>= f).res = match x.res with
      | .ok a => (f a).res
      | .err e => .err e
      | .panic s => .panic s := by
  rw [M.bind_def]; unfold M.bind'
  cases x.res <;> rfl

theorem res_bind_ok {α β : Type} {x : M α} {f : α → M β} {a : α} (h : x.res = .ok a) :
    (x >>= f).res = (f a).res := by
  rw [res_bind, h]

@[simp] theorem res_pure {α : Type} (a : α) : (pure a : M α).res = .ok a := rfl
@[simp] theorem res_fail {α : Type} (e : Err) : (M.fail e : M α).res = .err e := rfl
@[simp] theorem res_alloc (n sz : Nat) (ex : Bool) : (M.alloc n sz ex).res = .ok () := rfl

theorem res_usizeAdd {site : String} {a b : Nat} (h : a + b ≤ USIZE_MAX) : (usizeAdd site a b).res = .ok (a + b) := by
  unfold usizeAdd; rw [if_pos h]; rfl

theorem res_usizeSub {site : String} {a b : Nat} (h : b ≤ a) : (usizeSub site a b).res = .ok (a - b) := by
  unfold usizeSub; rw [if_pos h]; rfl

theorem res_sliceRange {site : String} {b : Bytes} {lo hi : Nat} (h : lo ≤ hi ∧ hi ≤ b.size) :
    (sliceRange site b lo hi).res = .ok (b.extract lo hi) := by
  unfold sliceRange; rw [if_pos h]; rfl

end MdModel.Encode
