/-
  Helper lemmas for C04, chains whose technique changes from frame to frame (part 1): the STACK CFI
  one-step lemma for an ARBITRARY validity set.

  `CfiInv` (WalkCfiChainStep) assumes every register of the callee valid; after a frame found by
  frame pointer or by scanning only sp / ip (/ fp) are. Here `walk_with_stack_cfi` on the canonical
  rule with saved-register groups is evaluated for any caller half `o` of the walker:

  * `applyRule_group'`, `foldl_saved'` — a group SETS its register (value and validity);
  * `canonOut`, `walkCfi_canonS` — the caller half after the whole rule set, the stack pointer token
    spelled `$sp` or `sp`; `canonOut_valid`, `canonOut_raw` — what is valid / what a register holds;
  * `matchCanonical_spec` — what `PreW`'s token matcher accepts;
  * `walkCfi_of_link` — `linkCfiM` (the `cfi` link of `PreW`) ⇒ the record's rules evaluate to
    `canonOut …`, and the claims of the expected frame in terms of slot words / forwarded registers;
  * `cfiOf_res` — `get_caller_by_cfi` around it (ARM64: ptr-auth strip of pc and of a VALID fp).
-/
import MdProofs.Lemmas.WalkCfiChainRegsLoop
set_option linter.unusedSimpArgs false
namespace MdModel.Walk
open MdModel

/-! ### sets of names -/

theorem mem_setInsert {l : List String} {s n : String} : n ∈ setInsert l s ↔ n ∈ l ∨ n = s := by
  unfold setInsert
  split
  · rename_i h
    constructor
    · exact Or.inl
    · rintro (h' | rfl)
      · exact h'
      · simpa using h
  · simp

theorem mem_foldl_setInsert (L : List (String × Nat)) : ∀ (v : List String) (n : String),
    n ∈ L.foldl (fun v g => setInsert v g.1) v ↔ n ∈ v ∨ n ∈ L.map (·.1) := by
  induction L with
  | nil => intro v n; simp
  | cons g L ih =>
    intro v n
    simp only [List.foldl_cons, ih, mem_setInsert, List.map_cons, List.mem_cons]
    constructor
    · rintro ((h | h) | h)
      · exact Or.inl h
      · exact Or.inr (Or.inl h)
      · exact Or.inr (Or.inr h)
    · rintro (h | h | h)
      · exact Or.inl (Or.inl h)
      · exact Or.inl (Or.inr h)
      · exact Or.inr h

/-! ### a group sets its register -/

theorem applyRule_group' (x : CfiIn) (cfa : Nat) (o : CfiOut) (g : String × Nat)
    (hc : x.arch.canon g.1 = some g.1) (hip : g.1 ≠ x.arch.ipName) (hsp : g.1 ≠ x.arch.spName)
    (hr : (x.mem.read ((cfa + g.2) % W64) x.arch.ptr).isSome = true) :
    applyRule x cfa o (g.1, slotE g.2) =
      { ctx := { o.ctx with rest := assocSet o.ctx.rest g.1 (slotWord x.arch x.mem cfa g.2) },
        valid := setInsert o.valid g.1 } := by
  obtain ⟨w, hw⟩ := Option.isSome_iff_exists.mp hr
  have hle := read_le_regMax hw
  simp only [applyRule, slotE, evalCfi, CfiIn.deref_eq, hw, CfiOut.setReg, hc, if_neg (Nat.not_lt.mpr hle),
    Ctx.set, if_neg hip, if_neg hsp, slotWord, Option.getD_some]

theorem foldl_saved' (x : CfiIn) (cfa : Nat) (L : List (String × Nat)) :
    ∀ (o : CfiOut),
      (∀ g ∈ L, x.arch.canon g.1 = some g.1 ∧ g.1 ≠ x.arch.ipName ∧ g.1 ≠ x.arch.spName ∧
        (x.mem.read ((cfa + g.2) % W64) x.arch.ptr).isSome = true) →
      (L.map fun g => (g.1, slotE g.2)).foldl (applyRule x cfa) o =
        { ctx := { o.ctx with rest := L.foldl (fun rest g => assocSet rest g.1 (slotWord x.arch x.mem cfa g.2)) o.ctx.rest },
          valid := L.foldl (fun v g => setInsert v g.1) o.valid } := by
  induction L with
  | nil => intro o _; rfl
  | cons g L ih =>
    intro o h
    obtain ⟨hc, hip, hsp, hr⟩ := h g List.mem_cons_self
    simp only [List.map_cons, List.foldl_cons]
    rw [applyRule_group' x cfa o g hc hip hsp hr]
    rw [ih]
    intro g' hg'
    exact h g' (List.mem_cons_of_mem _ hg')

/-! ### the caller half of the walker after the canonical rule with groups -/

/-- caller registers and validity after `.cfa: $sp N + .ra: .cfa -W + ^ ($r: .cfa LIT + ^)*`
    with CFA `cfa`, return-address word `ret`: sp, ip and every saved register are set -/
def canonOut (a : Arch) (mem : Mem) (o : CfiOut) (cfa ret : Nat) (saved : List (String × Nat)) : CfiOut :=
  { ctx := { o.ctx with sp := cfa, ip := ret,
                        rest := (byName saved).foldl (fun rest g => assocSet rest g.1 (slotWord a mem cfa g.2)) o.ctx.rest },
    valid := (byName saved).foldl (fun v g => setInsert v g.1) (setInsert (setInsert o.valid a.spName) a.ipName) }

/-- the canonical rule, the stack pointer token being `sp` -/
def canonToksS (a : Arch) (sp : ETok) (bytes : Nat) (saved : List (String × Nat)) : List RTok :=
  [.label .cfa, .tok sp, .tok (.lit bytes), .tok .add,
   .label .ra, .tok .cfa, .tok (.lit (2 ^ 64 - a.ptr)), .tok .add, .tok .deref] ++ saved.flatMap groupToks

theorem evalCfi_spS (x : CfiIn) (cfa : Option Nat) {sp : ETok} {n : String}
    (h : sp = .dollar n ∨ sp = .bare n) (rest : List ETok) (st : List Nat) :
    evalCfi x cfa (sp :: rest) st =
      match x.reg n with
      | some v => evalCfi x cfa rest (v :: st)
      | none => none := by
  rcases h with rfl | rfl <;> rfl

theorem walkCfi_canonS (x : CfiIn) (o : CfiOut) (init : String) (sptok : ETok) (bytes sp ret : Nat)
    (saved : List (String × Nat))
    (hspt : sptok = .dollar x.arch.spName ∨ sptok = .bare x.arch.spName)
    (htok : tokenize init = canonToksS x.arch sptok bytes saved)
    (hsp : x.reg x.arch.spName = some sp) (hmax : sp + bytes ≤ x.arch.regMax)
    (hp : x.arch.ptr ≤ sp + bytes)
    (hra : x.mem.read (sp + bytes - x.arch.ptr) x.arch.ptr = some ret)
    (hnd : (saved.map (·.1)).Nodup)
    (hsv : ∀ g ∈ saved, x.arch.canon g.1 = some g.1 ∧ g.1 ≠ x.arch.ipName ∧ g.1 ≠ x.arch.spName ∧
      (x.mem.read ((sp + bytes + g.2) % W64) x.arch.ptr).isSome = true) :
    walkCfi x o init [] = some (canonOut x.arch x.mem o (sp + bytes) ret saved) := by
  have h8 := ptr_le_eight x.arch
  have h0 := ptr_pos x.arch
  have hW := regMax_lt_W64 x.arch
  have hret := read_le_regMax hra
  have hcfa : (sp + bytes) % W64 = sp + bytes := by unfold W64; omega
  have hsub : (sp + bytes + (2 ^ 64 - x.arch.ptr)) % W64 = sp + bytes - x.arch.ptr := by unfold W64; omega
  have hnot : ¬ (sp + bytes > x.arch.regMax ∨ ret > x.arch.regMax) := by omega
  have hparse := parseRules_groups saved .ra [.deref, .add, .lit (2 ^ 64 - x.arch.ptr), .cfa]
    [(.cfa, [sptok, .lit bytes, .add])] (by simp) (by simp) hnd (by intro g _; simp)
  simp only [walkCfi, List.foldl_cons, List.foldl_nil, Option.bind_some, htok, canonToksS,
    List.cons_append, List.nil_append, parseRules, ruleSet,
    List.isEmpty_cons, List.reverse_cons, List.reverse_nil, hparse, Bool.false_eq_true, if_false]
  simp only [List.lookup_cons, List.cons_append, List.nil_append, beq_self_eq_true, CfiReg.ra_beq_cfa]
  simp only [evalCfi_spS x _ hspt, hsp]
  simp only [evalCfi, hcfa, hsub, CfiIn.deref_eq, hra, if_neg hnot]
  have hor := otherRules_groups [sptok, .lit bytes, .add] [.cfa, .lit (2 ^ 64 - x.arch.ptr), .add, .deref] saved
  simp only [List.cons_append, List.nil_append] at hor
  rw [hor, mergeSort_groups]
  show some (List.foldl (applyRule x (sp + bytes)) _ _) = _
  rw [foldl_saved']
  · rfl
  · intro g hg
    have hg' : g ∈ saved := (List.mem_mergeSort).mp hg
    exact hsv g hg'

/-- the leaf rule leaves `canonOut` without groups -/
theorem walkCfi_leafS (x : CfiIn) (o : CfiOut) (init : String) (sp lr : Nat)
    (hleaf : x.arch.leafOk = true) (htok : tokenize init = leafToks x.arch)
    (hsp : x.reg x.arch.spName = some sp) (hmax : sp ≤ x.arch.regMax)
    (hlr : x.reg (if x.arch.isMips then "ra" else "lr") = some lr) (hlmax : lr ≤ x.arch.regMax) :
    walkCfi x o init [] = some (canonOut x.arch x.mem o sp lr []) := by
  rw [walkCfi_leaf x o init sp lr hleaf htok hsp hmax hlr hlmax]
  simp [canonOut, byName]

theorem canonOut_valid {a : Arch} {mem : Mem} {o : CfiOut} {cfa ret : Nat} {saved : List (String × Nat)} (n : String) :
    n ∈ (canonOut a mem o cfa ret saved).valid ↔
      n ∈ o.valid ∨ n = a.spName ∨ n = a.ipName ∨ n ∈ saved.map (·.1) := by
  simp only [canonOut, mem_foldl_setInsert, mem_setInsert, byName]
  have hp : ∀ n, n ∈ (saved.mergeSort fun p q => strLe p.1 q.1).map (·.1) ↔ n ∈ saved.map (·.1) := by
    intro n
    simp only [List.mem_map, List.mem_mergeSort]
  rw [hp]
  constructor
  · rintro (((h | h) | h) | h)
    · exact Or.inl h
    · exact Or.inr (Or.inl h)
    · exact Or.inr (Or.inr (Or.inl h))
    · exact Or.inr (Or.inr (Or.inr h))
  · rintro (h | h | h | h)
    · exact Or.inl (Or.inl (Or.inl h))
    · exact Or.inl (Or.inl (Or.inr h))
    · exact Or.inl (Or.inr h)
    · exact Or.inr h

/-- a register other than ip / sp holds its slot word where a group saves it, the callee-side
    value otherwise -/
theorem canonOut_raw {a : Arch} {mem : Mem} {o : CfiOut} {cfa ret : Nat} {saved : List (String × Nat)}
    (hnd : (saved.map (·.1)).Nodup) {r : String} (hc : a.canon r = some r) (hip : r ≠ a.ipName)
    (hsp : r ≠ a.spName) :
    (canonOut a mem o cfa ret saved).ctx.raw a r =
      match saved.lookup r with
      | some lit => slotWord a mem cfa lit
      | none => o.ctx.raw a r := by
  have hperm : (byName saved).Perm saved := List.mergeSort_perm _ _
  have hnd' : ((byName saved).map (·.1)).Nodup :=
    (hperm.map (fun g : String × Nat => g.1)).nodup_iff.mpr hnd
  have hraw : ∀ c : Ctx, c.raw a r = assocGet c.rest r := by
    intro c; simp [Ctx.raw, hc, hip, hsp]
  rw [hraw, hraw]
  simp only [canonOut]
  cases hlk : saved.lookup r with
  | some lit =>
    have hm : (r, lit) ∈ byName saved := List.mem_mergeSort.mpr (lookup_some_mem hlk)
    exact assocGet_foldl_mem (slotWord a mem cfa) _ r lit _ hnd' hm
  | none =>
    have hm : r ∉ (byName saved).map (·.1) := by
      intro hin
      obtain ⟨g, hg, hgr⟩ := List.mem_map.mp hin
      exact lookup_none_not_mem hlk (List.mem_map.mpr ⟨g, List.mem_mergeSort.mp hg, hgr⟩)
    exact assocGet_foldl_not_mem (slotWord a mem cfa) _ r _ hm

/-! ### what `PreW`'s matcher accepts -/

theorem cfiGroups_eq_groupsOf : ∀ (toks : List RTok), cfiGroups toks = groupsOf toks := by
  intro toks
  induction toks using groupsOf.induct with
  | case1 => rfl
  | case2 r v rest ih => simp only [cfiGroups, groupsOf, ih]
  | case3 toks h1 h2 =>
    unfold cfiGroups groupsOf
    split
    · exact absurd rfl h1
    · exact absurd rfl (h2 _ _ _)
    · split
      · exact absurd rfl h1
      · exact absurd rfl (h2 _ _ _)
      · rfl

theorem matchCanonical_spec {a : Arch} {toks : List RTok} {bytes : Nat} {saved : List (String × Nat)}
    (h : matchCanonical a toks = some (bytes, saved)) :
    ∃ sp, (sp = .dollar a.spName ∨ sp = .bare a.spName) ∧ toks = canonToksS a sp bytes saved := by
  unfold matchCanonical at h
  split at h
  · rename_i sp n w rest
    split at h
    · rename_i hc
      simp only [Option.map_eq_some_iff, Prod.mk.injEq] at h
      obtain ⟨s, hs, rfl, rfl⟩ := h
      rw [cfiGroups_eq_groupsOf] at hs
      refine ⟨sp, hc.1, ?_⟩
      rw [hc.2, groupsOf_spec _ _ hs]
      rfl
    · cases h
  · cases h

theorem maskOf_eq_stripOf (a : Arch) (mask v : Nat) : maskOf a mask v = stripOf a mask v := by
  cases a <;> rfl

theorem ipName_canon (a : Arch) : a.canon a.ipName = some a.ipName := by cases a <;> decide

/-- a slot `OFF` bytes below the CFA is the word the group's expression reads -/
theorem slot_addr {a : Arch} {cfa bytes lit : Nat} (hcfa : cfa ≤ a.regMax) (hb : bytes ≤ cfa)
    (h1 : 2 ^ 64 - lit ≤ bytes) (h2 : 2 * a.ptr ≤ 2 ^ 64 - lit) :
    (cfa + lit) % W64 = cfa - (2 ^ 64 - lit) := by
  have hW := regMax_lt_W64 a
  have h0 := ptr_pos a
  unfold W64
  omega

/-! ### `linkCfiM` ⇒ the evaluation of the record -/

/-- **the `cfi` link of `PreW`, evaluated**: the record covering the lookup address has no delta
    lines and its rules leave `canonOut …` in the caller half (whatever that held before); the
    claims of the expected frame, in terms of slot words and forwarded registers. `c` = the callee's
    registers as the evaluator reads them. -/
theorem walkCfi_of_link {w : World} {a : Arch} {mask : Nat} {mem : Mem} {st : MState} {e : Exp}
    (hl : linkCfiM w a mask mem st e = true) {c : Ctx}
    (hsp : c.get a a.spName = some st.sp) (hemax : e.sp ≤ a.regMax)
    (hlr : st.first = true → a.leafOk = true → st.lr ≤ a.regMax →
      (c.get a (lrName a) = some st.lr ∨
        ∀ rec, cfiRecordAt w st.instr = some rec → tokenize rec.init ≠ leafToks a))
    (o : CfiOut) :
    ∃ rec ret0 saved, cfiRecordAt w st.instr = some rec ∧ rec.adds = [] ∧
      walkCfi { arch := a, callee := c, mem := mem } o rec.init [] = some (canonOut a mem o e.sp ret0 saved) ∧
      maskOf a mask ret0 = e.ret ∧ (saved.map (·.1)).Nodup ∧
      (∀ g ∈ saved, a.calleeSaved.contains g.1 = true ∧ g.1 ≠ a.spName) ∧
      (match saved.lookup a.fpName with
        | some lit => e.fp = some (maskOf a mask (slotWord a mem e.sp lit))
        | none => e.fp = st.fp.map (maskOf a mask)) ∧
      (∀ p ∈ e.regs, a.calleeSaved.contains p.1 = true ∧ p.1 ≠ a.spName ∧ p.1 ≠ a.fpName ∧
        (match saved.lookup p.1 with
          | some lit => slotWord a mem e.sp lit = p.2
          | none => st.regs.lookup p.1 = some p.2)) := by
  unfold linkCfiM at hl
  cases hrec : cfiRecordAt w st.instr with
  | none => rw [hrec] at hl; cases hl
  | some rec =>
    rw [hrec] at hl
    simp only [Bool.and_eq_true, List.isEmpty_iff, List.all_eq_true, bne_iff_ne, ne_eq] at hl
    obtain ⟨⟨hadds, hclaim⟩, hl⟩ := hl
    refine ⟨rec, ?_⟩
    by_cases hleaf : st.first = true ∧ a.leafOk = true ∧ tokenize rec.init = leafToks a
    · -- the leaf rule of the context frame
      rw [if_pos hleaf] at hl
      simp only [Bool.and_eq_true, decide_eq_true_eq, beq_iff_eq] at hl
      obtain ⟨⟨⟨⟨hesp, hlrmax⟩, heret⟩, hefp⟩, hregs⟩ := hl
      have hlrget : c.get a (lrName a) = some st.lr := by
        rcases hlr hleaf.1 hleaf.2.1 hlrmax with h | h
        · exact h
        · exact absurd hleaf.2.2 (h rec hrec)
      have hw2 := walkCfi_leafS { arch := a, callee := c, mem := mem } o rec.init st.sp st.lr hleaf.2.1
        hleaf.2.2 hsp (by show st.sp ≤ a.regMax; omega) hlrget hlrmax
      refine ⟨st.lr, [], rfl, hadds, ?_, heret, by simp, by simp, ?_, ?_⟩
      · rw [hesp]; exact hw2
      · simpa using hefp
      · intro p hp
        obtain ⟨⟨h1, h2⟩, h3⟩ := hclaim p hp
        refine ⟨h1, h2, h3, ?_⟩
        simp only [regsFrom, List.all_eq_true] at hregs
        have := hregs p hp
        simpa using this
    · rw [if_neg hleaf] at hl
      cases hmc : matchCanonical a (tokenize rec.init) with
      | none => rw [hmc] at hl; cases hl
      | some bs =>
        obtain ⟨bytes, saved⟩ := bs
        rw [hmc] at hl
        simp only [Bool.and_eq_true, decide_eq_true_eq, beq_iff_eq, List.all_eq_true, bne_iff_ne, ne_eq] at hl
        obtain ⟨⟨⟨⟨⟨⟨hesp, hpb⟩, hret⟩, hall⟩, hnd⟩, hfp⟩, hregs⟩ := hl
        obtain ⟨sptok, hspt, htoks⟩ := matchCanonical_spec hmc
        cases hrd : mem.read (e.sp - a.ptr) a.ptr with
        | none => rw [hrd] at hret; cases hret
        | some ret =>
          rw [hrd] at hret
          simp only [Option.map_some, Option.some.injEq] at hret
          have hsum : st.sp + bytes = e.sp := hesp.symm
          -- every group: callee-saved, not sp, slot readable at the address the expression computes
          have hgrp : ∀ g ∈ saved, a.calleeSaved.contains g.1 = true ∧ g.1 ≠ a.spName ∧
              (e.sp + g.2) % W64 = e.sp - (2 ^ 64 - g.2) ∧ (mem.read (e.sp - (2 ^ 64 - g.2)) a.ptr).isSome = true := by
            intro g hg
            obtain ⟨⟨⟨⟨h1, h2⟩, h3⟩, h4⟩, h5⟩ := hall g hg
            exact ⟨h1, h2, slot_addr hemax (by omega) h3 h4, h5⟩
          have hw2 := walkCfi_canonS { arch := a, callee := c, mem := mem } o rec.init sptok bytes st.sp ret saved
            hspt htoks hsp (by show st.sp + bytes ≤ a.regMax; omega) (by show a.ptr ≤ st.sp + bytes; omega)
            (by show mem.read (st.sp + bytes - a.ptr) a.ptr = some ret; rw [hsum]; exact hrd) hnd
            (by
              intro g hg
              obtain ⟨h1, h2, h3, h4⟩ := hgrp g hg
              obtain ⟨hc, hip⟩ := canon_calleeSaved h1
              refine ⟨hc, hip, h2, ?_⟩
              show (mem.read ((st.sp + bytes + g.2) % W64) a.ptr).isSome = true
              rw [hsum, h3]; exact h4)
          rw [hsum] at hw2
          -- a slot word, as `PreW` reads it
          have hslot : ∀ r lit, saved.lookup r = some lit →
              mem.read (e.sp - (2 ^ 64 - lit)) a.ptr = some (slotWord a mem e.sp lit) := by
            intro r lit hlk
            obtain ⟨_, _, h3, h4⟩ := hgrp (r, lit) (lookup_some_mem hlk)
            obtain ⟨v, hv⟩ := Option.isSome_iff_exists.mp h4
            simp only [slotWord, h3, hv, Option.getD_some]
          refine ⟨ret, saved, rfl, hadds, hw2, hret, hnd, fun g hg => ⟨(hgrp g hg).1, (hgrp g hg).2.1⟩, ?_, ?_⟩
          · cases hlk : saved.lookup a.fpName with
            | some lit =>
              simp only [hlk, Option.map_some, hslot _ _ hlk, Bool.and_eq_true, beq_iff_eq] at hfp
              exact hfp.1.symm
            | none =>
              simp only [hlk, Option.map_none, beq_iff_eq] at hfp
              exact hfp
          · intro p hp
            obtain ⟨⟨h1, h2⟩, h3⟩ := hclaim p hp
            refine ⟨h1, h2, h3, ?_⟩
            simp only [regsFrom, List.all_eq_true] at hregs
            have := hregs p hp
            simp only [if_neg h3] at this
            cases hlk : saved.lookup p.1 with
            | some lit =>
              simp only [hlk, Option.map_some, hslot _ _ hlk, beq_iff_eq, Option.some.injEq] at this
              exact this
            | none =>
              simp only [hlk, Option.map_none, beq_iff_eq] at this
              exact this

/-! ### `get_caller_by_cfi` around `walk_frame`, for any validity set -/

/-- a validity set holding only canonical names of callee-saved registers, sp and ip (what
    `callee_forwarded_regs` and the canonical rules produce) -/
def PlainValid (a : Arch) (V : List String) : Prop :=
  ∀ n ∈ V, a.calleeSaved.contains n = true ∨ n = a.spName ∨ n = a.ipName

theorem plainValid_canon {a : Arch} {V : List String} (h : PlainValid a V) : ∀ n ∈ V, a.canon n = some n := by
  intro n hn
  rcases h n hn with h | rfl | rfl
  · exact (canon_calleeSaved h).1
  · exact spName_canon a
  · exact ipName_canon a

theorem not_mem_of_plain {a : Arch} {V : List String} (hV : PlainValid a V) {n : String}
    (hn : a.calleeSaved.contains n = false ∧ n ≠ a.spName ∧ n ≠ a.ipName) : V.contains n = false := by
  cases hc : V.contains n with
  | false => rfl
  | true =>
    have hm : n ∈ V := by simpa using hc
    rcases hV n hm with h | h | h
    · rw [hn.1] at h; cases h
    · exact absurd h hn.2.1
    · exact absurd h hn.2.2

/-- in such a set a canonical register name is valid exactly when it is a member (no alias of it is) -/
theorem has_of_plain {a : Arch} {c : Ctx} {V : List String} (hv : c.valid = some V) (hV : PlainValid a V)
    {r : String} (hr : a.canon r = some r) : c.has a r = V.contains r := by
  unfold Ctx.has
  rw [hv]
  cases a
  case arm =>
    have e11 := not_mem_of_plain hV (n := "r11") (by decide)
    have e13 := not_mem_of_plain hV (n := "r13") (by decide)
    have e14 := not_mem_of_plain hV (n := "r14") (by decide)
    have e15 := not_mem_of_plain hV (n := "r15") (by decide)
    simp only [Arch.aliases]
    by_cases h1 : r = "r11" ∨ r = "fp"
    · rw [if_pos h1]
      rcases h1 with rfl | rfl
      · exact absurd hr (by decide)
      · simp [show "r11" ∉ V by simpa using e11]
    · rw [if_neg h1]
      by_cases h2 : r = "r13" ∨ r = "sp"
      · rw [if_pos h2]
        rcases h2 with rfl | rfl
        · exact absurd hr (by decide)
        · simp [show "r13" ∉ V by simpa using e13]
      · rw [if_neg h2]
        by_cases h3 : r = "r14" ∨ r = "lr"
        · rw [if_pos h3]
          rcases h3 with rfl | rfl
          · exact absurd hr (by decide)
          · simp [show "r14" ∉ V by simpa using e14]
        · rw [if_neg h3]
          by_cases h4 : r = "r15" ∨ r = "pc"
          · rw [if_pos h4]
            rcases h4 with rfl | rfl
            · exact absurd hr (by decide)
            · simp [show "r15" ∉ V by simpa using e15]
          · rw [if_neg h4]; simp
  case arm64 =>
    have e29 := not_mem_of_plain hV (n := "x29") (by decide)
    have e30 := not_mem_of_plain hV (n := "x30") (by decide)
    simp only [Arch.aliases]
    by_cases h1 : r = "x29" ∨ r = "fp"
    · rw [if_pos h1]
      rcases h1 with rfl | rfl
      · exact absurd hr (by decide)
      · simp [show "x29" ∉ V by simpa using e29]
    · rw [if_neg h1]
      by_cases h2 : r = "x30" ∨ r = "lr"
      · rw [if_pos h2]
        rcases h2 with rfl | rfl
        · exact absurd hr (by decide)
        · simp [show "x30" ∉ V by simpa using e30]
      · rw [if_neg h2]; simp
  case arm64old =>
    have e29 := not_mem_of_plain hV (n := "x29") (by decide)
    have e30 := not_mem_of_plain hV (n := "x30") (by decide)
    simp only [Arch.aliases]
    by_cases h1 : r = "x29" ∨ r = "fp"
    · rw [if_pos h1]
      rcases h1 with rfl | rfl
      · exact absurd hr (by decide)
      · simp [show "x29" ∉ V by simpa using e29]
    · rw [if_neg h1]
      by_cases h2 : r = "x30" ∨ r = "lr"
      · rw [if_pos h2]
        rcases h2 with rfl | rfl
        · exact absurd hr (by decide)
        · simp [show "x30" ∉ V by simpa using e30]
      · rw [if_neg h2]; simp
  all_goals simp [Arch.aliases]

/-- the stack-pointer validity test at the head of every `get_caller_by_cfi` -/
theorem spOk_of_has {a : Arch} {c : Ctx} : c.has a a.spName = true →
    (match a with
      | .x86 => c.hasLit "esp"
      | .amd64 => c.hasLit "rsp"
      | .arm => c.has a "r13"
      | _ => c.has a "sp") = true := by
  intro h
  unfold Ctx.has at h
  cases hv : c.valid with
  | none => cases a <;> simp [Ctx.has, Ctx.hasLit, hv, Arch.canon, Arch.registers]
  | some V =>
    rw [hv] at h
    cases a <;> simp [Ctx.has, Ctx.hasLit, hv, Arch.aliases, Arch.spName] at h ⊢ <;> exact h

/-- the caller context `get_caller_by_cfi` returns, read through `register_is_valid` and
    `get_register_always`: ip (ptr-auth stripped on ARM64), sp, the validity set as `walk_frame`
    left it, every other register as `walk_frame` left it — except a VALID frame pointer on
    ARM64, whose ptr-auth bits are stripped -/
structure CfiRes (a : Arch) (mask : Nat) (o : CfiOut) (c' : Ctx) : Prop where
  ip : c'.ip = stripOf a mask o.ctx.ip
  sp : c'.sp = o.ctx.sp
  m64 : c'.m64 = o.ctx.m64
  valid : c'.valid = some o.valid
  raw : ∀ r, a.canon r = some r → r ≠ a.ipName → r ≠ a.spName →
    c'.raw a r = if r = a.fpName ∧ o.valid.contains r = true then stripOf a mask (o.ctx.raw a r) else o.ctx.raw a r

theorem cfiOf_res {a : Arch} {w : World} {mask : Nat} {mem : Mem} {f : Frame} {g : Option Frame} {o : CfiOut}
    (heff : effArch a f.ctx = a) (hsp : f.ctx.has a a.spName = true)
    (hw : cfiWalk a w (modTable w.mods) (cfiTables w) mem f = some o) (hV : PlainValid a o.valid) :
    ∃ c', cfiOf a w (modTable w.mods) (cfiTables w) mask mem f g = some c' ∧ CfiRes a mask o c' := by
  have hspok := spOk_of_has hsp
  unfold cfiOf
  simp only [heff, hw]
  have hplain : ∀ (a : Arch), (a ≠ .arm64 ∧ a ≠ .arm64old) →
      CfiRes a mask o { o.ctx with valid := some o.valid } := by
    intro a ha
    refine ⟨?_, rfl, rfl, rfl, ?_⟩
    · cases a <;> simp_all [stripOf]
    · intro r _ _ _
      have : ∀ v, stripOf a mask v = v := by intro v; cases a <;> simp_all [stripOf]
      rw [this]; simp [Ctx.raw]
  have h64 : ∀ (a : Arch), (a = .arm64 ∨ a = .arm64old) → PlainValid a o.valid →
      ∃ c', (let r : Ctx := { o.ctx with valid := some o.valid }
             let r := { r with ip := r.ip &&& mask }
             let r := if r.has a "x30" then (r.set a "x30" (r.raw a "x30" &&& mask)).getD r else r
             let r := if r.has a "x29" then (r.set a "x29" (r.raw a "x29" &&& mask)).getD r else r
             some r) = some c' ∧ CfiRes a mask o c' := by
    intro a ha hV
    have e29 : "x29" ∉ o.valid := by
      have : o.valid.contains "x29" = false := by
        rcases ha with rfl | rfl <;> exact not_mem_of_plain hV (by decide)
      simpa using this
    have e30 : "x30" ∉ o.valid := by
      have : o.valid.contains "x30" = false := by
        rcases ha with rfl | rfl <;> exact not_mem_of_plain hV (by decide)
      simpa using this
    have elr : "lr" ∉ o.valid := by
      have : o.valid.contains "lr" = false := by
        rcases ha with rfl | rfl <;> exact not_mem_of_plain hV (by decide)
      simpa using this
    have hstrip : ∀ v, stripOf a mask v = v &&& mask := by
      intro v; rcases ha with rfl | rfl <;> rfl
    have hfpn : a.fpName = "fp" := fpName_arm64 ha
    have hx30 : ∀ (c : Ctx), c.valid = some o.valid → c.has a "x30" = false := by
      intro c hc
      rcases ha with rfl | rfl <;> simp [Ctx.has, hc, Arch.aliases, e30, elr]
    have hx29 : ∀ (c : Ctx), c.valid = some o.valid → c.has a "x29" = o.valid.contains "fp" := by
      intro c hc
      rcases ha with rfl | rfl <;> simp [Ctx.has, hc, Arch.aliases, e29]
    have hraw29 : ∀ (c : Ctx), c.raw a "x29" = assocGet c.rest "fp" := by
      intro c; rcases ha with rfl | rfl <;> rfl
    have hset29 : ∀ (c : Ctx) (v : Nat), c.set a "x29" v = some { c with rest := assocSet c.rest "fp" v } := by
      intro c v; rcases ha with rfl | rfl <;> rfl
    simp only [hx30, Bool.false_eq_true, if_false, hx29, hraw29, hset29, Option.getD_some]
    by_cases hfp : o.valid.contains "fp" = true
    · rw [if_pos hfp]
      refine ⟨_, rfl, ?_, rfl, rfl, rfl, ?_⟩
      · rw [hstrip]
      · intro r hc hip hsp'
        have hrr : ∀ c : Ctx, c.raw a r = assocGet c.rest r := by intro c; simp [Ctx.raw, hc, hip, hsp']
        rw [hrr, hrr, hfpn]
        by_cases hr : r = "fp"
        · subst hr
          simp only [hfp, and_self, if_true, hstrip]
          exact assocGet_assocSet_same _ _ _
        · simp only [hr, false_and, if_false]
          exact assocGet_assocSet_ne _ _ _ _ (Ne.symm hr)
    · rw [if_neg hfp]
      refine ⟨_, rfl, ?_, rfl, rfl, rfl, ?_⟩
      · rw [hstrip]
      · intro r hc hip hsp'
        have hrr : ∀ c : Ctx, c.raw a r = assocGet c.rest r := by intro c; simp [Ctx.raw, hc, hip, hsp']
        rw [hrr, hrr, hfpn]
        have hfp' : o.valid.contains "fp" = false := by simpa using hfp
        by_cases hr : r = "fp"
        · subst hr
          have : "fp" ∉ o.valid := by simpa using hfp'
          simp [this]
        · simp [hr]
  cases a
  all_goals dsimp only at hspok ⊢
  all_goals simp only [hspok, Bool.not_true, Bool.false_eq_true, if_false]
  case arm64 => exact h64 .arm64 (Or.inl rfl) hV
  case arm64old => exact h64 .arm64old (Or.inr rfl) hV
  all_goals exact ⟨_, rfl, hplain _ (by decide)⟩

end MdModel.Walk
