/-
  Helper lemmas for C05's last clause ("a frame's module and function, when present, cover its
  address"): soundness of the module lookup and of `fill_symbol` as the walker uses them, on top of
  C08's theorems about the range tables (`get_sound`, `getP_sound`, `mkRange_wf`).
-/
import MdProofs.C08
import MdProofs.Lemmas.Walk
namespace MdModel.Walk
open MdModel

theorem moduleAt_sound (mods : List Module) (a i : Nat) (h : moduleAt (modTable mods) a = some i) :
    ∃ m, mods[i]? = some m ∧ m.base ≤ a ∧ a < m.base + m.size := by
  unfold moduleAt modTable at h
  obtain ⟨r, hmem, hlo, hhi⟩ := RangeMap.get_sound _ a i h
  simp only [List.mem_map] at hmem
  obtain ⟨⟨m, j⟩, hz, heq⟩ := hmem
  simp only [Prod.mk.injEq] at heq
  obtain ⟨hr, hj⟩ := heq
  subst hj
  have hm : mods[j]? = some m := by
    have := List.mem_zipIdx_iff_getElem?.mp hz
    simpa using this
  obtain ⟨_, _, h3, h4⟩ := RangeMap.mkRange_wf hr
  exact ⟨m, hm, by omega, by omega⟩

theorem nearestPublic_spec (pubs : List PubRec) (addr : Nat) (p : PubRec)
    (h : nearestPublic pubs addr = some p) : p ∈ pubs ∧ p.addr ≤ addr := by
  unfold nearestPublic at h
  have key : ∀ (l : List PubRec) (best : Option PubRec),
      (∀ b, best = some b → b ∈ pubs ∧ b.addr ≤ addr) → (∀ x ∈ l, x ∈ pubs) →
      ∀ q, l.foldl (fun best p =>
        if p.addr ≤ addr then
          match best with
          | none => some p
          | some b => if pubLe b p then some p else some b
        else best) best = some q → q ∈ pubs ∧ q.addr ≤ addr := by
    intro l
    induction l with
    | nil => intro best hb _ q hq; exact hb q hq
    | cons x t ih =>
      intro best hb hl q hq
      simp only [List.foldl_cons] at hq
      refine ih _ ?_ (fun y hy => hl y (List.mem_cons_of_mem _ hy)) q hq
      intro b hbb
      split at hbb
      · rename_i hx
        cases best with
        | none => simp only at hbb; cases hbb; exact ⟨hl _ List.mem_cons_self, hx⟩
        | some b0 =>
          simp only at hbb
          split at hbb
          · cases hbb; exact ⟨hl _ List.mem_cons_self, hx⟩
          · cases hbb; exact hb _ rfl
      · exact hb b hbb
  exact key pubs none (fun b hb => by cases hb) (fun x hx => hx) p h

/-- what a function recorded on a frame guarantees, relative to the module's base -/
def FuncCovers (sf : SymFile) (modBase instr : Nat) (g : FuncInfo) : Prop :=
  modBase ≤ instr ∧ g.base ≤ instr ∧
  ((∃ f ∈ sf.funcs, g.name = f.name ∧ g.base = f.addr + modBase ∧ f.addr ≤ instr - modBase ∧
      instr - modBase < f.addr + f.size)
   ∨ (∃ p ∈ sf.pubs, g.name = p.name ∧ g.base = p.addr + modBase ∧ p.addr ≤ instr - modBase))

theorem fillSymbol_sound (sf : SymFile) (modBase instr : Nat) (g : FuncInfo)
    (h : fillSymbol sf (funcTable sf) modBase instr = some g) : FuncCovers sf modBase instr g := by
  unfold fillSymbol at h
  split at h
  · cases h
  · rename_i hge
    simp only at h
    split at h
    · rename_i i hget
      split at h
      · rename_i f hf
        cases h
        unfold funcTable at hget
        obtain ⟨r, hmem, hlo, hhi⟩ := RangeMap.getP_sound _ _ _ hget
        simp only [List.mem_filterMap, Option.map_eq_some_iff] at hmem
        obtain ⟨⟨f', j⟩, hz, r', hr, heq⟩ := hmem
        simp only [Prod.mk.injEq] at heq
        obtain ⟨hrr, hj⟩ := heq
        have hm : sf.funcs[j]? = some f' := by
          have := List.mem_zipIdx_iff_getElem?.mp hz
          simpa using this
        simp only at hr hj
        rw [← hj, hm] at hf
        injection hf with hf
        subst hf
        rw [hrr] at hr
        obtain ⟨_, _, h3, h4⟩ := RangeMap.mkRange_wf hr
        refine ⟨by omega, by simp only; omega, Or.inl ⟨f', List.mem_of_getElem? hm, rfl, rfl, by omega, by omega⟩⟩
      · cases h
    · split at h
      · cases h
      · rename_i p hp
        obtain ⟨hpm, hpa⟩ := nearestPublic_spec _ _ _ hp
        split at h
        · cases h
        · cases h
          refine ⟨by omega, by simp only; omega, Or.inr ⟨p, hpm, rfl, rfl, hpa⟩⟩

end MdModel.Walk
