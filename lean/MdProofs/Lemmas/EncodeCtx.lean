/-
  MdProofs.Lemmas.EncodeCtx — C02, contexts as register files: the record `encodeContext` writes is
  read back by `contextRead` (C01's model of `MinidumpContext::read`), and the register file the
  reader derives from it (`regState`) is the one that was written, cell by cell.
-/
import MdModel.EncodeCtx
import MdProofs.Lemmas.BytesRegs
import MdProofs.Lemmas.Encode
namespace MdModel.EncodeCtx
open MdModel MdModel.Dump MdModel.Encode MdModel.Gen.Layouts MdModel.Gen.LayoutsX

/-! ### records written from a function of the field name -/

theorem fits_map (g : String → Nat) : ∀ l : Layout, (∀ f ∈ l, g f.1 < 256 ^ f.2) → Fits l (l.map fun f => g f.1) := by
  intro l
  induction l with
  | nil => intro _; simp [Fits]
  | cons f rest ih =>
    intro h
    obtain ⟨n, w⟩ := f
    simp only [List.map_cons, Fits]
    exact ⟨h (n, w) List.mem_cons_self, ih (fun f hf => h f (List.mem_cons_of_mem _ hf))⟩

/-- a field read by NAME from a record whose values are a function of the field name -/
theorem getField_map (g : String → Nat) : ∀ (l : Layout) (name : String), l.any (fun f => f.1 == name) = true →
    getField? l (l.map fun f => g f.1) name = some (g name) := by
  intro l
  induction l with
  | nil => intro name h; simp at h
  | cons f rest ih =>
    intro name h
    obtain ⟨n, w⟩ := f
    unfold getField? fieldIdx
    rw [List.findIdx?_cons]
    by_cases hn : (n == name) = true
    · have : n = name := by simpa using hn
      subst this
      simp
    · have hn' : (n == name) = false := by simpa using hn
      simp only [List.any_cons, hn', Bool.false_or] at h
      have := ih name h
      unfold getField? fieldIdx at this
      simp only [hn', Bool.false_eq_true, ↓reduceIte]
      cases hi : List.findIdx? (fun f => f.1 == name) rest with
      | none => rw [hi] at this; cases this
      | some i =>
        rw [hi] at this
        simp only [Option.map_some, List.map_cons, List.getElem?_cons_succ]
        exact this

/-! ### what the generated tables must satisfy (decided exhaustively for the nine record types) -/

/-- the layout has a `context_flags` word of at least 4 bytes; every register cell of C18's tables is
    a scalar of the layout under its `showCell` spelling, is not the flags word, and is found under
    that spelling; every table name denotes one of those cells -/
def tablesOk (k : CtxKind) : Bool :=
  k.layout.any (fun f => f.1 == "context_flags") &&
  k.layout.all (fun f => f.1 != "context_flags" || decide (4 ≤ f.2)) &&
  (regCells k).all (fun cell =>
    Regs.showCell cell != "context_flags" && k.layout.any (fun f => f.1 == Regs.showCell cell) &&
      ((regCells k).find? (fun c => Regs.showCell c == Regs.showCell cell) == some cell)) &&
  (Regs.knownNames (regsCtxOf k)).all (fun n =>
    match Regs.getCell (regsCtxOf k) n with
    | some cell => (regCells k).contains cell
    | none => false)

set_option maxRecDepth 100000 in
theorem tables_ok (k : CtxKind) : tablesOk k = true := by
  cases k <;> decide +kernel

theorem has_flags (k : CtxKind) : k.layout.any (fun f => f.1 == "context_flags") = true := by
  have := tables_ok k
  simp only [tablesOk, Bool.and_eq_true] at this
  exact this.1.1.1

theorem flags_width (k : CtxKind) {f : String × Nat} (hf : f ∈ k.layout) (hn : f.1 = "context_flags") : 4 ≤ f.2 := by
  have := tables_ok k
  simp only [tablesOk, Bool.and_eq_true] at this
  have h := List.all_eq_true.mp this.1.1.2 f hf
  simpa [hn] using h

theorem cell_facts {k : CtxKind} {cell : Regs.Cell} (hc : cell ∈ regCells k) :
    Regs.showCell cell ≠ "context_flags" ∧ k.layout.any (fun f => f.1 == Regs.showCell cell) = true ∧
    (regCells k).find? (fun c => Regs.showCell c == Regs.showCell cell) = some cell := by
  have := tables_ok k
  simp only [tablesOk, Bool.and_eq_true] at this
  have h := List.all_eq_true.mp this.1.2 cell hc
  simp only [Bool.and_eq_true, bne_iff_ne, ne_eq, beq_iff_eq] at h
  exact ⟨h.1.1, h.1.2, h.2⟩

theorem known_cell {k : CtxKind} {n : String} {cell : Regs.Cell} (hn : n ∈ Regs.knownNames (regsCtxOf k))
    (hc : Regs.getCell (regsCtxOf k) n = some cell) : cell ∈ regCells k := by
  have := tables_ok k
  simp only [tablesOk, Bool.and_eq_true] at this
  have h := List.all_eq_true.mp this.2 n hn
  rw [hc] at h
  simpa using h

/-! ### the hypotheses of the round trip -/

/-- every register value fits the width of its cell in the record -/
def RegFileFits (k : CtxKind) (rf : Regs.State) : Prop :=
  ∀ cell ∈ regCells k, ∀ w, (Regs.showCell cell, w) ∈ k.layout → rf cell < 256 ^ w

/-- the flags word is a `u32` value and every raw part fits its field -/
def PartsFit (k : CtxKind) (flags : Nat) (other : String → Nat) : Prop :=
  flags < 2 ^ 32 ∧ ∀ f ∈ k.layout, other f.1 < 256 ^ f.2

theorem ctxVals_fits {k : CtxKind} {rf : Regs.State} {flags : Nat} {other : String → Nat}
    (hrf : RegFileFits k rf) (hp : PartsFit k flags other) : Fits k.layout (ctxVals k rf flags other) := by
  unfold ctxVals
  apply fits_map
  intro f hf
  unfold ctxScalar
  split
  · rename_i hn
    have h4 := flags_width k hf hn
    have : (256 : Nat) ^ 4 ≤ 256 ^ f.2 := Nat.pow_le_pow_right (by decide) h4
    have h2 : (2 : Nat) ^ 32 = 256 ^ 4 := by decide
    have := hp.1
    omega
  · split
    · rename_i c hfind
      have hmem := List.mem_of_find?_eq_some hfind
      have hsp := List.find?_some hfind
      have hsp' : Regs.showCell c = f.1 := by simpa using hsp
      exact hrf c hmem f.2 (by rw [hsp']; exact hf)
    · exact hp.2 f hf

/-! ### the record reads back -/

theorem ctxScalar_flags (k : CtxKind) (rf : Regs.State) (flags : Nat) (other : String → Nat) :
    ctxScalar k rf flags other "context_flags" = flags := by
  unfold ctxScalar; rw [if_pos rfl]

theorem ctxScalar_cell {k : CtxKind} (rf : Regs.State) (flags : Nat) (other : String → Nat) {cell : Regs.Cell}
    (hc : cell ∈ regCells k) : ctxScalar k rf flags other (Regs.showCell cell) = rf cell := by
  obtain ⟨h1, _, h3⟩ := cell_facts hc
  unfold ctxScalar
  rw [if_neg h1, h3]

/-- a register cell read by name from the written values is the register file's value -/
theorem getField_cell {k : CtxKind} (rf : Regs.State) (flags : Nat) (other : String → Nat) {cell : Regs.Cell}
    (hc : cell ∈ regCells k) :
    getField? k.layout (ctxVals k rf flags other) (Regs.showCell cell) = some (rf cell) := by
  unfold ctxVals
  rw [getField_map (ctxScalar k rf flags other) k.layout _ (cell_facts hc).2.1, ctxScalar_cell rf flags other hc]

/-- `MinidumpContext::read` accepts the record `encodeContext` writes (anything may follow it) and
    yields exactly the scalars that were written -/
theorem contextRead_encode {arch : Nat} {k : CtxKind} (hk : ctxKindOfArch arch = some k) (rf : Regs.State) (flags : Nat)
    (other : String → Nat) (e : Endian) (tail : List UInt8)
    (hfits : Fits k.layout (ctxVals k rf flags other)) (hfl : contextFlagsCpu flags = k.cpuFlag) :
    contextRead (encodeContext k rf flags other e ++ tail).toArray e arch = .ok ⟨k, ctxVals k rf flags other, flags⟩ := by
  unfold contextRead
  rw [hk]
  have hread : readFields k.layout (encodeContext k rf flags other e ++ tail).toArray 0 e = some (ctxVals k rf flags other) :=
    readFields_has hfits ⟨[], tail, by simp [encodeContext], rfl⟩
  have hflags : getField? k.layout (ctxVals k rf flags other) "context_flags" = some flags := by
    unfold ctxVals
    rw [getField_map (ctxScalar k rf flags other) k.layout _ (has_flags k), ctxScalar_flags]
  simp only [hread, hflags, hfl, ↓reduceIte]

/-- the register file of the read context is the register file that was written -/
theorem regState_encode {k : CtxKind} (rf : Regs.State) (flags : Nat) (other : String → Nat) {cell : Regs.Cell}
    (hc : cell ∈ regCells k) : regState ⟨k, ctxVals k rf flags other, flags⟩ cell = rf cell := by
  simp only [regState, getField_cell rf flags other hc, Option.getD_some]

/-! ### the dedicated accessors of `MdModel.DumpCtx` (`get_instruction_pointer`, `get_stack_pointer`) -/

/-- the scalar `Context.ip` reads, spelled as the model computes it -/
def ipLayoutName : CtxKind → String
  | .amd64 => "rip"
  | .arm => "iregs" ++ "[" ++ toString ArmRegisterNumbers_ProgramCounter ++ "]"
  | .arm64 | .arm64Old => "pc"
  | .ppc | .ppc64 => "srr0"
  | .sparc => "pc"
  | .x86 => "eip"
  | .mips => "epc"

def spLayoutName : CtxKind → String
  | .amd64 => "rsp"
  | .arm => "iregs" ++ "[" ++ toString ArmRegisterNumbers_StackPointer ++ "]"
  | .arm64 | .arm64Old => "sp"
  | .ppc => "gpr" ++ "[" ++ toString PpcRegisterNumbers_StackPointer ++ "]"
  | .ppc64 => "gpr" ++ "[" ++ toString Ppc64RegisterNumbers_StackPointer ++ "]"
  | .sparc => "g_r" ++ "[" ++ toString SparcRegisterNumbers_StackPointer ++ "]"
  | .x86 => "esp"
  | .mips => "iregs" ++ "[" ++ toString MipsRegisterNumbers_StackPointer ++ "]"

theorem ip_res (c : Context) (v : Nat) (h : getField? c.kind.layout c.vals (ipLayoutName c.kind) = some v) :
    c.ip.res = .ok v := by
  obtain ⟨k, vs, fl⟩ := c
  cases k <;> simp only [ipLayoutName] at h <;> simp only [Context.ip, fieldAtName, arrayAt, h] <;> rfl

theorem sp_res (c : Context) (v : Nat) (h : getField? c.kind.layout c.vals (spLayoutName c.kind) = some v) :
    c.sp.res = .ok v := by
  obtain ⟨k, vs, fl⟩ := c
  cases k <;> simp only [spLayoutName] at h <;> simp only [Context.sp, fieldAtName, arrayAt, h] <;> rfl

/-- the scalar the dedicated accessor reads is the cell C18's `instruction_pointer_register_name()` /
    `stack_pointer_register_name()` denotes -/
def accessorsOk (k : CtxKind) : Bool :=
  (match Regs.getCell (regsCtxOf k) (Gen.Regs.ipName (regsCtxOf k)) with
   | some cell => Regs.showCell cell == ipLayoutName k
   | none => false) &&
  (match Regs.getCell (regsCtxOf k) (Gen.Regs.spName (regsCtxOf k)) with
   | some cell => Regs.showCell cell == spLayoutName k
   | none => false)

set_option maxRecDepth 100000 in
theorem accessors_ok (k : CtxKind) : accessorsOk k = true := by
  cases k <;> decide +kernel

theorem ip_sp_names (k : CtxKind) :
    ∃ ci cs, Regs.getCell (regsCtxOf k) (Gen.Regs.ipName (regsCtxOf k)) = some ci ∧
      Regs.getCell (regsCtxOf k) (Gen.Regs.spName (regsCtxOf k)) = some cs ∧
      Regs.showCell ci = ipLayoutName k ∧ Regs.showCell cs = spLayoutName k := by
  have h := accessors_ok k
  simp only [accessorsOk, Bool.and_eq_true] at h
  obtain ⟨h1, h2⟩ := h
  split at h1
  · rename_i ci hci
    split at h2
    · rename_i cs hcs
      exact ⟨ci, cs, hci, hcs, by simpa using h1, by simpa using h2⟩
    · cases h2
  · cases h1

theorem ipName_known (c : Gen.Regs.Ctx) : Gen.Regs.ipName c ∈ Regs.knownNames c := by
  unfold Regs.knownNames; rw [Regs.mem_dedup]; simp

theorem spName_known (c : Gen.Regs.Ctx) : Gen.Regs.spName c ∈ Regs.knownNames c := by
  unfold Regs.knownNames; rw [Regs.mem_dedup]; simp

end MdModel.EncodeCtx
