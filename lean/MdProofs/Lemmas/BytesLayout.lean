/-
  MdProofs.Lemmas.BytesLayout — the positions the hand-written views (`RawModule.ofVals`,
  `Thread.ofVals`, `readException`, ...) read with `fld v i` are the fields they are meant to be, in
  the layouts regenerated from `minidump-common/src/format.rs` on every check
  (`translators/layouts.py`). A reordered, retyped, added or removed field in format.rs makes one of
  these `decide`d statements false, i.e. `lake build` fails before any case is run.
-/
import MdModel.Dump
namespace MdModel.Dump
open MdModel.Gen.Layouts

/-- name and width of the `i`-th scalar of a layout -/
def fieldAt (l : Layout) (i : Nat) : Option (String × Nat) := l[i]?

theorem header_layout :
    MINIDUMP_HEADER = [("signature", 4), ("version", 4), ("stream_count", 4), ("stream_directory_rva", 4),
      ("checksum", 4), ("time_date_stamp", 4), ("flags", 8)] := by decide

theorem directory_layout :
    MINIDUMP_DIRECTORY = [("stream_type", 4), ("location.data_size", 4), ("location.rva", 4)] := by decide

theorem location_layout : MINIDUMP_LOCATION_DESCRIPTOR = [("data_size", 4), ("rva", 4)] := by decide

theorem thread_layout :
    MINIDUMP_THREAD = [("thread_id", 4), ("suspend_count", 4), ("priority_class", 4), ("priority", 4), ("teb", 8),
      ("stack.start_of_memory_range", 8), ("stack.memory.data_size", 4), ("stack.memory.rva", 4),
      ("thread_context.data_size", 4), ("thread_context.rva", 4)] := by decide

theorem module_layout_used :
    fieldAt MINIDUMP_MODULE 0 = some ("base_of_image", 8) ∧ fieldAt MINIDUMP_MODULE 1 = some ("size_of_image", 4) ∧
    fieldAt MINIDUMP_MODULE 2 = some ("checksum", 4) ∧ fieldAt MINIDUMP_MODULE 3 = some ("time_date_stamp", 4) ∧
    fieldAt MINIDUMP_MODULE 4 = some ("module_name_rva", 4) ∧
    fieldAt MINIDUMP_MODULE 18 = some ("cv_record.data_size", 4) ∧ fieldAt MINIDUMP_MODULE 19 = some ("cv_record.rva", 4) ∧
    fieldAt MINIDUMP_MODULE 20 = some ("misc_record.data_size", 4) ∧ fieldAt MINIDUMP_MODULE 21 = some ("misc_record.rva", 4) ∧
    MINIDUMP_MODULE.length = 26 := by decide

theorem unloaded_module_layout :
    MINIDUMP_UNLOADED_MODULE = [("base_of_image", 8), ("size_of_image", 4), ("checksum", 4), ("time_date_stamp", 4),
      ("module_name_rva", 4)] := by decide

theorem memory_descriptor_layout :
    MINIDUMP_MEMORY_DESCRIPTOR = [("start_of_memory_range", 8), ("memory.data_size", 4), ("memory.rva", 4)] := by decide

theorem memory_descriptor64_layout :
    MINIDUMP_MEMORY_DESCRIPTOR64 = [("start_of_memory_range", 8), ("data_size", 8)] := by decide

theorem memory_info_layout :
    MINIDUMP_MEMORY_INFO = [("base_address", 8), ("allocation_base", 8), ("allocation_protection", 4), ("__alignment1", 4),
      ("region_size", 8), ("state", 4), ("protection", 4), ("_type", 4), ("__alignment2", 4)] := by decide

theorem thread_name_layout : MINIDUMP_THREAD_NAME = [("thread_id", 4), ("thread_name_rva", 8)] := by decide

theorem thread_info_layout_used :
    fieldAt MINIDUMP_THREAD_INFO 0 = some ("thread_id", 4) ∧ Layout.size MINIDUMP_THREAD_INFO = 64 := by decide

theorem object_info_layout :
    MINIDUMP_HANDLE_OBJECT_INFORMATION = [("next_info_rva", 4), ("info_type", 4), ("size_of_info", 4)] := by decide

theorem handle_descriptor_layout :
    MINIDUMP_HANDLE_DESCRIPTOR = [("handle", 8), ("type_name_rva", 4), ("object_name_rva", 4), ("attributes", 4),
      ("granted_access", 4), ("handle_count", 4), ("pointer_count", 4)] ∧
    MINIDUMP_HANDLE_DESCRIPTOR_2 = [("handle", 8), ("type_name_rva", 4), ("object_name_rva", 4), ("attributes", 4),
      ("granted_access", 4), ("handle_count", 4), ("pointer_count", 4), ("object_info_rva", 4), ("reserved0", 4)] := by decide

theorem exception_layout_used :
    fieldAt MINIDUMP_EXCEPTION_STREAM 0 = some ("thread_id", 4) ∧
    fieldAt MINIDUMP_EXCEPTION_STREAM 2 = some ("exception_record.exception_code", 4) ∧
    fieldAt MINIDUMP_EXCEPTION_STREAM 3 = some ("exception_record.exception_flags", 4) ∧
    fieldAt MINIDUMP_EXCEPTION_STREAM 4 = some ("exception_record.exception_record", 8) ∧
    fieldAt MINIDUMP_EXCEPTION_STREAM 5 = some ("exception_record.exception_address", 8) ∧
    fieldAt MINIDUMP_EXCEPTION_STREAM 6 = some ("exception_record.number_parameters", 4) ∧
    fieldAt MINIDUMP_EXCEPTION_STREAM 8 = some ("exception_record.exception_information[0]", 8) ∧
    fieldAt MINIDUMP_EXCEPTION_STREAM 22 = some ("exception_record.exception_information[14]", 8) ∧
    fieldAt MINIDUMP_EXCEPTION_STREAM 23 = some ("thread_context.data_size", 4) ∧
    fieldAt MINIDUMP_EXCEPTION_STREAM 24 = some ("thread_context.rva", 4) ∧
    MINIDUMP_EXCEPTION_STREAM.length = 25 := by decide

theorem guid_layout :
    GUID = [("data1", 4), ("data2", 2), ("data3", 2), ("data4[0]", 1), ("data4[1]", 1), ("data4[2]", 1), ("data4[3]", 1),
      ("data4[4]", 1), ("data4[5]", 1), ("data4[6]", 1), ("data4[7]", 1)] := by decide

theorem crashpad_layouts_used :
    fieldAt MINIDUMP_CRASHPAD_INFO 0 = some ("version", 4) ∧
    fieldAt MINIDUMP_CRASHPAD_INFO 23 = some ("simple_annotations.data_size", 4) ∧
    fieldAt MINIDUMP_CRASHPAD_INFO 24 = some ("simple_annotations.rva", 4) ∧
    fieldAt MINIDUMP_CRASHPAD_INFO 25 = some ("module_list.data_size", 4) ∧
    fieldAt MINIDUMP_CRASHPAD_INFO 26 = some ("module_list.rva", 4) ∧
    MINIDUMP_MODULE_CRASHPAD_INFO_LINK = [("minidump_module_list_index", 4), ("location.data_size", 4), ("location.rva", 4)] ∧
    MINIDUMP_MODULE_CRASHPAD_INFO = [("version", 4), ("list_annotations.data_size", 4), ("list_annotations.rva", 4),
      ("simple_annotations.data_size", 4), ("simple_annotations.rva", 4), ("annotation_objects.data_size", 4),
      ("annotation_objects.rva", 4)] ∧
    MINIDUMP_SIMPLE_STRING_DICTIONARY_ENTRY = [("key", 4), ("value", 4)] ∧
    MINIDUMP_ANNOTATION = [("name", 4), ("ty", 2), ("_reserved", 2), ("value", 4)] ∧
    ANNOTATION_TYPE_INVALID = 0 ∧ ANNOTATION_TYPE_STRING = 1 ∧ ANNOTATION_TYPE_USER_DEFINED = 0x8000 := by decide

theorem constants_as_documented :
    MINIDUMP_SIGNATURE = 0x504d444d ∧ MINIDUMP_VERSION = 0xa793 ∧ CV_SIGNATURE_PDB70 = 0x53445352 ∧
    CV_SIGNATURE_PDB20 = 0x3031424e ∧ CV_SIGNATURE_ELF = 0x4270454c ∧ OBJECT_INFO_TYPE_COUNT = 10 := by decide

end MdModel.Dump
