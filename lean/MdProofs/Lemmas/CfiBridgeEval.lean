/-
  Bridge C06 ↔ walker model, part 3: the expression evaluator.

  `MdModel.Walk.evalCfi` (classified tokens, `Nat` values reduced modulo 2^64 by hand) and
  `MdModel.Cfi.evalToks` (`UInt64`) are the same function of the token list, the register file,
  the memory and the CFA, once the environments are related (`EnvSim`) — for token lists of any
  length and any content.
-/
import MdProofs.Lemmas.CfiBridgeLex
import MdProofs.Lemmas.Cfi
namespace MdModel.CfiBridge
open MdModel

/-- **Simulation relation on what an expression can observe.** The walker model reads callee
    registers by name (`String`) and stack memory by address (`Nat`); the C06 model by UTF-8 name
    and `UInt64` address. Related = same answers, as numbers. (Hence every value the walker side
    can read is `< 2^64`.) -/
structure EnvSim (x : Walk.CfiIn) (env : Cfi.Env) : Prop where
  reg : ∀ n : String, x.reg n = (env.reg (utf8 n)).map UInt64.toNat
  deref : ∀ a : UInt64, x.deref a.toNat = (env.deref a).map UInt64.toNat

/-- literals are 64-bit values (true of every token the lexer produces: `classifyL_wf`) -/
def ETokWf : Walk.ETok → Prop
  | .lit v => v < 2 ^ 64
  | _ => True

theorem classifyL_wf (tok : List Char) : ETokWf (Walk.classifyL tok) := by
  unfold Walk.classifyL
  repeat' split
  all_goals first
    | trivial
    | (rename_i v h; exact parseI64L_lt tok v h)

/-! ## arithmetic -/

/-- the walker model's binary operators, by operator -/
def walkBin : Cfi.BinOp → Nat → Nat → Option Nat
  | .add, l, r => some ((l + r) % Walk.W64)
  | .sub, l, r => some ((l + Walk.W64 - r) % Walk.W64)
  | .mul, l, r => some ((l * r) % Walk.W64)
  | .div, l, r => if r = 0 then none else some (l / r)
  | .rem, l, r => if r = 0 then none else some (l % r)
  | .align, l, r => if Walk.isPow2 r then some (l - l % r) else none

/-- unfolding of the walker model's evaluator at a binary operator token -/
def BinStep (x : Walk.CfiIn) (cfa : Option Nat) (tok : Walk.ETok) (o : Cfi.BinOp) : Prop :=
  ∀ (rest : List Walk.ETok) (st : List Nat),
    Walk.evalCfi x cfa (tok :: rest) st =
      match st with
      | r :: l :: st' =>
        match walkBin o l r with
        | some v => Walk.evalCfi x cfa rest (v :: st')
        | none => none
      | _ => none

macro "bin_step" : tactic =>
  `(tactic| (intro rest st
             cases st with
             | nil => rw [Walk.evalCfi]
             | cons r st1 =>
               cases st1 with
               | nil => rw [Walk.evalCfi]
               | cons l st' =>
                 rw [Walk.evalCfi]
                 simp only [walkBin]
                 try (split <;> rename_i h <;> simp only [h])))

theorem binStep_add (x : Walk.CfiIn) (cfa : Option Nat) : BinStep x cfa .add .add := by bin_step
theorem binStep_sub (x : Walk.CfiIn) (cfa : Option Nat) : BinStep x cfa .sub .sub := by bin_step
theorem binStep_mul (x : Walk.CfiIn) (cfa : Option Nat) : BinStep x cfa .mul .mul := by bin_step
theorem binStep_div (x : Walk.CfiIn) (cfa : Option Nat) : BinStep x cfa .div .div := by bin_step
theorem binStep_rem (x : Walk.CfiIn) (cfa : Option Nat) : BinStep x cfa .rem .rem := by bin_step
theorem binStep_align (x : Walk.CfiIn) (cfa : Option Nat) : BinStep x cfa .align .align := by bin_step

theorem walk_isPow2_iff (r : UInt64) : Walk.isPow2 r.toNat = true ↔ ∃ k, k < 64 ∧ r.toNat = 2 ^ k := by
  have h : Walk.isPow2 r.toNat = true ↔ (r.toNat ≠ 0 ∧ r.toNat &&& (r.toNat - 1) = 0) := by
    simp [Walk.isPow2]
  rw [h, Nat.ne_zero_and_sub_one_eq_zero_iff_isPowerOfTwo]
  constructor
  · rintro ⟨k, hk⟩
    refine ⟨k, ?_, hk⟩
    have hlt := r.toNat_lt
    rw [hk] at hlt
    exact (Nat.pow_lt_pow_iff_right (by omega)).mp hlt
  · rintro ⟨k, _, hk⟩; exact ⟨k, hk⟩

theorem u64_toNat_ofNat_lt (n : Nat) (h : n < 2 ^ 64) : (UInt64.ofNat n).toNat = n := by
  simp [UInt64.toNat_ofNat', Nat.mod_eq_of_lt h]

/-- **64-bit wrapping arithmetic**: the walker model's `Nat`-with-`% 2^64` operators are the C06
    model's `UInt64` operators -/
theorem walkBin_eq (o : Cfi.BinOp) (l r : UInt64) :
    walkBin o l.toNat r.toNat = (Cfi.applyBin o l r).map UInt64.toNat := by
  have hl := l.toNat_lt
  have hr := r.toNat_lt
  cases o
  · simp only [walkBin, Cfi.applyBin, Option.map_some, UInt64.toNat_add, Walk.W64]
  · simp only [walkBin, Cfi.applyBin, Option.map_some, UInt64.toNat_sub, Walk.W64]
    congr 2; omega
  · simp only [walkBin, Cfi.applyBin, Option.map_some, UInt64.toNat_mul, Walk.W64]
  · have h0 : (r = 0) ↔ r.toNat = 0 := by rw [← UInt64.toNat_inj]; simp
    by_cases h : r = 0
    · simp [walkBin, Cfi.applyBin, h]
    · have h' : ¬ r.toNat = 0 := fun e => h (h0.mpr e)
      simp only [walkBin, Cfi.applyBin, h, h', if_false, Option.map_some, UInt64.toNat_div]
  · have h0 : (r = 0) ↔ r.toNat = 0 := by rw [← UInt64.toNat_inj]; simp
    by_cases h : r = 0
    · simp [walkBin, Cfi.applyBin, h]
    · have h' : ¬ r.toNat = 0 := fun e => h (h0.mpr e)
      simp only [walkBin, Cfi.applyBin, h, h', if_false, Option.map_some, UInt64.toNat_mod]
  · rw [Cfi.applyBin_eq_binSem]
    simp only [walkBin, Cfi.binSem]
    by_cases hp : ∃ k, k < 64 ∧ r.toNat = 2 ^ k
    · have := (walk_isPow2_iff r).mpr hp
      simp only [this, hp, if_true, Option.map_some]
      rw [u64_toNat_ofNat_lt _ (by omega)]
    · have : Walk.isPow2 r.toNat = false := by
        cases h : Walk.isPow2 r.toNat with
        | false => rfl
        | true => exact absurd ((walk_isPow2_iff r).mp h) hp
      simp [this, hp]

/-! ## the stack machine -/

theorem single_map (r : Option Cfi.Stack) :
    (Cfi.single r).map UInt64.toNat =
      match r.map (·.map UInt64.toNat) with
      | some [v] => some v
      | _ => none := by
  cases r with
  | none => rfl
  | some st =>
    match st with
    | [] => rfl
    | [_] => rfl
    | _ :: _ :: _ => rfl

/-- **`walk_cfi_eq_c06`, stack-machine form**: from related environments and equal stacks, for
    every token list (literals 64-bit) the two evaluators finish with the same answer. -/
theorem evalCfi_run (x : Walk.CfiIn) (env : Cfi.Env) (h : EnvSim x env) (cfa : Option UInt64)
    (ts : List Walk.ETok) (hwf : ∀ t ∈ ts, ETokWf t) (st : Cfi.Stack) :
    Walk.evalCfi x (cfa.map UInt64.toNat) ts (st.map UInt64.toNat) =
      (Cfi.single (Cfi.run env cfa (ts.map tokOf) st)).map UInt64.toNat := by
  induction ts generalizing st with
  | nil =>
    simp only [List.map_nil, Cfi.run, Walk.evalCfi]
    match st with
    | [] => rfl
    | [_] => rfl
    | _ :: _ :: _ => rfl
  | cons tok rest ih =>
    have hrest : ∀ t ∈ rest, ETokWf t := fun t ht => hwf t (List.mem_cons_of_mem _ ht)
    have bin : ∀ o : Cfi.BinOp, BinStep x (cfa.map UInt64.toNat) tok o → tokOf tok = .bin o →
        Walk.evalCfi x (cfa.map UInt64.toNat) (tok :: rest) (st.map UInt64.toNat) =
          (Cfi.single (Cfi.run env cfa ((tok :: rest).map tokOf) st)).map UInt64.toNat := by
      intro o hstep ho
      rw [hstep, List.map_cons, ho]
      simp only [Cfi.run, Cfi.step]
      match st with
      | [] => rfl
      | [_] => rfl
      | r :: l :: st' =>
        simp only [List.map_cons, walkBin_eq]
        cases Cfi.applyBin o l r with
        | none => rfl
        | some v => exact ih hrest (v :: st')
    cases tok with
    | add => exact bin .add (binStep_add x _) rfl
    | sub => exact bin .sub (binStep_sub x _) rfl
    | mul => exact bin .mul (binStep_mul x _) rfl
    | div => exact bin .div (binStep_div x _) rfl
    | rem => exact bin .rem (binStep_rem x _) rfl
    | align => exact bin .align (binStep_align x _) rfl
    | deref =>
      simp only [List.map_cons, tokOf, Cfi.run, Cfi.step, Walk.evalCfi]
      match st with
      | [] => rfl
      | p :: st' =>
        simp only [List.map_cons, h.deref p]
        cases env.deref p with
        | none => rfl
        | some v => exact ih hrest (v :: st')
    | cfa =>
      simp only [List.map_cons, tokOf, Cfi.run, Cfi.step, Walk.evalCfi]
      cases cfa with
      | none => rfl
      | some v => exact ih hrest (v :: st)
    | undef => rfl
    | dollar n =>
      simp only [List.map_cons, tokOf, Cfi.run, Cfi.step, Walk.evalCfi, h.reg n]
      cases env.reg (utf8 n) with
      | none => rfl
      | some v => exact ih hrest (v :: st)
    | bare n =>
      simp only [List.map_cons, tokOf, Cfi.run, Cfi.step, Walk.evalCfi, h.reg n]
      cases env.reg (utf8 n) with
      | none => rfl
      | some v => exact ih hrest (v :: st)
    | lit v =>
      have hv : v < 2 ^ 64 := hwf (.lit v) List.mem_cons_self
      simp only [List.map_cons, tokOf, Cfi.run, Cfi.step, Walk.evalCfi]
      have := ih hrest (UInt64.ofNat v :: st)
      simp only [List.map_cons, u64_toNat_ofNat_lt v hv] at this
      exact this

/-- **`walk_cfi_eq_c06`, classified-token form** -/
theorem evalCfi_toks (x : Walk.CfiIn) (env : Cfi.Env) (h : EnvSim x env) (cfa : Option UInt64)
    (ts : List Walk.ETok) (hwf : ∀ t ∈ ts, ETokWf t) :
    Walk.evalCfi x (cfa.map UInt64.toNat) ts [] =
      (Cfi.evalToks env cfa (ts.map tokOf)).map UInt64.toNat :=
  evalCfi_run x env h cfa ts hwf []

end MdModel.CfiBridge
