/-
  C12 helper lemmas: the wake-up invariant `InvW` (waiter lists, `Waiter::Woken` marks and the
  tasks' wake flags), preserved by every poll. `run = some t` exempts the task that is being polled
  from the wake-flag clauses (its flag was consumed by the executor).
-/
import MdProofs.Lemmas.OnceProgress
namespace MdModel.Once
open MdModel

/-! ## waiter list operations -/

theorem mem_deregister {ws : List (Nat × Bool)} {t : Nat} {e : Nat × Bool} :
    e ∈ deregister ws t ↔ e ∈ ws ∧ e.1 ≠ t := by
  simp [deregister]

theorem nodup_deregister {ws : List (Nat × Bool)} (t : Nat) (h : (ws.map Prod.fst).Nodup) :
    ((deregister ws t).map Prod.fst).Nodup :=
  List.Nodup.sublist (List.Sublist.map _ List.filter_sublist) h

theorem register_fst (ws : List (Nat × Bool)) (t : Nat) :
    (register ws t).map Prod.fst =
      if ws.any (fun e => e.1 == t) then ws.map Prod.fst else ws.map Prod.fst ++ [t] := by
  unfold register
  split
  · simp only [List.map_map]
    apply List.map_congr_left
    intro e _
    simp only [Function.comp]
    split <;> simp_all
  · simp

theorem nodup_register {ws : List (Nat × Bool)} (t : Nat) (h : (ws.map Prod.fst).Nodup) :
    ((register ws t).map Prod.fst).Nodup := by
  rw [register_fst]
  split
  · exact h
  · rename_i hn
    simp only [List.any_eq_true, beq_iff_eq, not_exists, not_and] at hn
    rw [List.nodup_append]
    refine ⟨h, by simp, ?_⟩
    intro a ha b hb
    simp only [List.mem_singleton] at hb
    subst hb
    simp only [List.mem_map] at ha
    obtain ⟨e, he, rfl⟩ := ha
    exact fun heq => hn e he heq

theorem mem_register {ws : List (Nat × Bool)} {t : Nat} {e : Nat × Bool} :
    e ∈ register ws t ↔ (e ∈ ws ∧ e.1 ≠ t) ∨ e = (t, false) := by
  unfold register
  split
  · rename_i hp
    simp only [List.any_eq_true, beq_iff_eq] at hp
    obtain ⟨e0, he0, h0⟩ := hp
    simp only [List.mem_map, beq_iff_eq]
    constructor
    · rintro ⟨a, ha, rfl⟩
      by_cases hat : a.1 = t
      · simp [hat]
      · simp [hat, ha]
    · rintro (⟨h1, h2⟩ | rfl)
      · exact ⟨e, h1, by simp [h2]⟩
      · exact ⟨e0, he0, by simp [h0]⟩
  · rename_i hn
    simp only [List.any_eq_true, beq_iff_eq, not_exists, not_and] at hn
    simp only [List.mem_append, List.mem_singleton]
    constructor
    · rintro (h | h)
      · exact Or.inl ⟨h, hn e h⟩
      · exact Or.inr h
    · rintro (⟨h, _⟩ | h)
      · exact Or.inl h
      · exact Or.inr h

/-- what `unlock` does -/
theorem unlock_cases (s : State) (k : Nat) :
    (∃ u ws, s.waiters k = (u, false) :: ws ∧
        unlock s k = setWoken (setWaiters s k ((u, true) :: ws)) u true) ∨
    ((∀ u ws, s.waiters k ≠ (u, false) :: ws) ∧ unlock s k = s) := by
  unfold unlock
  split
  · rename_i u ws h
    exact Or.inl ⟨u, ws, h, rfl⟩
  · rename_i hn
    exact Or.inr ⟨fun u ws h => hn u ws h, rfl⟩

/-! ## the wake-up invariant -/

structure InvW (run : Option Nat) (s : State) : Prop where
  /-- a task has an entry in the waiter list of `k` iff it is waiting for `k` -/
  wait_iff : ∀ k t, (∃ b, (t, b) ∈ s.waiters k) ↔ (s.task t).ctl = .waiting k
  wait_nodup : ∀ k, ((s.waiters k).map Prod.fst).Nodup
  /-- a free lock with waiters has woken its first waiter -/
  first_woken : ∀ k, (∀ t, s.slot k ≠ .held t) → ∀ u b ws, s.waiters k = (u, b) :: ws → b = true
  /-- an entry marked `Woken` means the task's wake flag is up -/
  entry_woken : ∀ k u, run ≠ some u → (u, true) ∈ s.waiters k → (s.task u).woken = true
  /-- tasks not yet polled and tasks inside the supplier have their wake flag up -/
  active_woken : ∀ u, run ≠ some u →
    ((s.task u).ctl = .ready ∨ ∃ k n, (s.task u).ctl = .inSup k n) → (s.task u).woken = true

theorem invW_init (cfg : Cfg) : InvW none (init cfg) := by
  constructor
  · intro k t
    simp only [init, List.not_mem_nil, exists_false, false_iff]
    split <;> simp
  · intro k; simp [init]
  · intro k _ u b ws h; simp [init] at h
  · intro k u _ h; simp [init] at h
  · intro u _ h
    simp only [init] at h ⊢
    split
    · rfl
    · rename_i hu; simp [hu] at h

theorem invW_start {s : State} (t : Nat) (h : InvW none s) : InvW (some t) (setWoken s t false) := by
  constructor
  · intro k u
    simp only [setWoken_waiters, setWoken_task, upd_apply]
    have := h.wait_iff k u
    grind
  · exact h.wait_nodup
  · exact h.first_woken
  · intro k u hu hm
    simp only [setWoken_waiters] at hm
    have := h.entry_woken k u (by simp) hm
    have hut : u ≠ t := fun e => hu (by rw [e])
    simp [upd_apply, hut, this]
  · intro u hu
    have hut : u ≠ t := fun e => hu (by rw [e])
    simp only [setWoken_task, upd_apply, hut, if_false]
    exact h.active_woken u (by simp)

/-- end of a poll: the polled task is not waiting, and is finished or has its flag up -/
theorem invW_stop {s : State} {t : Nat} (h : InvW (some t) s)
    (hnw : ∀ k, (s.task t).ctl ≠ .waiting k)
    (hw : (s.task t).ctl = .fin ∨ (s.task t).woken = true) : InvW none s := by
  constructor
  · exact h.wait_iff
  · exact h.wait_nodup
  · exact h.first_woken
  · intro k u _ hm
    by_cases hut : u = t
    · subst hut
      exact absurd ((h.wait_iff k u).mp ⟨true, hm⟩) (hnw k)
    · exact h.entry_woken k u (fun e => hut (Option.some.inj e).symm) hm
  · intro u _ hc
    by_cases hut : u = t
    · subst hut
      rcases hw with hf | hw
      · rcases hc with hc | ⟨k, n, hc⟩ <;> rw [hf] at hc <;> cases hc
      · exact hw
    · exact h.active_woken u (fun e => hut (Option.some.inj e).symm) hc

/-- a failed lock poll: the task (re-)registers and stops -/
theorem invW_block {s : State} (t k v : Nat) (r : List Nat) (h : InvW (some t) s)
    (hc : (s.task t).ctl = .ready ∨ (s.task t).ctl = .waiting k) (hslot : s.slot k = .held v) :
    InvW none (setCtl (setWaiters s k (register (s.waiters k) t)) t (.waiting k) r) := by
  constructor
  · intro k' u
    simp only [setCtl_waiters, setWaiters_waiters, setCtl_task, setWaiters_task, upd_apply]
    have := h.wait_iff k' u
    have hk := h.wait_iff k' t
    by_cases hkk : k' = k
    · subst hkk
      simp only [if_true, mem_register]
      by_cases hut : u = t
      · subst hut; simp
      · simp only [hut, if_false]
        rw [← this]
        constructor
        · rintro ⟨b, (⟨hm, _⟩ | he)⟩
          · exact ⟨b, hm⟩
          · cases he; exact absurd rfl hut
        · rintro ⟨b, hm⟩
          exact ⟨b, Or.inl ⟨hm, hut⟩⟩
    · simp only [hkk, if_false]
      by_cases hut : u = t
      · subst hut
        simp only [if_true]
        constructor
        · intro he
          have := hk.mp he
          rcases hc with hc | hc <;> rw [hc] at this <;> cases this
          exact absurd rfl hkk
        · intro he; cases he; exact absurd rfl hkk
      · simp only [hut, if_false]; exact this
  · intro k'
    simp only [setCtl_waiters, setWaiters_waiters, upd_apply]
    split
    · exact nodup_register t (h.wait_nodup k)
    · exact h.wait_nodup k'
  · intro k' hfree u b ws
    simp only [setCtl_waiters, setWaiters_waiters, setCtl_slot, setWaiters_slot, upd_apply] at hfree ⊢
    by_cases hkk : k' = k
    · subst hkk; exact absurd hslot (hfree v)
    · simp only [hkk, if_false]; exact h.first_woken k' hfree u b ws
  · intro k' u _
    simp only [setCtl_waiters, setWaiters_waiters, setCtl_task, setWaiters_task, upd_apply]
    intro hm
    by_cases hut : u = t
    · subst hut
      exfalso
      by_cases hkk : k' = k
      · subst hkk
        simp only [if_true, mem_register] at hm
        rcases hm with ⟨_, hne⟩ | he
        · exact hne rfl
        · cases he
      · simp only [hkk, if_false] at hm
        have := (h.wait_iff k' u).mp ⟨true, hm⟩
        rcases hc with hc | hc <;> rw [hc] at this <;> cases this
        exact hkk rfl
    · simp only [hut, if_false]
      apply h.entry_woken k' u (fun e => hut (Option.some.inj e).symm)
      by_cases hkk : k' = k
      · subst hkk
        simp only [if_true, mem_register] at hm
        rcases hm with ⟨hm, _⟩ | he
        · exact hm
        · cases he
      · simpa [hkk] using hm
  · intro u _
    simp only [setCtl_task, setWaiters_task, upd_apply]
    by_cases hut : u = t
    · subst hut; simp
    · simp only [hut, if_false]
      exact h.active_woken u (fun e => hut (Option.some.inj e).symm)

theorem invW_wake {run : Option Nat} {s : State} (u : Nat) (h : InvW run s) :
    InvW run (setWoken s u true) := by
  constructor
  · intro k t
    simp only [setWoken_waiters, setWoken_task, upd_apply]
    have := h.wait_iff k t
    grind
  · exact h.wait_nodup
  · exact h.first_woken
  · intro k t ht hm
    have := h.entry_woken k t ht hm
    simp only [setWoken_task, upd_apply]
    split <;> simp_all
  · intro t ht
    simp only [setWoken_task, upd_apply]
    have := h.active_woken t ht
    split <;> simp_all

/-- `unlock k` re-establishes "the first waiter of a free lock is woken" for `k` -/
theorem invW_unlock {run : Option Nat} {s : State} (k : Nat)
    (h1 : ∀ k t, (∃ b, (t, b) ∈ s.waiters k) ↔ (s.task t).ctl = .waiting k)
    (h2 : ∀ k, ((s.waiters k).map Prod.fst).Nodup)
    (h3 : ∀ k', k' ≠ k → (∀ t, s.slot k' ≠ .held t) → ∀ u b ws, s.waiters k' = (u, b) :: ws → b = true)
    (h4 : ∀ k u, run ≠ some u → (u, true) ∈ s.waiters k → (s.task u).woken = true)
    (h5 : ∀ u, run ≠ some u →
      ((s.task u).ctl = .ready ∨ ∃ k n, (s.task u).ctl = .inSup k n) → (s.task u).woken = true) :
    InvW run (unlock s k) := by
  rcases unlock_cases s k with ⟨u, ws, hw, he⟩ | ⟨hn, he⟩
  · rw [he]
    constructor
    · intro k' t
      simp only [setWoken_waiters, setWaiters_waiters, setWoken_task, setWaiters_task, upd_apply]
      have := h1 k' t
      by_cases hkk : k' = k
      · subst hkk
        rw [hw] at this
        simp only [if_true]
        have hctl : (if t = u then ({ ctl := (s.task u).ctl, rest := (s.task u).rest, woken := true } : Task)
            else s.task t).ctl = (s.task t).ctl := by split <;> simp_all
        rw [hctl, ← this]
        constructor
        · rintro ⟨b, hm⟩
          rcases List.mem_cons.mp hm with he | hm
          · cases he; exact ⟨false, List.mem_cons_self⟩
          · exact ⟨b, List.mem_cons_of_mem _ hm⟩
        · rintro ⟨b, hm⟩
          rcases List.mem_cons.mp hm with he | hm
          · cases he; exact ⟨true, List.mem_cons_self⟩
          · exact ⟨b, List.mem_cons_of_mem _ hm⟩
      · simp only [hkk, if_false]
        have hctl : (if t = u then ({ ctl := (s.task u).ctl, rest := (s.task u).rest, woken := true } : Task)
            else s.task t).ctl = (s.task t).ctl := by split <;> simp_all
        rw [hctl]; exact this
    · intro k'
      simp only [setWoken_waiters, setWaiters_waiters, upd_apply]
      have := h2 k'
      split
      · rename_i hkk; subst hkk; rw [hw] at this; simpa using this
      · exact this
    · intro k' hfree u' b ws'
      simp only [setWoken_waiters, setWaiters_waiters, setWoken_slot, setWaiters_slot, upd_apply] at hfree ⊢
      by_cases hkk : k' = k
      · simp only [hkk, if_true]
        intro h; cases h; rfl
      · simp only [hkk, if_false]
        exact h3 k' hkk hfree u' b ws'
    · intro k' u' hu'
      simp only [setWoken_waiters, setWaiters_waiters, setWoken_task, setWaiters_task, upd_apply]
      intro hm
      by_cases huu : u' = u
      · simp [huu]
      · simp only [huu, if_false]
        apply h4 k' u' hu'
        by_cases hkk : k' = k
        · subst hkk
          simp only [if_true] at hm
          rw [hw]
          rcases List.mem_cons.mp hm with he | hm
          · cases he; exact absurd rfl huu
          · exact List.mem_cons_of_mem _ hm
        · simpa [hkk] using hm
    · intro t ht
      simp only [setWoken_task, setWaiters_task, upd_apply]
      have := h5 t ht
      split <;> simp_all
  · rw [he]
    constructor
    · exact h1
    · exact h2
    · intro k' hfree u b ws hw
      by_cases hkk : k' = k
      · subst hkk
        cases b with
        | true => rfl
        | false => exact absurd hw (hn u ws)
      · exact h3 k' hkk hfree u b ws hw
    · exact h4
    · exact h5

/-- the lookup of a key whose outcome is remembered (lock taken and released within the poll) -/
theorem invW_hit {s : State} (t k : Nat) (r : List Nat) (e : Event) (h : InvW (some t) s)
    (hc : (s.task t).ctl = .ready ∨ (s.task t).ctl = .waiting k) :
    InvW (some t) (unlock (setCtl (emit (setWaiters s k (deregister (s.waiters k) t)) e) t .ready r) k) := by
  apply invW_unlock
  · intro k' u
    simp only [setCtl_waiters, emit_waiters, setWaiters_waiters, setCtl_task, emit_task,
      setWaiters_task, upd_apply]
    have := h.wait_iff k' u
    have hk := h.wait_iff k' t
    by_cases hkk : k' = k
    · subst hkk
      simp only [if_true, mem_deregister]
      by_cases hut : u = t
      · subst hut; simp
      · simp only [hut, if_false, ne_eq, not_false_eq_true, and_true]; exact this
    · simp only [hkk, if_false]
      by_cases hut : u = t
      · subst hut
        simp only [if_true]
        constructor
        · intro he
          have := hk.mp he
          rcases hc with hc | hc <;> rw [hc] at this <;> cases this
          exact absurd rfl hkk
        · intro he; cases he
      · simp only [hut, if_false]; exact this
  · intro k'
    simp only [setCtl_waiters, emit_waiters, setWaiters_waiters, upd_apply]
    split
    · exact nodup_deregister t (h.wait_nodup k)
    · exact h.wait_nodup k'
  · intro k' hkk hfree u b ws
    simp only [setCtl_waiters, emit_waiters, setWaiters_waiters, setCtl_slot, emit_slot,
      setWaiters_slot, upd_apply, hkk, if_false] at hfree ⊢
    exact h.first_woken k' hfree u b ws
  · intro k' u hu
    have hut : u ≠ t := fun e => hu (by rw [e])
    simp only [setCtl_waiters, emit_waiters, setWaiters_waiters, setCtl_task, emit_task,
      setWaiters_task, upd_apply, hut, if_false]
    intro hm
    apply h.entry_woken k' u hu
    by_cases hkk : k' = k
    · subst hkk
      simp only [if_true, mem_deregister] at hm
      exact hm.1
    · simpa [hkk] using hm
  · intro u hu
    have hut : u ≠ t := fun e => hu (by rw [e])
    simp only [setCtl_task, emit_task, setWaiters_task, upd_apply, hut, if_false]
    exact h.active_woken u hu

/-- the supplier call of `t` for `k` returns -/
theorem invW_complete {s : State} (cfg : Cfg) (t k n : Nat) (r : List Nat) (h : InvW (some t) s)
    (hc : (s.task t).ctl = .inSup k n) : InvW (some t) (complete cfg t k r s) := by
  unfold complete
  apply invW_unlock
  · intro k' u
    simp only [setCtl_waiters, emit_waiters, setSlot_waiters, setCtl_task, emit_task, setSlot_task,
      upd_apply]
    have := h.wait_iff k' u
    by_cases hut : u = t
    · subst hut
      simp only [if_true]
      rw [hc] at this
      constructor
      · intro he; exact absurd (this.mp he) (by simp)
      · intro he; cases he
    · simp only [hut, if_false]; exact this
  · exact h.wait_nodup
  · intro k' hkk hfree u b ws
    simp only [setCtl_waiters, emit_waiters, setSlot_waiters, setCtl_slot, emit_slot, setSlot_slot,
      upd_apply, hkk, if_false] at hfree ⊢
    exact h.first_woken k' hfree u b ws
  · intro k' u hu
    have hut : u ≠ t := fun e => hu (by rw [e])
    simp only [setCtl_waiters, emit_waiters, setSlot_waiters, setCtl_task, emit_task, setSlot_task,
      upd_apply, hut, if_false]
    exact h.entry_woken k' u hu
  · intro u hu
    have hut : u ≠ t := fun e => hu (by rw [e])
    simp only [setCtl_task, emit_task, setSlot_task, upd_apply, hut, if_false]
    exact h.active_woken u hu

/-- `t` takes the free lock of `k` and enters the supplier call -/
theorem invW_acquire {s : State} (t k n : Nat) (r : List Nat) (h : InvW (some t) s)
    (hc : (s.task t).ctl = .ready ∨ (s.task t).ctl = .waiting k) :
    InvW (some t) (setCtl (setSlot (emit { setWaiters s k (deregister (s.waiters k) t) with
      requested := (setWaiters s k (deregister (s.waiters k) t)).requested + 1 } (.call k)) k (.held t))
      t (.inSup k n) r) := by
  constructor
  · intro k' u
    simp only [setCtl_waiters, emit_waiters, setSlot_waiters, setWaiters_waiters, setCtl_task,
      emit_task, setSlot_task, setWaiters_task, upd_apply]
    have := h.wait_iff k' u
    have hk := h.wait_iff k' t
    by_cases hkk : k' = k
    · subst hkk
      simp only [if_true, mem_deregister]
      by_cases hut : u = t
      · subst hut; simp
      · simp only [hut, if_false, ne_eq, not_false_eq_true, and_true]; exact this
    · simp only [hkk, if_false]
      by_cases hut : u = t
      · subst hut
        simp only [if_true]
        constructor
        · intro he
          have := hk.mp he
          rcases hc with hc | hc <;> rw [hc] at this <;> cases this
          exact absurd rfl hkk
        · intro he; cases he
      · simp only [hut, if_false]; exact this
  · intro k'
    simp only [setCtl_waiters, emit_waiters, setSlot_waiters, setWaiters_waiters, upd_apply]
    split
    · exact nodup_deregister t (h.wait_nodup k)
    · exact h.wait_nodup k'
  · intro k' hfree u b ws
    simp only [setCtl_waiters, emit_waiters, setSlot_waiters, setWaiters_waiters, setCtl_slot,
      emit_slot, setSlot_slot, setWaiters_slot, upd_apply] at hfree ⊢
    by_cases hkk : k' = k
    · subst hkk; exact absurd (by simp) (hfree t)
    · simp only [hkk, if_false] at hfree ⊢
      exact h.first_woken k' hfree u b ws
  · intro k' u hu
    have hut : u ≠ t := fun e => hu (by rw [e])
    simp only [setCtl_waiters, emit_waiters, setSlot_waiters, setWaiters_waiters, setCtl_task,
      emit_task, setSlot_task, setWaiters_task, upd_apply, hut, if_false]
    intro hm
    apply h.entry_woken k' u hu
    by_cases hkk : k' = k
    · subst hkk
      simp only [if_true, mem_deregister] at hm
      exact hm.1
    · simpa [hkk] using hm
  · intro u hu
    have hut : u ≠ t := fun e => hu (by rw [e])
    simp only [setCtl_task, emit_task, setSlot_task, setWaiters_task, upd_apply, hut, if_false]
    exact h.active_woken u hu

theorem invW_lookup {s : State} (cfg : Cfg) (t k : Nat) (r : List Nat) (h : InvW (some t) s)
    (hc : (s.task t).ctl = .ready ∨ (s.task t).ctl = .waiting k) :
    ((lookup cfg t k r s).2 = true → InvW (some t) (lookup cfg t k r s).1) ∧
    ((lookup cfg t k r s).2 = false → InvW none (lookup cfg t k r s).1) := by
  unfold lookup
  split
  · rename_i v hslot
    exact ⟨by simp, fun _ => invW_block t k v r h hc hslot⟩
  · exact ⟨fun _ => invW_hit t k r _ h hc, by simp⟩
  · have hacq := fun n => invW_acquire t k n r h hc
    split
    · exact ⟨fun _ => invW_complete cfg t k 0 r (hacq 0) (by simp), by simp⟩
    · rename_i n _
      refine ⟨by simp, fun _ => ?_⟩
      apply invW_stop (invW_wake t (hacq n))
      · intro k'; simp
      · right; simp

theorem invW_fin {s : State} (t : Nat) (h : InvW (some t) s) (hc : (s.task t).ctl = .ready) :
    InvW none (setCtl s t .fin []) := by
  apply invW_stop (t := t)
  · constructor
    · intro k u
      simp only [setCtl_waiters, setCtl_task, upd_apply]
      have := h.wait_iff k u
      by_cases hut : u = t
      · subst hut
        simp only [if_true]
        rw [hc] at this
        constructor
        · intro he; exact absurd (this.mp he) (by simp)
        · intro he; cases he
      · simp only [hut, if_false]; exact this
    · exact h.wait_nodup
    · exact h.first_woken
    · intro k u hu
      have hut : u ≠ t := fun e => hu (by rw [e])
      simp only [setCtl_waiters, setCtl_task, upd_apply, hut, if_false]
      exact h.entry_woken k u hu
    · intro u hu
      have hut : u ≠ t := fun e => hu (by rw [e])
      simp only [setCtl_task, upd_apply, hut, if_false]
      exact h.active_woken u hu
  · intro k; simp
  · left; simp

theorem invW_runReady {s : State} (cfg : Cfg) (t : Nat) (ks : List Nat) (h : InvW (some t) s)
    (hc : (s.task t).ctl = .ready) : InvW none (runReady cfg t ks s) := by
  induction ks generalizing s with
  | nil => exact invW_fin t h hc
  | cons k r ih =>
    unfold runReady
    have hl := invW_lookup cfg t k r h (Or.inl hc)
    have hm := lookup_measure cfg t k r s
    split
    · rename_i s' heq
      rw [heq] at hl hm
      exact ih (hl.1 rfl) (hm.1 rfl).1
    · rename_i s' heq
      rw [heq] at hl
      exact hl.2 rfl

theorem invW_tick {s : State} (t k n : Nat) (h : InvW none s)
    (hc : (s.task t).ctl = .inSup k (n + 1)) :
    InvW none (setWoken (setCtl s t (.inSup k n) (s.task t).rest) t true) := by
  apply invW_wake
  constructor
  · intro k' u
    simp only [setCtl_waiters, setCtl_task, upd_apply]
    have := h.wait_iff k' u
    by_cases hut : u = t
    · subst hut
      simp only [if_true]
      rw [hc] at this
      constructor
      · intro he; exact absurd (this.mp he) (by simp)
      · intro he; cases he
    · simp only [hut, if_false]; exact this
  · exact h.wait_nodup
  · exact h.first_woken
  · intro k' u hu hm
    have := h.entry_woken k' u hu hm
    simp only [setCtl_task, upd_apply]
    split <;> simp_all
  · intro u hu
    simp only [setCtl_task, upd_apply]
    have := h.active_woken u hu
    have ht := h.active_woken t (by simp) (Or.inr ⟨k, n + 1, hc⟩)
    by_cases hut : u = t
    · subst hut; simp [ht]
    · simp only [hut, if_false]; exact this

theorem invW_poll {s : State} (cfg : Cfg) (t : Nat) (h : InvW none s) :
    InvW none (poll cfg t s) := by
  unfold poll
  simp only
  have hs := invW_start t h
  split
  · exact h
  · rename_i hc
    exact invW_runReady cfg t _ hs (by simp [hc])
  · rename_i k hc
    have hl := invW_lookup cfg t k (s.task t).rest hs (Or.inr (by simp [hc]))
    have hm := lookup_measure cfg t k (s.task t).rest (setWoken s t false)
    split
    · rename_i s' heq
      rw [heq] at hl hm
      exact invW_runReady cfg t _ (hl.1 rfl) (hm.1 rfl).1
    · rename_i s' heq
      rw [heq] at hl
      exact hl.2 rfl
  · rename_i k n hc
    exact invW_tick t k n h hc
  · rename_i k hc
    have hcomp := invW_complete cfg t k 0 (s.task t).rest hs (by simp [hc])
    exact invW_runReady cfg t _ hcomp (complete_task cfg t k (s.task t).rest _).1

theorem invW_exec {s : State} (cfg : Cfg) (sched : List Nat) (h : InvW none s) :
    InvW none (exec cfg sched s) := by
  induction sched generalizing s with
  | nil => exact h
  | cons t ts ih => exact ih (invW_poll cfg t h)

theorem invW_reach (cfg : Cfg) (sched : List Nat) : InvW none (exec cfg sched (init cfg)) :=
  invW_exec cfg sched (invW_init cfg)

/-- in a reachable non-final state some WOKEN unfinished task is not blocked -/
theorem exists_woken_unblocked {cfg : Cfg} {s : State} (hA : InvA cfg s) (hW : InvW none s)
    (hnf : allFin cfg s = false) :
    ∃ t, t < cfg.ntasks ∧ (s.task t).woken = true ∧ (s.task t).ctl ≠ .fin ∧ ¬ blocked s t := by
  have hlt : ∀ u, (s.task u).ctl ≠ .fin → u < cfg.ntasks := by
    intro u hu
    by_cases h : u < cfg.ntasks
    · exact h
    · exact absurd (hA.ghost u (by omega)) hu
  -- a task inside the supplier?
  by_cases hin : ∃ u k n, (s.task u).ctl = .inSup k n
  · obtain ⟨u, k, n, hu⟩ := hin
    refine ⟨u, hlt u (by simp [hu]), hW.active_woken u (by simp) (Or.inr ⟨k, n, hu⟩), by simp [hu], ?_⟩
    rintro ⟨k', v, hw, _⟩; rw [hu] at hw; cases hw
  · have hfree : ∀ k v, s.slot k ≠ .held v := by
      intro k v hs
      obtain ⟨n, hn⟩ := hA.held_insup k v hs
      exact hin ⟨v, k, n, hn⟩
    have hnb : ∀ u, ¬ blocked s u := by
      rintro u ⟨k, v, _, hs⟩; exact hfree k v hs
    -- a task not yet polled?
    by_cases hr : ∃ u, (s.task u).ctl = .ready
    · obtain ⟨u, hu⟩ := hr
      exact ⟨u, hlt u (by simp [hu]), hW.active_woken u (by simp) (Or.inl hu), by simp [hu], hnb u⟩
    · -- every unfinished task waits for a free lock: the first waiter of that lock is woken
      have : ∃ t, t < cfg.ntasks ∧ (s.task t).ctl ≠ .fin := by
        simp only [allFin, List.all_eq_false, List.mem_range, isFin, beq_iff_eq] at hnf
        exact hnf
      obtain ⟨t, _, hf⟩ := this
      have hwait : ∃ k, (s.task t).ctl = .waiting k := by
        cases hc : (s.task t).ctl with
        | ready => exact absurd ⟨t, hc⟩ hr
        | waiting k => exact ⟨k, rfl⟩
        | inSup k n => exact absurd ⟨t, k, n, hc⟩ hin
        | fin => exact absurd hc hf
      obtain ⟨k, hk⟩ := hwait
      obtain ⟨b, hb⟩ := (hW.wait_iff k t).mpr hk
      cases hws : s.waiters k with
      | nil => rw [hws] at hb; cases hb
      | cons e ws =>
        obtain ⟨u, b'⟩ := e
        have hb' : b' = true := hW.first_woken k (hfree k) u b' ws hws
        subst hb'
        have hmem : (u, true) ∈ s.waiters k := by rw [hws]; exact List.mem_cons_self
        have huw : (s.task u).ctl = .waiting k := (hW.wait_iff k u).mp ⟨true, hmem⟩
        exact ⟨u, hlt u (by simp [huw]), hW.entry_woken k u (by simp) hmem, by simp [huw], hnb u⟩

/-- rounds that poll only the tasks that are woken at the start of the round finish every task:
    a waker-respecting executor needs no more than `measure` rounds -/
theorem finishW_allFin {cfg : Cfg} (fuel : Nat) {s : State} (hA : InvA cfg s) (hW : InvW none s)
    (hfuel : measure cfg s ≤ fuel) : allFin cfg (finishW cfg fuel s) = true := by
  induction fuel generalizing s with
  | zero =>
    by_cases hfin : allFin cfg s = true
    · exact hfin
    · exfalso
      obtain ⟨t, ht, hf, hnb⟩ := exists_unblocked hA (by simpa using hfin)
      have := measure_poll_lt cfg t s ht hf hnb
      omega
  | succ f ih =>
    unfold finishW
    by_cases hfin : allFin cfg s = true
    · simp [hfin]
    · simp only [hfin]
      obtain ⟨t, ht, hw, hf, hnb⟩ := exists_woken_unblocked hA hW (by simpa using hfin)
      have hmem : t ∈ runnable cfg s := by
        simp only [runnable, List.mem_filter, List.mem_range, Bool.and_eq_true, Bool.not_eq_true',
          isFin, beq_eq_false_iff_ne]
        exact ⟨ht, hw, hf⟩
      have hne : (runnable cfg s).isEmpty = false := by
        cases hr : runnable cfg s with
        | nil => rw [hr] at hmem; cases hmem
        | cons a l => rfl
      simp only [hne]
      have hdec := exec_decreases (runnable cfg s) hA t ht hf hnb hmem
      apply ih (invA_exec cfg _ hA) (invW_exec cfg _ hW)
      omega

end MdModel.Once
