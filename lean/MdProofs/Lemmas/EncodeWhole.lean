/-
  MdProofs.Lemmas.EncodeWhole — layout/offset bookkeeping of the whole encoded file: stream sizes
  equal the formulas the encoder cites offsets with, every out-of-band group sits at its cited
  offset, the directory serves the core stream of each type (extras of the same type are overridden).
-/
import MdProofs.Lemmas.EncodeCrashpad
import MdProofs.Lemmas.BytesStreams
namespace MdModel.Encode
open MdModel MdModel.Dump MdModel.Gen.Layouts MdModel.Gen.LayoutsC02

/-! ## sizes -/

theorem listHeader_length (e : Endian) (pad : Bool) (n : Nat) : (listHeader e pad n).length = listHeaderSize pad := by
  cases pad <;> simp [listHeader, listHeaderSize]

theorem oobModules_length (e : Endian) (ms : List MModule) : (oobModules e ms).length = oobModulesSize ms := by
  induction ms with
  | nil => rfl
  | cons m ms ih => simp [oobModules, oobModulesSize, ih, oobModule_length]

theorem oobNames_length (e : Endian) (ns : List (List Nat)) : (oobNames e ns).length = oobNamesSize ns := by
  induction ns with
  | nil => rfl
  | cons n ns ih => simp [oobNames, oobNamesSize, ih, encString_length]

theorem streamsBytes_length (ss : List (Nat × List UInt8)) :
    (streamsBytes ss).length = sumSizes (ss.map fun x => (x.1, x.2.length)) := by
  induction ss with
  | nil => rfl
  | cons p rest ih => obtain ⟨t, bs⟩ := p; simp [streamsBytes, sumSizes, ih] at *

theorem encodeStreams_length (e : Endian) (flags : Nat) (ss : List (Nat × List UInt8)) :
    (encodeStreams e flags ss).length = 32 + 12 * ss.length + sumSizes (ss.map fun x => (x.1, x.2.length)) := by
  simp [encodeStreams, streamsBytes_length]; omega

theorem optList_map {α β γ : Type} (o : Option α) (g : α → β) (h : β → γ) :
    (optList o g).map h = optList o (fun a => h (g a)) := by
  cases o <;> rfl

theorem mem_optList {α β : Type} {o : Option α} {g : α → β} {b : β} :
    b ∈ optList o g ↔ ∃ a, o = some a ∧ g a = b := by
  cases o <;> simp [optList, eq_comm]

theorem optList_sublist_const {α β : Type} (o : Option α) (t : β) : List.Sublist (optList o (fun _ => t)) [t] := by
  cases o <;> simp [optList]

theorem encThreadList_length (e : Endian) (pad : Bool) (off : Nat) (ts : List MThread) :
    (encThreadList e pad off ts).length = listHeaderSize pad + 48 * ts.length := by
  have h48 : Layout.size MINIDUMP_THREAD = 48 := by decide
  simp [encThreadList, listHeader_length, threadRecs_length, h48]; omega

theorem encModuleList_length (e : Endian) (pad : Bool) (off : Nat) (ms : List MModule) :
    (encModuleList e pad off ms).length = listHeaderSize pad + 108 * ms.length := by
  have h108 : Layout.size MINIDUMP_MODULE = 108 := by decide
  simp [encModuleList, listHeader_length, moduleRecs_length, h108]; omega

theorem encMemoryList_length (e : Endian) (pad : Bool) (off : Nat) (rs : List MRegion) :
    (encMemoryList e pad off rs).length = listHeaderSize pad + 16 * rs.length := by
  have h16 : Layout.size MINIDUMP_MEMORY_DESCRIPTOR = 16 := by decide
  simp [encMemoryList, listHeader_length, memRecs_length, h16]; omega

theorem encMemory64List_length (e : Endian) (off : Nat) (rs : List MRegion) :
    (encMemory64List e off rs).length = 16 + 16 * rs.length := by
  have h16' : Layout.size MINIDUMP_MEMORY_DESCRIPTOR64 = 16 := by decide
  simp [encMemory64List, mem64Recs, h16']; omega

theorem encMemInfoList_length (e : Endian) (is : List MMemInfo) : (encMemInfoList e is).length = 12 + 48 * is.length := by
  have h48' : Layout.size MINIDUMP_MEMORY_INFO = 48 := by decide
  simp [encMemInfoList, exListHeader, h48']; omega

theorem encThreadNames_length (e : Endian) (pad : Bool) (off : Nat) (ns : List (Nat × List Nat)) :
    (encThreadNames e pad off ns).length = listHeaderSize pad + 12 * ns.length := by
  have h12 : Layout.size MINIDUMP_THREAD_NAME = 12 := by decide
  simp [encThreadNames, listHeader_length, nameRecs_length, h12]; omega

theorem encUnloadedList_length (e : Endian) (off : Nat) (us : List MUnloaded) :
    (encUnloadedList e off us).length = 12 + 24 * us.length := by
  have h24 : Layout.size MINIDUMP_UNLOADED_MODULE = 24 := by decide
  simp [encUnloadedList, exListHeader, unloadedRecs_length, h24]; omega

theorem encException_length (e : Endian) (off : Nat) (x : MException) : (encException e off x).length = 168 := by
  have h168 : Layout.size MINIDUMP_EXCEPTION_STREAM = 168 := by decide
  simp [encException, h168]

theorem encSysInfo_length (e : Endian) (off : Nat) (x : MSysInfo) : (encSysInfo e off x).length = 56 := by
  have h56 : Layout.size SYSTEM_INFO_LAYOUT = 56 := by decide
  simp [encSysInfo, h56]

theorem encMiscInfo_length (e : Endian) (x : MMiscInfo) : (encMiscInfo e x).length = miscInfoSize x := by
  simp [encMiscInfo, miscInfoSize]

theorem encCrashpad_length (e : Endian) (off : Nat) (x : MCrashpad) : (encCrashpad e off x).length = 52 := by
  simp only [encCrashpad, encFields_length]; decide

theorem encHandleData_length (e : Endian) (off : Nat) (x : MHandleData) : (encHandleData e off x).length = handleDataSize x := by
  simp [encHandleData, handleDataSize, handleRecs_length, handleLayout_size,
    show Layout.size MINIDUMP_HANDLE_DATA_STREAM = 16 by decide, Nat.mul_comm]

/-- the sizes the encoder computes offsets with are the sizes of the streams it writes -/
theorem coreStreams_sizes (m : DumpModel) (e : Endian) (f : MemForm) :
    (coreStreams m e f).map (fun x => (x.1, x.2.length)) = coreStreamSizes m f := by
  unfold coreStreams coreStreamSizes
  simp only [List.map_append, List.map_cons, List.map_nil, optList_map, encThreadList_length, encModuleList_length,
    encMemInfoList_length, encThreadNames_length, encUnloadedList_length, encException_length, encSysInfo_length,
    encMiscInfo_length, encHandleData_length, encCrashpad_length]
  cases f <;> simp only [encMemoryList_length, encMemory64List_length]

theorem allStreams_sizes (m : DumpModel) (e : Endian) (f : MemForm) :
    (allStreams m e f).map (fun x => (x.1, x.2.length)) = streamSizes m f := by
  simp [allStreams, streamSizes, coreStreams_sizes]

theorem allStreams_length (m : DumpModel) (e : Endian) (f : MemForm) :
    (allStreams m e f).length = (streamSizes m f).length := by
  rw [← allStreams_sizes m e f]; simp

theorem encodeStreams_all_length (m : DumpModel) (e : Endian) (f : MemForm) :
    (encodeStreams e m.flags (allStreams m e f)).length = oobStart m f := by
  rw [encodeStreams_length, allStreams_sizes, allStreams_length]; rfl

/-! ## the out-of-band groups sit where the streams cite them -/

theorem encodeList_eq (m : DumpModel) (e : Endian) (f : MemForm) :
    (encode m e f).toList = encodeStreams e m.flags (allStreams m e f) ++ oobAll m e f := by
  simp [encode, encodeList]

structure OobPlaced (b : Bytes) (m : DumpModel) (e : Endian) (f : MemForm) : Prop where
  threads : Has b.toList (oobOffsets m f).threads (oobThreads m.threads)
  modules : Has b.toList (oobOffsets m f).modules (oobModules e m.modules)
  memory : Has b.toList (oobOffsets m f).memory (oobMemory m.memory)
  names : Has b.toList (oobOffsets m f).names (oobNames e (m.threadNames.map (·.2)))
  unloaded : Has b.toList (oobOffsets m f).unloaded (oobNames e (m.unloaded.map (·.name)))
  exc : Has b.toList (oobOffsets m f).exc (excCtx m)
  csd : Has b.toList (oobOffsets m f).csd (csdString e m)
  handles : Has b.toList (oobOffsets m f).handles (handlesOob e (oobOffsets m f).handles m)
  crashpad : Has b.toList (oobOffsets m f).crashpad (crashpadOob e (oobOffsets m f).crashpad m)
  size : b.size = (oobOffsets m f).stop

theorem Has.at {l : List UInt8} {o o' : Nat} {c : List UInt8} (h : Has l o c) (ho : o = o') : Has l o' c := ho ▸ h

theorem csdString_length (e : Endian) (m : DumpModel) : (csdString e m).length = csdSize m := by
  unfold csdString csdSize; cases m.sysInfo <;> simp [encString_length]

theorem handlesOob_length (e : Endian) (off : Nat) (m : DumpModel) : (handlesOob e off m).length = handlesOobSize m := by
  unfold handlesOob handlesOobSize; cases m.handles <;> simp [oobHandles_length]

theorem crashpadOob_length (e : Endian) (off : Nat) (m : DumpModel) : (crashpadOob e off m).length = crashpadOobSize m := by
  unfold crashpadOob crashpadOobSize; cases m.crashpad <;> simp [crashpadOobOf_length]

/-- **offset bookkeeping for the out-of-band data** -/
theorem oob_placed (m : DumpModel) (e : Endian) (f : MemForm) : OobPlaced (encode m e f) m e f := by
  have h0 : Has (encode m e f).toList (oobStart m f) (oobAll m e f) :=
    ⟨encodeStreams e m.flags (allStreams m e f), [], by simp [encodeList_eq], encodeStreams_all_length m e f⟩
  unfold oobAll oobAllAt at h0
  have hI := h0.right
  have hH := h0.left.right
  have hG := h0.left.left.right
  have hF := h0.left.left.left.right
  have hE := h0.left.left.left.left.right
  have hD := h0.left.left.left.left.left.right
  have hC := h0.left.left.left.left.left.left.right
  have hB := h0.left.left.left.left.left.left.left.right
  have hA := h0.left.left.left.left.left.left.left.left
  simp only [List.length_append, oobThreads_length, oobModules_length, oobMemory_length, oobNames_length,
    csdString_length, handlesOob_length] at hB hC hD hE hF hG hH hI
  refine ⟨hA, hB, hC.at ?_, hD.at ?_, hE.at ?_, hF.at ?_, hG.at ?_, hH.at ?_, hI.at ?_, ?_⟩
  · simp only [oobOffsets]; omega
  · simp only [oobOffsets]; omega
  · simp only [oobOffsets]; omega
  · simp only [oobOffsets]; omega
  · simp only [oobOffsets]; omega
  · simp only [oobOffsets]; omega
  · simp only [oobOffsets]; omega
  · have := congrArg List.length (encodeList_eq m e f)
    simp only [Array.length_toList, List.length_append, encodeStreams_all_length, oobAll, oobAllAt, oobThreads_length,
      oobModules_length, oobMemory_length, oobNames_length, csdString_length, handlesOob_length, crashpadOob_length] at this
    rw [this]
    simp only [oobOffsets]
    omega

/-! ## which stream the directory serves -/

theorem lastOf_none_of_forall {α : Type} (ty : Nat) (xs : List (Nat × α)) (h : ∀ x ∈ xs, x.1 ≠ ty) :
    lastOf ty xs = none := by
  induction xs with
  | nil => rfl
  | cons p rest ih =>
    obtain ⟨t, a⟩ := p
    have h1 : t ≠ ty := h (t, a) (by simp)
    simp [lastOf, ih (fun x hx => h x (by simp [hx])), h1]

theorem dirFits_of_bound : ∀ (ss : List (Nat × List UInt8)) (off : Nat), (∀ x ∈ ss, x.1 < 2 ^ 32) →
    off + (streamsBytes ss).length < 2 ^ 32 → DirFits off ss := by
  intro ss
  induction ss with
  | nil => intro off _ _; trivial
  | cons p rest ih =>
    intro off h1 h2
    obtain ⟨t, bs⟩ := p
    simp only [streamsBytes, List.length_append] at h2
    refine ⟨h1 (t, bs) (by simp), by omega, by omega, ?_⟩
    exact ih _ (fun x hx => h1 x (by simp [hx])) (by omega)

/-- the stream types the encoder always emits after the extras -/
def coreTypes (m : DumpModel) (f : MemForm) : List Nat := (coreStreamSizes m f).map (·.1)

theorem coreStreams_types (m : DumpModel) (e : Endian) (f : MemForm) :
    (coreStreams m e f).map (·.1) = coreTypes m f := by
  have := congrArg (List.map (·.1)) (coreStreams_sizes m e f)
  simpa [coreTypes, List.map_map, Function.comp_def] using this

/-! ## well-formed models; `Minidump::read` on an encoded file -/

/-- A model the wire format can carry: every number fits its field, the file stays below 4 GiB
    (every RVA is a u32), names are Unicode scalar values, unloaded modules have a good image size, and the raw extra streams only use
    types the encoder emits again afterwards (so the real streams are the last of their type). -/
structure WellFormed (m : DumpModel) (f : MemForm) : Prop where
  flags : m.flags < 2 ^ 64
  size : (oobOffsets m f).stop < 2 ^ 32
  threads : ∀ t ∈ m.threads, ThreadFits t
  regions : ∀ r ∈ m.memory, RegionFits r
  memInfo : ∀ i ∈ m.memInfo, MemInfoFits i
  names : ∀ n ∈ m.threadNames, n.1 < 2 ^ 32 ∧ ValidName n.2
  unloaded : ∀ u ∈ m.unloaded, UnloadedFits u
  modules : ∀ x ∈ m.modules, ModuleFits x
  exception : ∀ x, m.exception = some x → ExcFits x
  sysInfo : ∀ x, m.sysInfo = some x → SysInfoFits x
  miscInfo : ∀ x, m.miscInfo = some x → MiscFits x
  handles : ∀ x, m.handles = some x → ∀ h ∈ x.handles, HandleFits h
  linuxMaps : ∀ x, m.linuxMaps = some x → ∀ en ∈ x, MapEntryFits en
  crashpad : ∀ x, m.crashpad = some x → CrashpadFits x
  extra : ∀ x ∈ m.extra, x.1 ∈ coreTypes m f

/-- the types of the six streams always present -/
def fixedTypes (f : MemForm) : List Nat :=
  [ST_THREAD_LIST, ST_MODULE_LIST, (match f with | .mem => ST_MEMORY_LIST | .mem64 => ST_MEMORY64_LIST),
   ST_MEMORY_INFO_LIST, ST_THREAD_NAMES, ST_UNLOADED_MODULE_LIST]

/-- every type the encoder can emit, in its order -/
def allTypes (f : MemForm) : List Nat :=
  fixedTypes f ++ [ST_EXCEPTION] ++ [ST_SYSTEM_INFO] ++ [ST_MISC_INFO] ++ [ST_HANDLE_DATA_STREAM] ++ [ST_LINUX_MAPS] ++
    [ST_CRASHPAD]

theorem coreTypes_eq (m : DumpModel) (f : MemForm) :
    coreTypes m f = fixedTypes f ++ optList m.exception (fun _ => ST_EXCEPTION) ++
      optList m.sysInfo (fun _ => ST_SYSTEM_INFO) ++ optList m.miscInfo (fun _ => ST_MISC_INFO) ++
      optList m.handles (fun _ => ST_HANDLE_DATA_STREAM) ++ optList m.linuxMaps (fun _ => ST_LINUX_MAPS) ++
      optList m.crashpad (fun _ => ST_CRASHPAD) := by
  unfold coreTypes coreStreamSizes fixedTypes
  simp only [List.map_append, List.map_cons, List.map_nil, optList_map]
  cases f <;> rfl

theorem coreTypes_sublist (m : DumpModel) (f : MemForm) : List.Sublist (coreTypes m f) (allTypes f) := by
  rw [coreTypes_eq]
  unfold allTypes
  exact ((((((List.Sublist.refl _).append (optList_sublist_const _ _)).append (optList_sublist_const _ _)).append
    (optList_sublist_const _ _)).append (optList_sublist_const _ _)).append (optList_sublist_const _ _)).append
    (optList_sublist_const _ _)

theorem allTypes_nodup (f : MemForm) : (allTypes f).Nodup := by cases f <;> decide

theorem coreTypes_nodup (m : DumpModel) (f : MemForm) : (coreTypes m f).Nodup :=
  (allTypes_nodup f).sublist (coreTypes_sublist m f)

theorem coreTypes_lt (m : DumpModel) (f : MemForm) : ∀ t ∈ coreTypes m f, t < 2 ^ 32 := by
  intro t ht
  have h := (coreTypes_sublist m f).subset ht
  have hall : ∀ t ∈ allTypes f, t < 2 ^ 32 := by cases f <;> decide
  exact hall t h

theorem oobStart_le_stop (m : DumpModel) (f : MemForm) : oobStart m f ≤ (oobOffsets m f).stop := by
  simp only [oobOffsets]; omega

theorem readDump_encode {m : DumpModel} {f : MemForm} (wf : WellFormed m f) (e : Endian) :
    readDump (encode m e f) =
      .ok ⟨e, encHeaderVal (allStreams m e f).length m.flags, dirMap (allStreams m e f), (allStreams m e f).length⟩ := by
  have hlen := encodeStreams_all_length m e f
  rw [encodeStreams_length] at hlen
  have hstop := oobStart_le_stop m f
  have hsz := wf.size
  have hsb := streamsBytes_length (allStreams m e f)
  apply readDump_enc e m.flags (allStreams m e f) (oobAll m e f) (encodeList_eq m e f) (by omega) wf.flags
  apply dirFits_of_bound
  · intro x hx
    simp only [allStreams, List.mem_append] at hx
    cases hx with
    | inl h => exact coreTypes_lt m f _ (wf.extra x h)
    | inr h =>
      apply coreTypes_lt m f
      rw [← coreStreams_types m e f]
      exact List.mem_map_of_mem h
  · omega

/-- the served stream of a type the encoder emits: the encoder's own stream, whatever the extras -/
theorem getRawStream_encode {m : DumpModel} {f : MemForm} (wf : WellFormed m f) (e : Endian) (ty : Nat)
    (bs : List UInt8) (hcore : lastOf ty (coreStreams m e f) = some bs) (d : Dump)
    (hd : d.streams = dirMap (allStreams m e f)) :
    getRawStream d (encode m e f) ty = .ok bs.toArray := by
  have hsz : (encode m e f).size < 2 ^ 32 := by rw [(oob_placed m e f).size]; exact wf.size
  rw [getRawStream_enc e m.flags (allStreams m e f) (oobAll m e f) (encodeList_eq m e f) hsz ty d hd]
  simp only [allStreams, lastOf_append, hcore]

/-- a type the encoder does not emit is not in the directory at all -/
theorem getRawStream_encode_none {m : DumpModel} {f : MemForm} (wf : WellFormed m f) (e : Endian) (ty : Nat)
    (hcore : ty ∉ coreTypes m f) (d : Dump) (hd : d.streams = dirMap (allStreams m e f)) :
    getRawStream d (encode m e f) ty = .error .StreamNotFound := by
  have hsz : (encode m e f).size < 2 ^ 32 := by rw [(oob_placed m e f).size]; exact wf.size
  rw [getRawStream_enc e m.flags (allStreams m e f) (oobAll m e f) (encodeList_eq m e f) hsz ty d hd]
  have h1 : lastOf ty (coreStreams m e f) = none := by
    apply lastOf_none_of_forall
    intro x hx heq
    apply hcore
    rw [← coreStreams_types m e f, ← heq]
    exact List.mem_map_of_mem hx
  have h2 : lastOf ty m.extra = none := by
    apply lastOf_none_of_forall
    intro x hx heq
    exact hcore (heq ▸ wf.extra x hx)
  simp only [allStreams, lastOf_append, h1, h2]

theorem streamRes_ok {α : Type} {d : Dump} {b : Bytes} {ty : Nat} {reader : Bytes → M α} {s : Bytes} {a : α}
    (h1 : getRawStream d b ty = .ok s) (h2 : (reader s).res = .ok a) : streamRes d b ty reader = .ok (.ok a) := by
  simp [streamRes, getStream, h1, M.catch', h2]

theorem streamRes_notFound {α : Type} {d : Dump} {b : Bytes} {ty : Nat} {reader : Bytes → M α}
    (h1 : getRawStream d b ty = .error .StreamNotFound) : streamRes d b ty reader = .ok (.error .StreamNotFound) := by
  simp [streamRes, getStream, h1]

/-! ## the core stream of each type -/

theorem lastOf_of_mem_nodup {α : Type} (ty : Nat) : ∀ (ss : List (Nat × α)) (a : α), (ty, a) ∈ ss →
    (ss.map (·.1)).Nodup → lastOf ty ss = some a := by
  intro ss
  induction ss with
  | nil => intro a h; simp at h
  | cons p rest ih =>
    intro a hmem hnd
    obtain ⟨t, x⟩ := p
    simp only [List.map_cons, List.nodup_cons] at hnd
    simp only [lastOf]
    simp only [List.mem_cons, Prod.mk.injEq] at hmem
    cases hmem with
    | inl h =>
      obtain ⟨h1, h2⟩ := h
      subst h1 h2
      have : lastOf ty rest = none := by
        apply lastOf_none_of_forall
        intro y hy heq
        exact hnd.1 (heq ▸ List.mem_map_of_mem hy)
      simp [this]
    | inr h =>
      rw [ih a h hnd.2]

/-- a stream the encoder emits is the last of its type among the core streams -/
theorem core_of_mem (m : DumpModel) (e : Endian) (f : MemForm) {ty : Nat} {bs : List UInt8}
    (h : (ty, bs) ∈ coreStreams m e f) : lastOf ty (coreStreams m e f) = some bs := by
  apply lastOf_of_mem_nodup ty _ bs h
  rw [coreStreams_types]
  exact coreTypes_nodup m f

section core
variable (m : DumpModel) (e : Endian) (f : MemForm)

theorem core_threads : lastOf ST_THREAD_LIST (coreStreams m e f) =
    some (encThreadList e m.pad (oobOffsets m f).threads m.threads) :=
  core_of_mem m e f (by simp [coreStreams])

theorem core_modules : lastOf ST_MODULE_LIST (coreStreams m e f) =
    some (encModuleList e m.pad (oobOffsets m f).modules m.modules) :=
  core_of_mem m e f (by simp [coreStreams])

theorem core_memInfo : lastOf ST_MEMORY_INFO_LIST (coreStreams m e f) = some (encMemInfoList e m.memInfo) :=
  core_of_mem m e f (by simp [coreStreams])

theorem core_memory : lastOf ST_MEMORY_LIST (coreStreams m e .mem) =
    some (encMemoryList e m.pad (oobOffsets m .mem).memory m.memory) :=
  core_of_mem m e .mem (by simp [coreStreams])

theorem core_memory64 : lastOf ST_MEMORY64_LIST (coreStreams m e .mem64) =
    some (encMemory64List e (oobOffsets m .mem64).memory m.memory) :=
  core_of_mem m e .mem64 (by simp [coreStreams])

theorem core_names : lastOf ST_THREAD_NAMES (coreStreams m e f) =
    some (encThreadNames e m.pad (oobOffsets m f).names m.threadNames) :=
  core_of_mem m e f (by simp [coreStreams])

theorem core_unloaded : lastOf ST_UNLOADED_MODULE_LIST (coreStreams m e f) =
    some (encUnloadedList e (oobOffsets m f).unloaded m.unloaded) :=
  core_of_mem m e f (by simp [coreStreams])

theorem core_exception {x : MException} (h : m.exception = some x) : lastOf ST_EXCEPTION (coreStreams m e f) =
    some (encException e (oobOffsets m f).exc x) :=
  core_of_mem m e f (by simp [coreStreams, optList, h])

theorem core_sysInfo {x : MSysInfo} (h : m.sysInfo = some x) : lastOf ST_SYSTEM_INFO (coreStreams m e f) =
    some (encSysInfo e (oobOffsets m f).csd x) :=
  core_of_mem m e f (by simp [coreStreams, optList, h])

theorem core_miscInfo {x : MMiscInfo} (h : m.miscInfo = some x) : lastOf ST_MISC_INFO (coreStreams m e f) =
    some (encMiscInfo e x) :=
  core_of_mem m e f (by simp [coreStreams, optList, h])

theorem core_handles {x : MHandleData} (h : m.handles = some x) : lastOf ST_HANDLE_DATA_STREAM (coreStreams m e f) =
    some (encHandleData e (oobOffsets m f).handles x) :=
  core_of_mem m e f (by simp [coreStreams, optList, h])

theorem core_linuxMaps {x : List MapEntry} (h : m.linuxMaps = some x) : lastOf ST_LINUX_MAPS (coreStreams m e f) =
    some (encLinuxMaps x) :=
  core_of_mem m e f (by simp [coreStreams, optList, h])

theorem core_crashpad {x : MCrashpad} (h : m.crashpad = some x) : lastOf ST_CRASHPAD (coreStreams m e f) =
    some (encCrashpad e (oobOffsets m f).crashpad x) :=
  core_of_mem m e f (by simp [coreStreams, optList, h])

/-- the optional streams: (present?, type) -/
def optTypes (m : DumpModel) : List (Bool × Nat) :=
  [(m.exception.isSome, ST_EXCEPTION), (m.sysInfo.isSome, ST_SYSTEM_INFO), (m.miscInfo.isSome, ST_MISC_INFO),
   (m.handles.isSome, ST_HANDLE_DATA_STREAM), (m.linuxMaps.isSome, ST_LINUX_MAPS), (m.crashpad.isSome, ST_CRASHPAD)]

theorem mem_optList_const {α : Type} {o : Option α} {t x : Nat} : x ∈ optList o (fun _ => t) ↔ (o.isSome = true ∧ x = t) := by
  cases o <;> simp [optList]

theorem mem_coreTypes {t : Nat} : t ∈ coreTypes m f ↔ t ∈ fixedTypes f ∨ (true, t) ∈ optTypes m := by
  rw [coreTypes_eq]
  simp only [List.mem_append, mem_optList_const, optTypes, List.mem_cons, Prod.mk.injEq, List.not_mem_nil, or_false,
    or_assoc]
  constructor
  · rintro (h | ⟨h1, h2⟩ | ⟨h1, h2⟩ | ⟨h1, h2⟩ | ⟨h1, h2⟩ | ⟨h1, h2⟩ | ⟨h1, h2⟩)
    · exact .inl h
    · exact .inr (.inl ⟨h1.symm, h2⟩)
    · exact .inr (.inr (.inl ⟨h1.symm, h2⟩))
    · exact .inr (.inr (.inr (.inl ⟨h1.symm, h2⟩)))
    · exact .inr (.inr (.inr (.inr (.inl ⟨h1.symm, h2⟩))))
    · exact .inr (.inr (.inr (.inr (.inr (.inl ⟨h1.symm, h2⟩)))))
    · exact .inr (.inr (.inr (.inr (.inr (.inr ⟨h1.symm, h2⟩)))))
  · rintro (h | ⟨h1, h2⟩ | ⟨h1, h2⟩ | ⟨h1, h2⟩ | ⟨h1, h2⟩ | ⟨h1, h2⟩ | ⟨h1, h2⟩)
    · exact .inl h
    · exact .inr (.inl ⟨h1.symm, h2⟩)
    · exact .inr (.inr (.inl ⟨h1.symm, h2⟩))
    · exact .inr (.inr (.inr (.inl ⟨h1.symm, h2⟩)))
    · exact .inr (.inr (.inr (.inr (.inl ⟨h1.symm, h2⟩))))
    · exact .inr (.inr (.inr (.inr (.inr (.inl ⟨h1.symm, h2⟩)))))
    · exact .inr (.inr (.inr (.inr (.inr (.inr ⟨h1.symm, h2⟩)))))

theorem no_memory64_in_mem : ST_MEMORY64_LIST ∉ coreTypes m .mem := by
  intro h
  exact absurd ((coreTypes_sublist m .mem).subset h) (by decide)

theorem no_memory_in_mem64 : ST_MEMORY_LIST ∉ coreTypes m .mem64 := by
  intro h
  exact absurd ((coreTypes_sublist m .mem64).subset h) (by decide)

theorem no_exception (h : m.exception = none) : ST_EXCEPTION ∉ coreTypes m f := by
  rw [mem_coreTypes]
  rintro (h0 | h1)
  · cases f <;> exact absurd h0 (by decide)
  · simp [optTypes, h, ST_EXCEPTION, ST_SYSTEM_INFO, ST_SystemInfoStream, ST_MISC_INFO, ST_MiscInfoStream,
      ST_HANDLE_DATA_STREAM, ST_HandleDataStream, ST_LINUX_MAPS, ST_LinuxMaps, ST_CRASHPAD,
      ST_CrashpadInfoStream] at h1

theorem no_sysInfo (h : m.sysInfo = none) : ST_SYSTEM_INFO ∉ coreTypes m f := by
  rw [mem_coreTypes]
  rintro (h0 | h1)
  · cases f <;> exact absurd h0 (by decide)
  · simp [optTypes, h, ST_EXCEPTION, ST_SYSTEM_INFO, ST_SystemInfoStream, ST_MISC_INFO, ST_MiscInfoStream,
      ST_HANDLE_DATA_STREAM, ST_HandleDataStream, ST_LINUX_MAPS, ST_LinuxMaps, ST_CRASHPAD,
      ST_CrashpadInfoStream] at h1

theorem no_miscInfo (h : m.miscInfo = none) : ST_MISC_INFO ∉ coreTypes m f := by
  rw [mem_coreTypes]
  rintro (h0 | h1)
  · cases f <;> exact absurd h0 (by decide)
  · simp [optTypes, h, ST_EXCEPTION, ST_SYSTEM_INFO, ST_SystemInfoStream, ST_MISC_INFO, ST_MiscInfoStream,
      ST_HANDLE_DATA_STREAM, ST_HandleDataStream, ST_LINUX_MAPS, ST_LinuxMaps, ST_CRASHPAD,
      ST_CrashpadInfoStream] at h1

theorem no_handles (h : m.handles = none) : ST_HANDLE_DATA_STREAM ∉ coreTypes m f := by
  rw [mem_coreTypes]
  rintro (h0 | h1)
  · cases f <;> exact absurd h0 (by decide)
  · simp [optTypes, h, ST_EXCEPTION, ST_SYSTEM_INFO, ST_SystemInfoStream, ST_MISC_INFO, ST_MiscInfoStream,
      ST_HANDLE_DATA_STREAM, ST_HandleDataStream, ST_LINUX_MAPS, ST_LinuxMaps, ST_CRASHPAD,
      ST_CrashpadInfoStream] at h1

theorem no_linuxMaps (h : m.linuxMaps = none) : ST_LINUX_MAPS ∉ coreTypes m f := by
  rw [mem_coreTypes]
  rintro (h0 | h1)
  · cases f <;> exact absurd h0 (by decide)
  · simp [optTypes, h, ST_EXCEPTION, ST_SYSTEM_INFO, ST_SystemInfoStream, ST_MISC_INFO, ST_MiscInfoStream,
      ST_HANDLE_DATA_STREAM, ST_HandleDataStream, ST_LINUX_MAPS, ST_LinuxMaps, ST_CRASHPAD,
      ST_CrashpadInfoStream] at h1

theorem no_crashpad (h : m.crashpad = none) : ST_CRASHPAD ∉ coreTypes m f := by
  rw [mem_coreTypes]
  rintro (h0 | h1)
  · cases f <;> exact absurd h0 (by decide)
  · simp [optTypes, h, ST_EXCEPTION, ST_SYSTEM_INFO, ST_SystemInfoStream, ST_MISC_INFO, ST_MiscInfoStream,
      ST_HANDLE_DATA_STREAM, ST_HandleDataStream, ST_LINUX_MAPS, ST_LinuxMaps, ST_CRASHPAD,
      ST_CrashpadInfoStream] at h1

end core

theorem lastOf_length_le {ty : Nat} : ∀ {ss : List (Nat × List UInt8)} {bs : List UInt8}, lastOf ty ss = some bs →
    bs.length ≤ (streamsBytes ss).length := by
  intro ss
  induction ss with
  | nil => intro bs h; simp [lastOf] at h
  | cons p rest ih =>
    intro bs h
    obtain ⟨t, a⟩ := p
    simp only [lastOf] at h
    simp only [streamsBytes, List.length_append]
    cases hl : lastOf ty rest with
    | some x => rw [hl] at h; cases h; have := ih hl; omega
    | none =>
      rw [hl] at h
      by_cases ht : t = ty
      · simp only [ht, if_true] at h
        cases h; omega
      · simp [ht] at h

/-- a core stream is smaller than the file -/
theorem core_stream_small {m : DumpModel} {f : MemForm} (wf : WellFormed m f) (e : Endian) {ty : Nat} {bs : List UInt8}
    (h : lastOf ty (coreStreams m e f) = some bs) : bs.length < 2 ^ 32 ∧ bs.length ≤ (encode m e f).size := by
  have h1 := lastOf_length_le h
  have h2 : (streamsBytes (coreStreams m e f)).length ≤ (streamsBytes (allStreams m e f)).length := by
    have : ∀ (xs ys : List (Nat × List UInt8)), (streamsBytes (xs ++ ys)).length = (streamsBytes xs).length + (streamsBytes ys).length := by
      intro xs ys
      induction xs with
      | nil => simp [streamsBytes]
      | cons p rest ih => obtain ⟨t, a⟩ := p; simp [streamsBytes, ih]; omega
    rw [allStreams, this]; omega
  have h3 := encodeStreams_all_length m e f
  rw [encodeStreams_length, ← streamsBytes_length] at h3
  have h4 := oobStart_le_stop m f
  have h5 := wf.size
  have h6 := (oob_placed m e f).size
  omega

/-- every covered reader returns a value or an error (C01), so `get_stream` is total -/
theorem streamRes_total {α : Type} {B : Nat} (d : Dump) (b : Bytes) (ty : Nat) (reader : Bytes → M α)
    (h : ∀ s, s.size ≤ b.size → Safe B (reader s)) : ∃ x, streamRes d b ty reader = .ok x := by
  have h1 := (getStream_safe d b ty reader h).1
  have h2 := getStream_noErr d b ty reader
  unfold streamRes
  cases hres : (getStream d b ty reader).res with
  | ok x => exact ⟨x, rfl⟩
  | err er => exact absurd hres (h2 er)
  | panic s => exact absurd hres (h1 s)

end MdModel.Encode
