/-
  MdProofs.Lemmas.BytesRegs — the registers of a context read from bytes (MdModel.DumpRegs): every
  cell C18's tables name exists in the generated layout with the width the tables state, a field
  read by name is the word at the field's offset, and the register accessors are total.
-/
import MdModel.DumpRegs
import MdProofs.C18
import MdProofs.Lemmas.BytesFull
namespace MdModel.Dump
open MdModel MdModel.Gen.Layouts MdModel.Gen.LayoutsX

/-! ### a field read by name is the word at its offset -/

theorem readScalar_eq {b : Bytes} {off w v : Nat} {e : Endian} (h : readScalar b off w e = some v) :
    v = decodeNat e (b.extract off (off + w)).toList := by
  unfold readScalar at h
  split at h
  · cases h
  · split at h
    · cases h
    · cases h; rfl

theorem readFields_layoutOffset : ∀ (l : Layout) (b : Bytes) (off0 : Nat) (e : Endian) (vs : List Nat),
    readFields l b off0 e = some vs → ∀ (name : String) (off w : Nat), layoutOffset l name = some (off, w) →
      getField? l vs name = some (decodeNat e (b.extract (off0 + off) (off0 + off + w)).toList) ∧
      off0 + off + w ≤ b.size := by
  intro l
  induction l with
  | nil => intro b off0 e vs _ name off w h; cases h
  | cons f rest ih =>
    intro b off0 e vs hvs name off w hoff
    obtain ⟨n, w0⟩ := f
    simp only [readFields] at hvs
    split at hvs
    · cases hvs
    · rename_i v hv
      split at hvs
      · cases hvs
      · rename_i vs' hvs'
        cases hvs
        unfold layoutOffset at hoff
        by_cases hn : (n == name) = true
        · rw [if_pos hn] at hoff
          cases hoff
          refine ⟨?_, by have := readScalar_some hv; omega⟩
          unfold getField? fieldIdx
          rw [List.findIdx?_cons]
          simp only [hn, ↓reduceIte, List.getElem?_cons_zero, Nat.add_zero]
          rw [readScalar_eq hv]
        · rw [if_neg hn] at hoff
          split at hoff
          · rename_i off' w' hrest
            cases hoff
            have ⟨h1, h2⟩ := ih b (off0 + w0) e vs' hvs' name off' w hrest
            refine ⟨?_, by omega⟩
            unfold getField? fieldIdx at h1 ⊢
            rw [List.findIdx?_cons]
            have hn' : (n == name) = false := by simpa using hn
            simp only [hn', Bool.false_eq_true, ↓reduceIte]
            cases hi : List.findIdx? (fun f => f.1 == name) rest with
            | none => rw [hi] at h1; cases h1
            | some i =>
              rw [hi] at h1
              simp only [Option.map_some, List.getElem?_cons_succ]
              simp only at h1
              rw [h1]
              have e1 : off0 + w0 + off' = off0 + (w0 + off') := by omega
              rw [e1]
          · cases hoff

/-! ### C18's cells exist in the generated layouts -/

/-- every name of the tables of context type `regsCtxOf k` denotes a cell that the generated layout
    of `k` has under the same spelling, with the width `fields` states -/
def cellsInLayout (k : CtxKind) : Bool :=
  (Regs.knownNames (regsCtxOf k)).all fun n =>
    match Regs.getCell (regsCtxOf k) n with
    | some cell =>
      (match layoutOffset k.layout (Regs.showCell cell), Regs.fieldOf (regsCtxOf k) cell.field with
       | some (_, w), some f => w * 8 == f.bits
       | _, _ => false)
    | none => false

set_option maxRecDepth 100000 in
theorem cells_in_layout (k : CtxKind) : cellsInLayout k = true := by
  cases k <;> decide +kernel

theorem cell_in_layout {k : CtxKind} {n : String} {cell : Regs.Cell} (hn : n ∈ Regs.knownNames (regsCtxOf k))
    (hc : Regs.getCell (regsCtxOf k) n = some cell) :
    ∃ off w f, layoutOffset k.layout (Regs.showCell cell) = some (off, w) ∧
      Regs.fieldOf (regsCtxOf k) cell.field = some f ∧ w * 8 = f.bits := by
  have h := cells_in_layout k
  unfold cellsInLayout at h
  rw [List.all_eq_true] at h
  have := h n hn
  rw [hc] at this
  simp only at this
  split at this
  · rename_i off w f h1 h2
    exact ⟨off, w, f, h1, h2, by simpa using this⟩
  · cases this

/-! ### the accessors of a read context -/

theorem outcomeToM_ok {α : Type} {B : Nat} {o : Outcome α} {a : α} (h : o = .ok a) : Safe B (outcomeToM o) := by
  rw [h]; exact safe_pure _

theorem getRegs_safe {B : Nat} (ctx : Gen.Regs.Ctx) (st : Regs.State) :
    ∀ ns : List String, (∀ n ∈ ns, n ∈ Regs.knownNames ctx) → Safe B (getRegs ctx st ns) := by
  intro ns
  induction ns with
  | nil => intro _; exact safe_pure _
  | cons n rest ih =>
    intro h
    unfold getRegs
    obtain ⟨_, cell, _, hg⟩ := Regs.validity_all ctx st n (h n List.mem_cons_self)
    refine safe_bind (outcomeToM_ok hg) (fun _ _ => ?_)
    exact safe_bind (ih (fun m hm => h m (List.mem_cons_of_mem _ hm))) (fun _ _ => safe_pure _)

theorem fmtRegs_safe {B : Nat} (ctx : Gen.Regs.Ctx) (st : Regs.State) :
    ∀ ns : List String, (∀ n ∈ ns, n ∈ Regs.knownNames ctx) → Safe B (fmtRegs ctx st ns) := by
  intro ns
  induction ns with
  | nil => intro _; exact safe_pure _
  | cons n rest ih =>
    intro h
    unfold fmtRegs
    obtain ⟨cell, _, hg⟩ := Regs.getAlways_known st (h n List.mem_cons_self)
    have hf : Regs.formatRegister ctx st n = .ok ("0x" ++ Regs.hexPad (st cell) (Regs.registerSize ctx * 2)) := by
      simp only [Regs.formatRegister, hg]
    refine safe_bind (outcomeToM_ok hf) (fun _ _ => ?_)
    exact safe_bind (ih (fun m hm => h m (List.mem_cons_of_mem _ hm))) (fun _ _ => safe_pure _)

theorem endsOf_mem {α : Type} (l : List α) : ∀ x ∈ endsOf l, x ∈ l := by
  intro x hx
  unfold endsOf at hx
  split at hx
  · rename_i a b ha hb
    simp only [List.mem_cons, List.mem_nil_iff, or_false] at hx
    cases hx with
    | inl h => subst h; exact List.mem_of_mem_head? ha
    | inr h => subst h; exact List.mem_of_getLast? hb
  · cases hx

theorem gpr_known (ctx : Gen.Regs.Ctx) : ∀ n ∈ Gen.Regs.registers (Gen.Regs.gprOf ctx), n ∈ Regs.knownNames ctx := by
  intro n hn
  rw [Regs.gpr_registers] at hn
  exact Regs.known_of_registers hn

/-- the register accessors of a context that `MinidumpContext::read` produced never panic, whatever
    the record holds -/
theorem ctxRegisters_safe {B : Nat} (c : Context) : Safe B (ctxRegisters c) := by
  unfold ctxRegisters
  dsimp only
  obtain ⟨vs, hvs, _, _⟩ := (Regs.enumerations_valid (regsCtxOf c.kind) (regState c) [] (fun s hs => by cases hs)).2
  refine safe_bind (outcomeToM_ok hvs) (fun _ _ => ?_)
  refine safe_bind (getRegs_safe _ _ _ (gpr_known _)) (fun _ _ => ?_)
  refine safe_bind (fmtRegs_safe _ _ _ (fun n hn => gpr_known _ n (endsOf_mem _ n hn))) (fun _ _ => safe_pure _)

theorem allocs_outcomeToM {α : Type} (o : Outcome α) : (outcomeToM o).allocs = [] := by
  cases o <;> rfl

theorem getRegs_allocs (ctx : Gen.Regs.Ctx) (st : Regs.State) : ∀ ns : List String, (getRegs ctx st ns).allocs = [] := by
  intro ns
  induction ns with
  | nil => rfl
  | cons n rest ih =>
    unfold getRegs
    exact allocs_bind_nil (allocs_outcomeToM _) (fun _ => allocs_bind_nil ih (fun _ => rfl))

theorem fmtRegs_allocs (ctx : Gen.Regs.Ctx) (st : Regs.State) : ∀ ns : List String, (fmtRegs ctx st ns).allocs = [] := by
  intro ns
  induction ns with
  | nil => rfl
  | cons n rest ih =>
    unfold fmtRegs
    exact allocs_bind_nil (allocs_outcomeToM _) (fun _ => allocs_bind_nil ih (fun _ => rfl))

theorem ctxRegisters_allocs (c : Context) : (ctxRegisters c).allocs = [] := by
  unfold ctxRegisters
  dsimp only
  exact allocs_bind_nil (allocs_outcomeToM _) (fun _ => allocs_bind_nil (getRegs_allocs _ _ _) (fun _ =>
    allocs_bind_nil (fmtRegs_allocs _ _ _) (fun _ => rfl)))

theorem registersOf_safe {B : Nat} (all : Bytes) (e : Endian) (arch : Nat) (range : Option (Nat × Nat)) :
    Safe B (registersOf all e arch range) := by
  unfold registersOf
  split
  · exact safe_pure _
  · split
    · exact safe_pure _
    · exact safe_bind (ctxRegisters_safe _) (fun _ _ => safe_pure _)

theorem registersOf_allocs (all : Bytes) (e : Endian) (arch : Nat) (range : Option (Nat × Nat)) :
    (registersOf all e arch range).allocs = [] := by
  unfold registersOf
  split
  · rfl
  · split
    · rfl
    · exact allocs_bind_nil (ctxRegisters_allocs _) (fun _ => rfl)

theorem threadRegisters_safe {B : Nat} (all : Bytes) (e : Endian) (arch : Nat) :
    ∀ ts : List Thread, Safe B (threadRegisters all e arch ts) := by
  intro ts
  induction ts with
  | nil => exact safe_pure _
  | cons t rest ih =>
    unfold threadRegisters
    exact safe_bind (registersOf_safe _ _ _ _) (fun _ _ => safe_bind ih (fun _ _ => safe_pure _))

theorem threadRegisters_allocs (all : Bytes) (e : Endian) (arch : Nat) :
    ∀ ts : List Thread, (threadRegisters all e arch ts).allocs = [] := by
  intro ts
  induction ts with
  | nil => rfl
  | cons t rest ih =>
    unfold threadRegisters
    exact allocs_bind_nil (registersOf_allocs _ _ _ _) (fun _ => allocs_bind_nil ih (fun _ => rfl))

end MdModel.Dump
