/-
  Helper lemmas for the redundancy predicate `Consistent` (C15 `consistent`).
-/
import MdProofs.Lemmas.Json
namespace MdModel.Json
open MdModel

mutual
theorem Json.beq_refl : ∀ j : Json, Json.beq j j = true
  | .null => rfl
  | .bool b => by simp [Json.beq]
  | .num n => by simp [Json.beq]
  | .str s => by simp [Json.beq]
  | .arr xs => by simp only [Json.beq]; exact Json.beqL_refl xs
  | .obj kvs => by simp only [Json.beq]; exact Json.beqF_refl kvs
theorem Json.beqL_refl : ∀ xs : List Json, Json.beqL xs xs = true
  | [] => rfl
  | x :: xs => by simp only [Json.beqL, Json.beq_refl x, Json.beqL_refl xs, Bool.and_self]
theorem Json.beqF_refl : ∀ kvs : List (String × Json), Json.beqF kvs kvs = true
  | [] => rfl
  | (k, x) :: kvs => by simp [Json.beqF, Json.beq_refl x, Json.beqF_refl kvs]
end

theorem optBeq_refl (o : Option Json) : optBeq o o = true := by
  cases o with
  | none => rfl
  | some j => exact Json.beq_refl j

@[simp] theorem isNatJ_nat (n : Nat) : isNatJ (some (.nat n)) n = true := by
  simp [isNatJ]

theorem isNatJ_of_eq (o : Option Json) (n m : Nat) (h : o = some (.nat n)) (hm : n = m) : isNatJ o m = true := by
  subst hm; subst h; exact isNatJ_nat n

theorem sameExcept_of_get (skip : List String) (a b : List (String × Json))
    (h : ∀ k, skip.contains k = false → getKV k a = getKV k b) : sameExcept skip a b = true := by
  simp only [sameExcept, List.all_eq_true]
  intro k _
  cases hk : skip.contains k with
  | true => rfl
  | false => simp [h k hk, optBeq_refl]

theorem isAbsent_optStr (o : Option String) : isAbsent (some (optStr o)) = o.isNone := by
  cases o <;> rfl

/-- one frame entry: its `frame` is its index and `missing_symbols` says whether `function` is null -/
theorem frameJson_consistent (pw : PW) (i : Nat) (f : FrameM) (j : Json) (h : frameJson pw i f = .ok j) :
    isNatJ (j.get "frame") i = true ∧
    optBeq (j.get "missing_symbols") (some (.bool (isAbsent (j.get "function")))) = true := by
  simp only [frameJson, obind] at h
  split at h
  · split at h
    · cases h
      refine ⟨by simp [get_mkObj, lookupLast], ?_⟩
      have h1 : ∀ a b c d e g h' k l m : Json,
          (mkObj [("frame", a), ("module", b), ("function", optStr f.functionName), ("file", c), ("line", d),
            ("offset", e), ("inlines", g), ("module_offset", h'), ("unloaded_modules", k),
            ("function_offset", l), ("missing_symbols", .bool f.functionName.isNone), ("trust", m)]).get "function"
            = some (optStr f.functionName) := by
        intros; simp [get_mkObj, lookupLast]
      have h2 : ∀ a b c d e g h' k l m : Json,
          (mkObj [("frame", a), ("module", b), ("function", optStr f.functionName), ("file", c), ("line", d),
            ("offset", e), ("inlines", g), ("module_offset", h'), ("unloaded_modules", k),
            ("function_offset", l), ("missing_symbols", .bool f.functionName.isNone), ("trust", m)]).get
            "missing_symbols" = some (.bool f.functionName.isNone) := by
        intros; simp [get_mkObj, lookupLast]
      rw [h1, h2, isAbsent_optStr]
      exact optBeq_refl _
    · cases h
  · cases h

theorem framesJson_consistent (pw : PW) (fs : List FrameM) (i : Nat) (js : List Json)
    (h : framesJson pw i fs = .ok js) : framesConsistent js i = true := by
  induction fs generalizing i js with
  | nil => simp only [framesJson] at h; cases h; rfl
  | cons f fs ih =>
    simp only [framesJson, obind] at h
    split at h
    · rename_i j hj
      split at h
      · rename_i js' hjs
        cases h
        obtain ⟨h1, h2⟩ := frameJson_consistent pw i f j hj
        simp only [framesConsistent, h1, h2, ih (i + 1) js' hjs, Bool.and_self]
      · cases h
    · cases h

theorem threadJson_consistent (pw : PW) (t : ThreadM) (tj : Json) (h : threadJson pw t = .ok tj) :
    threadConsistent tj = true := by
  simp only [threadJson, obind] at h
  split at h
  · rename_i fs hfs
    cases h
    have hlen := (framesJson_ok pw t.frames 0 fs hfs).1
    have hc := framesJson_consistent pw t.frames 0 fs hfs
    have hf : (mkObj [("frame_count", .nat t.frames.length), ("last_error_value", optStr t.lastError),
        ("thread_name", optStr t.threadName), ("thread_id", .nat t.threadId), ("frames", .arr fs)]).get "frames"
        = some (.arr fs) := by simp [get_mkObj, lookupLast]
    have hn : (mkObj [("frame_count", .nat t.frames.length), ("last_error_value", optStr t.lastError),
        ("thread_name", optStr t.threadName), ("thread_id", .nat t.threadId), ("frames", .arr fs)]).get "frame_count"
        = some (.nat t.frames.length) := by simp [get_mkObj, lookupLast]
    simp only [threadConsistent, hf, hn, hc, Bool.and_true]
    exact isNatJ_of_eq _ _ _ rfl hlen.symm
  · cases h

/-- the copy built by `crashingCopy` is recognised by `copyOf` -/
theorem copyOf_crashingCopy (kvs fj0 : List (String × Json)) (fjs : List Json) (regs : Json) (i : Nat)
    (hfr : getKV "frames" kvs = some (.arr (.obj fj0 :: fjs))) :
    copyOf (.obj (insertKV "threads_index" (.nat i)
      (insertKV "frames" (.arr (.obj (insertKV "registers" regs fj0) :: fjs)) kvs))) (.obj kvs) = true := by
  have h1 : sameExcept ["threads_index", "frames"] (insertKV "threads_index" (.nat i)
      (insertKV "frames" (.arr (.obj (insertKV "registers" regs fj0) :: fjs)) kvs)) kvs = true := by
    apply sameExcept_of_get
    intro k hk
    have a : k ≠ "threads_index" := by intro e; subst e; simp at hk
    have b : k ≠ "frames" := by intro e; subst e; simp at hk
    simp [getKV_insertKV, a, b]
  have h2 : sameExcept ["registers"] (insertKV "registers" regs fj0) fj0 = true := by
    apply sameExcept_of_get
    intro k hk
    have a : k ≠ "registers" := by intro e; subst e; simp at hk
    simp [getKV_insertKV, a]
  have h3 : getKV "frames" (insertKV "threads_index" (.nat i)
      (insertKV "frames" (.arr (.obj (insertKV "registers" regs fj0) :: fjs)) kvs)) =
      some (.arr (.obj (insertKV "registers" regs fj0) :: fjs)) := by
    simp [getKV_insertKV]
  simp only [copyOf, h1, h3, hfr, h2, Json.beqL_refl, getKV_insertKV, if_true, Option.isSome_some, Bool.and_self]

end MdModel.Json
