/-
  Bridge C06 ↔ walker model, part 5: `walk_with_stack_cfi` and `SymbolFile::walk_frame`.

  `WalkerSim x W`: the walker model's `CfiIn` (architecture, callee context, stack memory) and the
  C06 model's `Walker` record answer every question `walk_with_stack_cfi` asks in the same way.
  `OutSimAt`: a caller register is valid with the same value on both sides.

  The real `CfiStackWalker` (and the walker model) store the CFA and the return address in the
  stack-pointer and instruction-pointer registers, where a later rule (`$rsp: …`) can overwrite or
  clear them; the C06 `Walker` keeps them in two separate slots. `seedFwd` expresses the former in
  terms of the latter: the caller's register file starts with `sp ↦ cfa`, `ip ↦ ra`.
-/
import MdProofs.Lemmas.CfiBridgeParse
import MdProofs.C06
import MdProofs.C08
namespace MdModel.CfiBridge
open MdModel

/-- **Simulation relation between the two models' views of the callee frame.** -/
structure WalkerSim (x : Walk.CfiIn) (W : Cfi.Walker) : Prop where
  /-- callee registers and stack memory read the same -/
  env : EnvSim x W.env
  /-- `memoize_register`: same canonical name (or none) for every name -/
  memo : ∀ n : String, W.memo (utf8 n) = (x.arch.canon n).map utf8
  /-- `C::Register::try_from(u64)`: same register width -/
  fits : ∀ v : UInt64, W.fits v = decide (v.toNat ≤ x.arch.regMax)

theorem WalkerSim.withFwd {x W} (h : WalkerSim x W) (f : List (Cfi.Name × UInt64)) :
    WalkerSim x { W with fwd := f } := ⟨h.env, h.memo, h.fits⟩

/-! ## the walker model's loop body, named -/

/-- one iteration of the loop over the remaining rules (the `fun o (n, e) => …` of `Walk.walkCfi`) -/
def stepW (x : Walk.CfiIn) (cfa : Nat) (o : Walk.CfiOut) (p : String × List Walk.ETok) : Walk.CfiOut :=
  match Walk.evalCfi x (some cfa) p.2 [] with
  | some v =>
    (match o.setReg x.arch p.1 v with
     | some o' => o'
     | none => o.clearReg x.arch p.1)
  | none => o.clearReg x.arch p.1

/-- the walker after `set_cfa(cfa)?; set_ra(ra)?` -/
def afterCfaRa (a : Walk.Arch) (o : Walk.CfiOut) (cfa ra : Nat) : Walk.CfiOut :=
  { o with ctx := { o.ctx with sp := cfa, ip := ra },
           valid := Walk.setInsert (Walk.setInsert o.valid a.spName) a.ipName }

/-! ## registers as both sides see them -/

/-- raw value of the canonical register `s` -/
def rawC (a : Walk.Arch) (c : Walk.Ctx) (s : String) : Nat :=
  if s = a.ipName then c.ip else if s = a.spName then c.sp else Walk.assocGet c.rest s

/-- what the walker model says about caller register `s`: its value if valid -/
def viewW (a : Walk.Arch) (o : Walk.CfiOut) (s : String) : Option Nat :=
  if o.valid.contains s then some (rawC a o.ctx s) else none

/-- **caller register `s` (canonical name) is valid with the same value on both sides, or unknown
    on both** -/
def OutSimAt (a : Walk.Arch) (o : Walk.CfiOut) (c : Cfi.Caller) (s : String) : Prop :=
  (c.get (utf8 s)).map UInt64.toNat = viewW a o s

theorem assocGet_assocSet (l : List (String × Nat)) (k k' : String) (v : Nat) :
    Walk.assocGet (Walk.assocSet l k v) k' = if k' = k then v else Walk.assocGet l k' := by
  induction l with
  | nil =>
    by_cases h : k' = k
    · subst h; simp [Walk.assocSet, Walk.assocGet]
    · have : ¬ k = k' := fun e => h e.symm
      simp [Walk.assocSet, Walk.assocGet, h, this]
  | cons p t ih =>
    obtain ⟨k0, v0⟩ := p
    by_cases h0 : k0 = k
    · subst h0
      by_cases h : k' = k0
      · subst h; simp [Walk.assocSet, Walk.assocGet]
      · have : ¬ k0 = k' := fun e => h e.symm
        simp [Walk.assocSet, Walk.assocGet, h, this]
    · simp only [Walk.assocSet, h0, if_false, Walk.assocGet]
      by_cases h1 : k0 = k'
      · subst h1; simp [h0]
      · simp [h1, ih]

theorem setInsert_contains (l : List String) (m s : String) :
    (Walk.setInsert l m).contains s = (decide (s = m) || l.contains s) := by
  rw [Bool.eq_iff_iff]
  unfold Walk.setInsert
  by_cases h : l.contains m = true
  · simp only [h, if_true, Bool.or_eq_true, decide_eq_true_eq, List.contains_iff_mem]
    constructor
    · exact fun hm => .inr hm
    · rintro (rfl | hm)
      · exact List.contains_iff_mem.mp h
      · exact hm
  · simp only [h, Bool.false_eq_true, if_false, List.mem_append, List.mem_singleton,
      Bool.or_eq_true, decide_eq_true_eq, List.contains_iff_mem]
    constructor
    · rintro (hm | hm)
      · exact .inr hm
      · exact .inl hm
    · rintro (hm | hm)
      · exact .inr hm
      · exact .inl hm

theorem filter_ne_contains (l : List String) (m s : String) :
    (l.filter (· ≠ m)).contains s = (!decide (s = m) && l.contains s) := by
  rw [Bool.eq_iff_iff]
  simp only [List.contains_iff_mem, List.mem_filter, ne_eq, decide_not, Bool.not_eq_eq_eq_not,
    Bool.not_true, decide_eq_false_iff_not, Bool.and_eq_true]
  constructor
  · exact fun h => ⟨h.2, h.1⟩
  · exact fun h => ⟨h.2, h.1⟩

/-- the walker model's register write, on the canonical name -/
theorem setReg_spec (a : Walk.Arch) (o : Walk.CfiOut) (n : String) (v : Nat) :
    o.setReg a n v =
      match a.canon n with
      | none => none
      | some m =>
        if v > a.regMax then none
        else some { ctx := (if m = a.ipName then { o.ctx with ip := v }
                            else if m = a.spName then { o.ctx with sp := v }
                            else { o.ctx with rest := Walk.assocSet o.ctx.rest m v }),
                    valid := Walk.setInsert o.valid m } := by
  unfold Walk.CfiOut.setReg Walk.Ctx.set
  cases a.canon n with
  | none => rfl
  | some m =>
    simp only
    by_cases hv : v > a.regMax
    · simp only [hv, if_true]
    · simp only [hv, if_false]
      by_cases h1 : m = a.ipName
      · subst h1; simp only [if_true]
      · by_cases h2 : m = a.spName
        · subst h2; simp only [h1, if_true, if_false]
        · simp only [h1, h2, if_false]

theorem viewW_setReg (a : Walk.Arch) (o o' : Walk.CfiOut) (n m : String) (v : Nat) (s : String)
    (hm : a.canon n = some m) (h : o.setReg a n v = some o') :
    viewW a o' s = if s = m then some v else viewW a o s := by
  rw [setReg_spec, hm] at h
  simp only at h
  split at h
  · cases h
  · cases h
    unfold viewW
    simp only [setInsert_contains]
    by_cases hs : s = m
    · subst hs
      simp only [decide_true, Bool.true_or, if_true, Option.some.injEq]
      unfold rawC
      by_cases h1 : s = a.ipName
      · subst h1; simp
      · by_cases h2 : s = a.spName
        · subst h2; simp [h1]
        · simp [h1, h2, assocGet_assocSet]
    · simp only [hs, decide_false, Bool.false_or, if_false]
      have : rawC a (if m = a.ipName then { o.ctx with ip := v }
                            else if m = a.spName then { o.ctx with sp := v }
                            else { o.ctx with rest := Walk.assocSet o.ctx.rest m v }) s = rawC a o.ctx s := by
        unfold rawC
        by_cases h1 : m = a.ipName
        · subst h1
          simp [hs]
        · by_cases h2 : m = a.spName
          · subst h2
            simp [h1, hs]
          · simp [h1, h2, assocGet_assocSet, hs]
      rw [this]

theorem setReg_none_iff (a : Walk.Arch) (o : Walk.CfiOut) (n : String) (v : Nat) :
    o.setReg a n v = none ↔ (a.canon n = none ∨ v > a.regMax) := by
  rw [setReg_spec]
  cases a.canon n with
  | none => simp
  | some m =>
    simp only
    split <;> simp_all

theorem viewW_clearReg (a : Walk.Arch) (o : Walk.CfiOut) (n : String) (s : String) :
    viewW a (o.clearReg a n) s = if a.canon n = some s then none else viewW a o s := by
  unfold Walk.CfiOut.clearReg
  cases hm : a.canon n with
  | none => simp
  | some m =>
    unfold viewW
    simp only [filter_ne_contains, Option.some.injEq]
    by_cases hs : s = m
    · subst hs; simp
    · have : ¬ m = s := fun e => hs e.symm
      simp [hs, this]

/-- effect of one loop iteration on the view of register `s` (the walker-model twin of `Cfi.upd`) -/
theorem viewW_stepW (x : Walk.CfiIn) (cfa : Nat) (o : Walk.CfiOut) (p : String × List Walk.ETok) (s : String) :
    viewW x.arch (stepW x cfa o p) s =
      if x.arch.canon p.1 = some s then
        match Walk.evalCfi x (some cfa) p.2 [] with
        | some v => if v ≤ x.arch.regMax then some v else none
        | none => none
      else viewW x.arch o s := by
  unfold stepW
  cases he : Walk.evalCfi x (some cfa) p.2 [] with
  | none => simp only [viewW_clearReg]
  | some v =>
    simp only
    cases hset : o.setReg x.arch p.1 v with
    | none =>
      simp only [viewW_clearReg]
      rcases (setReg_none_iff _ _ _ _).mp hset with h | h
      · simp [h]
      · have : ¬ v ≤ x.arch.regMax := by omega
        simp [this]
    | some o' =>
      have hne : ¬ (x.arch.canon p.1 = none ∨ v > x.arch.regMax) := fun h => by
        rw [(setReg_none_iff _ _ _ _).mpr h] at hset; cases hset
      cases hm : x.arch.canon p.1 with
      | none => exact absurd (.inl hm) hne
      | some m =>
        have hv : v ≤ x.arch.regMax := by
          have : ¬ v > x.arch.regMax := fun h => hne (.inr h)
          omega
        rw [viewW_setReg _ _ _ _ _ _ _ hm hset]
        by_cases hs : s = m
        · subst hs; simp [hv]
        · have : ¬ m = s := fun e => hs e.symm
          simp [hs, this]

/-! ## one rule on both sides -/

theorem evalCfi_bridge (x : Walk.CfiIn) (W : Cfi.Walker) (h : WalkerSim x W) (cfa : Option UInt64)
    (ew : List Walk.ETok) (ec : Cfi.Expr) (he : ec.map Cfi.classify = ew.map tokOf)
    (hwf : ∀ t ∈ ew, ETokWf t) :
    Walk.evalCfi x (cfa.map UInt64.toNat) ew [] = (Cfi.evalCfi W.env cfa ec).map UInt64.toNat := by
  rw [evalCfi_toks x W.env h.env cfa ew hwf]
  unfold Cfi.evalCfi
  rw [he]

theorem step_sim (x : Walk.CfiIn) (W : Cfi.Walker) (h : WalkerSim x W) (cfa : UInt64)
    (o : Walk.CfiOut) (c : Cfi.Caller) (pw : String × List Walk.ETok) (pc : Cfi.Name × Cfi.Expr)
    (hp : fC pc = fW pw) (hwf : ∀ t ∈ pw.2, ETokWf t) (s : String)
    (hs : OutSimAt x.arch o c s) :
    OutSimAt x.arch (stepW x cfa.toNat o pw) (Cfi.applyOther W cfa c pc) s := by
  unfold OutSimAt at hs ⊢
  have hn : pc.1 = utf8 pw.1 := congrArg Prod.fst hp
  have he : pc.2.map Cfi.classify = pw.2.map tokOf := congrArg Prod.snd hp
  rw [Cfi.get_applyOther, viewW_stepW, ← hs]
  unfold Cfi.upd
  rw [hn, h.memo]
  have hev := evalCfi_bridge x W h (some cfa) pw.2 pc.2 he hwf
  simp only [Option.map_some] at hev
  rw [hev]
  have hiff : ((x.arch.canon pw.1).map utf8 = some (utf8 s)) ↔ x.arch.canon pw.1 = some s := by
    cases x.arch.canon pw.1 with
    | none => simp
    | some m => simp [utf8_eq_iff]
  by_cases hc : x.arch.canon pw.1 = some s
  · simp only [hc, Option.map_some, if_true]
    cases Cfi.evalCfi W.env (some cfa) pc.2 with
    | none => rfl
    | some v =>
      simp only [Option.map_some, h.fits v]
      by_cases hv : v.toNat ≤ x.arch.regMax <;> simp [hv]
  · have : ¬ ((x.arch.canon pw.1).map utf8 = some (utf8 s)) := fun e => hc (hiff.mp e)
    simp only [hc, this, if_false]

theorem fold_sim (x : Walk.CfiIn) (W : Cfi.Walker) (h : WalkerSim x W) (cfa : UInt64) (s : String)
    (lw : List (String × List Walk.ETok)) :
    ∀ (lc : List (Cfi.Name × Cfi.Expr)) (o : Walk.CfiOut) (c : Cfi.Caller),
      lc.map fC = lw.map fW → (∀ p ∈ lw, ∀ t ∈ p.2, ETokWf t) → OutSimAt x.arch o c s →
      OutSimAt x.arch (lw.foldl (stepW x cfa.toNat) o) (lc.foldl (Cfi.applyOther W cfa) c) s := by
  induction lw with
  | nil =>
    intro lc o c hl _ hs
    cases lc with
    | nil => exact hs
    | cons _ _ => simp at hl
  | cons pw lw ih =>
    intro lc o c hl hwf hs
    cases lc with
    | nil => simp at hl
    | cons pc lc =>
      simp only [List.map_cons, List.cons.injEq] at hl
      simp only [List.foldl_cons]
      exact ih lc _ _ hl.2 (fun p hp => hwf p (List.mem_cons_of_mem _ hp))
        (step_sim x W h cfa o c pw pc hl.1 (hwf pw List.mem_cons_self) s hs)

/-! ## CFA and return address stored as registers -/

/-- the caller's register file with which the C06 `Walker` starts, once the CFA and the return
    address are stored the way `CfiStackWalker::set_cfa` / `set_ra` store them: in the
    stack-pointer and instruction-pointer registers -/
def seedFwd (a : Walk.Arch) (fwd : List (Cfi.Name × UInt64)) (cfa ra : UInt64) : List (Cfi.Name × UInt64) :=
  (utf8 a.ipName, ra) :: Cfi.eraseName ((utf8 a.spName, cfa) :: Cfi.eraseName fwd (utf8 a.spName)) (utf8 a.ipName)

/-- it is the list the C06 model's `stack` protocol entry (the real `CfiStackWalker` through
    `walk_stack`) starts its second walk with -/
theorem seedFwd_eq_storeCfaRa (a : Walk.Arch) (fwd : List (Cfi.Name × UInt64)) (cfa ra : UInt64) :
    seedFwd a fwd cfa ra = Cfi.storeCfaRa (utf8 a.spName) (utf8 a.ipName) fwd cfa ra := rfl

theorem lookup_seedFwd (a : Walk.Arch) (fwd : List (Cfi.Name × UInt64)) (cfa ra : UInt64) (s : String) :
    Cfi.lookupName (seedFwd a fwd cfa ra) (utf8 s) =
      if s = a.ipName then some ra else if s = a.spName then some cfa else Cfi.lookupName fwd (utf8 s) := by
  unfold seedFwd
  rw [Cfi.lookupName_cons]
  by_cases h1 : s = a.ipName
  · simp [h1]
  · have h1' : ¬ utf8 a.ipName = utf8 s := fun e => h1 (utf8_inj e).symm
    simp only [h1', h1, if_false]
    rw [Cfi.lookupName_erase_ne _ _ _ h1', Cfi.lookupName_cons]
    by_cases h2 : s = a.spName
    · simp [h2]
    · have h2' : ¬ utf8 a.spName = utf8 s := fun e => h2 (utf8_inj e).symm
      simp only [h2', h2, if_false]
      rw [Cfi.lookupName_erase_ne _ _ _ h2']

theorem viewW_afterCfaRa (a : Walk.Arch) (o : Walk.CfiOut) (cfa ra : Nat) (s : String) :
    viewW a (afterCfaRa a o cfa ra) s =
      if s = a.ipName then some ra else if s = a.spName then some cfa else viewW a o s := by
  unfold viewW afterCfaRa rawC
  simp only [setInsert_contains]
  by_cases h1 : s = a.ipName
  · subst h1; simp
  · by_cases h2 : s = a.spName
    · subst h2; simp [h1]
    · simp [h1, h2]

/-- after `set_cfa; set_ra` the two sides are related at every register that was related before,
    and at the stack pointer and the instruction pointer -/
theorem seed_sim (a : Walk.Arch) (o : Walk.CfiOut) (fwd : List (Cfi.Name × UInt64)) (cfa ra : UInt64)
    (s : String) (h : s = a.spName ∨ s = a.ipName ∨ OutSimAt a o ⟨none, none, fwd⟩ s) :
    OutSimAt a (afterCfaRa a o cfa.toNat ra.toNat) ⟨some cfa, some ra, seedFwd a fwd cfa ra⟩ s := by
  unfold OutSimAt Cfi.Caller.get
  rw [viewW_afterCfaRa, lookup_seedFwd]
  by_cases h1 : s = a.ipName
  · subst h1; simp
  · by_cases h2 : s = a.spName
    · subst h2; simp [h1]
    · simp only [h1, h2, if_false]
      rcases h with h | h | h
      · exact absurd h h2
      · exact absurd h h1
      · exact h

/-! ## `walk_with_stack_cfi` -/

theorem otherRules_wf {rs : List (Walk.CfiReg × List Walk.ETok)} (hwf : ∀ p ∈ rs, ∀ t ∈ p.2, ETokWf t) :
    ∀ p ∈ Walk.otherRules rs, ∀ t ∈ p.2, ETokWf t := by
  intro p hp
  unfold Walk.otherRules at hp
  obtain ⟨q, hq, hqp⟩ := List.mem_filterMap.mp hp
  obtain ⟨k, e⟩ := q
  cases k <;> simp at hqp
  subst hqp
  exact hwf _ hq

/-- **`walk_with_stack_cfi`, lock-step.** For related walkers the two models go through the same
    stages: both fail to parse, or lack `.cfa`/`.ra`, or fail to evaluate them (the CFA rule
    without a CFA, the return address with it), or reject their width — or both succeed with the
    same CFA and return address, and then the walker model's result is its loop (`stepW`) over a
    rule list that is, name by name and rule by rule, the C06 model's sorted list. -/
theorem walkCfi_core (x : Walk.CfiIn) (W : Cfi.Walker) (h : WalkerSim x W) (o0 : Walk.CfiOut)
    (init : String) (adds : List String) :
    (Cfi.walkCfi W ((init :: adds).map utf8) = none ∧ Walk.walkCfi x o0 init adds = none) ∨
    ∃ m cfaE raE cfa ra rs,
      Cfi.parseAll ((init :: adds).map utf8) [] = some m ∧ m.get .cfa = some cfaE ∧ m.get .ra = some raE ∧
      Cfi.evalCfi W.env none cfaE = some cfa ∧ Cfi.evalCfi W.env (some cfa) raE = some ra ∧
      W.fits cfa = true ∧ W.fits ra = true ∧ MapRel rs m ∧
      Walk.walkCfi x o0 init adds =
        some (((Walk.otherRules rs).mergeSort fun p q => Walk.strLe p.1 q.1).foldl (stepW x cfa.toNat)
          (afterCfaRa x.arch o0 cfa.toNat ra.toNat)) := by
  have hparse := parseAll_bridge (init :: adds) [] [] MapRel.nil
  unfold Walk.walkCfi Cfi.walkCfi
  simp only []
  cases hw : (init :: adds).foldl (fun acc line => acc.bind fun out =>
      Walk.parseRules (Walk.tokenize line) none [] out) (some []) with
  | none =>
    rw [hw] at hparse
    cases hc : Cfi.parseAll ((init :: adds).map utf8) [] with
    | none => left; exact ⟨rfl, rfl⟩
    | some _ => rw [hc] at hparse; exact hparse.elim
  | some rs =>
    rw [hw] at hparse
    cases hc : Cfi.parseAll ((init :: adds).map utf8) [] with
    | none => rw [hc] at hparse; exact hparse.elim
    | some m =>
      rw [hc] at hparse
      have hrel : MapRel rs m := hparse
      have hl1 := hrel.lookup .cfa
      have hl2 := hrel.lookup .ra
      simp only [regOf] at hl1 hl2
      simp only []
      cases hwc : rs.lookup Walk.CfiReg.cfa with
      | none =>
        rw [hwc] at hl1
        cases hcc : m.get .cfa with
        | some _ => rw [hcc] at hl1; cases hl1
        | none => left; exact ⟨rfl, rfl⟩
      | some cfaW =>
        rw [hwc] at hl1
        cases hcc : m.get .cfa with
        | none => rw [hcc] at hl1; cases hl1
        | some cfaE =>
          rw [hcc] at hl1
          simp only [Option.map_some, Option.some.injEq] at hl1
          cases hwr : rs.lookup Walk.CfiReg.ra with
          | none =>
            rw [hwr] at hl2
            cases hcr : m.get .ra with
            | some _ => rw [hcr] at hl2; cases hl2
            | none => left; exact ⟨rfl, rfl⟩
          | some raW =>
            rw [hwr] at hl2
            cases hcr : m.get .ra with
            | none => rw [hcr] at hl2; cases hl2
            | some raE =>
              rw [hcr] at hl2
              simp only [Option.map_some, Option.some.injEq] at hl2
              simp only []
              have hwf1 := lookup_wf hrel.wf _ _ hwc
              have hwf2 := lookup_wf hrel.wf _ _ hwr
              have e1 := evalCfi_bridge x W h none cfaW cfaE hl1 hwf1
              simp only [Option.map_none] at e1
              rw [e1]
              cases hcfa : Cfi.evalCfi W.env none cfaE with
              | none => left; exact ⟨rfl, rfl⟩
              | some cfa =>
                simp only [Option.map_some]
                have e2 := evalCfi_bridge x W h (some cfa) raW raE hl2 hwf2
                simp only [Option.map_some] at e2
                rw [e2]
                cases hra : Cfi.evalCfi W.env (some cfa) raE with
                | none => left; exact ⟨rfl, rfl⟩
                | some ra =>
                  simp only [Option.map_some, Cfi.Walker.setCfa, Cfi.Walker.setRa, h.fits]
                  by_cases hf1 : cfa.toNat ≤ x.arch.regMax
                  · by_cases hf2 : ra.toNat ≤ x.arch.regMax
                    · right
                      refine ⟨m, cfaE, raE, cfa, ra, rs, rfl, hcc, hcr, hcfa, hra, ?_, ?_, hrel, ?_⟩
                      · exact decide_eq_true hf1
                      · exact decide_eq_true hf2
                      · have : ¬ (cfa.toNat > x.arch.regMax ∨ ra.toNat > x.arch.regMax) := by omega
                        simp only [this, if_false]
                        rfl
                    · left
                      have : (cfa.toNat > x.arch.regMax ∨ ra.toNat > x.arch.regMax) := by omega
                      simp [hf1, hf2, this]
                  · left
                    have : (cfa.toNat > x.arch.regMax ∨ ra.toNat > x.arch.regMax) := by omega
                    simp [hf1, this]


/-- the C06 `Walker` whose caller register file starts with `sp ↦ cfa`, `ip ↦ ra` -/
def seeded (a : Walk.Arch) (W : Cfi.Walker) (cfa ra : UInt64) : Cfi.Walker :=
  { W with fwd := seedFwd a W.fwd cfa ra }

theorem mem_sorted_wf {rs : List (Walk.CfiReg × List Walk.ETok)} (hwf : ∀ p ∈ rs, ∀ t ∈ p.2, ETokWf t) :
    ∀ p ∈ (Walk.otherRules rs).mergeSort (fun p q => Walk.strLe p.1 q.1), ∀ t ∈ p.2, ETokWf t :=
  fun p hp => otherRules_wf hwf p (List.mem_mergeSort.mp hp)

/-- **`walkCfi ≙ walkCfi`.** For related walkers, on every INIT text and every list of delta
    texts: the two models fail together; when they succeed, the C06 model's CFA and return address
    are the values the walker model stored in the stack pointer and the instruction pointer
    before the remaining rules ran, and — running the C06 model with those two stored as registers
    (`seeded`) — every caller register is valid with the same value, or unknown, on both sides
    (at `sp`, `ip`, and at every register on which the initial states agreed). -/
theorem walkCfi_bridge (x : Walk.CfiIn) (W : Cfi.Walker) (h : WalkerSim x W) (o0 : Walk.CfiOut)
    (init : String) (adds : List String) :
    match Cfi.walkCfi W ((init :: adds).map utf8) with
    | none => Walk.walkCfi x o0 init adds = none
    | some c =>
      ∃ cfa ra o c', c.cfa = some cfa ∧ c.ra = some ra ∧
        Walk.walkCfi x o0 init adds = some o ∧
        Cfi.walkCfi (seeded x.arch W cfa ra) ((init :: adds).map utf8) = some c' ∧
        c'.cfa = some cfa ∧ c'.ra = some ra ∧
        ∀ s, (s = x.arch.spName ∨ s = x.arch.ipName ∨ OutSimAt x.arch o0 W.caller0 s) →
          OutSimAt x.arch o c' s := by
  rcases walkCfi_core x W h o0 init adds with ⟨hc, hw⟩ | ⟨m, cfaE, raE, cfa, ra, rs, hm, hcfaE, hraE, he1, he2, hf1, hf2, hrel, hw⟩
  · rw [hc]; exact hw
  · have hC : Cfi.walkCfi W ((init :: adds).map utf8) = some _ :=
      (Cfi.walkCfi_some_iff W _ _).mpr ⟨m, cfaE, raE, cfa, ra, hm, hcfaE, hraE, he1, he2, hf1, hf2, rfl⟩
    have hC' : Cfi.walkCfi (seeded x.arch W cfa ra) ((init :: adds).map utf8) = some _ :=
      (Cfi.walkCfi_some_iff (seeded x.arch W cfa ra) _ _).mpr
        ⟨m, cfaE, raE, cfa, ra, hm, hcfaE, hraE, he1, he2, hf1, hf2, rfl⟩
    rw [hC]
    refine ⟨cfa, ra, _, _, ?_, ?_, hw, hC', ?_, ?_, ?_⟩
    · exact (Cfi.foldl_applyOther_cfa_ra W cfa _ _).1
    · exact (Cfi.foldl_applyOther_cfa_ra W cfa _ _).2
    · exact (Cfi.foldl_applyOther_cfa_ra _ cfa _ _).1
    · exact (Cfi.foldl_applyOther_cfa_ra _ cfa _ _).2
    · intro s hs
      have hW' : WalkerSim x (seeded x.arch W cfa ra) := h.withFwd _
      refine fold_sim x _ hW' cfa s _ _ _ _ (others_sorted_eq hrel) (mem_sorted_wf hrel.wf) ?_
      exact seed_sim x.arch o0 W.fwd cfa ra s hs

/-! ## `SymbolFile::walk_frame`: INIT + the deltas at or below the lookup address -/

/-- the walker model's record, as the C06 model's (texts as UTF-8 bytes) -/
def recOf (r : Walk.CfiRec) : Cfi.CfiRec :=
  ⟨r.addr, r.size, utf8 r.init, r.adds.map fun p => (p.1, utf8 p.2)⟩

/-- the delta texts the walker model selects for module-relative address `a` -/
def selOf (r : Walk.CfiRec) (a : Nat) : List String :=
  ((r.adds.mergeSort Walk.addLe).takeWhile fun p => p.1 ≤ a).map (·.2)

def gAdd (p : Nat × String) : Nat × Cfi.Bytes := (p.1, utf8 p.2)

theorem ruleLe_gAdd (p q : Nat × String) : Cfi.ruleLe (gAdd p) (gAdd q) = Walk.addLe p q := by
  simp only [Cfi.ruleLe, Walk.addLe, gAdd, strLe_enc]
  rfl

theorem ruleLe_antisymm (a b : Nat × Cfi.Bytes) (h1 : Cfi.ruleLe a b = true) (h2 : Cfi.ruleLe b a = true) : a = b := by
  unfold Cfi.ruleLe at h1 h2
  simp only [Bool.or_eq_true, decide_eq_true_eq, Bool.and_eq_true, beq_iff_eq] at h1 h2
  obtain ⟨a1, a2⟩ := a
  obtain ⟨b1, b2⟩ := b
  simp only at h1 h2
  rcases h1 with h1 | ⟨h1, h1'⟩
  · rcases h2 with h2 | ⟨h2, _⟩ <;> omega
  · rcases h2 with h2 | ⟨_, h2'⟩
    · omega
    · rw [h1, Cfi.bytesLe_antisymm _ _ h1' h2']

/-- **`add_rules.sort()`**: insertion sort by (address, bytes) = merge sort by (address, `String`) -/
theorem sortAdds_map (adds : List (Nat × String)) :
    Cfi.sortAdds (adds.map gAdd) = (adds.mergeSort Walk.addLe).map gAdd := by
  unfold Cfi.sortAdds
  apply List.Perm.eq_of_pairwise (le := fun a b => Cfi.ruleLe a b = true)
  · intro a b _ _ h1 h2; exact ruleLe_antisymm a b h1 h2
  · exact Cfi.sortBy_pairwise _ Cfi.ruleLe_total Cfi.ruleLe_trans _
  · rw [List.pairwise_map]
    have hs := List.pairwise_mergeSort (le := Walk.addLe)
      (fun a b c h1 h2 => by
        rw [← ruleLe_gAdd] at h1 h2 ⊢; exact Cfi.ruleLe_trans _ _ _ h1 h2)
      (fun a b => by
        rw [← ruleLe_gAdd, ← ruleLe_gAdd, Bool.or_eq_true]; exact Cfi.ruleLe_total _ _)
      adds
    exact hs.imp (fun {a b} hab => by rw [ruleLe_gAdd]; exact hab)
  · exact (Cfi.sortBy_perm _ _).trans ((List.mergeSort_perm _ _).map _).symm

/-- **rule selection**: the lines the C06 model hands to `walk_with_stack_cfi` for a record and an
    address are the UTF-8 bytes of the lines the walker model hands over -/
theorem linesAt_recOf (r : Walk.CfiRec) (a : Nat) :
    Cfi.linesAt (recOf r) a = (r.init :: selOf r a).map utf8 := by
  unfold Cfi.linesAt Cfi.selectAdds recOf selOf
  have : (r.adds.map fun p => (p.1, utf8 p.2)) = r.adds.map gAdd := rfl
  simp only [this, sortAdds_map, List.map_cons, List.cons.injEq, true_and, List.takeWhile_map, List.map_map]
  rfl

theorem mkRange_spec' {b s : Nat} {r : RangeMap.Rng} (h : RangeMap.mkRange b s = some r) :
    r.lo = b ∧ r.hi = b + s - 1 ∧ 0 < s ∧ b + s ≤ U64MAX := by
  unfold RangeMap.mkRange at h
  split at h
  · cases h
  · split at h
    · cases h
    · cases h; exact ⟨rfl, rfl, by omega, by omega⟩

/-- C08 → here: the record the walker's CFI table returns for an address covers that address in
    the C06 model's sense (`StackInfoCfi::memory_range().contains(addr)`) -/
theorem covers_of_cfiTable (sf : Walk.SymFile) (a i : Nat) (rec : Walk.CfiRec)
    (hget : RangeMap.get (Walk.cfiTable sf) a = some i) (hrec : sf.cfis[i]? = some rec) :
    (recOf rec).covers a = true := by
  unfold Walk.cfiTable at hget
  obtain ⟨r, hmem, hlo, hhi⟩ := RangeMap.getP_sound _ a i hget
  obtain ⟨q, hq, hqr⟩ := List.mem_filterMap.mp hmem
  obtain ⟨c, j⟩ := q
  simp only [Option.map_eq_some_iff, Prod.mk.injEq] at hqr
  obtain ⟨r', hr', rfl, rfl⟩ := hqr
  have hc : sf.cfis[j]? = some c := by
    have := List.mem_zipIdx_iff_getElem?.mp hq
    simpa using this
  rw [hc] at hrec
  cases hrec
  obtain ⟨h1, h2, h3, h4⟩ := mkRange_spec' hr'
  simp only [Cfi.CfiRec.covers, recOf, Bool.and_eq_true, bne_iff_ne, ne_eq]
  refine ⟨⟨⟨?_, decide_eq_true ?_⟩, decide_eq_true ?_⟩, decide_eq_true ?_⟩ <;> omega

/-- the two models' `walk_frame` reduce to their `walk_with_stack_cfi` on corresponding lines -/
theorem walkFrame_reduce (sf : Walk.SymFile) (modBase : Nat) (x : Walk.CfiIn) (o : Walk.CfiOut)
    (W : Cfi.Walker) (i : Nat) (rec : Walk.CfiRec) (hge : ¬ W.instr < modBase)
    (hget : RangeMap.get (Walk.cfiTable sf) (W.instr - modBase) = some i) (hrec : sf.cfis[i]? = some rec) :
    Walk.walkFrameCfi sf (Walk.cfiTable sf) modBase x o W.instr =
        Walk.walkCfi x o rec.init (selOf rec (W.instr - modBase)) ∧
    Cfi.walkFrame (recOf rec) modBase W =
        Cfi.walkCfi W ((rec.init :: selOf rec (W.instr - modBase)).map utf8) := by
  constructor
  · unfold Walk.walkFrameCfi
    simp only [hge, if_false, hget, hrec]
    rfl
  · unfold Cfi.walkFrame
    simp only [hge, if_false, covers_of_cfiTable sf _ i rec hget hrec, if_true, linesAt_recOf]

/-- **`walkFrameCfi ≙ walkFrame`.** With the walker model's own CFI table (`cfiTable sf`, C08's
    range map): below the module base, or when no record covers the address, the walker model
    finds no caller; when the table yields record `rec`, the walker model's `walk_frame` and the
    C06 model's on `recOf rec` are related exactly as in `walkCfi_bridge`. -/
theorem walkFrame_bridge (sf : Walk.SymFile) (modBase : Nat) (x : Walk.CfiIn) (o0 : Walk.CfiOut)
    (W : Cfi.Walker) (h : WalkerSim x W) :
    (W.instr < modBase → Walk.walkFrameCfi sf (Walk.cfiTable sf) modBase x o0 W.instr = none ∧
        ∀ r, Cfi.walkFrame r modBase W = none) ∧
    (RangeMap.get (Walk.cfiTable sf) (W.instr - modBase) = none →
        Walk.walkFrameCfi sf (Walk.cfiTable sf) modBase x o0 W.instr = none) ∧
    (∀ i rec, ¬ W.instr < modBase → RangeMap.get (Walk.cfiTable sf) (W.instr - modBase) = some i →
        sf.cfis[i]? = some rec →
        match Cfi.walkFrame (recOf rec) modBase W with
        | none => Walk.walkFrameCfi sf (Walk.cfiTable sf) modBase x o0 W.instr = none
        | some c =>
          ∃ cfa ra o c', c.cfa = some cfa ∧ c.ra = some ra ∧
            Walk.walkFrameCfi sf (Walk.cfiTable sf) modBase x o0 W.instr = some o ∧
            Cfi.walkFrame (recOf rec) modBase (seeded x.arch W cfa ra) = some c' ∧
            c'.cfa = some cfa ∧ c'.ra = some ra ∧
            ∀ s, (s = x.arch.spName ∨ s = x.arch.ipName ∨ OutSimAt x.arch o0 W.caller0 s) →
              OutSimAt x.arch o c' s) := by
  refine ⟨?_, ?_, ?_⟩
  · intro hlt
    constructor
    · unfold Walk.walkFrameCfi; simp [hlt]
    · intro r; unfold Cfi.walkFrame; simp [hlt]
  · intro hnone
    unfold Walk.walkFrameCfi
    by_cases hlt : W.instr < modBase
    · simp [hlt]
    · simp [hlt, hnone]
  · intro i rec hge hget hrec
    obtain ⟨hw, hc⟩ := walkFrame_reduce sf modBase x o0 W i rec hge hget hrec
    rw [hw, hc]
    have hb := walkCfi_bridge x W h o0 rec.init (selOf rec (W.instr - modBase))
    cases hres : Cfi.walkCfi W ((rec.init :: selOf rec (W.instr - modBase)).map utf8) with
    | none => rw [hres] at hb; exact hb
    | some c =>
      rw [hres] at hb
      obtain ⟨cfa, ra, o, c', h1, h2, h3, h4, h5, h6, h7⟩ := hb
      refine ⟨cfa, ra, o, c', h1, h2, h3, ?_, h5, h6, h7⟩
      have := (walkFrame_reduce sf modBase x o0 (seeded x.arch W cfa ra) i rec hge hget hrec).2
      rw [this]; exact h4

end MdModel.CfiBridge
